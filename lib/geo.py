"""Exact-rational geometry helpers shared by the oracles."""
from fractions import Fraction as Fr

def V(p): return (Fr(p[0]), Fr(p[1]), Fr(p[2]))
def sub(a, b): return (a[0] - b[0], a[1] - b[1], a[2] - b[2])
def add(a, b): return (a[0] + b[0], a[1] + b[1], a[2] + b[2])
def scale(a, s): return (a[0] * s, a[1] * s, a[2] * s)
def dot(a, b): return a[0] * b[0] + a[1] * b[1] + a[2] * b[2]
def cross(a, b): return (a[1] * b[2] - a[2] * b[1], a[2] * b[0] - a[0] * b[2], a[0] * b[1] - a[1] * b[0])
def len2(a): return dot(a, a)

def unflat(v):
    return [V(v[i:i + 3]) for i in range(0, len(v), 3)]

def newell(pts):
    """sum of v_i x v_{i+1} (twice the vector area)"""
    s = (Fr(0), Fr(0), Fr(0)); n = len(pts)
    for i in range(n): s = add(s, cross(pts[i], pts[(i + 1) % n]))
    return s

def dominant_axis(n):
    a = [abs(x) for x in n]
    return a.index(max(a))

def project(p, axis):
    """drop the dominant axis of the normal, keeping orientation"""
    if axis == 0: return (p[1], p[2])
    if axis == 1: return (p[2], p[0])
    return (p[0], p[1])

def orient2(a, b, c): return (b[0] - a[0]) * (c[1] - a[1]) - (b[1] - a[1]) * (c[0] - a[0])

def seg_params2(a, b, c, d):
    """parameters (t on ab, u on cd) of the crossing of the lines, None if parallel"""
    r = (b[0] - a[0], b[1] - a[1]); s = (d[0] - c[0], d[1] - c[1])
    den = r[0] * s[1] - r[1] * s[0]
    if den == 0: return None
    qp = (c[0] - a[0], c[1] - a[1])
    t = (qp[0] * s[1] - qp[1] * s[0]) / den
    u = (qp[0] * r[1] - qp[1] * r[0]) / den
    return t, u

def dist2_point_seg2(p, a, b):
    d = (b[0] - a[0], b[1] - a[1]); l2 = d[0] * d[0] + d[1] * d[1]
    if l2 == 0: t = Fr(0)
    else:
        t = ((p[0] - a[0]) * d[0] + (p[1] - a[1]) * d[1]) / l2
        t = max(Fr(0), min(Fr(1), t))
    c = (a[0] + t * d[0], a[1] + t * d[1])
    return (p[0] - c[0]) ** 2 + (p[1] - c[1]) ** 2

def dist2_seg_seg2(a, b, c, d):
    pr = seg_params2(a, b, c, d)
    if pr is not None and 0 <= pr[0] <= 1 and 0 <= pr[1] <= 1: return Fr(0)
    return min(dist2_point_seg2(a, c, d), dist2_point_seg2(b, c, d), dist2_point_seg2(c, a, b), dist2_point_seg2(d, a, b))

def winding2(poly, q):
    """winding number of q w.r.t. the closed polygon (q not on the outline)"""
    wn = 0; n = len(poly)
    for i in range(n):
        a, b = poly[i], poly[(i + 1) % n]
        if a[1] <= q[1]:
            if b[1] > q[1] and orient2(a, b, q) > 0: wn += 1
        else:
            if b[1] <= q[1] and orient2(a, b, q) < 0: wn -= 1
    return wn

def dist2_to_outline2(poly, q):
    n = len(poly)
    return min(dist2_point_seg2(q, poly[i], poly[(i + 1) % n]) for i in range(n))

def area2_signed(poly):
    n = len(poly)
    return sum(poly[i][0] * poly[(i + 1) % n][1] - poly[(i + 1) % n][0] * poly[i][1] for i in range(n)) / 2
