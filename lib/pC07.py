"""C07: interval arithmetic on ApproxFloat encloses the exact result."""
import math
from fractions import Fraction
from props import Stream
from fx import *

LEVEL = 'proof'
RULE = ('cases = (operator form, operand intervals) drawn from one SplitMix64 state: special values, powers of two and '
        'neighbours, subnormals, huge/tiny, point/ulp-wide/relative/straddling/ill-formed intervals, cycling over the 18 operator '
        'forms + sqrt + constructors (from_value_and_error, from_bounds incl. inverted / NaN bounds) + next_float_up/down + max_min; non-trivial = operands finite, well formed and inside the '
        "property's domain (divisor without zero, radicand >= 0); distinct = distinct (op, operand bits)")
ASSUMPTIONS = [
    'Coq 8.16.1 kernel + vm_compute (no native_compute); Flocq 4.1.0 definitions of binary_float/Bplus/.../Bsucc/Bpred',
    'hand-written Gallina model (coq/Model/RoundError.v) equals src/round_error.rs: checked bit-for-bit on the generated cases, not proved',
    'rustc/LLVM evaluate + - * / sqrt in IEEE-754 binary64 round-to-nearest-even without contraction on x86-64',
    'theorems are stated for every binary format (prec, emax); binary64/binary32 are instances',
]
THEOREMS = None

def streams(tier):
    if tier == 'quick': return [Stream('C07', 1500)]
    if tier == 'search': return [Stream('C07', 20000)]
    return [Stream('C07', 40000), Stream('C07', 10000, release=True), Stream('C07', 3000, f32=True)]

BIN_AF = {'add', 'sub', 'mul', 'div', 'add_assign', 'sub_assign', 'mul_assign', 'div_assign'}
BIN_F = {'add_f', 'sub_f', 'mul_f', 'div_f', 'add_assign_f', 'sub_assign_f', 'mul_assign_f', 'div_assign_f'}
PROP_OPS = BIN_AF | BIN_F | {'neg', 'sqrt'}

def vals(c, st):
    fm = Fmt(st.f32 if st is not None else False)
    return [fm.fl(b) for b in c['in']], [fm.fl(b) for b in c['out']]

def base(op):
    return op.replace('_assign', '').replace('_f', '')

def in_domain(op, i):
    al, ah, bl, bh = i
    if op not in PROP_OPS: return False
    if not (finite(al) and finite(ah) and al <= ah): return False
    if op in BIN_AF:
        if not (finite(bl) and finite(bh) and bl <= bh): return False
        if base(op) == 'div' and bl <= 0 <= bh: return False
    if op in BIN_F:
        if not finite(bl): return False
        if base(op) == 'div' and bl == 0: return False
    if op == 'sqrt' and al < 0: return False
    return True

def classify(c, st):
    i, o = vals(c, st)
    op = c['op']
    triv = not in_domain(op, i)
    if op == 'from_bounds':
        # constructor (correspondence only): ordered / inverted / NaN bounds, and whether the debug assertion fired
        kind = 'nan' if (math.isnan(i[0]) or math.isnan(i[1])) else ('ordered' if i[0] <= i[1] else 'inverted')
        return (op, tuple(c['in'])), True, 'from_bounds:%s:%s' % (kind, 'panic(debug)' if c.get('panicked') else 'ok')
    return (op, tuple(c['in'])), triv, op + (':domain' if not triv else ':outside')

def describe(c, st):
    i, o = vals(c, st)
    return dict(op=c['op'], a=[hexf(i[0]), hexf(i[1])], b=[hexf(i[2]), hexf(i[3])], result=[hexf(o[0]), hexf(o[1])])

def samples3(lo, hi):
    lo, hi = Fraction(lo), Fraction(hi)
    return [lo, hi, (lo + hi) / 2, lo + (hi - lo) / 3]

def oracle(c, st):
    """exact inclusion at the corners and two interior points, and well-formedness"""
    i, o = vals(c, st)
    op = c['op']
    if not in_domain(op, i): return None
    al, ah, bl, bh = i
    rl, rh = o
    if math.isnan(rl) or math.isnan(rh): return ('C07:nan-bound:' + op, f'{op} returned a NaN bound')
    if not rl <= rh: return ('C07:ill-formed:' + op, f'{op}: low {rl!r} > high {rh!r}')
    xs = samples3(al, ah)
    if op in BIN_AF: ys = samples3(bl, bh)
    elif op in BIN_F: ys = [Fraction(bl)]
    else: ys = [None]
    b = base(op)
    for x in xs:
        for y in ys:
            if b == 'neg': e = -x
            elif b == 'add': e = x + y
            elif b == 'sub': e = x - y
            elif b == 'mul': e = x * y
            elif b == 'div': e = x / y
            elif b == 'sqrt':
                # sqrt x in [rl, rh]  <=>  (rl <= 0 or rl^2 <= x) and rh >= 0 and rh^2 >= x
                okl = rl <= 0 or rl == -INF or (finite(rl) and Fraction(rl) ** 2 <= x)
                okh = rh == INF or (finite(rh) and rh >= 0 and Fraction(rh) ** 2 >= x)
                if not (okl and okh):
                    return ('C07:inclusion:' + op, f'sqrt({float(x)!r}) outside [{rl!r},{rh!r}]')
                continue
            if not (le_ext(rl, e) and ge_ext(rh, e)):
                return ('C07:inclusion:' + op, f'{op}: exact {float(e)!r} (x={float(x)!r}, y={None if y is None else float(y)!r}) outside [{rl!r},{rh!r}]')
    return None

def replay_args(c):
    return [str(c['opn'])] + [str(b) for b in c['in']]
