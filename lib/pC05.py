"""C05: point-in-loop and point-in-polygon answers are correct everywhere."""
from fractions import Fraction as Fr
from props import Stream
from fx import *
from geo import *

LEVEL = 'proof'
RULE = ('closed loops with 3..40 vertices (convex, star, rectilinear, L/U, quads; weakly simple outlines with 1..2 bridges produced by '
        'Polygon3D::get_closed_loop + close), either winding, any start vertex, in coordinate, oblique and right-angle-rotated planes (1e-16 noise) '
        'with offsets to 10 or 1e3; polygons with 0..3 holes through Polygon3D::test_point; open loops (every test must be an error); per subject '
        '6..15 uniform points over the padded bounding box, points at 1e-4..1e-1 on both sides of edge midpoints and around vertices (outer and '
        'hole outlines), points on edge prolongations, points whose internal ray is aimed at a vertex or runs along the first edge, points near '
        'the midpoint of the first edge, off-plane points (1e-6..1), points on either side of the 1e-7 coplanarity gate and of the 1e-5 on-edge '
        'product threshold; every answer (Ok false / Ok true / Err class / panic) compared with the model; '
        'non-trivial = closed subject with >= 10 queries; distinct = distinct (vertices, queries); thorough tier: also 400 subjects of the f32 build (correspondence only, no oracle)')
ASSUMPTIONS = [
    'Coq 8.16.1 kernel + vm_compute; theorems over the real-number instance of the model (exact tier)',
    'model = code: Loop3D::test_point / Polygon3D::test_point compared answer by answer (bit-exact inputs, exact outcome class)',
    'float vs exact evaluation away from the tolerance bands is sampled by the exact-rational winding-number oracle, not proved',
    'f32 build (thorough tier): the same runner text instantiated on the binary32 instance (module C05f32 of Run/C05.v on NumF32fast, proved equal to the '
    'Flocq-rounded NumF32 in Run/FastNum32Proof.v) against the harness built with --features float, bit for bit; the f32 generator draws 75% coordinate planes, offsets to 8 '
    '(finding F15: the absolute 1e-7 coplanarity tolerance refuses oblique f32 outlines; refusals are reproduced by the model); CORRESPONDENCE ONLY: the exact-rational '
    'oracle does not judge f32 cases',
    'exact-tier theorems assume an exactly planar loop and query point; the hypotheses they are forced to add (generic ray, point not within the '
    'on-edge shortcut) are recorded as known findings; the former length hypothesis (finding C05:ray-too-short) is discharged for the live code '
    '(fix 6f318c4) and kept on record for the code before the fix (C05_pinned_* about Model/PinnedLoop.v)',
]
THEOREMS = ['C05_open_loop_is_error', 'C05_off_plane_is_outside', 'C05_polygon_is_outer_and_not_hole', 'C05_test_point_counts_crossings', 'C05_intersection_solve_exact', 'C05_crossing_is_geometric', 'C05_long_segment_is_ray', 'C05_ray_long_enough', 'C05_test_point_counts_ray_crossings', 'C05_plane_coordinates', 'C05_ray_parity_is_fan_parity', 'C05_ray_parity_direction_independent', 'C05_test_point_fan_parity_partial', 'C05_test_point_is_winding_parity_partial', 'C05_test_point_is_membership_partial', 'C05_answer_independent_of_ray_partial', 'C05_pinned_test_point_counts_crossings', 'C05_pinned_test_point_is_winding_parity_if_long_enough', 'C05_pinned_length_hypothesis_fails', 'C05_pinned_ray_too_short_refuted', 'C05_on_edge_tolerance_refuted', 'C05_on_edge_parameter_refuted', 'C05_vertex_grazing_refuted',
            # Properties/C05_vertex.v: the vertex rules (cast rays exactly through a vertex; edge_semigeneric)
            'C05_vertex_semigeneric_weakens_generic', 'C05_vertex_side_test_is_a_sign', 'C05_vertex_rules_are_half_open', 'C05_vertex_test_point_counts_half_open_crossings', 'C05_vertex_plane_coordinates', 'C05_vertex_half_open_parity_is_fan_parity', 'C05_vertex_half_open_is_proper_on_generic_edges', 'C05_vertex_half_open_parity_is_generic_parity', 'C05_vertex_test_point_fan_parity', 'C05_vertex_test_point_is_winding_parity', 'C05_vertex_test_point_is_membership', 'C05_vertex_generic_counting_ray_exists', 'C05_vertex_sliver_crossing_dropped', 'C05_vertex_ray_through_vertex_binary64']

def streams(tier):
    if tier == 'quick': return [Stream('C05', 150)]
    if tier == 'search': return [Stream('C05', 500)]
    # f32 build (thorough tier): correspondence only, the oracle does not judge f32 cases
    return [Stream('C05', 1500), Stream('C05', 500, release=True), Stream('C05', 400, f32=True)]

def is_f32(c, st=None):
    """cases of the f32 build carry "f32": true (harness/src/loops.rs); the stream flag says the same"""
    return bool(c.get('f32') or (st is not None and getattr(st, 'f32', False)))

def fls(bits, st):
    fm = Fmt(st.f32 if st is not None else False)
    return [fm.fl(b) for b in bits]

def classify(c, st):
    key = (tuple(c['outer']['v']), tuple(tuple(q['p']) for q in c['queries']))
    return key, (not c['outer']['closed']) or len(c['queries']) < 10, ('f32:' + c['note'].split(':')[-1] + ':' if is_f32(c, st) else '') + c['note'].split(':')[0]

def describe(c, st):
    return dict(note=c['note'], outer_vertices=len(c['outer']['v']) // 3, holes=[len(h['v']) // 3 for h in c['holes']],
                queries=[[q['lab'], q['r']] + [hexf(x) for x in fls(q['p'], st)] for q in c['queries']][:6])

T5 = Fr(1, 10 ** 5)            # the library's coincidence tolerance (the property's margin)
MARGIN2 = (2 * T5) ** 2        # "farther than 1e-5": only points at >= 2e-5 from every outline are judged
H_IN = Fr(1, 10 ** 9)          # |h| <= 1e-9: in the plane up to rounding (generated in-plane points have |h| < 1e-12); between 1e-9 and
                               # 2e-7 a point is neither clearly in the plane nor clearly off it and is not judged (the library's gate is 1e-7)
H_OUT = Fr(2, 10 ** 7)         # |h| >= 2e-7: off the plane (the generator uses >= 1e-6)

def dist2_point_seg3(p, a, b):
    d = sub(b, a); l2 = len2(d)
    t = Fr(0) if l2 == 0 else max(Fr(0), min(Fr(1), dot(sub(p, a), d) / l2))
    return len2(sub(p, add(a, scale(d, t))))

def decode_loop(l, st):
    vs = unflat(fls(l['v'], st)); n = V(fls(l['n'], st))
    return dict(vs=vs, n=n, closed=l['closed'])

def edges(vs):
    m = len(vs)
    return [(vs[i], vs[(i + 1) % m]) for i in range(m)]

EPSF = Fr(1, 2 ** 52)

def on_edge_shortcut(L, q):
    """exact reading of Segment3D::contains_point for the edges of the loop: the point 'compares equal' (1e-5 per coordinate) with an end
    point or |(a - q) x (b - a)| < 1e-5 (a product: distance x edge length), and the ratio of the FIRST coordinate in which the edge extends
    by more than EPSILON lies in [0, 1] -- all with a 1e-3 relative margin so that a float evaluation near a threshold stays inside the class.
    Returns None, or 'tolerance' when the point is within 2e-5/|edge| of the edge (the effective tolerance 1e-5/|edge| of the product test),
    or 'parameter' when it is farther (the parameter test let a point of the edge's prolongation through)"""
    band = (T5 * Fr(1001, 1000)) ** 2
    best = None
    for a, b in edges(L['vs']):
        ab = sub(b, a); aq = sub(q, a)
        near_end = any(max(abs(x) for x in sub(q, e)) < T5 * Fr(1001, 1000) for e in (a, b))
        if near_end or len2(cross(sub(a, q), ab)) < band:
            k = next((k for k in range(3) if abs(ab[k]) > EPSF), None)
            if k is None: continue
            t = aq[k] / ab[k]
            if -Fr(1, 1000) <= t <= 1 + Fr(1, 1000):
                # distance to the segment against 2e-5/|edge|:  d^2 |ab|^2 <= (2e-5)^2
                if dist2_point_seg3(q, a, b) * len2(ab) <= (2 * T5) ** 2: return 'tolerance'
                best = 'parameter'
    return best

def ray_of(L, q):
    """the cast segment of test_point (since fix 6f318c4): direction q - m (m = midpoint of the first stored edge), length
    max(2 x distance to the farthest vertex, 1000); a rational value within 1e-6 of that length is enough for the class predicates"""
    import math
    m = scale(add(L['vs'][0], L['vs'][1]), Fr(1, 2))
    reach2 = max(len2(sub(v, q)) for v in L['vs']); dir_ = sub(q, m); l2 = len2(dir_)
    if l2 == 0: return dir_
    k = Fr(max(2 * math.sqrt(float(reach2)), 1000.0) / math.sqrt(float(l2)) * 1.000001)
    return scale(dir_, k)

def old_ray_of(L, q):
    """the cast segment before fix 6f318c4: 1000 (q - m)"""
    m = scale(add(L['vs'][0], L['vs'][1]), Fr(1, 2))
    return scale(sub(q, m), 1000)

def grazes_vertex(L, q):
    """the cast segment q .. q + d passes within 1e-9 (relative) of a vertex: the vertex rules of test_point are consulted"""
    d = ray_of(L, q); dd = len2(d)
    if dd == 0: return True
    for v in L['vs']:
        w = sub(v, q); s = dot(w, d)
        if s < -Fr(1, 10 ** 9) * dd or s > dd * (1 + Fr(1, 10 ** 9)): continue
        if len2(cross(d, w)) <= Fr(1, 10 ** 18) * dd * max(len2(w), Fr(1, 10 ** 6)): return True
    return False

def near_parallel_crossing(L, q):
    """an edge whose direction a satisfies |a x d|^2 < 1e-5 (is_same_direction's absolute tolerance; also the 1e-5 projection threshold of
    get_intersection_pt), so that the crossing solve is skipped, although the cast segment comes within 1e-3 |edge| of it (F11 family).
    Not a recorded finding: reported as a violation under its own signature"""
    d = ray_of(L, q); ax = dominant_axis(L['n'])
    q2 = project(q, ax); e2 = project(add(q, d), ax)
    for a, b in edges(L['vs']):
        ab = sub(b, a)
        c = cross(ab, d)
        if len2(c) < T5 * Fr(11, 10) or max(abs(x) for x in c) <= T5 * Fr(11, 10):
            if dist2_seg_seg2(q2, e2, project(a, ax), project(b, ax)) < Fr(1, 10 ** 6) * max(Fr(1), len2(ab)): return True
    return False

def wn_loop(L, q, ax):
    return winding2([project(v, ax) for v in L['vs']], project(q, ax))

def truth(L, q):
    """None when the point is not judged (tolerance bands); else (inside?, reason)"""
    h = dot(L['n'], sub(L['vs'][0], q))
    if abs(h) >= H_OUT: return (False, 'off-plane')
    if abs(h) > H_IN: return None
    if min(dist2_point_seg3(q, a, b) for a, b in edges(L['vs'])) < MARGIN2: return None
    ax = dominant_axis(L['n'])
    return (wn_loop(L, q, ax) != 0, 'in-plane')

def end_inside(L, q):
    """class predicate of C05:ray-too-short (FIXED by 6f318c4; kept to name a regression): the far end q + 1000 (q - m) of the cast
    segment of the code BEFORE the fix is still inside the outline or on it (within 2e-5).  The entry in known_findings.json is
    "fixed": a failure with this signature is reported as a violation"""
    e = add(q, old_ray_of(L, q))
    if min(dist2_point_seg3(e, a, b) for a, b in edges(L['vs'])) <= MARGIN2: return True
    return wn_loop(L, e, dominant_axis(L['n'])) != 0

def explain(L, q, got):
    """signature of a wrong answer of one loop test (got = the answer the loop gave)"""
    if got:
        oe = on_edge_shortcut(L, q)
        if oe: return 'C05:on-edge-' + oe
    if grazes_vertex(L, q): return 'C05:vertex-grazing'
    if near_parallel_crossing(L, q): return 'C05:near-parallel-edge'
    if end_inside(L, q): return 'C05:ray-too-short'
    return 'C05:wrong-answer'

ORDER = ['C05:panic', 'C05:error', 'C05:open-loop-accepted', 'C05:polygon-combination', 'C05:off-plane-inside', 'C05:wrong-answer', 'C05:near-parallel-edge',
         'C05:ray-too-short', 'C05:vertex-grazing', 'C05:on-edge-parameter', 'C05:on-edge-tolerance']

def judge_loop(L, p, r, where, what):
    """one loop test: r = answer class; returns (signature, message) or None"""
    if r == 99: return ('C05:panic', 'test_point panicked on the ' + where)
    if not L['closed']:
        return ('C05:open-loop-accepted', 'test_point on an open loop answered instead of failing') if r < 100 else None
    if r >= 100: return ('C05:error', 'test_point failed with class %d on the %s' % (r - 100, where))
    got = (r == 1)
    t = truth(L, p)
    if t is None: return None
    if t[1] == 'off-plane':
        if got: return ('C05:off-plane-inside', 'the %s, %.3g off the plane, is reported inside the %s' % (where, float(abs(dot(L['n'], sub(L['vs'][0], p)))), what))
        return None
    if got == t[0]: return None
    return (explain(L, p, got), 'the %s is %s the %s (exact winding number, point at >= 2e-5 from the outline) but test_point answered %s'
            % (where, 'inside' if t[0] else 'outside', what, got))

def judge(c, st):
    """all failures of the case: list of (signature, message)"""
    out = []
    O = decode_loop(c['outer'], st); H = [decode_loop(h, st) for h in c['holes']]
    for q in c['queries']:
        pf = fls(q['p'], st)
        if not all(finite(x) for x in pf): continue
        p = V(pf); r = q['r']
        where = '%s point (%s)' % (q['lab'], ', '.join('%.17g' % x for x in pf))
        parts = q.get('parts', [r])
        for k, (L, rk) in enumerate(zip([O] + H, parts)):
            f = judge_loop(L, p, rk, where, 'loop' if not c['poly'] else ('outer loop' if k == 0 else 'hole %d' % (k - 1)))
            if f: out.append(f)
        if c['poly']:
            if r == 99: out.append(('C05:panic', 'Polygon3D::test_point panicked on the ' + where)); continue
            if all(x < 2 for x in parts):
                # the polygon answers "outer and not in any hole" (it stops at the first failing / accepting loop)
                want = 1 if (parts[0] == 1 and not any(x == 1 for x in parts[1:])) else 0
                if r != want: out.append(('C05:polygon-combination', 'Polygon3D::test_point = %d but outer = %d, holes = %s on the %s' % (r, parts[0], parts[1:], where)))
    return out

def oracle(c, st):
    # f32 build: correspondence only (T5 / H_IN / H_OUT above are margins around binary64 rounding)
    if is_f32(c, st): return None
    fs = judge(c, st)
    if not fs: return None
    return min(fs, key=lambda f: ORDER.index(f[0]))

def replay_args(c):
    loops = [c['outer']] + c['holes']
    out = ['1' if c['poly'] else '0', str(len(loops))]
    for l in loops:
        out += ['1' if l['closed'] else '0', str(len(l['v']) // 3)] + [str(b) for b in l['v']] + [str(b) for b in l['n']]
    for q in c['queries']: out += [str(b) for b in q['p']]
    return out
