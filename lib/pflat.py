"""Part `pflat` of C02 / C03 / C13: triangle, plane, disk / annulus / sector (optional transform), distant source.

Cases come from harness/src/flat.rs (streams C02flat, C03flat, C13flat; one generator, different emphasis) and are
evaluated against the Gallina model by coq/Run/Flat.v.  The oracles below are the three properties themselves,
checked on the *implementation's outputs* in exact rational arithmetic:
  C02  every reported point lies on the primitive (in the triangle / plane / annulus sector / cone) and on the ray ahead of
       the origin -- "genuine up to rounding": 1e-9 relative to the operands' magnitude, times the condition number of the
       crossing (1/|cos| of the incidence, sliver factor), so that an ill-conditioned but correct answer is never flagged;
  C03  for rays whose exact crossing is separated from every decision boundary by a relative margin 1e-6
       (tangency band, clipping edges, zero distance, cone edge): reported <=> exact hit;
  C13  normal.d < 0, |normal| = 1 (rigid / no transform), normal perpendicular to the tangents and parallel to the true
       surface normal, Front <=> the right-hand-rule / declared normal points against the ray, and for the paired rays
       reaching the same point from both sides: side and normal flip.
"""
import math
from fractions import Fraction as Fr
from props import Stream
from fx import *

PROPS = {'C02', 'C03', 'C13'}

_GEN = ('one SplitMix64 state per stream; corpus first (unit right triangle + ray through (0.9,0.9), ray through (0.25,0.25), both-sides pairs, '
        'disk centre, ray from the origin straight at a distant source); then triangles (unit right, axis-aligned, small-and-far, slivers, random; '
        'coordinates to 1e2) 40%, planes 10%, disks 40% (radius 1e-2..1e2, inner 0 / fraction / thin ring, phi_zero perpendicular / oblique / close to the '
        'normal / random, phi_max 360 / right angles / random / out of range; transform none 45%, one elementary, or a chain of up to 6 '
        'translate/scale/rotate), distant sources 10% (sun, pi/2, pi, tiny, random, illegal 0 / >pi / negative); rays aimed at a target point chosen '
        'by category -- inside, outside (triangle: the other half of the parallelogram u,v in (0,1), u+v>1; disk: beyond the rim, in the hole, '
        'outside the sector), behind, parallel -- from a random direction, direction length 1 or 1e-3..1e3 (1e-6..1e6 rarely); boundary stream: '
        'u=0, v=0, u+v=1, vertices, rim, inner rim, phi_max, phi=0, centre, cone edge, each +-{0,1e-16..1e-3}; t ~ 100eps(1+-d); a ~ +-100eps(1+-d); '
        'den ~ +-eps(1+-d); t ~ 0+-d; pairs of rays reaching the same surface point from both sides (C13). From a second generator state (the other cases '
        'do not depend on it; correspondence only): Plane3D::test_point (defining point, points of the plane up to rounding, +-1e-17..1e-9 off, clearly off, raw axis '
        'planes), Ray3D::advance (t negative / zero / 1e-12..1e12), DistantSource3D::area. ')
RULE = {
    'C02': 'pflat/C02flat: ' + _GEN + 'emphasis: 30% boundary, 5% pairs. non-trivial = a ray case (not a constructor/area case); distinct = distinct (op, object bits, ray bits)',
    'C03': 'pflat/C03flat: same generator, emphasis 55% decision-boundary cases; thorough tier: also 1500 cases of the f32 build (correspondence only, no oracle)',
    'C13': 'pflat/C13flat: same generator, emphasis 45% two-sided pairs, ops returning IntersectionInfo; thorough tier: also 1500 cases of the f32 build (correspondence only, no oracle)',
}
_ASSUME = [
    'pflat: Coq 8.16.1 kernel + vm_compute; theorems are about the real-number instance of the model (exact tier)',
    'pflat: model = code: triangle3d.rs / plane3d.rs / disk3d.rs / distant_source3d.rs / intersection.rs checked bit-for-bit on primitive floats '
    '(libm: phi of basic_intersection and the fields of DistantSource3D::new within 2^-40; a phi > phi_max decision only when the margin exceeds 1e-9 and '
    '(x,y) != (0,0); skipped cases are counted under tags 99xx); private fields of Disk3D are read through the verif_fields hook',
    'pflat: float evaluation vs exact evaluation is sampled by the exact-rational oracle (1e-9 relative x condition number; C03: relative margin 1e-6), not proved',
    'pflat: f32 build (C02, thorough tier): the same runner text instantiated on the binary32 instance NumF32 (module Flatf32 of Run/Flat.v: every operation of the '
    'model followed by rounding to binary32; executed as NumF32fast, proved equal to the Flocq-rounded NumF32 in Run/FastNum32Proof.v) against the harness built with --features float; bit for bit except the libm-dependent fields (sinf / cosf / '
    'atan2f / acosf of the platform against the binary32 rounding of the software libm: 2^-20 = 8 ulp32; phi > phi_max decisions compared when the margin exceeds 2^-16); '
    'the C02 oracle then reads "up to rounding" as 2^-13 (1024 ulp32) instead of 1e-9, on scales that include the conditioning of the attached transform; '
    'C03 / C13 (thorough tier): f32 streams C03flat / C13flat tied the same way (model = f32 build, bit for bit except downstream of libm), CORRESPONDENCE ONLY: '
    'the C03 / C13 exact-rational oracles do not judge f32 cases (their 1e-6 / 1e-9 margins are not calibrated for 24-bit rounding)',
]
ASSUMPTIONS = {'C02': _ASSUME, 'C03': _ASSUME, 'C13': _ASSUME}
THEOREMS = {
    'C02': ['C02_flat_triangle_hit_is_true', 'C02_flat_triangle3d_intersect', 'C02_flat_triangle3d_simple_intersect', 'C02_flat_triangle_pinned_refuted',
            'C02_flat_plane_hit_is_true', 'C02_flat_disk_hit_is_true', 'C02_flat_disk_constructor', 'C02_flat_disk_simple_intersect',
            'C02_flat_disk_intersect_transformed', 'C02_flat_distant_cone', 'C02_flat_distant_new_cone'],
    'C03': ['C03_flat_triangle_hit_reported', 'C03_flat_triangle_miss_not_reported', 'C03_flat_triangle_parallel_band', 'C03_flat_plane_hit_reported',
            'C03_flat_plane_behind_not_reported', 'C03_flat_disk_hit_reported', 'C03_flat_disk_miss_not_reported', 'C03_flat_disk_phi_is_the_polar_angle',
            'C03_flat_disk_transformed_hit_reported', 'C03_flat_distant_outside_cone', 'C03_flat_distant_simple_iff'],
    'C13': ['C13_flat_get_side', 'C13_flat_normal_faces_ray', 'C13_flat_side_and_normal_flip', 'C13_flat_info_new', 'C13_flat_triangle',
            'C13_flat_triangle_two_sided', 'C13_flat_disk', 'C13_flat_disk_two_sided', 'C13_flat_info_transform', 'C13_flat_disk_transformed', 'C13_flat_distant'],
}
STREAM = {'C02': 'C02flat', 'C03': 'C03flat', 'C13': 'C13flat'}


def streams(prop, tier):
    n = STREAM[prop]
    if tier == 'quick': return [Stream(n, 1500)]
    if tier == 'search': return [Stream(n, 8000)]
    out = [Stream(n, 16000), Stream(n, 6000, release=True)]
    # the f32 build (thorough tier only): C02 with its calibrated f32 oracle; C03 / C13 correspondence only (their oracles
    # return None on f32 cases: the 1e-6 / 1e-9 margins of these two oracles are not calibrated for 24-bit rounding)
    out.append(Stream(n, 1500, f32=True))
    return out


# ------------------------------------------------------------------------------------------------------------------
# decoding
# ------------------------------------------------------------------------------------------------------------------
def is_f32(c, st=None):
    """cases of the f32 build carry "f32": true (harness/src/flat.rs); the stream flag says the same"""
    return bool(c.get('f32') or (st is not None and getattr(st, 'f32', False)))

def dec(c, key):
    fm = Fmt(is_f32(c))
    return [fm.fl(b) for b in c[key]]

OUT_LEN = {1: 6, 3: 14, 4: 4, 6: 2, 7: 2, 12: 5, 13: 14, 14: 4, 15: 14, 16: 14, 17: 4, 21: 4, 22: 14, 23: 14, 24: 4}
RAY_OPS = set(OUT_LEN)
INFO_OPS = {3, 13, 15, 16, 22, 23}
TRI_OPS, PLANE_OPS, DISK_OPS, DS_OPS = {1, 3, 4}, {6, 7}, {12, 14, 15, 16, 17}, {21, 22, 23, 24}

def split_out(op, out):
    """-> list of ('none',) | ('panic',) | ('some', [floats])"""
    res = []; i = 0; n = OUT_LEN[op]
    while i < len(out):
        if out[i] == 0.0: res.append(('none',)); i += 1
        elif out[i] == 2.0: res.append(('panic',)); i += 1
        else: res.append(('some', out[i + 1:i + n])); i += n
    return res

def rays_of(op, rays):
    w = 10 if op == 13 else 6
    return [rays[k:k + w] for k in range(0, len(rays), w)]

def prim_name(op):
    return 'triangle' if op in (1, 2, 3, 4) else 'plane' if op in (5, 6, 7) else 'disk' if 10 <= op <= 18 else 'distant'

def classify(prop, c, st):
    op = c['op']
    key = (op, tuple(c['prim']), tuple(c['rays']))
    trivial = op not in RAY_OPS
    bucket = c['kind'] + ':' + c['cat']
    out = dec(c, 'out')
    if op in (10, 11) and out and out[0] == 2.0 and c['cat'] == 'ctor': bucket += ':panic' + ('(debug)' if c.get('debug') else '')
    return key, trivial, bucket

def describe(prop, c, st):
    return dict(part='pflat', kind=c['kind'], cat=c['cat'], debug=c.get('debug'), recipe=[hexf(x) for x in dec(c, 'recipe')][:12],
                has_transform=len(c['recipe']) > 12 and c['op'] >= 12 and c['op'] <= 18,
                rays=[hexf(x) for x in dec(c, 'rays')], out=[hexf(x) if finite(x) else repr(x) for x in dec(c, 'out')])

def replay_args(prop, c):
    return ['flat', str(c['op']), str(len(c['recipe']))] + [str(b) for b in c['recipe']] + [str(b) for b in c['rays']]


# ------------------------------------------------------------------------------------------------------------------
# exact vector algebra
# ------------------------------------------------------------------------------------------------------------------
def V(x): return [Fr(a) for a in x]
def add(a, b): return [x + y for x, y in zip(a, b)]
def sub(a, b): return [x - y for x, y in zip(a, b)]
def scl(a, s): return [x * s for x in a]
def dot(a, b): return sum(x * y for x, y in zip(a, b))
def cross(a, b): return [a[1] * b[2] - a[2] * b[1], a[2] * b[0] - a[0] * b[2], a[0] * b[1] - a[1] * b[0]]
def adot(a, b): return sum(abs(x * y) for x, y in zip(a, b))
def amax(*vs): return max([abs(x) for v in vs for x in v] + [Fr(0)])
def allfin(xs): return all(finite(x) for x in xs)

EPS = Fr(1, 2 ** 52)
TINY = 100 * EPS
GAMMA3 = (EPS / 2 * 3) / (1 - EPS / 2 * 3)
TOL = Fr(1, 10 ** 9)
TOL2 = TOL * TOL
M6 = Fr(1, 10 ** 6)
F32 = False

def set_precision(f32):
    """Rebinds the rounding-related constants for the working precision of the build that produced the case.
    f64: EPSILON = 2^-52, "up to rounding" = 1e-9 (the property's own reading: 4.5e6 ulp64 -- it silently absorbs the
    conditioning of attached transforms).  f32: EPSILON = 2^-23 and "up to rounding" = 2^-13 = 1024 ulp32: the measured noise
    ceiling of the C02flat f32 stream (30 000 cases, seeds 1-3: no residual above 2^-21 x scale, the first ones appear at 2^-22)
    leaves a factor 256; because 1024 ulp cannot absorb an ill-conditioned transform the f32 scale of the on-ray test adds the
    conditioning explicitly (|M| |M^-1| |x|, see cond_scale)."""
    global EPS, TINY, GAMMA3, TOL, TOL2, F32
    F32 = bool(f32)
    EPS = Fr(1, 2 ** 23) if f32 else Fr(1, 2 ** 52)
    TINY = 100 * EPS
    GAMMA3 = (EPS / 2 * 3) / (1 - EPS / 2 * 3)
    TOL = Fr(1, 2 ** 13) if f32 else Fr(1, 10 ** 9)
    TOL2 = TOL * TOL

def cond_scale(M, Minv, o, d, t):
    """first-order magnitude of what the crate computes for a world ray (o, d) at parameter t through a transform M:
    |M| (|M^-1| |o| + |t| |M^-1| |d|) -- the scale to which the rounding of local ray and hit point is relative"""
    la = apt_abs(Minv, o); lb = avec_abs(Minv, d)
    L = [a + abs(t) * b for a, b in zip(la, lb)]
    return amax(apt_abs(M, L))

def mat_of(v16): return [[Fr(v16[4 * r + k]) for k in range(4)] for r in range(4)]
def apt(m, p): return [sum(m[r][k] * p[k] for k in range(3)) + m[r][3] for r in range(3)]
def avec(m, p): return [sum(m[r][k] * p[k] for k in range(3)) for r in range(3)]
def apt_abs(m, p): return [sum(abs(m[r][k] * p[k]) for k in range(3)) + abs(m[r][3]) for r in range(3)]
def avec_abs(m, p): return [sum(abs(m[r][k] * p[k]) for k in range(3)) for r in range(3)]
def inv_affine(m):
    """exact inverse of an affine 4x4 (last row 0 0 0 1); None if singular / not affine"""
    if [m[3][k] for k in range(4)] != [0, 0, 0, 1]: return None
    a = [[m[r][k] for k in range(3)] for r in range(3)]
    det = (a[0][0] * (a[1][1] * a[2][2] - a[1][2] * a[2][1]) - a[0][1] * (a[1][0] * a[2][2] - a[1][2] * a[2][0]) + a[0][2] * (a[1][0] * a[2][1] - a[1][1] * a[2][0]))
    if det == 0: return None
    co = [[0] * 3 for _ in range(3)]
    for r in range(3):
        for k in range(3):
            r1, r2 = [x for x in range(3) if x != r]; k1, k2 = [x for x in range(3) if x != k]
            co[r][k] = (-1) ** (r + k) * (a[r1][k1] * a[r2][k2] - a[r1][k2] * a[r2][k1])
    inv3 = [[co[k][r] / det for k in range(3)] for r in range(3)]
    tr = [m[r][3] for r in range(3)]
    it = [-sum(inv3[r][k] * tr[k] for k in range(3)) for r in range(3)]
    return [inv3[0] + [it[0]], inv3[1] + [it[1]], inv3[2] + [it[2]], [Fr(0), Fr(0), Fr(0), Fr(1)]]
def is_rigid(m):
    """linear part orthogonal within 1e-9"""
    for i in range(3):
        for j in range(3):
            s = sum(m[k][i] * m[k][j] for k in range(3))
            if abs(s - (1 if i == j else 0)) > TOL: return False
    return True

def on_ray(o, d, p, scale, sig):
    """p on the ray (o, d), not behind the origin (up to rounding)"""
    dd = dot(d, d)
    if dd == 0: return None
    r = sub(p, o)
    t = dot(r, d) / dd
    off = sub(r, scl(d, t))
    if dot(off, off) > TOL2 * scale * scale: return (sig + ':off-ray', 'reported point is not on the ray (distance^2 %.3e, scale %.3e)' % (float(dot(off, off)), float(scale)))
    if t < 0 and t * t * dd > TOL2 * scale * scale: return (sig + ':behind', 'reported point is behind the ray origin (t = %.3e)' % float(t))
    return None

def nudge_dt(minv, o, dl):
    """the forward shift of the local origin by inv_transform_ray (exact formula on exact operands)"""
    l2 = dot(dl, dl)
    if l2 <= 0: return Fr(0)
    oerr = scl(apt_abs(minv, o), GAMMA3)
    return sum(abs(a) * e for a, e in zip(dl, oerr)) / l2

IDENT = [[Fr(int(r == k)) for k in range(4)] for r in range(4)]


# ------------------------------------------------------------------------------------------------------------------
# triangle
# ------------------------------------------------------------------------------------------------------------------
class Tri:
    def __init__(s, prim, ray, nudged):
        s.v0, s.v1, s.v2 = V(prim[1:4]), V(prim[4:7]), V(prim[7:10])
        s.o, s.d = V(ray[0:3]), V(ray[3:6])
        s.e1, s.e2 = sub(s.v1, s.v0), sub(s.v2, s.v0)
        s.n = cross(s.e1, s.e2); s.n2 = dot(s.n, s.n)
        s.a = dot(s.e1, cross(s.d, s.e2))
        s.mag2 = dot(s.d, s.d) * dot(s.e1, s.e1) * dot(s.e2, s.e2)
        s.dt = nudge_dt(IDENT, s.o, s.d) if nudged else Fr(0)
        s.scale = amax(s.v0, s.v1, s.v2, s.o)
    def kappa2(s):
        return s.mag2 / (s.a * s.a) if s.a != 0 else None
    def crossing(s):
        sv = sub(s.o, s.v0); h = cross(s.d, s.e2); q = cross(sv, s.e1)
        return dot(sv, h) / s.a, dot(s.d, q) / s.a, dot(s.e2, q) / s.a   # u, v, t
    def bary(s, p):
        sv = sub(p, s.v0)
        w = dot(sv, s.n) / s.n2
        sp = sub(sv, scl(s.n, w))
        return dot(cross(sp, s.e2), s.n) / s.n2, dot(cross(s.e1, sp), s.n) / s.n2, w

def c02_triangle(t, p):
    if not allfin(p): return ('C02:flat:triangle:nonfinite', 'reported point has a non-finite coordinate')
    p = V(p)
    if t.n2 == 0 or t.a == 0: return None
    scale = max(t.scale, amax(p))
    tol2 = TOL2 * scale * scale * t.kappa2()
    u, v, w = t.bary(p)
    if w * w * t.n2 > tol2: return ('C02:flat:triangle:off-plane', 'reported point is off the plane of the triangle by %.3e' % math.sqrt(float(w * w * t.n2)))
    e3 = sub(t.e2, t.e1)
    for nm, val, den in (('u<0', -u, dot(t.e2, t.e2)), ('v<0', -v, dot(t.e1, t.e1)), ('u+v>1', u + v - 1, dot(e3, e3))):
        if val > 0 and val * val * t.n2 / den > tol2:
            return ('C02:flat:triangle:outside', 'reported point is outside the triangle (%s: u=%.9g v=%.9g), %.3e beyond the edge' % (nm, float(u), float(v), math.sqrt(float(val * val * t.n2 / den))))
    return on_ray(t.o, t.d, p, scale, 'C02:flat:triangle')

def c03_triangle(t, some):
    if t.n2 == 0 or t.mag2 == 0: return None
    a2 = t.a * t.a
    if a2 < (TINY * (1 + M6)) ** 2 or a2 < M6 * M6 * t.mag2: return None            # tangency band: not a clear case
    u, v, tw = t.crossing()
    tt = tw - t.dt                       # parameter on the (nudged) local ray; the code requires tt > TINY
    sv = sub(t.o, t.v0)
    dd = dot(t.d, t.d)
    thr = TINY * (1 + M6)
    # "clear of zero distance": beyond the threshold by more than the rounding of the operands (1e-9 scale kappa / |d|)
    ahead = tt > thr and (tt - thr) ** 2 * dd >= TOL2 * t.scale * t.scale * t.kappa2()
    behind = tt < 0 and tt * tt * dd >= max(M6 * M6 * dot(sv, sv), TOL2 * t.scale * t.scale * t.kappa2())
    if u >= M6 and v >= M6 and u + v <= 1 - M6 and ahead:
        if not some: return ('C03:flat:triangle:missed-hit', 'the ray crosses the triangle at u=%.9g v=%.9g t=%.9g (clear of every edge and threshold) but no hit is reported' % (float(u), float(v), float(tt)))
    elif u <= -M6 or v <= -M6 or u + v >= 1 + M6 or behind:
        if some: return ('C03:flat:triangle:false-hit', 'the ray clearly misses the triangle (u=%.9g v=%.9g t=%.9g) but a hit is reported' % (float(u), float(v), float(tt)))
    return None


# ------------------------------------------------------------------------------------------------------------------
# plane
# ------------------------------------------------------------------------------------------------------------------
def plane_case(prim, ray):
    n, D = V(prim[1:4]), Fr(prim[4]); o, d = V(ray[0:3]), V(ray[3:6])
    den = dot(n, d); mag = abs(D) + adot(n, o); dmag = adot(n, d)
    return n, D, o, d, den, mag, dmag

def c02_plane(prim, ray, tf):
    if math.isnan(tf) or math.isinf(tf): return ('C02:flat:plane:nonfinite', 'reported distance is %r' % tf)
    if tf < 0: return ('C02:flat:plane:negative', 'reported distance %r is negative' % tf)
    n, D, o, d, den, mag, dmag = plane_case(prim, ray)
    if tf == 0 and dot(n, o) == D: return ('C02:flat:plane:zero-distance', 'the origin lies exactly on the plane and a hit at distance 0 is reported (the property asks for a positive distance)')
    if den == 0: return ('C02:flat:plane:parallel', 'a hit is reported for a ray exactly parallel to the plane')
    t = Fr(tf)
    res = abs(dot(n, add(o, scl(d, t))) - D)
    if res > TOL * (mag + t * dmag) * (dmag / abs(den)) + TOL * mag:
        return ('C02:flat:plane:off-plane', 'the point at the reported distance is off the plane: |n.p - D| = %.3e' % float(res))
    return None

def c03_plane(prim, ray, some):
    n, D, o, d, den, mag, dmag = plane_case(prim, ray)
    if dot(n, n) == 0: return None
    if den * den < (EPS * (1 + M6)) ** 2 * dot(n, n) or abs(den) < M6 * dmag: return None
    t = (D - dot(n, o)) / den
    T = mag / abs(den)
    if t >= M6 * T and t > 0:
        if not some: return ('C03:flat:plane:missed-hit', 'the ray crosses the plane at t=%.9g but no hit is reported' % float(t))
    elif t <= -M6 * T and t < 0:
        if some: return ('C03:flat:plane:false-hit', 'the plane is behind the origin (t=%.9g) but a hit is reported' % float(t))
    return None


# ------------------------------------------------------------------------------------------------------------------
# disk
# ------------------------------------------------------------------------------------------------------------------
class Disk:
    def __init__(s, prim, op):
        s.c, s.n = V(prim[1:4]), V(prim[4:7]); s.R, s.ri = Fr(prim[7]), Fr(prim[8]); s.pz = V(prim[9:12]); s.pmax_f = prim[12]
        s.pmax = Fr(prim[12])
        s.has_tr = prim[13] > 0
        s.M = mat_of(prim[14:30]) if s.has_tr else IDENT
        s.Minv = inv_affine(s.M) if s.has_tr else IDENT
        s.e2 = cross(s.n, s.pz)
        s.nudged = s.has_tr or op == 17
        s.full = prim[12] >= 2 * math.pi - 1e-9
        s.cm, s.sm = Fr(math.cos(prim[12])), Fr(math.sin(prim[12]))
        s.rigid = (not s.has_tr) or is_rigid(s.M)
    def ok(s):
        return s.Minv is not None and abs(dot(s.n, s.n) - 1) < TOL and abs(dot(s.pz, s.pz) - 1) < TOL and abs(dot(s.n, s.pz)) < TOL
    def xy(s, pl):
        r = sub(pl, s.c)
        return dot(r, s.pz), dot(r, s.e2), dot(r, s.n), dot(r, r)
    def sector(s, x, y, slack):
        """+1 clearly inside (by slack), -1 clearly outside, 0 neither.  slack = a distance."""
        if s.full: return 1
        cr = x * s.sm - y * s.cm              # > 0: clockwise from the phi_max edge
        if s.pmax_f <= math.pi:
            if y >= slack and cr >= slack: return 1
            if y <= -slack or cr <= -slack: return -1
            return 0
        if y >= slack or cr >= slack: return 1
        if y <= -slack and cr <= -slack: return -1
        return 0

def c02_disk(d, ray, pw, local_only):
    if not allfin(pw): return ('C02:flat:disk:nonfinite', 'reported point has a non-finite coordinate')
    pw = V(pw); o, dr = V(ray[0:3]), V(ray[3:6])
    pl = apt(d.Minv, pw); ol = apt(d.Minv, o); dl = avec(d.Minv, dr)
    den = dot(d.n, dl)
    if den == 0: return ('C02:flat:disk:parallel', 'a hit is reported for a ray exactly parallel to the disk')
    kappa = adot(d.n, dl) / abs(den)
    S = max(amax(apt_abs(d.Minv, pw)), amax(apt_abs(d.Minv, o)), amax(d.c), d.R)
    tol = TOL * S * max(kappa, 1)
    x, y, z, r2 = d.xy(pl)
    if pw == o and dot(d.n, sub(ol, d.c)) == 0:
        return ('C02:flat:disk:zero-distance', 'the origin lies exactly on the disk and it is reported as the hit point (the property asks for a positive distance)')
    if abs(z) > tol: return ('C02:flat:disk:off-plane', 'reported point (mapped back by the exact inverse transform) is off the disk plane by %.3e' % float(abs(z)))
    if r2 > (d.R + tol) ** 2: return ('C02:flat:disk:beyond-radius', 'reported point is %.9g from the centre, radius %.9g' % (math.sqrt(float(r2)), float(d.R)))
    if d.ri - tol > 0 and r2 < (d.ri - tol) ** 2: return ('C02:flat:disk:inside-hole', 'reported point is %.9g from the centre, inner radius %.9g' % (math.sqrt(float(r2)), float(d.ri)))
    if d.sector(x, y, tol + Fr(1, 10 ** 12) * (abs(x) + abs(y))) < 0:
        return ('C02:flat:disk:outside-sector', 'reported point is at polar angle %.9g, phi_max %.9g' % (math.atan2(float(y), float(x)) % (2 * math.pi), d.pmax_f))
    Sw = max(amax(apt_abs(d.M, pl)), amax(o), amax(pw))
    if F32 and d.has_tr and dot(dr, dr) != 0:
        Sw = max(Sw, cond_scale(d.M, d.Minv, o, dr, dot(sub(pw, o), dr) / dot(dr, dr)))
    return on_ray(o, dr, pw, Sw, 'C02:flat:disk')

def c03_disk(d, ray, some):
    o, dr = V(ray[0:3]), V(ray[3:6])
    ol = apt(d.Minv, o); dl = avec(d.Minv, dr)
    if dot(dl, dl) == 0: return None
    den = dot(d.n, dl); dmag = adot(d.n, dl)
    if den * den < (EPS * (1 + M6)) ** 2 or abs(den) < M6 * dmag: return None
    # tangency band: a ray within 1e-6 rad of the disk's plane is not a clear case (behind an attached transform the computed
    # n . d of such a ray is rounding residue; `dmag` above only measures the cancellation inside the dot product)
    if den * den < M6 * M6 * dot(d.n, d.n) * dot(dl, dl): return None
    dt = nudge_dt(d.Minv, o, dl) if d.nudged else Fr(0)
    t = dot(d.n, sub(d.c, ol)) / den
    T = (adot(d.n, d.c) + adot(d.n, apt_abs(d.Minv, o))) / abs(den)
    tq = t - dt
    pl = add(ol, scl(dl, t))
    x, y, z, r2 = d.xy(pl)
    kappa = dmag / abs(den)
    S = max(amax(apt_abs(d.Minv, o)), amax([abs(a) * abs(t) for a in dl]), amax(d.c), d.R)
    slack = max(M6 * d.R, TOL * S * kappa)
    inside_r = d.R - slack > 0 and r2 <= (d.R - slack) ** 2 and (d.ri == 0 or r2 >= (d.ri + slack) ** 2)
    outside_r = r2 >= (d.R + slack) ** 2 or (d.ri - slack > 0 and r2 <= (d.ri - slack) ** 2)
    sec = d.sector(x, y, slack)
    if tq >= M6 * T and tq > 0 and inside_r and sec > 0:
        if not some: return ('C03:flat:disk:missed-hit', 'the ray crosses the disk at distance %.9g from the centre (radius %.9g, inner %.9g), polar angle %.9g (phi_max %.9g), t=%.9g, but no hit is reported'
                             % (math.sqrt(float(r2)), float(d.R), float(d.ri), math.atan2(float(y), float(x)) % (2 * math.pi), d.pmax_f, float(tq)))
    elif (tq <= -M6 * T and tq < 0) or outside_r or sec < 0:
        if some: return ('C03:flat:disk:false-hit', 'the ray clearly misses the disk (r=%.9g, radius %.9g, inner %.9g, angle %.9g, phi_max %.9g, t=%.9g) but a hit is reported'
                         % (math.sqrt(float(r2)), float(d.R), float(d.ri), math.atan2(float(y), float(x)) % (2 * math.pi), d.pmax_f, float(tq)))
    return None


# ------------------------------------------------------------------------------------------------------------------
# distant source
# ------------------------------------------------------------------------------------------------------------------
def ds_cmp(dirv, d, c):
    """sign of  d.dir - c |d| |dir|  (exact): -1, 0, +1"""
    s = dot(d, dirv); m2 = dot(d, d) * dot(dirv, dirv)
    if c >= 0:
        if s < 0: return -1 if (m2 > 0 or s < 0) else 0
        lhs, rhs = s * s, c * c * m2
    else:
        if s >= 0: return 1 if (m2 > 0 or s > 0) else 0
        lhs, rhs = c * c * m2, s * s
    return (lhs > rhs) - (lhs < rhs)

def ds_angle(c):
    return Fmt(is_f32(c)).fl(c['recipe'][3])

def ds_legal(c):
    a = ds_angle(c)
    return 0.0 < a <= math.pi

def c02_distant(c, prim, ray, p):
    if not ds_legal(c): return None
    dirv = V(prim[1:4]); o, d = V(ray[0:3]), V(ray[3:6])
    ch = Fr(math.cos(ds_angle(c) / 2))
    if ds_cmp(dirv, d, ch - TOL) < 0:
        return ('C02:flat:distant:outside-cone', 'a hit is reported for a ray outside the cone: cos(angle to the source) < cos(alpha/2) - 1e-9')
    if any(math.isnan(x) for x in p): return ('C02:flat:distant:nan', 'reported point has a NaN coordinate')
    if allfin(p):
        return on_ray(o, d, V(p), max(amax(o), amax(V(p))), 'C02:flat:distant')
    return None

def c03_distant(c, prim, ray, some):
    if not ds_legal(c): return None
    dirv = V(prim[1:4]); d = V(ray[3:6])
    if dot(d, d) == 0 or dot(dirv, dirv) == 0: return None
    ch = Fr(math.cos(ds_angle(c) / 2))
    m = max(2 * M6 * (1 - ch), Fr(1, 10 ** 12))
    if ds_cmp(dirv, d, ch + m) > 0:
        if not some: return ('C03:flat:distant:missed-hit', 'the ray points clearly inside the cone of the source but no hit is reported')
    elif ds_cmp(dirv, d, ch - m) < 0:
        if some: return ('C03:flat:distant:false-hit', 'the ray points clearly outside the cone of the source but a hit is reported')
    return None


# ------------------------------------------------------------------------------------------------------------------
# C13: hit data
# ------------------------------------------------------------------------------------------------------------------
def perp(a, b):
    """|a.b| <= 1e-9 |a||b|"""
    s = dot(a, b)
    return s * s <= TOL2 * dot(a, a) * dot(b, b)

def c13_info(name, info, d, Ntrue, unit, front_sign):
    """info = 13 floats (p, normal, side, dpdu, dpdv); d = world direction; Ntrue = the true (world) surface normal that
    defines Front (None: not checked); unit: check |normal| = 1; front_sign: +1 if Front <=> Ntrue.d < 0"""
    p, n, side, du, dv = info[0:3], info[3:6], info[6], info[7:10], info[10:13]
    sig = 'C13:flat:' + name
    if not allfin(du + dv): return (sig + ':nan-tangents', 'dpdu / dpdv are not finite: %r %r' % (du, dv))
    if not allfin(n): return (sig + ':nan-normal', 'normal is not finite: %r' % (n,))
    n, du, dv, d = V(n), V(du), V(dv), V(d)
    if side == 2.0: return (sig + ':side-not-applicable', 'a hit is reported with side NonApplicable and normal %r' % ([float(x) for x in n],))
    nd = dot(n, d)
    if dot(n, n) == 0: return (sig + ':normal-faces-ray', 'the reported normal is the zero vector')
    if nd > 0 and nd * nd > TOL2 * dot(n, n) * dot(d, d): return (sig + ':normal-faces-ray', 'normal . direction = %.3e is not negative' % float(nd))
    if unit and abs(dot(n, n) - 1) > TOL: return (sig + ':unit-normal', '|normal|^2 = %.12g' % float(dot(n, n)))
    if not perp(n, du) or not perp(n, dv): return (sig + ':normal-perp-tangents', 'normal is not perpendicular to dpdu / dpdv')
    if Ntrue is not None and dot(Ntrue, Ntrue) > 0:
        cr = cross(n, Ntrue)
        if dot(cr, cr) > TOL2 * dot(n, n) * dot(Ntrue, Ntrue): return (sig + ':normal-direction', 'normal is not parallel to the surface normal')
        if not perp(Ntrue, du) or not perp(Ntrue, dv): return (sig + ':tangent', 'dpdu / dpdv are not tangent to the surface')
        s = dot(Ntrue, d)
        if s * s > TOL2 * dot(Ntrue, Ntrue) * dot(d, d):
            want = 0.0 if (s < 0) == (front_sign > 0) else 1.0
            if side != want: return (sig + ':front-convention', 'side = %s but the surface normal . direction = %.3e' % ('Front' if side == 0.0 else 'Back', float(s)))
    return None

def c13_pair(name, i1, i2, d1, d2, Ntrue):
    if Ntrue is None or dot(Ntrue, Ntrue) == 0: return None
    s1, s2 = dot(Ntrue, V(d1)), dot(Ntrue, V(d2))
    nn = dot(Ntrue, Ntrue)
    if s1 * s1 <= TOL2 * nn * dot(V(d1), V(d1)) or s2 * s2 <= TOL2 * nn * dot(V(d2), V(d2)): return None
    if (s1 < 0) == (s2 < 0): return None
    if not allfin(i1[3:6] + i2[3:6]): return None
    sig = 'C13:flat:' + name
    if i1[6] == i2[6]: return (sig + ':side-flip', 'the two rays reach the surface from opposite sides but both report side %r' % i1[6])
    sm = add(V(i1[3:6]), V(i2[3:6]))
    if dot(sm, sm) > TOL2: return (sig + ':normal-flip', 'the normals reported from the two sides are not opposite')
    return None


# ------------------------------------------------------------------------------------------------------------------
# the three oracles
# ------------------------------------------------------------------------------------------------------------------
def oracle(prop, c, st):
    op = c['op']
    if op not in RAY_OPS or c.get('unbuildable'): return None
    # f32 build: only the C02 oracle is calibrated for 24-bit rounding; C03 / C13 f32 cases are correspondence only
    if prop != 'C02' and is_f32(c, st): return None
    set_precision(is_f32(c, st))
    prim, rays, out = dec(c, 'prim'), dec(c, 'rays'), dec(c, 'out')
    if not allfin(prim) or not allfin(rays): return None
    res = split_out(op, out); rl = rays_of(op, rays)
    if len(res) != len(rl): return ('%s:flat:format' % prop, 'output does not match the number of rays')
    name = prim_name(op)
    legal_ds = op not in DS_OPS or ds_legal(c)
    for r in res:
        if r[0] == 'panic' and legal_ds and op != 13:
            return ('%s:flat:%s:panic' % (prop, name), '%s panicked on a legal input' % c['kind'])
    dk = Disk(prim, op) if op in DISK_OPS else None
    if dk is not None and not dk.ok(): return None
    for ray, r in zip(rl, res):
        some = r[0] == 'some'
        if r[0] == 'panic': continue
        f = None
        if prop == 'C02' and some:
            if op in TRI_OPS: f = c02_triangle(Tri(prim, ray, op == 4), r[1][0:3])
            elif op in PLANE_OPS: f = c02_plane(prim, ray, r[1][0])
            elif op in DISK_OPS: f = c02_disk(dk, ray, r[1][0:3], op in (12, 14, 15))
            elif op in DS_OPS: f = c02_distant(c, prim, ray, r[1][0:3])
        elif prop == 'C03':
            if op in TRI_OPS: f = c03_triangle(Tri(prim, ray, op == 4), some)
            elif op in PLANE_OPS: f = c03_plane(prim, ray, some)
            elif op in DISK_OPS: f = c03_disk(dk, ray, some)
            elif op in DS_OPS: f = c03_distant(c, prim, ray, some)
        elif prop == 'C13' and some and op in INFO_OPS and op != 13:
            f = c13_one(c, op, prim, ray, r[1], dk)
        if f is not None: return f
    if prop == 'C13' and op in (3, 15, 16) and len(res) == 2 and res[0][0] == 'some' and res[1][0] == 'some':
        return c13_pair(name, res[0][1], res[1][1], rl[0][3:6], rl[1][3:6], true_normal(op, prim, dk))
    return None

def true_normal(op, prim, dk):
    if op == 3:
        v0, v1, v2 = V(prim[1:4]), V(prim[4:7]), V(prim[7:10])
        return cross(sub(v1, v0), sub(v2, v0))
    if op in (15, 16):
        if dk.has_tr and op == 16:
            mi = dk.Minv
            return [sum(mi[k][r] * dk.n[k] for k in range(3)) for r in range(3)]   # M^-T n
        return dk.n
    return None

def c13_one(c, op, prim, ray, info, dk):
    if op == 3: return c13_info('triangle', info, ray[3:6], true_normal(op, prim, dk), True, 1)
    if op in (15, 16): return c13_info('disk', info, ray[3:6], true_normal(op, prim, dk), dk.rigid or op == 15, 1)
    if op in (22, 23):
        if not ds_legal(c) or ds_angle(c) >= math.pi - 1e-6: return None
        f = c13_info('distant', info, ray[3:6], V(prim[1:4]), True, 1)
        if f is None and info[6] != 1.0: return ('C13:flat:distant:side', 'a distant source of less than a hemisphere is always seen from the Back (normal = -direction); side = %r' % info[6])
        return f
    return None
