"""Exact helpers: IEEE bit patterns -> Fractions (extended with +-inf / nan)."""
import struct, math
from fractions import Fraction

INF = float('inf')

def f64(bits):
    return struct.unpack('<d', struct.pack('<Q', bits))[0]

def f32(bits):
    return struct.unpack('<f', struct.pack('<I', bits))[0]

def bits64(x):
    return struct.unpack('<Q', struct.pack('<d', x))[0]

class Fmt:
    def __init__(self, f32mode=False):
        self.f32 = f32mode
    def fl(self, bits):
        return f32(bits) if self.f32 else f64(bits)

def Q(x):
    """float -> Fraction; caller must have excluded inf/nan"""
    return Fraction(x)

def finite(x):
    return not (math.isinf(x) or math.isnan(x))

def le_ext(lo, x):
    """lo <= x where lo is a float bound possibly infinite, x a Fraction"""
    if math.isnan(lo): return False
    if lo == -INF: return True
    if lo == INF: return False
    return Fraction(lo) <= x

def ge_ext(hi, x):
    if math.isnan(hi): return False
    if hi == INF: return True
    if hi == -INF: return False
    return Fraction(hi) >= x

def hexf(x):
    return x.hex() if finite(x) else repr(x)
