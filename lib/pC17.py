"""C17: the interval quadratic solver (ApproxFloat::solve_quadratic) encloses the true roots.

The oracle is the property itself on the implementation's outputs, in exact rational arithmetic:
for rational (a, b, c) sampled inside the coefficient boxes (8 corners, centre, interior points)
  * Some((X1, X2)):  D = b^2 - 4ac >= 0; smaller root in X1, larger root in X2 (decided WITHOUT square
    roots, see root_in); X1, X2 well formed; X1.low <= X2.low
  * None: a violation only if D is positive by a clear relative margin for EVERY choice in the boxes
    (exact minimum of D over the box > 1e-6 * (max b^2 + max |4ac|)).
Only cases inside the property's quantifier are judged (in_domain).  The harness also ships the
intermediates of the solver (recomputed with the crate's operators) so that a failure can be attributed:
  q interval contains zero -> `...:q-contains-zero`   (genuine finding, see known_findings.json)
  b interval contains zero -> `C17:spurious-none:b-contains-zero` (same root cause: b*b as a general product)
  returned enclosures nested -> `C17:nested-enclosures`
"""
import math
from fractions import Fraction
from props import Stream
from fx import *

LEVEL = 'proof'
RULE = ('cases = coefficient interval triples (a,b,c) drawn from one SplitMix64 state: (iso) isolated coefficients, all sign '
        'patterns, magnitudes 1e-6..1e6, exact points / ulp-wide / relative half-widths 1e-15..1e-6, near-double roots, discriminant '
        'within +-20 ulps of the rejection threshold, b = 0 / tiny / straddling zero, c = 0 / tiny, integer roots, extreme a:b ratios, '
        'plus out-of-domain wide / overflowing / special-value triples; (sphere, cylinder) a,b,c recomputed exactly as '
        'sphere3d.rs::approx_basic_intersection and cylinder3d.rs::basic_intersection do from a ray with error boxes (hits, '
        'grazing rays on both sides, misses, origin inside / on the surface / far away / behind, tangent rays starting just inside '
        'the surface). non-trivial = inside the property\'s quantifier (finite well-formed boxes, a excludes zero; isolated: '
        'every non-zero bound has magnitude in 1e-6..1e6, relative half-width <= 1e-6); distinct = distinct input bits. Coq path tag = '
        'solver path (1 rejected, 2/3 mid(b)<0 kept/swapped, 4/5 mid(b)>=0 kept/swapped) + 8*(all hypotheses of C17_roots_enclosed hold) + 16*nested + 32*disjoint + 64*(hypotheses of C17_none_when_negative hold). '
        'input_distribution buckets: kind:generator:domain|outside:none|some[:nested|disjoint|overlap][:q0 = computed q interval contains zero][:hyps-fail = some hypothesis of C17_roots_enclosed fails]')
ASSUMPTIONS = [
    'Coq 8.16.1 kernel + vm_compute (no native_compute); Flocq 4.1.0 definitions of binary_float/Bplus/.../Bsucc/Bpred',
    'hand-written Gallina model (coq/Model/RoundError.v af_solve_quadratic; restated step by step in coq/Model/Quadratic.v and proved equal) '
    'equals src/round_error.rs solve_quadratic: checked bit-for-bit on the generated cases, not proved',
    'the coefficient intervals of the sphere / cylinder streams are recomputed in the harness with the public ApproxFloat operators, '
    'line for line as sphere3d.rs:176-185 and cylinder3d.rs:131-140 do (no hook into the private functions)',
    'rustc/LLVM evaluate + - * / sqrt in IEEE-754 binary64 round-to-nearest-even without contraction on x86-64',
    'theorems are stated for every binary format (prec, emax); binary64/binary32 are instances (the closed-form acceptance margin needs prec >= 4)',
    'the theorems carry the decidable hypothesis inter_ok (intermediates finite, computed q interval excludes zero); the runner reports it per case (path tag bit 8)',
]
THEOREMS = ['C17_solver_steps', 'C17_inter_ok_decidable', 'C17_roots_enclosed', 'C17_each_root_enclosed',
            'C17_hi_enclosed_when_disjoint', 'C17_not_nested_when_separated',
            'C17_none_when_negative', 'C17_some_iff', 'C17_some_iff_disc_operands',
            'C17_some_when_margin', 'C17_some_when_relative_margin',
            'C17_pinned_refuted', 'C17_q_zero_refuted', 'C17_q_zero_sphere_refuted',
            # the same on primitive floats (Properties/C17_prim.v)
            'C17_prim_run_is_flocq_run', 'C17_prim_roots_enclosed', 'C17_prim_each_root_enclosed']


def streams(tier):
    if tier == 'quick': return [Stream('C17', 1200)]
    if tier == 'search': return [Stream('C17', 30000)]
    return [Stream('C17', 24000), Stream('C17', 6000, release=True), Stream('C17', 3000, f32=True)]


# ---------------------------------------------------------------- decoding

def vals(c, st):
    fm = Fmt(st.f32 if st is not None else False)
    i = [fm.fl(b) for b in c['in']]
    o = None if c['out'] is None else [fm.fl(b) for b in c['out']]
    s = [fm.fl(b) for b in c['steps']] if c.get('steps') else None
    return i, o, s


def wf_box(l, h):
    return finite(l) and finite(h) and l <= h


def in_domain(c, i):
    """the property's quantifier"""
    al, ah, bl, bh, cl, ch = i
    if not (wf_box(al, ah) and wf_box(bl, bh) and wf_box(cl, ch)): return False
    if al <= 0 <= ah: return False
    if c['kind'] in ('sphere', 'cylinder'):
        # as they arise from a ray with error boxes (generator keeps coordinates <= 1e6 and boxes <= 1e-6 relative)
        return True
    for l, h in ((al, ah), (bl, bh), (cl, ch)):
        for x in (l, h):
            # magnitudes 1e-6..1e6; an exact zero bound is allowed for b and c (b = 0, c = 0 problems)
            if x != 0 and not (0.999999e-6 <= abs(x) <= 1.000001e6): return False
        m = max(abs(l), abs(h))
        if Fraction(h) - Fraction(l) > Fraction(2000001, 10 ** 12) * Fraction(m): return False
    return True


def inter_ok(s):
    """the hypothesis of the Coq theorem, from the shipped intermediates"""
    if s is None: return None
    for k in range(0, 14, 2):
        if not wf_box(s[k], s[k + 1]): return False
    return not (s[12] <= 0 <= s[13])


def hyps_ok(i, s):
    """all hypotheses of C17_roots_enclosed: boxes finite and well formed, a excludes zero, inter_ok"""
    al, ah, bl, bh, cl, ch = i
    if not (wf_box(al, ah) and wf_box(bl, bh) and wf_box(cl, ch)): return False
    if al <= 0 <= ah: return False
    return inter_ok(s)


def q_has_zero(s):
    return s is not None and wf_box(s[12], s[13]) and s[12] <= 0 <= s[13]


# ---------------------------------------------------------------- exact root tests (no square roots)

def poly(a, b, c, t):
    return (a * t + b) * t + c


def le_root(which, a, b, c, t):
    """t <= r_which for the quadratic a x^2 + b x + c with D >= 0 (a != 0), t rational"""
    s = 1 if a > 0 else -1
    v = -b / (2 * a)
    p = s * poly(a, b, c, t)
    if which == 'lo': return t <= v and p >= 0
    return t <= v or p <= 0


def ge_root(which, a, b, c, t):
    """t >= r_which"""
    s = 1 if a > 0 else -1
    v = -b / (2 * a)
    p = s * poly(a, b, c, t)
    if which == 'lo': return t >= v or p <= 0
    return t >= v and p >= 0


def root_in(which, a, b, c, lo, hi):
    """r_which in [lo, hi], bounds are floats possibly infinite (a NaN bound encloses nothing)"""
    if math.isnan(lo) or math.isnan(hi) or lo == INF or hi == -INF: return False
    okl = lo == -INF or le_root(which, a, b, c, Fraction(lo))
    okh = hi == INF or ge_root(which, a, b, c, Fraction(hi))
    return okl and okh


def samples(i, bits):
    """8 corners, centre and four deterministic pseudo-random interior points of the box"""
    al, ah, bl, bh, cl, ch = [Fraction(x) for x in i]
    pts = [(a, b, c) for a in (al, ah) for b in (bl, bh) for c in (cl, ch)]
    pts.append(((al + ah) / 2, (bl + bh) / 2, (cl + ch) / 2))
    z = 0x9E3779B97F4A7C15
    for x in bits: z = (z * 6364136223846793005 + x + 1442695040888963407) & (2 ** 64 - 1)
    for _ in range(4):
        t = []
        for _ in range(3):
            z = (z * 6364136223846793005 + 1442695040888963407) & (2 ** 64 - 1)
            t.append(Fraction(z >> 11, 1 << 53))
        pts.append((al + (ah - al) * t[0], bl + (bh - bl) * t[1], cl + (ch - cl) * t[2]))
    # b = 0 is the extreme of b^2 when the b interval straddles zero
    if bl < 0 < bh: pts.append(((al + ah) / 2, Fraction(0), (cl + ch) / 2))
    out = []
    for p in pts:
        if p not in out: out.append(p)
    return out


def disc_range(i):
    """exact minimum of D = b^2 - 4ac over the box, and the scale max b^2 + max |4ac|"""
    al, ah, bl, bh, cl, ch = [Fraction(x) for x in i]
    minb2 = 0 if bl <= 0 <= bh else min(bl * bl, bh * bh)
    maxb2 = max(bl * bl, bh * bh)
    acs = [4 * a * c for a in (al, ah) for c in (cl, ch)]
    return minb2 - max(acs), maxb2 + max(abs(x) for x in acs)


def shape_of(o):
    """nested / disjoint / overlap of a returned pair"""
    if o is None or any(math.isnan(x) for x in o): return ''
    if not (o[1] <= o[3]): return 'nested'
    if o[1] < o[2]: return 'disjoint'
    return 'overlap'


# ---------------------------------------------------------------- driver interface

def classify(c, st):
    i, o, s = vals(c, st)
    dom = in_domain(c, i)
    iok = hyps_ok(i, s)
    b = [c['kind'], c['gen'], 'domain' if dom else 'outside', 'none' if o is None else 'some']
    sh = shape_of(o)
    if sh: b.append(sh)
    if q_has_zero(s) and o is not None: b.append('q0')
    if not iok and o is not None: b.append('hyps-fail')
    return tuple(c['in']), (not dom), ':'.join(b)


def describe(c, st):
    i, o, s = vals(c, st)
    d = dict(kind=c['kind'], gen=c['gen'], a=[hexf(i[0]), hexf(i[1])], b=[hexf(i[2]), hexf(i[3])], c=[hexf(i[4]), hexf(i[5])],
             result=None if o is None else dict(x1=[hexf(o[0]), hexf(o[1])], x2=[hexf(o[2]), hexf(o[3])]))
    if s is not None: d['q'] = [hexf(s[12]), hexf(s[13])]; d['hypotheses_hold'] = hyps_ok(i, s)
    return d


def oracle(c, st):
    i, o, s = vals(c, st)
    if not in_domain(c, i): return None
    bzero = i[2] <= 0 <= i[3] and not (i[2] == 0 and i[3] == 0)
    if o is None:
        dmin, scale = disc_range(i)
        if dmin > Fraction(1, 10 ** 6) * scale:
            why = ':b-contains-zero' if bzero else ''
            return ('C17:spurious-none' + why,
                    f'returned None although b^2-4ac >= {float(dmin)!r} > 1e-6*(b^2+|4ac|) for every coefficient choice')
        return None
    x1l, x1h, x2l, x2h = o
    q0 = q_has_zero(s)
    tail = ':q-contains-zero' if q0 else ''
    if any(math.isnan(x) for x in o): return ('C17:ill-formed' + tail, f'NaN bound in {o!r}')
    if not (x1l <= x1h and x2l <= x2h): return ('C17:ill-formed' + tail, f'low > high in {o!r}')
    if not x1l <= x2l: return ('C17:order' + tail, f'x1.low {x1l!r} > x2.low {x2l!r}')
    nested = not (x1h <= x2h)
    for (a, b, cc) in samples(i, c['in']):
        D = b * b - 4 * a * cc
        if D < 0:
            return ('C17:negative-discriminant' + tail, f'returned roots although b^2-4ac < 0 for a={float(a)!r} b={float(b)!r} c={float(cc)!r}')
        if not root_in('lo', a, b, cc, x1l, x1h):
            return ('C17:root-not-enclosed:lo' + tail,
                    f'smaller root of a={float(a)!r} b={float(b)!r} c={float(cc)!r} outside x1=[{x1l!r},{x1h!r}]')
        if not root_in('hi', a, b, cc, x2l, x2h):
            sig = 'C17:root-not-enclosed:hi' + tail
            if nested and not q0: sig = 'C17:nested-enclosures'
            return (sig, f'larger root of a={float(a)!r} b={float(b)!r} c={float(cc)!r} outside x2=[{x2l!r},{x2h!r}]'
                    + (' (returned enclosures are nested)' if nested else ''))
    return None


def replay_args(c):
    return [str(b) for b in c['in']] + [c['kind']]


# ---------------------------------------------------------------- self-test of the square-root-free root tests

def selftest(n=20000, seed=7):
    """root_in against floating evaluation (with a guard band), and against exactly known rational roots"""
    import random
    rnd = random.Random(seed)
    bad = 0
    # (1) rational roots: a (x - r1)(x - r2), bounds placed exactly at / next to the roots
    for _ in range(n):
        a = Fraction(rnd.choice([-3, -2, -1, 1, 2, 5]), rnd.choice([1, 2, 3]))
        r1 = Fraction(rnd.randint(-20, 20), rnd.choice([1, 2, 4, 8]))
        r2 = Fraction(rnd.randint(-20, 20), rnd.choice([1, 2, 4, 8]))
        lo_r, hi_r = min(r1, r2), max(r1, r2)
        b, c = -a * (r1 + r2), a * r1 * r2
        for which, r in (('lo', lo_r), ('hi', hi_r)):
            for t in (r, r - Fraction(1, 8), r + Fraction(1, 8), r - 50, r + 50, (r1 + r2) / 2):
                if le_root(which, a, b, c, t) != (t <= r) or ge_root(which, a, b, c, t) != (t >= r):
                    bad += 1
    # (2) irrational roots against floats, away from the boundary
    for _ in range(n):
        a = rnd.choice([-1, 1]) * 10 ** rnd.uniform(-3, 3)
        b = rnd.choice([-1, 1]) * 10 ** rnd.uniform(-3, 3)
        c = rnd.choice([-1, 1]) * 10 ** rnd.uniform(-3, 3)
        D = b * b - 4 * a * c
        if D <= 1e-6 * (b * b + abs(4 * a * c)): continue
        q = -(b + math.copysign(math.sqrt(D), b)) / 2     # cancellation-free, unlike (-b +- sqrt D) / 2a
        r1 = q / a; r2 = c / q
        lo_r, hi_r = min(r1, r2), max(r1, r2)
        fa, fb, fc = Fraction(a), Fraction(b), Fraction(c)
        for which, r in (('lo', lo_r), ('hi', hi_r)):
            w = abs(r) * 1e-9 + 1e-300
            for t in (r - w, r + w, r - 10 * abs(r) - 1, r + 10 * abs(r) + 1):
                if le_root(which, fa, fb, fc, Fraction(t)) != (t <= r) or ge_root(which, fa, fb, fc, Fraction(t)) != (t >= r):
                    bad += 1
            if not root_in(which, fa, fb, fc, r - w, r + w): bad += 1
            if root_in(which, fa, fb, fc, r + w, r + 2 * w) or root_in(which, fa, fb, fc, r - 2 * w, r - w): bad += 1
            if not root_in(which, fa, fb, fc, -INF, INF): bad += 1
    return bad


if __name__ == '__main__':
    import sys
    sys.path.insert(0, __file__.rsplit('/', 1)[0])
    print('selftest failures:', selftest())
