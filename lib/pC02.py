"""C02: composite property (see lib/composite.py); parts: flat primitives, quadrics."""
import os
from composite import make
_parts = [p for p in ("pflat", "pquadric") if os.path.exists(os.path.join(os.path.dirname(__file__), p + ".py"))]
make(globals(), "C02", _parts)
