"""C04: loops admit exactly planar, non-self-crossing outlines (histories of push/close)."""
from fractions import Fraction as Fr
from props import Stream
from fx import *
from geo import *

LEVEL = 'proof'
RULE = ('histories of 3..60 push/close operations: outlines of simple polygons (convex, star, rectilinear, L/U, quads) in coordinate, '
        'oblique and right-angle-rotated planes with offsets to 1e3, with redundant collinear points, repeated points, retraced spikes, '
        'off-plane candidates (1e-3..1), clearly crossing candidates, pushes after close, degenerate openings; complete observable state '
        'compared after every step; non-trivial = history with >= 4 operations; distinct = distinct operation list')
ASSUMPTIONS = [
    'Coq 8.16.1 kernel + vm_compute; theorems over the real-number instance of the model (exact tier)',
    'model = code: loop3d.rs push/close/set_area/set_perimeter checked bit-for-bit after every step of every history',
    'float vs exact evaluation away from the tolerance bands is sampled by the exact-rational oracle, not proved',
]
THEOREMS = ['C04_no_panic', 'C04_refused_push_unchanged', 'C04_push_acceptance', 'C04_closed_invariants_partial',
            # Properties/C04_reach.v: reachable-state invariants, exact effect of push / close, corner theorems, refutations
            'C04_reachable_invariant', 'C04_reachable_state_facts', 'C04_push_effect', 'C04_push_len_normal', 'C04_crossing_test_reads',
            'C04_append_checked', 'C04_close_effect', 'C04_failed_close_effect', 'C04_close_ok_effect', 'C04_close_nothing_dropped_corners',
            'C04_closed_absorbing', 'C04_interior_corners_genuine_exact', 'C04_closed_corners_genuine_partial',
            'C04_closed_has_three_refuted', 'C04_small_loop_normal_unset_refuted', 'C04_nan_normal_by_replacement_refuted',
            'C04_closed_collinear_exact_refuted', 'C04_closed_collinear_by_replacement_refuted', 'C04_adjacent_duplicate_refuted',
            'C04_closed_absorbing_refuted',
            # Properties/C04_reach_live.v: the live code (after the fix of push/close)
            'C04_live_reachable_invariant', 'C04_live_closed_no_collinear_vertex', 'C04_live_interior_corners',
            'C04_live_push_effect', 'C04_live_push_normal', 'C04_live_closed_absorbing']

def streams(tier):
    if tier == 'quick': return [Stream('C04', 300)]
    if tier == 'search': return [Stream('C04', 1500)]
    return [Stream('C04', 3000), Stream('C04', 1000, release=True), Stream('C04', 300, f32=True)]

def fls(bits, st):
    fm = Fmt(st.f32 if st is not None else False)
    return [fm.fl(b) for b in bits]

def classify(c, st):
    key = tuple((o['k'], tuple(o['p'])) for o in c['ops'])
    return key, len(c['ops']) < 4, c['note'].split(':')[0]

def describe(c, st):
    return dict(note=c['note'], ops=[[o['k'], o['lab']] + [hexf(x) for x in fls(o['p'], st)] for o in c['ops']][:12],
                outcomes=[s['o'] for s in c['snaps']])

def state(s, st):
    nf = fls(s['n'], st)
    nan_normal = not all(finite(x) for x in nf)
    return dict(o=s['o'], v=unflat(fls(s['v'], st)), n=(V(nf) if not nan_normal else (Fr(0),) * 3), nan_normal=nan_normal,
                closed=s['closed'], ap=fls(s['ap'], st), raw=(tuple(s['v']), tuple(s['n']), s['closed'], tuple(s['ap'])))

def exact_plane(v):
    """(point, normal) of the plane through the first non-degenerate vertex triple, or None"""
    for i in range(len(v) - 2):
        n = cross(sub(v[i + 1], v[i]), sub(v[i + 2], v[i + 1]))
        if len2(n) > Fr(1, 10 ** 12): return v[i], n
    return None

EMPTY = dict(o=0, v=[], n=(Fr(0),) * 3, nan_normal=False, closed=False, ap=[], raw=((), (0, 0, 0), False, ()))
TOL_COL = Fr(1, 10 ** 5)

def crossing_class(v, p, n):
    """new edge (last, p) against the edges 0..len-3 of v, in the plane with normal n.
    returns ('cross', short?) if it clearly crosses one, ('clear', None) if clearly separated from all, else ('band', None)"""
    if len(v) < 3: return ('clear', None)
    ax = dominant_axis(n)
    a = project(v[-1], ax); b = project(p, ax)
    scale2 = max(len2(sub(v[-1], p)), Fr(1, 10 ** 6))
    verdict = 'clear'
    for i in range(len(v) - 2):
        c3, d3 = v[i], v[i + 1]
        c = project(c3, ax); d = project(d3, ax)
        pr = seg_params2(a, b, c, d)
        if pr is not None:
            t, u = pr
            m = Fr(1, 100)
            if m < t < 1 - m and m < u < 1 - m:
                # transversal by a margin?
                e1 = sub(p, v[-1]); e2 = sub(d3, c3); cr = len2(cross(e1, e2))
                if cr * 10000 > len2(e1) * len2(e2):      # |sin| > 0.01
                    return ('cross', cr < Fr(1, 10 ** 5) * Fr(101, 100))
        if dist2_seg_seg2(a, b, c, d) < Fr(1, 10 ** 6) * scale2 + Fr(1, 10 ** 8): verdict = 'band'
    return (verdict, None)

def straight(a, b, c):
    """the crate's own reading of 'b is redundant between a and c' (coincident neighbours or |ab x bc| below 1e-5, 1% margin)"""
    if max(abs(x) for x in sub(a, b)) < TOL_COL or max(abs(x) for x in sub(c, b)) < TOL_COL: return True
    return len2(cross(sub(b, a), sub(c, b))) < TOL_COL ** 2 * Fr(101, 100)

def oracle(c, st):
    prev = EMPTY
    retraced = False   # a point coinciding with the last-but-one vertex was pushed (known-finding class, see known_findings.json)
    # a collinear REPLACEMENT of the last vertex (vertex count unchanged) left the corner BEHIND it straight: push tests
    # (b, c, p) but never the corner (a, b, p) that the replacement exposes (known-finding classes ...:after-replacement)
    exposed = False
    for op, s in zip(c['ops'], c['snaps']):
        cur = state(s, st)
        if cur['o'] == 99:
            return ('C04:panic', 'loop construction panicked at op %s (%s)' % (op['k'], op['lab']))
        if op['k'] == 0:
            p = V(fls(op['p'], st))
            if len(prev['v']) >= 2 and cur['o'] == 0 and all(finite(float(x)) for x in p) and max(abs(x) for x in sub(prev['v'][-2], p)) < TOL_COL:
                retraced = True
            if cur['o'] != 0 and cur['raw'] != prev['raw']:
                return ('C04:refused-push-mutated', 'a refused push changed the loop')
            if cur['o'] == 0 and len(cur['v']) == len(prev['v']) >= 3 and all(finite(float(x)) for q in cur['v'][-3:] for x in q) \
                    and straight(cur['v'][-3], cur['v'][-2], cur['v'][-1]):
                exposed = True
            if prev['closed'] and cur['o'] == 0:
                return ('C04:push-on-closed-accepted', 'push on a closed loop was accepted')
            if not prev['closed'] and all(finite(float(x)) for x in p):
                v = prev['v']; n = prev['n']
                has_normal = len(v) >= 3 and len2(n) > Fr(1, 4)
                if len(v) < 3 and cur['o'] == 31:
                    # fewer than three vertices span no plane: no point can be off it (the normal of a corner that a spike
                    # pop removed is still cached)
                    return ('C04:valid-refused:stale-normal', 'a point was refused as non-coplanar by a loop of %d vertices (%s)' % (len(v), op['lab']))
                if prev['nan_normal'] and cur['o'] == 31:
                    pl = exact_plane(v)
                    if pl is None or dot(pl[1], sub(pl[0], p)) ** 2 < Fr(1, 10 ** 18) * len2(pl[1]):
                        return ('C04:valid-refused:nan-normal' + (':after-replacement' if exposed else ''), 'the loop normal is NaN (the third vertex was replaced by a point in line with the first two); every further point is refused as non-coplanar (%s)' % op['lab'])
                if has_normal:
                    h = dot(n, sub(v[0], p))
                    off = abs(h)
                    if off > Fr(1, 10 ** 4) and cur['o'] == 0:
                        return ('C04:offplane-accepted', 'a point %.3g off the plane was accepted' % float(off))
                    if off < Fr(1, 10 ** 9):
                        cls, short = crossing_class(v, p, n)
                        if cls == 'cross' and cur['o'] == 0:
                            return ('C04:crossing-accepted' + (':short-edges' if short else ''), 'an edge properly crossing an earlier edge was accepted (%s)' % op['lab'])
                        # three coincident points are refused by design (collinearity test undefined): exclude exact repeats
                        rep = len(v) >= 2 and max(abs(x) for x in sub(v[-1], p)) < TOL_COL and max(abs(x) for x in sub(v[-2], p)) < TOL_COL
                        if cls == 'clear' and cur['o'] != 0 and not rep:
                            return ('C04:valid-refused', 'a coplanar, clearly non-crossing point was refused with class %d (%s)' % (cur['o'], op['lab']))
        else:
            if prev['closed'] and cur['raw'] != prev['raw']:
                return ('C04:closed-loop-mutated-by-close', 'close() on a closed loop was refused (class %d) but changed the loop: %d -> %d vertices' % (cur['o'], len(prev['v']), len(cur['v'])))
            if cur['o'] == 0:
                v = cur['v']; n = cur['n']
                # close() dropped the last / first vertex: the wrap-around corners this creates are not tested again
                why = ':after-retrace' if retraced else ':after-replacement' if exposed else ':after-close-drop' if len(v) < len(prev['v']) else ''
                if not cur['closed']: return ('C04:close-ok-but-open', 'close returned Ok but the loop is open')
                if len(v) < 3: return ('C04:closed-lt3', 'closed loop with %d vertices' % len(v))
                m = len(v)
                for i in range(m):
                    a, b, cc = v[i - 1], v[i], v[(i + 1) % m]
                    # geometric collinearity (angle below 1e-7 rad) or coincident neighbours; a genuine corner between
                    # centimetre-long edges that merely falls under the crate's absolute 1e-5 tolerance is not collinear
                    e1, e2 = sub(b, a), sub(cc, b)
                    if len2(cross(e1, e2)) < Fr(1, 10 ** 14) * len2(e1) * len2(e2) or len2(e1) < TOL_COL ** 2 or len2(e2) < TOL_COL ** 2:
                        return ('C04:closed-collinear' + why, 'vertex %d of a closed loop is collinear with its neighbours' % i)
                f32 = bool(st is not None and st.f32)
                # planarity is judged geometrically, against the exact plane of the widest corner of the loop itself (the stored
                # normal is C10's business: for a sliver built from three nearly aligned f32 points it is rounding noise)
                best = None
                for i in range(m):
                    a, b, cc = v[i - 1], v[i], v[(i + 1) % m]
                    N = cross(sub(b, a), sub(cc, b)); nn = len2(N)
                    if best is None or nn > best[0]: best = (nn, N, b)
                nn, N, a0 = best
                for q in v:
                    # 1e-6 (ten times the crate's own 1e-7) for the f64 build; the f32 build stores the vertices rounded to 24
                    # bits, which alone moves a vertex off the plane by a few ulps of the coordinates: allow for it
                    tolq = Fr(1, 10 ** 6)
                    if f32: tolq += Fr(16, 2 ** 23) * (max(abs(x) for x in a0 + q) + sum(abs(x) for x in sub(a0, q)))
                    h = dot(N, sub(a0, q))
                    if nn > 0 and h * h > tolq * tolq * nn: return ('C04:closed-nonplanar', 'closed loop is not planar')
                # no two non-adjacent edges of a closed loop properly cross (clear crossings only: interior to both by 1%, angle > 0.6 deg)
                ax = dominant_axis(n); pv2 = [project(q, ax) for q in v]
                for i in range(m):
                    for j in range(i + 2, m):
                        if i == 0 and j == m - 1: continue
                        a, b, c2, d2 = pv2[i], pv2[(i + 1) % m], pv2[j], pv2[(j + 1) % m]
                        pr = seg_params2(a, b, c2, d2)
                        if pr is None: continue
                        t, u = pr; mg = Fr(1, 100)
                        if mg < t < 1 - mg and mg < u < 1 - mg:
                            e1 = sub(v[(i + 1) % m], v[i]); e2 = sub(v[(j + 1) % m], v[j]); cr = len2(cross(e1, e2))
                            if cr * 10000 > len2(e1) * len2(e2):
                                short = cr < Fr(1, 10 ** 5) * Fr(101, 100)
                                return ('C04:closed-self-crossing' + (':short-edges' if short else ''), 'edges %d and %d of a closed loop properly cross' % (i, j))
        if cur['closed'] and len(cur['v']) < 3:
            return ('C04:closed-lt3' + (':after-replacement' if exposed else ''), 'the loop is marked closed with %d vertices (outcome class %d)' % (len(cur['v']), cur['o']))
        if op['k'] == 1 and cur['o'] == 0 and not prev['closed']:
            # close may only drop the last and/or the first vertex, and only when redundant (collinear with, or
            # coincident with, its cyclic neighbours in the outline as it stood before the call)
            pv, cv = prev['v'], cur['v']
            m = len(pv)
            def redundant(i, vs=None):
                vs = pv if vs is None else vs; mm = len(vs)
                a, b, cc = vs[i - 1], vs[i], vs[(i + 1) % mm]
                if max(abs(x) for x in sub(a, b)) < TOL_COL or max(abs(x) for x in sub(cc, b)) < TOL_COL: return True
                return len2(cross(sub(b, a), sub(cc, b))) < TOL_COL ** 2 * Fr(101, 100)
            # (the repaired close repeats each drop while the exposed corner is still straight: any number of trailing and
            # leading vertices may go, each one redundant in the outline as it stood when it was dropped, in SOME order)
            shapes = [(df, dl) for df in range(m) for dl in range(m - df) if pv[df:m - dl] == cv]
            if not shapes:
                return ('C04:close-changed-outline', 'close() returned Ok but the vertex list is not the previous one minus leading/trailing vertices')
            def reachable(target):
                seen = set(); todo = [(0, 0)]
                while todo:
                    df, dl = todo.pop()
                    if (df, dl) == target: return True
                    if (df, dl) in seen or df > target[0] or dl > target[1]: continue
                    seen.add((df, dl))
                    cur_vs = pv[df:m - dl]
                    if len(cur_vs) < 3: continue
                    if redundant(len(cur_vs) - 1, cur_vs): todo.append((df, dl + 1))
                    if redundant(0, cur_vs): todo.append((df + 1, dl))
                return False
            if not any(reachable(t) for t in shapes):
                return ('C04:close-dropped-corner', 'close() dropped a vertex that is a genuine corner of the outline')
        prev = cur
    return None

def replay_args(c):
    out = []
    for o in c['ops']: out += [str(o['k'])] + [str(b) for b in o['p']]
    return out
