"""C10: loop area, perimeter, normal and centroid are geometrically correct, and behave as they
should under cyclic shifts, reversal, redundant collinear points and rigid motions."""
import math
from fractions import Fraction as Fr
from props import Stream
from fx import *
from geo import *

LEVEL = 'proof'
RULE = ('families of closed loops of the C04 space: simple polygons (convex, star, rectilinear, L/U, quads) with 3..60 vertices, either winding, '
        'first corner convex or reflex (start vertex placed just before a reflex corner half of the time), in coordinate, oblique and '
        'right-angle-rotated planes with offsets to 1e3, genuine corners |cross| >= 1e-4 (10x the library collinearity tolerance); for each base '
        'outline also 2 cyclic shifts, the reversal and a shifted reversal, two versions with redundant collinear points (one starting at an '
        'inserted point) and two rigidly moved copies (rotate_x/y/z by arbitrary angles and a translation, through the crate Transform), every '
        'one built through the real push/close API; class, stored vertices, normal, area, perimeter, centroid, and area/normal/outer_centroid of '
        'Polygon3D::new of the loop compared bit for bit; '
        'non-trivial = family with >= 4 successfully closed variants; distinct = distinct base point list; thorough tier: also 500 families of the f32 build '
        '(rigid copies: shifts to 8, right angles 70% of the time; correspondence only, no oracle)')
ASSUMPTIONS = [
    'Coq 8.16.1 kernel + vm_compute; theorems over the real-number instance of the model (exact tier)',
    'model = code: loop3d.rs push/close/set_normal/set_area/set_perimeter/centroid checked bit for bit on every variant of every family',
    'f32 build (thorough tier): the same runner text instantiated on the binary32 instance (module C10f32 of Run/C10.v on NumF32fast, proved equal to the '
    'Flocq-rounded NumF32 in Run/FastNum32Proof.v) against the harness built with --features float, bit for bit; the f32 generator draws 75% coordinate planes, offsets to 8 '
    '(finding F15: the absolute 1e-7 coplanarity tolerance refuses oblique f32 outlines; refusals are reproduced by the model); CORRESPONDENCE ONLY: the exact-rational '
    'oracle does not judge f32 cases',
    'float vs exact evaluation is not proved: the exact-rational oracle checks the implementation outputs against exact area / edge lengths / '
    'vertex mean at rounding-aware tolerances (area: 1e-9 relative + (n+5) ulp of sum |v_i|_1 |v_{i+1}|_1, which is the forward error bound of '
    'the formula sum v_i x v_{i+1} used by the crate; it is what limits the accuracy at offset 1e3)',
]
THEOREMS = ['C10_sum_cross_is_newell', 'C10_area_is_half_abs_n_dot_S', 'C10_normal_right_hand', 'C10_area_is_true_area', 'C10_S_shift', 'C10_S_reverse', 'C10_S_translate', 'C10_S_insert_on_edge', 'C10_S_insert_on_closing_edge', 'C10_S_ear', 'C10_signed_area_ear', 'C10_S_rigid_motion', 'C10_S_parallel_to_normal', 'C10_perimeter_is_sum_of_edges', 'C10_perimeter_shift', 'C10_perimeter_reverse', 'C10_centroid_is_mean', 'C10_centroid_shift', 'C10_centroid_reverse', 'C10_polygon_area_normal', 'C10_polygon_outer_centroid_is_mean', 'C10_set_normal_unit_perp', 'C10_pipeline_shift_partial', 'C10_pipeline_point_on_edge',
            'C10_pipeline_enrichment', 'C10_pipeline_enrichment_same_start', 'C10_pipeline_enriched_at_vertex', 'C10_pipeline_enriched_at_inserted_point',
            'C10_enrichment_measures', 'C10_normal_before_close_is_first_corner', 'C10_enrichment_area_normal', 'C10_enrichment_area_normal_given_normals',
            'C10_enrich_conditions_cyclic', 'C10_enrich_start_distinct_from_successor']

def streams(tier):
    if tier == 'quick': return [Stream('C10', 300)]
    if tier == 'search': return [Stream('C10', 600)]
    # f32 build (thorough tier): correspondence only, the oracle does not judge f32 cases
    return [Stream('C10', 1500), Stream('C10', 500, release=True), Stream('C10', 500, f32=True)]

def is_f32(c, st=None):
    """cases of the f32 build carry "f32": true (harness/src/loops.rs); the stream flag says the same"""
    return bool(c.get('f32') or (st is not None and getattr(st, 'f32', False)))

def fls(bits, st):
    fm = Fmt(st.f32 if st is not None else False)
    return [fm.fl(b) for b in bits]

def classify(c, st):
    key = tuple(c['variants'][0]['pts'])
    nok = sum(1 for v in c['variants'] if v['o'] == 0)
    p = c['note'].split(':')
    return key, nok < 4, ('f32:' + (p[2] if len(p) > 2 else '') + ':' if is_f32(c, st) else '') + p[0] + ':' + (p[3] if len(p) > 3 else '')

def describe(c, st):
    b = c['variants'][0]
    return dict(note=c['note'], variants=[[v['kind'], v['k'], len(v['pts']) // 3, v['o']] for v in c['variants']],
                base_points=[hexf(x) for x in fls(b['pts'], st)][:18], base_area_perimeter=[hexf(x) for x in fls(b['ap'], st)],
                base_normal=[hexf(x) for x in fls(b['n'], st)])

U = Fr(1, 2 ** 53)
REL = Fr(1, 10 ** 9)

def norm1(v): return abs(v[0]) + abs(v[1]) + abs(v[2])

def sqrt_bounds(x):
    """rational lower/upper bounds of sqrt(x), x >= 0 rational (float sqrt is within 2 ulp of the true root of the rounded argument)"""
    if x == 0: return Fr(0), Fr(0)
    s = Fr(math.sqrt(float(x)))
    lo, hi = s * (1 - Fr(1, 10 ** 14)), s * (1 + Fr(1, 10 ** 14))
    # certify
    while lo * lo > x: lo = lo * (1 - Fr(1, 10 ** 13))
    while hi * hi < x: hi = hi * (1 + Fr(1, 10 ** 13))
    return lo, hi

def tolerance_corner(v, st):
    """some cyclically consecutive triple of the variant's INPUT points is a genuine corner below the library's collinearity
    tolerance: 0 < |(q - p) x (r - q)|^2 < 1e-10 (an inserted point within 1e-5 / |edge| of a corner makes push drop the corner)"""
    pts = unflat(fls(v['pts'], st)); m = len(pts)
    for i in range(m):
        p_, q_, r_ = pts[i], pts[(i + 1) % m], pts[(i + 2) % m]
        c2 = len2(cross(sub(q_, p_), sub(r_, q_)))
        if 0 < c2 < Fr(1, 10 ** 10): return True
    return False

def measures(v, st):
    """decode one successfully closed variant: exact data of the STORED vertices and the reported values"""
    vs = unflat(fls(v['v'], st)); n = V(fls(v['n'], st))
    a, p = [Fr(x) for x in fls(v['ap'], st)]
    c = V(fls(v['c'], st))
    m = len(vs)
    S = newell(vs)
    # twice the exact area, bounds
    lo2, hi2 = sqrt_bounds(len2(S))
    maxabs = max(max(abs(x) for x in q) for q in vs)
    # forward error bound of the crate's formula n . sum(v_i x v_{i+1}) / 2
    P = sum(norm1(vs[i]) * norm1(vs[(i + 1) % m]) for i in range(m))
    tol_area = (m + 5) * 2 * U * P
    per_lo = Fr(0); per_hi = Fr(0); emax = Fr(0)
    for i in range(m):
        l, h = sqrt_bounds(len2(sub(vs[i], vs[(i + 1) % m]))); per_lo += l; per_hi += h; emax = max(emax, h)
    # conditioning of the normal: it is computed from the first three stored vertices
    e1 = sub(vs[1], vs[0]); e2 = sub(vs[2], vs[1]); cr = cross(e1, e2)
    crl = sqrt_bounds(len2(cr))[0]
    el = max(sqrt_bounds(len2(e1))[1], sqrt_bounds(len2(e2))[1])
    # direction error of the normal caused by the rounding of the vertex coordinates (ulp of maxabs) at the first corner
    tol_dir = REL + 64 * U * (maxabs + 1) * el / crl
    return dict(vs=vs, n=n, area=a, per=p, c=c, m=m, S=S, A_lo=lo2 / 2, A_hi=hi2 / 2, tol_area=tol_area, per_lo=per_lo, per_hi=per_hi,
                maxabs=maxabs, emax=emax, tol_dir=tol_dir)

def check_single(M, tag):
    vs, n, m = M['vs'], M['n'], M['m']
    if M['area'] < M['A_lo'] * (1 - REL) - M['tol_area'] or M['area'] > M['A_hi'] * (1 + REL) + M['tol_area']:
        return ('C10:area', '%s: reported area %.17g, exact area of the stored outline %.17g (tolerance %.3g)' % (tag, float(M['area']), float(M['A_lo']), float(M['tol_area'] + REL * M['A_hi'])))
    tp = REL * M['per_hi'] + (m + 2) * 4 * U * (M['maxabs'] + 1)
    if M['per'] < M['per_lo'] - tp or M['per'] > M['per_hi'] + tp:
        return ('C10:perimeter', '%s: reported perimeter %.17g, sum of the edge lengths %.17g' % (tag, float(M['per']), float(M['per_lo'])))
    if abs(len2(n) - 1) > 2 * REL:
        return ('C10:normal-unit', '%s: |normal|^2 = %.17g' % (tag, float(len2(n))))
    for i in range(m):
        e = sub(vs[(i + 1) % m], vs[i])
        # |n.e| <= tol |e|   compared through squares
        if dot(n, e) ** 2 > (M['tol_dir'] ** 2) * len2(e) * Fr(4):
            return ('C10:normal-perpendicular', '%s: normal . edge %d = %.3g for an edge of length %.3g' % (tag, i, float(dot(n, e)), math.sqrt(float(len2(e)))))
    if dot(n, M['S']) <= 0:
        return ('C10:normal-orientation', '%s: the normal does not follow the right-hand rule w.r.t. the stored vertex order (n . sum v_i x v_{i+1} = %.3g)' % (tag, float(dot(n, M['S']))))
    mean = tuple(sum(q[k] for q in vs) / m for k in range(3))
    tc = (m + 2) * 2 * U * (M['maxabs'] + 1)
    if max(abs(x) for x in sub(mean, M['c'])) > tc:
        return ('C10:centroid', '%s: centroid differs from the vertex mean by %.3g' % (tag, float(max(abs(x) for x in sub(mean, M['c'])))))
    return None

def check_polygon(v, M, tag, st):
    """Polygon3D::new(loop): area and normal are the loop's, outer_centroid is the vertex mean"""
    if not v.get('pg'): return ('C10:polygon', '%s: Polygon3D::new failed on a closed loop' % tag)
    pg = [Fr(x) for x in fls(v['pg'], st)]
    if pg[0] != M['area'] or tuple(pg[1:4]) != tuple(M['n']):
        return ('C10:polygon', '%s: polygon area/normal differ from the loop area/normal' % tag)
    mean = tuple(sum(q[k] for q in M['vs']) / M['m'] for k in range(3))
    if max(abs(x) for x in sub(mean, tuple(pg[4:7]))) > (M['m'] + 2) * 2 * U * (M['maxabs'] + 1):
        return ('C10:polygon-centroid', '%s: outer_centroid differs from the vertex mean' % tag)
    return None

def apply_mat(mat, p, w):
    return tuple(mat[4 * r] * p[0] + mat[4 * r + 1] * p[1] + mat[4 * r + 2] * p[2] + mat[4 * r + 3] * w for r in range(3))

def oracle(c, st):
    # f32 build: correspondence only (U = 2^-53 and REL = 1e-9 above are binary64 allowances)
    if is_f32(c, st): return None
    vs = c['variants']
    base = vs[0]
    if any(v['o'] == 99 for v in vs):
        return ('C10:panic', 'building a loop panicked')
    if base['o'] != 0:
        return None                      # the outline was refused (C04's concern); nothing to measure
    for v in vs:
        if v['o'] == 0 and not all(finite(x) for x in fls(v['v'] + v['n'] + v['ap'] + v['c'], st)):
            return ('C10:non-finite', '%s: non-finite area/perimeter/normal/centroid' % v['kind'])
    B = measures(base, st)
    f = check_single(B, 'base') or check_polygon(base, B, 'base', st)
    if f: return f
    for v in vs[1:]:
        if v['o'] != 0: continue         # refused variant: counted by classify, not judged here
        M = measures(v, st)
        tag = '%s(%d)' % (v['kind'], v['k'])
        f = check_single(M, tag) or check_polygon(v, M, tag, st)
        if f: return f
        rev = v['kind'] == 'reverse'
        ta = M['tol_area'] + B['tol_area'] + REL * B['A_hi']
        tper = REL * B['per_hi'] + (M['m'] + B['m'] + 4) * 4 * U * (max(M['maxabs'], B['maxabs']) + 1)
        if v['kind'] in ('shift', 'reverse', 'collinear'):
            sig = {'shift': 'shift-dependence', 'reverse': 'reversal', 'collinear': 'collinear-dependence'}[v['kind']]
            # class of the recorded finding C10:collinear-dependence:tolerance-corner:*: the INPUT of this variant has a genuine corner
            # (p, q, r) that the library's absolute collinearity tolerance takes for a straight run: 0 < |pq x qr| < 1e-5
            if v['kind'] == 'collinear' and tolerance_corner(v, st): sig += ':tolerance-corner'
            if abs(M['area'] - B['area']) > ta:
                return ('C10:%s:area' % sig, '%s: area %.17g vs base %.17g' % (tag, float(M['area']), float(B['area'])))
            if abs(M['per'] - B['per']) > tper:
                return ('C10:%s:perimeter' % sig, '%s: perimeter %.17g vs base %.17g' % (tag, float(M['per']), float(B['per'])))
            want_n = scale(B['n'], -1) if rev else B['n']
            if max(abs(x) for x in sub(M['n'], want_n)) > M['tol_dir'] + B['tol_dir']:
                return ('C10:%s:normal' % sig, '%s: normal %s vs base %s' % (tag, [float(x) for x in M['n']], [float(x) for x in B['n']]))
            tc = (M['m'] + B['m'] + 4) * 2 * U * (B['maxabs'] + 1)
            if max(abs(x) for x in sub(M['c'], B['c'])) > tc:
                return ('C10:%s:centroid' % sig, '%s: centroid moved by %.3g' % (tag, float(max(abs(x) for x in sub(M['c'], B['c'])))))
        else:
            mat = [Fr(x) for x in fls(v['mat'], st)]
            if M['m'] != B['m']:
                return ('C10:rigid-motion:vertices', '%s: %d stored vertices vs %d in the base' % (tag, M['m'], B['m']))
            if abs(M['area'] - B['area']) > ta:
                return ('C10:rigid-motion:area', '%s: area %.17g vs base %.17g' % (tag, float(M['area']), float(B['area'])))
            if abs(M['per'] - B['per']) > tper:
                return ('C10:rigid-motion:perimeter', '%s: perimeter %.17g vs base %.17g' % (tag, float(M['per']), float(B['per'])))
            wn = apply_mat(mat, B['n'], 0)
            if max(abs(x) for x in sub(M['n'], wn)) > M['tol_dir'] + B['tol_dir'] + REL:
                return ('C10:rigid-motion:normal', '%s: normal %s, moved base normal %s' % (tag, [float(x) for x in M['n']], [float(x) for x in wn]))
            wc = apply_mat(mat, B['c'], 1)
            if max(abs(x) for x in sub(M['c'], wc)) > REL * (1 + M['maxabs'] + B['maxabs']):
                return ('C10:rigid-motion:centroid', '%s: centroid %s, moved base centroid %s' % (tag, [float(x) for x in M['c']], [float(x) for x in wc]))
    return None

def replay_args(c):
    out = []
    for v in c['variants']:
        out += [v['kind'], str(v['k']), str(len(v['pts']) // 3)] + [str(b) for b in v['pts']]
        if v['kind'] == 'rigid': out += [str(b) for b in v['mat']]
    return out
