"""Exact planar geometry on float coordinates for the polygon oracles (C11, C12, C20).
Coordinates are IEEE doubles = exact dyadic rationals; every predicate is evaluated in floating point with a
rigorous-enough error guard and falls back to exact rational arithmetic inside the guard band, so the
verdicts are those of exact arithmetic."""
from fractions import Fraction as Fr
from fx import *
from geo import *

def fls(bits, st=None):
    fm = Fmt(st.f32 if st is not None else False)
    return [fm.fl(b) for b in bits]

def pts3(bits, st=None):
    f = fls(bits, st)
    return [tuple(f[i:i + 3]) for i in range(0, len(f), 3)]

class LoopJ:
    """a loop snapshot of the harness: vertices (floats), normal, closed, [area, perimeter]"""
    def __init__(self, j, st=None):
        self.v = pts3(j['v'], st)
        self.n = tuple(fls(j['n'], st))
        self.closed = j['closed']
        self.ap = fls(j['ap'], st)
        self.raw = (tuple(j['v']), tuple(j['n']), j['closed'], tuple(j['ap']))
    def ok(self):
        return all(finite(x) for p in self.v for x in p)
    def area(self):
        return self.ap[0] if self.ap else None

def X(p): return tuple(Fr(x) for x in p)

def newell_x(v):
    return newell([X(p) for p in v])

def proj(p, ax):
    """drop coordinate `ax` (cyclic order kept): floats stay exact"""
    if ax == 0: return (p[1], p[2])
    if ax == 1: return (p[2], p[0])
    return (p[0], p[1])

# ---- filtered predicates on 2-D float points ----
def orient_sign(a, b, c):
    l = (b[0] - a[0]) * (c[1] - a[1]); r = (b[1] - a[1]) * (c[0] - a[0])
    det = l - r
    if abs(det) > (abs(l) + abs(r)) * 1e-13 + 1e-300: return 1 if det > 0 else -1
    a, b, c = [(Fr(p[0]), Fr(p[1])) for p in (a, b, c)]
    d = orient2(a, b, c)
    return 0 if d == 0 else (1 if d > 0 else -1)

def winding(poly, q):
    """exact winding number of q w.r.t. the closed polygon (q not on the outline)"""
    wn = 0; n = len(poly)
    for i in range(n):
        a, b = poly[i], poly[(i + 1) % n]
        if a[1] <= q[1]:
            if b[1] > q[1] and orient_sign(a, b, q) > 0: wn += 1
        else:
            if b[1] <= q[1] and orient_sign(a, b, q) < 0: wn -= 1
    return wn

def d2_point_seg_f(q, a, b):
    px, py = q[0] - a[0], q[1] - a[1]
    dx, dy = b[0] - a[0], b[1] - a[1]
    l2 = dx * dx + dy * dy
    t = 0.0 if l2 == 0 else max(0.0, min(1.0, (px * dx + py * dy) / l2))
    rx, ry = px - t * dx, py - t * dy
    return rx * rx + ry * ry

def d2_point_seg_x(q, a, b):
    return dist2_point_seg2((Fr(q[0]), Fr(q[1])), (Fr(a[0]), Fr(a[1])), (Fr(b[0]), Fr(b[1])))

GUARD = 1e-6
def point_seg_ge(q, a, b, m):
    """dist(q, segment ab) >= m, exactly"""
    d = d2_point_seg_f(q, a, b); m2 = m * m
    if d >= m2 * (1 + GUARD): return True
    if d <= m2 * (1 - GUARD): return False
    return d2_point_seg_x(q, a, b) >= Fr(m) ** 2

def outline_ge(poly, q, m):
    """every edge of the closed polygon is at distance >= m from q"""
    n = len(poly)
    return all(point_seg_ge(q, poly[i], poly[(i + 1) % n], m) for i in range(n))

def outline_lt(poly, q, m):
    return not outline_ge(poly, q, m)

def segs_cross(a, b, c, d):
    """closed segments ab and cd have a common point"""
    o1, o2, o3, o4 = orient_sign(a, b, c), orient_sign(a, b, d), orient_sign(c, d, a), orient_sign(c, d, b)
    if o1 * o2 < 0 and o3 * o4 < 0: return True
    def on(p, q, r):  # r on segment pq given collinear
        return min(p[0], q[0]) <= r[0] <= max(p[0], q[0]) and min(p[1], q[1]) <= r[1] <= max(p[1], q[1])
    if o1 == 0 and on(a, b, c): return True
    if o2 == 0 and on(a, b, d): return True
    if o3 == 0 and on(c, d, a): return True
    if o4 == 0 and on(c, d, b): return True
    return False

def seg_seg_ge(a, b, c, d, m):
    """dist(segment ab, segment cd) >= m, exactly"""
    if segs_cross(a, b, c, d): return False
    return point_seg_ge(a, c, d, m) and point_seg_ge(b, c, d, m) and point_seg_ge(c, a, b, m) and point_seg_ge(d, a, b, m)

def edges(poly):
    n = len(poly)
    return [(poly[i], poly[(i + 1) % n]) for i in range(n)]

def outlines_ge(p1, p2, m):
    """the two closed outlines are at distance >= m from each other"""
    return all(seg_seg_ge(a, b, c, d, m) for a, b in edges(p1) for c, d in edges(p2))

def area2x(poly):
    """exact signed area of a 2-D float polygon"""
    return area2_signed([(Fr(p[0]), Fr(p[1])) for p in poly])

class Plane:
    """the exact plane of a loop (Newell normal through vertex 0) and the projection dropping its dominant axis"""
    def __init__(self, v):
        self.p0 = X(v[0]); self.n = newell_x(v); self.nn = len2(self.n)
        self.ax = dominant_axis(self.n)
    def off2(self, p):
        """squared distance of p from the plane"""
        h = dot(self.n, sub(X(p), self.p0))
        return h * h / self.nn
    def sin2(self, other_n):
        c = cross(self.n, other_n)
        return len2(c) / (self.nn * len2(other_n))
    def to2(self, v):
        return [proj(p, self.ax) for p in v]
    def scale2(self):
        """(projected area / true area)^2"""
        return self.n[self.ax] ** 2 / self.nn

def rel_close(a, b, tol):
    a, b = Fr(a), Fr(b)
    return abs(a - b) <= Fr(tol) * max(abs(a), abs(b), Fr(1, 10 ** 6))

def loop_bits_args(j):
    """replay arguments of a loop snapshot: n closed x y z ... (bit patterns)"""
    v = j['v']
    return [str(len(v) // 3), '1' if j['closed'] else '0'] + [str(b) for b in v]
