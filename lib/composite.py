"""A property whose evidence comes from several parts (e.g. C02 = flat primitives + quadrics).
Each part module `lib/<part>.py` provides:
   PROPS                      -> set of property ids it serves
   streams(prop, tier)        -> [Stream]   (stream names must be unique per part, e.g. 'C02flat')
   classify(prop, c, st), describe(prop, c, st), oracle(prop, c, st), replay_args(prop, c)
   RULE[prop], ASSUMPTIONS[prop], THEOREMS[prop] (optional)
`make(globals(), 'C02', ['pflat','pquadric'])` turns them into the per-property interface of props.py;
cases are dispatched to the part that owns the stream name (st.name) or c['part']."""
import importlib

def make(g, prop, parts, level='proof'):
    mods = [importlib.import_module(p) for p in parts]
    owner = {}
    def streams(tier):
        out = []
        for m in mods:
            for s in m.streams(prop, tier):
                owner[s.name] = m
                out.append(s)
        return out
    def who(c, st):
        if st is not None and st.name in owner: return owner[st.name]
        for m in mods:
            if c.get('part') == m.__name__: return m
        for tier in ('quick', 'thorough', 'search'): streams(tier)
        if st is not None and st.name in owner: return owner[st.name]
        return mods[0]
    g['LEVEL'] = level
    g['RULE'] = ' || '.join(m.RULE[prop] for m in mods)
    g['ASSUMPTIONS'] = [a for m in mods for a in m.ASSUMPTIONS[prop]]
    th = [t for m in mods for t in getattr(m, 'THEOREMS', {}).get(prop, [])]
    g['THEOREMS'] = th or None
    g['streams'] = streams
    g['classify'] = lambda c, st: who(c, st).classify(prop, c, st)
    g['describe'] = lambda c, st: who(c, st).describe(prop, c, st)
    g['oracle'] = lambda c, st: who(c, st).oracle(prop, c, st)
    g['replay_args'] = lambda c: who(c, None).replay_args(prop, c)
