"""C11: cutting a hole is all-or-nothing and accounts for its area (histories of candidate holes)."""
from fractions import Fraction as Fr
from props import Stream
from fx import *
from geo import *
from polyx import *

LEVEL = 'proof'
RULE = ('histories: a polygon of the C04 space (convex, star, rectilinear, L/U, quads; with redundant collinear points, either winding, any '
        'start; coordinate, oblique and right-angle-rotated planes, offsets to 1e3) followed by 1..4 candidate holes of 3..8 vertices '
        '(regular or star-shaped, either winding, any start): admissible, tilted 1..90 deg, parallel plane offset 1e-3..1 (a quarter of these two kinds '
        'instead around the library thresholds: tilt 0.01..1 deg, offset 1e-9..1e-3; compared with the model, outside the oracle\'s "clearly"), outside, straddling '
        'the outline, inside / straddling an existing hole, enclosing an existing hole, one vertex millimetres from the first edge midpoint, '
        'not closed; outcome class and complete polygon state compared after every cut_hole; non-trivial = at least one candidate was '
        'accepted or refused for a geometric reason; distinct = distinct (outer, candidates) bit patterns; thorough tier: also 2000 histories of the f32 build (correspondence only, no oracle)')
ASSUMPTIONS = [
    'Coq 8.16.1 kernel + vm_compute; the structural theorems hold for every number instance of the model (reals, Flocq floats, primitive floats)',
    'model = code: polygon3d.rs new/test_point/cut_hole checked bit-for-bit after every step of every history',
    'f32 build (thorough tier): the same runner text instantiated on the binary32 instance (module C11f32 of Run/C11.v on NumF32fast, proved equal to the '
    'Flocq-rounded NumF32 in Run/FastNum32Proof.v) against the harness built with --features float, bit for bit; the f32 generator draws 75% coordinate planes, offsets to 8 '
    '(finding F15: the absolute 1e-7 coplanarity tolerance refuses oblique f32 outlines; refusals / Err / panic outcomes are reproduced by the model); CORRESPONDENCE ONLY: the '
    'exact-rational oracle does not judge f32 cases',
    'the geometric reading (inside / outside / enclosing) rests on Loop3D::test_point (C05) and is checked on the implementation by the exact oracle with margins >= 1e-3',
]
THEOREMS = ['C11_refused_unchanged', 'C11_accepted_accounts', 'C11_history_accounting', 'C11_history_from_new', 'C11_acceptance', 'C11_no_panic']

def streams(tier):
    if tier == 'quick': return [Stream('C11', 1200)]
    if tier == 'search': return [Stream('C11', 2500)]
    # f32 build (thorough tier): correspondence only, the oracle does not judge f32 cases
    return [Stream('C11', 6000), Stream('C11', 2000, release=True), Stream('C11', 2000, f32=True)]

def is_f32(c, st=None):
    """cases of the f32 build carry "f32": true (harness/src/polys.rs); the stream flag says the same"""
    return bool(c.get('f32') or (st is not None and getattr(st, 'f32', False)))

M = 1e-3          # the margin of "clearly"
OFF_CLEAR2 = Fr(1, 10 ** 8)     # (1e-4)^2 : clearly off the plane (library tolerance 1e-7)
ON2 = Fr(1, 10 ** 18)           # (1e-9)^2 : on the plane
SIN2_CLEAR = Fr(1, 10 ** 4)     # |sin| > 0.01 : clearly not parallel (library: sin^2 < 1e-5)

def classify(c, st):
    key = (tuple(c['outer']['v']), tuple(tuple(h['loop']['v']) for h in c['holes']))
    outs = [s['o'] for s in c['snaps']]
    triv = not any(o in (0, 50, 51, 52) for o in outs)
    return key, triv, ('f32:' if is_f32(c, st) else '') + ('%s->%d' % (c['holes'][-1]['kind'], outs[-1]) if outs else 'empty')

def describe(c, st):
    return dict(note=c['note'], outer=[hexf(x) for p in LoopJ(c['outer'], st).v[:6] for x in p],
                holes=[dict(kind=h['kind'], n=len(h['loop']['v']) // 3, o=s['o']) for h, s in zip(c['holes'], c['snaps'])],
                areas=[hexf(fls([s['area']], st)[0]) for s in c['snaps']])

def praw(s):
    return (s['area'], tuple(s['n']), tuple(s['outer']), tuple((tuple(l['v']), tuple(l['n']), l['closed'], tuple(l['ap'])) for l in s['inner']))

def geometric(outer, inner, hole):
    """exact reading of one candidate against the polygon (outer, existing holes):
    ('admissible' | 'inadmissible' | None, reason, expected test_point answers per hole vertex, per existing-hole vertex)"""
    if not (outer.ok() and hole.ok() and all(g.ok() for g in inner)) or len(hole.v) < 3: return None, 'nonfinite', None, None
    pl = Plane(outer.v)
    hn = newell_x(hole.v)
    if len2(hn) == 0: return None, 'degenerate', None, None
    offs = [pl.off2(p) for p in hole.v]
    exp_ins = [None] * len(hole.v); exp_enc = [[None] * len(g.v) for g in inner]
    if pl.sin2(hn) > SIN2_CLEAR: return 'inadmissible', 'plane:tilted', exp_ins, exp_enc
    if any(o > OFF_CLEAR2 for o in offs):
        for i, o in enumerate(offs):
            if o > OFF_CLEAR2: exp_ins[i] = 0
        return 'inadmissible', 'plane:offset', exp_ins, exp_enc
    if any(o > ON2 for o in offs): return None, 'plane:band', exp_ins, exp_enc
    # an EXISTING hole that was accepted inside the coplanarity band (off the polygon's plane by more than ON2 but less than the
    # refusal threshold) is not a clear configuration either: point tests against it cast rays in a plane that misses its edges
    # by that offset, so containment in / of such a hole is not judged (seed 11 of the multi-seed sweep: an 'offset-band' hole
    # followed by a candidate straddling it)
    if any(pl.off2(p) > ON2 for g in inner for p in g.v): return None, 'existing-hole:band', exp_ins, exp_enc
    o2 = pl.to2(outer.v); h2 = pl.to2(hole.v); g2 = [pl.to2(g.v) for g in inner]
    status = []
    for i, q in enumerate(h2):
        s = 'band'
        if outline_ge(o2, q, M):
            if winding(o2, q) == 0: s = 'out'
            else:
                s = 'in'
                for g in g2:
                    if not outline_ge(g, q, M): s = 'band'; break
                    if winding(g, q) != 0: s = 'out'; break
        else:
            # near the outer outline, but possibly clearly inside an existing hole
            for g in g2:
                if outline_ge(g, q, M) and winding(g, q) != 0: s = 'out'; break
        status.append(s)
        exp_ins[i] = 1 if s == 'in' else 0 if s == 'out' else None
    enclosed = False; free = True
    for k, g in enumerate(g2):
        for j, w in enumerate(g):
            if outline_ge(h2, w, M):
                inside = winding(h2, w) != 0
                exp_enc[k][j] = 1 if inside else 0
                if inside: enclosed = True; free = False
            else:
                free = False
    if 'out' in status: return 'inadmissible', 'vertex-outside', exp_ins, exp_enc
    if enclosed: return 'inadmissible', 'encloses', exp_ins, exp_enc
    if all(s == 'in' for s in status) and free and hole.closed:
        if outlines_ge(h2, o2, M) and all(outlines_ge(h2, g, M) for g in g2):
            return 'admissible', 'inside', exp_ins, exp_enc
    return None, 'unclassified', exp_ins, exp_enc

def oracle(c, st):
    # f32 build: correspondence only (the margins M / OFF_CLEAR2 / ON2 above are set against binary64 rounding)
    if is_f32(c, st): return None
    outer = LoopJ(c['outer'], st)
    prev = c['init']
    if c['init']['inner'] or tuple(c['init']['outer']) != tuple(c['outer']['v']):
        return ('C11:new-state', 'Polygon3D::new does not hold the given outline without holes')
    if outer.ap and c['init']['area'] != c['outer']['ap'][0]:
        return ('C11:new-area', 'Polygon3D::new: area differs from the outer loop area')
    acc_area = fls([c['init']['area']], st)[0]
    for h, s in zip(c['holes'], c['snaps']):
        o = s['o']
        hole = LoopJ(h['loop'], st)
        if o == 99: return ('C11:panic', 'cut_hole panicked (%s candidate)' % h['kind'])
        if o != 0:
            if praw(s) != praw(prev): return ('C11:refused-mutated', 'a refused cut_hole (class %d, %s) changed the polygon' % (o, h['kind']))
        else:
            pi, ci = prev['inner'], s['inner']
            if len(ci) != len(pi) + 1: return ('C11:count', 'accepted hole: inner loops went from %d to %d' % (len(pi), len(ci)))
            if praw(dict(s, inner=ci[:-1], area=prev['area'])) != praw(prev): return ('C11:accepted-other-state', 'accepted hole: outer / normal / earlier holes changed')
            if LoopJ(ci[-1], st).raw != hole.raw: return ('C11:accepted-wrong-loop', 'accepted hole: the stored inner loop is not the given hole')
            if not hole.closed: return ('C11:open-accepted', 'an open loop was accepted as a hole')
            a0 = fls([prev['area']], st)[0]; a1 = fls([s['area']], st)[0]
            if finite(a0) and finite(hole.ap[0]) and bits64(a0 - hole.ap[0]) != bits64(a1):
                return ('C11:area-accounting', 'accepted hole: area %r - %r gave %r' % (a0, hole.ap[0], a1))
            acc_area = acc_area - hole.ap[0]
            if bits64(acc_area) != bits64(a1): return ('C11:area-accounting', 'area is not outer - sum of accepted holes (left to right)')
        # acceptance = the conjunction of the tests, as observed through the public API just before the call
        want = h['par'] and all(x == 1 for x in h['ins']) and all(x == 0 for e in h['enc'] for x in e) and hole.closed
        if want != (o == 0) and not any(x == -99 for x in h['ins'] + [x for e in h['enc'] for x in e]):
            return ('C11:acceptance-inconsistent', 'outcome %d but parallel=%s, test_point of the hole vertices=%s, of the existing holes\' vertices=%s' % (o, h['par'], h['ins'], h['enc']))
        # geometric reading
        inner = [LoopJ(l, st) for l in prev['inner']]
        verdict, reason, exp_ins, exp_enc = geometric(outer, inner, hole)
        if verdict is not None and (verdict == 'admissible') != (o == 0):
            wrong = [i for i, (e, x) in enumerate(zip(exp_ins, h['ins'])) if e is not None and x in (0, 1) and e != x]
            wrong_e = [(k, j) for k, (ee, xe) in enumerate(zip(exp_enc, h['enc'])) for j, (e, x) in enumerate(zip(ee, xe)) if e is not None and x in (0, 1) and e != x]
            if wrong or wrong_e:
                return ('C11:via-C05-test-point', 'a clearly %s hole (%s, %s) was %s because test_point answered wrongly for hole vertices %s / existing-hole vertices %s'
                        % (verdict, reason, h['kind'], 'accepted' if o == 0 else 'refused (class %d)' % o, wrong, wrong_e))
            return ('C11:%s-%s' % (verdict, 'accepted' if o == 0 else 'refused'),
                    'a clearly %s hole (%s, generated as %s) was %s' % (verdict, reason, h['kind'], 'accepted' if o == 0 else 'refused with class %d' % o))
        prev = s
    return None

def replay_args(c):
    out = loop_bits_args(c['outer'])
    for h in c['holes']: out += loop_bits_args(h['loop'])
    return out
