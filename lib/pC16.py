"""C16: reported transform error bounds are true bounds.

Oracle (exact rationals, on the implementation's outputs), three parts:
 (S) soundness      the exact image, under the STORED matrix, of the input and of every input in the supplied error
                    box lies within the returned error of the returned value, component by component.  By linearity the
                    worst corner of the box is at distance |ret_i - image_i| + sum_j |m_ij| e_j, which is what is compared
                    (identical to enumerating the 8 corners).
 (M) meaningfulness returned error <= 2 * (first-order worst case)  (+ 2^-1000), where the first-order worst case is
                      POINT functions (and ray origins):      gamma3 * (sum_j |m_ij x_j| + |m_i3|) + sum_j |m_ij| e_j
                      VECTOR functions (and ray directions):  gamma3 * sum_j |m_ij v_j| + sum_j |m_ij| e_j
                    -- a vector's image is three products and two additions and never meets the translation column,
                    so no translation term belongs to its yardstick ("whatever the size of the translation").
 (R) ray origin     the nudged origin is advanced by at most ||o_error||_2 and no corner of the error box around the
                    un-nudged origin lies ahead of it (both up to the rounding of the nudge itself, see ray_part).

Signatures are  C16:<part>:<function>:<class> ; the class is a predicate on the case, computed here.
Only ONE class is a recorded (known) finding of the current crate:
   C16:S:<fn>:underflow                  some product m_ij*x_j is non-zero and below 2^-968 (F9c; Coq: C16_S_underflow_refuted)
Three classes describe defects that were REPAIRED in /repo (known_findings.json: status fixed, they suppress nothing; a
reappearance is a VIOLATION):
   C16:S:<pt fn>:gamma3-vs-4-roundings   point row with a translation, excess below 4/3 (1+3u): what gamma(3) against four
                                         roundings produced before fix: 34af114 (Coq: C16_S_point_pinned_refuted; now C16_S_point)
   C16:M:<propagate fn>:translation      |m_i3| (1+gamma3) explains the excess: the translation column in the propagated input
                                         error before fix: 5455df2 (Coq: C16_M_pinned_refuted; now C16_M_propagate)
   C16:M:<vector fn>:translation         gamma3 |m_i3| explains the excess: the translation column in the error of a transformed
                                         VECTOR (vec_with_error, vec_propagate_error, the direction of the four ray functions)
                                         before the fix of transform_vec_with_error / inv_transform_vec_with_error
                                         (Coq: C16_M_vec_pinned_refuted; now C16_M_vec_with_error, C16_M_vec_propagate)
Every other class (`within-proved-factor`: an input-box case above the returned error but inside the (1+4u) that is proved,
`beyond-proved-bound`, `other`, every R failure) is a violation as well.
"""
import math
from fractions import Fraction as Fr
from props import Stream
from fx import *

LEVEL = 'proof'
RULE = ('chains of 0..6 elementary transforms (as C06) plus chains with three non-zero linear entries and a small translation '
        'per row; per chain 12 calls of the 12 error-returning functions (transform/inv_transform x pt/vec x with_error/'
        'propagate_error, the four *_ray* functions); operands: random (coordinates log-uniform up to 1e6, error boxes up to '
        '1e-3, zeros and exact values) and ADVERSARIAL (products and partial sums steered to just above a power of two, then a '
        'greedy low-bit search maximising the exact rounding error over the reported bound, using fused multiply-add / TwoSum '
        'error-free transformations); thorough tier: also 4000 cases of the f32 build (the adversarial search then works on binary32 ulps); non-trivial = finite affine case with a non-zero input; distinct = distinct (op, matrix, operand bits)')
ASSUMPTIONS = [
    'Coq 8.16.1 kernel + vm_compute; Flocq 4.1.0; float-tier theorems hold for every binary format with prec >= 8 (binary32/64 are instances), under the stated no-underflow / finiteness guards',
    'model = code: transform.rs error functions checked bit-for-bit on primitive floats (coq/Run/C06.v, ops 6,7,11..20)',
    'f32 build (thorough tier): the same runner text on the binary32 instance (module C06f32 of Run/C06.v on NumF32fast, proved equal to the Flocq-rounded NumF32 in '
    'Run/FastNum32Proof.v) against the harness built with --features float, bit for bit (no libm on ops 6,7,11..20); the oracle judges f32 cases with the binary32 '
    'parameters (u = 2^-24, gamma3 = 3u/(1-3u), underflow threshold 2^-101) -- (S) and (M) are compared exactly, with no rounding tolerance to calibrate; the (R) and '
    'ray-origin parts, which re-evaluate the un-nudged origin in binary64, are not judged on f32 cases',
    '(M) is stated against two yardsticks: points gamma3 (sum|m_ij x_j| + |m_i3|) + sum|m_ij| e_j (theorems C16_M_with_error, C16_M_propagate, guard safe_trans: m_i3 zero or not in the underflow range), vectors gamma3 sum|m_ij v_j| + sum|m_ij| e_j without any translation term and without any hypothesis on the translation (C16_M_vec_with_error, C16_M_vec_propagate); the factor 2 is the property\'s "small constant factor"',
    '(R) is proved on the real-number instance (exact tier); its float reading is sampled by the oracle with a rounding tolerance',
    'rustc/LLVM evaluate + - * / in IEEE-754 binary64 round-to-nearest-even without contraction on x86-64',
]
THEOREMS = ['C16_S_vec', 'C16_S_point', 'C16_S_vec_box_partial', 'C16_S_point_box_partial',
            'C16_M_with_error', 'C16_M_vec_with_error', 'C16_M_propagate', 'C16_M_vec_propagate',
            'C16_S_point_pinned_refuted', 'C16_M_pinned_refuted', 'C16_M_vec_pinned_refuted', 'C16_S_underflow_refuted',
            'C16_R_nudge_forward', 'C16_R_no_box_point_ahead', 'C16_R_advance_bounded', 'C16_R_ray', 'C16_R_ray_propagate',
            # the same on primitive floats (Properties/C16_prim.v)
            'C16_prim_run_is_flocq_run', 'C16_prim_blocks_are_flocq_blocks', 'C16_prim_rays_are_flocq_rays', 'C16_prim_ray_parts', 'C16_prim_S_vec', 'C16_prim_S_point', 'C16_prim_S_vec_box_partial', 'C16_prim_S_point_box_partial', 'C16_prim_M_with_error', 'C16_prim_M_vec_with_error', 'C16_prim_M_propagate', 'C16_prim_M_vec_propagate',
            # the same on the executed f32 instance (Properties/C16_prim32.v)
            'C16_prim32_run_is_flocq_run', 'C16_prim32_embedded_run_is_flocq_run', 'C16_prim32_blocks_are_flocq_blocks', 'C16_prim32_rays_are_flocq_rays', 'C16_prim32_S_vec', 'C16_prim32_S_point', 'C16_prim32_S_vec_box_partial', 'C16_prim32_S_point_box_partial', 'C16_prim32_M_with_error', 'C16_prim32_M_vec_with_error', 'C16_prim32_M_propagate', 'C16_prim32_M_vec_propagate']

def streams(tier):
    if tier == 'quick': return [Stream('C16', 1500)]
    if tier == 'search': return [Stream('C16', 8000)]
    # f32 build (thorough tier): runner module C06f32 (binary32 instance); the oracle is parametric in the format (params(st):
    # u = 2^-24, gamma3, underflow threshold of binary32) -- the (S)/(M) statements are theorems for every format with prec >= 8 --
    # validated on seeds 1-5 x 4000 f32 cases: no flag outside the recorded underflow class
    return [Stream('C16', 16000), Stream('C16', 6000, release=True), Stream('C16', 4000, f32=True)]

FN = {6: 'ray', 7: 'inv_ray', 11: 'pt_with_error', 12: 'inv_pt_with_error', 13: 'pt_propagate_error', 14: 'inv_pt_propagate_error',
      15: 'vec_with_error', 16: 'inv_vec_with_error', 17: 'vec_propagate_error', 18: 'inv_vec_propagate_error',
      19: 'ray_propagate_error', 20: 'inv_ray_propagate_error'}
USES_INV = {7, 12, 14, 16, 18, 20}
RAY = {6, 7, 19, 20}
PT = {11, 12, 13, 14}
VEC = {15, 16, 17, 18}
PROPAGATE = {13, 14, 17, 18, 19, 20}

def fl(c, key, st):
    fm = Fmt(st.f32 if st is not None else False)
    return [fm.fl(b) for b in c[key]]

def params(st):
    f32m = bool(st is not None and st.f32)
    p = 24 if f32m else 53
    emin = (3 - 128 - 24) if f32m else (3 - 1024 - 53)
    u = Fr(1, 2 ** p)
    return u, 3 * u / (1 - 3 * u), Fr(2) ** (emin + 2 * p)

def classify(c, st):
    k = c['kind']
    if k == 'ctor': return ('ctor', c['k'], tuple(c['args'])), True, 'ctor%d' % c['k']
    if k == 'mul': return ('mul', tuple(c['a']), tuple(c['b'])), True, 'mul'
    i = fl(c, 'in', st)
    triv = not all(finite(x) for x in i) or all(x == 0 for x in i[:3])
    return ('apply', c['op'], tuple(c['tr']), tuple(c['in'])), triv, FN.get(c['op'], 'op%d' % c['op']) + (':adv' if c.get('adv') else '')

def describe(c, st):
    k = c['kind']
    if k != 'apply': return dict(kind=k)
    return dict(kind='apply', fn=FN.get(c['op']), adversarial=bool(c.get('adv')),
                chain=[[e[0], [hexf(x) for x in [Fmt().fl(b) for b in e[1]]]] for e in c.get('chain', [])],
                inputs=[hexf(x) for x in fl(c, 'in', st)], out=[hexf(x) for x in fl(c, 'out', st)])

def rows_of(tr, inv):
    o = 16 if inv else 0
    return [[Fr(tr[o + 4 * r + k]) for k in range(4)] for r in range(4)]

def sound_part(fn, m, x, e, ret, err, is_pt, u, tiny):
    """(S) for one returned (value, error) pair; None or (signature, message)"""
    K_BOX = 1 + 4 * u                      # C16_S_vec_box_partial / C16_S_point_box_partial (factor 1 is proved without a box)
    K_OLD_PT = Fr(4, 3) * (1 + 3 * u)      # what gamma(3) against four roundings could reach (before fix: 34af114)
    boxed = any(v != 0 for v in e)
    for r in range(3):
        img = sum(m[r][k] * x[k] for k in range(3)) + (m[r][3] if is_pt else 0)
        spread = sum(abs(m[r][k]) * e[k] for k in range(3))
        dev = abs(Fr(ret[r]) - img) + spread
        bound = Fr(err[r])
        if dev <= bound: continue
        prods = [m[r][k] * x[k] for k in range(3)] + [m[r][k] * e[k] for k in range(3)]
        if any(p != 0 and abs(p) < tiny for p in prods): cls = 'underflow'
        elif boxed and dev <= K_BOX * bound: cls = 'within-proved-factor'
        elif is_pt and m[r][3] != 0 and dev <= K_OLD_PT * bound: cls = 'gamma3-vs-4-roundings'
        else: cls = 'beyond-proved-bound'
        return ('C16:S:%s:%s' % (fn, cls),
                '%s: component %d: exact image%s is %.6g away from the returned value but the returned error is %.6g (ratio %.9f)'
                % (fn, r, ' of the worst corner of the input box' if boxed else '', float(dev), float(bound), float(dev / bound) if bound else float('inf')))
    return None

def meaningful_part(fn, m, x, e, err, u, g3, propagate, is_pt):
    """(M) for one returned error.  The first-order worst case of a POINT row includes the rounding of the addition of
    the translation entry (gamma3 |m_i3|); that of a VECTOR row does not: the image of a vector is
    m_i0 x + m_i1 y + m_i2 z, which the translation never enters (Coq: first_order / first_order_vec)."""
    for r in range(3):
        first = g3 * (sum(abs(m[r][k] * x[k]) for k in range(3)) + (abs(m[r][3]) if is_pt else 0)) + sum(abs(m[r][k]) * e[k] for k in range(3))
        lim = 2 * first + Fr(1, 2 ** 1000)
        got = Fr(err[r])
        if got <= lim: continue
        # what the two repaired defects added to a row with a translation entry: |m_i3| (1+gamma3) in the propagated part
        # (before fix: 5455df2), gamma3 |m_i3| in the rounding part of a VECTOR (before the fix of the vector functions)
        expl = abs(m[r][3]) * (((1 + g3) if propagate else 0) + (0 if is_pt else g3)) * (1 + 8 * u)
        cls = 'translation' if (m[r][3] != 0 and expl > 0 and got - expl <= lim) else 'other'
        return ('C16:M:%s:%s' % (fn, cls),
                '%s: component %d: returned error %.6g is %.3g times the first-order worst case %.6g of a %s (translation entry of the row: %.6g)'
                % (fn, r, float(got), float(got / first) if first else float('inf'), float(first),
                   'point' if is_pt else 'vector (no translation term)', float(m[r][3])))
    return None

def emul_pt(mf, x):
    """mul4x4point in binary64 (Python floats are IEEE doubles; same left-to-right evaluation)"""
    o = []
    for r in range(4):
        o.append(mf[4 * r] * x[0] + mf[4 * r + 1] * x[1] + mf[4 * r + 2] * x[2] + mf[4 * r + 3])
    return [o[0] / o[3], o[1] / o[3], o[2] / o[3]]

def ray_part(fn, ret, onew, d, oerr, u):
    """(R): nudged origin `onew`, un-nudged `ret`, direction d, origin error oerr (all floats)"""
    R, O, D, E = [Fr(v) for v in ret], [Fr(v) for v in onew], [Fr(v) for v in d], [Fr(v) for v in oerr]
    if all(v == 0 for v in D): return None
    delta = [a - b for a, b in zip(O, R)]
    # the nudge is computed in floating point: dt carries a few roundings relative to sum|d_i|e_i, and the final
    # addition origin + d*dt rounds to the grid of the origin: one ulp of each origin coordinate is the floor of the tolerance
    round_o = [2 * u * abs(v) for v in O]
    # advanced by no more than the bound (2-norm; Coq: C16_R_advance_bounded), squared to stay rational
    n2 = sum(v * v for v in delta)
    e2 = sum(v * v for v in E)
    ro2 = sum(v * v for v in round_o)
    # ||delta|| <= (1+16u)||E|| + ||round_o||   <=   delta^2 <= 2 (1+16u)^2 E^2 + 2 round_o^2 is too weak; compare norms via
    # (a + b)^2 >= n2  with a^2 = (1+16u)^2 e2, b^2 = ro2:  n2 - a2 - b2 <= 2ab  <=  (n2 - a2 - b2)^2 <= 4 a2 b2 when lhs >= 0
    a2 = (1 + 16 * u) ** 2 * e2
    lhs = n2 - a2 - ro2
    if lhs > 0 and lhs * lhs > 4 * a2 * ro2:
        return ('C16:R:%s:advance' % fn, '%s: origin advanced by %.6g, more than the reported origin error %.6g (2-norm)' % (fn, math.sqrt(float(n2)), math.sqrt(float(e2))))
    dotd = sum(a * b for a, b in zip(delta, D))
    if dotd < -sum(abs(a) * b for a, b in zip(D, round_o)):
        return ('C16:R:%s:backward' % fn, '%s: origin moved against the direction' % fn)
    worst = sum(abs(a) * b for a, b in zip(D, E))          # max over the box of (x - ret).d
    tol = 16 * u * worst + sum(abs(a) * b for a, b in zip(D, round_o)) + Fr(1, 2 ** 1000)
    if worst - dotd > tol:
        return ('C16:R:%s:box-point-ahead' % fn, '%s: a corner of the origin error box is ahead of the nudged origin by %.6g (tolerance %.6g)' % (fn, float(worst - dotd), float(tol)))
    return None

KNOWN_CLASSES = ('underflow',)

def all_failures(c, st):
    """every failed part of the property on this case, as (signature, message)"""
    if c['kind'] != 'apply': return []
    op = c['op']
    if op not in FN: return []
    tr, i, o = fl(c, 'tr', st), fl(c, 'in', st), fl(c, 'out', st)
    if not all(finite(v) for v in tr + i + o): return []
    inv = op in USES_INV
    m = rows_of(tr, inv)
    if m[3] != [0, 0, 0, 1]: return []
    u, g3, tiny = params(st)
    fn = FN[op]
    x = [Fr(v) for v in i]
    Z = [Fr(0)] * 3
    out = []
    if op in PT or op in VEC:
        e = x[3:6] if op in PROPAGATE else Z
        if any(v < 0 for v in e): return []
        out.append(sound_part(fn, m, x[:3], e, o[:3], o[3:6], op in PT, u, tiny))
        out.append(meaningful_part(fn, m, x[:3], e, o[3:6], u, g3, op in PROPAGATE, op in PT))
        return [r for r in out if r]
    # rays: inputs origin, direction (, origin error box, direction error box); outputs origin', direction, o_error, d_error
    oe = x[6:9] if op in PROPAGATE else Z
    de = x[9:12] if op in PROPAGATE else Z
    if any(v < 0 for v in oe + de): return []
    out.append(sound_part(fn + ':direction', m, x[3:6], de, o[3:6], o[9:12], False, u, tiny))
    out.append(meaningful_part(fn + ':direction', m, x[3:6], de, o[9:12], u, g3, op in PROPAGATE, False))
    if not (st is not None and st.f32):   # the un-nudged origin is re-evaluated in binary64
        mf = tr[16:] if inv else tr[:16]
        ret = emul_pt(mf, i[:3])
        if all(finite(v) for v in ret):
            out.append(sound_part(fn + ':origin', m, x[:3], oe, ret, o[6:9], True, u, tiny))
            out.append(meaningful_part(fn + ':origin', m, x[:3], oe, o[6:9], u, g3, op in PROPAGATE, True))
            out.append(ray_part(fn, ret, o[:3], o[3:6], o[6:9], u))
    return [r for r in out if r]

def oracle(c, st):
    """one verdict per case: a failure OUTSIDE the recorded classes wins over one inside them"""
    fs = all_failures(c, st)
    if not fs: return None
    for f in fs:
        if f[0].rsplit(':', 1)[1] not in KNOWN_CLASSES: return f
    return fs[0]

def replay_args(c):
    return [str(c['op'])] + [str(b) for b in c['tr']] + [str(b) for b in c['in']]
