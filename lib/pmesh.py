"""Part module `pmesh`: the triangulation part of C01, C08, C09, C18 (src/triangulation3d.rs).

Streams (harness/src/mesh.rs, Coq runner Run/Mesh.v):
  C01mesh / C09mesh                 from_polygon on polygons of the C01 space
  C01refine / C09refine / C18refine mesh_polygon (from_polygon + refine)
  C08hist / C08rand                 hook-driven refinement histories (exhaustive short ones / long random ones)

The oracles work on the IMPLEMENTATION's outputs with exact rational arithmetic (fractions.Fraction):
all mesh vertices are binary64 (f32 build: binary32) values, hence rationals; the polygon's plane is the exact Newell normal of
the pushed outline; every decision below is an exact sign / comparison, the only tolerances are the ones
the property text gives (relative 1e-9 on area sums) or margins that keep the oracle inside the quantifier.

The f32 build (`--features float`, streams with f32=True in the thorough tier of C01): the cases carry "f32": true and 32-bit
patterns; the runner is the same text on the binary32 instance (Run/Mesh.v: Meshf32 on NumF32fast = NumF32, Run/FastNum32Proof.v),
bit for bit.  The crate's tolerances are absolute and not scaled with `Float` (finding F15): oblique
outlines are mostly refused, so the f32 generator draws 75% coordinate planes (harness/src/mesh.rs frame_for) and the refusal rate
is reported in the input distribution (buckets `...:refused` / `:Err` / `:panic`).  C01 speaks about successful triangulations only;
for those the f32 oracle uses the tolerances of PREC32 below.
"""
from fractions import Fraction as Fr
import random, hashlib
from props import Stream
from fx import *
from geo import *

PROPS = {'C01', 'C08', 'C09', 'C18'}
LEVEL = 'proof'

RULE = {
 'C01': ('from_polygon on simple polygons (convex, star, rectilinear, L/U, quads, grid outlines with several aligned non-adjacent corners; 3..40 vertices, redundant collinear points, either winding, '
         'any start vertex; 0..3 convex holes of 3..8 vertices in either winding and any start vertex; coordinate, oblique and rotated planes, '
         'offsets to 1e3) and mesh_polygon with max_area = area/k (k log-uniform) and max_aspect_ratio in [0.8,10]; polygon rebuilt by the model '
         'from the pushed points; outcome class, the complete piece list and the list returned by get_trilist() compared bit for bit; non-trivial = polygon built and >= 2 triangles; '
         'distinct = distinct (outline, holes, parameters)'),
 'C08': ('initial meshes of a triangle, square, quad, L-shape, hexagon, square with a 3- or 4-vertex hole in any plane; every path of depth <= 2..3 '
         'over the menu {split_edge at 2-3 points of each edge of each triangle, split_triangle at 2-3 points of each triangle, flip_diagonal of each '
         'edge, restore_delaunay, add_point, refine, get_flipped_aspect_ratio} and random histories of up to several hundred steps; complete '
         'per-slot state compared after every step; non-trivial = history with >= 2 steps; distinct = distinct (shape, operation list); thorough tier: also streams of the f32 build (correspondence only, no oracle)'),
 'C09': ('same inputs as C01 (from_polygon and mesh_polygon), debug and release builds; outcome class (Ok / Err class / panic site) compared with the '
         'model, wall time recorded; non-trivial = polygon built; distinct = distinct (outline, holes, parameters); thorough tier: also streams of the f32 build (correspondence only, no oracle)'),
 'C18': ('mesh_polygon on polygons of the C01 space with max_area = area/k and max_aspect_ratio in [0.8,10]; the returned triangles compared bit for bit '
         'with the model (refine on fuel); non-trivial = Ok result with >= 2 triangles; distinct = distinct (outline, holes, parameters); thorough tier: also streams of the f32 build (correspondence only, no oracle)'),
}
_COMMON = [
    'Coq 8.16.1 kernel + vm_compute; structural theorems hold for every number instance of the model (reals, Flocq floats, primitive floats)',
    'model = code: triangulation3d.rs (and what it calls in loop3d/polygon3d/triangle3d/segment3d) checked bit for bit on generated cases through the '
    'verification hooks (complete per-slot state: vertices, normal, area, aspect ratio, circumcentre, centroid, neighbours, constraints, validity, index)',
    'the runner executes the model on NumFfast, proved equal to the primitive-float instance NumF (Run/FastNum.v)',
]
_F32C = ('f32 build (thorough tier): streams of the build with --features float against module Meshf32 of Run/Mesh.v (the same runner text on the binary32 instance '
         'NumF32fast, PROVED equal to the Flocq-rounded NumF32 in Run/FastNum32Proof.v), bit for bit (outcome class, complete per-slot state, get_trilist); CORRESPONDENCE ONLY: '
         'the exact-rational oracle of this property does not judge f32 cases; generator restricted to planes in which Loop3D construction mostly succeeds in single '
         'precision (finding F15: 75% coordinate planes), refusals / Err / panic outcomes are reproduced by the model and counted in the input distribution')
_F32 = ('f32 build (C01, thorough tier): the same runner text on the binary32 instance, bit for bit: Meshf32 executes NumF32fast (rounding to binary32 by five primitive '
        'operations, Run/FastNum32.v), PROVED equal to NumF32 (every operation followed by Flocq\'s rounding at (24,128)) in Run/FastNum32Proof.v; generator restricted to planes in which Loop3D construction succeeds in single precision (F15), refusal rate in the input '
        'distribution; oracle tolerances for successful f32 triangulations: area sum 1e-4 relative, plane 1e-6 + 2^-18 |coordinate|, reversed triangle = signed area below '
        '-1e-4 x longest edge^2, coverage margins 1e-4 x size + 2e-4')
ASSUMPTIONS = {
 'C01': _COMMON + [_F32, 'the geometric half (signed areas, winding numbers) is NOT proved here: it is checked per run by the exact-rational oracle on the '
                   'implementation outputs (area sum, orientation, coverage of sampled points); only the structural facts are theorems'],
 'C08': _COMMON + [_F32C, 'Conf_struct (neighbour symmetry, validity, counter) is proved preserved only for the operations listed in Properties/C08_mesh.v; the '
                   'geometric clauses (same region, same outline, orientation) are checked per step by the exact-rational oracle; Properties/C08_region.v and C08_links.v prove '
                   'them on the real-number instance: split_triangle unconditionally; flip_diagonal / split_edge / restore_delaunay / add_point and histories of '
                   'these from any mesh whose links are geometrically exact (LNKG: an invariant of the steps under the separation hypothesis SEP, proved for every '
                   'number instance; NOT proved of from_polygon\'s result), each inserted point separated from the current vertices and, for an edge split, '
                   'exactly on the edge (the crate locates points with a 100-eps tolerance); refine and mesh_polygon are covered through the trace of elementary steps '
                   '(Properties/C08_refine.v) under the same side conditions at every step of the trace; nothing geometric is proved of the float instance'],
 'C09': _COMMON + [_F32C, 'wall-clock time and stack depth are observed by the harness, not modelled; success for well-conditioned polygons is validated on the '
                   'generated stream, not proved (needs the two-ears theorem)'],
 'C18': _COMMON + [_F32C, 'the theorem is about the cached aspect_ratio and the cached Heron area of each slot; that these agree with circumradius / shortest edge '
                   'is re-measured exactly (squared, rational) by the oracle on every returned triangle'],
}
THEOREMS = {
 'C01': ['C01_ntriangles_partial', 'C01_vertices_from_loop', 'C01_ntriangles_w2_now_exact', 'C01_orientation_w1_now_ok',
         # geometric half (Properties/C01_tiling.v)
         'C01_def_sanitize_unchanged', 'C01_def_stable_run', 'C01_def_outline_of', 'C01_def_projections',
         'C01_trace_erasure', 'C01_trace_exists', 'C01_ear_decomposition', 'C01_clip_run_general', 'C01_clip_run_unchanged', 'C01_identities_general', 'C01_ntriangles_stable', 'C01_ear_decomp2_to_theory',
         'C01_triangle_normals', 'C01_orient_is_normal_component', 'C01_area_is_newell', 'C01_frame_coordinates', 'C01_triangles_in_plane',
         'C01_area_identity', 'C01_area_identity_3d', 'C01_winding_identity', 'C01_winding_index',
         'C01_tiling_count', 'C01_tiling_outside', 'C01_tiling_no_overlap', 'C01_tiling_cover', 'C01_tile_exactly',
         'C01_area_sum', 'C01_area_positive', 'C01_positive_normals_suffice', 'C01_tiling_count_via_theory',
         'C01_negative_ear_breaks_count',
         # the ear test of fix 4bb2ed8: the orientation of the ears is proved
         'C01_def_ear_ok', 'C01_ears_checked', 'C01_clip_run_checked', 'C01_ears_convex', 'C01_ear_blocked_false',
         'C01_tri_test_point_outside', 'C01_def_frame_normal', 'C01_frame_normal_eq', 'C01_ear_convex_orient', 'C01_ears_positive',
         'C01_tiling_count_proved', 'C01_tile_exactly_proved', 'C01_area_sum_proved', 'C01_area_positive_proved', 'C01_sanitize_can_change',
         # in terms of the polygon (outer outline and holes): C01_tiling composed with C12_region
         'C01_polygon_def', 'C01_polygon_count', 'C01_polygon_tile_exactly', 'C01_polygon_area_sum', 'C01_polygon_area_parea',
         # Properties/C01_refined.v: the same for the live triangles returned by mesh_polygon (C01_tiling + C08_init + C08_refine + C18)
         'C01_refined_initial_all_live', 'C01_refined_all_live_reported', 'C01_refined_cover_is_count', 'C01_refined_orientation',
         'C01_refined_count_merged', 'C01_refined_count', 'C01_refined_tile_exactly', 'C01_refined_area_merged', 'C01_refined_area_sum',
         'C01_refined_area_parea', 'C01_refined_jordan_of_input'],
 'C08': ['C08_initial_invariants', 'C08_wf_history', 'C08_counter_push', 'C08_counter_invalidate_live', 'C08_counter_mark_as_neighbours',
         'C08_counter_split_triangle', 'C08_counter_flip_diagonal', 'C08_counter_restore_delaunay', 'C08_mark_reciprocal',
         'C08_split_edge_half_update_refuted', 'C08_split_edge_w4_now_atomic',
         # Properties/C08_region.v: atomicity, live-triangle multiset, region (area / coverage / orientation)
         'C08_push_after_check_succeeds', 'C08_split_triangle_atomic', 'C08_split_triangle_err_unchanged',
         'C08_flip_atomic', 'C08_flip_err_unchanged', 'C08_split_edge_atomic',
         'C08_split_edge_err_unchanged', 'C08_split_triangle_struct', 'C08_split_edge_struct',
         'C08_restore_delaunay_sound', 'C08_add_point_err_unchanged',
         'C08_live_mark_as_neighbours', 'C08_live_constrain', 'C08_live_set_neighbour',
         'C08_live_invalidate', 'C08_live_push', 'C08_live_split_triangle',
         'C08_live_flip_diagonal', 'C08_live_split_edge', 'C08_cover_counts_inside',
         'C08_region_split_triangle', 'C08_region_flip_diagonal', 'C08_region_split_edge_area',
         'C08_region_split_edge_cover', 'C08_split_edge_hypothesis_of_nondeg', 'C08_nondeg_split_triangle',
         'C08_nondeg_flip_diagonal', 'C08_region_add_point_area', 'C08_region_add_point_cover',
         'C08_orientation_split_triangle', 'C08_orientation_split_edge', 'C08_orientation_flip_diagonal',
         'C08_is_convex_gives_flip_convex', 'C08_located_on_edge_is_not_exact',
         # Properties/C08_links.v: the link geometry as an invariant; region theorems without an invariant hypothesis
         'C08_links_flip_diagonal', 'C08_links_split_triangle', 'C08_links_split_edge',
         'C08_links_give_live_links', 'C08_geo_flip_diagonal', 'C08_geo_split_triangle',
         'C08_geo_split_edge', 'C08_geo_restore_delaunay', 'C08_geo_add_point',
         'C08_flip_struct', 'C08_geo_gives_flip_shared', 'C08_geo_gives_split_edge_hypothesis',
         'C08_region_flip_diagonal_geo', 'C08_region_restore_delaunay', 'C08_region_split_edge_geo_area',
         'C08_region_split_edge_geo_cover', 'C08_region_history_area', 'C08_region_history_cover',
         'C08_orientation_restore_delaunay', 'C08_orientation_history',
         # Properties/C08_refine.v: refine / mesh_polygon through the trace of elementary steps
         'C08_refine_trace_erasure', 'C08_add_point_err_unchanged_struct', 'C08_refine_region_area', 'C08_refine_region_cover',
         'C08_refine_orientation', 'C08_refine_geo', 'C08_mesh_polygon_region',
         # Properties/C08_init.v: from_polygon establishes the link-geometry invariant (B1 every instance; B2 reals, Jordan outline)
         'C08_init_def_EM', 'C08_init_def_jordan_le1', 'C08_init_EM_reversed', 'C08_init_EM_at_most_two', 'C08_init_EM_of_reversed',
         'C08_init_mark_neighbourhouds_links', 'C08_init_links_of_EM', 'C08_init_EM_of_tiling', 'C08_init_common_point',
         'C08_initial_GEO', 'C08_initial_INV', 'C08_mesh_polygon_region_from_polygon', 'C08_init_jordan_parallelogram', 'C08_init_EM_is_needed'],
 'C09': ['C09_from_polygon_bounded', 'C09_restore_delaunay_bounded', 'C09_edge_add_no_panic', 'C09_panic_sites_flip_diagonal',
         'C09_panic_sites_split_edge', 'C09_panic_sites_split_triangle', 'C09_panic_sites_restore_delaunay', 'C09_panic_sites_add_point',
         'C09_panic_sites_refine', 'C09_wf_push', 'C09_wf_invalidate', 'C09_wf_mark_as_neighbours', 'C09_wf_flip_diagonal',
         'C09_wf_split_edge', 'C09_wf_split_triangle', 'C09_wf_refine', 'C09_neighbour_lookup_in_range',
         'C09_restore_delaunay_structural_sites', 'C09_mesh_polygon_w3_now_ok', 'C09_wellcond_w5_now_ok',
         # Properties/C09_sites.v: certified panic-site enumeration of from_polygon / mesh_polygon
         'C09_sites_sanitize_no_panic', 'C09_sites_test_point_no_panic', 'C09_sites_push_no_panic', 'C09_sites_close_no_panic', 'C09_sites_is_diagonal', 'C09_sites_mark_neighbourhouds_no_panic',
         'C09_sites_fp_loop_no_panic', 'C09_sites_get_closed_loop', 'C09_sites_from_polygon_origin', 'C09_sites_from_polygon',
         'C09_sites_from_polygon_41', 'C09_sites_from_polygon_no_holes', 'C09_sites_refine_wf', 'C09_sites_refine_wf_list',
         'C09_sites_mesh_polygon_origin', 'C09_sites_mesh_polygon', 'C09_sites_mesh_polygon_41', 'C09_sites_mesh_polygon_no_holes',
         'C09_sites_api_closed_loop_nonempty', 'C09_sites_api_holes_nonempty', 'C09_sites_api_outer_nonempty', 'C09_sites_api_from_polygon', 'C09_sites_api_mesh_polygon',
         'C09_sites_41_reachable', 'C09_sites_42_needs_empty_hole', 'C09_sites_21_needs_empty_outline',
         # Properties/C09_progress.v: counter accounting of every step, progress of a pass, passes <= created + 1, cost
         'C09_progress_flip_diagonal', 'C09_progress_restore_delaunay', 'C09_progress_split_triangle', 'C09_progress_split_edge',
         'C09_progress_split_edge_ok', 'C09_progress_add_point_to_triangle', 'C09_progress_add_point', 'C09_progress_pass',
         'C09_progress_refine', 'C09_progress_recursion_depth', 'C09_progress_out_of_fuel', 'C09_progress_fuel_adequate',
         'C09_progress_fuel_independent', 'C09_progress_slots', 'C09_progress_pass_cost', 'C09_progress_trace_length',
         'C09_progress_cost', 'C09_progress_final_slots', 'C09_progress_mesh_polygon'],
 'C18': ['C18_refine_ok_bound', 'C18_mesh_polygon_ok_bound', 'C18_ok_all_valid', 'C18_cached_ratio_is_triangle_ratio'],
}

def streams(prop, tier):
    q = tier == 'quick'
    if prop == 'C01':
        if q: return [Stream('C01mesh', 156), Stream('C01refine', 40, extra=['120', '40', '2.0'])]
        if tier == 'search': return [Stream('C01mesh', 300), Stream('C01refine', 120, extra=['0', '2000', '3.0'])]
        return [Stream('C01mesh', 1200), Stream('C01mesh', 400, release=True), Stream('C01refine', 160, extra=['500', '300', '3.0']),
                Stream('C01refine', 120, release=True, extra=['0', '2000', '6.0']),
                # the f32 build (in C01's quantifier): from_polygon and mesh_polygon on the binary32 instance NumF32fast (= NumF32,
                # Run/FastNum32Proof.v).  A stream with extra=['--ref32'] would run on the reference instance with Flocq's own rounding
                # (module Meshf32ref; ~25 s of model time per case, up to 2 min): not needed since the equality is proved
                Stream('C01mesh', 500, f32=True), Stream('C01refine', 120, f32=True, extra=['300', '100', '2.0'])]
    if prop == 'C08':
        if q: return [Stream('C08hist', 180, extra=['2']), Stream('C08rand', 12, extra=['90'])]
        if tier == 'search': return [Stream('C08hist', 1500, extra=['2']), Stream('C08rand', 100, extra=['150'])]
        return [Stream('C08hist', 1200, extra=['3']), Stream('C08rand', 70, extra=['250']), Stream('C08rand', 40, release=True, extra=['250']),
                # the f32 build: correspondence only (the C08 oracle does not judge f32 cases)
                Stream('C08hist', 200, f32=True, extra=['2']), Stream('C08rand', 30, f32=True, extra=['120'])]
    if prop == 'C09':
        if q: return [Stream('C09mesh', 132), Stream('C09mesh', 64, release=True), Stream('C09refine', 40, extra=['120', '40', '2.0']), Stream('C09refine', 24, release=True, extra=['120', '40', '2.0'])]
        if tier == 'search': return [Stream('C09mesh', 400), Stream('C09refine', 150, extra=['0', '2000', '3.0'])]
        return [Stream('C09mesh', 1200), Stream('C09mesh', 600, release=True), Stream('C09refine', 160, extra=['500', '300', '3.0']),
                Stream('C09refine', 160, release=True, extra=['0', '2000', '6.0']),
                # the f32 build: correspondence only (outcome class Ok / Err class / panic site reproduced by the binary32 model); the
                # C09 oracle does not judge f32 cases (finding F15: half of the f32 polygons with holes fail, outside C09's quantifier)
                Stream('C09mesh', 500, f32=True), Stream('C09refine', 120, f32=True, extra=['300', '100', '2.0'])]
    if prop == 'C18':
        if q: return [Stream('C18refine', 92, extra=['150', '60', '2.0']), Stream('C18refine', 32, release=True, extra=['150', '60', '2.0'])]
        if tier == 'search': return [Stream('C18refine', 200, extra=['0', '2000', '3.0'])]
        return [Stream('C18refine', 200, extra=['500', '300', '3.0']), Stream('C18refine', 160, release=True, extra=['0', '2000', '6.0']),
                # the f32 build: correspondence only (the C18 oracle does not judge f32 cases)
                Stream('C18refine', 120, f32=True, extra=['300', '100', '2.0'])]
    return []

# ------------------------------------------------------------------------------------------------
# decoding
# ------------------------------------------------------------------------------------------------
FM = Fmt(False)
class Prec:
    """tolerances of the tiling oracle for the working precision of the build that produced the case"""
    def __init__(s, f32):
        s.f32 = f32
        # triangle areas sum to the polygon's area: the property's relative 1e-9; f32: 1e-4 (a vertex dropped by the crate's absolute
        # 1e-5 collinearity tolerance -- the rounding of the inputs makes redundant points collinear to 1e-7 x size only -- or a
        # boundary point placed by the 100-eps on-edge test moves the boundary by up to 1.2e-5 of an edge)
        s.area_rel = Fr(1, 10 ** 4) if f32 else Fr(1, 10 ** 9)
        # vertices in the polygon's plane: 1e-6; f32: plus 32 ulp32 of the largest coordinate of the vertex
        s.plane_abs = Fr(1, 10 ** 6); s.plane_rel = Fr(1, 2 ** 18) if f32 else Fr(0)
        # a triangle counts as reversed / degenerate when its signed area (x 2 |N|) is <= -orient x |N| x (longest edge)^2: exact sign
        # for f64; f32: a sliver left by an on-edge insertion 1.2e-5 of an edge off the edge is rounding, not a reversed triangle
        s.orient = Fr(1, 10 ** 4) if f32 else Fr(0)
        # coverage: samples closer than this (x size) to an outline edge or to a triangle edge are not generic; f32 adds 2e-4 (absolute):
        # the width of the sliver left by a vertex dropped under the absolute 1e-5 tolerance on an edge of 0.05
        s.margin_rel = Fr(1, 10 ** 4) if f32 else Fr(1, 10 ** 9); s.margin_abs = Fr(2, 10 ** 4) if f32 else Fr(0)
        # offsets of the samples placed around vertices (x size)
        s.d1 = Fr(1, 100) if f32 else Fr(1, 1000); s.d2 = Fr(1, 1000) if f32 else Fr(1, 10 ** 6)
PREC64, PREC32 = Prec(False), Prec(True)
def is_f32(c, st=None):
    """cases of the f32 build carry "f32": true (harness/src/mesh.rs); the stream flag says the same"""
    return bool(c.get('f32') or (st is not None and getattr(st, 'f32', False)))
def set_format(c, st=None):
    FM.f32 = is_f32(c, st)
    return PREC32 if FM.f32 else PREC64
def fl(b): return FM.fl(b)
def fls(bits): return [fl(b) for b in bits]
def pts(bits):
    v = fls(bits)
    return [V(v[i:i + 3]) for i in range(0, len(v), 3)]
def finite_all(bits): return all(finite(fl(b)) for b in bits)

class Geo:
    """exact plane, projection and outline of the polygon of a case"""
    def __init__(self, c):
        # the polygon = the Polygon3D object the crate built (its loops after push/close dropped collinear vertices)
        self.outer = pts(c['pouter']) if c.get('pouter') else pts(c['outer'])
        self.holes = [pts(h) for h in c['pholes']] if c.get('pouter') else [pts(h) for h in c['holes']]
        self.N = newell(self.outer)                   # exact, the outline is counter-clockwise w.r.t. N
        self.ax = dominant_axis(self.N)
        self.sg = 1 if self.N[self.ax] > 0 else -1
        self.o2 = [project(p, self.ax) for p in self.outer]
        self.h2 = [[project(p, self.ax) for p in h] for h in self.holes]
        xs = [p[0] for p in self.o2]; ys = [p[1] for p in self.o2]
        self.bbox = (min(xs), min(ys), max(xs), max(ys))
        self.scale = max(self.bbox[2] - self.bbox[0], self.bbox[3] - self.bbox[1])
        # twice the net area times |N| (rational): dot(newell(outer), N) - sum |dot(newell(hole), N)|
        self.net = dot(self.N, self.N) - sum(abs(dot(newell(h), self.N)) for h in self.holes)
        self.fsegs = None
        self.margin = self.scale * Fr(1, 10 ** 9)       # samples closer than this to the outline are not judged (set_margin)
        self.segs = []      # outline segments (3-D), outer then holes
        for loop in [self.outer] + self.holes:
            n = len(loop)
            for i in range(n): self.segs.append((loop[i], loop[(i + 1) % n]))
    def p2(self, p): return project(p, self.ax)
    def inside(self, q):
        """+1 strictly inside the region, 0 outside / in a hole, None when within the margin of an outline edge"""
        m = self.margin ** 2
        if self.fsegs is None:
            self.fsegs = []
            for loop in [self.o2] + self.h2:
                n = len(loop)
                for i in range(n): self.fsegs.append((float(loop[i][0]), float(loop[i][1]), float(loop[(i + 1) % n][0]), float(loop[(i + 1) % n][1]), loop[i], loop[(i + 1) % n]))
        qx, qy = float(q[0]), float(q[1]); thr = (float(self.margin) * 100) ** 2
        for (ax, ay, bx, by, a, b) in self.fsegs:
            # float pre-filter (100 x the margin); the exact distance only for the near edges
            dx, dy = bx - ax, by - ay; l2 = dx * dx + dy * dy
            t = 0.0 if l2 == 0 else max(0.0, min(1.0, ((qx - ax) * dx + (qy - ay) * dy) / l2))
            ex, ey = qx - (ax + t * dx), qy - (ay + t * dy)
            if ex * ex + ey * ey < thr and dist2_point_seg2(q, a, b) <= m: return None
        if winding2(self.o2, q) == 0: return 0
        for h in self.h2:
            if winding2(h, q) != 0: return 0
        return 1
    def on_outline(self, a, b):
        """index of the outline segment that carries the edge (a,b) (both end points within tolerance), else None"""
        tol2 = (self.scale * Fr(1, 10 ** 7)) ** 2
        for k, (s, e) in enumerate(self.segs):
            d = sub(e, s); l2 = len2(d)
            if l2 == 0: continue
            ok = True
            for p in (a, b):
                w = sub(p, s); t = dot(w, d) / l2
                if t < -Fr(1, 10 ** 6) or t > 1 + Fr(1, 10 ** 6): ok = False; break
                if len2(sub(w, scale(d, t))) > tol2: ok = False; break
            if ok: return k
        return None
    def param(self, k, p):
        s, e = self.segs[k]; d = sub(e, s)
        return dot(sub(p, s), d) / len2(d)

def tri_in2(t2, q, margin2=0):
    """+1 strictly inside, 0 outside, None when q is within sqrt(margin2) of the triangle's boundary (not generic)"""
    o = [orient2(t2[i], t2[(i + 1) % 3], q) for i in range(3)]
    if margin2:
        for i in range(3):
            if dist2_point_seg2(q, t2[i], t2[(i + 1) % 3]) <= margin2: return None
    if all(x > 0 for x in o) or all(x < 0 for x in o): return 1
    if (all(x >= 0 for x in o) or all(x <= 0 for x in o)): return None
    return 0

def degenerate_input(c):
    return not finite_all(c['outer']) or any(not finite_all(h) for h in c['holes'])

def well_conditioned(g):
    """edges >= 0.05, vertex angles >= 2 degrees away from 0 (collinear redundancy allowed), clearance >= 0.05, <= 40 vertices"""
    loops = [g.o2] + g.h2
    if sum(len(l) for l in loops) > 40: return False
    s2 = Fr(1218, 10 ** 6)            # sin^2(2 deg) = 0.001218
    for l in loops:
        n = len(l)
        for i in range(n):
            a, b, cc = l[i - 1], l[i], l[(i + 1) % n]
            e1 = (b[0] - a[0], b[1] - a[1]); e2 = (cc[0] - b[0], cc[1] - b[1])
            l1 = e1[0] ** 2 + e1[1] ** 2; l2_ = e2[0] ** 2 + e2[1] ** 2
            if l1 < Fr(25, 10 ** 4) or l2_ < Fr(25, 10 ** 4): return False
            cr = e1[0] * e2[1] - e1[1] * e2[0]; dt = e1[0] * e2[0] + e1[1] * e2[1]
            if cr * cr < s2 * l1 * l2_:
                # nearly straight or nearly folded back: only an (almost) exactly straight vertex is allowed
                if dt < 0 or cr * cr > Fr(1, 10 ** 20) * l1 * l2_: return False
    c2 = Fr(25, 10 ** 4)
    for i, l in enumerate(loops):
        for j, m in enumerate(loops):
            if i >= j: continue
            n = len(l); k = len(m)
            for x in range(n):
                for y in range(k):
                    if dist2_seg_seg2(l[x], l[(x + 1) % n], m[y], m[(y + 1) % k]) < c2: return False
    # non-adjacent edges of one loop keep the clearance too
    for l in loops:
        n = len(l)
        for x in range(n):
            for y in range(x + 2, n):
                if x == 0 and y == n - 1: continue
                if dist2_seg_seg2(l[x], l[(x + 1) % n], l[y], l[(y + 1) % n]) < c2: return False
    return True

# ------------------------------------------------------------------------------------------------
# C01: tiling
# ------------------------------------------------------------------------------------------------
def tiling_oracle(prop, g, tris, seed_bits, suffix='', nrand=60, prec=PREC64):
    """tris: list of (a,b,c) exact 3-D points; suffix: ':refined' for mesh_polygon results; prec: the tolerances (PREC64 / PREC32)"""
    if not tris: return ('%s:area-sum%s' % (prop, suffix), 'no triangle returned')
    N = g.N; nn = dot(N, N); o = g.outer[0]
    g.margin = g.scale * prec.margin_rel + prec.margin_abs
    tot = Fr(0)
    for k, (a, b, cc) in enumerate(tris):
        for p in (a, b, cc):
            h = dot(sub(p, o), N)
            tp = prec.plane_abs + prec.plane_rel * max(abs(x) for x in p)
            if h * h > tp * tp * nn: return ('%s:off-plane%s' % (prop, suffix), 'vertex of triangle %d is %.3g off the polygon plane' % (k, float(abs(h)) / float(nn) ** 0.5))
        s = dot(cross(sub(b, a), sub(cc, a)), N)
        if prec.orient and s <= 0:
            lmax = max(len2(sub(b, a)), len2(sub(cc, b)), len2(sub(a, cc)))
            if s * s <= prec.orient ** 2 * nn * lmax * lmax: tot += s; continue       # f32: a sliver within the rounding allowance
        if s <= 0:
            # why was this "ear" (v0,v1,v2) = (a,b,c) clipped?  its chord is v0-v2: if the chord's midpoint is outside the
            # region, Loop3D::test_point gave a false positive (C05/F7); if it is inside, the chord is a genuine interior
            # diagonal and the corner at v1 is reflex (from_polygon never tests convexity)
            mid = g.p2(scale(add(a, cc), Fr(1, 2)))
            ins = g.inside(mid)
            why = 'test-point' if ins == 0 else 'reflex-ear' if ins == 1 else 'chord-on-outline'
            return ('%s:orientation:%s:%s%s' % (prop, 'holes' if g.holes else 'simple', why, suffix),
                    'triangle %d is %s w.r.t. the polygon normal (%s)' % (k, 'degenerate' if s == 0 else 'reversed', why))
        tot += s
    if abs(tot - g.net) > prec.area_rel * g.net:
        fn = float(nn) ** 0.5
        deficit = abs(float(tot - g.net)) / 2 / fn
        # Loop3D::push / close / sanitize drop a vertex whose corner spans |cross| < 1e-5 (area < 5e-6): a bounded, documented tolerance
        nv = len(g.outer) + sum(len(h) + 2 for h in g.holes)
        cls = ':collinear-tolerance' if (not suffix and deficit <= 5e-6 * nv) else ''
        return ('%s:area-sum%s%s' % (prop, cls, suffix), 'triangle areas sum to %.12g, polygon area is %.12g' % (float(tot) / 2 / fn, float(g.net) / 2 / fn))
    t2 = [tuple(g.p2(p) for p in t) for t in tris]
    fb = [(float(min(p[0] for p in t)), float(min(p[1] for p in t)), float(max(p[0] for p in t)), float(max(p[1] for p in t))) for t in t2]
    rnd = random.Random(int(hashlib.sha256(str(seed_bits).encode()).hexdigest()[:12], 16))
    Q = []
    d1 = g.scale * prec.d1; d2 = g.scale * prec.d2
    vs = list(g.o2) + [p for h in g.h2 for p in h]
    mv = list({p for t in t2 for p in t})
    rnd.shuffle(mv)
    for v in vs[:40] + mv[:20]:
        for d in (d1, d2):
            for (ux, uy) in ((3, 2), (-2, 3), (-3, -2), (2, -3)):
                Q.append((v[0] + d * ux / 4, v[1] + d * uy / 4))
    cen = list(range(len(t2))); rnd.shuffle(cen)
    for k in cen[:100]:
        t = t2[k]; Q.append(((t[0][0] + t[1][0] + t[2][0]) / 3, (t[0][1] + t[1][1] + t[2][1]) / 3))
    x0, y0, x1, y1 = g.bbox
    for _ in range(nrand):
        Q.append((x0 + (x1 - x0) * Fr(rnd.randrange(1, 10 ** 6), 10 ** 6), y0 + (y1 - y0) * Fr(rnd.randrange(1, 10 ** 6), 10 ** 6)))
    if len(tris) > 1500: Q = Q[::3]
    # a sample closer than 1e-9 * size to a triangle edge is not generic (T-junctions left by sanitize are 1e-16 wide)
    m2 = g.margin ** 2; pad = float(g.margin) * 10
    for q in Q:
        ins = g.inside(q)
        if ins is None: continue
        qf = (float(q[0]), float(q[1])); cnt = 0; generic = True
        for k, b in enumerate(fb):
            if qf[0] < b[0] - pad or qf[0] > b[2] + pad or qf[1] < b[1] - pad or qf[1] > b[3] + pad: continue
            r = tri_in2(t2[k], q, m2)
            if r is None: generic = False; break
            cnt += r
        if not generic: continue
        where = '(%.6g, %.6g)' % qf
        if ins == 1 and cnt == 0: return ('%s:gap%s' % (prop, suffix), 'the interior point %s of the polygon is covered by no triangle' % where)
        if ins == 1 and cnt > 1: return ('%s:overlap%s' % (prop, suffix), 'the interior point %s is covered by %d triangles' % (where, cnt))
        if ins == 0 and cnt > 0: return ('%s:outside%s' % (prop, suffix), 'the point %s outside the region (or in a hole) is covered by %d triangle(s)' % (where, cnt))
    return None

def trilist(c):
    v = pts(c['trilist'])
    return [(v[i], v[i + 1], v[i + 2]) for i in range(0, len(v), 3)]

def oracle_C01(c):
    if c['kind'] not in ('fp', 'rf') or c['build'] != 0 or c['o'] != 0 or not c.get('bridge_ok', True) or degenerate_input(c): return None
    g = Geo(c)
    if g.net <= 0: return None
    if c['kind'] == 'rf' and any(v == 0 for v in c['valid']):
        return ('C01:invalid-returned:refined', 'get_trilist returns %d discarded triangle(s)' % sum(1 for v in c['valid'] if v == 0))
    return tiling_oracle('C01', g, trilist(c), c['outer'], ':refined' if c['kind'] == 'rf' else '', prec=PREC32 if is_f32(c) else PREC64)

# ------------------------------------------------------------------------------------------------
# C18
# ------------------------------------------------------------------------------------------------
def oracle_C18(c):
    if c['kind'] != 'rf' or c['build'] != 0 or c['o'] != 0 or degenerate_input(c): return None
    mar = fl(c['max_ar'])
    if not finite(mar): return None
    m2 = Fr(mar) ** 2 * (1 + Fr(1, 10 ** 6))
    if any(v == 0 for v in c['valid']):
        return ('C18:invalid-returned', 'a successful refinement returns %d discarded triangle(s)' % sum(1 for v in c['valid'] if v == 0))
    for k, (a, b, cc) in enumerate(trilist(c)):
        cr2 = len2(cross(sub(b, a), sub(cc, a)))             # (2 area)^2
        if cr2 < 4 * Fr(1, 10 ** 6) * (1 + Fr(1, 10 ** 6)): continue       # area < 1e-3 (with margin)
        la, lb, lc = len2(sub(b, a)), len2(sub(cc, b)), len2(sub(a, cc))
        r2 = la * lb * lc / (4 * cr2)                         # circumradius^2 = (abc)^2 / (16 area^2)
        if r2 > m2 * min(la, lb, lc):
            return ('C18:aspect-ratio', 'triangle %d: area %.4g, circumradius/shortest edge = %.6g > max_aspect_ratio %.6g'
                    % (k, float(cr2) ** 0.5 / 2, (float(r2) / float(min(la, lb, lc))) ** 0.5, mar))
    return None

# ------------------------------------------------------------------------------------------------
# C09
# ------------------------------------------------------------------------------------------------
def panic_name(c, o=None, msg=None):
    o = c['o'] if o is None else o; msg = c.get('msg', '') if msg is None else msg
    if o == 3000: return 'timeout'
    if 'unreachable' in msg: return 'unreachable'
    if 'obsolete' in msg: return 'obsolete-triangle'
    if "don't share" in msg or 'dont share' in msg or 'share a segment' in msg: return 'not-neighbours'
    if 'invalid neighbour' in msg: return 'invalid-neighbour'
    if 'invalid triangle' in msg: return 'invalid-triangle'
    if 'unwrap' in msg:
        if 'non-coplanar' in msg: return 'unwrap-non-coplanar'
        if 'intersect with itself' in msg: return 'unwrap-self-intersection'
        if 'length 0' in msg or 'zero-length' in msg: return 'unwrap-zero-length-segment'
        if 'three equal' in msg or 'equal Point3D' in msg: return 'unwrap-equal-points'
        return 'unwrap'
    return 'site%d' % (o - 1000)

def oracle_C09(c):
    if c['kind'] not in ('fp', 'rf') or c['build'] != 0 or not c.get('bridge_ok', True) or degenerate_input(c): return None
    if c['o'] == 3000:
        return ('C09:runaway', 'mesh_polygon did not return within the time limit (%.0f ms)' % c['ms'])
    if c['o'] >= 1000:
        return ('C09:panic:%s:%s' % ('mesh_polygon' if c['kind'] == 'rf' else 'from_polygon', panic_name(c)), 'panicked: %s' % c.get('msg', ''))
    n = c.get('npieces', len(c.get('pieces', [])))
    budget = 5000 + 0.02 * n * n          # ms; the crate's add_point and restore_delaunay are linear scans: quadratic in the output size
    if c['ms'] > budget:
        return ('C09:slow', '%.0f ms for %d triangles (budget %.0f ms)' % (c['ms'], n, budget))
    if c['kind'] == 'fp' and c['o'] != 0:
        g = Geo(c)
        if g.net > 0 and well_conditioned(g):
            return ('C09:wellcond-err:%d' % c['o'], 'a well-conditioned polygon is not triangulated: Err class %d (%s)' % (c['o'], c.get('msg', '')))
    return None

# ------------------------------------------------------------------------------------------------
# C08
# ------------------------------------------------------------------------------------------------
OPNAME = {0: 'split_edge', 1: 'split_triangle', 2: 'flip_diagonal', 3: 'restore_delaunay', 4: 'add_point', 5: 'refine', 6: 'get_flipped_aspect_ratio', 7: 'is_convex'}

class PieceX:
    __slots__ = ('key', 'v', 'n', 'c', 'valid', 'sarea', 'raw')
    def __init__(self, p, g):
        self.raw = p
        f = p['f']
        self.key = (tuple(f[0:3]), tuple(f[3:6]), tuple(f[6:9]))          # vertices by bit pattern
        self.n = p['n']; self.c = p['c']; self.valid = p['valid']
        self.v = None; self.sarea = None
        if all(finite(fl(b)) for b in f[0:9]):
            self.v = pts(f[0:9])
            self.sarea = dot(cross(sub(self.v[1], self.v[0]), sub(self.v[2], self.v[0])), g.N)

def conformity(g, st, nvalid, constrained_segs, ntrilist=None):
    """None or (detail, message): the structural + exact geometric reading of `conforming mesh of the same region`"""
    nv = sum(1 for p in st if p.valid)
    if nv != nvalid: return ('n-valid', 'n_valid_triangles = %d but %d slots are valid' % (nvalid, nv))
    if ntrilist is not None and ntrilist != nv:
        return ('trilist-invalid', 'get_trilist hands %d triangles to the user, %d of them discarded' % (ntrilist, ntrilist - nv))
    edges = {}
    tot = Fr(0)
    for i, p in enumerate(st):
        if not p.valid: continue
        if p.v is None: return ('non-finite', 'slot %d has a non-finite vertex' % i)
        if p.sarea <= 0: return ('orientation', 'triangle %d is %s w.r.t. the polygon normal' % (i, 'degenerate' if p.sarea == 0 else 'reversed'))
        tot += p.sarea
        for e in range(3):
            a, b = p.key[e], p.key[(e + 1) % 3]
            edges.setdefault((a, b) if a <= b else (b, a), []).append((i, e))
    for i, p in enumerate(st):
        if not p.valid: continue
        for e in range(3):
            j = p.n[e]
            if j < 0: continue
            if j >= len(st) or not st[j].valid: return ('neighbour-link', 'triangle %d edge %d names the %s slot %d as neighbour' % (i, e, 'discarded' if j < len(st) else 'non-existent', j))
            a, b = p.key[e], p.key[(e + 1) % 3]
            q = st[j]; back = None
            for f in range(3):
                if q.key[f] == b and q.key[(f + 1) % 3] == a: back = f
            if back is None: return ('neighbour-link', 'triangle %d edge %d names %d as neighbour but they do not share that edge' % (i, e, j))
            if q.n[back] != i: return ('neighbour-link', 'triangle %d edge %d -> %d, but %d does not point back across that edge' % (i, e, j, j))
    cover = {}
    for k, l in edges.items():
        if len(l) > 2: return ('edge-shared-by-%d' % len(l), 'an edge is shared by %d live triangles' % len(l))
        if len(l) == 2:
            (i, e), (j, f) = l
            if st[i].n[e] != j or st[j].n[f] != i: return ('missing-neighbour', 'triangles %d and %d share an edge but do not reference each other across it' % (i, j))
        else:
            (i, e) = l[0]
            a, b = st[i].v[e], st[i].v[(e + 1) % 3]
            s = g.on_outline(a, b)
            if s is None: return ('interior-edge-unshared', 'edge %d of triangle %d is neither on the outline nor shared with another live triangle' % (e, i))
            if st[i].n[e] >= 0: return ('outline-edge-has-neighbour', 'outline edge %d of triangle %d has a neighbour' % (e, i))
            if s in constrained_segs and not st[i].c[e]: return ('constraint-lost', 'edge %d of triangle %d lies on a fixed outline edge but is not marked as fixed' % (e, i))
            ta, tb = g.param(s, a), g.param(s, b)
            cover.setdefault(s, []).append((min(ta, tb), max(ta, tb)))
    tol = Fr(1, 10 ** 6)
    for s in range(len(g.segs)):
        iv = sorted(cover.get(s, []))
        if not iv: return ('outline-changed', 'outline edge %d is not covered by the mesh boundary' % s)
        if abs(iv[0][0]) > tol or abs(iv[-1][1] - 1) > tol: return ('outline-changed', 'outline edge %d is only partly covered by the mesh boundary' % s)
        for x, y in zip(iv, iv[1:]):
            if abs(x[1] - y[0]) > tol: return ('outline-changed', 'the mesh boundary along outline edge %d has a gap or an overlap' % s)
    if abs(tot - g.net) > Fr(1, 10 ** 9) * g.net:
        nn = float(dot(g.N, g.N)) ** 0.5
        return ('area', 'live triangles sum to %.12g, the polygon area is %.12g' % (float(tot) / 2 / nn, float(g.net) / 2 / nn))
    return None

def admissible(g, st, s):
    k, i, e = s['k'], s['i'], s['e']
    if k in (3, 4, 5, 7): return all(finite(fl(b)) for b in s['fl'])
    if i >= len(st) or not st[i].valid or e > 2: return False
    p = st[i]
    if k == 6: return True
    if k == 0:
        q = V(fls(s['fl'])); a, b = p.v[e], p.v[(e + 1) % 3]; d = sub(b, a); l2 = len2(d)
        t = dot(sub(q, a), d) / l2
        if not (Fr(1, 10 ** 12) < t < 1 - Fr(1, 10 ** 12)): return False
        return len2(sub(sub(q, a), scale(d, t))) <= Fr(1, 10 ** 18) * l2
    if k == 1:
        q = g.p2(V(fls(s['fl']))); t2 = [g.p2(x) for x in p.v]
        if tri_in2(t2, q) != 1: return False
        h = dot(sub(V(fls(s['fl'])), p.v[0]), g.N)
        return h * h <= Fr(1, 10 ** 18) * dot(g.N, g.N) * max(len2(sub(p.v[1], p.v[0])), Fr(1, 10 ** 6))
    if k == 2:
        j = p.n[e]
        if j < 0 or j >= len(st) or not st[j].valid or p.c[e]: return False
        a, b, cc = p.key[e], p.key[(e + 1) % 3], p.key[(e + 2) % 3]
        q = st[j]; opp = [q.v[f] for f in range(3) if q.key[f] not in (a, b)]
        if len(opp) != 1: return False
        A, B, C, O = g.p2(p.v[e]), g.p2(p.v[(e + 1) % 3]), g.p2(p.v[(e + 2) % 3]), g.p2(opp[0])
        # strictly convex quadrilateral A O B C
        quad = [A, O, B, C]
        sg = [orient2(quad[x], quad[(x + 1) % 4], quad[(x + 2) % 4]) for x in range(4)]
        return all(x > 0 for x in sg) or all(x < 0 for x in sg)
    return False

def oracle_C08(c):
    if c['kind'] != 'hi' or c['build'] != 0 or c['o'] != 0 or degenerate_input(c): return None
    g = Geo(c)
    if g.net <= 0: return None
    st = [PieceX(p, g) for p in c['init']]
    # outline edges fixed by the initial triangulation
    constrained = set()
    cov = {}
    for p in st:
        if not p.valid or p.v is None: continue
        for e in range(3):
            if p.n[e] < 0:
                s = g.on_outline(p.v[e], p.v[(e + 1) % 3])
                if s is not None: cov.setdefault(s, []).append(p.c[e])
    for s, l in cov.items():
        if all(l): constrained.add(s)
    r = conformity(g, st, c['nvalid'], constrained)
    if r is not None:
        return None      # the history does not start from a conforming triangulation (a from_polygon matter: C01), outside C08's quantifier
    for num, s in enumerate(c['steps']):
        name = OPNAME[s['k']]
        if not admissible(g, st, s): return None          # outside the quantifier from here on
        if s['o'] >= 1000:
            return ('C08:panic:%s:%s' % (name, panic_name(c, s['o'], s['msg'])), 'step %d (%s, %s) panicked: %s' % (num, name, s['lab'], s['msg']))
        for i, p in s['delta']:
            x = PieceX(p, g)
            if i < len(st): st[i] = x
            else: st.append(x)
        if s['k'] in (6, 7): continue
        if s['o'] != 0 and s['k'] in (0, 1, 2) and s['delta']:
            return ('C08:half-updated:%s' % name, 'step %d: %s (%s) returned Err class %d (%s) after changing %d slot(s)' % (num, name, s['lab'], s['o'], s['msg'], len(s['delta'])))
        r = conformity(g, st, s['nvalid'], constrained, s.get('ntrilist'))
        if r is not None:
            if s['o'] != 0:
                return ('C08:err-nonconforming:%s:%s' % (name, r[0]), 'step %d: %s returned Err class %d (%s) and left a non-conforming mesh: %s' % (num, name, s['o'], s['msg'], r[1]))
            return ('C08:%s:%s' % (r[0], name), 'after step %d (%s, %s): %s' % (num, name, s['lab'], r[1]))
    return None

# ------------------------------------------------------------------------------------------------
# part interface
# ------------------------------------------------------------------------------------------------
def oracle(prop, c, st):
    set_format(c, st)
    if prop == 'C01': return oracle_C01(c)
    # f32 build: only the C01 oracle is calibrated for 24-bit rounding (PREC32); C08 / C09 / C18 f32 cases are correspondence only
    if is_f32(c, st): return None
    if prop == 'C08': return oracle_C08(c)
    if prop == 'C09': return oracle_C09(c)
    if prop == 'C18': return oracle_C18(c)
    return None

def classify(prop, c, st):
    set_format(c, st)
    fam = c['note'].split(':')[0]
    if is_f32(c):
        # f32 streams: the plane kind and whether the polygon could be built at all are part of the bucket (refusal rate, F15)
        fam = 'f32:' + next((x.split(' ')[0] for x in c['note'].split(':') if x.startswith('plane')), c['note'].split(':')[-1].split(' ')[0]) + ':' + fam + (':refused' if c.get('build') else '')
    if c['kind'] == 'hi':
        key = (tuple(c['outer']), tuple((s['k'], s['i'], s['e'], tuple(s['fl'])) for s in c['steps']))
        return key, len(c['steps']) < 2, fam
    key = (tuple(c['outer']), tuple(tuple(h) for h in c['holes']), c.get('max_area'), c.get('max_ar'))
    n = c.get('npieces', len(c.get('pieces', [])))
    if prop == 'C09': triv = c['build'] != 0
    elif prop == 'C18': triv = c['build'] != 0 or c['o'] != 0 or n < 2
    else: triv = c['build'] != 0 or n < 2
    bucket = fam + (':skipped' if c.get('skipped') else '') + (':Err' if 0 < c['o'] < 1000 else ':panic' if c['o'] >= 1000 else '')
    return key, triv, bucket

def describe(prop, c, st):
    set_format(c, st)
    d = dict(kind=c['kind'], note=c['note'], build=c['build'], outcome=c['o'], nvertices=len(c['outer']) // 3, holes=[len(h) // 3 for h in c['holes']])
    if c['kind'] == 'hi':
        d['steps'] = [[OPNAME[s['k']], s['i'], s['e'], s['lab'], s['o']] for s in c['steps']][:12]
    else:
        d['ms'] = c.get('ms'); d['msg'] = c.get('msg'); d['triangles'] = c.get('npieces', len(c.get('pieces', [])))
        # the list handed to the user by get_trilist (compared with the model's get_trilist by Run/Mesh.v, tags 2 / 3 / 11)
        d['get_trilist'] = len(c.get('trilist', [])) // 9
        if c['kind'] == 'rf': d['max_area'] = fl(c['max_area']); d['max_aspect_ratio'] = fl(c['max_ar'])
    return d

def replay_args(prop, c):
    a = [c['kind'], ','.join(str(b) for b in c['outer']), ';'.join(','.join(str(b) for b in h) for h in c['holes'])]
    if c['kind'] == 'rf': a += [str(c['max_area']), str(c['max_ar'])]
    if c['kind'] == 'hi': a += [';'.join(','.join([str(s['k']), str(s['i']), str(s['e'])] + [str(b) for b in s['fl']]) for s in c['steps'])]
    return a
