"""C06: transforms and their inverses stay consistent under composition."""
import math
from fractions import Fraction as Fr
from props import Stream
from fx import *

LEVEL = 'proof'
RULE = ('chains of 0..6 elementary transforms (translations to 1e3, scales +-[0.1,10] uniform and not, angles in [-720,720] incl. '
        'right angles) from one SplitMix64 state; per chain: each constructor, each `*=` step (operands -> result), and 8 random '
        'transform_*/inv_transform_* calls on points/vectors/normals/rays/boxes; corpus chains first; non-trivial = chain length >= 2 '
        'or an apply case; distinct = distinct (kind, operand bits)')
ASSUMPTIONS = [
    'Coq 8.16.1 kernel + vm_compute; theorems are about the real-number instance of the model (exact tier)',
    'model = code: transform.rs checked bit-for-bit on primitive floats (constructors within 2^-40 relative: libm)',
    'float evaluation vs exact evaluation ("up to rounding") is sampled by the exact-rational oracle (1e-9 relative), not proved',
]
THEOREMS = ['C06_chain_invariant', 'C06_point_round_trip', 'C06_composition_order', 'C06_changes_hands_iff_det_negative', 'C06_normal_stays_perpendicular', 'C06_ray_round_trip']

def streams(tier):
    if tier == 'quick': return [Stream('C06', 1200)]
    if tier == 'search': return [Stream('C06', 6000)]
    return [Stream('C06', 12000), Stream('C06', 4000, release=True), Stream('C06', 1500, f32=True)]

def fl(c, key, st):
    fm = Fmt(st.f32 if st is not None else False)
    return [fm.fl(b) for b in c[key]]

def classify(c, st):
    k = c['kind']
    if k == 'ctor': return ('ctor', c['k'], tuple(c['args'])), True, 'ctor%d' % c['k']
    if k == 'mul': return ('mul', tuple(c['a']), tuple(c['b'])), False, 'mul'
    return ('apply', c['op'], tuple(c['tr']), tuple(c['in'])), False, 'apply%d' % c['op']

def describe(c, st):
    k = c['kind']
    if k == 'ctor': return dict(kind='ctor', k=c['k'], args=[hexf(x) for x in fl(c, 'args', st)])
    if k == 'mul': return dict(kind='mul', a=[hexf(x) for x in fl(c, 'a', st)][:16], b=[hexf(x) for x in fl(c, 'b', st)][:16])
    return dict(kind='apply', op=c['op'], chain=[[e[0], [hexf(x) for x in [Fmt().fl(b) for b in e[1]]]] for e in c.get('chain', [])],
                inputs=[hexf(x) for x in fl(c, 'in', st)], out=[hexf(x) for x in fl(c, 'out', st)])

def M(v): return [[Fr(v[4 * r + c]) for c in range(4)] for r in range(4)]
def mm(a, b): return [[sum(a[r][k] * b[k][c] for k in range(4)) for c in range(4)] for r in range(4)]
def mabs(a): return [[abs(x) for x in r] for r in a]
ID = [[Fr(int(r == c)) for c in range(4)] for r in range(4)]
TOL = Fr(1, 10 ** 9)      # f64 'up to rounding'; rebound per stream in oracle() for the f32 build
TOL64 = Fr(1, 10 ** 9); TOL32 = Fr(1, 2 * 10 ** 4)

def inverse_ok(e, i):
    p = mm(e, i); q = mm(i, e); s = mm(mabs(e), mabs(i)); s2 = mm(mabs(i), mabs(e))
    for r in range(4):
        for c in range(4):
            if abs(p[r][c] - ID[r][c]) > TOL * (1 + s[r][c]): return 'elements*inv_elements != I at (%d,%d): %r' % (r, c, float(p[r][c]))
            if abs(q[r][c] - ID[r][c]) > TOL * (1 + s2[r][c]): return 'inv_elements*elements != I at (%d,%d): %r' % (r, c, float(q[r][c]))
    return None

def elem_mats(k, a):
    x = [Fr(v) for v in a]
    Z, O = Fr(0), Fr(1)
    if k == 0: return [[O, Z, Z, x[0]], [Z, O, Z, x[1]], [Z, Z, O, x[2]], [Z, Z, Z, O]]
    if k == 1: return [[x[0], Z, Z, Z], [Z, x[1], Z, Z], [Z, Z, x[2], Z], [Z, Z, Z, O]]
    rad = math.radians(a[0]); s, c = Fr(math.sin(rad)), Fr(math.cos(rad))
    if k == 2: return [[O, Z, Z, Z], [Z, c, -s, Z], [Z, s, c, Z], [Z, Z, Z, O]]
    if k == 3: return [[c, Z, s, Z], [Z, O, Z, Z], [-s, Z, c, Z], [Z, Z, Z, O]]
    return [[c, -s, Z, Z], [s, c, Z, Z], [Z, Z, O, Z], [Z, Z, Z, O]]

def apt(m, p): return [sum(m[r][k] * p[k] for k in range(3)) + m[r][3] for r in range(3)]
def avec(m, p): return [sum(m[r][k] * p[k] for k in range(3)) for r in range(3)]
def anrm(m, p): return [sum(m[k][r] * p[k] for k in range(3)) for r in range(3)]
def mag_pt(m, p): return [sum(abs(m[r][k] * p[k]) for k in range(3)) + abs(m[r][3]) for r in range(3)]
def close(a, b, mag, tol=None):
    tol = TOL if tol is None else tol
    return all(abs(Fr(x) - y) <= tol * (1 + g) for x, y, g in zip(a, b, mag))

def oracle(c, st):
    global TOL
    TOL = TOL32 if (st is not None and st.f32) else TOL64
    k = c['kind']
    if k == 'ctor':
        o = fl(c, 'out', st)
        if not all(finite(x) for x in o): return None
        r = inverse_ok(M(o[:16]), M(o[16:]))
        return ('C06:ctor-inverse', r) if r else None
    if k == 'mul':
        a, b, o = fl(c, 'a', st), fl(c, 'b', st), fl(c, 'out', st)
        if not all(finite(x) for x in a + b + o): return None
        if inverse_ok(M(a[:16]), M(a[16:])) or inverse_ok(M(b[:16]), M(b[16:])): return None  # operands already inconsistent
        r = inverse_ok(M(o[:16]), M(o[16:]))
        if r: return ('C06:composition-inverse', 'after a *= b: ' + r)
        # acts as "b then a": the product matrix
        e = mm(M(a[:16]), M(b[:16])); s = mm(mabs(M(a[:16])), mabs(M(b[:16]))); oe = M(o[:16])
        for r_ in range(4):
            for cc in range(4):
                if abs(e[r_][cc] - oe[r_][cc]) > TOL * (1 + s[r_][cc]): return ('C06:composition-order', 'elements of a*=b differ from A.B at (%d,%d)' % (r_, cc))
        return None
    tr, i, o, op = fl(c, 'tr', st), fl(c, 'in', st), fl(c, 'out', st), c['op']
    if not all(finite(x) for x in tr + i + o): return None
    E, I = M(tr[:16]), M(tr[16:])
    # the chain's matrix is the product of the elementary ones in the given order
    if c.get('chain'):
        fm = Fmt(st.f32 if st is not None else False)
        P = ID
        for kk, args in c['chain']:
            P = mm(P, elem_mats(kk, [fm.fl(b) for b in args]))
        for r_ in range(3):
            for cc in range(4):
                mag = sum(abs(P[r_][q]) for q in range(4))
                if abs(P[r_][cc] - E[r_][cc]) > 10 * TOL * (1 + mag): return ('C06:chain-matrix', 'matrix of the chain differs from the ordered product at (%d,%d)' % (r_, cc))
    r = inverse_ok(E, I)
    if r: return ('C06:chain-inverse', r)
    x = [Fr(v) for v in i]
    if op in (0, 1):
        m = E if op == 0 else I
        if not close(o, apt(m, x), mag_pt(m, x)): return ('C06:apply-pt', 'transform_pt result is not the image under the stored matrix')
        back = apt(I if op == 0 else E, apt(m, x))
        if not close([float(b) for b in back], x, mag_pt(I if op == 0 else E, apt(m, x)), 10 * TOL): return ('C06:round-trip', 'inverse(transform(p)) != p')
    elif op in (2, 3):
        m = E if op == 0 + 2 else I
        if not close(o, avec(m, x), mag_pt(m, x)): return ('C06:apply-vec', 'transform_vec result is not the image under the linear part')
    elif op in (4, 5):
        m = I if op == 4 else E
        if not close(o, anrm(m, x), [sum(abs(m[k][r_] * x[k]) for k in range(3)) for r_ in range(3)]): return ('C06:apply-normal', 'transform_normal is not the inverse-transpose image')
    elif op in (6, 7):
        m = E if op == 6 else I
        d = avec(m, x[3:6]); og = apt(m, x[:3])
        if not close(o[3:6], d, mag_pt(m, x[3:6])): return ('C06:ray-dir', 'ray direction')
        delta = [Fr(a) - b for a, b in zip(o[:3], og)]
        l2 = sum(v * v for v in d)
        if l2 > 0:
            t = sum(a * b for a, b in zip(delta, d)) / l2
            mags = mag_pt(m, x[:3])
            slack = [TOL * (1 + g) for g in mags]                       # rounding of the returned origin, per coordinate
            tslack = sum(sl * abs(dv) for sl, dv in zip(slack, d)) / l2    # its effect on the parameter along the ray
            off = [dl - t * dv for dl, dv in zip(delta, d)]
            if t < -tslack or any(abs(a) > sl + abs(dv) * tslack for a, sl, dv in zip(off, slack, d)):
                return ('C06:ray-origin', 'ray origin not on the image line ahead of the image origin')
    elif op in (8, 9):
        m = E if op == 8 else I
        lo = [min(x[k], x[3 + k]) for k in range(3)]; hi = [max(x[k], x[3 + k]) for k in range(3)]
        for mask in range(8):
            p = [hi[k] if (mask >> k) & 1 else lo[k] for k in range(3)]
            q = apt(m, p); g = mag_pt(m, p)
            for k in range(3):
                if q[k] < Fr(o[k]) - TOL * (1 + g[k]) or q[k] > Fr(o[3 + k]) + TOL * (1 + g[k]): return ('C06:bbox', 'corner image outside the transformed box')
    elif op == 10:
        terms = [E[0][0] * E[1][1] * E[2][2], E[0][0] * E[1][2] * E[2][1], E[0][1] * E[1][0] * E[2][2], E[0][1] * E[1][2] * E[2][0], E[0][2] * E[1][0] * E[2][1], E[0][2] * E[1][1] * E[2][0]]
        det = terms[0] - terms[1] - terms[2] + terms[3] + terms[4] - terms[5]
        # decided wherever the float evaluation cannot get the sign wrong: |det| well above its rounding error
        if abs(det) > Fr(1, 10 ** 10) * sum(abs(x) for x in terms) and (det < 0) != (o[0] == 1.0):
            return ('C06:handedness', 'changes_hands = %s but the determinant of the linear part is %.3g' % (o[0] == 1.0, float(det)))
    elif op in (21, 22):
        # hit data carried through a transform: point by the matrix, tangents by the linear part, normal by the inverse transpose
        m, mi = (E, I) if op == 21 else (I, E)
        if not close(o[0:3], apt(m, x[0:3]), mag_pt(m, x[0:3])): return ('C06:info-point', 'hit point not mapped by the matrix')
        if not close(o[3:6], anrm(mi, x[3:6]), [sum(abs(mi[k][r_] * x[3 + k]) for k in range(3)) for r_ in range(3)]):
            return ('C06:info-normal', 'the normal of transformed hit data is not the inverse-transpose image, so it does not stay perpendicular to the transformed surface')
        if not close(o[6:9], avec(m, x[6:9]), mag_pt(m, x[6:9])): return ('C06:info-tangent', 'dpdu not mapped by the linear part')
        if not close(o[9:12], avec(m, x[9:12]), mag_pt(m, x[9:12])): return ('C06:info-tangent', 'dpdv not mapped by the linear part')
    return None

def replay_args(c):
    if c['kind'] == 'mul': return ['mul'] + [str(b) for b in c['a']] + [str(b) for b in c['b']]
    if c['kind'] == 'ctor': return ['ctor', str(c['k'])] + [str(b) for b in c['args']]
    return [str(c['op'])] + [str(b) for b in c['tr']] + [str(b) for b in c['in']]
