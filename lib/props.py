"""Generic check logic + registry of per-property configurations (lib/pCxx.py)."""
import os, sys, json, time, shutil, importlib, glob, re

ROOT = os.path.dirname(os.path.dirname(os.path.abspath(__file__)))


def load_known(prop):
    kf = json.load(open(os.path.join(ROOT, 'known_findings.json')))
    return [f for f in kf['findings'] if f['property'] == prop]


def load_cfg(prop):
    return importlib.import_module('p' + prop)


class Stream:
    """one generated stream: harness property name, Coq runner module, case count"""
    def __init__(self, name, n, release=False, f32=False, extra=None):
        self.name, self.n, self.release, self.f32, self.extra = name, n, release, f32, extra or []


def run_stream(V, st, seed, workdir, exe):
    casedir = os.path.join(workdir, st.name + ('_rel' if st.release else '') + ('_f32' if st.f32 else ''))
    shutil.rmtree(casedir, ignore_errors=True)
    os.makedirs(casedir)
    rc, out = V.sh([exe, 'gen', st.name, str(seed), str(st.n), casedir] + st.extra, timeout=1800)
    if rc != 0:
        return dict(casedir=casedir, error='harness failed: ' + out[-2000:], cases=[], bad=[], hist={})
    cases = [json.loads(l) for l in open(os.path.join(casedir, 'cases.jsonl'))]
    coqlines = []
    for f in sorted(glob.glob(os.path.join(casedir, 'cases_*.v')), key=lambda p: int(re.findall(r'cases_(\d+)\.v', p)[0])):
        body = open(f).read()
        start = body.index('Definition cases := [') + len('Definition cases := [')
        end = body.rindex('].\nEval')
        items = [l.strip().rstrip(';') for l in body[start:end].strip().splitlines()]
        coqlines.append(items)
    results = V.run_coq_cases(casedir)
    bad = []; hist = {}; err = None
    off = 0
    for k, (f, parsed, out) in enumerate(results):
        if parsed is None:
            err = f'coqc failed on {os.path.basename(f)}: {str(out)[-1500:]}'
            off += len(coqlines[k]); continue
        b, h = parsed
        bad += [off + i for i in b]
        for t, c in h.items(): hist[t] = hist.get(t, 0) + c
        off += len(coqlines[k])
    flatcoq = [x for items in coqlines for x in items]
    return dict(casedir=casedir, error=err, cases=cases, bad=bad, hist=hist, coq=flatcoq)


def check(V, prop, tier, seed):
    t0 = time.time()
    cfg = load_cfg(prop)
    known = load_known(prop)
    workdir = os.path.join(V.CACHE, 'run', prop)
    os.makedirs(workdir, exist_ok=True)
    os.makedirs(os.path.join(ROOT, 'evidence'), exist_ok=True)
    replaydir = os.path.join(ROOT, 'replay'); os.makedirs(replaydir, exist_ok=True)
    proof_problems = []      # broken obligations
    corr_problems = []       # model/impl disagreements
    oracle_failures = []     # (signature, message, case)
    log = []

    T = {}
    def lap(name, _t=[t0]):
        now = time.time(); T[name] = round(now - _t[0], 2); _t[0] = now
    # (a) audit
    aud = V.audit_sources()
    for p in aud: proof_problems.append('forbidden construct: ' + p)

    lap('audit')
    # (b) theorems
    thm_pairs = V.theorems_of(prop)
    thms = [t for _, t in thm_pairs]
    expected = getattr(cfg, 'THEOREMS', None)
    obligations = len(thms)
    discharged = 0
    trusted = set()
    rc, out = V.coq_make()
    if rc != 0:
        m = re.findall(r'File "([^"]+)", line (\d+)', out)
        proof_problems.append('Coq build failed: ' + (f'{m[-1][0]}:{m[-1][1]} ' if m else '') + out[-800:])
    else:
        if expected is not None:
            for t in expected:
                if t not in thms: proof_problems.append(f'property theorem {t} is missing from Properties/{prop}.v')
        if not thms:
            proof_problems.append(f'no property theorems in Properties/{prop}.v')
        else:
            rc, out, assum = V.print_assumptions(prop, thm_pairs, workdir)
            if rc != 0:
                proof_problems.append('Print Assumptions run failed: ' + out[-800:])
            for t in thms:
                axs = assum.get(t)
                if axs is None:
                    proof_problems.append(f'{t}: assumptions not printed'); continue
                badax = [a for a in axs if not V.axiom_ok(a)]
                if badax:
                    proof_problems.append(f'{t}: depends on non-allowlisted axioms {badax}')
                else:
                    discharged += 1
                trusted.update(axs)

    lap('make+assumptions')
    # (b') thorough tier: re-check the compiled property files with the independent checker
    coqchk_report = None
    if tier == 'thorough' and not proof_problems:
        mods = sorted(set('G3.Properties.' + m for m, _ in thm_pairs))
        try:
            rc, out = V.sh(['coqchk', '-o', '-silent', '-Q', V.COQ, 'G3'] + mods, timeout=3000)
        except Exception as e:
            rc, out = 1, 'coqchk did not finish: %r' % e
        axioms = []
        sec = None
        for line in out.splitlines():
            if line.startswith('* '): sec = line
            elif sec and sec.startswith('* Axioms') and line.startswith('    '): axioms.append(line.strip())
        bad = [a for a in axioms if not V.axiom_ok(a.replace('Coq.', '', 1)) and not V.axiom_ok(a)]
        flags = [l for l in out.splitlines() if l.startswith('* ') and 'relying on' in l or l.startswith('* Inductives whose')]
        unsafe = [l for l in flags if not l.rstrip().endswith('<none>')]
        coqchk_report = dict(rc=rc, modules=mods, n_axioms=len(axioms), non_allowlisted=bad, unsafe_flags=unsafe)
        if rc != 0: proof_problems.append('coqchk failed: ' + out[-600:])
        if bad: proof_problems.append('coqchk: non-allowlisted axioms %s' % bad[:5])
        if unsafe: proof_problems.append('coqchk: %s' % unsafe)
    # (c) harness + correspondence
    streams = cfg.streams(tier)
    results = []
    exes = {}
    for st in streams:
        key = (st.release, st.f32)
        if key not in exes:
            rc, out, exe = V.build_harness(st.release, st.f32)
            if rc != 0:
                corr_problems.append(f'harness does not build against /repo (release={st.release}, f32={st.f32}): ' + out[-1500:])
                exes[key] = None
            else:
                exes[key] = exe
        if exes[key] is None: continue
        r = run_stream(V, st, seed, workdir, exes[key])
        r['stream'] = st
        results.append(r)
        if r['error']: corr_problems.append(f'stream {st.name}: ' + r['error'])
        for i in r['bad']:
            corr_problems.append(dict(stream=st.name, release=st.release, f32=st.f32, index=i, case=r['cases'][i], coq=r['coq'][i]))

    lap('harness+coqc')
    # (d) oracles on the implementation's outputs
    n_eval = 0; nontrivial = set(); samples = []; dist = {}
    for r in results:
        st = r['stream']
        for i, c in enumerate(r['cases']):
            n_eval += 1
            key, triv, bucket = cfg.classify(c, st)
            dist[bucket] = dist.get(bucket, 0) + 1
            if not triv: nontrivial.add(key)
            if len(samples) < 3 and not triv and i % 7 == 3: samples.append(cfg.describe(c, st))
            f = cfg.oracle(c, st)
            if f is not None:
                oracle_failures.append((f[0], f[1], c, st))
    if not samples and results and results[0]['cases']:
        samples.append(cfg.describe(results[0]['cases'][0], results[0]['stream']))

    lap('oracles')
    # (e) after a break: widen the search for a failing input
    broken = bool(proof_problems or corr_problems)
    searched = 0
    if broken and not oracle_failures:
        for extra_seed in range(seed + 1000, seed + 1000 + (3 if tier == 'quick' else 10)):
            for st in cfg.streams('search'):
                key = (st.release, st.f32)
                if exes.get(key) is None:
                    rc, out, exe = V.build_harness(st.release, st.f32)
                    exes[key] = exe if rc == 0 else None
                if exes.get(key) is None: continue
                casedir = os.path.join(workdir, 'search'); shutil.rmtree(casedir, ignore_errors=True); os.makedirs(casedir)
                rc, out = V.sh([exes[key], 'gen', st.name, str(extra_seed), str(st.n), casedir] + st.extra + ['--nocoq'], timeout=1800)
                if rc != 0: continue
                for l in open(os.path.join(casedir, 'cases.jsonl')):
                    c = json.loads(l); searched += 1
                    f = cfg.oracle(c, st)
                    if f is not None: oracle_failures.append((f[0], f[1], c, st))
            if oracle_failures: break

    # verdict
    known_lines = []; new_failures = []
    for sig, msg, c, st in oracle_failures:
        k = next((f for f in known if f['status'] == 'known' and re.fullmatch(f['signature'], sig)), None)
        if k is not None:
            if k['line'] not in known_lines: known_lines.append(k['line'])
        else:
            new_failures.append((sig, msg, c, st))
    for l in known_lines: print('KNOWN-FINDING: property=%s %s' % (prop, l))
    rc = 0
    ts = time.strftime('%Y%m%d-%H%M%S')
    if new_failures:
        sig, msg, c, st = new_failures[0]
        path = os.path.join(replaydir, f'{prop}_{ts}.json')
        json.dump(dict(property=prop, kind='failing-input', signature=sig, message=msg, stream=st.name, release=st.release, f32=st.f32,
                       case=c, how='./verify replay %s %s' % (prop, path),
                       broken_obligations=[str(p)[:400] for p in proof_problems], n_failing=len(new_failures)), open(path, 'w'), indent=1)
        print(f'VIOLATION property={prop} replay={path}')
        print(f'  {sig}: {msg}')
        rc = 1
    elif broken:
        path = os.path.join(replaydir, f'{prop}_{ts}.json')
        json.dump(dict(property=prop, kind='proof-or-correspondence-broken',
                       broken_obligations=[str(p)[:1500] for p in proof_problems],
                       correspondence=[p if isinstance(p, str) else dict(stream=p['stream'], release=p['release'], f32=p['f32'], index=p['index'], case=p['case'], coq=p['coq']) for p in corr_problems[:20]],
                       searched_inputs=searched + n_eval,
                       note='no input violating the property was found by the oracles; the property is no longer shown to hold'),
                  open(path, 'w'), indent=1)
        print(f'VIOLATION property={prop} replay={path} no-failing-input-found')
        for p in proof_problems[:5]: print('  obligation:', str(p)[:300])
        for p in corr_problems[:5]:
            print('  correspondence:', p if isinstance(p, str) else f"model != implementation on stream {p['stream']} case {p['index']}: {cfg.describe(p['case'], None)}")
        rc = 1

    # evidence
    hist_all = {}
    for r in results:
        for t, c in r['hist'].items(): hist_all[str(t)] = hist_all.get(str(t), 0) + c
    ev = dict(
        property_id=prop, tier=tier if tier in ('quick', 'thorough') else 'quick', seed=seed, level=cfg.LEVEL,
        coverage=dict(
            obligations=obligations, discharged=discharged,
            checker_cmd='coq_makefile -f _CoqProject -o Makefile && make -j16 (coqc 8.16.1, full .vo build); coqc Print Assumptions on every theorem of Properties/%s.v' % prop,
            trusted_base=sorted(trusted),
            theorems=thms,
            evaluations=n_eval, distinct_nontrivial=len(nontrivial), rule=cfg.RULE, samples=samples,
            programs=len(results), disagreements_checked=len([p for p in corr_problems if not isinstance(p, str)]),
            traces_validated_against_impl=n_eval,
            path_tag_histogram=hist_all, input_distribution=dist,
            streams=[dict(name=r['stream'].name, n=len(r['cases']), release=r['stream'].release, f32=r['stream'].f32, mismatches=len(r['bad'])) for r in results],
            oracle_failures=len(oracle_failures), known_findings_matched=known_lines, search_inputs_after_break=searched,
            broken_obligations=[str(p)[:300] for p in proof_problems], phase_seconds=T, coqchk=coqchk_report,
        ),
        assumptions=cfg.ASSUMPTIONS,
        wall_s=round(time.time() - t0, 2), violations=len(new_failures) + (1 if (broken and not new_failures) else 0))
    json.dump(ev, open(os.path.join(ROOT, 'evidence', prop + '.json'), 'w'), indent=1)
    print(f'{prop}: tier={tier} seed={seed} obligations={discharged}/{obligations} cases={n_eval} nontrivial={len(nontrivial)} '
          f'mismatches={len([p for p in corr_problems if not isinstance(p, str)])} oracle_failures={len(oracle_failures)} '
          f'known={len(known_lines)} wall={ev["wall_s"]}s -> {"FAIL" if rc else "ok"}')
    return rc


def replay(V, prop, path):
    cfg = load_cfg(prop)
    d = json.load(open(path))
    if d.get('kind') != 'failing-input':
        print('replay file names broken obligations / correspondence cases:')
        print(json.dumps(d, indent=1)[:4000])
        if not d.get('correspondence'): return 1
        cases = [(c['case'], c) for c in d['correspondence'] if not isinstance(c, str)]
    else:
        cases = [(d['case'], d)]
    rcode = 0
    for c, meta in cases:
        rc, out, exe = V.build_harness(meta.get('release', False), meta.get('f32', False))
        if rc: print(out); return 2
        rc, out = V.sh([exe, 'replay', prop] + cfg.replay_args(c))
        print(out)
        for l in out.splitlines():
            if l.startswith('{'):
                c2 = json.loads(l)
                f = cfg.oracle(c2, Stream(meta.get('stream', prop), 1, meta.get('release', False), meta.get('f32', False)))
                print('oracle on the current tree:', 'property holds on this input' if f is None else f'FAILS {f[0]}: {f[1]}')
                if f is not None: rcode = 1
    return rcode
