"""C08: triangulation part (lib/pmesh.py); further parts are appended to the list when they are merged."""
from composite import make
make(globals(), 'C08', ['pmesh'])
