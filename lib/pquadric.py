"""Part `pquadric` of C02 / C03 / C13: full and clipped spheres, full and partial cylinders.

The oracles are the properties themselves, evaluated on the implementation's outputs:
 * the surface is rebuilt from the CONSTRUCTOR ARGUMENTS (radius, z-clips, phi_max, centre / end points) and the
   attached transform (hooked matrix for caller-supplied transforms; for `Cylinder3D::new*(p0, p1, ..)` the
   placement that maps the local z axis onto [p0, p1] -- so finding F4 shows up as off-surface / missed hits);
 * membership, clips and "on the ray" are decided in exact rational arithmetic (fractions.Fraction) on the exact
   values of the floats, with the tolerances the properties state (1e-9 relative for C02 / C13, margins of 1e-6 for C03);
   angles (atan2) are evaluated in double precision, 6 orders of magnitude below the tolerance they are compared at.
"""
import math
from fractions import Fraction as Fr
from props import Stream
from fx import *

PROPS = {'C02', 'C03', 'C13'}
TWO_PI = 2 * math.pi
TOL = Fr(1, 10 ** 9)
MARGIN = Fr(1, 10 ** 6)
F32 = False

def is_f32(c, st=None):
    """cases of the f32 build carry "f32": true (harness/src/quadric.rs); the stream flag says the same"""
    return bool(c.get('f32') or (st is not None and getattr(st, 'f32', False)))

def set_precision(f32):
    """"up to rounding": 1e-9 for the f64 build (the property's own reading, 4.5e6 ulp64: it silently absorbs the conditioning of the
    attached transform and the distance of the shape from the origin); 2^-13 = 1024 ulp32 for the f32 build, on scales that include
    both explicitly (back_scale / cond_scale) and, for the on-ray test, the conditioning of the quadratic: a sphere of radius 0.01 placed
    at 1000 has world coordinates known to 6e-5 only.  Measured on 30 000 f32 cases (seeds 1-3): with these scales no residual exceeds
    2^-20 x scale (the first appears at 2^-21), so 2^-13 leaves a factor 128; the only flags at 2^-13 are the class
    off-ray:f32-direction-box (2 cases, a consequence of finding F9 in single precision, see oracle_c02)."""
    global TOL, F32
    F32 = bool(f32)
    TOL = Fr(1, 2 ** 13) if f32 else Fr(1, 10 ** 9)

RULE = {
 'C02': ('stream C02quadric: per shape (sphere: new / new_partial / new_transformed / new_partial_transformed; cylinder: new / new_partial / '
         'new_transformed; radii 1e-2..1e2 log-uniform, z-clips incl. beyond +-r and equal to +-r, phi_max in (0,360], end points in any '
         'direction incl. axis-aligned and antiparallel to z; transforms none / translation / rotation / non-uniform and mirroring scale / '
         'compositions of 2..5) the constructor and 6 rays of 8 kinds (outside aimed at the surface, origin inside, surface behind, tangent band '
         '1+-10^-k, poles / axis, clip edges +-10^-k, random, axis-parallel; directions unit / non-unit 1e-3..1e3) through one of: local basic '
         'intersection (zero or small error boxes), intersect_local_ray, intersect, simple_intersect; from a second generator state (the other cases do not '
         'depend on it): simple_intersect_local_ray with error boxes (op 6), intersection_info called on its own at the crate\'s own hit point or a surface point '
         '(op 7), world_bounds() / centre() (op 8; 5, 7, 8: correspondence only); every call is evaluated by the recomposition of the model\'s components AND by '
         'the named model definition of that call; corpus (F4, F8 witnesses) first; '
         'non-trivial = a ray case whose path tag is not "no real root"; distinct = distinct (op, shape args, transform, ray) bit patterns'),
 'C03': ('stream C03quadric: as C02quadric with 80% clipped shapes and rays weighted to origins inside, surfaces behind, tangent band and clip '
         'edges, through basic / intersect / simple_intersect; oracle only on rays whose analytic crossings clear every decision boundary '
         '(tangency, t = 0, z-clips, phi_max, phi = 0, pole band) by a relative margin 1e-6; others counted as skipped'),
 'C13': ('stream C13quadric: 70% pairs of rays reaching the same surface point (inside the clips) from outside and from inside the shape, '
         'hit data locally (intersect_local_ray) or in world space (intersect) under rigid and non-rigid transforms; rest: poles, axis-parallel, '
         'inside origins'),
}
ASSUMPTIONS = {
 'C02': ['[pquadric] theorems are about the real-number instance of the model (exact tier); for zero-width error boxes the full statement, '
         'for non-zero boxes (every transformed shape: inv_transform_ray returns gamma_3 boxes) "on the quadric, inside the clips" only',
         '[pquadric] model = code: sphere3d.rs / cylinder3d.rs checked bit-for-bit on primitive floats given the constructed object\'s fields '
         '(read through the verif_fields hooks); libm-dependent outputs at 2^-40 / 2^-30, libm-dependent decisions only with margin > 1e-9',
         '[pquadric] float vs exact evaluation is sampled by the exact-rational oracle at the property\'s tolerances, not proved',
         '[pquadric] f32 build (C02, thorough tier): the same runner text instantiated on the binary32 instance NumF32 (module Quadricf32 of Run/Quadric.v; executed as NumF32fast, proved equal in Run/FastNum32Proof.v) against the '
         'harness built with --features float: bit for bit except downstream of libm (platform sinf / cosf / atan2f / acosf against the binary32 rounding of the software '
         'libm: 2^-20 = 8 ulp32; sphere normals / dpdv 2^-12 outside the pole band |sin theta| <= 2^-8; placement matrices of Cylinder3D::new 2^-14; libm-dependent '
         'decisions compared when the margin exceeds 2^-12); the C02 oracle then reads "up to rounding" as 2^-13 (1024 ulp32) on scales that include the '
         'conditioning of the transform and the distance from the origin'],
 'C03': ['[pquadric] root-selection theorems hold for zero-width error boxes on the reals; "clearly" (the 1e-6 margins) is the float/real gap, sampled by the oracle',
         '[pquadric] guard of the theorems: direction not zero (sphere) / not parallel to the axis (cylinder), and the ray does not start on the quadric tangentially (0/0 in the code)',
         '[pquadric] f32 build (thorough tier): stream C03quadric of the build with --features float against module Quadricf32 of Run/Quadric.v (the same runner text on the binary32 '
         'instance NumF32fast = NumF32, Run/FastNum32Proof.v): bit for bit except downstream of libm (2^-20; sphere normals / dpdv 2^-12 outside the pole band; placement '
         'matrices 2^-14; libm-dependent decisions when the margin exceeds 2^-12); CORRESPONDENCE ONLY: the C03 exact-rational oracle does not judge f32 cases'],
 'C13': ['[pquadric] sphere statements carry sin(theta) <> 0 (finding F8: the code divides by sin(theta) at the poles)',
         '[pquadric] cylinder: the pre-get_side normal is the INWARD radial normal; Front = ray travelling outwards',
         '[pquadric] f32 build (thorough tier): stream C13quadric of the build with --features float against module Quadricf32 of Run/Quadric.v (the same runner text on the binary32 '
         'instance NumF32fast = NumF32, Run/FastNum32Proof.v): bit for bit except downstream of libm (2^-20; sphere normals / dpdv 2^-12 outside the pole band; placement '
         'matrices 2^-14; libm-dependent decisions when the margin exceeds 2^-12); CORRESPONDENCE ONLY: the C13 exact-rational oracle does not judge f32 cases'],
}
THEOREMS = {
 'C02': ['C02_sphere_hit_is_true_hit', 'C02_cylinder_hit_is_true_hit', 'C02_sphere_hit_any_error_boxes_partial', 'C02_cylinder_hit_any_error_boxes_partial',
         'C02_sphere_world_hit', 'C02_cylinder_world_hit', 'C02_world_ray_parameter', 'C02_cylinder_placement_maps_axis_onto_segment',
         'C02_cylinder_placement_pinned_refuted', 'C02_interval_ops_exact_on_points'],
 'C03': ['C03_solver_returns_the_real_roots', 'C03_sphere_root_selection', 'C03_cylinder_root_selection',
         'C03_sphere_first_valid_crossing', 'C03_cylinder_first_valid_crossing'],
 'C13': ['C13_get_side_faces_the_ray', 'C13_get_side_flips', 'C13_sphere_hit_data', 'C13_cylinder_hit_data', 'C13_transformed_hit_data',
         'C13_sphere_pole_refuted'],
}
STREAM = {'C02': 'C02quadric', 'C03': 'C03quadric', 'C13': 'C13quadric'}

def streams(prop, tier):
    name = STREAM[prop]
    if tier == 'quick': return [Stream(name, 1500)]
    if tier == 'search': return [Stream(name, 8000)]
    out = [Stream(name, 16000), Stream(name, 6000, release=True)]
    # the f32 build (thorough tier only): C02 with its calibrated f32 oracle; C03 / C13 correspondence only (oracle returns None)
    out.append(Stream(name, 1000, f32=True))
    return out

# ------------------------------------------------------------------ decoding

def fl(c, key):
    fm = Fmt(is_f32(c))
    return [fm.fl(b) for b in c[key]]

SHAPE = ['sphere', 'cylinder']

def classify(prop, c, st):
    sh = SHAPE[c['shape']]
    if c['op'] == 0:
        return ('ctor', c['shape'], c['variant'], tuple(c['args']), str(c['chain'])), True, '%s:ctor%d' % (sh, c['variant'])
    key = (c['op'], c['shape'], c['variant'], tuple(c['args']), str(c['chain']), tuple(c['ray']), tuple(c['oe']), tuple(c['de']))
    return key, False, '%s:op%d:rk%d:%s' % (sh, c['op'], c.get('rk', 0), c['res'])

def describe(prop, c, st):
    d = dict(part='pquadric', shape=SHAPE[c['shape']], variant=c['variant'], op=c['op'], args=[hexf(x) for x in fl(c, 'args')],
             chain=[[e[0], [hexf(Fmt(is_f32(c)).fl(b)) for b in e[1]]] for e in c['chain']], res=c['res'])
    if c['op']:
        d.update(ray=[hexf(x) for x in fl(c, 'ray')], out=[hexf(x) for x in fl(c, 'out')])
    return d

def replay_args(prop, c):
    a = ['pquadric', str(c['shape']), str(c['variant']), str(c['op']), str(len(c['args']))] + [str(b) for b in c['args']]
    a.append(str(len(c['chain'])))
    for k, v in c['chain']:
        a += [str(k), str(len(v))] + [str(b) for b in v]
    if c['op']:
        a += [str(b) for b in c['ray']] + [str(b) for b in c['oe']] + [str(b) for b in c['de']]
    return a

# ------------------------------------------------------------------ exact linear algebra (3x4 affine maps)

def ident():
    return [[Fr(int(r == k)) for k in range(4)] for r in range(3)]

def mat_of(tr):
    """hooked `elements` (row-major 4x4 floats) -> 3x4 Fractions; None if not affine / not finite"""
    e = tr[:16]
    if not all(finite(x) for x in e): return None
    if e[12] != 0 or e[13] != 0 or e[14] != 0 or e[15] != 1: return None
    return [[Fr(e[4 * r + k]) for k in range(4)] for r in range(3)]

def det3(m):
    return (m[0][0] * (m[1][1] * m[2][2] - m[1][2] * m[2][1]) - m[0][1] * (m[1][0] * m[2][2] - m[1][2] * m[2][0])
            + m[0][2] * (m[1][0] * m[2][1] - m[1][1] * m[2][0]))

def inv_lin(m):
    """exact inverse of the linear part"""
    d = det3(m)
    if d == 0: return None
    c = [[0] * 3 for _ in range(3)]
    for r in range(3):
        for k in range(3):
            a = [[m[i][j] for j in range(3) if j != k] for i in range(3) if i != r]
            c[k][r] = (-1) ** (r + k) * (a[0][0] * a[1][1] - a[0][1] * a[1][0]) / d
    return c

def lin(a, v): return [sum(a[r][k] * v[k] for k in range(3)) for r in range(3)]
def lin_t(a, v): return [sum(a[k][r] * v[k] for k in range(3)) for r in range(3)]
def dot(a, b): return sum(x * y for x, y in zip(a, b))
def sub(a, b): return [x - y for x, y in zip(a, b)]
def n2(a): return dot(a, a)
def amax(a): return max(abs(x) for x in a)

def fsqrt(x, digits=40):
    """sqrt of a non-negative Fraction to `digits` decimal digits"""
    if x <= 0: return Fr(0)
    s = 10 ** (2 * digits)
    return Fr(math.isqrt(x.numerator * s // x.denominator), 10 ** digits)

def rot_y(s, c): return [[c, 0, s], [0, 1, 0], [-s, 0, c]]
def rot_z(s, c): return [[c, -s, 0], [s, c, 0], [0, 0, 1]]
def mm3(a, b): return [[sum(a[r][k] * b[k][c] for k in range(3)) for c in range(3)] for r in range(3)]

def intended_placement(p0, p1):
    """the transform that maps the local z axis segment [0,|p1-p0|] onto [p0,p1]: translate(p0).rotate_z(phi).rotate_y(theta),
    theta = atan2(sqrt(x^2+y^2), z), phi = atan2(y, x) (angles in double precision, ~1e-16)"""
    l = [p1[k] - p0[k] for k in range(3)]
    th = math.atan2(math.hypot(l[0], l[1]), l[2]); ph = math.atan2(l[1], l[0])
    a = mm3(rot_z(Fr(math.sin(ph)), Fr(math.cos(ph))), rot_y(Fr(math.sin(th)), Fr(math.cos(th))))
    return [a[r] + [Fr(p0[r])] for r in range(3)]

class Geom:
    pass

def geom(c, actual_transform=False):
    """the surface as the constructor arguments define it; None when the arguments are not legal / finite"""
    a = fl(c, 'args')
    if not all(finite(x) for x in a): return None
    g = Geom(); g.shape = c['shape']; v = c['variant']
    tr = fl(c, 'tr') if c.get('tr') else None
    if g.shape == 0:
        g.r = Fr(a[0])
        if v in (0, 2): zmin, zmax, phi = -2 * g.r, 2 * g.r, 360.0
        elif v == 1: zmin, zmax, phi = Fr(a[4]), Fr(a[5]), a[6]
        else: zmin, zmax, phi = Fr(a[1]), Fr(a[2]), a[3]
        if g.r <= 0 or zmin > zmax: return None
        g.zlo = min(max(zmin, -g.r), g.r); g.zhi = min(max(zmax, -g.r), g.r)
        g.size = g.r
        if v in (0, 1):
            ce = a[1:4]
            if all(abs(x) < 100 * (2.0 ** -23 if is_f32(c) else 2.0 ** -52) for x in ce): g.M = ident()
            else: g.M = [[Fr(int(r == k)) for k in range(3)] + [Fr(ce[r])] for r in range(3)]
        else:
            g.M = mat_of(tr) if tr else ident()
    else:
        if v in (0, 1):
            p0, p1 = a[0:3], a[3:6]; g.r = Fr(a[6]); phi = a[7] if v == 1 else 360.0
            L2 = sum((Fr(p1[k]) - Fr(p0[k])) ** 2 for k in range(3))
            if L2 == 0: return None
            g.zlo = Fr(0); g.zhi = fsqrt(L2)
            g.M = mat_of(tr) if (actual_transform and tr) else intended_placement(p0, p1)
        else:
            g.r = Fr(a[0]); g.zlo = Fr(a[1]); g.zhi = Fr(a[2]); phi = a[3]
            g.M = mat_of(tr) if tr else ident()
        if g.r <= 0 or g.zlo > g.zhi: return None
        g.size = max(g.r, g.zhi - g.zlo, abs(g.zlo), abs(g.zhi))
    # the property quantifies over phi_max in (0, 360]; the constructors also accept [-EPSILON, 0] (an empty surface).
    # Angles below 1e-100 degrees are outside the sampled domain: there the un-normalised tangent dpdu = phi_max (-y, x, 0)
    # underflows when squared and the normal becomes NaN (observation F17 in NOTES.md)
    if not (1e-100 <= phi <= 360.0): return None
    g.phimax = math.radians(min(max(phi, 0.0), 360.0))
    g.full = g.phimax >= TWO_PI - 1e-12
    if g.M is None: return None
    g.Minv = inv_lin(g.M)
    if g.Minv is None: return None
    return g

def to_local_pt(g, P): return lin(g.Minv, [P[k] - g.M[k][3] for k in range(3)])
def to_local_vec(g, d): return lin(g.Minv, d)
def world_size(g):
    return g.size * max(sum(abs(g.M[r][k]) for k in range(3)) for r in range(3))

def back_scale(g, P):
    """magnitude of the local image of a world point: |M^-1| (|P| + |translation|) -- what the rounding of P is multiplied by
    when the exact inverse maps it back to the shape's frame"""
    return max(sum(abs(g.Minv[r][k]) * (abs(P[k]) + abs(g.M[k][3])) for k in range(3)) for r in range(3))

def cond_scale(g, o, d, t):
    """|M| (|M^-1| (|o| + |translation|) + |t| |M^-1| |d|) + |translation|: first-order magnitude of what the crate computes for
    the world ray (o, d) at parameter t"""
    L = [sum(abs(g.Minv[r][k]) * (abs(o[k]) + abs(g.M[k][3]) + abs(t) * abs(d[k])) for k in range(3)) for r in range(3)]
    return max(sum(abs(g.M[r][k]) * L[k] for k in range(3)) + abs(g.M[r][3]) for r in range(3))

def phi_of(x, y):
    p = math.atan2(float(y), float(x))
    return p + TWO_PI if p < 0 else p

def quad_form(g, p):
    """the implicit function: |p|^2 - r^2 (sphere), x^2+y^2 - r^2 (cylinder)"""
    return (n2(p) if g.shape == 0 else p[0] * p[0] + p[1] * p[1]) - g.r * g.r

def in_pole_band(g, p, slack=Fr(101, 100)):
    return g.shape == 0 and abs(p[0]) <= slack * g.r / 100000 and abs(p[1]) <= slack * g.r / 100000

# ops whose ray and reported point live in the shape's own frame: 1 basic intersection, 2 intersect_local_ray, 6 simple_intersect_local_ray
LOCAL_OPS = (1, 2, 6)

def ray_of(c, g):
    """(origin, direction, world?) as Fractions in the frame the op works in, plus the local ray"""
    r = fl(c, 'ray')
    if not all(finite(x) for x in r): return None
    o = [Fr(x) for x in r[:3]]; d = [Fr(x) for x in r[3:]]
    if c['op'] in LOCAL_OPS: return o, d, o, d          # local op: the shape's own frame
    return o, d, to_local_pt(g, o), to_local_vec(g, d)

# ------------------------------------------------------------------ C02

def oracle_c02(c):
    sh = SHAPE[c['shape']]
    if c['op'] == 0:
        # F4: the placement of Cylinder3D::new / new_partial must carry the axis segment onto [p0, p1]
        if c['shape'] == 1 and c['variant'] in (0, 1) and c['res'] == 'some':
            g = geom(c_with_tr(c))
            if g is None: return None
            o = fl(c, 'out'); E = mat_of(o[5:21]) if o[4] == 1.0 else None
            if E is None: return ('C02:quadric:cylinder:placement', 'no affine transform attached')
            a = fl(c, 'args'); p0 = [Fr(x) for x in a[0:3]]; p1 = [Fr(x) for x in a[3:6]]
            scale = max(amax(p0), amax(p1), g.zhi, Fr(1, 10 ** 300))
            e0 = [E[r][3] for r in range(3)]
            e1 = [E[r][2] * g.zhi + E[r][3] for r in range(3)]
            if amax(sub(e0, p0)) > TOL * scale or amax(sub(e1, p1)) > TOL * scale:
                return ('C02:quadric:cylinder:placement',
                        'the attached transform maps the axis end (0,0,%r) to %r, not to p1 = %r' % (float(g.zhi), [float(x) for x in e1], [float(x) for x in p1]))
        return None
    if c['res'] != 'some': return None
    g = geom(c)
    if g is None: return None
    rr = ray_of(c, g)
    out = fl(c, 'out')
    if rr is None or not all(finite(x) for x in out[:3]): return ('C02:quadric:%s:non-finite-hit' % sh, 'hit point %r' % out[:3]) if rr else None
    o, d, ol, dl = rr
    P = [Fr(x) for x in out[:3]]
    p = P if c['op'] in LOCAL_OPS else to_local_pt(g, P)
    # f64: the radius (resp. the size) is the scale of "up to rounding"; f32: also the magnitude of the local image of the
    # reported world point (its coordinates carry a relative rounding of 2^-24 each, whatever the size of the shape)
    rs = max(g.r, back_scale(g, P)) if (F32 and c['op'] not in LOCAL_OPS) else g.r
    zs = max(g.size, rs) if F32 else g.size
    # on the quadric, within 1e-9 relative (on the radius)
    q = quad_form(g, p)
    if abs(q) > 2 * TOL * g.r * rs * (1 + TOL):
        return ('C02:quadric:%s:off-surface' % sh, 'reported point is off the %s by %.3e (relative, squared radius)' % (sh, float(q / (g.r * g.r))))
    # inside the clips
    if p[2] < g.zlo - TOL * zs or p[2] > g.zhi + TOL * zs:
        return ('C02:quadric:%s:outside-z-clip' % sh, 'z = %r outside [%r, %r]' % (float(p[2]), float(g.zlo), float(g.zhi)))
    rho2 = p[0] * p[0] + p[1] * p[1]
    if not g.full and rho2 > ((Fr(1, 100) if F32 else MARGIN) * g.r) ** 2:
        ph = phi_of(p[0], p[1])
        # angular slack: 1e-9 rad (f64); f32: the rounding of the point seen from the axis, plus 8 ulp32 of an angle up to 2 pi
        slack = 1e-9 if not F32 else float(TOL * rs) / float(rho2) ** 0.5 + 2.0 ** -18
        if ph > g.phimax + slack and ph < TWO_PI - slack:
            return ('C02:quadric:%s:outside-phi-clip' % sh, 'phi = %r > phi_max = %r' % (ph, g.phimax))
    # on the ray, ahead of the origin (zero error boxes only: with boxes the "ray" is a family of rays)
    if c['op'] in LOCAL_OPS and (any(b != 0 and b != 1 << 63 for b in c['oe']) or any(b != 0 and b != 1 << 63 for b in c['de'])): return None
    dd = n2(d)
    if dd == 0: return ('C02:quadric:%s:off-ray' % sh, 'hit reported for a zero direction')
    w = sub(P, o); t = dot(w, d) / dd
    scale = max(amax(o), amax(P), world_size(g) if c['op'] in (3, 4) else g.size)
    if F32:
        if c['op'] in (3, 4): scale = max(scale, cond_scale(g, o, d, t))
        # conditioning of the quadratic itself: a t^2 + b t + c = 0 with discriminant D; the rounding of D moves the root by
        # (b^2 + 4|ac|) / (4 a sqrt D) ulps, i.e. the point by about |o|^2 / chord ulps (an origin 3e4 away from a cylinder of radius 60:
        # 2e9 / 100 * 6e-8 = 1.2).  The crate re-projects the point onto the surface, so this shows as a displacement ALONG the
        # surface, off the ray.  A (nearly) tangent ray has no bound: not judged.
        a = n2(dl) if g.shape == 0 else dl[0] * dl[0] + dl[1] * dl[1]
        b = 2 * (dot(ol, dl) if g.shape == 0 else ol[0] * dl[0] + ol[1] * dl[1])
        cq = quad_form(g, ol)
        D = b * b - 4 * a * cq
        if a == 0 or D <= 0: return None
        qs = (b * b + 4 * abs(a * cq)) * fsqrt(n2(dl), 20) / (4 * a * fsqrt(D, 20))
        normM = max(sum(abs(g.M[r][k]) for k in range(3)) for r in range(3)) if c['op'] in (3, 4) else 1
        scale = max(scale, normM * qs)
    # f32: a genuine crossing so close to the origin that o + t d rounds back onto (or a hair behind) o is rounding, not a hit behind the origin
    if t <= 0 and not (F32 and t * t * dd <= (TOL * scale) ** 2):
        return ('C02:quadric:%s:behind-origin' % sh, 'parameter of the reported point on the ray = %r' % float(t))
    dist2 = n2(w) - t * t * dd
    if dist2 > (TOL * scale) ** 2:
        if F32 and c['op'] in (3, 4):
            # f32 consequence of finding F9 (the translation column is added to the error box of a transformed DIRECTION): the box
            # gamma_3 |M^-1 translation| is relative to 1, not to |d|; for a short direction behind a large translation the interval
            # of the root is several percent wide and its midpoint -- the reported distance -- is biased by the square of that
            g3 = Fr(3, 2 ** 24) / (1 - Fr(3, 2 ** 24))
            box = max(g3 * (sum(abs(g.Minv[r][k] * d[k]) for k in range(3)) + abs(sum(g.Minv[r][k] * g.M[k][3] for k in range(3)))) for r in range(3))
            if box * box > TOL * TOL * n2(dl):
                return ('C02:quadric:%s:off-ray:f32-direction-box' % sh,
                        'reported point is %.3e off the ray line (scale %.3e): the error box of the local direction, %.3e, is %.2e of its length (translation column included, F9)'
                        % (math.sqrt(float(dist2)), float(scale), float(box), float(box) / math.sqrt(float(n2(dl)))))
        if in_pole_band(g, p):
            return ('C02:quadric:sphere:pole-fixup-off-ray', 'hit within 1e-5 r of a pole is moved to x = 1e-5 r: %.3e off the ray (scale %.3e)' % (math.sqrt(float(dist2)), float(scale)))
        return ('C02:quadric:%s:off-ray' % sh, 'reported point is %.3e off the ray line (scale %.3e)' % (math.sqrt(float(dist2)), float(scale)))
    return None

def c_with_tr(c):
    d = dict(c); d['tr'] = None
    return d

# ------------------------------------------------------------------ C03

def expected_crossing(g, ol, dl):
    """-> ('skip', why) | ('none',) | ('hit', t, q, other) in the local frame, with the 1e-6 margins of the property"""
    a = n2(dl) if g.shape == 0 else dl[0] * dl[0] + dl[1] * dl[1]
    b = 2 * (dot(ol, dl) if g.shape == 0 else ol[0] * dl[0] + ol[1] * dl[1])
    cc = quad_form(g, ol)
    dlen2 = n2(dl)
    if dlen2 == 0: return ('skip', 'zero-direction')
    if a <= MARGIN * MARGIN * dlen2: return ('skip', 'parallel-to-axis')
    disc = b * b - 4 * a * cc
    # closest approach rho of the line to the centre / axis: rho^2 - r^2 = -disc / (4a)
    if abs(disc) <= 8 * MARGIN * a * g.r * g.r: return ('skip', 'tangent-band')
    if disc < 0: return ('none',)
    s = fsqrt(disc)
    ts = [(-b - s) / (2 * a), (-b + s) / (2 * a)]
    olen = fsqrt(n2(ol), 20)
    dlen = fsqrt(dlen2, 20)
    cands = []
    for t in ts:
        if abs(t) * dlen <= MARGIN * max(g.size, olen): return ('skip', 'zero-distance-band')
        q = [ol[k] + t * dl[k] for k in range(3)]
        valid = True
        lim_lo = g.zlo > -g.r if g.shape == 0 else True
        lim_hi = g.zhi < g.r if g.shape == 0 else True
        if t > 0:
            for lim, z in ((lim_lo, g.zlo), (lim_hi, g.zhi)):
                if lim and abs(q[2] - z) <= MARGIN * g.size: return ('skip', 'z-clip-band')
            if lim_lo and q[2] < g.zlo: valid = False
            if lim_hi and q[2] > g.zhi: valid = False
            if in_pole_band(g, q, Fr(2)): return ('skip', 'pole-band')
            if not g.full:
                if q[0] * q[0] + q[1] * q[1] <= (Fr(1, 10 ** 4) * g.r) ** 2: return ('skip', 'axis-band')
                ph = phi_of(q[0], q[1])
                if abs(ph - g.phimax) <= 1e-6 or ph <= 1e-6 or ph >= TWO_PI - 1e-6: return ('skip', 'phi-band')
                if ph > g.phimax: valid = False
        cands.append((t, q, valid))
    ahead = [(t, q) for t, q, v in cands if t > 0 and v]
    if not ahead: return ('none',)
    t, q = ahead[0]
    other = [qq for tt, qq, v in cands if tt != t]
    return ('hit', t, q, other[0] if other else None)

def oracle_c03(c):
    sh = SHAPE[c['shape']]
    if c['op'] == 0: return None
    if c['op'] in LOCAL_OPS and (any(b != 0 and b != 1 << 63 for b in c['oe']) or any(b != 0 and b != 1 << 63 for b in c['de'])): return None
    g = geom(c)
    if g is None: return None
    rr = ray_of(c, g)
    if rr is None: return None
    o, d, ol, dl = rr
    e = expected_crossing(g, ol, dl)
    if e[0] == 'skip': return None
    if c['res'] == 'panic':
        return ('C03:quadric:%s:panic' % sh, 'clear %s but the call panicked: %s' % ('hit' if e[0] == 'hit' else 'miss', c.get('msg', '')))
    if e[0] == 'none':
        if c['res'] == 'some': return ('C03:quadric:%s:phantom-hit' % sh, 'no valid crossing ahead of the origin, yet a hit is reported')
        return None
    if c['res'] == 'none':
        return ('C03:quadric:%s:missed-hit' % sh, 'valid crossing at t = %r is not reported' % float(e[1]))
    out = fl(c, 'out')
    if not all(finite(x) for x in out[:3]): return ('C03:quadric:%s:wrong-point' % sh, 'non-finite hit')
    P = [Fr(x) for x in out[:3]]
    p = P if c['op'] in LOCAL_OPS else to_local_pt(g, P)
    tol = MARGIN * max(g.size, fsqrt(n2(ol), 20))
    if amax(sub(p, e[2])) <= tol: return None
    if e[3] is not None and amax(sub(p, e[3])) <= tol:
        return ('C03:quadric:%s:wrong-crossing' % sh, 'the other crossing is reported instead of the first valid one (t = %r)' % float(e[1]))
    return ('C03:quadric:%s:wrong-point' % sh, 'reported point is neither crossing')

# ------------------------------------------------------------------ C13

def is_rigid(g):
    for r in range(3):
        for k in range(3):
            v = sum(g.M[i][r] * g.M[i][k] for i in range(3)) - int(r == k)
            if abs(v) > TOL: return False
    return True

def oracle_c13(c):
    sh = SHAPE[c['shape']]
    if c['op'] not in (2, 3): return None
    g = geom(c, actual_transform=True)     # hit data coherence is judged against the transform actually attached
    if g is None or g.zlo >= g.zhi: return None      # zero-area band (delta_theta = 0 / zero height): no tangent plane
    rr = ray_of(c, g)
    if rr is None: return None
    o, d, ol, dl = rr
    if c['res'] == 'panic':
        e = expected_crossing_plain(g, ol, dl)
        if e is not None and in_pole_band(g, e, Fr(2)):
            return ('C13:quadric:sphere:pole', 'hit at a pole: %s' % c.get('msg', ''))
        return ('C13:quadric:%s:panic' % sh, c.get('msg', ''))
    if c['res'] != 'some': return None
    out = fl(c, 'out')
    if not all(finite(x) for x in out[:3]): return None
    P = [Fr(x) for x in out[:3]]
    p = P if c['op'] == 2 else to_local_pt(g, P)
    pole = in_pole_band(g, p)
    side = out[6]
    nrm, du, dv = out[3:6], out[7:10], out[10:13]
    tag = 'C13:quadric:sphere:pole' if pole else None
    if not all(finite(x) for x in nrm + du + dv):
        return (tag or 'C13:quadric:%s:non-finite-data' % sh, 'normal %r dpdu %r dpdv %r' % (nrm, du, dv))
    n = [Fr(x) for x in nrm]; du = [Fr(x) for x in du]; dv = [Fr(x) for x in dv]
    grad_l = p if g.shape == 0 else [p[0], p[1], Fr(0)]
    gd = dot(grad_l, dl)
    grazing = gd * gd <= TOL * TOL * n2(grad_l) * n2(dl) * 10 ** 6     # |cos| <= 1e-6: side decision not clear
    if side == 2.0 or n2(n) == 0:
        if grazing: return None
        return (tag or 'C13:quadric:%s:no-side' % sh, 'side NonApplicable / zero normal for a non-grazing ray')
    nd = dot(n, d)
    if not grazing and nd > 0 and nd * nd > TOL * TOL * n2(n) * n2(d):
        return (tag or 'C13:quadric:%s:normal-not-facing' % sh, 'normal . direction = %r > 0' % float(nd))
    if c['op'] == 2 or is_rigid(g):
        if abs(n2(n) - 1) > 4 * TOL:
            return (tag or 'C13:quadric:%s:normal-not-unit' % sh, '|normal|^2 = %r' % float(n2(n)))
    for name, tv in (('dpdu', du), ('dpdv', dv)):
        if n2(tv) == 0: continue
        v = dot(n, tv)
        if v * v > TOL * TOL * n2(n) * n2(tv):
            return (tag or 'C13:quadric:%s:normal-not-perpendicular' % sh, 'normal . %s = %r' % (name, float(v)))
    # tangents tangent to the surface: orthogonal to the world gradient M^-T grad_l
    grad_w = grad_l if c['op'] == 2 else lin_t(g.Minv, grad_l)
    sin2 = 1 - (p[2] / g.r) ** 2 if g.shape == 0 else Fr(1)
    for name, tv in (('dpdu', du), ('dpdv', dv)):
        if n2(tv) == 0: continue
        if name == 'dpdv' and sin2 < Fr(1, 10 ** 4) and not pole: continue       # conditioning of acos(z/r) near the poles
        v = dot(tv, grad_w)
        if v * v > TOL * TOL * n2(tv) * n2(grad_w):
            return (tag or 'C13:quadric:%s:tangent-not-tangent' % sh, '%s . gradient = %r (relative %.2e)' % (name, float(v), math.sqrt(float(v * v / (n2(tv) * n2(grad_w))))))
    # spheres: Front = the side the outward normal points to
    if g.shape == 0 and not grazing:
        if (side == 0.0) != (gd < 0):
            return (tag or 'C13:quadric:sphere:front-not-outward', 'side = %s but outward normal . direction = %r' % ('Front' if side == 0.0 else 'Back', float(gd)))
    # paired rays: same surface point from the other side -> other side, opposite normal
    m = c.get('mate')
    if m and m['res'] == 'some' and not pole:
        mo = [Fmt(is_f32(c)).fl(b) for b in m['out']]
        if all(finite(x) for x in mo[:7]):
            scale = max(amax(P), world_size(g) if c['op'] == 3 else g.size)
            if amax(sub(P, [Fr(x) for x in mo[:3]])) <= MARGIN * scale and mo[6] != 2.0:
                if mo[6] == side:
                    return ('C13:quadric:%s:no-flip' % sh, 'both rays of the pair report side %r' % side)
                sm = [n[k] + Fr(mo[3 + k]) for k in range(3)]
                if n2(sm) > MARGIN * MARGIN * n2(n) * 100:
                    return ('C13:quadric:%s:no-flip' % sh, 'normals of the pair are not opposite')
    return None

def expected_crossing_plain(g, ol, dl):
    """first crossing ahead of the origin ignoring clips and margins (floats), or None"""
    a = n2(dl) if g.shape == 0 else dl[0] * dl[0] + dl[1] * dl[1]
    if a == 0: return None
    b = 2 * (dot(ol, dl) if g.shape == 0 else ol[0] * dl[0] + ol[1] * dl[1])
    disc = b * b - 4 * a * quad_form(g, ol)
    if disc < 0: return None
    s = fsqrt(disc)
    for t in ((-b - s) / (2 * a), (-b + s) / (2 * a)):
        if t > 0: return [ol[k] + t * dl[k] for k in range(3)]
    return None

def oracle(prop, c, st):
    # 5 bounds / area, 7 intersection_info called on its own, 8 world_bounds / centre: model correspondence only
    # (6 = simple_intersect_local_ray reports a hit point: judged like op 1)
    if c['op'] > 4 and c['op'] != 6: return None
    # f32 build: only the C02 oracle is calibrated for 24-bit rounding; C03 / C13 f32 cases are correspondence only
    if prop != 'C02' and is_f32(c, st): return None
    set_precision(is_f32(c, st))
    try:
        if prop == 'C02': return oracle_c02(c)
        if prop == 'C03': return oracle_c03(c)
        return oracle_c13(c)
    except ZeroDivisionError:
        return None
