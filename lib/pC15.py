"""C15: bounding boxes bound - primitives, unions and transformed boxes.

Oracle, in exact rationals on the implementation's outputs:
  kind 0  (operand boxes finite and well formed, i.e. what BBox3D::new produces): new normalises; union contains both
          operands; union with a point contains box and point; the intersection box is contained in both operands and
          is a well-formed box when the operands share a point; overlaps is symmetric and equals "a common point
          exists"; point_inside(_exclusive) equal their definitions.  All checked exactly, no tolerance.
  kind 1  the transformed box contains the exact image (under the stored matrix, in Q) of the 8 corners, the centre,
          the face centres and pseudo-random rational interior points of the original box, up to the rounding of the corner
          images themselves: 8 u * (sum_j |m_kj| max|x_j| + |m_k3|).
  kind 2-4 local bounds contain exact points of the surface (triangle: vertices, edge midpoints, centroid; sphere and
          cylinder: the points (rho,0,z), (0,rho,z), (-rho,0,z), (0,-rho,z) allowed by phi_max, through squares, no sqrt);
          world bounds contain the exact images of the corners of the local bounds (as kind 1); every reported hit of
          intersect / simple_intersect lies inside world_bounds(), every hit of (simple_)intersect_local_ray inside bounds(),
          up to the rounding of the hit point itself: 16 u * (magnitudes entering the hit's computation); for triangles the
          hit is origin + t * direction with t a Moller-Trumbore quotient, so the magnitudes are |o| + |p - o| + |vertices|,
          times the conditioning 1 + |d||e1||e2| / |det| of that quotient (grazing rays: measured excess <= 0.7 u * that).
"""
import math, hashlib
from fractions import Fraction as Fr
from props import Stream
from fx import *

LEVEL = 'proof'
RULE = ('cases from one SplitMix64 state: 40% BBox3D functions (new, from_point, from_union(_point), from_intersection, overlaps both '
        'ways, point_inside(_exclusive), max_extent, surface_area) on boxes with coordinates from a small pool (ties, shared faces, '
        'touching, nested, disjoint) or continuous to 1e3, 12% ill-formed raw boxes; 20% transform_bbox / inv_transform_bbox under '
        'C06 chains (0..6 elements) or arbitrary affine matrices; 10% triangles; 15% spheres (full with centre, partial with z clips '
        'inside/at/beyond the radius, phi_max, optional transform chain, rare invalid arguments); 15% cylinders (new_transformed, '
        'and new(p0,p1,r)); for each primitive 6-10 rays aimed around its bounds, hits of intersect, simple_intersect and the local '
        'variants recorded; non-trivial = not from_point/max_extent/surface_area and operands well formed; distinct = distinct input bits; '
        'thorough tier: also 6000 cases of the f32 build (correspondence only, no oracle)')
ASSUMPTIONS = [
    'Coq 8.16.1 kernel + vm_compute; order lemmas proved for any instance whose comparisons form a total order on the values '
    'involved (reals; finite Flocq floats of every format); containment under transforms and of primitive surfaces proved on the real instance; '
    'float tier (every Flocq format, restated on the executed primitive-float instances through the Prim2B / of_b32 homomorphisms): the COMPUTED '
    'transformed box contains the COMPUTED image of every float point of the box, for finite matrix rows, bottom row (0,0,0,1), finite box, '
    'no NaN among the eight computed corner images (overflow to an infinity allowed)',
    'model = code: bbox3d.rs, transform_bbox/inv_transform_bbox and the bounds()/world_bounds() of triangle, sphere, cylinder '
    'checked bit-for-bit on primitive floats (matrices read through the hook; Cylinder3D::new passes through libm, its transform is read back)',
    'f32 build (thorough tier): the same runner text instantiated on the binary32 instance (module C15f32 of Run/C15.v on NumF32fast, proved equal to the '
    'Flocq-rounded NumF32 in Run/FastNum32Proof.v) against the harness built with --features float, bit for bit; CORRESPONDENCE ONLY: the exact-rational '
    'oracle does not judge f32 cases',
    'hits are the crate\'s own; their containment is sampled by the exact-rational oracle (float vs exact evaluation is not proved)',
]
THEOREMS = ['C15_new_normalises', 'C15_union_contains_both', 'C15_union_point_contains_box_and_point', 'C15_intersection_contained_in_both',
            'C15_overlaps_symmetric', 'C15_overlaps_iff_common_point', 'C15_point_inside_characterised',
            'C15_transformed_box_contains_image', 'C15_bbox_round_trip_contains', 'C15_triangle_bounds', 'C15_sphere_bounds',
            'C15_cylinder_bounds', 'C15_world_bounds_contain_surface',
            # float tier: the COMPUTED transformed box contains the COMPUTED image (every Flocq format; primitive floats)
            'C15_float_add_monotone', 'C15_float_mul_monotone', 'C15_float_row_between_corners',
            'C15_float_transformed_box_contains_image', 'C15_float_transformed_box_contains_image_evaluable',
            'C15_float_transform_bbox_contains_image', 'C15_float_world_bounds_contain',
            'C15_prim_transformed_box_contains_image', 'C15_prim_transform_bbox_contains_image',
            'C15_prim_world_bounds_contain', 'C15_prim_every_corner_is_needed', 'C15_prim_nan_corner_outside_hypothesis',
            'C15_prim32_transformed_box_contains_image']

U = Fr(1, 2 ** 53)

def streams(tier):
    if tier == 'quick': return [Stream('C15', 3000)]
    if tier == 'search': return [Stream('C15', 20000)]
    # f32 build (thorough tier): correspondence only, the oracle does not judge f32 cases
    return [Stream('C15', 40000), Stream('C15', 12000, release=True), Stream('C15', 6000, f32=True)]

def is_f32(c, st=None):
    """cases of the f32 build carry "f32": true (harness/src/c15.rs); the stream flag says the same"""
    return bool(c.get('f32') or (st is not None and getattr(st, 'f32', False)))

def fls(c, key, st):
    fm = Fmt(is_f32(c, st))
    return [fm.fl(b) for b in c[key]]

def wf(b): return all(finite(x) for x in b) and all(b[k] <= b[3 + k] for k in range(3))

BOX_OPS = ['new', 'from_point', 'from_union', 'from_union_point', 'from_intersection', 'overlaps', 'point_inside',
           'point_inside_exclusive', 'max_extent', 'surface_area']
KINDS = {1: 'transform_bbox', 2: 'triangle', 3: 'sphere', 4: 'cylinder'}

def classify(c, st):
    k, op = c['kind'], c['op']
    key = (k, op, tuple(c['in']))
    if k == 0:
        i = fls(c, 'in', st)
        triv = op in (1, 8, 9) or (op >= 2 and not wf(i[:6])) or (op in (2, 4, 5) and not wf(i[6:12]))
        return key, triv, BOX_OPS[op] + (':ill-formed' if (op >= 2 and triv and op not in (8, 9)) else '')
    if k == 1: return key, False, 'transform_bbox' if op == 0 else 'inv_transform_bbox'
    return key, not c['out'], '%s%d%s/hits=%d' % (KINDS[k], op, '' if c['out'] else ':panic', min(len(c.get('hits', [])), 9))

def describe(c, st):
    k, op = c['kind'], c['op']
    d = dict(kind=(BOX_OPS[op] if k == 0 else KINDS[k] + str(op)), inputs=[hexf(x) for x in fls(c, 'in', st)][:12],
             out=[hexf(x) for x in fls(c, 'out', st)])
    if c.get('hits'): d['n_hits'] = len(c['hits'])
    return d

def Q3(v): return [Fr(x) for x in v]
def inside(bb, p, tol=(0, 0, 0)):
    return all(Fr(bb[k]) - tol[k] <= p[k] <= Fr(bb[3 + k]) + tol[k] for k in range(3))
def contains_box(outer, inner): return all(outer[k] <= inner[k] and inner[3 + k] <= outer[3 + k] for k in range(3))

def M3(v): return [[Fr(v[4 * r + c]) for c in range(4)] for r in range(3)]
def apt(m, p): return [sum(m[r][k] * p[k] for k in range(3)) + m[r][3] for r in range(3)]

def sample_points(lo, hi, seed):
    pts = []
    for mask in range(8): pts.append([hi[k] if (mask >> k) & 1 else lo[k] for k in range(3)])
    mid = [(lo[k] + hi[k]) / 2 for k in range(3)]
    pts.append(mid)
    for k in range(3):
        for e in (lo, hi):
            p = list(mid); p[k] = e[k]; pts.append(p)
    h = hashlib.sha256(repr(seed).encode()).digest()
    for j in range(6):
        w = [Fr(h[3 * j + k], 255) for k in range(3)]
        pts.append([lo[k] + (hi[k] - lo[k]) * w[k] for k in range(3)])
    return pts

def box_image_check(m, src, dst, seed, what):
    """every sampled point of [src] maps into [dst] up to the rounding of the corner images"""
    lo, hi = Q3(src[:3]), Q3(src[3:])
    mag = [sum(abs(m[r][k]) * max(abs(lo[k]), abs(hi[k])) for k in range(3)) + abs(m[r][3]) for r in range(3)]
    tol = [8 * U * g for g in mag]
    for p in sample_points(lo, hi, seed):
        q = apt(m, p)
        if not inside(dst, q, tol):
            return ('C15:' + what, 'the image %r of the point %r of the box %r lies outside %r'
                    % ([float(x) for x in q], [float(x) for x in p], src, dst))
    return None

def oracle(c, st):
    # f32 build: correspondence only (the rounding allowances 8u / 16u below are written with u = 2^-53)
    if is_f32(c, st): return None
    k, op = c['kind'], c['op']
    i, o = fls(c, 'in', st), fls(c, 'out', st)
    if not all(finite(x) for x in i): return None
    if k == 0:
        if op == 0:
            for a in range(3):
                if o[a] != min(i[a], i[3 + a]) or o[3 + a] != max(i[a], i[3 + a]) or not (o[a] <= o[3 + a]):
                    return ('C15:new', 'BBox3D::new does not normalise axis %d: %r' % (a, o))
            return None
        if op == 1:
            return None if o[:3] == i[:3] and o[3:] == i[:3] else ('C15:from_point', 'from_point is not the degenerate box of the point')
        b1 = i[:6]
        if not wf(b1):
            # an inverted box (min > max on some axis: the empty set, e.g. the "intersection" of two disjoint boxes or an
            # accumulator started at +inf/-inf) has no points to keep, but the point it is grown by must be in the result
            if op == 3 and not inside(o, Q3(i[6:9])):
                return ('C15:union-point', 'from_union_point(%r, %r) = %r does not contain the point' % (b1, i[6:9], o))
            return None
        if op in (2, 4, 5):
            b2 = i[6:12]
            if not wf(b2): return None
            common = all(max(b1[a], b2[a]) <= min(b1[3 + a], b2[3 + a]) for a in range(3))
            if op == 2:
                if not (contains_box(o, b1) and contains_box(o, b2)): return ('C15:union', 'from_union(%r, %r) = %r does not contain both' % (b1, b2, o))
            elif op == 4:
                if not (contains_box(b1, o) and contains_box(b2, o)) and common:
                    return ('C15:intersection', 'from_intersection(%r, %r) = %r is not contained in both' % (b1, b2, o))
                if common and not wf(o): return ('C15:intersection', 'operands share a point but from_intersection is ill formed: %r' % (o,))
            else:
                if o[0] != o[1]: return ('C15:overlaps-symmetry', 'a.overlaps(b) != b.overlaps(a) for %r, %r' % (b1, b2))
                if (o[0] == 1.0) != common: return ('C15:overlaps', 'overlaps(%r, %r) = %r but a common point %s' % (b1, b2, o[0], 'exists' if common else 'does not exist'))
            return None
        if op in (3, 6, 7):
            p = i[6:9]
            if op == 3:
                if not (contains_box(o, b1) and inside(o, Q3(p))): return ('C15:union-point', 'from_union_point(%r, %r) = %r misses an operand' % (b1, p, o))
            elif op == 6:
                e = all(b1[a] <= p[a] <= b1[3 + a] for a in range(3))
                if (o[0] == 1.0) != e: return ('C15:point-inside', 'point_inside(%r, %r) = %r' % (b1, p, o[0]))
            else:
                e = all(b1[a] <= p[a] < b1[3 + a] for a in range(3))
                if (o[0] == 1.0) != e: return ('C15:point-inside-exclusive', 'point_inside_exclusive(%r, %r) = %r' % (b1, p, o[0]))
        return None
    if not all(finite(x) for x in o): return None
    if k == 1:
        m = M3(i[0:16] if op == 0 else i[16:32])
        if [Fr(x) for x in (i[12:16] if op == 0 else i[28:32])] != [0, 0, 0, 1]: return None
        src = [min(i[32 + a], i[35 + a]) for a in range(3)] + [max(i[32 + a], i[35 + a]) for a in range(3)]
        return box_image_check(m, src, o, tuple(c['in']), 'transform-bbox')
    if not o: return None                                        # constructor refused the arguments
    lb, wb = o[:6], o[6:12]
    if not wf(lb): return ('C15:local-bounds', 'bounds() is not a well-formed box: %r' % (lb,))
    tr = fls(c, 'tr', st) if c.get('tr') else None
    # ---- local bounds contain exact surface points
    if k == 2:
        a, b, cc = Q3(i[0:3]), Q3(i[3:6]), Q3(i[6:9])
        for (wa, wb_, wc) in ((1, 0, 0), (0, 1, 0), (0, 0, 1), (Fr(1, 2), Fr(1, 2), 0), (0, Fr(1, 2), Fr(1, 2)), (Fr(1, 2), 0, Fr(1, 2)), (Fr(1, 3), Fr(1, 3), Fr(1, 3)), (Fr(1, 7), Fr(2, 7), Fr(4, 7))):
            p = [wa * a[t] + wb_ * b[t] + wc * cc[t] for t in range(3)]
            if not inside(lb, p): return ('C15:triangle-bounds', 'the point %r of the triangle is outside bounds() = %r' % ([float(x) for x in p], lb))
        local_scale = [max(abs(Fr(lb[t])), abs(Fr(lb[3 + t]))) for t in range(3)]
    else:
        if k == 4 and op == 1:
            r_ = Fr(i[0]); zlo, zhi = Fr(lb[2]), Fr(lb[5]); phi = Fr(360)      # axis form: z range = [0, |p1-p0|] as stored
            if zlo != 0: return ('C15:cylinder-bounds', 'Cylinder3D::new: bounds().min.z = %r, expected 0' % lb[2])
        else:
            r_ = Fr(i[0]); phi = Fr(i[3])
            if k == 3 and op == 1: zlo, zhi, phi = -r_, r_, Fr(360)
            elif k == 3: zlo, zhi = max(Fr(i[1]), -r_), min(Fr(i[2]), r_)
            else: zlo, zhi = Fr(i[1]), Fr(i[2])
        if r_ <= 0 or zlo > zhi: return None
        # largest squared distance from the axis of a surface point
        if k == 3:
            zz = 0 if zlo <= 0 <= zhi else min(abs(zlo), abs(zhi))
            rho2 = r_ * r_ - zz * zz
        else:
            rho2 = r_ * r_
        if Fr(lb[2]) > zlo or Fr(lb[5]) < zhi: return ('C15:%s-bounds' % KINDS[k], 'z range [%r,%r] of the surface outside bounds() = %r' % (float(zlo), float(zhi), lb))
        need = [(3, +1, 0)]                                              # phi = 0: (rho, 0, z)
        if phi >= 90: need.append((4, +1, 90))
        if phi >= 180: need.append((0, -1, 180))
        if phi >= 270: need.append((1, -1, 270))
        for idx, sgn, ang in need:
            v = Fr(lb[idx])
            if sgn * v < 0 or v * v < rho2:
                return ('C15:%s-bounds' % KINDS[k], 'the surface point at phi = %d deg (distance^2 %r from the axis) is outside bounds() = %r' % (ang, float(rho2), lb))
        if not (Fr(lb[1]) <= 0 <= Fr(lb[4])): return ('C15:%s-bounds' % KINDS[k], 'y = 0 outside bounds() = %r' % (lb,))
        local_scale = [max(abs(Fr(lb[t])), abs(Fr(lb[3 + t]))) for t in range(3)]
    # ---- world bounds = image of the local bounds
    if tr is None:
        if wb != lb: return ('C15:world-bounds', 'no transform attached but world_bounds() %r != bounds() %r' % (wb, lb))
        m = [[Fr(int(r == cidx)) for cidx in range(4)] for r in range(3)]
    else:
        if [Fr(x) for x in tr[12:16]] != [0, 0, 0, 1]: return None
        m = M3(tr[:16])
        f = box_image_check(m, lb, wb, tuple(c['in']), 'world-bounds')
        if f: return f
    # ---- hits
    for h in c.get('hits', []):
        fm = Fmt(is_f32(c, st))
        p = [fm.fl(b) for b in h['p']]; ho = [fm.fl(b) for b in h['o']]
        if not all(finite(x) for x in p + ho): continue
        P = Q3(p)
        if k == 2:
            # p = o + d t, rounded: magnitudes |o| and |p - o| enter; t itself (and the accepted barycentric coordinates) carry
            # the rounding of the Moller-Trumbore quotients, amplified by kappa = 1 + |d| |e1| |e2| / |det[e1, d, e2]| (1-norms, exact)
            hd = Q3([fm.fl(b) for b in h['d']])
            e1 = [b[t] - a[t] for t in range(3)]; e2 = [cc[t] - a[t] for t in range(3)]
            det = abs(e1[0] * (hd[1] * e2[2] - hd[2] * e2[1]) + e1[1] * (hd[2] * e2[0] - hd[0] * e2[2]) + e1[2] * (hd[0] * e2[1] - hd[1] * e2[0]))
            if det == 0: continue
            kappa = 1 + sum(map(abs, hd)) * sum(map(abs, e1)) * sum(map(abs, e2)) / det
            base = [kappa * (abs(Fr(ho[t])) + abs(P[t] - Fr(ho[t])) + local_scale[t]) for t in range(3)]
        else:
            base = [max(local_scale)] * 3          # re-projected onto the radius: magnitude r
        if h['space'] == 'local':
            tol = [16 * U * g for g in base]
            if not inside(lb, P, tol):
                return ('C15:hit-outside-local-bounds:' + KINDS[k], '%s reported the hit %r outside bounds() = %r (ray origin %r)' % (h['via'], p, lb, ho))
        else:
            mag = [sum(abs(m[r][t]) * local_scale[t] for t in range(3)) + abs(m[r][3]) for r in range(3)]
            if k == 2: mag = [mag[t] + base[t] for t in range(3)]
            tol = [16 * U * g for g in mag]
            if not inside(wb, P, tol):
                return ('C15:hit-outside-world-bounds:' + KINDS[k], '%s reported the hit %r outside world_bounds() = %r (ray origin %r)' % (h['via'], p, wb, ho))
    return None

def replay_args(c):
    return [str(c['kind']), str(c['op'])] + [str(b) for b in c['in']]
