"""C19: segment, triangle and vector predicates agree with exact geometry.

The oracle is the property itself, evaluated in exact rational arithmetic on the implementation's
inputs and outputs.  It only judges configurations AWAY from the documented tolerances (1e-5 for
compare / is_collinear / is_parallel, 100 eps for is_zero and the barycentric bands, 1e-8 for the
crossing window): every decision below is three-valued (True / False / None = too close to call),
and a case is flagged only when exact geometry gives a definite answer that the code contradicts.
"""
import math
from fractions import Fraction as Fr
from props import Stream
from fx import *

LEVEL = 'proof'
RULE = ('one SplitMix64 state; 40% segment pairs (coplanar crossing/non-crossing with parameters incl. 0, 1, 1e-8, 1-1e-8 +- ulps; '
        'skew lifted by 1e-17..10 along the normal and tilted; parallel/antiparallel/nearly parallel; collinear overlapping; common '
        'end points (bitwise); T contacts; short edges at small angles; small-integer grid; random) x 1e-16-level noise in every '
        'component x random or axis-aligned frames x origins up to 1e3; each pair runs get_intersection_pt (both orders), intersect, '
        'touches, contains, compare, contains_point, midpoint, length, as_vector3d; 30% triangles (generic, needle, grid, two-equal, '
        'collinear classes) with a query point at a vertex / on an edge / inside / outside / +-1e-15 around the 100 eps bands / off '
        'the plane, running new, area, normal, circumradius, circumcenter, aspect_ratio, centroid, test_point, edge lookup, has_vertex, '
        'compare, vertex, segment, bounds; 20% one of 21 vector/point functions or operator packs with inputs around every threshold; 10% '
        'sphere/cylinder/disk/box constructors + area (valid and panicking arguments); recorded findings first. non-trivial = not a '
        'pure operator case; distinct = distinct (kind, op, input bits); thorough tier: also 8000 cases of the f32 build (correspondence only, no oracle)')
ASSUMPTIONS = [
    'Coq 8.16.1 kernel + vm_compute; theorems are about the real-number instance of the model (exact tier), each with its tolerance written in',
    'model = code: point3d.rs, vector3d.rs, segment3d.rs, triangle3d.rs (non-ray part), bbox3d.rs (new/surface_area/max_extent) and the '
    'constructor-to-area paths of sphere3d.rs, cylinder3d.rs, disk3d.rs are libm-free and are compared bit for bit on primitive floats',
    'f32 build (thorough tier): the same runner text instantiated on the binary32 instance (module C19f32 of Run/C19.v on NumF32fast, proved equal to the '
    'Flocq-rounded NumF32 in Run/FastNum32Proof.v) against the harness built with --features float, bit for bit; the f32 generator draws axis-aligned frames 80% '
    'of the time, origins to 10, noise and neighbour steps in binary32 ulps, bands at 100 x 2^-23 (finding F15: the absolute 1e-7..1e-5 tolerances sit inside binary32 '
    'rounding noise for oblique metre-scale inputs); CORRESPONDENCE ONLY: the exact-rational oracle does not judge f32 cases',
    'float evaluation vs exact evaluation away from the tolerances is sampled by the exact-rational oracle (1e-9 relative, scaled by the '
    'conditioning of Heron / circumcentre / 2x2 solves), not proved',
    'the closed-form area theorems are definitional (formula read off the code, specialised to 4 pi r^2, 2 pi r h, pi r^2, 2(ab+bc+ca))',
    'C19_pinned_* theorems are about get_intersection_pt BEFORE fix ec384e6 (Model/PinnedSegment.v): the record of finding F5',
]
THEOREMS = ['C19_is_zero_and_compare_spec', 'C19_operator_identities', 'C19_length_distance_normalize', 'C19_is_parallel_spec',
            'C19_is_same_direction_spec', 'C19_get_perpendicular_spec', 'C19_is_collinear_spec',
            'C19_collinear_measure_is_distance_times_length', 'C19_segment_skew_never_reported',
            'C19_segment_parameters_solve_projection', 'C19_segment_points_coincide_iff_coplanar', 'C19_segment_parameters_complete',
            'C19_segment_reported_iff', 'C19_segment_intersect_touches_spec', 'C19_segment_endpoint_contact',
            'C19_segment_touch_is_common_point', 'C19_segment_common_start_touches', 'C19_segment_contains_spec',
            'C19_segment_contains_point_exact', 'C19_segment_short_edges_crossing_missed_refuted', 'C19_pinned_segment_characterised',
            'C19_pinned_segment_skew_reported_as_crossing_refuted', 'C19_pinned_segment_common_start_class_refuted',
            'C19_pinned_agrees_outside_known_classes', 'C19_float_witnesses_refuted', 'C19_barycentric_projection',
            'C19_barycentric_in_plane', 'C19_test_point_spec', 'C19_triangle_new_spec', 'C19_heron_is_half_cross',
            'C19_normal_unit_right_handed', 'C19_circumcenter_circumradius_spec', 'C19_centroid_aspect_ratio_spec',
            'C19_triangle_lookup_spec', 'C19_sphere_area', 'C19_cylinder_area', 'C19_disk_area', 'C19_box_area']

def streams(tier):
    if tier == 'quick': return [Stream('C19', 2600)]
    if tier == 'search': return [Stream('C19', 12000)]
    # f32 build (thorough tier): correspondence only, the oracle does not judge f32 cases
    return [Stream('C19', 40000), Stream('C19', 12000, release=True), Stream('C19', 8000, f32=True)]

def is_f32(c, st=None):
    """cases of the f32 build carry "f32": true (harness/src/c19.rs); the stream flag says the same"""
    return bool(c.get('f32') or (st is not None and getattr(st, 'f32', False)))

EPS = 2.0 ** -52
TINY = Fr(100 * EPS)
E5 = Fr(1e-5)            # the f64 constants the code compares against
E8 = Fr(1e-8)
ONE_M_E8 = Fr(1.0 - 1e-8)
REL = Fr(1, 10 ** 9)
# segments are called skew when their supporting lines are at least this far apart: since fix ec384e6 the code's documented
# coplanarity tolerance is |delta . n| <= 1e-5 |n| (COPLANAR_TINY), so twice that is clear of it.  (Before the fix the
# code had no coplanarity tolerance at all and 1e-6 was used here: finding F5, now "fixed" in known_findings.json.)
SKEW_MIN = Fr(2e-5)
STATS = {}
def stat(k): STATS[k] = STATS.get(k, 0) + 1

def vals(c, st):
    fm = Fmt(is_f32(c, st))
    return [fm.fl(b) for b in c['in']], [fm.fl(b) for b in c['out']]

def classify(c, st):
    k = c['kind']
    if k in ('vec', 'area'):
        return (k, c['op'], tuple(c['in'])), (k == 'vec' and c['op'] in (0, 1, 2, 3, 14, 15, 19, 20)), '%s%d' % (k, c['op'])
    return (k, tuple(c['in'])), False, '%s:%s' % (k, c.get('cls', '?'))

def describe(c, st):
    i, o = vals(c, st)
    d = dict(kind=c['kind'], inputs=[hexf(x) for x in i], out=[hexf(x) for x in o])
    if 'op' in c: d['op'] = c['op']
    if 'cls' in c: d['cls'] = c['cls']
    return d

def replay_args(c):
    return [c['kind'], str(c.get('op', 0))] + [str(b) for b in c['in']]

# ---------------------------------------------------------------- exact vector helpers
def V(l, o): return (Fr(l[o]), Fr(l[o + 1]), Fr(l[o + 2]))
def add(a, b): return (a[0] + b[0], a[1] + b[1], a[2] + b[2])
def sub(a, b): return (a[0] - b[0], a[1] - b[1], a[2] - b[2])
def mul(a, s): return (a[0] * s, a[1] * s, a[2] * s)
def dot(a, b): return a[0] * b[0] + a[1] * b[1] + a[2] * b[2]
def cross(a, b): return (a[1] * b[2] - a[2] * b[1], a[2] * b[0] - a[0] * b[2], a[0] * b[1] - a[1] * b[0])
def n2(a): return dot(a, a)
def amax(*vs): return max(abs(x) for v in vs for x in v)
def fsqrt(q): return math.sqrt(float(q)) if q > 0 else 0.0

def and3(*xs):
    if any(x is False for x in xs): return False
    if all(x is True for x in xs): return True
    return None
def or3(*xs):
    if any(x is True for x in xs): return True
    if all(x is False for x in xs): return False
    return None

def lt_thr(x, thr, margin):
    """x < thr decided with a margin: True / False / None"""
    if x < thr - margin: return True
    if x > thr + margin: return False
    return None

def cmp3(a, b):
    """Point3D::compare away from its 1e-5 threshold (the differences are formed in floating point)"""
    m = Fr(1e-11) + Fr(4 * EPS) * amax(a, b)
    return and3(*[lt_thr(abs(a[k] - b[k]), E5, m) for k in range(3)])

def tiny3(a):
    """is_zero: exact float comparisons of the inputs themselves, nothing is rounded"""
    return all(abs(x) < TINY for x in a)

def collinear3(a, b, c):
    """Point3D::is_collinear(a; b, c) -> 'err' / True / False / None"""
    ab, ac, bc = cmp3(a, b), cmp3(a, c), cmp3(b, c)
    both = and3(ab, ac)
    if both is True: return 'err'
    if both is None: return None
    anyeq = or3(ab, ac, bc)
    if anyeq is True: return True
    if anyeq is None: return None
    u, v = sub(b, a), sub(c, b)
    m2 = n2(cross(u, v))                       # (distance x length)^2
    m = 1e-11 + 64 * EPS * (float(amax(a, b, c)) + 1) * (fsqrt(n2(u)) + fsqrt(n2(v)))
    lo, hi = max(1e-5 - m, 0.0), 1e-5 + m
    if m2 < Fr(lo) ** 2: return True
    if m2 > Fr(hi) ** 2: return False
    return None

def close(x, exact, mag, tol=REL):
    return abs(Fr(x) - exact) <= tol * (1 + mag)

def vclose(out, exact, mag, tol=REL):
    return all(close(out[k], exact[k], mag[k] if isinstance(mag, (list, tuple)) else mag, tol) for k in range(len(exact)))

# ---------------------------------------------------------------- vectors / points
def oracle_vec(op, i, o):
    if not all(finite(x) and abs(x) < 1e100 for x in i): return None
    a, b, c, s = V(i, 0), V(i, 3), V(i, 6), Fr(i[9])
    bad = lambda what: ('C19:vector:' + what, 'op %d: result differs from the exact value' % op)
    absv = lambda v: tuple(abs(x) for x in v)
    if op == 0: return None if vclose(o, add(a, b), add(absv(a), absv(b))) else bad('add')
    if op == 1: return None if vclose(o, sub(a, b), add(absv(a), absv(b))) else bad('sub')
    if op == 2: return None if vclose(o, mul(a, s), absv(mul(a, s))) else bad('scale')
    if op == 3:
        if s == 0 or abs(s) < Fr(1e-100): return None
        return None if vclose(o, mul(a, 1 / s), absv(mul(a, 1 / s))) else bad('div')
    if op == 4: return None if close(o[0], dot(a, b), dot(absv(a), absv(b))) else bad('dot')
    if op == 5:
        e = cross(a, b); m = cross(absv(a), absv(b)); m = tuple(abs(a[(k + 1) % 3] * b[(k + 2) % 3]) + abs(a[(k + 2) % 3] * b[(k + 1) % 3]) for k in range(3))
        if not vclose(o, e, m): return bad('cross')
        # perpendicular to both factors (exactly so for the exact product; the computed one within rounding)
        return None
    if op in (6, 17):
        l2 = n2(a) if op == 6 else n2(sub(a, b))
        if l2 < Fr(1e-200): return None
        return None if abs(Fr(o[0]) ** 2 - l2) <= 4 * REL * l2 and o[0] >= 0 else bad('length')
    if op in (7, 16):
        l2 = n2(a) if op == 7 else n2(sub(a, b))
        mag = l2 if op == 7 else n2(add(absv(a), absv(b)))
        return None if close(o[0], l2, mag) else bad('length_squared')
    if op == 8:
        l2 = n2(a)
        if l2 < Fr(1e-200) or l2 > Fr(1e200): return None
        for w in (o[0:3], o[3:6]):
            w = V(w, 0)
            if abs(n2(w) - 1) > 4 * REL: return ('C19:vector:normalize', 'normalised vector is not of unit length')
            if n2(cross(w, a)) > 16 * REL * REL * l2 or dot(w, a) <= 0: return ('C19:vector:normalize', 'normalised vector does not point along the input')
        return None
    if op == 9:
        return None if (o[0] == 1.0) == tiny3(a) else ('C19:vector:is_zero', 'is_zero disagrees with |component| < 100 eps')
    if op == 10:
        e = cmp3(a, b)
        return None if e is None or e == (o[0] == 1.0) else ('C19:vector:compare', 'compare disagrees with |difference| < 1e-5 (away from the threshold)')
    if op in (11, 12):
        if tiny3(a) or tiny3(b): e = False
        else:
            ab2 = float(n2(a) * n2(b))
            par = lt_thr(n2(cross(a, b)), E5, Fr(1e-14) + Fr(64 * EPS * ab2))
            if op == 11: e = par
            else:
                d = dot(a, b)
                pos = True if d > Fr(64 * EPS * math.sqrt(ab2)) else False if d < -Fr(64 * EPS * math.sqrt(ab2)) else None
                e = and3(par, pos)
        return None if e is None or e == (o[0] == 1.0) else ('C19:vector:is_parallel' if op == 11 else 'C19:vector:is_same_direction',
                                                            'disagrees with |a x b|^2 < 1e-5 (and a.b > 0) away from the thresholds')
    if op == 13:
        err = all(abs(x) <= TINY for x in a)
        if err != (o[0] == 0.0): return ('C19:vector:get_perpendicular', 'Err is returned exactly when every component is <= 100 eps')
        if err: return None
        w = V(o, 1)
        if abs(n2(w) - 1) > 4 * REL: return ('C19:vector:get_perpendicular', 'result is not of unit length')
        if dot(w, a) ** 2 > 16 * REL * REL * n2(a): return ('C19:vector:get_perpendicular', 'result is not perpendicular to the input')
        return None
    if op == 14: return None if vclose(o, mul(a, -1), absv(a), Fr(0)) else bad('neg')
    if op == 15: return None if vclose(o, absv(a), absv(a), Fr(0)) else bad('abs')
    if op == 18:
        e = collinear3(a, b, c)
        if e is None: return None
        got = 'err' if o[0] == 0.0 else (o[1] == 1.0)
        return None if got == e else ('C19:point:is_collinear', 'is_collinear returned %r, exact geometry (distance x length vs 1e-5) gives %r' % (got, e))
    if op == 19:
        m = add(absv(a), absv(b))
        ok = (vclose(o[0:3], add(a, b), m) and vclose(o[3:6], sub(a, b), m) and vclose(o[6:9], sub(a, b), m) and vclose(o[9:12], mul(a, s), absv(mul(a, s)))
              and (abs(s) < Fr(1e-100) or vclose(o[12:15], mul(a, 1 / s), absv(mul(a, 1 / s)))) and vclose(o[15:18], add(a, b), m)
              and all(close(o[k], dot(a, b), dot(absv(a), absv(b))) for k in (18, 19, 20)) and (o[22] == 1.0) == tiny3(a)
              and all(Fr(o[23 + 3 * j + k]) == a[k] for j in range(3) for k in range(3)))
        e = cmp3(a, b)
        return None if ok and (e is None or e == (o[21] == 1.0)) else bad('point-operators')
    if op == 20:
        m = add(absv(a), absv(b)); sc = mul(a, s); dv = None if abs(s) < Fr(1e-100) else mul(a, 1 / s)
        ok = (vclose(o[0:3], add(a, b), m) and vclose(o[3:6], sub(a, b), m) and vclose(o[6:9], sc, absv(sc)) and (dv is None or vclose(o[9:12], dv, absv(dv)))
              and vclose(o[12:15], add(a, b), m) and vclose(o[15:18], add(a, b), m) and vclose(o[18:21], sub(a, b), m) and vclose(o[21:24], sc, absv(sc))
              and (dv is None or vclose(o[24:27], dv, absv(dv))))
        return None if ok else bad('assign-operators')
    return None

# ---------------------------------------------------------------- segments
def line_params(s0, a, r0, b, n, N2):
    """parameters of the mutually closest points of the two supporting lines (exact)"""
    w = sub(r0, s0)
    return dot(cross(w, b), n) / N2, dot(cross(w, a), n) / N2

def window(t, lo, hi, m, lo_closed=True, hi_closed=True):
    """t in [lo, hi] (or half open) with margin m: True / False / None"""
    if lo + m <= t <= hi - m: return True
    if t <= lo - m or t >= hi + m: return False
    return None

def oracle_seg(c, i, o):
    if not all(finite(x) for x in i): return None
    s0, s1, r0, r1, p = V(i, 0), V(i, 3), V(i, 6), V(i, 9), V(i, 12)
    a, b = sub(s1, s0), sub(r1, r0)
    A2, B2 = n2(a), n2(b)
    scale = 1 + float(amax(s0, s1, r0, r1))
    # --- plain accessors
    if not vclose(o[19:22], mul(add(s0, s1), Fr(1, 2)), scale): return ('C19:segment:midpoint', 'midpoint is not the mean of the end points')
    if abs(Fr(o[22]) ** 2 - A2) > 4 * REL * (A2 + Fr(1e-300)) or abs(Fr(o[29]) ** 2 - B2) > 4 * REL * (B2 + Fr(1e-300)): return ('C19:segment:length', 'length')
    if not (vclose(o[23:26], a, scale) and vclose(o[26:29], mul(a, -1), scale)): return ('C19:segment:as_vector', 'as_vector3d / as_reversed_vector3d')
    e = or3(and3(cmp3(s0, r0), cmp3(s1, r1)), and3(cmp3(s1, r0), cmp3(s0, r1)))
    if e is not None and e != (o[16] == 1.0): return ('C19:segment:compare', 'compare disagrees with the end points being within 1e-5 (either order)')
    if A2 < Fr(1e-8) or B2 < Fr(1e-8): return None
    la, lb = fsqrt(A2), fsqrt(B2)
    r = oracle_contains(i, o, s0, s1, r0, r1, p, a, A2, la, scale)
    if r: return r
    # --- the pair
    n = cross(a, b); N2 = n2(n)
    sin2 = N2 / (A2 * B2)
    delta = sub(s0, r0)
    trip = dot(delta, n)
    gip = (o[1], o[2]) if o[0] == 1.0 else None
    inter, touch = o[6] == 1.0, o[10] == 1.0
    if inter and not touch: return ('C19:segment:intersect-without-touch', 'intersect is true but touches is false')
    if (inter or touch) and gip is None: return ('C19:segment:inconsistent', 'intersect/touches true although get_intersection_pt is None')
    if sin2 <= Fr(1, 10 ** 24):
        # exactly (or to rounding) parallel: never a crossing
        if inter or touch: return ('C19:segment:parallel-reported-as-crossing', 'parallel segments reported as crossing/touching')
        return None
    if sin2 < Fr(1, 10 ** 6): return None           # nearly parallel: conditioning too poor to judge
    sin = fsqrt(sin2)
    d2 = trip * trip / N2                           # squared distance between the supporting lines
    skew = d2 >= SKEW_MIN ** 2
    if skew:
        stat('seg:skew-judged')
        if inter or touch:
            ta, tb = Fr(gip[0]), Fr(gip[1])
            gap = fsqrt(n2(sub(add(s0, mul(a, ta)), add(r0, mul(b, tb)))))
            return ('C19:segment:skew-reported-as-crossing',
                    'segments on skew lines %.3g apart are reported as %s at (%.6g, %.6g, %.6g); the reported parameters locate two points %.3g apart'
                    % (fsqrt(d2), 'crossing' if inter else 'touching', o[7 if inter else 11], o[8 if inter else 12], o[9 if inter else 13], gap))
        return None
    coplanar = d2 <= Fr(4 * EPS * scale) ** 2
    if not coplanar: return None
    par_by_tol = lt_thr(N2, E5, Fr(1e-14) + Fr(64 * EPS) * A2 * B2)   # is_parallel's own (absolute) tolerance
    ta, tb = line_params(s0, a, r0, b, n, N2)
    m = Fr(max(1e-12, 64 * EPS * scale / (sin * min(la, lb))))
    # amplification of the residual non-coplanarity by the projection the code may have chosen
    comps = [abs(x) for x in n if abs(x) > Fr(0.9e-5)]
    if comps:
        m += Fr(fsqrt(d2) * fsqrt(N2) / float(min(comps)) / min(la, lb) * 4)
    if m > Fr(1e-9): return None
    exp_inter = and3(window(ta, Fr(0), Fr(1), m), window(tb, E8, ONE_M_E8, m))
    exp_touch = and3(window(ta, Fr(0), Fr(1), m), window(tb, Fr(0), Fr(1), m))
    if par_by_tol is not False:
        # within (or at) the absolute parallelism tolerance: no answer is required ... except far from geometric parallelism (F11)
        if par_by_tol is True and sin2 >= Fr(1, 1000) and dot(a, b) > 0 and exp_inter is True and not inter and not tiny3(a) and not tiny3(b):
            return ('C19:segment:short-edges-crossing-missed',
                    'edges of length %.3g and %.3g at %.1f degrees cross at parameters (%.4f, %.4f) but are treated as parallel (|a x b|^2 = %.3g < 1e-5, absolute tolerance)'
                    % (la, lb, math.degrees(math.asin(min(1.0, sin))), float(ta), float(tb), float(N2)))
        return None
    if max(abs(x) for x in n) <= Fr(1.1e-5): return None      # no projection above the code's 1e-5 threshold
    if delta == (0, 0, 0):
        # common start point, bitwise: exact parameters (0, 0): a touch at the second segment's end point
        if not touch:
            return ('C19:segment:common-start-missed', 'two non-parallel segments that start at the same point (%s) are not reported as touching (get_intersection_pt = %r)'
                    % (', '.join('%.6g' % float(x) for x in s0), gip))
        return None
    if exp_inter is not None: stat('seg:intersect-judged-%r' % exp_inter)
    if exp_touch is not None: stat('seg:touches-judged-%r' % exp_touch)
    if exp_inter is not None and exp_inter != inter:
        return ('C19:segment:crossing-misreported', 'coplanar segments: exact parameters (%.12g, %.12g) => intersect should be %r, reported %r' % (float(ta), float(tb), exp_inter, inter))
    if exp_touch is not None and exp_touch != touch:
        return ('C19:segment:touching-misreported', 'coplanar segments: exact parameters (%.12g, %.12g) => touches should be %r, reported %r' % (float(ta), float(tb), exp_touch, touch))
    if gip is not None and (inter or touch):
        P, Q = add(s0, mul(a, Fr(gip[0]))), add(r0, mul(b, Fr(gip[1])))
        tol = Fr(1e-9 * scale / sin) + m * Fr(max(la, lb))
        if n2(sub(P, Q)) > tol * tol:
            return ('C19:segment:parameters-mismatch', 'reported parameters locate points %.3g apart on coplanar segments' % fsqrt(n2(sub(P, Q))))
        out = V(o, 7 if inter else 11)
        if n2(sub(out, P)) > Fr(1e-9 * scale) ** 2: return ('C19:segment:output-point', 'output point is not start + t_a * direction')
    return None

def oracle_contains(i, o, s0, s1, r0, r1, p, a, A2, la, scale):
    if cmp3(s0, s1) is not False: return None
    online = Fr(1e-9 * scale) ** 2
    def dist2(q):
        w = sub(q, s0)
        return n2(cross(w, a)) / A2
    def param(q): return dot(sub(q, s0), a) / A2
    m6 = Fr(1, 10 ** 6)
    # contains_point
    col = collinear3(p, s0, s1)
    got = None if o[17] == 0.0 else (o[18] == 1.0)
    if col is False:
        if got is not False: return ('C19:segment:contains-point', 'a point clearly off the line (distance x length > 1e-5) is not reported as outside')
    elif col is True and dist2(p) <= online:
        t = param(p)
        k = next((k for k in range(3) if abs(a[k]) > Fr(EPS)), None)
        minor = k is not None and abs(a[k]) * 1000 < Fr(la)
        # a point d off the line has, read along an axis of extent |a_k|, a parameter up to d / |a_k| away from t
        mt = m6 if (minor or k is None) else m6 + 4 * Fr(fsqrt(dist2(p))) / abs(a[k])
        exp = True if mt <= t <= 1 - mt else False if (t <= -mt or t >= 1 + mt) else None
        if exp is not None: stat('seg:contains_point-judged-%r' % exp)
        if exp is not None and got != exp:
            return ('C19:segment:contains-point-noise-axis' if minor else 'C19:segment:contains-point',
                    'point at parameter %.6g of the segment (distance %.3g from its line): contains_point = %r; the parameter was read along axis %s where the segment extends by %.3g of its length %.3g'
                    % (float(t), fsqrt(dist2(p)), got, 'xyz'[k] if k is not None else '-', float(abs(a[k])) if k is not None else 0.0, la))
    # contains
    if A2 < Fr(1e-4) ** 2: return None
    gotc = None if o[14] == 0.0 else (o[15] == 1.0)
    c1 = collinear3(s0, s1, r0)
    if c1 is False:
        if gotc is not False: return ('C19:segment:contains', 'a segment starting clearly off the line is not reported as not contained')
        return None
    c2 = collinear3(s0, s1, r1)
    if c1 is True and c2 is False:
        if gotc is not False: return ('C19:segment:contains', 'a segment ending clearly off the line is not reported as not contained')
        return None
    if c1 is True and c2 is True and dist2(r0) <= online and dist2(r1) <= online and max(abs(x) for x in a) > Fr(2e-6):
        al, be = param(r0), param(r1)
        kc = next(k for k in range(3) if abs(a[k]) > Fr(1e-6))      # the axis the code reads (TINY = 1e-6)
        mc = m6 + 4 * Fr(max(fsqrt(dist2(r0)), fsqrt(dist2(r1)))) / abs(a[kc])
        ins = lambda t: True if mc <= t <= 1 - mc else False if (t <= -mc or t >= 1 + mc) else None
        exp = and3(ins(al), ins(be))
        if exp is not None: stat('seg:contains-judged-%r' % exp)
        if exp is not None and gotc != exp:
            return ('C19:segment:contains', 'collinear segment with parameters (%.6g, %.6g): contains = %r' % (float(al), float(be), gotc))
    return None

# ---------------------------------------------------------------- triangles
PIT = ['VertexA', 'VertexB', 'VertexC', 'EdgeAB', 'EdgeBC', 'EdgeAC', 'Inside', 'Outside']

def expected_pit(al, be, w, m, exact):
    """classification from exact barycentrics.  A coordinate counts as zero only when it IS zero and the input is
    exactly evaluable (a vertex itself, or small-integer grid data); otherwise it must clear the 100 eps band by m."""
    def cls(x):
        if exact and x == 0: return 'z'
        if x > TINY + m: return '+'
        if x < -(TINY + m): return '-'
        return None
    key = (cls(al), cls(be), cls(w))
    if '-' in key: return 'Outside'
    if None in key: return None
    return {('z', 'z', '+'): 'VertexA', ('+', 'z', 'z'): 'VertexB', ('z', '+', 'z'): 'VertexC', ('+', 'z', '+'): 'EdgeAB',
            ('+', '+', 'z'): 'EdgeBC', ('z', '+', '+'): 'EdgeAC', ('+', '+', '+'): 'Inside'}.get(key)

def oracle_tri(c, i, o):
    if not all(finite(x) for x in i): return None
    a, b, cc, p, q, r = V(i, 0), V(i, 3), V(i, 6), V(i, 9), V(i, 12), V(i, 15)
    cls = o[0]
    if cls == 99.0: return ('C19:triangle:new-panics', 'Triangle3D::new panicked')
    ab, ac, bc = cmp3(a, b), cmp3(a, cc), cmp3(b, cc)
    anyeq = or3(ab, ac, bc)
    if anyeq is None: return None
    if anyeq is True:
        return None if cls == 10.0 else ('C19:triangle:new-class', 'two vertices within 1e-5 of each other but new returned class %g' % cls)
    col = collinear3(a, b, cc)
    if col is None: return None
    exp = 11.0 if col is True else 0.0
    if cls != exp: return ('C19:triangle:new-class', 'new returned class %g, exact geometry gives %g' % (cls, exp))
    if cls != 0.0: return None
    e1, e2, e3 = sub(b, a), sub(cc, a), sub(cc, b)
    N = cross(e1, e2); N2 = n2(N)
    x2, y2, z2 = n2(e1), n2(e3), n2(e2)
    scale = 1 + float(amax(a, b, cc))
    lmax = fsqrt(max(x2, y2, z2)); lmin = fsqrt(min(x2, y2, z2))
    # conditioning of everything that divides by |N|: rounding of N relative to |N|
    cond = scale * lmax / fsqrt(N2) + lmax * lmax / fsqrt(N2)
    tol = Fr(1e-9 + 1e-13 * cond)
    if tol > Fr(1, 1000): return None
    # area (Heron): squares compared; Heron's own conditioning is perimeter / min(s - side)
    xs = [fsqrt(x2), fsqrt(y2), fsqrt(z2)]; sp = sum(xs) / 2
    heron_cond = sp / max(min(sp - v for v in xs), 1e-300)
    tol_h = Fr(1e-9 + 1e-14 * heron_cond + 1e-14 * cond)
    if tol_h < Fr(1, 100) and abs(Fr(o[1]) ** 2 - N2 / 4) > 4 * tol_h * N2 / 4:
        return ('C19:triangle:area', 'area %.12g, exact |ab x ac| / 2 = %.12g' % (o[1], fsqrt(N2) / 2))
    nrm = V(o, 2)
    if abs(n2(nrm) - 1) > 4 * REL: return ('C19:triangle:normal', 'normal is not of unit length')
    if dot(nrm, N) <= 0 or n2(cross(nrm, N)) > 16 * tol * tol * N2:
        return ('C19:triangle:normal', 'normal is not (b - a) x (c - a) / |...| (right-handed)')
    # circumcentre / circumradius: exact values
    R2 = x2 * y2 * z2 / (4 * N2)
    O = add(a, mul(add(mul(cross(N, e1), z2), mul(cross(e2, N), x2)), 1 / (2 * N2)))
    Rf = fsqrt(R2)
    tol_c = tol * Fr(1 + (Rf / lmin) ** 2)
    if tol_c < Fr(1, 1000):
        stat('tri:circumcentre-judged')
        oc = V(o, 6)
        if n2(sub(oc, O)) > (tol_c * Fr(Rf + scale)) ** 2:
            return ('C19:triangle:circumcenter', 'circumcenter is %.3g away from the exact one (circumradius %.6g)' % (fsqrt(n2(sub(oc, O))), Rf))
        if abs(Fr(o[5]) ** 2 - R2) > 4 * tol_c * R2: return ('C19:triangle:circumradius', 'circumradius %.12g, exact %.12g' % (o[5], Rf))
        if abs(Fr(o[9]) ** 2 * min(x2, y2, z2) - R2) > 8 * tol_c * R2: return ('C19:triangle:aspect_ratio', 'aspect ratio is not circumradius / shortest edge')
    cen = mul(add(add(a, b), cc), Fr(1, 3))
    if not vclose(o[10:13], cen, scale): return ('C19:triangle:centroid', 'centroid is not the mean of the vertices')
    # test_point
    det = x2 * z2 - dot(e1, e2) ** 2
    pa = sub(p, a)
    l1, l2 = dot(e1, pa), dot(e2, pa)
    al = (z2 * l1 - dot(e1, e2) * l2) / det
    be = (-dot(e1, e2) * l1 + x2 * l2) / det
    w = 1 - al - be
    kappa = (float(x2 * z2 / det)) * (1 + (scale + float(amax(p))) / lmin)
    exact_input = p in (a, b, cc) or (c.get('cls') == 'grid' and all(x.denominator <= 16 and abs(x) <= 64 for v in (a, b, cc, p) for x in v))
    m = Fr(0) if exact_input else Fr(1e-9) + Fr(1e-13 * kappa)
    exp = expected_pit(al, be, w, m, exact_input)
    if exp is not None: stat('tri:test_point-judged-' + exp)
    if exp is not None and PIT[int(o[13])] != exp:
        return ('C19:triangle:test_point', 'test_point = %s, exact barycentric coordinates (%.6g, %.6g, %.6g) give %s' % (PIT[int(o[13])], float(al), float(be), float(w), exp))
    # lookups
    hv = or3(cmp3(a, p), cmp3(b, p), cmp3(cc, p))
    if hv is not None and hv != (o[18] == 1.0): return ('C19:triangle:has_vertex', 'has_vertex disagrees with a vertex being within 1e-5 of the point')
    def segcmp(u0, u1, v0, v1): return or3(and3(cmp3(u0, v0), cmp3(u1, v1)), and3(cmp3(u1, v0), cmp3(u0, v1)))
    e = [segcmp(q, r, a, b), segcmp(q, r, b, cc), segcmp(q, r, cc, a)]
    if None not in e:
        exp_i = next((k for k in range(3) if e[k]), None)
        got_i = int(o[15]) if o[14] == 1.0 else None
        got_j = int(o[17]) if o[16] == 1.0 else None
        if exp_i != got_i or exp_i != got_j: return ('C19:triangle:edge-index', 'edge index %r/%r, expected %r' % (got_i, got_j, exp_i))
    if o[19] == 1.0:
        a2, b2, c2 = V(i, 18), V(i, 21), V(i, 24)
        hv2 = [or3(cmp3(a2, v), cmp3(b2, v), cmp3(c2, v)) for v in (a, b, cc)]
        ex = and3(*hv2)
        if ex is not None and ex != (o[20] == 1.0): return ('C19:triangle:compare', 'compare disagrees with every vertex having a partner within 1e-5')
    for k, v in enumerate((a, b, cc)):
        if o[21 + 4 * k] != 1.0 or V(o, 22 + 4 * k) != v: return ('C19:triangle:vertex', 'vertex(%d)' % k)
    if o[33] != 0.0 or o[40] != 1.0: return ('C19:triangle:vertex', 'vertex(3)/segment(3) must be errors, segment(i) the edges')
    return None

# ---------------------------------------------------------------- areas
PI = Fr(math.pi)
def oracle_area(op, i, o):
    if not all(finite(x) for x in i): return None
    dbg = i[13] == 1.0
    ok = o[0] == 1.0
    def phi_rad(phi): return min(max(Fr(phi), Fr(0)), Fr(360)) * PI / 180
    def chk(area, exact, what):
        if abs(Fr(area) - exact) > REL * (abs(exact) + Fr(1e-300)): return ('C19:area:' + what, '%s area %.15g, closed form %.15g' % (what, area, float(exact)))
        return None
    if op in (0, 1):
        rr = Fr(i[0])
        zmin, zmax, phi = (Fr(i[4]), Fr(i[5]), Fr(i[6])) if op == 0 else (-2 * rr, 2 * rr, Fr(360))
        valid = rr >= 0 and zmin <= zmax and 0 <= phi <= 360
        if not valid: return None
        if not ok: return ('C19:area:sphere-panics', 'sphere constructor/area panicked on valid arguments')
        zc = lambda z: min(max(z, -rr), rr)
        r = chk(o[1], phi_rad(phi) * rr * (zc(zmax) - zc(zmin)), 'sphere')
        if r: return r
        if op == 1: return chk(o[1], 4 * PI * rr * rr, 'full-sphere')
        return None
    if op == 2:
        rr, zmin, zmax, phi = Fr(i[0]), Fr(i[1]), Fr(i[2]), Fr(i[3])
        if not (zmin < zmax and 0 <= phi <= 360): return None
        if not ok: return ('C19:area:cylinder-panics', 'cylinder constructor/area panicked on valid arguments')
        return chk(o[1], (zmax - zmin) * rr * phi_rad(phi), 'cylinder')
    if op == 3:
        p0, p1, rr, phi = V(i, 0), V(i, 3), Fr(i[6]), Fr(i[7])
        h2 = n2(sub(p1, p0))
        if not (h2 > Fr(1e-20) and 0 <= phi <= 360): return None
        if not ok: return ('C19:area:cylinder-panics', 'cylinder constructor/area panicked on valid arguments')
        ex2 = (rr * phi_rad(phi)) ** 2 * h2
        if abs(Fr(o[1]) ** 2 - ex2) > 4 * REL * ex2 or (o[1] < 0) != (rr < 0 and phi > 0): return ('C19:area:cylinder', 'cylinder area %.15g, closed form %.15g' % (o[1], fsqrt(ex2)))
        return None
    if op in (4, 5):
        nrm, rr = V(i, 3), Fr(i[6])
        ri, phi = (Fr(i[7]), Fr(i[11])) if op == 4 else (Fr(0), Fr(360))
        if not ok:
            return None      # the constructor's own checks (parallel phi_zero, radii) and, in debug builds, its debug_assert on rounding
        return chk(o[1], phi_rad(phi) / 2 * (rr * rr - ri * ri), 'disk')
    if op == 6:
        a, b = V(i, 0), V(i, 3)
        d = [abs(b[k] - a[k]) for k in range(3)]
        r = chk(o[0], 2 * (d[0] * d[1] + d[0] * d[2] + d[1] * d[2]), 'box')
        if r: return r
        m = max(d)
        if sorted(d)[1] < m * (1 - REL) and d[int(o[1])] != m: return ('C19:area:max_extent', 'max_extent is not the longest axis')
        if [Fr(x) for x in o[2:5]] != [min(a[k], b[k]) for k in range(3)] or [Fr(x) for x in o[5:8]] != [max(a[k], b[k]) for k in range(3)]:
            return ('C19:area:box-corners', 'BBox3D::new did not sort the corners')
        return None
    return None

def oracle(c, st):
    # f32 build: correspondence only (EPS, TINY, E5, E8, REL above are the binary64 constants and margins)
    if is_f32(c, st): return None
    i, o = vals(c, st)
    if not all(finite(x) for x in o):
        # NaN/inf outputs only arise from degenerate inputs (zero divisors); not judged
        return None
    k = c['kind']
    if k == 'vec': return oracle_vec(c['op'], i, o)
    if k == 'seg': return oracle_seg(c, i, o)
    if k == 'tri': return oracle_tri(c, i, o)
    return oracle_area(c['op'], i, o)
