"""C20: JSON round trip preserves geometry; malformed input is an error, not a panic."""
import json, math
from fractions import Fraction as Fr
from props import Stream
from fx import *
from geo import *
from polyx import *
import pC12

LEVEL = 'proof'
RULE = ('JSON TEXT fed to serde_json::from_str::<Loop3D> / ::<Polygon3D> (and to_string of loops / polygons), the parsed serde_json::Value tree '
        'fed to the model: serialisations of closed loops (3..40 vertices) and of polygons with 0..3 holes of the C04 space (any plane, offsets to '
        '1e3), and malformed documents of every kind (wrong arity, non-numeric elements of 8 sorts, nested arrays, objects, strings, booleans, '
        'numbers, null, too few points, collinear, coincident, non-coplanar, self-crossing, 1e999 / huge / subnormal / big-integer numbers, '
        'syntax errors, unusual spellings), the corpus documents "[1,2]" and "null" first; Point3D / Vector3D round trips (derived impls, no model) '
        'over special and random floats; vertices compared to 4 ulp (float-text precision; the reader is not correctly rounded: drift counted in the buckets); non-trivial = any document but the Point3D/Vector3D ones; distinct = distinct text; thorough tier: also 2000 documents of the f32 build (correspondence only, no oracle)')
ASSUMPTIONS = [
    'Coq 8.16.1 kernel + vm_compute; theorems at the level of serde_json::Value, valid for every number instance of the model',
    'model = code: the Deserialize / Serialize impls of Loop3D and Polygon3D (triple-reading loop, push, close, From<Loop3D>) checked on outcome class and loop state bit for bit',
    'f32 build (thorough tier): the same runner text instantiated on the binary32 instance (module C20f32 of Run/C20.v on NumF32fast, proved equal to the '
    'Flocq-rounded NumF32 in Run/FastNum32Proof.v) against the harness built with --features float, bit for bit; the f32 generator draws 75% coordinate planes, offsets to 8 '
    '(finding F15: the absolute 1e-7 coplanarity tolerance refuses oblique f32 outlines; refusals / Err / panic outcomes are reproduced by the model); the numbers of the Value tree are `as_f64() as Float`, the cast the deserialiser of the crate applies itself; CORRESPONDENCE ONLY: the '
    'exact-rational oracle does not judge f32 cases',
    'serde_json text layer (number printing / parsing, syntax) and the derived impls of Point3D / Vector3D are trusted, exercised by the harness and checked by the oracle',
]
THEOREMS = ['C20_de_loop_never_panics', 'C20_de_poly_never_panics', 'C20_non_array_is_error', 'C20_bad_array_is_error', 'C20_accepted_array_shape',
            'C20_de_poly_is_loop', 'C20_round_trip_clean', 'C20_round_trip_partial', 'C20_round_trip_depends_on_vertices', 'C20_ser_poly_is_merged_outline']

def streams(tier):
    if tier == 'quick': return [Stream('C20', 1200)]
    if tier == 'search': return [Stream('C20', 3000)]
    # f32 build (thorough tier): correspondence only, the oracle does not judge f32 cases
    return [Stream('C20', 6000), Stream('C20', 2000, release=True), Stream('C20', 2000, f32=True)]

def is_f32(c, st=None):
    """cases of the f32 build carry "f32": true (harness/src/polys.rs); the stream flag says the same"""
    return bool(c.get('f32') or (st is not None and getattr(st, 'f32', False)))

def ulps(a, b):
    """distance in units in the last place between two finite doubles (0 for +0 vs -0)"""
    if a == b: return 0
    def key(x):
        u = bits64(x)
        return u if u < (1 << 63) else -(u - (1 << 63))
    return abs(key(a) - key(b))

def drift(c, st):
    """max ulp distance between the serialised numbers and what the reader parsed back (None if not comparable)"""
    if c.get('nums') is None or not c.get('src'): return None
    a = fls(c['nums'], st)
    if c['kind'] == 1:
        b = [x for p in LoopJ(c['src']['loop'], st).v for x in p]
        if len(a) != len(b): return None
        return max([ulps(x, y) for x, y in zip(a, b)] + [0])
    try: py = json.loads(c['text'])
    except Exception: return None
    if len(py) != len(a): return None
    return max([ulps(x, float(y)) for x, y in zip(a, py)] + [0])

def classify(c, st):
    k = c['kind']
    if is_f32(c, st):
        key = ('pv' if k in (7, 8) else 'doc', c['text'])
        return key, k in (7, 8), 'f32:' + ('pv' if k in (7, 8) else 'loop-rt:lo%s' % c.get('lo') if k == 1 else 'poly-rt:po%s' % c.get('po') if k == 2 else c['note'].replace('corpus:', 'corpus-').split(':')[0])
    if k in (7, 8): return ('pv', c['text']), True, 'pv:' + c['note']
    if k in (1, 2):
        d = drift(c, st)
        return ('doc', c['text']), False, ('loop-rt' if k == 1 else 'poly-rt') + (':bitwise' if d == 0 else ':reader-off-by-%s-ulp' % d)
    return ('doc', c['text']), False, c['note'].replace('corpus:', 'corpus-').split(':')[0] + ':' + c['note'].split(':')[-1][:14]

def describe(c, st):
    d = dict(kind=c['kind'], note=c['note'], text=c['text'][:160])
    for k in ('lo', 'po', 'o', 'lmsg'):
        if k in c: d[k] = c[k]
    return d

def strict_value(text):
    """(parsed, ok): Python's strict reading of the document; non-finite / out-of-range numbers make it invalid JSON"""
    bad = []
    def const(x): bad.append(x); return 0.0
    def fl(x):
        v = float(x)
        if not finite(v): bad.append(x)
        return v
    try: v = json.loads(text, parse_constant=const, parse_float=fl)
    except Exception: return None, False
    return v, not bad

def is_num(x): return isinstance(x, (int, float)) and not isinstance(x, bool)

def expect_doc(text):
    """'err' when the document is malformed by the property's definition, 'ok' when it clearly describes a valid planar outline, else None"""
    v, ok = strict_value(text)
    if not ok: return 'err', 'not JSON / number out of range'
    if not isinstance(v, list): return 'err', 'not an array'
    if any(not is_num(x) for x in v): return 'err', 'non-numeric element'
    if len(v) % 3 != 0: return 'err', 'length not a multiple of 3'
    if len(v) < 9: return 'err', 'fewer than 3 points'
    try: f = [float(x) for x in v]
    except OverflowError: return None, 'huge integer'
    if any(not finite(x) or abs(x) > 1e6 or (x != 0 and abs(x) < 1e-6) for x in f): return None, 'extreme numbers'
    p = [tuple(f[i:i + 3]) for i in range(0, len(f), 3)]
    px = [X(q) for q in p]
    n = newell(px)
    if all(len2(cross(sub(px[i + 1], px[i]), sub(px[i + 2], px[i + 1]))) < Fr(1, 10 ** 14) for i in range(len(px) - 2)): return 'err', 'collinear / coincident points'
    pl = None
    for i in range(len(px) - 2):
        nn = cross(sub(px[i + 1], px[i]), sub(px[i + 2], px[i + 1]))
        if len2(nn) > Fr(1, 10 ** 8): pl = (px[i], nn); break
    if pl is None: return None, 'nearly degenerate'
    off = [dot(pl[1], sub(q, pl[0])) ** 2 / len2(pl[1]) for q in px]
    if any(o > Fr(1, 10 ** 8) for o in off): return 'err', 'not coplanar'
    if any(o > Fr(1, 10 ** 18) for o in off): return None, 'coplanarity band'
    ax = dominant_axis(pl[1]); q2 = [proj(q, ax) for q in p]; m = len(q2)
    es = edges(q2)
    clear = True
    for i in range(m):
        for j in range(i + 1, m):
            if j == i + 1 or (i == 0 and j == m - 1):
                continue
            a, b = es[i]; cc, d = es[j]
            if segs_cross(a, b, cc, d):
                pr = seg_params2(*[(Fr(t[0]), Fr(t[1])) for t in (a, b, cc, d)])
                e1 = sub(px[(i + 1) % m], px[i]); e2 = sub(px[(j + 1) % m], px[j]); cr = len2(cross(e1, e2))
                if pr is not None and all(Fr(1, 100) < t < Fr(99, 100) for t in pr) and cr * 10000 > len2(e1) * len2(e2) and cr > Fr(2, 10 ** 5):
                    return 'err', 'self-crossing'
                clear = False
            elif not seg_seg_ge(a, b, cc, d, 1e-4): clear = False
    for i in range(m):
        a, b, cc = px[i - 1], px[i], px[(i + 1) % m]
        if len2(cross(sub(b, a), sub(cc, b))) < Fr(1, 10 ** 8) or len2(sub(b, a)) < Fr(1, 10 ** 4): clear = False
    return ('ok', 'valid outline') if clear else (None, 'unclassified')

TOL = 1e-9
ULP_TOL = 4   # "up to float-text precision": serde_json's default number parser (no `float_roundtrip` feature) is not
              # correctly rounded -- 1 ulp off on about two thirds of the loops, 2 ulp seen at extreme exponents; the
              # drift is reported in the input distribution (buckets `...:reader-off-by-N-ulp`), not as a violation
def same_vertices(a, b):
    return len(a) == len(b) and all(ulps(x, y) <= ULP_TOL for p, q in zip(a, b) for x, y in zip(p, q))

def area_rounding(*loops):
    """allowance for the floating-point shoelace sums the crate evaluates on the stored coordinates (a few ulps of
    sum |v_i| |v_i+1|): it dominates TOL * area for a small outline at an offset of 1e3"""
    import math
    t = 0.0
    for vs in loops:
        m = [math.sqrt(sum(float(x) * float(x) for x in p)) for p in vs]
        t += sum(m[i] * m[(i + 1) % len(m)] for i in range(len(m)))
    return 16 * 2.0 ** -52 * t

def oracle(c, st):
    # f32 build: correspondence only (ulps / drift / area_rounding below work on binary64 patterns)
    if is_f32(c, st): return None
    k = c['kind']
    if k in (7, 8):
        if c['o'] == 99 or c.get('o2') == 99: return ('C20:panic', 'Point3D/Vector3D deserialisation panicked on %s' % c['text'][:80])
        if k == 8 and c['finite']:
            if c['o'] != 0: return ('C20:pv-roundtrip', '%s does not read back: %s' % (c['note'], c['text']))
            a, b = fls(c['orig'], st), fls(c['back'], st)
            if any(ulps(x, y) > ULP_TOL for x, y in zip(a, b)): return ('C20:pv-roundtrip', '%s reads back differently: %s' % (c['note'], c['text']))
        if k == 7:
            v, ok = strict_value(c['text'])
            good = ok and ((isinstance(v, dict) and all(is_num(v.get(x)) for x in 'xyz')) or (isinstance(v, list) and len(v) >= 3 and all(is_num(x) for x in v[:3])))
            if not good and (c['o'] == 0 or c['o2'] == 0): return ('C20:malformed-accepted', 'a malformed Point3D/Vector3D document was accepted: %s' % c['text'])
        return None
    if c['lo'] == 99 or c['po'] == 99:
        return ('C20:panic', 'deserialising %s panicked (%s)' % (c['text'][:60], c['lmsg'][:80] or c['pmsg'][:80]))
    if k in (0, 9):
        want, why = expect_doc(c['text'])
        if want == 'err' and (c['lo'] == 0 or c['po'] == 0):
            return ('C20:malformed-accepted', 'a malformed document (%s) was accepted: %s' % (why, c['text'][:80]))
        if want == 'ok':
            if c['lo'] != 0 or c['po'] != 0: return ('C20:valid-refused', 'a document describing a valid planar outline was refused (classes %d / %d): %s' % (c['lo'], c['po'], c['text'][:80]))
            f = [float(x) for x in json.loads(c['text'])]
            p = [tuple(f[i:i + 3]) for i in range(0, len(f), 3)]
            if not same_vertices(LoopJ(c['loop'], st).v, p): return ('C20:vertices', 'the loop read from a valid document does not have the document\'s vertices')
        return None
    src = c['src']
    L = LoopJ(src['loop'], st)
    if k == 1:
        if c['lo'] != 0 or c['po'] != 0: return ('C20:roundtrip-refused', 'the serialisation of a valid closed loop does not read back (classes %d / %d)' % (c['lo'], c['po']))
        R = LoopJ(c['loop'], st)
        if not same_vertices(R.v, L.v): return ('C20:roundtrip-vertices', 'round trip changed the vertices (%d -> %d, beyond 4 ulp)' % (len(L.v), len(R.v)))
        if not R.closed: return ('C20:roundtrip-open', 'the loop read back is not closed')
        if abs(R.ap[0] - L.ap[0]) > TOL * max(L.ap[0], 1e-6) + area_rounding(L.v, R.v): return ('C20:roundtrip-area', 'area %r read back as %r' % (L.ap[0], R.ap[0]))
        if max(abs(x - y) for x, y in zip(R.n, L.n)) > TOL: return ('C20:roundtrip-normal', 'normal %r read back as %r' % (L.n, R.n))
        P = c['poly']; PL = LoopJ(P['outer'], st)
        if P['ninner'] != 0 or not same_vertices(PL.v, L.v) or abs(fls([P['area']], st)[0] - L.ap[0]) > TOL * max(L.ap[0], 1e-6) + area_rounding(L.v, PL.v):
            return ('C20:roundtrip-polygon', 'the polygon read from a serialised loop is not that outline')
        return None
    # polygon with holes -> a single outline with the same net area
    q = pC12.quantifier(dict(outer=src['loop'], holes=src['holes']), st)[0]
    if q != 'ok': return None
    if c['po'] != 0 or c['lo'] != 0: return ('C20:roundtrip-refused', 'the serialisation of a polygon with %d holes does not read back (classes %d / %d)' % (len(src['holes']), c['lo'], c['po']))
    pa = fls(src['pa'], st)
    P = c['poly']
    if P['ninner'] != 0: return ('C20:roundtrip-polygon', 'the polygon read back has holes')
    a = fls([P['area']], st)[0]
    if abs(a - pa[0]) > TOL * max(pa[0], 1e-6) + area_rounding(LoopJ(P['outer'], st).v, L.v, *[LoopJ(h, st).v for h in src['holes']]): return ('C20:roundtrip-area', 'net area %r read back as %r' % (pa[0], a))
    if max(abs(x - y) for x, y in zip(fls(P['n'], st), pa[1:])) > TOL: return ('C20:roundtrip-normal', 'polygon normal changed in the round trip')
    return None

def replay_args(c):
    if c['kind'] == 1: return [c['text'], 'loop'] + loop_bits_args(c['src']['loop'])
    if c['kind'] == 2:
        out = [c['text'], 'poly'] + loop_bits_args(c['src']['loop'])
        for h in c['src']['holes']: out += loop_bits_args(h)
        return out
    return [c['text']]
