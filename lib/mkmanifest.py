#!/usr/bin/env python3
"""Regenerates /verif/MANIFEST.json from the table below (keeps it schema-valid)."""
import json, os
ROOT = os.path.dirname(os.path.dirname(os.path.abspath(__file__)))
props = [json.loads(l) for l in open(os.path.join(ROOT, 'properties.jsonl'))]

CLAIMED = {
 'C07': dict(
   category='proof',
   text='Flocq theorems, for every binary floating-point format (binary32/binary64 are instances): each of the 18 operator forms and sqrt of the interval type returns a well-formed interval that contains the exact real result for all reals in the operand intervals. The Gallina model the theorems are about is executed on Flocq binary64 against the crate bit for bit on every run; an exact-rational oracle re-checks inclusion on the implementation outputs.',
   design_ref='DESIGN.md section 4, C07',
   note='Trusted: Coq kernel + vm_compute, Flocq 4.1.0, the 4 classical/real axioms of the stdlib reported by Print Assumptions, the hand-written model (tied to the code by bit-exact correspondence on generated cases, not by proof), IEEE-754 conformance of rustc/LLVM on x86-64.',
   technique='Coq/Flocq proof over all formats + bit-exact model/code correspondence (vm_compute)'),
 'C06': dict(
   category='proof',
   text='Theorems over the reals (exact tier) about the Gallina model of transform.rs: the invariant "matrix . stored inverse = identity, both affine" holds for every constructor and is preserved by *=, hence for chains of any length (induction over the list); round trips of points, vectors, normals and rays (ray: same direction, origin on the same line nudged forward); A*=B acts as "B then A" along whole chains; rotations rigid and counter-clockwise; changes_hands <-> negative determinant, composing like a sign; normals stay perpendicular. The same model text runs on primitive floats bit-for-bit against the crate (constructors within 2^-40: libm); the float "up to rounding" part is sampled by an exact-rational oracle.',
   design_ref='DESIGN.md section 4, C06',
   note='Trusted: Coq kernel + vm_compute, the stdlib real-number axioms (sig_forall_dec, sig_not_dec, functional_extensionality_dep), the hand-written model (bit-exact correspondence on generated chains), IEEE-754 conformance of rustc on x86-64. Not proved: float vs exact evaluation (sampled at 1e-9).',
   technique='Coq proof over R by induction on transform chains + bit-exact model/code correspondence'),
 'C04': dict(
   category='proof',
   text='Theorems by induction over operation lists of any length, valid for EVERY number instance of the model (reals, Flocq floats, primitive floats): no sequence of push/close panics; a refused push leaves the loop unchanged; push on a closed loop is refused; push acceptance is characterised exactly (open, within 1e-7 of the plane, no proper crossing with an earlier non-adjacent edge, not three coincident points); a successful close gives a closed loop with >= 3 vertices. The model is run against the crate on generated histories with the complete observable state compared after every step, and an exact-rational oracle checks the geometric reading (clearly crossing / clearly off-plane candidates refused, clearly valid ones accepted, closed loops planar with no collinear vertex). Two genuine defects for retraced outlines are recorded as known findings.',
   design_ref='DESIGN.md section 4, C04',
   note='Trusted: Coq kernel + vm_compute, the hand-written model (bit-exact correspondence after every step of every history). The "no collinear vertex in a closed loop" clause is not a theorem (false for retraced outlines: known finding); the geometric reading of "crossing" rests on Segment3D::intersect (C19).',
   technique='Coq proof by induction over histories (instance-generic) + step-by-step model/code correspondence'),
 'C16': dict(
   category='proof',
   text='Flocq theorems for every binary format with >= 8 bits of precision (binary32/64 are instances) about the Gallina model of the *_with_error / *_propagate_error functions, with the bound itself evaluated in floating point: (S) vectors - the exact image under the stored matrix lies within the returned error, no extra factor; (S) points - proved with the factor 4/3(1+u) and REFUTED at factor 1 by a machine-checked binary64 witness built from translate.rotate_z.rotate_x (gamma(3) against four roundings); input boxes: factor (1+4u) for vectors, 4/3(1+3u) for points; (M) proved for the *_with_error functions, an upper bound isolating the |m_i3|(1+gamma3) excess proved for *_propagate_error and (M) REFUTED for them by the translate(1000,0,0) witness; (M) and the same (S) constants proved for the proposed translation-free repair; (R) over the reals: the ray origin moves forward along the direction, no point of its error box lies ahead of it (worst corner reached exactly), and it advances by at most the 2-norm of the reported error (Cauchy-Schwarz). The model is executed on primitive floats bit-for-bit against the crate (12 error-returning functions, random and adversarial operands); an exact-rational oracle re-checks (S)/(M)/(R) on the outputs; the two defects are recorded as classes in known_findings.json, anything outside them is a violation.',
   design_ref='DESIGN.md section 4, C16; section 5 F9',
   note='Trusted: Coq kernel + vm_compute, Flocq 4.1.0, the 4 classical/real stdlib axioms, the hand-written model (bit-exact correspondence, not proof), IEEE-754 conformance of rustc on x86-64. Guards of the float-tier theorems: reported error finite (implies no overflow/NaN anywhere), bottom row (0,0,0,1), no product m_ij*x_j in (0, 2^(emin+2prec)) (binary64: 2^-968; C16_S_underflow_refuted shows the guard is needed). Not proved: (S) at factor 1 for vec_propagate_error (edge case, no counterexample found); the float reading of (R) (sampled by the oracle with a rounding tolerance).',
   technique='Coq/Flocq forward error analysis over all formats + vm_compute witnesses + bit-exact model/code correspondence'),
 'C14': dict(
   category='proof',
   text='Theorems about the Gallina model of BBox3D::intersect (checked bit-for-bit against the crate on every run). Exact tier (reals, all three direction components non-zero, inv_dir = 1/d): the answer is true exactly when the three slab parameter intervals, far ends widened by 1+2*gamma(3), share a parameter t > 0; hence every ray with a point o+t*d, t > 0, in the CLOSED box is accepted (any corner order, flat boxes, origins inside, any signs of d), and an accepted ray passes ahead of its origin through the box with faces pushed out by 2*gamma(3)*|face-origin|; t > 0 cannot be weakened to t >= 0 (witness). Float tier (every Flocq binary format): complete table of the IEEE special values of axis-parallel rays (inv = +-inf, 0*inf = NaN): zero component with origin outside the slab -> rejected; strictly inside -> slab ignored; ON a face plane: ignored in y/z for +0, but LOST in the x slab (recorded finding F10) and LOST in y/z for -0 (new finding) - both stated as theorems for all formats, as decidable predicates on the inputs, with binary64 witnesses by vm_compute. Thm 3 (rounded finite case) only partially: completeness from a no-margin condition on the COMPUTED plane parameters (incl. bit-equal flat slabs); the link exact -> computed parameters is sampled by the exact-rational oracle, not proved.',
   design_ref='DESIGN.md section 4, C14',
   note='Trusted: Coq kernel + vm_compute, Flocq 4.1.0, the stdlib real/classical axioms printed by Print Assumptions, the hand-written model (bit-exact correspondence, incl. BBox3D::new), IEEE-754 conformance of rustc on x86-64. Two classes of lost rays are KNOWN FINDINGS of the crate (known_findings.json), not repaired. Oracle: exact rationals, zero direction components handled symbolically; lost ray flagged when the exact ray meets the closed box at t > 0 clear of exact tangency (1e-12 relative on parameters of different axes); false hit flagged only when the ray misses the box grown by 1e-6 of the scale.',
   technique='Coq proof over R (case analysis + lra/nra) and over Flocq for all formats + bit-exact model/code correspondence (vm_compute) + exact-rational oracle'),
 'C15': dict(
   category='proof',
   text='Theorems over the reals about the Gallina model of bbox3d.rs, transform_bbox/inv_transform_bbox and the bounds()/world_bounds() of triangle, sphere and cylinder: new normalises any two corners (smallest box containing both); from_union contains both operands and from_union_point box and point (and are the smallest such); from_intersection is contained in both operands, its points are exactly the common points, and it is a well-formed box iff overlaps; overlaps is symmetric and equivalent to the existence of a common point; point_inside(_exclusive) characterised; for EVERY affine matrix the transformed box contains the image of every point of the box (device D5) and dropping any one of the eight corners breaks this (proved for each corner); inverse-transforming a transformed box contains the original (with C06 Inv); every convex combination of a triangle\'s vertices, every point of x^2+y^2+z^2=r^2 (resp. x^2+y^2=r^2) between the clips lies in the local bounds (also through the constructors\' clamping), and world bounds = transform of local bounds contain every transformed surface point. The order lemmas are also proved for boxes with finite float coordinates of every Flocq format. The model runs bit-for-bit against the crate on every run; reported ray hits of intersect/simple_intersect (world) and the *_local_ray variants are checked to lie inside world_bounds()/bounds() up to the rounding of the hit by an exact-rational oracle.',
   design_ref='DESIGN.md section 4, C15',
   note='Trusted: Coq kernel + vm_compute, stdlib real axioms (+ Classical_Prop.classic through Flocq for the float section), the hand-written model (bit-exact correspondence; Cylinder3D::new passes through libm so its transform is read back through the hook), IEEE-754 conformance of rustc. Not proved: that reported hits are surface points (C02) and float vs exact evaluation; both sampled by the oracle (16 u times the magnitudes entering the hit; for triangles times the conditioning of the Moller-Trumbore quotient). Disk3D::bounds (unimplemented!) and DistantSource3D::bounds (panics by design) are outside the property.',
   technique='Coq proof over R (min/max lemmas, sign split on coefficients + lra/nra) + generic order section instantiated on Flocq + bit-exact correspondence + exact-rational oracle'),
 'C02': dict(category='proof',
   text='[flat primitives] Theorems over the reals about the Gallina model of triangle3d.rs/plane3d.rs/disk3d.rs/distant_source3d.rs: a reported triangle hit is o+t d with t>100eps and equals v0+u e1+v e2 with u,v>=0, u+v<=1 (the pinned code without the u+v test is refuted by a witness); plane: t>=0 (t=0 accepted, recorded) and n.p=D; disk: in the plane, r_in<=rho<=r, polar angle in [0,phi_max], for every disk the constructor can produce; with an attached transform satisfying C06\'s invariant the world hit is the image of a point of the local disk and lies on the world ray at a parameter >=0; distant source: reported <=> cos(angle) >= cos(alpha/2). Model executed bit-for-bit against the crate (debug and release; phi decisions only outside a 1e-9 libm margin); exact-rational oracle re-checks membership on the implementation outputs.',
   design_ref='DESIGN.md section 4, C02', note='Trusted: Coq kernel + vm_compute, the 4 stdlib real/classical axioms, the hand-written model (bit-exact correspondence), IEEE-754 conformance. Not proved: float vs exact evaluation (sampled at 1e-9 x condition number). Hook: Disk3D::verif_fields. f32 not exercised.',
   technique='Coq proof over R (field/nsatz, polar-angle lemmas) + bit-exact model/code correspondence + exact-rational oracle'),
 'C03': dict(category='proof',
   text='[flat primitives] Exact-tier theorems: a crossing inside the closed triangle with t>100eps and |a|>=100eps is reported with exactly that point and (u,v); crossings outside, behind or in the parallel band are not; plane and disk: reported <=> |n.d|>=eps, t>=0, inside annulus and sector (the sector test is proved to be the polar-angle range); through a transform; distant source <=> cone. The 1e-6 band of the property is sampled by the exact-rational oracle.',
   design_ref='DESIGN.md section 4, C03', note='Trusted: Coq kernel + vm_compute, the 4 stdlib real/classical axioms, the hand-written model (bit-exact correspondence), IEEE-754 conformance. Not proved: float vs exact evaluation (sampled at 1e-9 x condition number). Hook: Disk3D::verif_fields. f32 not exercised.', technique='Coq proof over R (field/nsatz, polar-angle lemmas) + bit-exact model/code correspondence + exact-rational oracle'),
 'C13': dict(category='proof',
   text='[flat primitives] Exact-tier theorems: get_side returns (n,Front)/(−n,Back) by the sign of n.d, so the normal faces the ray and side and normal flip from the other side; IntersectionInfo::new: unit normal parallel to dpdv x dpdu, perpendicular to both tangents; triangle: tangents are edges, Front = side of the right-hand-rule normal; disk: Front = side of the declared normal, tangents in the plane; transformed data: (M^-T n).(M t)=n.t, (M^-T n).d_world = n.d_local, unit for rigid M; distant source per the code. Known findings: NaN tangents at a disk centre / distant-source axis; zero normal for coplanar rays on large triangles.',
   design_ref='DESIGN.md section 4, C13', note='Trusted: Coq kernel + vm_compute, the 4 stdlib real/classical axioms, the hand-written model (bit-exact correspondence), IEEE-754 conformance. Not proved: float vs exact evaluation (sampled at 1e-9 x condition number). Hook: Disk3D::verif_fields. f32 not exercised.', technique='Coq proof over R (field/nsatz, polar-angle lemmas) + bit-exact model/code correspondence + exact-rational oracle'),
 'C19': dict(
   category='proof',
   text='Theorems over the reals (exact tier) about the Gallina model of point3d.rs, vector3d.rs, segment3d.rs, triangle3d.rs (non-ray part) and the constructor-to-area paths of sphere3d.rs/cylinder3d.rs/disk3d.rs/bbox3d.rs, each the specification of one function with its tolerance written in: is_parallel/is_same_direction <-> not tiny and |a x b|^2 < 1e-5 (Lagrange) [and a.b > 0]; get_perpendicular unit and perpendicular, Err exactly when all components <= 100 eps; is_collinear characterised (its measure is distance x length); get_intersection_pt solves the projected 2x2 system (Cramer), its two reported points coincide in 3-D iff the end points are coplanar, and a genuine meeting point is reported with its parameters; intersect <-> ta in [0,1), tb in [1e-8,1-1e-8); touches <-> both in [0,1]; contains/contains_point exact on the supporting line; test_point cascade <-> sign pattern of the barycentric coordinates of the projection at 100 eps; Heron = |ab x ac|/2; unit right-handed normal; circumcentre equidistant and in the plane, circumradius = that distance; centroid; aspect ratio; closed-form areas specialise to 4 pi r^2, 2 pi r h, pi r^2, 2(ab+bc+ca) (definitional). Where the current code violates the property the theorem is a _refuted witness plus a decidable class (F5: skew segments reported as crossing, common start point missed; F11: short edges; contains_point parametrised on a noise axis), listed in known_findings.json; C19_fixed_* theorems cover the proposed repair. The same model text runs on primitive floats bit-for-bit against the crate (no libm on any of these paths); an exact-rational oracle judges intersect/touches/contains/test_point/area/normal/circumcentre/vector predicates away from the tolerances.',
   design_ref='DESIGN.md section 4, C19 (and F5, F11 in section 5)',
   note='Trusted: Coq kernel + vm_compute, the stdlib real-number axioms (sig_forall_dec, sig_not_dec, functional_extensionality_dep, classic), primitive floats for the executed witnesses, the hand-written model (bit-exact correspondence on generated cases, debug and release), IEEE-754 conformance of rustc on x86-64. Not proved: float vs exact evaluation away from the tolerances (sampled by the oracle at 1e-9 scaled by conditioning). The area theorems are definitional.',
   technique='Coq proof over R (ring/field/nra) per function + bit-exact model/code correspondence + exact-rational oracle'),
}
NOT_YET = 'check not built yet in this round (machinery under construction); see DESIGN.md section 4 for the planned Coq model and theorems'

checks = []
na = []
for p in props:
    i = p['id']
    if i in CLAIMED:
        c = CLAIMED[i]
        checks.append(dict(
            property_id=i,
            quick_cmd=f'./verify check {i} --tier quick',
            thorough_cmd=f'./verify check {i} --tier thorough',
            evidence_file=f'/verif/evidence/{i}.json',
            replay_cmd_template=f'./verify replay {i} {{path}}',
            engine='coq-model+correspondence',
            level_claimed=dict(category=c['category'], text=c['text'], design_ref=c['design_ref']),
            level_note=c['note'], technique=c['technique']))
    else:
        na.append(dict(property_id=i, reason=NOT_YET))
m = dict(
    version=1,
    setup_cmd='./verify setup',
    hooks=dict(guard='--cfg geometry3d_verif',
               enable='harness/.cargo/config.toml passes RUSTFLAGS "--cfg geometry3d_verif" when building the harness crate against /repo',
               baseline_off_cmd='cd /repo && cargo test --workspace --no-fail-fast --offline',
               source_commits=['6776f75'], add_only=True),
    engines=[dict(name='coq-model+correspondence', path='/verif/verify',
                  serves_properties=[c['property_id'] for c in checks],
                  kind_free_text='Coq 8.16 development (coq/): Num-generic Gallina model of the crate, theorems on the R and Flocq instances, property theorems in coq/Properties; Rust harness (harness/) runs the crate built from /repo with hooks on; coqc evaluates the model on the same cases by vm_compute; Python exact-rational oracles (lib/) search for failing inputs')],
    checks=checks,
    notes='Known findings and fixed defects: /verif/known_findings.json. Seeded mutants: /verif/seeded/.',
    not_applicable=na)
json.dump(m, open(os.path.join(ROOT, 'MANIFEST.json'), 'w'), indent=1)
print('MANIFEST.json:', len(checks), 'checks,', len(na), 'not claimed')
