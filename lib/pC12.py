"""C12: merging a polygon's holes into one outline preserves its region."""
import math
from collections import Counter
from fractions import Fraction as Fr
from props import Stream
from fx import *
from geo import *
from polyx import *

LEVEL = 'proof'
RULE = ('polygons of the C04 space (any plane, either winding, any start, offsets to 1e3) with 0..3 holes of 3..8 vertices (regular or star-shaped, '
        'both windings, every cyclic start: 6% of the configurations are swept over all starts x windings of one hole), holes well inside and apart; '
        'get_closed_loop() vertex list and the state of the subsequently close()d loop compared bit for bit; the oracle re-derives the nearest '
        'vertex-to-vertex bridges exactly and skips (counting them in the input distribution) configurations whose bridge is obstructed, tied, '
        'or not in general position w.r.t. the collinearity tolerance; non-trivial = at least one hole; distinct = distinct (outer, holes) bit patterns. '
        'After 30% of the merge cases (drawn from a second generator state, so the merge cases do not depend on them) four groups of direct calls '
        '(buckets ops:*, correspondence only, trivial for the count): is_diagonal (corner chords, vertex pairs, chords along / half / beyond an edge, '
        'lengths around 1e-5, chords from the repeated bridge vertices of the closed merged outline, floating and off-plane segments; on the outer loop, '
        'the merged outline, a closed loop that lost a corner through remove, empty / 2-vertex loops), sanitize (outer, merged open / closed, loops with a '
        'collinear run or a retraced spike obtained through remove, closed and open, opened loop), contains_segment of loops and of the polygon + '
        'Polygon3D::inner in and out of range, perimeter / area (closed: value, open: Err), is_coplanar (in plane, around 1e-7, off plane, no vertices, '
        'no normal), remove and [i] in and out of range. Thorough tier: also 1500 merge cases (+ their ops groups) of the f32 build (correspondence only, no oracle)')
ASSUMPTIONS = [
    'Coq 8.16.1 kernel + vm_compute; the sequence characterisation holds for every number instance of the model, the Newell/edge-sum identity over the reals',
    'model = code: polygon3d.rs get_closed_loop (nearest-pair scan, hole walk index arithmetic, rebuild by push) checked bit-for-bit, then Loop3D::close',
    'f32 build (thorough tier): the same runner text instantiated on the binary32 instance (module C12f32 of Run/C12.v on NumF32fast, proved equal to the '
    'Flocq-rounded NumF32 in Run/FastNum32Proof.v) against the harness built with --features float, bit for bit; the f32 generator draws 75% coordinate planes, offsets to 8 '
    '(finding F15: the absolute 1e-7 coplanarity tolerance refuses oblique f32 outlines; refusals / Err / panic outcomes are reproduced by the model); CORRESPONDENCE ONLY: the '
    'exact-rational oracle does not judge f32 cases',
    'area / winding consequences of the characterised sequence for the float build are checked on the implementation outputs by the exact oracle (1e-9), not proved',
]
THEOREMS = ['C12_no_holes_unchanged', 'C12_hole_index_start_and_return', 'C12_hole_index_steps', 'C12_hole_index_visits_every_vertex',
            'C12_merged_sequence', 'C12_walk_explicit', 'C12_splice_explicit', 'C12_bridge_shape', 'C12_edge_sum_splice', 'C12_newell_splice', 'C12_pinned_hole_index_refuted', 'C12_pinned_merge_refuted',
            # Properties/C12_region.v: the region theorems (any number of holes, reals)
            'C12_region_merged_is_trace', 'C12_region_fold', 'C12_region_winding_one_hole', 'C12_region_winding', 'C12_region_winding_outside_holes', 'C12_region_winding_inside_one_hole', 'C12_region_planar_area',
            'C12_region_newell_one_hole', 'C12_region_newell', 'C12_region_net_area', 'C12_region_closed_loops_have_signed_area',
            'C12_region_same_direction_decisive', 'C12_region_polygon_accounting', 'C12_region_closed_area_normal',
            'C12_region_merged_normal_planar', 'C12_region_closed_region', 'C12_region_every_vertex', 'C12_region_no_new_vertex',
            'C12_region_no_holes', 'C12_region_scan_cases', 'C12_region_attach_same_vertex', 'C12_region_attach_index_spec', 'C12_region_attach_in_range', 'C12_region_in_cone_orient', 'C12_region_hits_wf', 'C12_region_hits_wf_any_instance',
            'C12_region_within_reach_wf', 'C12_region_bounded_coords_wf', 'C12_region_far_holes_pinned_refuted', 'C12_region_far_holes_now_merged']

def streams(tier):
    if tier == 'quick': return [Stream('C12', 700)]
    if tier == 'search': return [Stream('C12', 2500)]
    # f32 build (thorough tier): correspondence only, the oracle does not judge f32 cases
    return [Stream('C12', 5000), Stream('C12', 1500, release=True), Stream('C12', 1500, f32=True)]

def is_f32(c, st=None):
    """cases of the f32 build carry "f32": true (harness/src/polys.rs); the stream flag says the same"""
    return bool(c.get('f32') or (st is not None and getattr(st, 'f32', False)))

def sqd(a, b): return (a[0] - b[0]) ** 2 + (a[1] - b[1]) ** 2 + (a[2] - b[2]) ** 2
def sqd_x(a, b): return sum((Fr(a[i]) - Fr(b[i])) ** 2 for i in range(3))

def quantifier(c, st):
    """exact replay of the nearest-bridge choice: ('ok', bridges, expected sequence) or (reason-to-skip, ..)"""
    if '_q' in c: return c['_q']
    outer = LoopJ(c['outer'], st); holes = [LoopJ(h, st) for h in c['holes']]
    res = None
    if not (outer.ok() and all(h.ok() for h in holes)): res = ('nonfinite', [], None)
    else:
        pl = Plane(outer.v)
        cur = list(outer.v); done = set(); bridges = []
        sigma = 1 if area2x(pl.to2(outer.v)) > 0 else -1
        for _ in range(len(holes)):
            cand = []
            for j, e in enumerate(cur):
                for k, h in enumerate(holes):
                    if k in done: continue
                    for l, w in enumerate(h.v): cand.append((sqd(e, w), j, k, l))
            dmin = min(x[0] for x in cand)
            near = [x for x in cand if x[0] <= dmin * (1 + 1e-9) + 1e-300]
            j, k, l = min(near, key=lambda x: (x[1], x[2], x[3]))[1:]
            e, w = cur[j], holes[k].v[l]
            # every near-tie must be the same pair of points (duplicates of e / the same w), else the choice is not robust
            if any(cur[x[1]] != e or holes[x[2]].v[x[3]] != w for x in near):
                ex = [(sqd_x(cur[x[1]], holes[x[2]].v[x[3]]), x) for x in near]
                m = min(y[0] for y in ex)
                best = [y[1] for y in ex if y[0] == m]
                if any(cur[x[1]] != e or holes[x[2]].v[x[3]] != w for x in best) or not any(x[1:] == (j, k, l) for x in best):
                    res = ('tie', bridges, None); break
            # obstruction: the open bridge must not meet the current outline nor any hole outline
            e2, w2 = proj(e, pl.ax), proj(w, pl.ax)
            blocked = False
            for poly in [cur] + [h.v for h in holes]:
                p2 = pl.to2(poly)
                for a, b in edges(p2):
                    sh = [p for p in (a, b) if p == e2 or p == w2]
                    if len(sh) == 2: blocked = True; break          # an edge along the bridge
                    if len(sh) == 1:
                        other = b if a == sh[0] else a
                        if orient_sign(e2, w2, other) == 0:
                            far = w2 if sh[0] == e2 else e2
                            # collinear neighbour on the bridge's side
                            if (other[0] - sh[0][0]) * (far[0] - sh[0][0]) + (other[1] - sh[0][1]) * (far[1] - sh[0][1]) > 0: blocked = True; break
                    elif segs_cross(e2, w2, a, b): blocked = True; break
                if blocked: break
            if blocked: res = ('obstructed', bridges, None); break
            hv = holes[k].v; n = len(hv)
            same = (1 if area2x(pl.to2(hv)) > 0 else -1) == sigma
            walk = [hv[(l + n - t) % n] if same else hv[(l + t) % n] for t in range(n + 1)]
            cur = cur[:j + 1] + walk + [e] + cur[j + 1:]
            done.add(k); bridges.append((e, w))
        if res is None:
            # general position w.r.t. the collinearity tolerance of push (1e-5), with a factor 10
            m = len(cur); gen = True
            if holes:
                for i in range(m):
                    a, b, cc = cur[i - 1], cur[i], cur[(i + 1) % m]
                    u = (b[0] - a[0], b[1] - a[1], b[2] - a[2]); v = (cc[0] - b[0], cc[1] - b[1], cc[2] - b[2])
                    cr = (u[1] * v[2] - u[2] * v[1], u[2] * v[0] - u[0] * v[2], u[0] * v[1] - u[1] * v[0])
                    if a != cc and cr[0] ** 2 + cr[1] ** 2 + cr[2] ** 2 < 1e-8: gen = False; break
            res = ('ok' if gen else 'nongeneric', bridges, cur)
    c['_q'] = res
    return res

def is_ops(c): return c.get('kind') == 'ops'

def ops_summary(c):
    """per operation of an 'ops' case: {name: {label:outcome: count}} (outcome: true/false/ok/Err<class>/panic)"""
    out = {}
    for q in c['qs']:
        cls = q['class']
        if cls == 99: o = 'panic'
        elif cls >= 100: o = 'Err%d' % (cls - 100)
        elif q['name'] in ('is_diagonal', 'contains_segment', 'poly_contains_segment', 'is_coplanar'): o = 'true' if cls == 1 else 'false'
        else: o = 'ok'
        d = out.setdefault(q['name'], {})
        k = '%s@%s:%s' % (q['lab'], c['labels'][q['subj']] if q['subj'] < len(c['labels']) else '?', o)
        d[k] = d.get(k, 0) + 1
    return out

def classify(c, st):
    if is_ops(c):
        # the direct calls of the other public Loop3D / Polygon3D operations: correspondence only (trivial for the property's
        # own count); one bucket per group and per set of outcomes seen in the group
        outs = set()
        for q in c['qs']:
            cls = q['class']
            outs.add('panic' if cls == 99 else 'Err' if cls >= 100 else 'ok')
        key = ('ops', c['group'], tuple(tuple(l['v']) for l in c['loops']), tuple((q['op'], q['subj'], q['idx'], tuple(q['args'])) for q in c['qs']))
        return key, True, ('f32:' if is_f32(c, st) else '') + 'ops:%s:%dq:%s' % (c['group'], 5 * ((len(c['qs']) + 4) // 5), '+'.join(sorted(outs)))
    key = (tuple(c['outer']['v']), tuple(tuple(h['v']) for h in c['holes']))
    if is_f32(c, st):
        # f32 streams: plane kind and the outcome of the merge / close (refusals: finding F15) instead of the f64 quantifier classes
        return key, len(c['holes']) == 0, 'f32:%s:h%d:merge%s:close%s' % (next((x for x in c['note'].split(':') if x.startswith('plane')), 'corpus'), len(c['holes']), c['mo'], c['co'])
    q = quantifier(c, st)[0]
    return key, len(c['holes']) == 0, 'h%d:%s' % (len(c['holes']), q)

def describe(c, st):
    if is_ops(c):
        return dict(note=c['note'], group=c['group'], subjects=['%s(%d%s)' % (lb, len(l['v']) // 3, ',closed' if l['closed'] else ',open') for lb, l in zip(c['labels'], c['loops'])],
                    queries=ops_summary(c))
    return dict(note=c['note'], outer_n=len(c['outer']['v']) // 3, holes=[len(h['v']) // 3 for h in c['holes']],
                merged_n=(len(c['merged']['v']) // 3 if c['merged'] else None), close=c['co'], quantifier=(None if is_f32(c, st) else quantifier(c, st)[0]))

def edge_counter(v):
    n = len(v)
    return Counter((v[i], v[(i + 1) % n]) for i in range(n))

def oracle(c, st):
    # f32 build: correspondence only (the bridge / area re-derivation uses 1e-9 margins set against binary64 rounding)
    if is_f32(c, st): return None
    if is_ops(c): return None      # no property text speaks about these calls: model correspondence only
    if c['mo'] == 99:
        # get_closed_loop unwraps the push of every merged vertex: it panics when the nearest-vertex bridge is obstructed (the
        # pushed edge crosses the outline).  The property quantifies over unobstructed bridges only ("checked by the oracle"):
        # a panic is a violation exactly when the exact replay of the bridge choice finds every bridge unobstructed.
        return ('C12:panic', 'get_closed_loop panicked although every nearest-vertex bridge is unobstructed') if quantifier(c, st)[0] == 'ok' else None
    outer = LoopJ(c['outer'], st); holes = [LoopJ(h, st) for h in c['holes']]
    merged = LoopJ(c['merged'], st)
    if not holes:
        if merged.v != outer.v or merged.closed: return ('C12:no-holes-changed', 'a polygon without holes was not returned unchanged (opened)')
    q, bridges, expected = quantifier(c, st)
    if q != 'ok': return None
    if c['co'] != 0: return ('C12:close-refused', 'the merged outline cannot be closed (class %d)' % c['co'])
    closed = LoopJ(c['closed'], st)
    pl = Plane(outer.v)
    # every vertex occurs
    have = set(merged.v)
    for name, l in [('outer', outer)] + [('hole %d' % i, h) for i, h in enumerate(holes)]:
        miss = [p for p in l.v if p not in have]
        if miss: return ('C12:vertex-missing', '%d vertices of the %s do not occur in the merged outline' % (len(miss), name))
    # directed edges: outer edges, each hole's edges (all forwards or all reversed), and each bridge once in each direction
    E = edge_counter(merged.v)
    def take(es):
        if all(E[e] >= k for e, k in Counter(es).items()):
            E.subtract(Counter(es)); return True
        return False
    if not take(list(edge_counter(outer.v).elements())): return ('C12:edges', 'an edge of the outer loop is not traversed by the merged outline')
    for i, h in enumerate(holes):
        fw = list(edge_counter(h.v).elements()); bw = [(b, a) for a, b in fw]
        if not (take(bw) or take(fw)): return ('C12:edges', 'hole %d is not traversed edge by edge in one direction' % i)
    rest = +E
    want = Counter()
    for e, w in bridges: want[(e, w)] += 1; want[(w, e)] += 1
    if rest != want:
        return ('C12:bridges', 'the remaining edges of the merged outline are not the bridges once in each direction: %d extra / %d expected' % (sum(rest.values()), sum(want.values())))
    # net area, exactly, on the returned vertices (and on the closed loop)
    P = pl.n
    lenP = math.sqrt(float(pl.nn))
    net = lenP / 2 - sum(math.sqrt(float(len2(newell_x(h.v)))) / 2 for h in holes)
    for name, l in (('merged', merged), ('closed', closed)):
        a = float(dot(newell_x(l.v), P)) / (2 * lenP)
        if abs(a - net) > 1e-9 * max(abs(net), 1e-6): return ('C12:area', 'shoelace area of the %s outline is %r, outer - holes = %r' % (name, a, net))
    pa = fls([c['area']], st)[0]
    # the areas the crate REPORTS are evaluated in floating point by the shoelace sum over the stored coordinates: allow for its
    # rounding (a few ulps of sum |v_i| |v_i+1|, which dominates 1e-9 * area for a small outline at an offset of 1e3)
    def mag(l): return sum(math.sqrt(float(len2(l.v[i]))) * math.sqrt(float(len2(l.v[(i + 1) % len(l.v)]))) for i in range(len(l.v)))
    rnd = 16 * 2.0 ** -52 * (mag(closed) + mag(outer) + sum(mag(h) for h in holes))
    if abs(closed.ap[0] - net) > 1e-9 * max(abs(net), 1e-6) + rnd: return ('C12:area', 'the closed merged loop reports area %r, outer - holes = %r' % (closed.ap[0], net))
    if abs(pa - net) > 1e-9 * max(abs(net), 1e-6) + rnd: return ('C12:area', 'the polygon reports area %r, outer - holes = %r' % (pa, net))
    # normal
    pn = fls(c['n'], st)
    if max(abs(x - y) for x, y in zip(closed.n, pn)) > 1e-9: return ('C12:normal', 'normal of the closed merged loop %r differs from the polygon normal %r' % (closed.n, tuple(pn)))
    # winding numbers at sample points
    o2 = pl.to2(outer.v); h2 = [pl.to2(h.v) for h in holes]; m2 = pl.to2(merged.v)
    sigma = 1 if area2x(o2) > 0 else -1
    samples = []
    cen = lambda p: (sum(x[0] for x in p) / len(p), sum(x[1] for x in p) / len(p))
    oc = cen(o2); samples.append(oc)
    for h in h2:
        hc = cen(h); samples.append(hc)
        for t in (0.35, 0.7): samples.append((hc[0] + t * (oc[0] - hc[0]), hc[1] + t * (oc[1] - hc[1])))
        for v in o2[:4]: samples.append(((hc[0] + v[0]) / 2, (hc[1] + v[1]) / 2))
    for a, b in edges(o2)[:6]:
        m = ((a[0] + b[0]) / 2, (a[1] + b[1]) / 2)
        samples.append((m[0] + 0.1 * (oc[0] - m[0]), m[1] + 0.1 * (oc[1] - m[1])))
        samples.append((m[0] - 0.1 * (oc[0] - m[0]), m[1] - 0.1 * (oc[1] - m[1])))
    for s in samples:
        if not all(outline_ge(p, s, 1e-6) for p in [o2, m2] + h2): continue
        wo = winding(o2, s); wh = sum(abs(winding(h, s)) for h in h2); wm = winding(m2, s)
        if wm != wo - sigma * wh:
            return ('C12:winding', 'winding number of the merged outline at a sample point is %d, outer %d, holes %d' % (wm, wo, wh))
    return None

def replay_args(c):
    if is_ops(c): return loop_bits_args(c['loops'][0])
    out = loop_bits_args(c['outer'])
    for h in c['holes']: out += loop_bits_args(h)
    return out
