"""C14: the ray/box test never loses a ray that enters the box.

Oracle (exact rationals on the inputs, the implementation's answer as observed):
  * per axis the ray `o + t d` is in the slab [min, max] for t in [lo, hi] (d != 0), for every t (d == +-0 and
    min <= o <= max: handled symbolically, no division) or for no t;
  * LOST RAY  = the implementation answered `false` although the ray meets the closed box at some t > 0, the meeting
    being clear of exact tangency: every exit parameter exceeds every entry parameter of a *different* axis by 1e-12
    (relative).  Entry = exit on the same axis (flat boxes) is fine: transversal hits of flat boxes are required.
    So rays within 1e-7 of grazing are still required not to be lost; only the measure-zero band of (almost) exactly
    tangent rays (contact through an edge/corner within 1e-12), where the answer depends on the last rounding, is left open.
  * FALSE HIT = the implementation answered `true` although the ray (t >= 0) misses even the box grown by
    1e-6 * scale on every side (scale = largest |coordinate| of box and origin, or extent): this covers "misses by a
    clear margin" and "points away"; nothing closer than that is ever flagged (the property only asks that
    near-grazing rays are not lost).
Lost rays are classified by a decidable predicate on the inputs:
  x-slab-nan       direction.x == +-0 and origin.x == box.min.x or box.max.x  (0 * inf = NaN survives to the last comparison)
  neg-zero-face    direction.y (or .z) == -0 and origin.y (.z) equals one of the two DISTINCT face coordinates
                   (NaN blocks the near/far swap that inv = -inf needs)
  (none)           anything else: an unexplained lost ray
"""
import math
from fractions import Fraction as Fr
from props import Stream
from fx import *

LEVEL = 'proof'
RULE = ('cases = (box corners in any order, flat in 0..2 axes, coordinates to 1e3) x (ray origin, direction) from one SplitMix64 '
        'state; ray kinds: random, aimed at a point of the box, axis-parallel with +0/-0 components and origins on/inside/outside each '
        'slab (incl. one ulp off a face), origin on faces/edges/corners, grazing within 1e-12..1e-5 relative, origin inside, pointing away, '
        'transversal hits of flat boxes; unit, raw and rescaled directions; inv_dir = 1/d; recorded findings first; non-trivial = not '
        'rejected by the first early exit (path tag != 1); distinct = distinct input bits; thorough tier: also 12000 cases of the f32 build '
        '(grazing ladder 1.2e-7..1e-3; correspondence only, no oracle)')
ASSUMPTIONS = [
    'Coq 8.16.1 kernel + vm_compute; Thm 1 is about the real-number instance of the model (exact tier), Thm 2 about the Flocq '
    'instance for every binary format (IEEE special values), witnesses by vm_compute on binary64',
    'model = code: BBox3D::new and BBox3D::intersect checked bit-for-bit on primitive floats on every generated case',
    'f32 build (thorough tier): the same runner text instantiated on the binary32 instance (module C14f32 of Run/C14.v on NumF32fast, proved equal to the '
    'Flocq-rounded NumF32 in Run/FastNum32Proof.v) against the harness built with --features float, bit for bit (inv_dir, corner normalisation, answer, path); '
    'CORRESPONDENCE ONLY: the exact-rational oracle does not judge f32 cases',
    'Thm 3 (float evaluation vs exact evaluation for finite slabs, all direction components non-zero): proved for every binary '
    'format with the relative margin 1+2u between exact parameters of different axes, under explicit side conditions the model '
    'evaluates (margin_okb: finite inputs, 1/d and the six products normal numbers or exact zeros, no overflow); outside these '
    'side conditions (subnormal reciprocals/products) float vs exact evaluation is only sampled by the exact-rational oracle',
]
THEOREMS = ['C14_intersect_characterised', 'C14_complete', 'C14_sound', 'C14_x_slab_nan_loses_the_ray', 'C14_x_slab_nan_refuted',
            'C14_nan_in_y_or_z_slab_is_ignored', 'C14_float_complete_partial', 'C14_raw_parameter_error',
            'C14_float_complete_margin', 'C14_float_complete_enter_exit', 'C14_float_complete_point',
            'C14_float_complete_checked', 'C14_margin_formats_ok', 'C14_float_complete_binary64', 'C14_float_complete_binary32',
            # the same on primitive floats (Properties/C14_prim.v)
            'C14_prim_run_is_flocq_run', 'C14_prim_box_and_reciprocal', 'C14_prim_x_slab_nan_loses_the_ray', 'C14_prim_known_class_is_lost', 'C14_prim_neg_zero_face_loses_the_ray', 'C14_prim_zero_component_outside_slab_is_rejected', 'C14_prim_x_slab_nan_refuted', 'C14_prim_neg_zero_face_refuted', 'C14_prim_float_complete_margin', 'C14_prim_float_complete_enter_exit', 'C14_prim_float_complete_point', 'C14_prim_margin_side_conditions_checked', 'C14_prim_float_complete_binary64',
            # the same on the executed f32 instance (Properties/C14_prim32.v)
            'C14_prim32_run_is_flocq_run', 'C14_prim32_embedded_run_is_flocq_run', 'C14_prim32_box_and_reciprocal', 'C14_prim32_known_class_is_lost', 'C14_prim32_neg_zero_face_loses_the_ray', 'C14_prim32_float_complete_margin', 'C14_prim32_margin_side_conditions_checked', 'C14_prim32_float_complete_binary32', 'C14_prim32_float_complete_binary32_fast']

def streams(tier):
    if tier == 'quick': return [Stream('C14', 4000)]
    if tier == 'search': return [Stream('C14', 40000)]
    # f32 build (thorough tier): correspondence only, the oracle does not judge f32 cases
    return [Stream('C14', 60000), Stream('C14', 20000, release=True), Stream('C14', 12000, f32=True)]

def is_f32(c, st=None):
    """cases of the f32 build carry "f32": true (harness/src/c14.rs); the stream flag says the same"""
    return bool(c.get('f32') or (st is not None and getattr(st, 'f32', False)))

def vals(c, st, key):
    fm = Fmt(is_f32(c, st))
    return [fm.fl(b) for b in c[key]]

def neg_zero(x): return x == 0.0 and math.copysign(1.0, x) < 0

def classify(c, st):
    key = (tuple(c['a']), tuple(c['b']), tuple(c['o']), tuple(c['d']))
    d = vals(c, st, 'd'); o = vals(c, st, 'o'); bb = vals(c, st, 'bb')
    # trivial: rejected by the very first early exit (the far x plane is behind the origin)
    triv = False
    if d[0] != 0 and all(finite(x) for x in bb + o + d):
        t1 = (Fr(bb[0]) - Fr(o[0])) / Fr(d[0]); t2 = (Fr(bb[3]) - Fr(o[0])) / Fr(d[0])
        triv = max(t1, t2) < 0
    zeros = ''.join('0' if x == 0 and not neg_zero(x) else 'z' if x == 0 else '+' if x > 0 else '-' for x in d)
    flat = sum(1 for k in range(3) if bb[k] == bb[3 + k])
    return key, triv, '%s/dir%s/flat%d/%s' % (c['kind'], zeros, flat, 'hit' if c['out'] else 'miss')

def describe(c, st):
    return dict(kind=c['kind'], corner_a=[hexf(x) for x in vals(c, st, 'a')], corner_b=[hexf(x) for x in vals(c, st, 'b')],
                origin=[hexf(x) for x in vals(c, st, 'o')], direction=[hexf(x) for x in vals(c, st, 'd')],
                inv_dir=[hexf(x) for x in vals(c, st, 'inv')], answer=c['out'])

REL_T = Fr(1, 10 ** 12)     # tangency band excluded from the lost-ray check (relative, on ray parameters)
REL_MISS = Fr(1, 10 ** 6)   # clear-miss margin (relative to the box/ray scale)
T_TINY = Fr(1, 2 ** 900)    # below this the products underflow; outside the property's coordinate range anyway

def slabs(lo, hi, o, d, grow=Fr(0)):
    """per axis: None (never inside), 'all' (always inside) or (t_enter, t_exit)"""
    out = []
    for k in range(3):
        l, h = lo[k] - grow, hi[k] + grow
        if d[k] == 0:
            out.append('all' if l <= o[k] <= h else None)
        else:
            t1, t2 = (l - o[k]) / d[k], (h - o[k]) / d[k]
            out.append((min(t1, t2), max(t1, t2)))
    return out

def lost_class(bb, o, d):
    if d[0] == 0 and (o[0] == bb[0] or o[0] == bb[3]): return 'x-slab-nan'
    for k in (1, 2):
        if neg_zero(d[k]) and bb[k] != bb[3 + k] and (o[k] == bb[k] or o[k] == bb[3 + k]): return 'neg-zero-face'
    return None

def oracle(c, st):
    # f32 build: correspondence only (REL_T / REL_MISS / T_TINY and the `inv == 1/d` test below are written for binary64)
    if is_f32(c, st): return None
    a, b, o, d, inv, bb = (vals(c, st, k) for k in ('a', 'b', 'o', 'd', 'inv', 'bb'))
    if not all(finite(x) for x in a + b + o + d): return None
    if all(x == 0 for x in d): return None                       # not a ray
    # corner normalisation (anchor: bbox3d.rs:57-91)
    for k in range(3):
        if bb[k] != min(a[k], b[k]) or bb[3 + k] != max(a[k], b[k]):
            return ('C14:box-normalisation', 'BBox3D::new(%r, %r) has min/max %r on axis %d' % (a, b, (bb[k], bb[3 + k]), k))
    # the caller-supplied reciprocal is 1/d
    for k in range(3):
        e = (math.copysign(INF, d[k]) if d[k] == 0 else 1.0 / d[k])
        if inv[k] != e: return None                                # not the property's input space
    lo = [Fr(x) for x in bb[:3]]; hi = [Fr(x) for x in bb[3:]]
    O = [Fr(x) for x in o]; D = [Fr(x) for x in d]
    ans = c['out']
    if not ans:
        s = slabs(lo, hi, O, D)
        if any(x is None for x in s): return None                  # exact miss
        iv = [(k, x) for k, x in enumerate(s) if x != 'all']
        t_out = min(x[1] for _, x in iv); t_in = max(x[0] for _, x in iv)
        if t_out < T_TINY or t_in > t_out: return None             # behind / touching at the origin only / exact miss
        if any(abs(dk) < Fr(1, 2 ** 500) or abs(dk) > 2 ** 500 for dk in D if dk != 0): return None
        for i, (li, _) in iv:
            for j, (_, hj) in iv:
                if i != j and li > 0 and hj < li * (1 + REL_T): return None   # (almost) exactly tangent: left open
        cls = lost_class(bb, o, d)
        sig = 'C14:lost-ray' + (':' + cls if cls else '')
        return (sig, 'box [%r..%r], origin %r, direction %r: the ray is inside the box for t in [%s, %s] but intersect returned false'
                % (bb[:3], bb[3:], o, d, float(max(t_in, 0)), float(t_out)))
    else:
        scale = max([abs(x) for x in lo + hi + O] + [hi[k] - lo[k] for k in range(3)] + [Fr(1, 10 ** 6)])
        s = slabs(lo, hi, O, D, REL_MISS * scale)
        miss = any(x is None for x in s)
        if not miss:
            iv = [x for x in s if x != 'all']
            t_out = min(x[1] for x in iv); t_in = max(x[0] for x in iv)
            miss = t_out < 0 or t_in > t_out
        if miss:
            return ('C14:false-hit', 'box [%r..%r], origin %r, direction %r: the ray misses the box grown by 1e-6 of the scale, yet intersect returned true'
                    % (bb[:3], bb[3:], o, d))
    return None

def replay_args(c):
    return [str(x) for x in c['a'] + c['b'] + c['o'] + c['d']]
