From Coq Require Import ZArith List Floats.
From G3 Require Import Model.Num Model.NumF Model.Base Model.Vec Model.Segment Model.Loop.
Import ListNotations.
Open Scope float_scope.
Definition run (pts : list (V3 float)) := let r := loop_run loop_new (map (@LPush float) pts ++ [LClose]) in (snd r, verts (fst r), lnormal (fst r), larea (fst r), lperim (fst r), loop_centroid (fst r)).
(* start at an inserted point 5e-4 before v1, and an inserted point 0.01 after v1: |cross| = 5e-6 < 1e-5 *)
Eval vm_compute in run [mkV3 0.9995 0 0; mkV3 1 0 0; mkV3 1 0.01 0; mkV3 1 1 0; mkV3 0 1 0; mkV3 0 0 0].
(* start point within 1e-5 of its successor on the edge *)
Eval vm_compute in run [mkV3 0.5 0 0; mkV3 0.500001 0 0; mkV3 0.75 0 0; mkV3 1 0 0; mkV3 1 1 0; mkV3 0 1 0; mkV3 0 0 0].
Eval vm_compute in run [mkV3 0.5 0 0; mkV3 0.75 0 0; mkV3 0.500001 0 0;  mkV3 1 0 0; mkV3 1 1 0; mkV3 0 1 0; mkV3 0 0 0].
