use geometry3d::{BBox3D, Point3D, Transform};

fn show(name: &str, t: &Transform, b: BBox3D, p: Point3D) {
    let tb = t.transform_bbox(b);
    let tp = t.transform_pt(p);
    println!("{name}: box min=({:e},{:e},{:e}) max=({:e},{:e},{:e})", tb.min.x, tb.min.y, tb.min.z, tb.max.x, tb.max.y, tb.max.z);
    println!("{name}: original box contains p: {}", b.point_inside(p));
    println!("{name}: image of p = ({:e},{:e},{:e})  inside transformed box: {}", tp.x, tp.y, tp.z, tb.point_inside(tp));
}

fn main() {
    // public API only: scale(s,1,1) then rotate_z(135): row 0 = (s cos135, -s sin135, 0, 0) = (-0.707 s, -0.707 s, 0, 0)
    let s = 1.2e308;
    let mut t = Transform::scale(s, 1., 1.);
    t *= Transform::rotate_z(135.);
    let b = BBox3D::new(Point3D::new(0., -4., 0.), Point3D::new(4., 1., 1.));
    let p = Point3D::new(1., 0., 0.5);
    show("scale*rotate_z", &t, b, p);
    // a well-scaled control
    let mut t2 = Transform::scale(1.2, 1., 1.);
    t2 *= Transform::rotate_z(135.);
    show("control", &t2, b, p);
}
