#!/usr/bin/env python3
"""Which lines of /repo/src do the correspondence streams execute?  (a measurement, not a check)

  tools/coverage.py [quick|thorough] [--props C01,C02,...]

Builds the harness with the nightly toolchain and `-C instrument-coverage` (hooks on) into .cache/target_cov,
runs every stream of the given tier of every property (generation only: the crate is executed on the same
inputs that the Coq model is evaluated on in a check), merges the profiles and writes

  notes/coverage.md      per-file line coverage of /repo/src and the uncovered line ranges
  notes/coverage.json    the same, machine readable (per file: covered / instrumented lines, uncovered ranges)

Lines of the crate that no stream reaches are code on which model and implementation are never compared:
the tie of the hand-written model to the code is only as good as this table says."""
import sys, os, json, subprocess, shutil, glob, importlib
ROOT = os.path.dirname(os.path.dirname(os.path.abspath(__file__)))
sys.path.insert(0, os.path.join(ROOT, 'lib'))
CACHE = os.path.join(ROOT, '.cache'); TDIR = os.path.join(CACHE, 'target_cov'); WORK = os.path.join(CACHE, 'cov_work')
TOOLS = os.path.expanduser('~/.rustup/toolchains/nightly-x86_64-unknown-linux-gnu/lib/rustlib/x86_64-unknown-linux-gnu/bin')
tier = 'quick'; props = ['C%02d' % i for i in range(1, 21)]
args = sys.argv[1:]
while args:
    a = args.pop(0)
    if a == '--props': props = args.pop(0).split(',')
    else: tier = a
def sh(cmd, **kw):
    r = subprocess.run(cmd, stdout=subprocess.PIPE, stderr=subprocess.STDOUT, text=True, **kw); return r.returncode, r.stdout
env = dict(os.environ, CARGO_NET_OFFLINE='true', CARGO_TARGET_DIR=TDIR, VERIF_CORPUS=os.path.join(ROOT, 'corpus'),
           RUSTFLAGS='--cfg geometry3d_verif -C instrument-coverage')
rc, out = sh(['cargo', '+nightly', 'build', '--offline', '--quiet'], cwd=os.path.join(ROOT, 'harness'), env=env)
if rc: print(out[-3000:]); sys.exit(1)
exe = os.path.join(TDIR, 'debug', 'g3harness')
shutil.rmtree(WORK, ignore_errors=True); os.makedirs(WORK)
seen = set(); nrun = 0
for p in props:
    mod = importlib.import_module('p' + p)
    for st in mod.streams(tier):
        if st.f32 or st.release: continue
        key = (st.name, st.n, tuple(st.extra))
        if key in seen: continue
        seen.add(key)
        d = os.path.join(WORK, 'out'); shutil.rmtree(d, ignore_errors=True); os.makedirs(d)
        e = dict(env, LLVM_PROFILE_FILE=os.path.join(WORK, 'p_%s_%d.profraw' % (st.name, nrun)))
        rc, out = sh([exe, 'gen', st.name, os.environ.get('VERIF_SEED', '1'), str(st.n), d] + st.extra, env=e)
        nrun += 1
        print('%s %s n=%d rc=%d' % (p, st.name, st.n, rc), flush=True)
        shutil.rmtree(d, ignore_errors=True)
prof = os.path.join(WORK, 'all.profdata')
rc, out = sh([os.path.join(TOOLS, 'llvm-profdata'), 'merge', '-sparse', '-o', prof] + glob.glob(os.path.join(WORK, '*.profraw')))
if rc: print(out); sys.exit(1)
rc, out = sh([os.path.join(TOOLS, 'llvm-cov'), 'export', '-format=lcov', '-instr-profile=' + prof, exe])
if rc: print(out[-2000:]); sys.exit(1)
files = {}; cur = None
for l in out.splitlines():
    if l.startswith('SF:'): cur = l[3:]; files.setdefault(cur, {})
    elif l.startswith('DA:') and cur:
        ln, cnt = l[3:].split(',')[:2]; files[cur][int(ln)] = max(files[cur].get(int(ln), 0), int(cnt))
rep = {}
for f, lines in sorted(files.items()):
    if not f.startswith('/repo/src/'): continue
    src = open(f).read().splitlines()
    # the crate's unit tests live in `mod testing` / `mod tests` at the end of each file and are not compiled here
    unc = sorted(l for l, c in lines.items() if c == 0)
    ranges = []
    for l in unc:
        if ranges and l == ranges[-1][1] + 1: ranges[-1][1] = l
        else: ranges.append([l, l])
    rep[os.path.relpath(f, '/repo')] = dict(instrumented=len(lines), covered=sum(1 for c in lines.values() if c > 0),
                                             uncovered=[[a, b, src[a - 1].strip()[:90]] for a, b in ranges])
json.dump(dict(tier=tier, props=props, files=rep), open(os.path.join(ROOT, 'notes', 'coverage.json'), 'w'), indent=1)
tot_i = sum(r['instrumented'] for r in rep.values()); tot_c = sum(r['covered'] for r in rep.values())
with open(os.path.join(ROOT, 'notes', 'coverage.md'), 'w') as o:
    o.write('# Lines of /repo/src executed by the correspondence streams (%s tier, f64 debug, seed %s)\n\n' % (tier, os.environ.get('VERIF_SEED', '1')))
    o.write('Produced by `tools/coverage.py`; total %d of %d instrumented lines (%.1f %%).\n\n| file | covered | instrumented | %% |\n|---|---|---|---|\n' % (tot_c, tot_i, 100.0 * tot_c / max(tot_i, 1)))
    for f, r in rep.items(): o.write('| %s | %d | %d | %.1f |\n' % (f, r['covered'], r['instrumented'], 100.0 * r['covered'] / max(r['instrumented'], 1)))
    o.write('\n## Uncovered line ranges\n')
    for f, r in rep.items():
        if not r['uncovered']: continue
        o.write('\n### %s\n' % f)
        for a, b, t in r['uncovered']: o.write('* %d-%d: `%s`\n' % (a, b, t))
print('total %d / %d' % (tot_c, tot_i))
shutil.rmtree(WORK, ignore_errors=True)
