#!/usr/bin/env python3
"""Validate a delivered seeded change and store it: tools/adopt_mutant.py <prop> <delivery-dir> <new-id> [--norun]
Checks in a scratch worktree of /repo (removed afterwards): the patch applies; the unedited suite passes with it (f64 and f32);
the demonstration fails with it and passes without it. Stores seeded/<new-id>/{patch.diff,demo.rs,notes.md,meta.json} and
runs the property's quick check against the patched tree (VERIF_REPO, never touching /repo)."""
import sys, os, json, subprocess, shutil
ROOT = os.path.dirname(os.path.dirname(os.path.abspath(__file__)))
prop, src, mid = sys.argv[1:4]
norun = '--norun' in sys.argv
def sh(cmd, cwd=None, env=None):
    r = subprocess.run(cmd, shell=True, cwd=cwd, env=env, stdout=subprocess.PIPE, stderr=subprocess.STDOUT, text=True)
    return r.returncode, r.stdout
wt = '/tmp/wt_adopt_' + mid
sh(f'git -C /repo worktree remove --force {wt}'); rc, out = sh(f'git -C /repo worktree add --detach {wt} HEAD'); assert rc == 0, out
res = {}
try:
    rc, out = sh(f'git apply {src}/patch.diff', cwd=wt); res['applies'] = rc == 0
    if rc: print('PATCH DOES NOT APPLY', out); sys.exit(1)
    def suite(feat=''):
        rc, out = sh(f'cargo test --offline {feat} 2>&1', cwd=wt)
        return [l for l in out.splitlines() if l.startswith('test result')]
    res['suite_with'] = suite(); res['suite_with_f32'] = suite('--features float')
    ok = lambda ls: len(ls) >= 2 and all(' 0 failed' in l for l in ls)
    os.makedirs(wt + '/tests', exist_ok=True); shutil.copy(src + '/demo.rs', wt + '/tests/demo_m.rs')
    rc1, out1 = sh('cargo test --offline --test demo_m 2>&1', cwd=wt)
    res['demo_with'] = [l for l in out1.splitlines() if l.startswith('test result')]
    rcr, outr = sh(f'git apply -R {src}/patch.diff', cwd=wt); assert rcr == 0, outr   # (git stash is shared between worktrees: not used)
    rc2, out2 = sh('cargo test --offline --test demo_m 2>&1', cwd=wt)
    res['demo_without'] = [l for l in out2.splitlines() if l.startswith('test result')]
    sh(f'git apply {src}/patch.diff', cwd=wt)
    valid = ok(res['suite_with']) and ok(res['suite_with_f32']) and rc1 != 0 and rc2 == 0
    res['valid'] = valid
    print(json.dumps(res, indent=1))
    if not valid: print('NOT VALID'); sys.exit(2)
    d = os.path.join(ROOT, 'seeded', mid); os.makedirs(d, exist_ok=True)
    for f in ('patch.diff', 'demo.rs', 'notes.md'): shutil.copy(os.path.join(src, f), os.path.join(d, f))
    notes = open(os.path.join(src, 'notes.md')).read()
    summary = next((l.strip('# ').strip() for l in notes.splitlines() if l.strip()), mid)
    meta = dict(id=mid, property=prop, summary=summary[:300], needs='see notes.md',
                confirmed='scratch worktree at /repo HEAD %s: suite %s (f32: %s); demo with the change: %s; without: %s' % (
                    subprocess.run('git -C /repo rev-parse --short HEAD', shell=True, capture_output=True, text=True).stdout.strip(),
                    res['suite_with'], res['suite_with_f32'], res['demo_with'], res['demo_without']),
                origin='independent sub-agent given only the property text')
    verdict = None
    if not norun:
        os.remove(wt + '/tests/demo_m.rs')
        env = dict(os.environ, VERIF_REPO=wt)
        rc, out = sh(f'./verify check {prop} --tier quick', cwd=ROOT, env=env)
        v = [l for l in out.splitlines() if l.startswith('VIOLATION')]
        det = [l.strip() for l in out.splitlines() if l.startswith('  ')][:2]
        verdict = ('caught' if rc == 1 and v else 'MISSED', (v[0] if v else ''), det)
        meta['first_verdict'] = dict(verdict=verdict[0], line=verdict[1], detail=det)
        print('VERDICT', verdict)
    json.dump(meta, open(os.path.join(d, 'meta.json'), 'w'), indent=1)
finally:
    sh(f'git -C /repo worktree remove --force {wt}')
