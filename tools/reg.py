#!/usr/bin/env python3
"""registration helper: reg.py coq F1 F2.. | mod NAME.. | gen STREAM EXPR | replay STREAM EXPR | kf FILE | claim NOTESFILE"""
import sys, json, re, os
R = '/verif'
cmd = sys.argv[1]; a = sys.argv[2:]
if cmd == 'coq':
    p = R + '/coq/_CoqProject'; s = open(p).read().rstrip('\n').split('\n')
    for f in a:
        if f not in s: s.append(f)
    open(p, 'w').write('\n'.join(s) + '\n')
elif cmd == 'mod':
    p = R + '/harness/src/main.rs'; s = open(p).read()
    for m in a:
        if f'mod {m};' not in s: s = s.replace('mod util;', f'mod util;\nmod {m};', 1)
    open(p, 'w').write(s)
elif cmd == 'gen':
    p = R + '/harness/src/main.rs'; s = open(p).read()
    line = f'                "{a[0]}" => {a[1]},\n'
    if f'"{a[0]}" =>' not in s.split('"replay" =>')[0]:
        s = s.replace('                _ => { eprintln!("unknown property {}", prop);', line + '                _ => { eprintln!("unknown property {}", prop);', 1)
    open(p, 'w').write(s)
elif cmd == 'replay':
    p = R + '/harness/src/main.rs'; s = open(p).read()
    line = f'            "{a[0]}" => {a[1]},\n'
    head, tail = s.split('"replay" =>', 1)
    if f'"{a[0]}" =>' not in tail:
        tail = tail.replace('            _ => { eprintln!("unknown property"); std::process::exit(2) }', line + '            _ => { eprintln!("unknown property"); std::process::exit(2) }', 1)
    open(p, 'w').write(head + '"replay" =>' + tail)
elif cmd == 'kf':
    kf = json.load(open(R + '/known_findings.json'))
    ent = json.load(open(a[0])); ent = ent['findings'] if isinstance(ent, dict) else ent
    have = {(f['property'], f['signature']) for f in kf['findings']}
    n = 0
    for e in ent:
        if (e['property'], e['signature']) not in have: kf['findings'].append(e); n += 1
    json.dump(kf, open(R + '/known_findings.json', 'w'), indent=1); print('added', n, 'findings')
elif cmd == 'claim':
    notes = open(a[0]).read()
    ents = re.findall(r"^( '(C\d\d)': dict\(.*?^\s*technique=.*?\),)\s*$", notes, re.S | re.M)
    p = R + '/lib/mkmanifest.py'; s = open(p).read()
    for e, pid in ents:
        if f"'{pid}': dict(" in s: print('already claimed', pid); continue
        s = s.replace("}\nNOT_YET =", e + "\n}\nNOT_YET =", 1); print('claimed', pid)
    open(p, 'w').write(s)
