#!/bin/bash
# usage: confirm_mutants.sh Cxx   -- confirms /tmp/mutwork_Cxx/mutant_{1,2} in worktree /tmp/mut_Cxx and stores them under /verif/seeded
P=$1
cd /tmp/mut_$P || exit 1
for n in 1 2; do
  git checkout -q -- . && git clean -fdq
  git apply /tmp/mutwork_$P/mutant_$n.diff || { echo "mutant $n does not apply"; continue; }
  mkdir -p tests && cp /tmp/mutwork_$P/demo_mutant_$n.rs tests/
  S=$(cargo test --offline --lib 2>&1 | grep -E "test result" | head -1)
  SF=$(cargo test --offline --lib --features float 2>&1 | grep -E "test result" | head -1)
  W=$(cargo test --offline --test demo_mutant_$n 2>&1 | grep -E "test result" | head -1)
  git checkout -q -- src
  WO=$(cargo test --offline --test demo_mutant_$n 2>&1 | grep -E "test result" | head -1)
  echo "== $P mutant $n | suite: $S | suite f32: $SF | demo with: $W | demo without: $WO"
  d=/verif/seeded/$P-m$n; mkdir -p $d
  cp /tmp/mutwork_$P/mutant_$n.diff $d/patch.diff; cp /tmp/mutwork_$P/demo_mutant_$n.rs $d/demo.rs; cp /tmp/mutwork_$P/mutant_$n.md $d/notes.md
  python3 - "$P" "$n" "$S" "$SF" "$W" "$WO" <<'PY'
import sys, json, re
P, n, S, SF, W, WO = sys.argv[1:]
notes = open('/verif/seeded/%s-m%s/notes.md' % (P, n)).read()
first = [l.strip('# ').strip() for l in notes.splitlines() if l.strip()][:1]
json.dump(dict(id='%s-m%s' % (P, n), property=P, summary=first[0] if first else '', needs='see notes.md',
  confirmed='scratch worktree: suite "%s" (f32: "%s"); demo with the change: "%s"; without: "%s"' % (S, SF, W, WO),
  origin='independent sub-agent given only the property text'), open('/verif/seeded/%s-m%s/meta.json' % (P, n), 'w'), indent=1)
PY
done
git checkout -q -- . ; git clean -fdq
