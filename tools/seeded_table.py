#!/usr/bin/env python3
"""Prints the markdown table of DESIGN.md section 8.4 from seeded/*/meta.json and seeded/last_run.json."""
import json, glob, os
ROOT = os.path.dirname(os.path.dirname(os.path.abspath(__file__)))
last = {}
p = os.path.join(ROOT, 'seeded', 'last_run.json')
if os.path.exists(p):
    for r in json.load(open(p)): last.setdefault(r['id'], []).append(r)
print('| id | what the change is | quick check of its property | also caught by |')
print('|---|---|---|---|')
for d in sorted(glob.glob(os.path.join(ROOT, 'seeded', 'C*-m*'))):
    m = json.load(open(os.path.join(d, 'meta.json')))
    i = m['id']; s = m['summary']
    for sep in ('—', ' -- ', ': '):
        if sep in s: s = s.split(sep, 1)[1]; break
    s = s.strip().rstrip('.')[:150].replace('|', '/')
    if m.get('status') == 'obsolete':
        print(f"| {i} | {s} | *obsolete*: {m['obsolete_reason'][:160]} | |"); continue
    rows = last.get(i, [])
    own = next((r for r in rows if r['property'] == m['property']), None)
    others = [r['property'] for r in rows if r['property'] != m['property'] and r['verdict'] == 'caught']
    if own is None: v = 'not run'
    elif own['verdict'] != 'caught': v = '**' + own['verdict'] + '**'
    else:
        det = own['detail']; sig = det.split('|', 1)[1].strip().split(':')[0:3] if '|' in det else []
        nf = 'no-failing-input-found' in det
        v = ('caught (model/code correspondence; no failing input found)' if nf else 'caught, failing input `' + ':'.join(sig)[:60].strip() + '`')
    print(f"| {i} | {s} | {v} | {', '.join(others)} |")
