#!/bin/bash
# full run of every stored seeded change against a scratch worktree (never /repo); result: seeded/last_run.json + table on stdout
./verify setup > /dev/null 2>&1 || { echo "setup failed"; exit 1; }
python3 tools/run_seeded.py --alt
cp seeded/last_run.json /tmp/seeded_last_run_full.json
python3 tools/seeded_table.py > /tmp/seeded_table_full.md
