#!/bin/bash
# usage: merge_deliver.sh /tmp/agent_x/deliver name   -- copies model/proof/run/harness/lib files; prints what needs manual merging
D=$1; N=$2
cd $D || exit 1
find coq harness lib corpus -type f 2>/dev/null | while read f; do
  case "$f" in
    harness/src/util.rs|harness/src/main.rs|coq/_CoqProject|coq/Run/Harness.v|harness/Cargo.toml|harness/Cargo.lock|lib/props.py|lib/mkmanifest.py|lib/composite.py) echo "SKIP (manual): $f";;
    *) mkdir -p /verif/$(dirname $f); if [ -e /verif/$f ] && ! cmp -s $f /verif/$f; then echo "OVERWRITE: $f"; fi; cp $f /verif/$f;;
  esac
done
mkdir -p /verif/notes; [ -f NOTES.md ] && cp NOTES.md /verif/notes/${N}_NOTES.md
ls *.patch patches/* 2>/dev/null | while read p; do cp $p /verif/notes/${N}_$(basename $p); echo "PATCH: $p"; done
ls *.json 2>/dev/null
