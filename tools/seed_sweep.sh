#!/bin/bash
# usage: tools/seed_sweep.sh "<seeds>" [tier]   -- every property's check for several seeds (false-alarm hunt on the unchanged tree)
./verify setup > /dev/null 2>&1 || { echo "setup failed"; exit 1; }
tier=${2:-quick}
for s in $1; do
  for p in C01 C02 C03 C04 C05 C06 C07 C08 C09 C10 C11 C12 C13 C14 C15 C16 C17 C18 C19 C20; do
    out=$(./verify check $p --tier $tier --seed $s 2>&1)
    echo "seed=$s $(echo "$out" | grep -v KNOWN-FINDING | tail -1)"
    echo "$out" | grep "^VIOLATION" -A3
  done
done
