#!/usr/bin/env python3
"""Apply every seeded change under /verif/seeded/<id>/patch.diff to /repo in turn, run the quick
check of the property it breaks (and optionally others), undo it, and tabulate the verdicts.
usage: tools/run_seeded.py [id ...]        (never leaves /repo modified)"""
import os, sys, json, subprocess, glob
ROOT = os.path.dirname(os.path.dirname(os.path.abspath(__file__)))
def sh(cmd, **kw): return subprocess.run(cmd, shell=True, stdout=subprocess.PIPE, stderr=subprocess.STDOUT, text=True, **kw)
ALT = '--alt' in sys.argv   # experiment mode: use a scratch worktree + VERIF_REPO instead of touching /repo
sys.argv = [a for a in sys.argv if a != '--alt']
ids = sys.argv[1:] or sorted(os.path.basename(d) for d in glob.glob(os.path.join(ROOT, 'seeded', '*')) if os.path.isdir(d))
assert sh('git -C /repo status --porcelain').stdout.strip() == '', '/repo is not clean'
rows = []
for i in ids:
    d = os.path.join(ROOT, 'seeded', i)
    meta = json.load(open(os.path.join(d, 'meta.json')))
    if meta.get("status") == "obsolete": rows.append((i, meta["property"], "obsolete", meta.get("obsolete_reason", "")[:120])); continue
    tree = '/repo'; env = dict(os.environ)
    if ALT:
        tree = os.environ.get('SEEDED_WT', '/tmp/seeded_wt'); sh(f'git -C /repo worktree remove --force {tree}'); sh(f'git -C /repo worktree add --detach {tree} HEAD'); env['VERIF_REPO'] = tree
    r = sh(f'git -C {tree} apply {d}/patch.diff')
    if r.returncode: rows.append((i, meta['property'], 'PATCH DOES NOT APPLY', r.stdout.strip()[:100])); continue
    try:
        for prop in [q for q in [meta['property']] + meta.get('also_check', []) if os.path.exists(os.path.join(ROOT, 'lib', 'p' + q + '.py'))]:
            r = sh(f'./verify check {prop} --tier quick', cwd=ROOT, env=env)
            v = [l for l in r.stdout.splitlines() if l.startswith('VIOLATION')]
            det = [l.strip() for l in r.stdout.splitlines() if l.startswith('  ')][:1]
            rows.append((i, prop, 'caught' if (r.returncode == 1 and v) else 'MISSED', (v[0] if v else '') + ' | ' + (det[0] if det else '')))
    finally:
        if ALT: sh(f'git -C /repo worktree remove --force {tree}')
        else: sh('git -C /repo checkout -- .')
for r in rows: print(' | '.join(r)[:260])
json.dump([dict(id=a, property=b, verdict=c, detail=d) for a, b, c, d in rows], open(os.path.join(ROOT, 'seeded', 'last_run.json'), 'w'), indent=1)
