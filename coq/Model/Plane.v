(** * Plane: model of src/plane3d.rs *)
From Coq Require Import ZArith List Bool.
From G3 Require Import Model.Num Model.Base Model.Vec.
Local Open Scope num_scope.

Section Plane.
  Context {K : Type} {NK : Num K}.
  Notation V := (V3 K).

  (** [normal] (normalised by [new]) and the coefficient [d = normal . point] *)
  Record Plane := mkPlane { pl_normal : V; pl_d : K }.

  (** Plane3D::new *)
  Definition plane_new (point normal : V) : Plane :=
    let normal := vnormalize normal in
    mkPlane normal (vdot normal point).

  (** Plane3D::test_point *)
  Definition plane_test_point (pl : Plane) (point : V) : bool :=
    nabs (vdot (pl_normal pl) point - pl_d pl) <? neps.

  (** Plane3D::intersect: the distance along the ray; tag = which return fired
      (1 = parallel band, 2 = behind or at the origin, 3 = hit).  Note [if t <= 0. {None} else {Some(t)}]
      (fix fb7e7b9; [t < 0.] on the pinned tree accepted distance zero): a NaN [t] is returned as [Some]. *)
  Definition plane_intersect_tag (pl : Plane) (ray : Ray K) : option K * N :=
    let den := vdot (pl_normal pl) (rdir ray) in
    if nabs den <? neps then (None, 1%N) else
    let t := (pl_d pl - vdot (pl_normal pl) (rorigin ray)) / den in
    if t <=? n0 then (None, 2%N) else (Some t, 3%N).
  Definition plane_intersect (pl : Plane) (ray : Ray K) : option K := fst (plane_intersect_tag pl ray).
End Plane.
Arguments Plane K : clear implicits.
