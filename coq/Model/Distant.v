(** * Distant: model of src/distant_source3d.rs (a DistantSource3D never carries a transform:
    the private field is set to None by [new] and there is no setter) *)
From Coq Require Import ZArith List Bool.
From G3 Require Import Model.Num Model.Base Model.Vec Model.BBox Model.Transform Model.Hit Model.Plane Model.Disk.
Local Open Scope num_scope.

Section Distant.
  Context {K : Type} {NK : Num K}.
  Notation V := (V3 K).

  Record Distant := mkDistant {
    ds_direction : V; ds_omega : K; ds_angle : K; ds_cos_half_alpha : K; ds_tan_half_alpha : K }.

  (** DistantSource3D::new (libm: tan, cos) *)
  Definition distant_new (direction : V) (angle : K) : Distant :=
    let tan_half_alpha := ntan (angle / n2) in
    let omega := tan_half_alpha * tan_half_alpha * npi in
    mkDistant (vnormalize direction) omega angle (ncos (angle / n2)) tan_half_alpha.

  (** get_proxy_disk: Disk3D::new can panic (sites 20..25) *)
  Definition distant_get_proxy_disk (s : Distant) (t : K) : res (Disk K) :=
    let center := vscale (ds_direction s) t in
    let normal := ds_direction s in
    let radius := t * ds_tan_half_alpha s in
    disk_new center normal radius.
  Definition distant_proxy_debug_ok (s : Distant) : bool := disk_new_debug_ok0 (ds_direction s).

  Definition distant_area (s : Distant) : K := nmaxf.

  (** simple_intersect_local_ray; tag 1 = outside the cone, 2 = hit *)
  Definition distant_simple_intersect_local_ray_tag (s : Distant) (ray : Ray K) : option V * N :=
    let cos_angle := vdot (vnormalize (rdir ray)) (ds_direction s) in
    if cos_angle >=? ds_cos_half_alpha s then (Some (ray_project ray nmaxf), 2%N) else (None, 1%N).
  Definition distant_simple_intersect_local_ray (s : Distant) (ray : Ray K) : option V :=
    fst (distant_simple_intersect_local_ray_tag s ray).

  (** intersect_local_ray: the hit data of a proxy disk at distance 10, with [p] replaced *)
  Definition distant_intersect_local_ray (s : Distant) (ray : Ray K) : res (option (Info K)) :=
    match distant_simple_intersect_local_ray s ray with
    | None => Ok None
    | Some phit =>
      let t := nofZ 10 in
      let phi := nhalf in
      do disk <- distant_get_proxy_disk s t;
      match disk_intersection_info disk ray (ray_project ray t) phi with
      | None => Ok None
      | Some info => Ok (Some (mkInfo phit (inormal info) (iside info) (idpdu info) (idpdv info)))
      end
    end.

  (** transform is always None *)
  Definition distant_intersect (s : Distant) (ray : Ray K) : res (option (Info K)) :=
    distant_intersect_local_ray s ray.
  Definition distant_simple_intersect (s : Distant) (ray : Ray K) : option V :=
    let local_ray := fst (fst (tr_inv_ray tr_new ray)) in
    distant_simple_intersect_local_ray s local_ray.
End Distant.
Arguments Distant K : clear implicits.
