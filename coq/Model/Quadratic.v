(** * Quadratic: [ApproxFloat::solve_quadratic] (Model/RoundError.v, [af_solve_quadratic]) restated
    as the composition of its steps, so that every intermediate interval has a name, plus the
    decidable side conditions the C17 theorems are stated under.  Generic over [Num];
    definitions only.  [Proofs/C17_quadratic.v] proves [af_solve_quadratic a b c =
    quad_result (quad_steps a b c)] (by computation: the two texts are the same term). *)
From Coq Require Import ZArith List Bool.
From G3 Require Import Model.Num Model.Base Model.RoundError.
Local Open Scope num_scope.

Section Quadratic.
  Context {K : Type} {NK : Num K}.
  Notation AFk := (AF K).

  (** the intermediates of [solve_quadratic], in program order *)
  Record QSteps := mkQS {
    q_bb : AFk;      (* b * b *)
    q_ac : AFk;      (* a * c *)
    q_ac4 : AFk;     (* a * c * 4. *)
    q_disc : AFk;    (* b * b - a * c * 4. *)
    q_sqrt : AFk;    (* disc.sqrt() *)
    q_branch : bool; (* b.as_float() < 0. *)
    q_pm : AFk;      (* b - discr_sqrt   or   b + discr_sqrt *)
    q_neg : AFk;     (* -(...) *)
    q_q : AFk;       (* -(...) * 0.5 *)
    q_xa : AFk;      (* q / a *)
    q_xb : AFk       (* c / q *)
  }.

  Definition quad_steps (a b c : AFk) : QSteps :=
    let bb := af_mul b b in
    let ac := af_mul a c in
    let ac4 := af_mul_f ac (nofZ 4) in
    let disc := af_sub bb ac4 in
    let discr_sqrt := af_sqrt disc in
    let br := af_as_float b <? n0 in
    let pm := if br then af_sub b discr_sqrt else af_add b discr_sqrt in
    let ng := af_neg pm in
    let q := af_mul_f ng nhalf in
    mkQS bb ac ac4 disc discr_sqrt br pm ng q (af_div q a) (af_div c q).

  (** the two decisions of the solver: reject on [disc.low < 0.], swap on [x1.low > x2.low] *)
  Definition quad_result (s : QSteps) : option (AFk * AFk) :=
    if low (q_disc s) <? n0 then None else
    if low (q_xa s) >? low (q_xb s) then Some (q_xb s, q_xa s) else Some (q_xa s, q_xb s).

  (** path tag of the solver: 1 = rejected, 2/3 = mid(b) < 0 kept/swapped, 4/5 = mid(b) >= 0 kept/swapped *)
  Definition quad_path (s : QSteps) : N :=
    if low (q_disc s) <? n0 then 1%N else
    let sw := low (q_xa s) >? low (q_xb s) in
    (if q_branch s then (if sw then 3 else 2) else (if sw then 5 else 4))%N.

  (** decidable side conditions *)
  Definition nfinite (x : K) : bool := nabs x <? ninf.          (* false on NaN and on +-inf *)
  Definition wfb (i : AFk) : bool := nfinite (low i) && nfinite (high i) && (low i <=? high i).
  Definition no_zerob (i : AFk) : bool := (n0 <? low i) || (high i <? n0).

  (** the operands of the discriminant's subtraction are finite and well formed *)
  Definition disc_ok_s (s : QSteps) : bool := wfb (q_bb s) && wfb (q_ac s) && wfb (q_ac4 s).
  (** every intermediate that is later used as an operand is finite and well formed, and the
      computed [q] interval excludes zero (it is a divisor) *)
  Definition inter_ok_s (s : QSteps) : bool :=
    disc_ok_s s && wfb (q_disc s) && wfb (q_sqrt s) && wfb (q_pm s) && wfb (q_q s) && no_zerob (q_q s).
  Definition disc_okb (a b c : AFk) : bool := disc_ok_s (quad_steps a b c).
  Definition inter_okb (a b c : AFk) : bool := inter_ok_s (quad_steps a b c).
  (** all hypotheses of the enclosure theorem (C17_roots_enclosed) / of the rejection and acceptance
      theorems (C17_none_when_negative, C17_some_when_margin), as the runner reports them *)
  Definition inputs_okb (a b c : AFk) : bool := wfb a && wfb b && wfb c.
  Definition enclosure_hyps_s (a b c : AFk) (s : QSteps) : bool :=
    inputs_okb a b c && no_zerob a && inter_ok_s s.
  Definition rejection_hyps_s (a b c : AFk) (s : QSteps) : bool := inputs_okb a b c && disc_ok_s s.

  (** the returned enclosures are nested: the first one (smaller [low]) ends after the second *)
  Definition nestedb (r : option (AFk * AFk)) : bool :=
    match r with Some (x1, x2) => negb (high x1 <=? high x2) | None => false end.
  (** the returned enclosures are disjoint (first ends before the second starts) *)
  Definition disjointb (r : option (AFk * AFk)) : bool :=
    match r with Some (x1, x2) => high x1 <? low x2 | None => false end.
End Quadratic.
Arguments QSteps K : clear implicits.
