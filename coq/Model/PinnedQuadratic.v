(** * PinnedQuadratic: [solve_quadratic] as it computed on the *pinned* tree (snapshot b5e97ad):
    the same text as [af_solve_quadratic], over the defective operator forms of Model/Pinned.v
    ([Neg], [Sub], [Mul<Float>]; repaired by d71c7af).  Kept only for the [_refuted] witness of C17.
    Definitions only. *)
From Coq Require Import ZArith List Bool.
From G3 Require Import Model.Num Model.Base Model.RoundError Model.Pinned.
Local Open Scope num_scope.

Section PinnedQuadratic.
  Context {K : Type} {NK : Num K}.
  Definition af_solve_quadratic_pinned (a b c : AF K) : option (AF K * AF K) :=
    let disc := af_sub_pinned (af_mul b b) (af_mul_f_pinned (af_mul a c) (nofZ 4)) in
    if low disc <? n0 then None else
    let discr_sqrt := af_sqrt disc in
    let q := if af_as_float b <? n0
             then af_mul_f_pinned (af_neg_pinned (af_sub_pinned b discr_sqrt)) nhalf
             else af_mul_f_pinned (af_neg_pinned (af_add b discr_sqrt)) nhalf in
    let x1 := af_div q a in
    let x2 := af_div c q in
    if low x1 >? low x2 then Some (x2, x1) else Some (x1, x2).
End PinnedQuadratic.
