(** * Base: result type and small shared definitions of the model. *)
From Coq Require Import ZArith List Bool.
From G3 Require Import Model.Num.
Import ListNotations.

(** Every [unwrap], [panic!], [unreachable!], slice index ... of the modelled code is an
    explicit [Panic site]; every [Err(String)] is an [Err class]. *)
Inductive res (A : Type) : Type :=
| Ok (a : A)
| Err (class : N)
| Panic (site : N).
Arguments Ok {A} a.
Arguments Err {A} class.
Arguments Panic {A} site.

Definition rbind {A B} (r : res A) (f : A -> res B) : res B :=
  match r with Ok a => f a | Err c => Err c | Panic s => Panic s end.
Notation "'do' x <- r ; k" := (rbind r (fun x => k)) (at level 200, x pattern, r at level 100, k at level 200).
(** [r.unwrap()] at panic site [s] *)
Definition unwrap {A} (s : N) (r : res A) : res A :=
  match r with Ok a => Ok a | Err _ => Panic s | Panic s' => Panic s' end.
Definition is_ok {A} (r : res A) : bool := match r with Ok _ => true | _ => false end.
Definition is_panic {A} (r : res A) : bool := match r with Panic _ => true | _ => false end.

Record V3 (K : Type) := mkV3 { vx : K; vy : K; vz : K }.
Arguments mkV3 {K}.
Arguments vx {K}. Arguments vy {K}. Arguments vz {K}.
