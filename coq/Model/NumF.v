(** * NumF: the primitive-float (hardware binary64) instance of [Num].
    This is the instance that is *executed* against the f64 build of the crate. *)
From Coq Require Import ZArith Floats Bool List.
From G3 Require Import Model.Num.
Import ListNotations.
Local Open Scope float_scope.

Definition Fis_neg_zero (x : float) : bool :=
  match Prim2SF x with S754_zero true => true | _ => false end.
Definition Fis_pos_zero (x : float) : bool :=
  match Prim2SF x with S754_zero false => true | _ => false end.
Definition Fnext_up (x : float) : float := next_up x.
Definition Fnext_dn (x : float) : float := next_down x.
Definition FofZ (z : Z) : float :=
  match z with
  | Z0 => 0
  | Zpos p => SF2Prim (S754_finite false p 0)
  | Zneg p => SF2Prim (S754_finite true p 0)
  end.

(** ** software libm (only used where the crate calls libm; compared with a tolerance) *)
Definition horner (cs : list float) (x : float) : float :=
  fold_right (fun c acc => c + x * acc) 0 cs.
Definition pio2_hi := 0x1.921fb54442d18p+0.
Definition pio2_lo := 0x1.1a62633145c07p-54.
Definition Fpi := 0x1.921fb54442d18p+1.
Definition magic := 0x1.8p52.
(* sin r, cos r for |r| <= pi/4, Taylor *)
Definition sin_coefs : list float :=
  [1; -0x1.5555555555555p-3; 0x1.1111111111111p-7; -0x1.a01a01a01a01ap-13; 0x1.71de3a556c734p-19;
   -0x1.ae64567f544e4p-26; 0x1.6124613a86d09p-33; -0x1.ae7f3e733b81fp-41; 0x1.952c77030ad4ap-49].
Definition cos_coefs : list float :=
  [1; -0x1p-1; 0x1.5555555555555p-5; -0x1.6c16c16c16c17p-10; 0x1.a01a01a01a01ap-16;
   -0x1.27e4fb7789f5cp-22; 0x1.1eed8eff8d898p-29; -0x1.93974a8c07c9dp-37; 0x1.ae7f3e733b81fp-45;
   -0x1.6827863b97d97p-53].
Definition ksin (r : float) := r * horner sin_coefs (r * r).
Definition kcos (r : float) := horner cos_coefs (r * r).
Definition reduce (x : float) : float * Z :=
  let kf := (x * 0x1.45f306dc9c883p-1 + magic) - magic in
  let r := (x - kf * pio2_hi) - kf * pio2_lo in
  let k := match Prim2SF kf with
           | S754_finite s m e => let v := Z.shiftl (Zpos m) e in if s then (- v)%Z else v
           | _ => 0%Z end in
  (r, (k mod 4)%Z).
Definition Fsin (x : float) : float :=
  let '(r, k) := reduce x in
  match k with 0%Z => ksin r | 1%Z => kcos r | 2%Z => - ksin r | _ => - kcos r end.
Definition Fcos (x : float) : float :=
  let '(r, k) := reduce x in
  match k with 0%Z => kcos r | 1%Z => - ksin r | 2%Z => - kcos r | _ => ksin r end.
Definition Ftan (x : float) : float := Fsin x / Fcos x.
Definition atan_coefs : list float :=
  [1; -0x1.5555555555555p-2; 0x1.999999999999ap-3; -0x1.2492492492492p-3; 0x1.c71c71c71c71cp-4;
   -0x1.745d1745d1746p-4; 0x1.3b13b13b13b14p-4; -0x1.1111111111111p-4; 0x1.e1e1e1e1e1e1ep-5;
   -0x1.af286bca1af28p-5; 0x1.8618618618618p-5; -0x1.642c8590b2164p-5; 0x1.47ae147ae147bp-5].
Definition atan_small (x : float) := x * horner atan_coefs (x * x).   (* |x| <= 0.2 *)
Definition halve (x : float) := x / (1 + sqrt (1 + x * x)).
Definition atan01 (x : float) := 4 * atan_small (halve (halve x)).   (* |x| <= 1 *)
Definition Fatan (x : float) : float :=
  if abs x <=? 1 then atan01 x
  else if 0 <? x then pio2_hi - atan01 (1 / x) else - pio2_hi - atan01 (1 / x).
Definition Fatan2 (y x : float) : float :=
  if 0 <? x then Fatan (y / x)
  else if x <? 0 then (if 0 <=? y then Fatan (y / x) + Fpi else Fatan (y / x) - Fpi)
  else if 0 <? y then pio2_hi else if y <? 0 then - pio2_hi else 0.
Definition Facos (x : float) : float := Fatan2 (sqrt ((1 - x) * (1 + x))) x.

Global Instance NumF : Num float := {|
  nadd := PrimFloat.add; nsub := PrimFloat.sub; nmul := PrimFloat.mul; ndiv := PrimFloat.div;
  nneg := PrimFloat.opp; nabs := PrimFloat.abs; nsqrt := PrimFloat.sqrt;
  nltb := PrimFloat.ltb; nleb := PrimFloat.leb; neqb := PrimFloat.eqb;
  nofZ := FofZ; neps := 0x1p-52; nmaxf := 0x1.fffffffffffffp1023; ninf := infinity;
  nnext_up := Fnext_up; nnext_dn := Fnext_dn; nis_nan := PrimFloat.is_nan;
  nsin := Fsin; ncos := Fcos; ntan := Ftan; nacos := Facos; natan2 := Fatan2; npi := Fpi
|}.
