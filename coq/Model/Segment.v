(** * Segment: model of src/segment3d.rs *)
From Coq Require Import ZArith List Bool.
From G3 Require Import Model.Num Model.Base Model.Vec.
Local Open Scope num_scope.

Section Segment.
  Context {K : Type} {NK : Num K}.
  Notation V := (V3 K).
  Record Seg := mkSeg { sstart : V; send : V; slength : K }.
  Definition seg_new (a b : V) : Seg := mkSeg a b (pdist a b).
  Definition seg_as_vec (s : Seg) : V := vsub (send s) (sstart s).
  Definition seg_as_rev_vec (s : Seg) : V := vsub (sstart s) (send s).
  Definition seg_compare (s o : Seg) : bool :=
    (vcompare (sstart s) (sstart o) && vcompare (send s) (send o)) ||
    (vcompare (send s) (sstart o) && vcompare (sstart s) (send o)).
  Definition in01 (x : K) : bool := (n0 <=? x) && (x <=? n1).          (* (0. ..=1.).contains *)
  Definition in01x (x : K) : bool := (n0 <=? x) && (x <? n1).          (* (0. ..1.).contains *)
  Definition c1em6 : K := nofQ 1 1000000.

  Definition seg_contains_point (s : Seg) (point : V) : res bool :=
    do col <- is_collinear point (sstart s) (send s);
    if negb col then Ok false else
    let ab := vsub (send s) (sstart s) in
    let ap := vsub point (sstart s) in
    if nabs (vx ab) >? neps then Ok (in01 (vx ap / vx ab))
    else if nabs (vy ab) >? neps then Ok (in01 (vy ap / vy ab))
    else if nabs (vz ab) >? neps then Ok (in01 (vz ap / vz ab))
    else Err 3%N.

  Definition seg_contains (s input : Seg) : res bool :=
    if slength s <? c1em6 then Err 4%N else
    let a1 := sstart s in let b1 := send s in
    let a2 := sstart input in let b2 := send input in
    do c1 <- is_collinear a1 b1 a2;
    (* Rust: `!c1? || !c2?` -- the second test is only evaluated when the first holds *)
    if negb c1 then Ok false else
    do c2 <- is_collinear a1 b1 b2;
    if negb c2 then Ok false else
    let a1b1 := vsub b1 a1 in
    if nabs (vx a1b1) >? c1em6 then
      Ok (in01 ((vx a2 - vx a1) / vx a1b1) && in01 ((vx b2 - vx a1) / vx a1b1))
    else if nabs (vy a1b1) >? c1em6 then
      Ok (in01 ((vy a2 - vy a1) / vy a1b1) && in01 ((vy b2 - vy a1) / vy a1b1))
    else if nabs (vz a1b1) >? c1em6 then
      Ok (in01 ((vz a2 - vz a1) / vz a1b1) && in01 ((vz b2 - vz a1) / vz a1b1))
    else Err 4%N.

  (** the tail of get_intersection_pt (choice of the projection and Cramer's rule), written once so that proofs about
      the current code and about the pinned code (Model/PinnedSegment.v) share it; tags 3/4/5 = projection along
      z/x/y, 6 = no usable projection.  [seg_get_intersection_pt_tag] below keeps the text of the Rust inline. *)
  Definition seg_solve (a b delta normal : V) : option (K * K) * N :=
    if nabs (vz normal) >? c1em5 then
      let det := vy a * vx b - vx a * vy b in
      (Some ((vy b * vx delta - vx b * vy delta) / det, (vy a * vx delta - vx a * vy delta) / det), 3%N)
    else if nabs (vx normal) >? c1em5 then
      let det := vy a * vz b - vz a * vy b in
      (Some ((vy b * vz delta - vz b * vy delta) / det, (vy a * vz delta - vz a * vy delta) / det), 4%N)
    else if nabs (vy normal) >? c1em5 then
      let det := vx a * vz b - vz a * vx b in
      (Some ((vx b * vz delta - vz b * vx delta) / det, (vx a * vz delta - vz a * vx delta) / det), 5%N)
    else (None, 6%N).

  (** returns (t_a, t_b) and the path tag: 1 same direction, 2 not coplanar, 3/4/5 projection z/x/y, 6 degenerate.
      After fix ec384e6 (finding F5): the coplanarity test is a test of the distance between the two supporting
      lines, [|delta . n| / |n|], against COPLANAR_TINY = 1e-5.  The pinned test [(delta x n).is_zero()] is kept in
      Model/PinnedSegment.v ([seg_get_intersection_pt_tag_pinned]). *)
  Definition seg_get_intersection_pt_tag (s input : Seg) : option (K * K) * N :=
    let a := vsub (send s) (sstart s) in
    let b := vsub (send input) (sstart input) in
    if vis_same_direction a b then (None, 1%N) else
    let normal := vcross a b in
    let delta := vsub (sstart s) (sstart input) in
    if nabs (vdot delta normal) >? c1em5 * vlen normal then (None, 2%N) else
    if nabs (vz normal) >? c1em5 then
      let det := vy a * vx b - vx a * vy b in
      (Some ((vy b * vx delta - vx b * vy delta) / det, (vy a * vx delta - vx a * vy delta) / det), 3%N)
    else if nabs (vx normal) >? c1em5 then
      let det := vy a * vz b - vz a * vy b in
      (Some ((vy b * vz delta - vz b * vy delta) / det, (vy a * vz delta - vz a * vy delta) / det), 4%N)
    else if nabs (vy normal) >? c1em5 then
      let det := vx a * vz b - vz a * vx b in
      (Some ((vx b * vz delta - vz b * vx delta) / det, (vx a * vz delta - vz a * vx delta) / det), 5%N)
    else (None, 6%N).
  Definition seg_get_intersection_pt (s input : Seg) := fst (seg_get_intersection_pt_tag s input).

  (** [intersect]: Some point when true (the `output` argument is only written then) *)
  Definition seg_intersect (s input : Seg) : option V :=
    match seg_get_intersection_pt s input with
    | Some (t_a, t_b) =>
      let a := vsub (send s) (sstart s) in
      if in01x t_a && ((c1em8 <=? t_b) && (t_b <? n1 - c1em8))
      then Some (vadd (sstart s) (vscale a t_a)) else None
    | None => None
    end.
  Definition seg_touches (s input : Seg) : option V :=
    match seg_get_intersection_pt s input with
    | Some (t_a, t_b) =>
      let a := vsub (send s) (sstart s) in
      if in01 t_a && in01 t_b then Some (vadd (sstart s) (vscale a t_a)) else None
    | None => None
    end.
  Definition seg_midpoint (s : Seg) : V := vscale (vadd (sstart s) (send s)) nhalf.
End Segment.
Arguments Seg K : clear implicits.
