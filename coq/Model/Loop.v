(** * Loop: model of src/loop3d.rs (the push/close state machine, point test, area, ...).
    Mutating methods return the new state together with the outcome, because [close] can
    mutate before failing.  Panic sites: 20 push/is_collinear unwrap (now `?`, kept for Pinned),
    21 Index out of bounds, 22 `% 0` in is_diagonal, 25 Vec::remove out of bounds.
    Former sites, now error returns: 23 test_point unwrap in is_diagonal (fix bff02e9), 24 push unwrap in
    sanitize (fix 32d90b8). *)
From Coq Require Import ZArith List Bool Arith.
From G3 Require Import Model.Num Model.Base Model.Vec Model.Segment.
Import ListNotations.
Local Open Scope num_scope.

Section Loop.
  Context {K : Type} {NK : Num K}.
  Notation V := (V3 K).
  Definition vzero : V := mkV3 n0 n0 n0.

  Record Loop := mkLoop { verts : list V; lnormal : V; lclosed : bool; larea : K; lperim : K }.
  Definition loop_new : Loop := mkLoop [] vzero false (- n1) (- n1).
  Definition vnth (l : list V) (i : nat) : V := nth i l vzero.
  Definition llen (L : Loop) : nat := length (verts L).
  Definition set_verts (L : Loop) (vs : list V) : Loop := mkLoop vs (lnormal L) (lclosed L) (larea L) (lperim L).
  Definition set_normal_field (L : Loop) (n : V) : Loop := mkLoop (verts L) n (lclosed L) (larea L) (lperim L).

  (** Error classes: 30 closed, 31 non-coplanar, 32 self-intersection, 33 <3 vertices, 34 open loop,
      35 no vertices, 36 no normal; collinearity of three equal points is class 1 (Vec.v) *)
  Definition loop_is_coplanar (L : Loop) (p : V) : res bool :=
    match verts L with
    | [] => Err 35%N
    | first_point :: _ =>
      if vis_zero (lnormal L) then Err 36%N else
      let d := vsub first_point p in
      Ok (nabs (vdot (lnormal L) d) <? c1em7)
    end.

  (** does the new edge (last, point) properly cross one of the edges 0 .. n-3 ? *)
  Fixpoint crosses_any (new_edge : Seg K) (vs : list V) (count : nat) : bool :=
    match count, vs with
    | S c, v :: ((v1 :: _) as tl) =>
      match seg_intersect new_edge (seg_new v v1) with
      | Some _ => true
      | None => crosses_any new_edge tl c
      end
    | _, _ => false
    end.

  Definition valid_to_add (L : Loop) (point : V) : res unit :=
    if lclosed L then Err 30%N else
    do cop <- (if negb (vis_zero (lnormal L)) then loop_is_coplanar L point else Ok true);
    if negb cop then Err 31%N else
    let n := llen L in
    if Nat.leb 3 n then
      let last_v := vnth (verts L) (Nat.sub n 1) in
      if crosses_any (seg_new last_v point) (verts L) (Nat.sub n 2) then Err 32%N else Ok tt
    else Ok tt.

  Definition loop_set_normal (L : Loop) : res Loop :=
    match verts L with
    | a :: b :: c :: _ => Ok (set_normal_field L (vnormalize (vcross (vsub b a) (vsub c b))))
    | _ => Err 33%N
    end.

  Definition replace_last (vs : list V) (p : V) : list V := removelast vs ++ [p].

  (** [push]; [collinear_unwrap] selects the pinned behaviour (`.unwrap()` => Panic 20) or the repaired one (`?`);
      [spike_dup] selects the behaviour before fix df28df6 (going straight back to the last-but-one vertex a
      replaced the last vertex by a second copy of a) or the repaired one (the spike a -> b -> a is popped). *)
  Definition loop_push_gen2 (collinear_unwrap spike_dup : bool) (L : Loop) (point : V) : res Loop :=
    do _ <- valid_to_add L point;
    let n := llen L in
    do vs <- (if Nat.leb 2 n then
                let a := vnth (verts L) (Nat.sub n 2) in
                let b := vnth (verts L) (Nat.sub n 1) in
                if negb spike_dup && vcompare a point then Ok (removelast (verts L)) else
                do col <- (if collinear_unwrap then unwrap 20%N (is_collinear a b point) else is_collinear a b point);
                Ok (if col then replace_last (verts L) point else verts L ++ [point])
              else Ok (verts L ++ [point]));
    let L' := set_verts L vs in
    if Nat.eqb (length vs) 3 then loop_set_normal L' else Ok L'.
  (** [loop_push_gen true] = the pinned snapshot b5e97ad (unwrap + duplicate); [loop_push_gen false] = the code before the
      fix of push/close (findings C04:...:after-replacement, stale-normal): kept as [loop_push_pre] for the witnesses *)
  Definition loop_push_gen (pinned : bool) := loop_push_gen2 pinned pinned.
  Definition loop_push_pre := loop_push_gen false.

  (** the live [push]: `let mut keep = n; while keep >= 2 && v[keep-2].is_collinear(v[keep-1], point)? { keep -= 1 }` --
      every trailing vertex that the new point makes redundant goes (the corner exposed by each drop is tested again); the
      count is computed before anything is mutated.  [fuel] = n bounds the loop (keep decreases from n to at least 1). *)
  Fixpoint push_keep (vs : list V) (point : V) (keep fuel : nat) : res nat :=
    match fuel with
    | O => Ok keep
    | S f =>
      if Nat.leb 2 keep then
        do col <- is_collinear (vnth vs (Nat.sub keep 2)) (vnth vs (Nat.sub keep 1)) point;
        if col then push_keep vs point (Nat.sub keep 1) f else Ok keep
      else Ok keep
    end.
  Definition loop_push (L : Loop) (point : V) : res Loop :=
    do _ <- valid_to_add L point;
    let n := llen L in
    do vs <- (if Nat.leb 2 n then
                let a := vnth (verts L) (Nat.sub n 2) in
                if vcompare a point then Ok (removelast (verts L)) else
                do keep <- push_keep (verts L) point n n;
                Ok (firstn keep (verts L) ++ [point])
              else Ok (verts L ++ [point]));
    let L' := set_verts L vs in
    if Nat.eqb (length vs) 3 then loop_set_normal L'
    else if Nat.ltb (length vs) 3 then Ok (set_normal_field L' vzero)   (* fewer than three vertices: no plane (any more) *)
    else Ok L'.

  Fixpoint sum_cross (vs : list V) (first : V) (acc : V) : V :=
    match vs with
    | [] => acc
    | v :: tl =>
      let nxt := match tl with [] => first | w :: _ => w end in
      sum_cross tl first (vadd acc (vcross v nxt))
    end.
  (** [set_area]: returns the loop with area and (possibly flipped) normal *)
  Definition loop_set_area (L : Loop) : res Loop :=
    if negb (lclosed L) then Err 34%N else
    if vis_zero (lnormal L) then Err 36%N else
    if Nat.ltb (llen L) 3 then Err 33%N else
    let rhs := sum_cross (verts L) (vnth (verts L) O) vzero in
    let area := vdot (lnormal L) rhs / n2 in
    let nrm := if area <? n0 then vscale (lnormal L) (- n1) else lnormal L in
    Ok (mkLoop (verts L) nrm (lclosed L) (nabs area) (lperim L)).
  Fixpoint sum_len (vs : list V) (first : V) (acc : K) : K :=
    match vs with
    | [] => acc
    | v :: tl =>
      let nxt := match tl with [] => first | w :: _ => w end in
      sum_len tl first (acc + vlen (vsub v nxt))
    end.
  Definition loop_set_perimeter (L : Loop) : res Loop :=
    if negb (lclosed L) then Err 34%N else
    if vis_zero (lnormal L) then Err 36%N else
    if Nat.ltb (llen L) 3 then Err 33%N else
    Ok (mkLoop (verts L) (lnormal L) (lclosed L) (larea L) (sum_len (verts L) (vnth (verts L) O) n0)).

  (** [close] before the fix of push/close (kept for the witnesses): new state + outcome *)
  Definition loop_close_pre (L : Loop) : Loop * res unit :=
    if Nat.ltb (llen L) 3 then (L, Err 33%N) else
    let n := llen L in
    match is_collinear (vnth (verts L) (Nat.sub n 2)) (vnth (verts L) (Nat.sub n 1)) (vnth (verts L) O) with
    | Err c => (L, Err c) | Panic s => (L, Panic s)
    | Ok col1 =>
      let L1 := if col1 then set_verts L (removelast (verts L)) else L in
      match valid_to_add L1 (vnth (verts L1) O) with
      | Err c => (L1, Err c) | Panic s => (L1, Panic s)
      | Ok _ =>
        let n := llen L1 in
        match is_collinear (vnth (verts L1) (Nat.sub n 1)) (vnth (verts L1) O) (vnth (verts L1) (S O)) with
        | Err c => (L1, Err c) | Panic s => (L1, Panic s)
        | Ok col2 =>
          let L2 := if col2 then set_verts L1 (tl (verts L1)) else L1 in
          let L3 := mkLoop (verts L2) (lnormal L2) true (larea L2) (lperim L2) in
          match loop_set_area L3 with
          | Err c => (L3, Err c) | Panic s => (L3, Panic s)
          | Ok L4 =>
            match loop_set_perimeter L4 with
            | Err c => (L4, Err c) | Panic s => (L4, Panic s)
            | Ok L5 => (L5, Ok tt)
            end
          end
        end
      end
    end.

  (** the live [close]: new state + outcome (the state may have changed even when the outcome is an error).
      `last_is_redundant`, `while self.last_is_redundant()? { pop }` and the loop over the first vertex; fuel = the number of
      vertices bounds each loop (every iteration removes a vertex). *)
  Definition last_is_redundant (vs : list V) : res bool :=
    let n := length vs in
    if Nat.ltb n 3 then Ok false else is_collinear (vnth vs (Nat.sub n 2)) (vnth vs (Nat.sub n 1)) (vnth vs O).
  Fixpoint pop_redundant (vs : list V) (fuel : nat) : list V * res unit :=
    match fuel with
    | O => (vs, Ok tt)
    | S f =>
      match last_is_redundant vs with
      | Ok true => pop_redundant (removelast vs) f
      | Ok false => (vs, Ok tt)
      | Err c => (vs, Err c) | Panic s => (vs, Panic s)
      end
    end.
  Fixpoint drop_first_redundant (vs : list V) (fuel : nat) : list V * res unit :=
    match fuel with
    | O => (vs, Ok tt)
    | S f =>
      let n := length vs in
      if Nat.ltb n 3 then (vs, Ok tt) else
      match is_collinear (vnth vs (Nat.sub n 1)) (vnth vs O) (vnth vs (S O)) with
      | Ok false => (vs, Ok tt)
      | Ok true =>
        let '(vs1, r) := pop_redundant (tl vs) n in
        match r with Ok _ => drop_first_redundant vs1 f | _ => (vs1, r) end
      | Err c => (vs, Err c) | Panic s => (vs, Panic s)
      end
    end.
  Definition loop_close (L : Loop) : Loop * res unit :=
    if lclosed L then (L, Err 30%N) else
    if Nat.ltb (llen L) 3 then (L, Err 33%N) else
    let '(vs1, r1) := pop_redundant (verts L) (llen L) in
    let L1 := set_verts L vs1 in
    match r1 with
    | Err c => (L1, Err c) | Panic s => (L1, Panic s)
    | Ok _ =>
      if Nat.ltb (length vs1) 3 then (L1, Err 33%N) else
      match valid_to_add L1 (vnth vs1 O) with
      | Err c => (L1, Err c) | Panic s => (L1, Panic s)
      | Ok _ =>
        let '(vs2, r2) := drop_first_redundant vs1 (length vs1) in
        let L2 := set_verts L1 vs2 in
        match r2 with
        | Err c => (L2, Err c) | Panic s => (L2, Panic s)
        | Ok _ =>
          if Nat.ltb (length vs2) 3 then (L2, Err 33%N) else
          let L3 := mkLoop (verts L2) (lnormal L2) true (larea L2) (lperim L2) in
          match loop_set_area L3 with
          | Err c => (L3, Err c) | Panic s => (L3, Panic s)
          | Ok L4 =>
            match loop_set_perimeter L4 with
            | Err c => (L4, Err c) | Panic s => (L4, Panic s)
            | Ok L5 => (L5, Ok tt)
            end
          end
        end
      end
    end.

  Definition loop_open (L : Loop) : Loop := mkLoop (verts L) (lnormal L) false (larea L) (lperim L).
  Definition loop_area (L : Loop) : res K := if lclosed L then Ok (larea L) else Err 34%N.
  Definition loop_perimeter (L : Loop) : res K := if lclosed L then Ok (lperim L) else Err 34%N.
  Definition loop_centroid (L : Loop) : res V :=
    if negb (lclosed L) then Err 34%N else
    let n := nofZ (Z.of_nat (llen L)) in
    let s := fold_left (fun acc v => mkV3 (vx acc + vx v) (vy acc + vy v) (vz acc + vz v)) (verts L) vzero in
    Ok (mkV3 (vx s / n) (vy s / n) (vz s / n)).

  (** [test_point]: the crossing count over the edges *)
  Definition edge_cross_count (L : Loop) (point d : V) (ray : Seg K) (a b : V) : res (bool * nat) :=
    (* returns (on_edge, crossings contributed) *)
    let segment_ab := seg_new a b in
    do on <- seg_contains_point segment_ab point;
    if on then Ok (true, O) else
    match seg_get_intersection_pt segment_ab ray with
    | Some (t_a, t_b) =>
      if in01 t_b && in01 t_a then
        if t_a <? neps then
          Ok (false, if vis_same_direction (vcross d (seg_as_vec segment_ab)) (lnormal L) then S O else O)
        else if t_a <? n1 then Ok (false, S O)
        else Ok (false, if vis_same_direction (vcross d (seg_as_rev_vec segment_ab)) (lnormal L) then S O else O)
      else Ok (false, O)
    | None => Ok (false, O)
    end.
  Fixpoint count_crossings (L : Loop) (point d : V) (ray : Seg K) (vs : list V) (first : V) (acc : nat) : res (bool * nat) :=
    match vs with
    | [] => Ok (false, acc)
    | a :: tl =>
      let b := match tl with [] => first | w :: _ => w end in
      do r <- edge_cross_count L point d ray a b;
      if fst r then Ok (true, acc) else count_crossings L point d ray tl first (Nat.add acc (snd r))
    end.
  (** the cast segment of [test_point] since fix 6f318c4: direction away from the midpoint of the first stored edge (as
      before), length max (2 * distance from the point to the farthest vertex, 1000), so that it always leaves the loop.
      [reach] is accumulated with Rust's NaN-ignoring [f64::max] from 0. *)
  Definition loop_reach (L : Loop) (point : V) : K :=
    fold_left (fun acc v => fmax acc (vlen (vsub v point))) (verts L) n0.
  Definition loop_ray (L : Loop) (point : V) : V :=
    let dir := vsub point (vscale (vadd (vnth (verts L) O) (vnth (verts L) (S O))) nhalf) in
    vscale dir (fmax (n2 * loop_reach L point) (nofZ 1000) / vlen dir).
  (** [test_point] with the cast segment as a parameter (shared by the live code and by Model/PinnedLoop.v) *)
  Definition loop_test_point_gen (rayf : Loop -> V -> V) (L : Loop) (point : V) : res bool :=
    if negb (lclosed L) then Err 34%N else
    do cop <- loop_is_coplanar L point;
    if negb cop then Ok false else
    let d := rayf L point in
    let ray := seg_new point (vadd point d) in
    do r <- count_crossings L point d ray (verts L) (vnth (verts L) O) O;
    if fst r then Ok true else Ok (negb (Nat.eqb (snd r) O) && Nat.odd (snd r)).
  Definition loop_test_point (L : Loop) (point : V) : res bool :=
    if negb (lclosed L) then Err 34%N else
    do cop <- loop_is_coplanar L point;
    if negb cop then Ok false else
    let dir := vsub point (vscale (vadd (vnth (verts L) O) (vnth (verts L) (S O))) nhalf) in
    let reach := fold_left (fun acc v => fmax acc (vlen (vsub v point))) (verts L) n0 in
    let d := vscale dir (fmax (n2 * reach) (nofZ 1000) / vlen dir) in
    let ray := seg_new point (vadd point d) in
    do r <- count_crossings L point d ray (verts L) (vnth (verts L) O) O;
    if fst r then Ok true else Ok (negb (Nat.eqb (snd r) O) && Nat.odd (snd r)).

  (** [is_diagonal]; the loop `for i in 0..=n` visits edge 0 twice *)
  Definition diag_edge_blocks (s : Seg K) (a b : V) : res bool :=
    let poly_s := seg_new a b in
    let intersects := match seg_intersect s poly_s with Some _ => true | None => false end in
    let different_length := nabs (slength s - slength poly_s) >? c1em7 in
    do cont <- seg_contains s poly_s;
    Ok (intersects || (cont && different_length)).
  Fixpoint diag_scan (s : Seg K) (vs : list V) (n : nat) (i count : nat) : res bool :=
    match count with
    | O => Ok false
    | S c =>
      do blk <- diag_edge_blocks s (vnth vs (Nat.modulo i n)) (vnth vs (Nat.modulo (S i) n));
      if blk then Ok true else diag_scan s vs n (S i) c
    end.
  Definition loop_is_diagonal (L : Loop) (s : Seg K) : res bool :=
    if slength s <? c1em5 then Ok false else
    let n := llen L in
    if Nat.eqb n O then Panic 22%N else
    do blocked <- diag_scan s (verts L) n O (S n);
    if blocked then Ok false else
    do inside <- loop_test_point L (seg_midpoint s);   (* `?` since fix bff02e9 (was .unwrap(): Panic 23) *)
    Ok inside.

  (** [sanitize] *)
  Fixpoint push_all (L : Loop) (vs : list V) : res Loop :=
    match vs with
    | [] => Ok L
    | v :: tl => do L' <- loop_push L v; push_all L' tl   (* `?` since fix 32d90b8 (was .unwrap(): Panic 24) *)
    end.
  Definition loop_sanitize (L : Loop) : res Loop :=
    do nw <- push_all loop_new (verts L);
    if lclosed L && Nat.leb 3 (llen nw) then
      let '(nw', r) := loop_close nw in
      do _ <- r; Ok nw'
    else Ok nw.

  Fixpoint contains_segment_from (vs : list V) (first : V) (s : Seg K) : bool :=
    match vs with
    | [] => false
    | v :: tl =>
      let nxt := match tl with [] => first | w :: _ => w end in
      if seg_compare (seg_new v nxt) s then true else contains_segment_from tl first s
    end.
  Definition loop_contains_segment (L : Loop) (s : Seg K) : bool :=
    contains_segment_from (verts L) (vnth (verts L) O) s.

  (** histories: operations applied to a loop object; a refused [push] keeps the previous state *)
  Inductive lop := LPush (p : V) | LClose.
  Definition loop_step (L : Loop) (op : lop) : Loop * res unit :=
    match op with
    | LPush p => match loop_push L p with Ok L' => (L', Ok tt) | Err c => (L, Err c) | Panic s => (L, Panic s) end
    | LClose => loop_close L
    end.
  (** the same with the code before the fix of push/close *)
  Definition loop_step_pre (L : Loop) (op : lop) : Loop * res unit :=
    match op with
    | LPush p => match loop_push_pre L p with Ok L' => (L', Ok tt) | Err c => (L, Err c) | Panic s => (L, Panic s) end
    | LClose => loop_close_pre L
    end.
  Fixpoint loop_run_pre (L : Loop) (ops : list lop) : Loop * list (res unit) :=
    match ops with
    | [] => (L, [])
    | op :: tl => let '(L', o) := loop_step_pre L op in let '(L'', os) := loop_run_pre L' tl in (L'', o :: os)
    end.
  (** the whole history: final state and the list of outcomes *)
  Fixpoint loop_run (L : Loop) (ops : list lop) : Loop * list (res unit) :=
    match ops with
    | [] => (L, [])
    | op :: tl => let '(L', o) := loop_step L op in let '(L'', os) := loop_run L' tl in (L'', o :: os)
    end.
End Loop.
Arguments Loop K : clear implicits.
Arguments lop K : clear implicits.
