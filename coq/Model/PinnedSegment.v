(** * PinnedSegment: [Segment3D::get_intersection_pt / intersect / touches] as they were BEFORE fix ec384e6
    (finding F5): the "coplanarity" test was [(delta x normal).is_zero()], true only when delta is parallel to the
    normal or (numerically) zero, so generic skew segments were reported as crossing and two segments with a common
    start point were never reported.  Definitions unchanged from the former Model/Segment.v, names suffixed
    [_pinned]; kept so that the refutations (Proofs/C19_segment.v, Properties/C19.v) stay machine-checked.
    The live model is Model/Segment.v. *)
From Coq Require Import ZArith List Bool.
From G3 Require Import Model.Num Model.Base Model.Vec Model.Segment.
Local Open Scope num_scope.

Section PinnedSegment.
  Context {K : Type} {NK : Num K}.
  Notation V := (V3 K).
  Notation Seg := (Seg K).
  (** returns (t_a, t_b) and the path tag: 1 same direction, 2 "not coplanar", 3/4/5 projection z/x/y, 6 degenerate *)
  Definition seg_get_intersection_pt_tag_pinned (s input : Seg) : option (K * K) * N :=
    let a := vsub (send s) (sstart s) in
    let b := vsub (send input) (sstart input) in
    if vis_same_direction a b then (None, 1%N) else
    let normal := vcross a b in
    let delta := vsub (sstart s) (sstart input) in
    if vis_zero (vcross delta normal) then (None, 2%N) else
    if nabs (vz normal) >? c1em5 then
      let det := vy a * vx b - vx a * vy b in
      (Some ((vy b * vx delta - vx b * vy delta) / det, (vy a * vx delta - vx a * vy delta) / det), 3%N)
    else if nabs (vx normal) >? c1em5 then
      let det := vy a * vz b - vz a * vy b in
      (Some ((vy b * vz delta - vz b * vy delta) / det, (vy a * vz delta - vz a * vy delta) / det), 4%N)
    else if nabs (vy normal) >? c1em5 then
      let det := vx a * vz b - vz a * vx b in
      (Some ((vx b * vz delta - vz b * vx delta) / det, (vx a * vz delta - vz a * vx delta) / det), 5%N)
    else (None, 6%N).
  Definition seg_get_intersection_pt_pinned (s input : Seg) := fst (seg_get_intersection_pt_tag_pinned s input).

  (** [intersect]: Some point when true (the `output` argument is only written then) *)
  Definition seg_intersect_pinned (s input : Seg) : option V :=
    match seg_get_intersection_pt_pinned s input with
    | Some (t_a, t_b) =>
      let a := vsub (send s) (sstart s) in
      if in01x t_a && ((c1em8 <=? t_b) && (t_b <? n1 - c1em8))
      then Some (vadd (sstart s) (vscale a t_a)) else None
    | None => None
    end.
  Definition seg_touches_pinned (s input : Seg) : option V :=
    match seg_get_intersection_pt_pinned s input with
    | Some (t_a, t_b) =>
      let a := vsub (send s) (sstart s) in
      if in01 t_a && in01 t_b then Some (vadd (sstart s) (vscale a t_a)) else None
    | None => None
    end.
End PinnedSegment.
