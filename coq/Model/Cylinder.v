(** * Cylinder: model of src/cylinder3d.rs (full and partial cylinders about the local z axis). *)
From Coq Require Import ZArith List Bool.
From G3 Require Import Model.Num Model.Base Model.Vec Model.BBox Model.RoundError Model.Transform Model.Hit Model.Sphere.
Local Open Scope num_scope.

Section Cylinder.
  Context {K : Type} {NK : Num K}.
  Notation V := (V3 K).

  Record Cyl := mkCyl { cradius : K; czmin : K; czmax : K; cphi_max : K; ctransform : option (Tr K) }.

  (** [Cylinder3D::new_transformed]; panic sites: 1 = zmin > zmax, 3 = phi_max out of range *)
  Definition cyl_new_transformed (radius zmin zmax phi_max : K) (transform : option (Tr K)) : res Cyl :=
    if zmin >? zmax then Panic 1%N else
    if negb (phi_in_range phi_max) then Panic 3%N else
    do phi_max <- phi_to_radians 3%N phi_max;
    Ok (mkCyl radius zmin zmax phi_max transform).

  (** the two rotation angles of [new_partial], in degrees *)
  Definition cyl_rot_y_degrees (l : V) : K :=
    to_degrees (natan2 (nsqrt (vx l * vx l + vy l * vy l)) (vz l)).
  Definition cyl_rot_z_degrees (l : V) : K := to_degrees (natan2 (vy l) (vx l)).

  (** the placement transform of [new_partial] AFTER the F4 repair:
      [translate(p0) *= rotate_z(rot_z) *= rotate_y(rot_y)], i.e. tilt about y first, then turn about z, then move *)
  Definition cyl_placement (p0 p1 : V) : Tr K :=
    let l := vsub p1 p0 in
    let transform := tr_translate (vx p0) (vy p0) (vz p0) in
    let rot_y_degrees := cyl_rot_y_degrees l in
    let rot_z_degrees := cyl_rot_z_degrees l in
    let transform := tr_mul_assign transform (tr_rotate_z rot_z_degrees) in
    tr_mul_assign transform (tr_rotate_y rot_y_degrees).
  (** ... and as the code stands (F4): [*= rotate_y] before [*= rotate_z], which applies the z-rotation to
      the (z-aligned) cylinder first, where it does nothing *)
  Definition cyl_placement_pinned (p0 p1 : V) : Tr K :=
    let l := vsub p1 p0 in
    let transform := tr_translate (vx p0) (vy p0) (vz p0) in
    let rot_y_degrees := cyl_rot_y_degrees l in
    let rot_z_degrees := cyl_rot_z_degrees l in
    let transform := tr_mul_assign transform (tr_rotate_y rot_y_degrees) in
    tr_mul_assign transform (tr_rotate_z rot_z_degrees).

  Definition cyl_new_partial_with (placement : V -> V -> Tr K) (p0 p1 : V) (radius phi_max : K) : res Cyl :=
    let l := vsub p1 p0 in
    cyl_new_transformed radius n0 (vlen l) phi_max (Some (placement p0 p1)).
  Definition cyl_new_partial := cyl_new_partial_with cyl_placement.
  Definition cyl_new_partial_pinned := cyl_new_partial_with cyl_placement_pinned.
  Definition cyl_new (p0 p1 : V) (radius : K) := cyl_new_partial p0 p1 radius (nofZ 360).
  Definition cyl_new_pinned (p0 p1 : V) (radius : K) := cyl_new_partial_pinned p0 p1 radius (nofZ 360).

  (** the quadratic of [basic_intersection] (note the operand order [dx * ox]) *)
  Definition cyl_abc (c : Cyl) (ray : Ray K) (o_error d_error : V) : AF K * AF K * AF K :=
    let dx := af_from_value_and_error (vx (rdir ray)) (vx d_error) in
    let dy := af_from_value_and_error (vy (rdir ray)) (vy d_error) in
    let ox := af_from_value_and_error (vx (rorigin ray)) (vx o_error) in
    let oy := af_from_value_and_error (vy (rorigin ray)) (vy o_error) in
    let a := af_add (af_mul dx dx) (af_mul dy dy) in
    let b := af_mul_f (af_add (af_mul dx ox) (af_mul dy oy)) n2 in
    let cc := af_sub_f (af_add (af_mul ox ox) (af_mul oy oy)) (cradius c * cradius c) in
    (a, b, cc).

  Definition cyl_reproject (c : Cyl) (phit : V) : V :=
    let hit_rad := nsqrt (vx phit * vx phit + vy phit * vy phit) in
    mkV3 (vx phit * (cradius c / hit_rad)) (vy phit * (cradius c / hit_rad)) (vz phit).
  Definition cyl_calc (c : Cyl) (ray : Ray K) (thit : AF K) : V * K :=
    let phit := ray_project ray (af_as_float thit) in
    let phit := cyl_reproject c phit in
    (phit, phi_of phit).
  Definition cyl_miss (c : Cyl) (h : V * K) : bool :=
    let '(phit, phi) := h in
    (vz phit <? czmin c) || (vz phit >? czmax c) || (phi >? cphi_max c).

  Definition cyl_basic_tag (c : Cyl) (ray : Ray K) (o_error d_error : V) : option (V * K) * N :=
    let '(a, b, cc) := cyl_abc c ray o_error d_error in
    match af_solve_quadratic a b cc with
    | None => (None, 1%N)
    | Some (t0, t1) => select_hit t0 t1 (cyl_calc c ray) (cyl_miss c)
    end.
  Definition cyl_basic c ray oe de := fst (cyl_basic_tag c ray oe de).
  (** [debug_assert!(!(t1.low < t0.low))] since fix 883f5a7 of the crate (before: [t1.as_float() >= t0.as_float()], the
      midpoints, which solve_quadratic does not order: a legal ray starting on the surface almost along the axis made
      debug builds panic -- found by the seed sweep, seed 8 of C13) *)
  Definition cyl_basic_debug_ok (c : Cyl) (ray : Ray K) (o_error d_error : V) : bool :=
    let '(a, b, cc) := cyl_abc c ray o_error d_error in
    match af_solve_quadratic a b cc with
    | None => true
    | Some (t0, t1) => negb (low t1 <? low t0)
    end.

  Definition cyl_dpdu (c : Cyl) (phit : V) : V := mkV3 (- cphi_max c * vy phit) (cphi_max c * vx phit) n0.
  Definition cyl_dpdv (c : Cyl) (phit : V) : V := mkV3 n0 n0 (czmax c - czmin c).
  Definition cyl_info (c : Cyl) (ray : Ray K) (phit : V) (phi : K) : Info K :=
    info_new ray phit (cyl_dpdu c phit) (cyl_dpdv c phit).
  Definition cyl_info_debug_ok (c : Cyl) (phit : V) : bool := info_new_debug_ok (cyl_dpdu c phit) (cyl_dpdv c phit).

  Definition cyl_bounds (c : Cyl) : BBox K :=
    bbox_new (mkV3 (- cradius c) (- cradius c) (czmin c)) (mkV3 (cradius c) (cradius c) (czmax c)).
  (** [area]; its [debug_assert!(zmax > zmin)] is [cyl_area_debug_ok] *)
  Definition cyl_area (c : Cyl) : K := (czmax c - czmin c) * cradius c * cphi_max c.
  Definition cyl_area_debug_ok (c : Cyl) : bool := czmax c >? czmin c.

  Definition cyl_intersect_local_ray (c : Cyl) (ray : Ray K) (oe de : V) : option (Info K) :=
    match cyl_basic c ray oe de with
    | None => None
    | Some (phit, phi) => Some (cyl_info c ray phit phi)
    end.
  Definition cyl_simple_intersect_local_ray (c : Cyl) (ray : Ray K) (oe de : V) : option V :=
    match cyl_basic c ray oe de with None => None | Some (phit, _) => Some phit end.

  Definition cyl_local_ray (c : Cyl) (ray : Ray K) : Ray K * V * V :=
    match ctransform c with Some t => tr_inv_ray t ray | None => (ray, vzero, vzero) end.
  Definition cyl_intersect (c : Cyl) (ray : Ray K) : option (Info K) :=
    let '(local_ray, oe, de) := cyl_local_ray c ray in
    match cyl_intersect_local_ray c local_ray oe de with
    | None => None
    | Some info => match ctransform c with Some t => Some (info_transform info t) | None => Some info end
    end.
  Definition cyl_simple_local_ray (c : Cyl) (ray : Ray K) : Ray K * V * V :=
    match ctransform c with Some t => tr_inv_ray t ray | None => tr_inv_ray tr_new ray end.
  Definition cyl_simple_intersect (c : Cyl) (ray : Ray K) : option V :=
    let '(local_ray, oe, de) := cyl_simple_local_ray c ray in
    match cyl_simple_intersect_local_ray c local_ray oe de with
    | None => None
    | Some phit => match ctransform c with Some t => Some (tr_pt t phit) | None => Some phit end
    end.
  Definition cyl_world_bounds (c : Cyl) : BBox K :=
    match ctransform c with Some t => tr_bbox t (cyl_bounds c) | None => cyl_bounds c end.
  (** debug builds: the assertion of [mul4x4point] inside [transform_bbox] (Model/Transform.v) *)
  Definition cyl_world_bounds_debug_ok (c : Cyl) : bool :=
    match ctransform c with Some t => tr_bbox_debug_ok t (cyl_bounds c) | None => true end.
End Cylinder.
Arguments Cyl K : clear implicits.
