(** * Proposed: the minimal repair of the [*_propagate_error] functions of transform.rs that is PROPOSED to the
    maintainers (NOT applied to /repo; see NOTES of C16 / known_findings.json).  Definitions only.

    The propagated input error is carried through the LINEAR part only: a translation-free absolute
    product replaces [mul4x4_abs] for the incoming error vector.  Rust:

    fn mul3x3_abs(matrix: &[Float; 16], x: Float, y: Float, z: Float) -> Point3D {
        Point3D::new(
            (matrix[elem!(0, 0)] * x).abs() + (matrix[elem!(0, 1)] * y).abs() + (matrix[elem!(0, 2)] * z).abs(),
            (matrix[elem!(1, 0)] * x).abs() + (matrix[elem!(1, 1)] * y).abs() + (matrix[elem!(1, 2)] * z).abs(),
            (matrix[elem!(2, 0)] * x).abs() + (matrix[elem!(2, 1)] * y).abs() + (matrix[elem!(2, 2)] * z).abs())
    }
    and   let err1 = mul3x3_abs(&self.elements, x, y, z) * (1. + gamma!(3));   in the four *_propagate_error functions. *)
From Coq Require Import ZArith List Bool.
From G3 Require Import Model.Num Model.Base Model.Vec Model.Transform.
Local Open Scope num_scope.

Section Proposed.
  Context {K : Type} {NK : Num K}.
  Notation V := (V3 K).
  Definition mul3x3_abs (m : M4 K) (x y z : K) : V :=
    mkV3 (nabs (m00 m * x) + nabs (m01 m * y) + nabs (m02 m * z))
         (nabs (m10 m * x) + nabs (m11 m * y) + nabs (m12 m * z))
         (nabs (m20 m * x) + nabs (m21 m * y) + nabs (m22 m * z)).
  Definition pt_propagate_error_fixed (m : M4 K) (p e : V) : V * V :=
    let '(ret, err2) := pt_with_error m p in
    let err1 := vscale (mul3x3_abs m (vx e) (vy e) (vz e)) (n1 + ngamma 3) in
    (ret, vadd err1 err2).
  Definition vec_propagate_error_fixed (m : M4 K) (v e : V) : V * V :=
    let '(ret, err2) := vec_with_error m v in
    let err1 := vscale (mul3x3_abs m (vx e) (vy e) (vz e)) (n1 + ngamma 3) in
    (ret, vadd err1 err2).
End Proposed.
