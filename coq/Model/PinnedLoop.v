(** * PinnedLoop: [Loop3D::test_point] as it was BEFORE fix 6f318c4 (finding C05:ray-too-short, DESIGN F7 (i)):
    the cast segment was  1000 (q - m),  m the midpoint of the first stored edge, so for q within about
    1e-3 x (loop size) of m it ended inside the outline and the crossing parity was that of a segment, not
    of a ray (unit square, q = (0.5, 1e-4, 0) inside -> false).  The definition is the former
    [loop_test_point] of Model/Loop.v, unchanged, under the name [loop_test_point_pinned] (it calls the live
    [count_crossings] / segment code); kept so that the refutation stays machine-checked
    (Proofs/C05_examples.v, Properties/C05.v).  The live model is Model/Loop.v.  Definitions only. *)
From Coq Require Import ZArith List Bool Arith.
From G3 Require Import Model.Num Model.Base Model.Vec Model.Segment Model.Loop.
Import ListNotations.
Local Open Scope num_scope.

Section PinnedLoop.
  Context {K : Type} {NK : Num K}.
  Notation V := (V3 K).

  Definition loop_test_point_pinned (L : Loop K) (point : V) : res bool :=
    if negb (lclosed L) then Err 34%N else
    do cop <- loop_is_coplanar L point;
    if negb cop then Ok false else
    let d := vscale (vsub point (vscale (vadd (vnth (verts L) O) (vnth (verts L) (S O))) nhalf)) (nofZ 1000) in
    let ray := seg_new point (vadd point d) in
    do r <- count_crossings L point d ray (verts L) (vnth (verts L) O) O;
    if fst r then Ok true else Ok (negb (Nat.eqb (snd r) O) && Nat.odd (snd r)).
  (** its cast segment, for [loop_test_point_gen] *)
  Definition pinned_ray (L : Loop K) (point : V) : V :=
    vscale (vsub point (vscale (vadd (vnth (verts L) O) (vnth (verts L) (S O))) nhalf)) (nofZ 1000).
End PinnedLoop.
