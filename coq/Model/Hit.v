(** * Hit: model of src/intersection.rs (SurfaceSide, IntersectionInfo; the `textures` feature is off). *)
From Coq Require Import ZArith List Bool.
From G3 Require Import Model.Num Model.Base Model.Vec Model.BBox Model.Transform.
Local Open Scope num_scope.

Inductive Side := Front | Back | NonApplicable.

Section Hit.
  Context {K : Type} {NK : Num K}.
  Notation V := (V3 K).

  (** the [debug_assert!(normal.length().abs() > 1e-8)] of debug builds: reported separately *)
  Definition get_side_debug_ok (normal : V) : bool := nabs (vlen normal) >? c1em8.

  Definition get_side (normal ray_dir : V) : V * Side :=
    let dot := vdot normal ray_dir in
    if dot <? n0 then (normal, Front)
    else if dot >? n0 then (vscale normal (- n1), Back)
    else (mkV3 n0 n0 n0, NonApplicable).

  Record Info := mkInfo { ip : V; inormal : V; iside : Side; idpdu : V; idpdv : V }.

  (** IntersectionInfo::new -- the Weingarten part only feeds the `textures` fields and is omitted *)
  Definition info_new (ray : Ray K) (p dpdu dpdv : V) : Info :=
    let normal := vnormalize (vcross dpdv dpdu) in
    let '(normal, side) := get_side normal (rdir ray) in
    mkInfo p normal side dpdu dpdv.
  Definition info_new_debug_ok (dpdu dpdv : V) : bool := get_side_debug_ok (vnormalize (vcross dpdv dpdu)).

  Definition info_transform (i : Info) (t : Tr K) : Info :=
    mkInfo (tr_pt t (ip i)) (tr_normal t (inormal i)) (iside i) (tr_vec t (idpdu i)) (tr_vec t (idpdv i)).
  Definition info_inv_transform (i : Info) (t : Tr K) : Info :=
    mkInfo (tr_inv_pt t (ip i)) (tr_inv_normal t (inormal i)) (iside i) (tr_inv_vec t (idpdu i)) (tr_inv_vec t (idpdv i)).
End Hit.
Arguments Info K : clear implicits.
