(** * Disk: model of src/disk3d.rs (disk / annulus / sector, optional transform) *)
From Coq Require Import ZArith List Bool.
From G3 Require Import Model.Num Model.Base Model.Vec Model.BBox Model.Transform Model.Hit Model.Plane.
Local Open Scope num_scope.

Section Disk.
  Context {K : Type} {NK : Num K}.
  Notation V := (V3 K).

  Record Disk := mkDisk {
    dk_centre : V; dk_normal : V; dk_radius : K; dk_inner : K;
    dk_phi_zero : V; dk_phi_max : K; dk_transform : option (Tr K) }.

  (** f64::clamp (min <= max here: 0 and 360); a NaN argument stays NaN *)
  Definition fclamp (x lo hi : K) : K :=
    let x := if x <? lo then lo else x in
    if x >? hi then hi else x.

  (** the [debug_assert!((phi_zero * normal).abs() < EPSILON)] of debug builds, reported separately:
      [true] = the assertion holds.  It is evaluated after the is_parallel panic and before the radius panics. *)
  Definition disk_project_phi_zero (normal phi_zero : V) : V :=
    vnormalize (vsub phi_zero (vscale normal (vdot normal phi_zero))).
  Definition disk_new_debug_ok (normal phi_zero : V) : bool :=
    let normal := vnormalize normal in
    if vis_parallel normal phi_zero then true else
    nabs (vdot (disk_project_phi_zero normal phi_zero) normal) <? neps.

  (** Disk3D::new_detailed; panic sites 20..23 *)
  Definition disk_new_detailed (centre normal : V) (radius inner_radius : K) (phi_zero : V) (phi_max : K)
             (transform : option (Tr K)) : res Disk :=
    let normal := vnormalize normal in
    if vis_parallel normal phi_zero then Panic 20%N else
    let phi_zero := disk_project_phi_zero normal phi_zero in
    if radius <=? inner_radius then Panic 21%N else
    if radius <? n0 then Panic 22%N else
    if inner_radius <? n0 then Panic 23%N else
    let phi_max := to_radians (fclamp phi_max n0 (nofZ 360)) in
    Ok (mkDisk centre normal radius inner_radius phi_zero phi_max transform).

  (** Disk3D::new; the [unwrap] of get_perpendicular is site 25 *)
  Definition disk_new (centre normal : V) (radius : K) : res Disk :=
    do pz <- unwrap 25%N (vget_perpendicular normal);
    disk_new_detailed centre normal radius n0 pz (nofZ 360) None.
  Definition disk_new_debug_ok0 (normal : V) : bool :=
    match vget_perpendicular normal with Ok pz => disk_new_debug_ok normal pz | _ => true end.

  (** the polar coordinates of a point of the disk's plane, as [basic_intersection] computes them *)
  Definition disk_xy (d : Disk) (phit : V) : K * K :=
    let zxn := vcross (dk_phi_zero d) (dk_normal d) in
    let r := vsub phit (dk_centre d) in
    let x := vdot r (dk_phi_zero d) in
    let y := vdot (vneg r) zxn in
    (x, y).
  Definition disk_phi (d : Disk) (phit : V) : K :=
    let '(x, y) := disk_xy d phit in
    let phi := natan2 y x in
    if phi <? n0 then phi + n2 * npi else phi.

  (** Disk3D::basic_intersection; tag: 1 = no plane hit, 2 = outside the annulus, 3 = outside the sector, 4 = hit *)
  Definition disk_basic_intersection_tag (d : Disk) (ray : Ray K) : option (V * K) * N :=
    let disk_plane := plane_new (dk_centre d) (dk_normal d) in
    match plane_intersect disk_plane ray with
    | None => (None, 1%N)
    | Some t =>
      let phit := ray_project ray t in
      let r_squared := vlen2 (vsub phit (dk_centre d)) in
      if (r_squared >? dk_radius d * dk_radius d) || (r_squared <? dk_inner d * dk_inner d) then (None, 2%N) else
      let phi := disk_phi d phit in
      if phi >? dk_phi_max d then (None, 3%N) else (Some (phit, phi), 4%N)
    end.
  Definition disk_basic_intersection (d : Disk) (ray : Ray K) : option (V * K) := fst (disk_basic_intersection_tag d ray).

  (** Disk3D::intersection_info ([phi] only feeds the `textures` fields) *)
  Definition disk_intersection_info (d : Disk) (ray : Ray K) (phit : V) (phi : K) : option (Info K) :=
    let r := vsub phit (dk_centre d) in
    let rhit := vlen r in
    let zxn := vcross (dk_phi_zero d) (dk_normal d) in
    let rhit_sin_phi := vdot (vneg r) zxn in
    let rhit_cos_phi := vdot r (dk_phi_zero d) in
    let dpdu := vadd (vscale (dk_phi_zero d) (- rhit_sin_phi))
                     (vscale zxn (rhit_cos_phi / rhit * (dk_inner d - dk_radius d))) in
    let dpdv := vadd (vscale (dk_phi_zero d) (- rhit_cos_phi))
                     (vscale zxn (rhit_sin_phi / rhit * (dk_radius d - dk_inner d))) in
    let normal := dk_normal d in
    let '(normal, side) := get_side normal (rdir ray) in
    Some (mkInfo phit normal side dpdu dpdv).

  Definition disk_area (d : Disk) : K :=
    dk_phi_max d * nhalf * (dk_radius d * dk_radius d - dk_inner d * dk_inner d).

  Definition disk_simple_intersect_local_ray (d : Disk) (ray : Ray K) : option V :=
    match disk_basic_intersection d ray with None => None | Some (phit, _) => Some phit end.
  Definition disk_intersect_local_ray (d : Disk) (ray : Ray K) : option (Info K) :=
    match disk_basic_intersection d ray with None => None | Some (phit, phi) => disk_intersection_info d ray phit phi end.

  (** the generic wrapper: world ray -> object space by the stored inverse, hit -> world by the matrix.
      [intersect] without a transform uses the ray as it is; [simple_intersect] without a transform
      goes through [Transform::new().inv_transform_ray] (which nudges the origin). *)
  Definition disk_intersect (d : Disk) (ray : Ray K) : option (Info K) :=
    let local_ray := match dk_transform d with Some t => fst (fst (tr_inv_ray t ray)) | None => ray end in
    match disk_intersect_local_ray d local_ray with
    | None => None
    | Some info => match dk_transform d with Some t => Some (info_transform info t) | None => Some info end
    end.
  Definition disk_simple_intersect (d : Disk) (ray : Ray K) : option V :=
    let local_ray := match dk_transform d with Some t => fst (fst (tr_inv_ray t ray)) | None => fst (fst (tr_inv_ray tr_new ray)) end in
    match disk_simple_intersect_local_ray d local_ray with
    | None => None
    | Some phit => match dk_transform d with Some t => Some (tr_pt t phit) | None => Some phit end
    end.
End Disk.
Arguments Disk K : clear implicits.
