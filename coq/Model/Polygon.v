(** * Polygon: model of src/polygon3d.rs (holes, hole cutting, merging holes into one outline).
    Panic sites: 40 `expect` in From<Loop3D>, 41 push unwrap in get_closed_loop, 21 Index out of
    bounds, 42 `% 0` in the hole walk.  Error classes: 50 normals not parallel, 51 hole vertex not inside,
    52 encloses an existing hole, 53 inner-loop index out of bounds ([inner]). *)
From Coq Require Import ZArith List Bool Arith.
From G3 Require Import Model.Num Model.Base Model.Vec Model.Segment Model.Loop.
Import ListNotations.
Local Open Scope num_scope.

Section Polygon.
  Context {K : Type} {NK : Num K}.
  Notation V := (V3 K).

  Record Poly := mkPoly { pouter : Loop K; pinner : list (Loop K); parea : K; pnormal : V }.

  (** Polygon3D::new (Err 34 when the outer loop is open) and From<Loop3D> (panics instead) *)
  Definition poly_new (outer : Loop K) : res Poly :=
    if negb (lclosed outer) then Err 34%N else
    do a <- loop_area outer; Ok (mkPoly outer [] a (lnormal outer)).
  Definition poly_from (outer : Loop K) : res Poly :=
    do a <- unwrap 40%N (loop_area outer); Ok (mkPoly outer [] a (lnormal outer)).

  Fixpoint in_any_hole (hs : list (Loop K)) (p : V) : res bool :=
    match hs with
    | [] => Ok false
    | h :: tl => do b <- loop_test_point h p; if b then Ok true else in_any_hole tl p
    end.
  Definition poly_test_point (P : Poly) (p : V) : res bool :=
    do o <- loop_test_point (pouter P) p;
    if negb o then Ok false else
    do h <- in_any_hole (pinner P) p; Ok (negb h).

  (** error classes: 50 normals not parallel, 51 hole vertex not inside, 52 encloses an existing hole *)
  Fixpoint all_inside (P : Poly) (vs : list V) : res bool :=
    match vs with
    | [] => Ok true
    | v :: tl => do b <- poly_test_point P v; if b then all_inside P tl else Ok false
    end.
  Fixpoint any_inside_loop (h : Loop K) (vs : list V) : res bool :=
    match vs with
    | [] => Ok false
    | v :: tl => do b <- loop_test_point h v; if b then Ok true else any_inside_loop h tl
    end.
  Fixpoint encloses_any (hole : Loop K) (hs : list (Loop K)) : res bool :=
    match hs with
    | [] => Ok false
    | h :: tl => do b <- any_inside_loop hole (verts h); if b then Ok true else encloses_any hole tl
    end.
  (** [cut_hole]: Ok new polygon, or an error (the polygon is then untouched) *)
  Definition poly_cut_hole (P : Poly) (hole : Loop K) : res Poly :=
    if negb (vis_parallel (pnormal P) (lnormal hole)) then Err 50%N else
    do ins <- all_inside P (verts hole);
    if negb ins then Err 51%N else
    do enc <- encloses_any hole (pinner P);
    if enc then Err 52%N else
    do ha <- loop_area hole;
    Ok (mkPoly (pouter P) (pinner P ++ [hole]) (parea P - ha) (pnormal P)).

  (** ** get_closed_loop *)
  (** the search state: (min_distance, min_ext_vertex_id, min_inner_loop_id, inner_loop_id, inner_vertex_id);
      inner_loop_id / inner_vertex_id persist across the outer iterations in the Rust code *)
  Definition Sst := (K * nat * nat * nat * nat)%type.
  Fixpoint scan_inner_vertices (ext_vertex : V) (j k : nat) (ivs : list V) (l : nat) (st : Sst) : Sst :=
    match ivs with
    | [] => st
    | iv :: tl =>
      let '(md, me, ml, il, iv_id) := st in
      let distance := psqdist ext_vertex iv in
      let st' := if distance <? md then (distance, j, k, k, l) else st in
      scan_inner_vertices ext_vertex j k tl (S l) st'
    end.
  Fixpoint scan_inner_loops (ext_vertex : V) (j : nat) (hs : list (Loop K)) (k : nat) (processed : list nat) (st : Sst) : Sst :=
    match hs with
    | [] => st
    | h :: tl =>
      let st' := if existsb (Nat.eqb k) processed then st else scan_inner_vertices ext_vertex j k (verts h) 0 st in
      scan_inner_loops ext_vertex j tl (S k) processed st'
    end.
  Fixpoint scan_ext (evs : list V) (j : nat) (hs : list (Loop K)) (processed : list nat) (st : Sst) : Sst :=
    match evs with
    | [] => st
    | ev :: tl => scan_ext tl (S j) hs processed (scan_inner_loops ev j hs 0 processed st)
    end.

  (** index of the j-th hole vertex to add.  [wrap = true] is the pinned arithmetic
      `(id as i32 - j as i32) as usize % n` (two's complement through i32 -> usize, 64-bit);
      [wrap = false] the repaired `(id + n - j) % n`. *)
  Definition hole_index (wrap : bool) (same_dir : bool) (id j n : nat) : nat :=
    if same_dir then
      if wrap then
        let d := (Z.of_nat id - Z.of_nat j)%Z in
        let u := if (d <? 0)%Z then (d + 2 ^ 64)%Z else d in
        Z.to_nat (u mod Z.of_nat n)%Z
      else Nat.modulo (id + n - j) n
    else Nat.modulo (id + j) n.

  Fixpoint push_hole_walk (wrap : bool) (aux : Loop K) (hole : Loop K) (same_dir : bool) (id n : nat) (j count : nat) : res (Loop K) :=
    match count with
    | O => Ok aux
    | S c =>
      let idx := hole_index wrap same_dir id j n in
      if Nat.leb (llen hole) idx then Panic 21%N else
      do aux' <- unwrap 41%N (loop_push aux (vnth (verts hole) idx));
      push_hole_walk wrap aux' hole same_dir id n (S j) c
    end.
  Fixpoint rebuild (wrap : bool) (outer_normal : V) (evs : list V) (i : nat) (min_ext : nat) (hole : Loop K) (iv_id : nat) (aux : Loop K) : res (Loop K) :=
    match evs with
    | [] => Ok aux
    | ev :: tl =>
      do aux1 <- unwrap 41%N (loop_push aux ev);
      do aux2 <- (if Nat.eqb i min_ext then
                    let n := llen hole in
                    if Nat.eqb n 0 then Panic 42%N else
                    do a <- push_hole_walk wrap aux1 hole (vis_same_direction outer_normal (lnormal hole)) iv_id n 0 (S n);
                    unwrap 41%N (loop_push a ev)
                  else Ok aux1);
      rebuild wrap outer_normal tl (S i) min_ext hole iv_id aux2
    end.
  (** the squared distance the nearest-pair scan starts from: 9E14 on the pinned snapshot (a hole farther than 3e7
      from the outline was never selected), Float::MAX since fix f0d596d.  The pinned value goes with [wrap = true]. *)
  Definition c9e14 : K := nofZ 900000000000000.
  Definition scan_start (wrap : bool) : K := if wrap then c9e14 else nmaxf.
  (** fix bcb072e: when the polygon has several holes the chosen outline vertex may be visited several times (it already
      carries bridges): the bridge is attached at the first visit whose interior angle, for the outer normal, contains it.
      [in_cone n e prev next h]; [find_visit] scans the visits j = 0 .. len-1 in order. *)
  Definition in_cone (n e prev next h : V) : bool :=
    let a := vsub next e in let b := vsub prev e in let d := vsub h e in
    if vdot (vcross a b) n >=? n0 then (vdot (vcross a d) n >? n0) && (vdot (vcross d b) n >? n0)
    else negb ((vdot (vcross b d) n >=? n0) && (vdot (vcross d a) n >=? n0)).
  Fixpoint find_visit (n e h : V) (vs : list V) (len j cnt : nat) : option nat :=
    match cnt with
    | O => None
    | S c =>
      if vcompare (vnth vs j) e && in_cone n e (vnth vs (Nat.modulo (j + len - 1) len)) (vnth vs (Nat.modulo (j + 1) len)) h
      then Some j else find_visit n e h vs len (S j) c
    end.
  (** the attachment position: [Ok j]; [Panic 21] = `ret_loop[min_ext_vertex_id]` out of bounds (empty outline).
      [wrap = true] (pinned snapshot): always the scan's position. *)
  Definition attach_index (wrap : bool) (P : Poly) (vs : list V) (me : nat) (hole : Loop K) (iv' : nat) : res nat :=
    if wrap then Ok me else
    if Nat.ltb 1 (length (pinner P)) && Nat.ltb iv' (llen hole) then
      if Nat.leb (length vs) me then Panic 21%N else
      match find_visit (lnormal (pouter P)) (vnth vs me) (vnth (verts hole) iv') vs (length vs) 0 (length vs) with
      | Some j => Ok j
      | None => Ok me
      end
    else Ok me.
  Fixpoint merge_holes (wrap : bool) (P : Poly) (count : nat) (ret_loop : Loop K) (processed : list nat) (il iv_id : nat) : res (Loop K) :=
    match count with
    | O => Ok ret_loop
    | S c =>
      let '(md, me0, ml, il', iv') := scan_ext (verts ret_loop) 0 (pinner P) processed (scan_start wrap, O, O, il, iv_id) in
      match nth_error (pinner P) ml with
      | None => Panic 21%N
      | Some hole =>
        do me <- attach_index wrap P (verts ret_loop) me0 hole iv';
        do aux <- rebuild wrap (lnormal (pouter P)) (verts ret_loop) 0 me hole iv' loop_new;
        merge_holes wrap P c aux (processed ++ [il']) il' iv'
      end
    end.
  Definition poly_get_closed_loop_gen (wrap : bool) (P : Poly) : res (Loop K) :=
    merge_holes wrap P (length (pinner P)) (loop_open (pouter P)) [] 0 0.
  Definition poly_get_closed_loop := poly_get_closed_loop_gen false.

  (** histories of candidate holes applied to a polygon object: `cut_hole(&mut self, ..)` only mutates
      on its way to `Ok(())` (the two assignments are the last statements), so a refused call keeps the
      previous state *)
  Definition poly_step (P : Poly) (hole : Loop K) : Poly * res unit :=
    match poly_cut_hole P hole with Ok P' => (P', Ok tt) | Err c => (P, Err c) | Panic s => (P, Panic s) end.
  Fixpoint poly_run (P : Poly) (hs : list (Loop K)) : Poly * list (res unit) :=
    match hs with
    | [] => (P, [])
    | h :: tl => let '(P', o) := poly_step P h in let '(P'', os) := poly_run P' tl in (P'', o :: os)
    end.

  (** [Polygon3D::inner(i)]: borrows the i-th inner loop; error class 53 = "Index out of bounds when trying to retrieve
      inner loop" (the slice index behind the guard cannot fail: site 21 is unreachable) *)
  Definition poly_inner (P : Poly) (i : nat) : res (Loop K) :=
    if Nat.ltb i (length (pinner P)) then
      match nth_error (pinner P) i with Some l => Ok l | None => Panic 21%N end
    else Err 53%N.
  Definition poly_n_inner_loops (P : Poly) : nat := length (pinner P).

  Definition poly_contains_segment (P : Poly) (s : Seg K) : bool :=
    loop_contains_segment (pouter P) s || existsb (fun h => loop_contains_segment h s) (pinner P).
  Definition poly_outer_centroid (P : Poly) : V :=
    let s := fold_left (fun acc v => vadd acc v) (verts (pouter P)) vzero in
    vdivs s (nofZ (Z.of_nat (llen (pouter P)))).
End Polygon.
Arguments Poly K : clear implicits.
