(** * NumF32: the binary32 instance used to run the model against the `float` (f32) build.
    Carrier: primitive binary64 floats that always hold binary32 values; every operation is the
    binary64 operation followed by rounding to binary32; the rounding itself is Flocq's [binary_normalize] at (24,128).
    The double rounding is innocuous for + - * / sqrt (53 >= 2*24+2): this is PROVED, special values included, in
    Theory/F32Bridge.v ([of_b32_hom : NumHom NumB32 NumF32 of_b32], [double_rounding_innocuous]; property theorems
    [C07_prim32_double_rounding_innocuous] ... in Properties/C07_prim32.v): the instance IS IEEE binary32 ([NumB32]). *)
From Coq Require Import ZArith Floats Bool List.
From Flocq Require Import IEEE754.BinarySingleNaN.
From G3 Require Import Model.Num Model.NumF.
Local Open Scope float_scope.

Definition to_b32 (x : float) : b32 := B32ofSF (Prim2SF x).
Definition of_b32 (b : b32) : float := SF2Prim (B2SF b).
Definition r32 (x : float) : float := of_b32 (to_b32 x).
Definition next_up32 (x : float) : float := of_b32 (@nnext_up _ NumB32 (to_b32 x)).
Definition next_dn32 (x : float) : float := of_b32 (@nnext_dn _ NumB32 (to_b32 x)).

(** a plain definition, NOT an instance: type-class resolution on [float] must keep finding [NumF];
    the f32 runners pass [NumF32] explicitly *)
Definition NumF32 : Num float := {|
  nadd := fun a b => r32 (a + b); nsub := fun a b => r32 (a - b);
  nmul := fun a b => r32 (a * b); ndiv := fun a b => r32 (a / b);
  nneg := PrimFloat.opp; nabs := PrimFloat.abs; nsqrt := fun a => r32 (PrimFloat.sqrt a);
  nltb := PrimFloat.ltb; nleb := PrimFloat.leb; neqb := PrimFloat.eqb;
  nofZ := fun z => r32 (FofZ z); neps := 0x1p-23; nmaxf := 0x1.fffffep127; ninf := infinity;
  nnext_up := next_up32; nnext_dn := next_dn32; nis_nan := PrimFloat.is_nan;
  nsin := fun x => r32 (Fsin x); ncos := fun x => r32 (Fcos x); ntan := fun x => r32 (Ftan x);
  nacos := fun x => r32 (Facos x); natan2 := fun y x => r32 (Fatan2 y x); npi := r32 Fpi
|}.
