(** * SegmentFixed: model of src/segment3d.rs WITH the proposed repair of finding F5
    (deliver/patches/segment3d_coplanarity.patch): the "coplanarity" test
      [if delta.cross(normal).is_zero() { return None; }]
    becomes a test of the distance between the two supporting lines, |delta . n| / |n|:
      [if (delta * normal).abs() > 1e-5 * normal.length() { return None; }]
    Everything else is the text of Model/Segment.v.  Definitions only.
    [seg_solve] is the common tail (choice of the projection and Cramer's rule), written once so that
    the proofs about the current code and about the repaired code share it. *)
From Coq Require Import ZArith List Bool.
From G3 Require Import Model.Num Model.Base Model.Vec Model.Segment.
Local Open Scope num_scope.

Section SegmentFixed.
  Context {K : Type} {NK : Num K}.
  Notation V := (V3 K).

  (** the tail of get_intersection_pt: tags 3/4/5 = projection along z/x/y, 6 = no usable projection *)
  Definition seg_solve (a b delta normal : V) : option (K * K) * N :=
    if nabs (vz normal) >? c1em5 then
      let det := vy a * vx b - vx a * vy b in
      (Some ((vy b * vx delta - vx b * vy delta) / det, (vy a * vx delta - vx a * vy delta) / det), 3%N)
    else if nabs (vx normal) >? c1em5 then
      let det := vy a * vz b - vz a * vy b in
      (Some ((vy b * vz delta - vz b * vy delta) / det, (vy a * vz delta - vz a * vy delta) / det), 4%N)
    else if nabs (vy normal) >? c1em5 then
      let det := vx a * vz b - vz a * vx b in
      (Some ((vx b * vz delta - vz b * vx delta) / det, (vx a * vz delta - vz a * vx delta) / det), 5%N)
    else (None, 6%N).

  Definition seg_get_intersection_pt_fixed_tag (s input : Seg K) : option (K * K) * N :=
    let a := vsub (send s) (sstart s) in
    let b := vsub (send input) (sstart input) in
    if vis_same_direction a b then (None, 1%N) else
    let normal := vcross a b in
    let delta := vsub (sstart s) (sstart input) in
    if nabs (vdot delta normal) >? c1em5 * vlen normal then (None, 2%N) else
    seg_solve a b delta normal.
  Definition seg_get_intersection_pt_fixed (s input : Seg K) := fst (seg_get_intersection_pt_fixed_tag s input).

  Definition seg_intersect_fixed (s input : Seg K) : option V :=
    match seg_get_intersection_pt_fixed s input with
    | Some (t_a, t_b) =>
      let a := vsub (send s) (sstart s) in
      if in01x t_a && ((c1em8 <=? t_b) && (t_b <? n1 - c1em8))
      then Some (vadd (sstart s) (vscale a t_a)) else None
    | None => None
    end.
  Definition seg_touches_fixed (s input : Seg K) : option V :=
    match seg_get_intersection_pt_fixed s input with
    | Some (t_a, t_b) =>
      let a := vsub (send s) (sstart s) in
      if in01 t_a && in01 t_b then Some (vadd (sstart s) (vscale a t_a)) else None
    | None => None
    end.
End SegmentFixed.
