(** * Transform: model of src/transform.rs (row-major 4x4 matrix + stored inverse). *)
From Coq Require Import ZArith List Bool.
From G3 Require Import Model.Num Model.Base Model.Vec Model.BBox.
Local Open Scope num_scope.

Section Transform.
  Context {K : Type} {NK : Num K}.
  Notation V := (V3 K).

  Record M4 := mkM4 {
    m00 : K; m01 : K; m02 : K; m03 : K;
    m10 : K; m11 : K; m12 : K; m13 : K;
    m20 : K; m21 : K; m22 : K; m23 : K;
    m30 : K; m31 : K; m32 : K; m33 : K }.
  Record Tr := mkTr { elements : M4; inv_elements : M4 }.

  Definition m4_id : M4 := mkM4 n1 n0 n0 n0  n0 n1 n0 n0  n0 n0 n1 n0  n0 n0 n0 n1.

  (** mul4x4point, including the division by w *)
  Definition mul4x4point (m : M4) (p : V) : V :=
    let '(x, y, z) := (vx p, vy p, vz p) in
    let new_x := m00 m * x + m01 m * y + m02 m * z + m03 m in
    let new_y := m10 m * x + m11 m * y + m12 m * z + m13 m in
    let new_z := m20 m * x + m21 m * y + m22 m * z + m23 m in
    let w := m30 m * x + m31 m * y + m32 m * z + m33 m in
    vdivs (mkV3 new_x new_y new_z) w.
  (** the [debug_assert!((1.0 - w.abs()) < 2. * Float::EPSILON)] of mul4x4point: a panic of debug builds only.  With an
      affine matrix (last row 0 0 0 1) it fires exactly when a coordinate of the point is infinite or NaN (0 * inf = NaN,
      and the comparison is false on NaN).  Reported separately, as for the other debug assertions. *)
  Definition mul4x4point_debug_ok (m : M4) (p : V) : bool :=
    let '(x, y, z) := (vx p, vy p, vz p) in
    let w := m30 m * x + m31 m * y + m32 m * z + m33 m in
    (n1 - nabs w) <? n2 * neps.
  Definition mul4x4vec (m : M4) (v : V) : V :=
    let '(x, y, z) := (vx v, vy v, vz v) in
    mkV3 (m00 m * x + m01 m * y + m02 m * z)
         (m10 m * x + m11 m * y + m12 m * z)
         (m20 m * x + m21 m * y + m22 m * z).
  Definition mul4x4_abs (m : M4) (x y z : K) : V :=
    mkV3 (nabs (m00 m * x) + nabs (m01 m * y) + nabs (m02 m * z) + nabs (m03 m))
         (nabs (m10 m * x) + nabs (m11 m * y) + nabs (m12 m * z) + nabs (m13 m))
         (nabs (m20 m * x) + nabs (m21 m * y) + nabs (m22 m * z) + nabs (m23 m)).
  (** linear part only (no translation column): carries an input error through the transform *)
  Definition mul3x3_abs (m : M4) (x y z : K) : V :=
    mkV3 (nabs (m00 m * x) + nabs (m01 m * y) + nabs (m02 m * z))
         (nabs (m10 m * x) + nabs (m11 m * y) + nabs (m12 m * z))
         (nabs (m20 m * x) + nabs (m21 m * y) + nabs (m22 m * z)).
  Definition mul4x4 (a b : M4) : M4 :=
    let e (r0 r1 r2 r3 c0 c1 c2 c3 : K) := r0 * c0 + r1 * c1 + r2 * c2 + r3 * c3 in
    mkM4
      (e (m00 a) (m01 a) (m02 a) (m03 a) (m00 b) (m10 b) (m20 b) (m30 b))
      (e (m00 a) (m01 a) (m02 a) (m03 a) (m01 b) (m11 b) (m21 b) (m31 b))
      (e (m00 a) (m01 a) (m02 a) (m03 a) (m02 b) (m12 b) (m22 b) (m32 b))
      (e (m00 a) (m01 a) (m02 a) (m03 a) (m03 b) (m13 b) (m23 b) (m33 b))
      (e (m10 a) (m11 a) (m12 a) (m13 a) (m00 b) (m10 b) (m20 b) (m30 b))
      (e (m10 a) (m11 a) (m12 a) (m13 a) (m01 b) (m11 b) (m21 b) (m31 b))
      (e (m10 a) (m11 a) (m12 a) (m13 a) (m02 b) (m12 b) (m22 b) (m32 b))
      (e (m10 a) (m11 a) (m12 a) (m13 a) (m03 b) (m13 b) (m23 b) (m33 b))
      (e (m20 a) (m21 a) (m22 a) (m23 a) (m00 b) (m10 b) (m20 b) (m30 b))
      (e (m20 a) (m21 a) (m22 a) (m23 a) (m01 b) (m11 b) (m21 b) (m31 b))
      (e (m20 a) (m21 a) (m22 a) (m23 a) (m02 b) (m12 b) (m22 b) (m32 b))
      (e (m20 a) (m21 a) (m22 a) (m23 a) (m03 b) (m13 b) (m23 b) (m33 b))
      (e (m30 a) (m31 a) (m32 a) (m33 a) (m00 b) (m10 b) (m20 b) (m30 b))
      (e (m30 a) (m31 a) (m32 a) (m33 a) (m01 b) (m11 b) (m21 b) (m31 b))
      (e (m30 a) (m31 a) (m32 a) (m33 a) (m02 b) (m12 b) (m22 b) (m32 b))
      (e (m30 a) (m31 a) (m32 a) (m33 a) (m03 b) (m13 b) (m23 b) (m33 b)).

  (** [a *= b].  The stored inverse of (A.B) is inv(B).inv(A) (after fix: of MulAssign). *)
  Definition tr_mul_assign (a b : Tr) : Tr :=
    mkTr (mul4x4 (elements a) (elements b)) (mul4x4 (inv_elements b) (inv_elements a)).

  Definition tr_new : Tr := mkTr m4_id m4_id.
  Definition tr_translate (x y z : K) : Tr :=
    mkTr (mkM4 n1 n0 n0 x  n0 n1 n0 y  n0 n0 n1 z  n0 n0 n0 n1)
         (mkM4 n1 n0 n0 (- x)  n0 n1 n0 (- y)  n0 n0 n1 (- z)  n0 n0 n0 n1).
  Definition tr_scale (x y z : K) : Tr :=
    mkTr (mkM4 x n0 n0 n0  n0 y n0 n0  n0 n0 z n0  n0 n0 n0 n1)
         (mkM4 (n1 / x) n0 n0 n0  n0 (n1 / y) n0 n0  n0 n0 (n1 / z) n0  n0 n0 n0 n1).
  (** the rotations take (sin rad, cos rad) = (s, c); [to_radians] and libm are applied by the caller *)
  Definition tr_rotate_x_sc (s c : K) : Tr :=
    mkTr (mkM4 n1 n0 n0 n0  n0 c (- s) n0  n0 s c n0  n0 n0 n0 n1)
         (mkM4 n1 n0 n0 n0  n0 c s n0  n0 (- s) c n0  n0 n0 n0 n1).
  Definition tr_rotate_y_sc (s c : K) : Tr :=
    mkTr (mkM4 c n0 s n0  n0 n1 n0 n0  (- s) n0 c n0  n0 n0 n0 n1)
         (mkM4 c n0 (- s) n0  n0 n1 n0 n0  s n0 c n0  n0 n0 n0 n1).
  Definition tr_rotate_z_sc (s c : K) : Tr :=
    mkTr (mkM4 c (- s) n0 n0  s c n0 n0  n0 n0 n1 n0  n0 n0 n0 n1)
         (mkM4 c s n0 n0  (- s) c n0 n0  n0 n0 n1 n0  n0 n0 n0 n1).
  (** f64::to_radians: degrees * (PI / 180) *)
  Definition to_radians (deg : K) : K := deg * (npi / nofZ 180).
  Definition tr_rotate_x (deg : K) := let r := to_radians deg in tr_rotate_x_sc (nsin r) (ncos r).
  Definition tr_rotate_y (deg : K) := let r := to_radians deg in tr_rotate_y_sc (nsin r) (ncos r).
  Definition tr_rotate_z (deg : K) := let r := to_radians deg in tr_rotate_z_sc (nsin r) (ncos r).

  Definition det3 (m : M4) : K :=
    m00 m * (m11 m * m22 m - m12 m * m21 m)
    - m01 m * (m10 m * m22 m - m12 m * m20 m)
    + m02 m * (m10 m * m21 m - m11 m * m20 m).
  Definition tr_changes_hands (t : Tr) : bool := det3 (elements t) <? n0.

  Definition tr_pt (t : Tr) (p : V) : V := mul4x4point (elements t) p.
  Definition tr_inv_pt (t : Tr) (p : V) : V := mul4x4point (inv_elements t) p.
  Definition tr_vec (t : Tr) (v : V) : V := mul4x4vec (elements t) v.
  Definition tr_inv_vec (t : Tr) (v : V) : V := mul4x4vec (inv_elements t) v.

  (** points: four roundings per row, gamma(4) (fix: 34af114); vectors: three, gamma(3) *)
  Definition pt_with_error (m : M4) (p : V) : V * V :=
    (mul4x4point m p, vscale (mul4x4_abs m (vx p) (vy p) (vz p)) (ngamma 4)).
  (** the incoming error goes through the linear part only (fix: 5455df2) *)
  Definition pt_propagate_error (m : M4) (p e : V) : V * V :=
    let '(ret, err2) := pt_with_error m p in
    let err1 := vscale (mul3x3_abs m (vx e) (vy e) (vz e)) (n1 + ngamma 3) in
    (ret, vadd err1 err2).
  (** a vector's image does not involve the translation column, nor does its error (fix: vectors use [mul3x3_abs]) *)
  Definition vec_with_error (m : M4) (v : V) : V * V :=
    (mul4x4vec m v, vscale (mul3x3_abs m (vx v) (vy v) (vz v)) (ngamma 3)).
  Definition vec_propagate_error (m : M4) (v e : V) : V * V :=
    let '(ret, err2) := vec_with_error m v in
    let err1 := vscale (mul3x3_abs m (vx e) (vy e) (vz e)) (n1 + ngamma 3) in
    (ret, vadd err1 err2).

  Definition normal_by (m : M4) (v : V) : V :=
    let '(x, y, z) := (vx v, vy v, vz v) in
    mkV3 (m00 m * x + m10 m * y + m20 m * z)
         (m01 m * x + m11 m * y + m21 m * z)
         (m02 m * x + m12 m * y + m22 m * z).
  Definition tr_normal (t : Tr) (v : V) : V := normal_by (inv_elements t) v.
  Definition tr_inv_normal (t : Tr) (v : V) : V := normal_by (elements t) v.

  (** the common tail of the four [*_ray*] functions *)
  Definition nudge (origin direction o_error : V) : V :=
    let l2 := vlen2 direction in
    if l2 >? n0 then
      let dt := vdot (vabs direction) o_error / l2 in
      vadd origin (vscale direction dt)
    else origin.
  Definition ray_by (m : M4) (r : Ray K) : Ray K * V * V :=
    let '(origin, o_error) := pt_with_error m (rorigin r) in
    let '(direction, d_error) := vec_with_error m (rdir r) in
    (mkRay (nudge origin direction o_error) direction, o_error, d_error).
  Definition ray_propagate_by (m : M4) (r : Ray K) (oe de : V) : Ray K * V * V :=
    let '(origin, o_error) := pt_propagate_error m (rorigin r) oe in
    let '(direction, d_error) := vec_propagate_error m (rdir r) de in
    (mkRay (nudge origin direction o_error) direction, o_error, d_error).
  Definition tr_ray (t : Tr) := ray_by (elements t).
  Definition tr_inv_ray (t : Tr) := ray_by (inv_elements t).
  Definition tr_ray_propagate (t : Tr) := ray_propagate_by (elements t).
  Definition tr_inv_ray_propagate (t : Tr) := ray_propagate_by (inv_elements t).

  Definition bbox_by (m : M4) (b : BBox K) : BBox K :=
    let mn := bmin b in let mx := bmax b in
    let p x y z := mul4x4point m (mkV3 x y z) in
    let r := bbox_from_point (p (vx mn) (vy mn) (vz mn)) in
    let r := bbox_from_union_point r (p (vx mx) (vy mn) (vz mn)) in
    let r := bbox_from_union_point r (p (vx mn) (vy mx) (vz mn)) in
    let r := bbox_from_union_point r (p (vx mn) (vy mn) (vz mx)) in
    let r := bbox_from_union_point r (p (vx mn) (vy mx) (vz mx)) in
    let r := bbox_from_union_point r (p (vx mx) (vy mx) (vz mn)) in
    let r := bbox_from_union_point r (p (vx mx) (vy mn) (vz mx)) in
    bbox_from_union_point r (p (vx mx) (vy mx) (vz mx)).
  (** do the eight [mul4x4point] calls of [bbox_by] pass their debug assertion? *)
  Definition bbox_by_debug_ok (m : M4) (b : BBox K) : bool :=
    let mn := bmin b in let mx := bmax b in
    let p x y z := mul4x4point_debug_ok m (mkV3 x y z) in
    p (vx mn) (vy mn) (vz mn) && p (vx mx) (vy mn) (vz mn) && p (vx mn) (vy mx) (vz mn) && p (vx mn) (vy mn) (vz mx) &&
    p (vx mn) (vy mx) (vz mx) && p (vx mx) (vy mx) (vz mn) && p (vx mx) (vy mn) (vz mx) && p (vx mx) (vy mx) (vz mx).
  Definition tr_pt_debug_ok (t : Tr) (p : V) : bool := mul4x4point_debug_ok (elements t) p.
  Definition tr_bbox_debug_ok (t : Tr) (b : BBox K) : bool := bbox_by_debug_ok (elements t) b.
  Definition tr_bbox (t : Tr) := bbox_by (elements t).
  Definition tr_inv_bbox (t : Tr) := bbox_by (inv_elements t).
End Transform.
Arguments M4 K : clear implicits.
Arguments Tr K : clear implicits.
