(** * Triangulation: model of src/triangulation3d.rs (ear clipping + Ruppert-style refinement).

    Definitions only, generic over [Num].  A mesh is the vector of triangle slots plus the counter
    [n_valid_triangles].  Every mutating operation is a state transformer [MR A := Mesh -> Mesh * res A]
    that returns the NEW mesh together with the outcome, because operations may mutate before
    failing (before fix 361bbb9 [split_edge] invalidated the base triangle and then failed in [push]:
    Model/PinnedMesh.v keeps that text; the live steps now test every child with Triangle3D::new first).

    ** Panic sites (every [panic!] / [unreachable!] / [unwrap] / index / [% 0] / usize underflow)
    -  10  Triangle3D::new: is_collinear(..).unwrap()                         (Model/Triangle.v)
    -  21  Loop3D Index out of bounds (the_loop[..])                          (Model/Loop.v numbering)
    -  22  [% 0] in Loop3D::is_diagonal, 23 test_point(..).unwrap() in is_diagonal,
       24  push(..).unwrap() in Loop3D::sanitize                              (Model/Loop.v)
    -  25  Vec::remove out of bounds (the_loop.remove)
    -  41  push(..).unwrap() in Polygon3D::get_closed_loop, 42 [% 0] there    (Model/Polygon.v)
    -  60  Edge::from_i: index > 2
    -  61  invalidate: [n_valid_triangles -= 1] on 0 (usize underflow; debug build panics, release wraps)
    -  62  mark_as_neighbours: triangles[i1] out of bounds
    -  63  mark_as_neighbours: triangles[i2] out of bounds
    -  64  mark_as_neighbours: panic!("... don't share a segment")
    -  65  get_flipped_aspect_ratio: triangles[index] out of bounds
    -  66  get_flipped_aspect_ratio: panic!("Found an invalid triangle ...")
    -  67  get_flipped_aspect_ratio: triangles[neighbour_i] out of bounds
    -  68  get_flipped_aspect_ratio: panic!("Found an invalid neighbour ...")
    -  69  get_flipped_aspect_ratio: panic!("Triangle is its own neighbor!")
    -  70  flip_diagonal: triangles[index] out of bounds
    -  71  flip_diagonal: panic!("... invalid triangle")
    -  72  flip_diagonal: panic!("... no neighbour")
    -  73  flip_diagonal: triangles[neighbour_index] out of bounds
    -  74  flip_diagonal: panic!("... invalid neighbour triangle")
    -  75  flip_diagonal: panic!("Segment AC not found ...")
    -  76  flip_diagonal: panic!("Segment CB not found ...")
    -  77  flip_diagonal: panic!("Segment B-Opposite not found ...")
    -  78  flip_diagonal: panic!("Segment A-Opposite not found ...")
    -  79  flip_diagonal: triangles[aoc_i] / triangles[cob_i] out of bounds (constrain)
    -  80  split_edge: triangles[triangle_index] out of bounds
    -  81  split_edge (process_hemisphere): triangles[index] out of bounds
    -  82  split_edge (process_hemisphere): triangles[apc_i] / triangles[pbc_i] out of bounds (constrain)
    -  83  split_triangle: triangles[i] out of bounds
    -  84  split_triangle: triangles[cap_i] / [abp_i] / [bcp_i] out of bounds (constrain)
    -  85  restore_delaunay: triangles[i] out of bounds
    -  86  add_point_to_triangle: triangles[index] out of bounds
    -  87  add_point_to_triangle: panic!("Trying to add point into an obsolete triangle")
    -  88  add_point_to_triangle: panic!("... point that does not fall on an edge")
    -  89  add_point_to_triangle: unreachable!()  (location Outside)
    -  90  refine: triangles[i] out of bounds
    -  91  refine: unreachable!()  (an invalid slot met by the pass)
    -  92  from_polygon: [the_loop.len() - 2] underflows (debug: overflow panic; release: capacity overflow)
    -  93  from_polygon: [anchor % n] with n = 0
    -  95  from_polygon: triangles[last_added] out of bounds (constrain)
    -  96  mark_neighbourhouds: triangles[this_i] / triangles[other_i] out of bounds

    ** Err classes
    -  1  three equal points in is_collinear (Vec.v); 3, 4 zero-length segment (Segment.v)
    -  10 Triangle3D::new two equal points, 11 collinear points, 12 vertex index, 13 segment index (Triangle.v)
    -  30..36 Loop3D (Loop.v), 50..52 Polygon3D::cut_hole (Polygon.v)
    -  100 from_polygon: "Excessive number of iteration"           (count > 1000)
    -  101 invalidate: index out of range
    -  102 mark_as_neighbours: a triangle as its own neighbour
    -  103 mark_as_neighbours: invalid triangle
    -  104 get_opposite_vertex: "Something really strange"
    -  105 get_opposite_vertex: the triangle does not have the edge
    -  106 split_edge: invalid triangle
    -  107 "Could not get index from segment"
    -  108 split_triangle: invalid triangle
    -  109 add_point: no triangle contains the point

    Not modelled: [n_valid_triangles += 1] overflowing usize, allocation failure. *)
From Coq Require Import ZArith List Bool Arith.
From G3 Require Import Model.Num Model.Base Model.Vec Model.Segment Model.Triangle Model.Loop Model.Polygon.
Import ListNotations.
Local Open Scope num_scope.

(** ** Edge *)
Inductive Edge := Ab | Bc | Ca.
Definition edge_from_i (i : N) : res Edge :=
  match i with 0%N => Ok Ab | 1%N => Ok Bc | 2%N => Ok Ca | _ => Panic 60%N end.
Definition edge_as_i (e : Edge) : N := match e with Ab => 0%N | Bc => 1%N | Ca => 2%N end.
(** [impl Add<usize> for Edge] *)
Definition edge_add (e : Edge) (k : N) : res Edge := edge_from_i (N.modulo (edge_as_i e + k) 3).
Definition edge_eqb (a b : Edge) : bool := N.eqb (edge_as_i a) (edge_as_i b).

(** the outcome of the recursive [refine]: finished, or the model's fuel ran out *)
Inductive rres := RDone | ROutOfFuel.

Section Triangulation.
  Context {K : Type} {NK : Num K}.
  Notation V := (V3 K).

  (** ** TriPiece *)
  Record TriPiece := mkTP {
    tp_tri : Tri K;
    tp_n0 : option nat; tp_n1 : option nat; tp_n2 : option nat;
    tp_c0 : bool; tp_c1 : bool; tp_c2 : bool;
    tp_ar : K; tp_cc : V; tp_cen : V;
    tp_valid : bool;
    tp_index : nat }.

  (** TriPiece::new *)
  Definition tp_new (a b c : V) (i : nat) : res TriPiece :=
    do t <- tri_new a b c;
    Ok (mkTP t None None None false false false (tri_aspect_ratio t) (tri_circumcenter t) (tri_centroid t) true i).
  Definition tp_invalidate (t : TriPiece) : TriPiece :=
    mkTP (tp_tri t) (tp_n0 t) (tp_n1 t) (tp_n2 t) (tp_c0 t) (tp_c1 t) (tp_c2 t) (tp_ar t) (tp_cc t) (tp_cen t) false (tp_index t).
  Definition tp_set_neighbour (e : Edge) (i : nat) (t : TriPiece) : TriPiece :=
    match e with
    | Ab => mkTP (tp_tri t) (Some i) (tp_n1 t) (tp_n2 t) (tp_c0 t) (tp_c1 t) (tp_c2 t) (tp_ar t) (tp_cc t) (tp_cen t) (tp_valid t) (tp_index t)
    | Bc => mkTP (tp_tri t) (tp_n0 t) (Some i) (tp_n2 t) (tp_c0 t) (tp_c1 t) (tp_c2 t) (tp_ar t) (tp_cc t) (tp_cen t) (tp_valid t) (tp_index t)
    | Ca => mkTP (tp_tri t) (tp_n0 t) (tp_n1 t) (Some i) (tp_c0 t) (tp_c1 t) (tp_c2 t) (tp_ar t) (tp_cc t) (tp_cen t) (tp_valid t) (tp_index t)
    end.
  Definition tp_neighbour (t : TriPiece) (e : Edge) : option nat :=
    match e with Ab => tp_n0 t | Bc => tp_n1 t | Ca => tp_n2 t end.
  Definition tp_constrain (e : Edge) (t : TriPiece) : TriPiece :=
    match e with
    | Ab => mkTP (tp_tri t) (tp_n0 t) (tp_n1 t) (tp_n2 t) true (tp_c1 t) (tp_c2 t) (tp_ar t) (tp_cc t) (tp_cen t) (tp_valid t) (tp_index t)
    | Bc => mkTP (tp_tri t) (tp_n0 t) (tp_n1 t) (tp_n2 t) (tp_c0 t) true (tp_c2 t) (tp_ar t) (tp_cc t) (tp_cen t) (tp_valid t) (tp_index t)
    | Ca => mkTP (tp_tri t) (tp_n0 t) (tp_n1 t) (tp_n2 t) (tp_c0 t) (tp_c1 t) true (tp_ar t) (tp_cc t) (tp_cen t) (tp_valid t) (tp_index t)
    end.
  Definition tp_is_constrained (t : TriPiece) (e : Edge) : bool :=
    match e with Ab => tp_c0 t | Bc => tp_c1 t | Ca => tp_c2 t end.

  (** ** Triangulation3D *)
  Record Mesh := mkMesh { tris : list TriPiece; nvalid : nat }.
  Definition mesh_new : Mesh := mkMesh [] 0.
  Definition n_triangles (M : Mesh) : nat := length (tris M).
  Definition get_trilist (M : Mesh) : list (Tri K) := map tp_tri (tris M).

  (** state transformers: the mesh is threaded through, also on failure *)
  Definition MR (A : Type) := Mesh -> Mesh * res A.
  Definition mret {A} (a : A) : MR A := fun M => (M, Ok a).
  Definition mlift {A} (r : res A) : MR A := fun M => (M, r).
  Definition mbind {A B} (m : MR A) (f : A -> MR B) : MR B := fun M =>
    let '(M', r) := m M in
    match r with Ok a => f a M' | Err c => (M', Err c) | Panic s => (M', Panic s) end.
  Notation "'mdo' x <- m ; k" := (mbind m (fun x => k)) (at level 200, x pattern, m at level 100, k at level 200).
  (** [self.triangles[i]] at panic site [s] *)
  Definition mget (s : N) (i : nat) : MR TriPiece := fun M =>
    (M, match nth_error (tris M) i with Some t => Ok t | None => Panic s end).
  Fixpoint upd (i : nat) (f : TriPiece -> TriPiece) (l : list TriPiece) : list TriPiece :=
    match l, i with
    | [], _ => []
    | t :: tl, O => f t :: tl
    | t :: tl, S j => t :: upd j f tl
    end.
  (** [self.triangles[i].<mutator>] at panic site [s] *)
  Definition mupd (s : N) (i : nat) (f : TriPiece -> TriPiece) : MR unit := fun M =>
    if Nat.ltb i (length (tris M)) then (mkMesh (upd i f (tris M)) (nvalid M), Ok tt) else (M, Panic s).
  Definition mwhen (b : bool) (m : MR unit) : MR unit := if b then m else mret tt.

  (** [invalidate] *)
  Definition mesh_invalidate (i : nat) : MR unit := fun M =>
    if Nat.ltb i (length (tris M)) then
      match nvalid M with
      | O => (mkMesh (upd i tp_invalidate (tris M)) O, Panic 61%N)
      | S k => (mkMesh (upd i tp_invalidate (tris M)) k, Ok tt)
      end
    else (M, Err 101%N).

  (** [get_first_invalid] *)
  Fixpoint first_invalid_from (l : list TriPiece) (i : nat) : option nat :=
    match l with
    | [] => None
    | t :: tl => if negb (tp_valid t) then Some i else first_invalid_from tl (S i)
    end.
  Definition get_first_invalid (M : Mesh) (start : nat) : option nat :=
    if Nat.ltb start (length (tris M)) then first_invalid_from (skipn start (tris M)) start else None.

  (** [mark_as_neighbours] *)
  Definition mark_as_neighbours (i1 : nat) (edge_1 : Edge) (i2 : nat) : MR unit :=
    if Nat.eqb i1 i2 then mlift (Err 102%N) else
    mdo t1 <- mget 62%N i1;
    if negb (tp_valid t1) then mlift (Err 103%N) else
    mdo seg1 <- mlift (tri_segment (tp_tri t1) (edge_as_i edge_1));
    mdo t2 <- mget 63%N i2;
    if negb (tp_valid t2) then mlift (Err 103%N) else
    mdo e2 <- mlift (match tri_get_edge_index_from_segment (tp_tri t2) seg1 with
                     | Some e => Ok e | None => Panic 64%N end);
    mdo edge_2 <- mlift (edge_from_i e2);
    mdo _ <- mupd 62%N i1 (tp_set_neighbour edge_1 i2);
    mupd 63%N i2 (tp_set_neighbour edge_2 i1).

  (** [push] (slot reuse through [get_first_invalid(last_added)]) *)
  Fixpoint set_nth (i : nat) (x : TriPiece) (l : list TriPiece) : list TriPiece :=
    match l, i with
    | [], _ => []
    | _ :: tl, O => x :: tl
    | t :: tl, S j => t :: set_nth j x tl
    end.
  Definition mesh_push (a b c : V) (last_added : nat) : MR nat := fun M =>
    let '(extend, n) := match get_first_invalid M last_added with
                        | Some i => (false, i)
                        | None => (true, length (tris M)) end in
    match tp_new a b c n with
    | Ok t => (mkMesh (if extend then tris M ++ [t] else set_nth n t (tris M)) (S (nvalid M)), Ok n)
    | Err e => (M, Err e)
    | Panic s => (M, Panic s)
    end.

  (** [get_opposite_vertex] *)
  Definition get_opposite_vertex (t : Tri K) (s : Seg K) : res V :=
    match tri_get_edge_index_from_segment t s with
    | Some i =>
      match i with
      | 0%N => tri_vertex t 2%N
      | 1%N => tri_vertex t 0%N
      | 2%N => tri_vertex t 1%N
      | _ => Err 104%N
      end
    | None => Err 105%N
    end.

  (** [is_convex]; the tag says which [return] fired *)
  Definition is_convex_tag (a b c d : V) : bool * N :=
    let ab := vsub b a in
    let bc := vsub c b in
    let n_abc := vcross ab bc in
    if vis_zero n_abc then (false, 1%N) else
    let cd := vsub d c in
    let n_bcd := vcross bc cd in
    if vis_zero n_bcd then (false, 2%N) else
    if negb (vis_same_direction n_abc n_bcd) then (false, 3%N) else
    let da := vsub a d in
    let n_cda := vcross cd da in
    if vis_zero n_cda then (false, 4%N) else
    if negb (vis_same_direction n_abc n_cda) then (false, 5%N) else
    let n_dab := vcross da ab in
    if vis_zero n_dab then (false, 6%N) else
    if negb (vis_same_direction n_abc n_dab) then (false, 7%N) else
    (true, 8%N).
  Definition is_convex (a b c d : V) : bool := fst (is_convex_tag a b c d).

  (** [get_flipped_aspect_ratio] (read-only) *)
  Definition get_flipped_aspect_ratio (M : Mesh) (index : nat) (edge : Edge) : res (option K) :=
    match nth_error (tris M) index with
    | None => Panic 65%N
    | Some tripiece =>
      if negb (tp_valid tripiece) then Panic 66%N else
      if tp_is_constrained tripiece edge then Ok None else
      match tp_neighbour tripiece edge with
      | None => Ok None
      | Some neighbour_i =>
        match nth_error (tris M) neighbour_i with
        | None => Panic 67%N
        | Some neighbour =>
          if negb (tp_valid neighbour) then Panic 68%N else
          if Nat.eqb (tp_index neighbour) (tp_index tripiece) then Panic 69%N else
          do vertex_a <- tri_vertex (tp_tri tripiece) (N.modulo (edge_as_i edge) 3);
          do vertex_b <- tri_vertex (tp_tri tripiece) (N.modulo (edge_as_i edge + 1) 3);
          do vertex_c <- tri_vertex (tp_tri tripiece) (N.modulo (edge_as_i edge + 2) 3);
          let s := seg_new vertex_a vertex_b in
          do opposite <- get_opposite_vertex (tp_tri neighbour) s;
          if negb (is_convex vertex_a opposite vertex_b vertex_c) then Ok None else
          do flipped1 <- tp_new vertex_a opposite vertex_c 0;
          do flipped2 <- tp_new opposite vertex_b vertex_c 0;
          let f1_aspect := tp_ar flipped1 in
          let f2_aspect := tp_ar flipped2 in
          if f1_aspect >? f2_aspect then Ok (Some f1_aspect) else Ok (Some f2_aspect)
        end
      end
    end.

  Definition edge_of_points (site : N) (t : Tri K) (a b : V) : res Edge :=
    match tri_get_edge_index_from_points t a b with
    | Some i => edge_from_i i
    | None => Panic site
    end.

  (** [flip_diagonal] *)
  Definition flip_diagonal (index : nat) (edge : Edge) : MR unit :=
    mdo t <- mget 70%N index;
    if negb (tp_valid t) then mlift (Panic 71%N) else
    match tp_neighbour t edge with
    | None => mlift (Panic 72%N)
    | Some neighbour_index =>
      mdo nb <- mget 73%N neighbour_index;
      if negb (tp_valid nb) then mlift (Panic 74%N) else
      mdo vertex_a <- mlift (tri_vertex (tp_tri t) (N.modulo (edge_as_i edge) 3));
      mdo vertex_b <- mlift (tri_vertex (tp_tri t) (N.modulo (edge_as_i edge + 1) 3));
      mdo vertex_c <- mlift (tri_vertex (tp_tri t) (N.modulo (edge_as_i edge + 2) 3));
      let s := seg_new vertex_a vertex_b in
      mdo opposite <- mlift (get_opposite_vertex (tp_tri nb) s);
      (* CHECK SURROUNDINGS *)
      mdo ac_edge <- mlift (edge_of_points 75%N (tp_tri t) vertex_a vertex_c);
      let neighbour_ac_index := tp_neighbour t ac_edge in
      let constrain_ac := tp_is_constrained t ac_edge in
      mdo cb_edge <- mlift (edge_of_points 76%N (tp_tri t) vertex_c vertex_b);
      let neighbour_bc_i := tp_neighbour t cb_edge in
      let constrain_bc := tp_is_constrained t cb_edge in
      mdo bopp_edge <- mlift (edge_of_points 77%N (tp_tri nb) vertex_b opposite);
      let neighbour_bopp_i := tp_neighbour nb bopp_edge in
      let constrain_bopp := tp_is_constrained nb bopp_edge in
      mdo aopp_edge <- mlift (edge_of_points 78%N (tp_tri nb) vertex_a opposite);
      let neighbour_aopp_i := tp_neighbour nb aopp_edge in
      let constrain_aopp := tp_is_constrained nb aopp_edge in
      (* fix 361bbb9: refuse BEFORE mutating: the two new triangles must be constructible *)
      mdo _ <- mlift (tri_new vertex_a opposite vertex_c);
      mdo _ <- mlift (tri_new vertex_c opposite vertex_b);
      (* INVALIDATE THE ORIGINAL TRIANGLES, AND PUSH THE NEW ONES *)
      mdo _ <- mesh_invalidate index;
      mdo _ <- mesh_invalidate neighbour_index;
      mdo aoc_i <- mesh_push vertex_a opposite vertex_c index;
      mdo cob_i <- mesh_push vertex_c opposite vertex_b neighbour_index;
      (* REORGANIZE NEIGHBOURHOOD *)
      mdo _ <- match neighbour_aopp_i with Some ni => mark_as_neighbours index Ab ni | None => mret tt end;
      mdo _ <- mwhen constrain_aopp (mupd 79%N aoc_i (tp_constrain Ab));
      mdo _ <- mark_as_neighbours aoc_i Bc cob_i;
      mdo _ <- match neighbour_ac_index with Some ni => mark_as_neighbours index Ca ni | None => mret tt end;
      mdo _ <- mwhen constrain_ac (mupd 79%N aoc_i (tp_constrain Ca));
      mdo _ <- match neighbour_bopp_i with Some ni => mark_as_neighbours cob_i Bc ni | None => mret tt end;
      mdo _ <- mwhen constrain_bopp (mupd 79%N cob_i (tp_constrain Bc));
      mdo _ <- match neighbour_bc_i with Some ni => mark_as_neighbours cob_i Ca ni | None => mret tt end;
      mwhen constrain_bc (mupd 79%N cob_i (tp_constrain Ca))
    end.

  (** the closure [process_hemisphere] of [split_edge] *)
  Definition process_hemisphere (segment_to_split : Seg K) (p : V) (index : nat) : MR (nat * nat) :=
    mdo t <- mget 81%N index;
    mdo ab_index <- mlift (match tri_get_edge_index_from_segment (tp_tri t) segment_to_split with
                           | Some i => Ok i | None => Err 107%N end);
    mdo ab <- mlift (tri_segment (tp_tri t) ab_index);
    let vertex_a := sstart ab in
    let vertex_b := send ab in
    mdo edge_i <- mlift (match tri_get_edge_index_from_segment (tp_tri t) ab with
                         | Some i => Ok i | None => Err 107%N end);
    mdo edge <- mlift (edge_from_i edge_i);
    mdo vertex_c <- mlift (get_opposite_vertex (tp_tri t) ab);
    mdo _ <- mesh_invalidate index;
    (* the (invalidated) slot is read again *)
    mdo t' <- mget 81%N index;
    mdo e1 <- mlift (edge_add edge 1);
    let bc_n := tp_neighbour t' e1 in
    mdo e2 <- mlift (edge_add edge 2);
    let ac_n := tp_neighbour t' e2 in
    let ab_c := tp_is_constrained t' edge in
    mdo e1' <- mlift (edge_add edge 1);
    let bc_c := tp_is_constrained t' e1' in
    mdo e2' <- mlift (edge_add edge 2);
    let ac_c := tp_is_constrained t' e2' in
    mdo apc_i <- mesh_push vertex_a p vertex_c index;
    mdo pbc_i <- mesh_push p vertex_b vertex_c 0;
    (* APC *)
    mdo _ <- mwhen ab_c (mupd 82%N apc_i (tp_constrain Ab));
    mdo _ <- mark_as_neighbours apc_i Bc pbc_i;
    mdo _ <- match ac_n with Some ni => mark_as_neighbours apc_i Ca ni | None => mret tt end;
    mdo _ <- mwhen ac_c (mupd 82%N apc_i (tp_constrain Ca));
    (* PBC *)
    mdo _ <- mwhen ab_c (mupd 82%N pbc_i (tp_constrain Ab));
    mdo _ <- match bc_n with Some ni => mark_as_neighbours pbc_i Bc ni | None => mret tt end;
    mdo _ <- mwhen bc_c (mupd 82%N pbc_i (tp_constrain Bc));
    mret (apc_i, pbc_i).

  (** fix 361bbb9: the check [split_edge] now runs on each hemisphere BEFORE the first mutation: every child must be
      constructible (the slot is read by [self.triangles[idx]]: out of bounds = site 81) *)
  Definition split_precheck (segment_to_split : Seg K) (p : V) (idx : nat) : MR unit :=
    mdo t <- mget 81%N idx;
    mdo ab_i <- mlift (match tri_get_edge_index_from_segment (tp_tri t) segment_to_split with
                       | Some i => Ok i | None => Err 107%N end);
    mdo ab <- mlift (tri_segment (tp_tri t) ab_i);
    mdo c <- mlift (get_opposite_vertex (tp_tri t) ab);
    mdo _ <- mlift (tri_new (sstart ab) p c);
    mdo _ <- mlift (tri_new p (send ab) c);
    mret tt.

  (** [split_edge] *)
  Definition split_edge (triangle_index : nat) (edge_to_split : Edge) (p : V) : MR unit :=
    mdo t <- mget 80%N triangle_index;
    if negb (tp_valid t) then mlift (Err 106%N) else
    mdo segment_to_split <- mlift (tri_segment (tp_tri t) (edge_as_i edge_to_split));
    let nei_i := tp_neighbour t edge_to_split in
    mdo _ <- split_precheck segment_to_split p triangle_index;
    mdo _ <- match nei_i with Some nei => split_precheck segment_to_split p nei | None => mret tt end;
    mdo top <- process_hemisphere segment_to_split p triangle_index;
    let '(top_left_i, top_right_i) := top in
    match nei_i with
    | Some nei =>
      mdo bot <- process_hemisphere segment_to_split p nei;
      let '(bottom_right_i, bottom_left_i) := bot in
      mdo _ <- mark_as_neighbours top_left_i Ab bottom_left_i;
      mark_as_neighbours top_right_i Ab bottom_right_i
    | None => mret tt
    end.

  (** [split_triangle] *)
  Definition edge_of_points_err (t : Tri K) (a b : V) : res Edge :=
    match tri_get_edge_index_from_points t a b with
    | Some i => edge_from_i i
    | None => Err 107%N
    end.
  Definition split_triangle (i : nat) (point : V) : MR unit :=
    mdo t <- mget 83%N i;
    if negb (tp_valid t) then mlift (Err 108%N) else
    let vertex_a := ta (tp_tri t) in
    let vertex_b := tb (tp_tri t) in
    let vertex_c := tc (tp_tri t) in
    mdo edge <- mlift (edge_of_points_err (tp_tri t) vertex_a vertex_b);
    let neighbour_ab_i := tp_neighbour t edge in
    let constrain_ab := tp_is_constrained t edge in
    mdo edge <- mlift (edge_of_points_err (tp_tri t) vertex_b vertex_c);
    let neighbour_bc_i := tp_neighbour t edge in
    let constrain_bc := tp_is_constrained t edge in
    mdo edge <- mlift (edge_of_points_err (tp_tri t) vertex_c vertex_a);
    let neighbour_ca_i := tp_neighbour t edge in
    let constrain_ca := tp_is_constrained t edge in
    (* fix 361bbb9: refuse BEFORE mutating: the three children must be constructible *)
    mdo _ <- mlift (tri_new vertex_c vertex_a point);
    mdo _ <- mlift (tri_new vertex_a vertex_b point);
    mdo _ <- mlift (tri_new vertex_b vertex_c point);
    mdo _ <- mesh_invalidate i;
    mdo cap_i <- mesh_push vertex_c vertex_a point 0;
    mdo abp_i <- mesh_push vertex_a vertex_b point 0;
    mdo bcp_i <- mesh_push vertex_b vertex_c point 0;
    mdo _ <- mark_as_neighbours cap_i Bc abp_i;
    mdo _ <- mark_as_neighbours abp_i Bc bcp_i;
    mdo _ <- mark_as_neighbours bcp_i Bc cap_i;
    mdo _ <- mwhen constrain_ca (mupd 84%N cap_i (tp_constrain Ab));
    mdo _ <- match neighbour_ca_i with Some ni => mark_as_neighbours cap_i Ab ni | None => mret tt end;
    mdo _ <- mwhen constrain_ab (mupd 84%N abp_i (tp_constrain Ab));
    mdo _ <- match neighbour_ab_i with Some ni => mark_as_neighbours abp_i Ab ni | None => mret tt end;
    mdo _ <- mwhen constrain_bc (mupd 84%N bcp_i (tp_constrain Ab));
    match neighbour_bc_i with Some ni => mark_as_neighbours bcp_i Ab ni | None => mret tt end.

  (** ** restore_delaunay *)
  (** the search over the three edges: [(best_edge, best_aspect_ratio)] *)
  Fixpoint rd_best (M : Mesh) (i : nat) (current_ar : K) (js : list N) (best : option Edge * K) : res (option Edge * K) :=
    match js with
    | [] => Ok best
    | j :: js' =>
      do this_edge <- edge_from_i j;
      do r <- get_flipped_aspect_ratio M i this_edge;
      let best' := match r with
                   | Some ar => if (current_ar >? ar) && (snd best >? ar) then (Some this_edge, ar) else best
                   | None => best end in
      rd_best M i current_ar js' best'
    end.
  (** one sweep [for i in 0..n]; [cnt] = n - i; returns [any_changes].
      [l] is a cursor on the slots not yet visited, [l = skipn i (tris M)] (so that [self.triangles[i]] is the
      head of [l] instead of an O(i) lookup); it is re-read from the mesh after every flip.  An exhausted
      cursor is the out-of-bounds index (site 85). *)
  Fixpoint rd_pass (max_aspect_ratio : K) (cnt i : nat) (l : list TriPiece) (any_changes : bool) : MR bool :=
    match cnt with
    | O => mret any_changes
    | S cnt' =>
      match l with
      | [] => mlift (Panic 85%N)
      | t :: l' =>
        if negb (tp_valid t) then rd_pass max_aspect_ratio cnt' (S i) l' any_changes else
        let current_ar := tp_ar t in
        if current_ar <? max_aspect_ratio then rd_pass max_aspect_ratio cnt' (S i) l' any_changes else
        mdo b <- (fun M => (M, rd_best M i current_ar [0%N; 1%N; 2%N] (None, nmaxf)));
        match fst b with
        | Some best =>
          mdo _ <- flip_diagonal i best;
          fun M => rd_pass max_aspect_ratio cnt' (S i) (skipn (S i) (tris M)) true M
        | None => rd_pass max_aspect_ratio cnt' (S i) l' any_changes
        end
      end
    end.
  (** [while any_changes && n_loops < MAX_LOOPS]: [loops] = MAX_LOOPS - n_loops *)
  Fixpoint rd_loops (max_aspect_ratio : K) (n : nat) (loops : nat) : MR unit :=
    match loops with
    | O => mret tt
    | S l =>
      mdo any <- (fun M => rd_pass max_aspect_ratio n 0 (tris M) false M);
      if any then rd_loops max_aspect_ratio n l else mret tt
    end.
  Definition MAX_LOOPS : nat := 30.
  Definition restore_delaunay (max_aspect_ratio : K) : MR unit := fun M =>
    rd_loops max_aspect_ratio (length (tris M)) MAX_LOOPS M.

  (** ** add_point *)
  Definition pit_is_vertex (l : PIT) : bool := match l with VertexA | VertexB | VertexC => true | _ => false end.
  Definition pit_is_edge (l : PIT) : bool := match l with EdgeAB | EdgeAC | EdgeBC => true | _ => false end.
  Definition add_point_to_triangle (index : nat) (point : V) (p_location : PIT) : MR bool :=
    mdo t <- mget 86%N index;
    if negb (tp_valid t) then mlift (Panic 87%N) else
    if pit_is_vertex p_location then mret false
    else if pit_is_edge p_location then
      mdo edge <- mlift (match p_location with
                         | EdgeAB => Ok Ab | EdgeBC => Ok Bc | EdgeAC => Ok Ca | _ => Panic 88%N end);
      mdo _ <- split_edge index edge point;
      mret true
    else match p_location with
         | Inside => mdo _ <- split_triangle index point; mret true
         | _ => mlift (Panic 89%N)
         end.
  (** first valid triangle whose [test_point] is not [Outside] *)
  Fixpoint find_container (l : list TriPiece) (i : nat) (point : V) : option (nat * PIT) :=
    match l with
    | [] => None
    | t :: tl =>
      if negb (tp_valid t) then find_container tl (S i) point else
      match tri_test_point (tp_tri t) point with
      | Outside => find_container tl (S i) point
      | loc => Some (i, loc)
      end
    end.
  Definition add_point (point : V) : MR bool := fun M =>
    match find_container (tris M) 0 point with
    | Some (i, loc) => add_point_to_triangle i point loc M
    | None => (M, Err 109%N)
    end.

  (** ** refine *)
  (** the longest edge: starts from AB, replaced by a strictly longer one *)
  Definition longest_edge (t : Tri K) : res (N * Seg K) :=
    let s := tri_ab t in
    do s1 <- tri_segment t 1%N;
    let '(s_i, s) := if slength s <? slength s1 then (1%N, s1) else (0%N, s) in
    do s2 <- tri_segment t 2%N;
    Ok (if slength s <? slength s2 then (2%N, s2) else (s_i, s)).
  (** one sweep [for i in 0..self.n_triangles()]: [cnt] = n - i; [l] is the cursor [skipn i (tris M)] as in
      [rd_pass], re-read after every mutation (an exhausted cursor is the out-of-bounds index, site 90) *)
  Fixpoint refine_pass (max_area max_aspect_ratio : K) (cnt i : nat) (l : list TriPiece) (any_changes : bool) : MR bool :=
    match cnt with
    | O => mret any_changes
    | S cnt' =>
      match l with
      | [] => mlift (Panic 90%N)
      | t :: l' =>
        let continue (any : bool) : MR bool :=
          fun M => refine_pass max_area max_aspect_ratio cnt' (S i) (skipn (S i) (tris M)) any M in
        if negb (tp_valid t) then mlift (Panic 91%N) else
        let area := tarea (tp_tri t) in
        if area <? c1em3 then refine_pass max_area max_aspect_ratio cnt' (S i) l' any_changes else
        if tp_ar t >? max_aspect_ratio then
          mdo ls <- mlift (longest_edge (tp_tri t));
          let '(s_i, s) := ls in
          mdo edge_to_split <- mlift (edge_from_i s_i);
          let mid_s := seg_midpoint s in
          mdo _ <- split_edge i edge_to_split mid_s;
          mdo _ <- restore_delaunay max_aspect_ratio;
          continue true
        else if area >? max_area then
          let c_center := tp_cc t in
          fun M =>
            match add_point c_center M with
            | (M1, Ok did_something) =>
              if did_something then
                (mdo _ <- restore_delaunay max_aspect_ratio; continue true) M1
              else continue any_changes M1
            | (M1, Err _) =>
              (* the error is swallowed; the (possibly mutated) slot i is read again *)
              (mdo t' <- mget 90%N i;
               let centroid := tp_cen t' in
               mdo did <- add_point_to_triangle i centroid Inside;
               if did then
                 mdo _ <- restore_delaunay max_aspect_ratio; continue true
               else continue any_changes) M1
            | (M1, Panic s) => (M1, Panic s)
            end
        else refine_pass max_area max_aspect_ratio cnt' (S i) l' any_changes
      end
    end.
  (** the recursion [if any_changes { self.refine(..) }], on explicit fuel *)
  Fixpoint refine (fuel : nat) (max_area max_aspect_ratio : K) : MR rres :=
    match fuel with
    | O => mret ROutOfFuel
    | S f =>
      fun M =>
        (mdo any <- refine_pass max_area max_aspect_ratio (length (tris M)) 0 (tris M) false;
         if any then refine f max_area max_aspect_ratio else mret RDone) M
    end.

  (** ** from_polygon *)
  Definition mark_edge_pair (this_i other_i : nat) : MR unit :=
    (* for edge_i in 0..3 { ...; break } *)
    (fix go (js : list N) : MR unit :=
       match js with
       | [] => mret tt
       | edge_i :: js' =>
         mdo t <- mget 96%N this_i;
         mdo edge <- mlift (tri_segment (tp_tri t) edge_i);
         mdo o <- mget 96%N other_i;
         match tri_get_edge_index_from_segment (tp_tri o) edge with
         | Some _ =>
           mdo e <- mlift (edge_from_i edge_i);
           mark_as_neighbours this_i e other_i
         | None => go js'
         end
       end) [0%N; 1%N; 2%N].
  Fixpoint mn_inner (this_i other_i cnt : nat) : MR unit :=
    match cnt with
    | O => mret tt
    | S c => mdo _ <- mark_edge_pair this_i other_i; mn_inner this_i (S other_i) c
    end.
  Fixpoint mn_outer (n this_i cnt : nat) : MR unit :=
    match cnt with
    | O => mret tt
    | S c => mdo _ <- mn_inner this_i (S this_i) (n - S this_i); mn_outer n (S this_i) c
    end.
  Definition mark_neighbourhouds : MR unit := fun M =>
    let n := length (tris M) in mn_outer n 0 n M.

  Fixpoint remove_nth (i : nat) (l : list V) : list V :=
    match l, i with
    | [], _ => []
    | _ :: tl, O => tl
    | x :: tl, S j => x :: remove_nth j tl
    end.
  (** [the_loop.remove(i)] *)
  Definition loop_remove (L : Loop K) (i : nat) : res (Loop K) :=
    if Nat.ltb i (llen L) then Ok (set_verts L (remove_nth i (verts L))) else Panic 25%N.
  (** [the_loop[i]] *)
  Definition loop_index (L : Loop K) (i : nat) : res V :=
    match nth_error (verts L) i with Some v => Ok v | None => Panic 21%N end.

  (** fix 4bb2ed8: the ear test of from_polygon.  An interior chord is not enough: the corner must be convex for the
      polygon's normal and no other vertex of the outline (other for Point3D::compare) may lie in the triangle. *)
  Fixpoint ear_blocked (ear : Tri K) (v0 v1 v2 : V) (vs : list V) : bool :=
    match vs with
    | [] => false
    | p :: tl =>
      if vcompare p v0 || vcompare p v1 || vcompare p v2 then ear_blocked ear v0 v1 v2 tl
      else match tri_test_point ear p with Outside => ear_blocked ear v0 v1 v2 tl | _ => true end
    end.
  Definition ear_convex (P : Poly K) (v0 v1 v2 : V) : bool :=
    vdot (vcross (vsub v1 v0) (vsub v2 v1)) (pnormal P) >? n0.
  Definition ear_test (P : Poly K) (the_loop : Loop K) (v0 v1 v2 : V) (is_line is_diagonal : bool) : res bool :=
    if negb (negb is_line && is_diagonal) then Ok false else
    if negb (ear_convex P v0 v1 v2) then Ok false else
    do ear <- tri_new v0 v1 v2;
    Ok (negb (ear_blocked ear v0 v1 v2 (verts the_loop))).

  Definition MAX_ITER : nat := 1000.
  (** the capped loop: [fuel] = 1000 - (number of completed iterations); [count] = iterations started so far *)
  Fixpoint fp_loop (P : Poly K) (fuel : nat) (count anchor : nat) (the_loop : Loop K) (t : Mesh) : res Mesh :=
    match fuel with
    | O => Err 100%N     (* count > 1000 *)
    | S fuel' =>
      let count := S count in
      do the_loop <- (if Nat.eqb (Nat.modulo count 10) 0 then loop_sanitize the_loop else Ok the_loop);
      let n := llen the_loop in
      let last_added := n_triangles t in
      if Nat.eqb n 2 then
        let '(t', r) := mark_neighbourhouds t in
        do _ <- r; Ok t'
      else
      if Nat.eqb n 0 then Panic 93%N else
      do v0 <- loop_index the_loop (Nat.modulo anchor n);
      do v1 <- loop_index the_loop (Nat.modulo (anchor + 1) n);
      do v2 <- loop_index the_loop (Nat.modulo (anchor + 2) n);
      let potential_diag := seg_new v0 v2 in
      do is_line <- is_collinear v0 v1 v2;
      do is_diagonal <- loop_is_diagonal the_loop potential_diag;
      do is_ear <- ear_test P the_loop v0 v1 v2 is_line is_diagonal;
      if is_ear then
        let '(t1, r) := mesh_push v0 v1 v2 last_added t in
        do _ <- r;
        let c (s : Seg K) (e : Edge) (m : Mesh) : Mesh * res unit :=
          if poly_contains_segment P s then mupd 95%N last_added (tp_constrain e) m else (m, Ok tt) in
        let '(t2, r) := c (seg_new v0 v1) Ab t1 in do _ <- r;
        let '(t3, r) := c (seg_new v1 v2) Bc t2 in do _ <- r;
        let '(t4, r) := c (seg_new v2 v0) Ca t3 in do _ <- r;
        do the_loop' <- loop_remove the_loop (Nat.modulo (anchor + 1) n);
        fp_loop P fuel' count anchor the_loop' t4
      else fp_loop P fuel' count (S anchor) the_loop t
    end.
  Definition from_polygon (P : Poly K) : res Mesh :=
    do the_loop <- poly_get_closed_loop P;
    let '(the_loop, r) := loop_close the_loop in
    do _ <- r;
    if Nat.ltb (llen the_loop) 2 then Panic 92%N else
    fp_loop P MAX_ITER 0 0 the_loop mesh_new.

  (** [mesh_polygon]; the fuel of [refine] is the model's only addition *)
  Definition mesh_polygon (fuel : nat) (P : Poly K) (max_area max_aspect_ratio : K) : res (Mesh * rres) :=
    do t <- from_polygon P;
    let '(t', r) := refine fuel max_area max_aspect_ratio t in
    do o <- r; Ok (t', o).

  (** ** histories of hook-driven steps (C08) *)
  Inductive mop :=
  | OSplitEdge (i : nat) (e : N) (p : V)
  | OSplitTriangle (i : nat) (p : V)
  | OFlip (i : nat) (e : N)
  | ORestore (max_ar : K)
  | OAddPoint (p : V)
  | ORefine (fuel : nat) (max_area max_ar : K).
  (** the hook wrappers evaluate [Edge::from_i(edge)] first *)
  Definition mesh_step (op : mop) : MR (option bool) :=
    match op with
    | OSplitEdge i e p => mdo ed <- mlift (edge_from_i e); mdo _ <- split_edge i ed p; mret None
    | OSplitTriangle i p => mdo _ <- split_triangle i p; mret None
    | OFlip i e => mdo ed <- mlift (edge_from_i e); mdo _ <- flip_diagonal i ed; mret None
    | ORestore m => mdo _ <- restore_delaunay m; mret None
    | OAddPoint p => mdo b <- add_point p; mret (Some b)
    | ORefine f a m => mdo r <- refine f a m; mret (match r with RDone => None | ROutOfFuel => Some false end)
    end.
  Fixpoint mesh_run (M : Mesh) (ops : list mop) : Mesh * list (res (option bool)) :=
    match ops with
    | [] => (M, [])
    | op :: tl =>
      let '(M', o) := mesh_step op M in
      let '(M'', os) := mesh_run M' tl in (M'', o :: os)
    end.
End Triangulation.
Arguments TriPiece K : clear implicits.
Arguments Mesh K : clear implicits.
Arguments mop K : clear implicits.
