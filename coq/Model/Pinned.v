(** * Pinned: the operator forms of the *pinned* tree (snapshot b5e97ad) that were found
    defective and have since been repaired by [fix:] commits in /repo.  Kept so that the
    refutation witnesses ([Proofs/Refuted.v]) stay machine-checked; the live model is in
    the other Model files and follows the repaired code. *)
From Coq Require Import ZArith List Bool.
From G3 Require Import Model.Num Model.Base Model.RoundError.
Local Open Scope num_scope.

Section Pinned.
  Context {K : Type} {NK : Num K}.
  (* round_error.rs: Neg kept the bounds in place *)
  Definition af_neg_pinned (a : AF K) : AF K := mkAF (- low a) (- high a).
  (* round_error.rs: Sub / SubAssign subtracted low-low and high-high *)
  Definition af_sub_pinned (a b : AF K) : AF K :=
    mkAF (nnext_dn (low a - low b)) (nnext_up (high a - high b)).
  (* round_error.rs: Mul<Float> rounded outward before the swap *)
  Definition af_mul_f_pinned (a : AF K) (f : K) : AF K :=
    let mn := nnext_dn (low a * f) in
    let mx := nnext_up (high a * f) in
    let '(mn, mx) := if mn >? mx then (mx, mn) else (mn, mx) in
    mkAF (nnext_dn mn) (nnext_up mx).
End Pinned.

(** round_error.rs: next_float_up(-0.0) and next_float_down(+0.0) returned +0.0 (Flocq instance) *)
From Flocq Require Import Core BinarySingleNaN.
Section PinnedNext.
  Variable prec emax : Z.
  Context (Hprec : FLX.Prec_gt_0 prec) (Hmax : Prec_lt_emax prec emax).
  Notation bf := (binary_float prec emax).
  Definition Bnext_up_pinned (x : bf) : bf :=
    match x with B754_zero true => B754_zero false | _ => Bsucc x end.
  Definition Bnext_dn_pinned (x : bf) : bf :=
    match x with B754_zero false => B754_zero false | _ => Bpred x end.
  (** MulAssign with the pinned stepping functions *)
  Definition af_mul_assign_pinned (a b : AF bf) : AF bf :=
    let NB := NumB prec emax Hprec Hmax in
    let '(mx, mn) := max_min4 (low a * low b) (high a * low b) (low a * high b) (high a * high b) in
    mkAF (Bnext_dn_pinned mn) (Bnext_up_pinned mx).
End PinnedNext.

(** transform.rs: MulAssign multiplied the stored inverses in the same order as the matrices *)
From G3 Require Import Model.Vec Model.BBox Model.Transform.
Definition tr_mul_assign_pinned {K} {NK : Num K} (a b : Tr K) : Tr K :=
  mkTr (mul4x4 (elements a) (elements b)) (mul4x4 (inv_elements a) (inv_elements b)).

(** transform.rs before fix: 34af114 / 5455df2 / the fix of the vector error: gamma(3) for the four roundings of a
    point row, the translation column added to the propagated input error, and the translation column added to the
    error of a transformed vector.  Kept for the refutations of C16. *)
Section PinnedTransformErrors.
  Context {K : Type} {NK : Num K}.
  Notation V := (V3 K).
  Definition pt_with_error_pinned (m : M4 K) (p : V) : V * V :=
    (mul4x4point m p, vscale (mul4x4_abs m (vx p) (vy p) (vz p)) (ngamma 3)).
  Definition pt_propagate_error_pinned (m : M4 K) (p e : V) : V * V :=
    let '(ret, err2) := pt_with_error_pinned m p in
    let err1 := vscale (mul4x4_abs m (vx e) (vy e) (vz e)) (n1 + ngamma 3) in
    (ret, vadd err1 err2).
  (** before the fix of the vector functions: the translation column |m_i3| entered the error of a transformed
      VECTOR, whose image does not involve the translation at all *)
  Definition vec_with_error_pinned (m : M4 K) (v : V) : V * V :=
    (mul4x4vec m v, vscale (mul4x4_abs m (vx v) (vy v) (vz v)) (ngamma 3)).
  Definition vec_propagate_error_pinned (m : M4 K) (v e : V) : V * V :=
    let '(ret, err2) := vec_with_error_pinned m v in
    let err1 := vscale (mul4x4_abs m (vx e) (vy e) (vz e)) (n1 + ngamma 3) in
    (ret, vadd err1 err2).
End PinnedTransformErrors.
