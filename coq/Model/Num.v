(** * Num: the number interface the whole model is written against.

    One model text, three instances:
    - [NumR]   : Coq reals            -- exact-tier theorems
    - [NumB]   : Flocq binary floats  -- float-tier theorems, any precision; executable (slow)
    - [NumF]   : primitive binary64   -- executable (fast), run against the Rust crate

    Definitions only; no proofs here (the model must still run when a proof breaks). *)
From Coq Require Import ZArith Reals Bool List.
From Coq Require Import Floats.SpecFloat.
From Flocq Require Import Core BinarySingleNaN.
Import ListNotations.

Class Num (K : Type) := {
  nadd : K -> K -> K;
  nsub : K -> K -> K;
  nmul : K -> K -> K;
  ndiv : K -> K -> K;
  nneg : K -> K;
  nabs : K -> K;
  nsqrt : K -> K;
  nltb : K -> K -> bool;   (* IEEE: false when unordered *)
  nleb : K -> K -> bool;
  neqb : K -> K -> bool;   (* IEEE ==: +0 == -0, NaN != NaN *)
  nofZ : Z -> K;           (* integer literal, exactly representable ones only *)
  neps : K;                (* Float::EPSILON *)
  nmaxf : K;               (* Float::MAX *)
  ninf : K;                (* Float::INFINITY *)
  nnext_up : K -> K;       (* round_error::next_float_up, with its special cases *)
  nnext_dn : K -> K;       (* round_error::next_float_down *)
  nis_nan : K -> bool;
  nsin : K -> K;
  ncos : K -> K;
  ntan : K -> K;
  nacos : K -> K;
  natan2 : K -> K -> K;
  npi : K
}.

Declare Scope num_scope.
Delimit Scope num_scope with num.
Infix "+" := nadd : num_scope.
Infix "-" := nsub : num_scope.
Infix "*" := nmul : num_scope.
Infix "/" := ndiv : num_scope.
Notation "- x" := (nneg x) : num_scope.
Infix "<?" := nltb : num_scope.
Infix "<=?" := nleb : num_scope.
Infix "=?" := neqb : num_scope.
Notation "a >? b" := (nltb b a) : num_scope.
Notation "a >=? b" := (nleb b a) : num_scope.

Section Derived.
  Context {K : Type} {NK : Num K}.
  Local Open Scope num_scope.
  (** a literal p/q; correctly rounded whenever p and q are exactly representable,
      which is how every decimal literal of the crate is produced here
      (1e-5 = 1/100000, 1e-7 = 1/10^7, 0.5 = 1/2 ...). *)
  Definition nofQ (p : Z) (q : Z) : K := nofZ p / nofZ q.
  Definition n0 : K := nofZ 0.
  Definition n1 : K := nofZ 1.
  Definition n2 : K := nofZ 2.
  Definition nhalf : K := nofQ 1 2.
  Definition c1em3 : K := nofQ 1 1000.
  Definition c1em5 : K := nofQ 1 100000.
  Definition c1em7 : K := nofQ 1 10000000.
  Definition c1em8 : K := nofQ 1 100000000.
  Definition c1em9 : K := nofQ 1 1000000000.
  Definition c1em10 : K := nofQ 1 10000000000.
  Definition ctiny : K := nofZ 100 * neps.      (* 100. * Float::EPSILON *)
  Definition nmax (a b : K) : K := if a <? b then b else a.  (* used only where no NaN *)
  Definition nmin (a b : K) : K := if b <? a then b else a.
  (** the [gamma!(n)] macro of lib.rs *)
  Definition ngamma (n : Z) : K :=
    let nm := (neps / n2) * nofZ n in nm / (n1 - nm).
  (** Rust's f64::max / f64::min (NaN-ignoring) *)
  Definition fmax (a b : K) : K :=
    if nis_nan a then b else if nis_nan b then a else if a <? b then b else a.
  Definition fmin (a b : K) : K :=
    if nis_nan a then b else if nis_nan b then a else if b <? a then b else a.
End Derived.

(** ** Instance 1: real numbers *)
Section RInst.
  Definition Rltb (a b : R) : bool := if Rlt_dec a b then true else false.
  Definition Rleb (a b : R) : bool := if Rle_dec a b then true else false.
  Definition Reqb (a b : R) : bool := if Req_EM_T a b then true else false.
  Definition Ratan2 (y x : R) : R :=
    if Rlt_dec 0 x then atan (y / x)
    else if Rlt_dec x 0 then (if Rle_dec 0 y then atan (y / x) + PI else atan (y / x) - PI)
    else if Rlt_dec 0 y then PI / 2 else if Rlt_dec y 0 then - PI / 2 else 0.
  Global Instance NumR : Num R := {|
    nadd := Rplus; nsub := Rminus; nmul := Rmult; ndiv := Rdiv; nneg := Ropp;
    nabs := Rabs; nsqrt := R_sqrt.sqrt; nltb := Rltb; nleb := Rleb; neqb := Reqb;
    nofZ := IZR; neps := (/ IZR (2 ^ 52))%R; nmaxf := IZR (2 ^ 1024); ninf := IZR (2 ^ 1025);
    nnext_up := fun x => x; nnext_dn := fun x => x; nis_nan := fun _ => false;
    nsin := sin; ncos := cos; ntan := tan; nacos := acos; natan2 := Ratan2; npi := PI
  |}.
End RInst.

(** ** Instance 2: Flocq binary floats of any format *)
Section BInst.
  Variable prec emax : Z.
  Context (Hprec : FLX.Prec_gt_0 prec) (Hmax : Prec_lt_emax prec emax).
  Notation bf := (binary_float prec emax).

  Definition Bofz (z : Z) : bf := binary_normalize prec emax Hprec Hmax mode_NE z 0 false.
  (** next_float_up: +inf stays; -0 is treated as +0; otherwise bits +- 1: IEEE nextUp *)
  Definition Bnext_up (x : bf) : bf := Bsucc x.
  (** next_float_down: -inf stays; +0 is treated as -0; otherwise IEEE nextDown *)
  Definition Bnext_dn (x : bf) : bf := Bpred x.
  Definition Bmaxf : bf := Bmax_float.
  Definition Beps : bf := binary_normalize prec emax Hprec Hmax mode_NE 1 (1 - prec) false.
  Definition Bnan : bf := B754_nan.

  Global Instance NumB : Num bf := {|
    nadd := Bplus mode_NE;
    nsub := Bminus mode_NE;
    nmul := Bmult mode_NE;
    ndiv := Bdiv mode_NE;
    nneg := Bopp; nabs := Babs;
    nsqrt := Bsqrt mode_NE;
    nltb := Bltb; nleb := Bleb; neqb := Beqb;
    nofZ := Bofz; neps := Beps; nmaxf := Bmaxf; ninf := B754_infinity false;
    nnext_up := Bnext_up; nnext_dn := Bnext_dn; nis_nan := is_nan;
    (* libm is outside the float-tier theorems; never evaluated on this instance *)
    nsin := fun _ => Bnan; ncos := fun _ => Bnan; ntan := fun _ => Bnan;
    nacos := fun _ => Bnan; natan2 := fun _ _ => Bnan; npi := Bnan
  |}.

  Definition BofSF (s : spec_float) : bf :=
    match s with
    | S754_zero b => B754_zero b
    | S754_infinity b => B754_infinity b
    | S754_nan => B754_nan
    | S754_finite b m e => binary_normalize prec emax Hprec Hmax mode_NE (if b then Zneg m else Zpos m) e false
    end.
End BInst.

Lemma Hprec53 : FLX.Prec_gt_0 53. Proof. reflexivity. Qed.
Lemma Hmax1024 : Prec_lt_emax 53 1024. Proof. reflexivity. Qed.
Lemma Hprec24 : FLX.Prec_gt_0 24. Proof. reflexivity. Qed.
Lemma Hmax128 : Prec_lt_emax 24 128. Proof. reflexivity. Qed.
Definition b64 := binary_float 53 1024.
Definition b32 := binary_float 24 128.
Global Instance NumB64 : Num b64 := NumB 53 1024 Hprec53 Hmax1024.
Global Instance NumB32 : Num b32 := NumB 24 128 Hprec24 Hmax128.
Definition B64ofSF := BofSF 53 1024 Hprec53 Hmax1024.
Definition B32ofSF := BofSF 24 128 Hprec24 Hmax128.
