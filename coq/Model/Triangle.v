(** * Triangle: model of src/triangle3d.rs *)
From Coq Require Import ZArith List Bool.
From G3 Require Import Model.Num Model.Base Model.Vec Model.BBox Model.Transform Model.Hit Model.Segment.
Local Open Scope num_scope.

(** PointInTriangle *)
Inductive PIT := VertexA | VertexB | VertexC | EdgeAB | EdgeBC | EdgeAC | Inside | Outside.

Section Triangle.
  Context {K : Type} {NK : Num K}.
  Notation V := (V3 K).

  (** [intersect_triangle] (Moller-Trumbore): Some (p, u, v); tag = which return fired *)
  Definition intersect_triangle_tag (ray : Ray K) (v0 v1 v2 : V) : option (V * K * K) * N :=
    let edge1 := vsub v1 v0 in
    let edge2 := vsub v2 v0 in
    let h := vcross (rdir ray) edge2 in
    let a := vdot edge1 h in
    if (a >? - ctiny) && (a <? ctiny) then (None, 1%N) else
    let f := n1 / a in
    let s := vsub (rorigin ray) v0 in
    let u := f * vdot s h in
    if negb ((n0 <=? u) && (u <=? n1)) then (None, 2%N) else
    let q := vcross s edge1 in
    let v := f * vdot (rdir ray) q in
    if (v <? n0) || (u + v >? n1) then (None, 3%N) else
    let t := f * vdot edge2 q in
    if t >? ctiny then (Some (ray_project ray t, u, v), 5%N) else (None, 4%N).
  Definition intersect_triangle r a b c := fst (intersect_triangle_tag r a b c).

  Record Tri := mkTri { ta : V; tb : V; tc : V; tnormal : V; tarea : K }.
  Definition tri_ab (t : Tri) := seg_new (ta t) (tb t).
  Definition tri_bc (t : Tri) := seg_new (tb t) (tc t).
  Definition tri_ca (t : Tri) := seg_new (tc t) (ta t).

  Definition heron (ab bc ca : K) : K :=
    nsqrt ((ca + bc + ab) * ((ca + bc + ab) / n2 - ab) * ((ca + bc + ab) / n2 - bc) * ((ca + bc + ab) / n2 - ca) / n2).
  Definition tri_normal_of (a b c : V) : V := vnormalize (vcross (vsub b a) (vsub c b)).
  (** Triangle3D::new; the [unwrap] of is_collinear is site 10 (unreachable after the compare tests) *)
  Definition tri_new (a b c : V) : res Tri :=
    if vcompare a b || vcompare a c || vcompare b c then Err 10%N else
    do col <- unwrap 10%N (is_collinear a b c);
    if col then Err 11%N else
    let area := heron (pdist a b) (pdist b c) (pdist c a) in
    Ok (mkTri a b c (tri_normal_of a b c) area).

  Definition tri_circumradius (t : Tri) : K :=
    let a := slength (tri_ab t) in let b := slength (tri_bc t) in let c := slength (tri_ca t) in
    let s := (a + b + c) * (b + c - a) * (c + a - b) * (a + b - c) in
    a * b * c / nsqrt s.
  Definition c1e19 : K := nofZ 10000000000 * nofZ 1000000000.  (* 1E19, exact *)
  Definition tri_aspect_ratio (t : Tri) : K :=
    let m := c1e19 in
    let m := if slength (tri_ab t) <? m then slength (tri_ab t) else m in
    let m := if slength (tri_bc t) <? m then slength (tri_bc t) else m in
    let m := if slength (tri_ca t) <? m then slength (tri_ca t) else m in
    tri_circumradius t / m.
  Definition tri_circumcenter (t : Tri) : V :=
    let ab := vsub (tb t) (ta t) in
    let ac := vsub (tc t) (ta t) in
    let ab_cross_ac := vcross ab ac in
    let ac_sq_length := vlen ac * vlen ac in
    let ab_sq_length := vlen ab * vlen ab in
    let ab_x_ac_sq_length := vlen ab_cross_ac * vlen ab_cross_ac in
    let a_center := vdivs (vadd (vscale (vcross ab_cross_ac ab) ac_sq_length) (vscale (vcross ac ab_cross_ac) ab_sq_length))
                          (n2 * ab_x_ac_sq_length) in
    vadd (ta t) a_center.
  Definition tri_centroid (t : Tri) : V :=
    let three := nofZ 3 in
    mkV3 ((vx (ta t) + vx (tb t) + vx (tc t)) / three) ((vy (ta t) + vy (tb t) + vy (tc t)) / three)
         ((vz (ta t) + vz (tb t) + vz (tc t)) / three).
  Definition tri_vertex (t : Tri) (i : N) : res V :=
    match i with 0%N => Ok (ta t) | 1%N => Ok (tb t) | 2%N => Ok (tc t) | _ => Err 12%N end.
  Definition tri_segment (t : Tri) (i : N) : res (Seg K) :=
    match i with 0%N => Ok (tri_ab t) | 1%N => Ok (tri_bc t) | 2%N => Ok (tri_ca t) | _ => Err 13%N end.

  Definition tri_test_point (t : Tri) (p : V) : PIT :=
    let e1 := vsub (tb t) (ta t) in
    let e2 := vsub (tc t) (ta t) in
    let p_minus_a := vsub p (ta t) in
    let e2e2 := vdot e2 e2 in let e1e2 := vdot e2 e1 in let e1e1 := vdot e1 e1 in
    let left1 := vdot e1 p_minus_a in let left2 := vdot e2 p_minus_a in
    let det := e1e1 * e2e2 - e1e2 * e1e2 in
    let alpha := (e2e2 * left1 - e1e2 * left2) / det in
    let beta := ((- e1e2) * left1 + e1e1 * left2) / det in
    let w := n1 - alpha - beta in
    let mt := - ctiny in
    if (alpha >=? mt) && (beta >=? mt) && (w >=? mt) then
      if (alpha <=? ctiny) && (beta <=? ctiny) then VertexA
      else if (alpha <=? ctiny) && (w <=? ctiny) then VertexC
      else if (beta <=? ctiny) && (w <=? ctiny) then VertexB
      else if alpha <=? ctiny then EdgeAC
      else if w <=? ctiny then EdgeBC
      else if beta <=? ctiny then EdgeAB
      else Inside
    else Outside.

  Definition tri_get_edge_index_from_segment (t : Tri) (s : Seg K) : option N :=
    if seg_compare s (tri_ab t) then Some 0%N
    else if seg_compare s (tri_bc t) then Some 1%N
    else if seg_compare s (tri_ca t) then Some 2%N else None.
  Definition tri_get_edge_index_from_points (t : Tri) (a b : V) : option N :=
    tri_get_edge_index_from_segment t (seg_new a b).
  Definition tri_has_vertex (t : Tri) (p : V) : bool :=
    vcompare (ta t) p || vcompare (tb t) p || vcompare (tc t) p.
  Definition tri_compare (t u : Tri) : bool :=
    tri_has_vertex u (ta t) && tri_has_vertex u (tb t) && tri_has_vertex u (tc t).

  Definition tri_bounds (t : Tri) : BBox K :=
    bbox_from_union_point (bbox_from_union_point (bbox_from_point (ta t)) (tb t)) (tc t).

  (** ray interface: a Triangle3D never carries a transform *)
  Definition tri_intersect_local_ray (t : Tri) (ray : Ray K) : option (Info K) :=
    match intersect_triangle ray (ta t) (tb t) (tc t) with
    | None => None
    | Some (phit, _, _) =>
      let dpdu := vsub (tb t) (ta t) in
      let dpdv := vsub (tc t) (ta t) in
      let normal := vnormalize (vcross dpdu dpdv) in
      let '(normal, side) := get_side normal (rdir ray) in
      Some (mkInfo phit normal side dpdu dpdv)
    end.
  Definition tri_intersect (t : Tri) (ray : Ray K) : option (Info K) := tri_intersect_local_ray t ray.
  (** simple_intersect goes through Transform::new().inv_transform_ray (which nudges the origin) *)
  Definition tri_simple_intersect (t : Tri) (ray : Ray K) : option V :=
    let '(local_ray, _, _) := tr_inv_ray tr_new ray in
    match intersect_triangle local_ray (ta t) (tb t) (tc t) with
    | None => None | Some (p, _, _) => Some p end.
End Triangle.
Arguments Tri K : clear implicits.
