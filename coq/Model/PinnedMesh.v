(** * PinnedMesh: [Triangulation3D::split_edge] as it was BEFORE fix 361bbb9 (finding F14, C08:half-updated):
    no constructibility check before the first [invalidate], so a child refused by Triangle3D::new left the mesh
    half-updated.  Kept only so that the refutation witness (Proofs/Mesh_witness.v w4, Properties/C08_mesh.v)
    stays machine-checked.  The live model is Model/Triangulation.v.  Definitions only. *)
From Coq Require Import ZArith List Bool Arith.
From G3 Require Import Model.Num Model.Base Model.Vec Model.Segment Model.Triangle Model.Loop Model.Polygon Model.Triangulation.
Import ListNotations.
Local Open Scope num_scope.

Section PinnedMesh.
  Context {K : Type} {NK : Num K}.
  Notation V := (V3 K).
  Notation "'mdo' x <- m ; k" := (mbind m (fun x => k)) (at level 200, x pattern, m at level 100, k at level 200).

  Definition split_edge_pinned (triangle_index : nat) (edge_to_split : Edge) (p : V) : MR (K:=K) unit :=
    mdo t <- mget 80%N triangle_index;
    if negb (tp_valid t) then mlift (Err 106%N) else
    mdo segment_to_split <- mlift (tri_segment (tp_tri t) (edge_as_i edge_to_split));
    let nei_i := tp_neighbour t edge_to_split in
    mdo top <- process_hemisphere segment_to_split p triangle_index;
    let '(top_left_i, top_right_i) := top in
    match nei_i with
    | Some nei =>
      mdo bot <- process_hemisphere segment_to_split p nei;
      let '(bottom_right_i, bottom_left_i) := bot in
      mdo _ <- mark_as_neighbours top_left_i Ab bottom_left_i;
      mark_as_neighbours top_right_i Ab bottom_right_i
    | None => mret tt
    end.
End PinnedMesh.
