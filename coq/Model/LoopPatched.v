(** * LoopPatched: [test_point] with the cast segment as a parameter, and the PROPOSED repair of finding
    C05:ray-too-short (not applied to /repo): same direction as today (away from the midpoint of the first
    stored edge) but a length of at least twice the distance from the point to the farthest vertex (and
    never less than 1000, so that the absolute tolerances of is_same_direction / get_intersection_pt see
    the ray as before), so that the segment always leaves the loop.  Rust text of the repair (replaces
    the line `let d = (...) * 1000.;`):

      let dir = point - (self.vertices[0] + self.vertices[1]) * 0.5;
      let mut reach: Float = 0.;
      for v in &self.vertices { reach = reach.max((v.clone() - point).length()); }
      let d = dir * ((2. * reach).max(1000.) / dir.length());

    Definitions only. *)
From Coq Require Import ZArith List Bool Arith.
From G3 Require Import Model.Num Model.Base Model.Vec Model.Segment Model.Loop.
Import ListNotations.
Local Open Scope num_scope.

Section LoopPatched.
  Context {K : Type} {NK : Num K}.
  Notation V := (V3 K).

  Definition loop_test_point_gen (rayf : Loop K -> V -> V) (L : Loop K) (point : V) : res bool :=
    if negb (lclosed L) then Err 34%N else
    do cop <- loop_is_coplanar L point;
    if negb cop then Ok false else
    let d := rayf L point in
    let ray := seg_new point (vadd point d) in
    do r <- count_crossings L point d ray (verts L) (vnth (verts L) O) O;
    if fst r then Ok true else Ok (negb (Nat.eqb (snd r) O) && Nat.odd (snd r)).

  (** the code as it is: 1000 (q - m) *)
  Definition original_ray (L : Loop K) (point : V) : V :=
    vscale (vsub point (vscale (vadd (vnth (verts L) O) (vnth (verts L) (S O))) nhalf)) (nofZ 1000).
  (** the repair *)
  Definition loop_reach (L : Loop K) (point : V) : K :=
    fold_left (fun acc v => fmax acc (vlen (vsub v point))) (verts L) n0.
  Definition patched_ray (L : Loop K) (point : V) : V :=
    let dir := vsub point (vscale (vadd (vnth (verts L) O) (vnth (verts L) (S O))) nhalf) in
    vscale dir (fmax (n2 * loop_reach L point) (nofZ 1000) / vlen dir).
  Definition loop_test_point_patched := loop_test_point_gen patched_ray.
End LoopPatched.
