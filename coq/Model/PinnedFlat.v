(** * PinnedFlat: the pinned (snapshot b5e97ad) ray/triangle test, which tested [0<=u<=1] and [0<=v<=1]
    separately and therefore accepted the whole parallelogram (repaired by commit 59c6847). Only for the
    [_refuted] witness. *)
From Coq Require Import ZArith List Bool.
From G3 Require Import Model.Num Model.Base Model.Vec.
Local Open Scope num_scope.

Section PinnedFlat.
  Context {K : Type} {NK : Num K}.
  Notation V := (V3 K).
  Definition intersect_triangle_pinned (ray : Ray K) (v0 v1 v2 : V) : option (V * K * K) :=
    let edge1 := vsub v1 v0 in
    let edge2 := vsub v2 v0 in
    let h := vcross (rdir ray) edge2 in
    let a := vdot edge1 h in
    if (a >? - ctiny) && (a <? ctiny) then None else
    let f := n1 / a in
    let s := vsub (rorigin ray) v0 in
    let u := f * vdot s h in
    if negb ((n0 <=? u) && (u <=? n1)) then None else
    let q := vcross s edge1 in
    let v := f * vdot (rdir ray) q in
    if negb ((n0 <=? v) && (v <=? n1)) then None else
    let t := f * vdot edge2 q in
    if t >? ctiny then Some (ray_project ray t, u, v) else None.
End PinnedFlat.
