(** * Areas: the closed-form surface areas of src/sphere3d.rs, src/cylinder3d.rs, src/disk3d.rs
    (src/bbox3d.rs: [bbox_surface_area] is in Model/BBox.v), as functions of the constructor
    arguments.  Only the fields the area reads are kept; they are computed without libm
    ([clamp], [to_radians] = x * (PI / 180), [sqrt]), so the whole path constructor -> area is
    compared bit for bit.  Every [panic!] / [assert!] / [debug_assert!] on that path is a [Panic site]. *)
From Coq Require Import ZArith List Bool.
From G3 Require Import Model.Num Model.Base Model.Vec Model.BBox Model.Transform.
Local Open Scope num_scope.

Section Areas.
  Context {K : Type} {NK : Num K}.
  Notation V := (V3 K).

  (** f64::clamp: [assert!(min <= max)], then the two one-sided tests (NaN passes through) *)
  Definition fclamp (site : N) (x lo hi : K) : res K :=
    if negb (lo <=? hi) then Panic site else
    let x := if x <? lo then lo else x in
    Ok (if x >? hi then hi else x).
  Definition c360 : K := nofZ 360.
  (** [(-Float::EPSILON..=360. + Float::EPSILON).contains(&phi_max)] *)
  Definition phi_in_range (phi : K) : bool := ((- neps) <=? phi) && (phi <=? c360 + neps).

  (** what the areas of a sphere / cylinder read: radius, zmin, zmax, phi_max (radians) *)
  Record Zone := mkZone { zradius : K; zzmin : K; zzmax : K; zphi_max : K }.

  (** Sphere3D::new_partial_transformed (the transform does not enter the area) *)
  Definition sphere_new_partial (radius zmin zmax phi_max : K) : res Zone :=
    if zmin >? zmax then Panic 20%N else
    do zmin' <- fclamp 21%N zmin (- radius) radius;
    do zmax' <- fclamp 21%N zmax (- radius) radius;
    if negb (phi_in_range phi_max) then Panic 22%N else
    do phi <- fclamp 23%N phi_max n0 c360;
    Ok (mkZone radius zmin' zmax' (to_radians phi)).
  (** Sphere3D::new: [new_partial(radius, centre, -2. * radius, 2. * radius, 360.)] *)
  Definition sphere_new (radius : K) : res Zone :=
    sphere_new_partial radius ((- n2) * radius) (n2 * radius) c360.
  Definition sphere_area (z : Zone) : K := zphi_max z * zradius z * (zzmax z - zzmin z).

  (** Cylinder3D::new_transformed / new_partial *)
  Definition cylinder_new_transformed (radius zmin zmax phi_max : K) : res Zone :=
    if zmin >? zmax then Panic 25%N else
    if negb (phi_in_range phi_max) then Panic 26%N else
    do phi <- fclamp 27%N phi_max n0 c360;
    Ok (mkZone radius zmin zmax (to_radians phi)).
  Definition cylinder_new_partial (p0 p1 : V) (radius phi_max : K) : res Zone :=
    cylinder_new_transformed radius n0 (vlen (vsub p1 p0)) phi_max.
  (** [area] has [debug_assert!(self.zmax > self.zmin)]: a panic of debug builds only *)
  Definition cylinder_area (dbg : bool) (z : Zone) : res K :=
    if dbg && negb (zzmax z >? zzmin z) then Panic 28%N else
    Ok ((zzmax z - zzmin z) * zradius z * zphi_max z).

  (** Disk3D::new_detailed: normal, phi_zero, radius, inner_radius, phi_max (radians) *)
  Record Disk := mkDisk { dnormal : V; dphi_zero : V; dradius : K; dinner : K; dphi_max : K }.
  Definition disk_new_detailed (dbg : bool) (normal : V) (radius inner : K) (phi_zero : V) (phi_max : K) : res Disk :=
    let normal := vnormalize normal in
    if vis_parallel normal phi_zero then Panic 30%N else
    let phi_zero := vnormalize (vsub phi_zero (vscale normal (vdot normal phi_zero))) in
    if dbg && negb (nabs (vdot phi_zero normal) <? neps) then Panic 31%N else
    if radius <=? inner then Panic 32%N else
    if radius <? n0 then Panic 33%N else
    if inner <? n0 then Panic 34%N else
    do phi <- fclamp 35%N phi_max n0 c360;
    Ok (mkDisk normal phi_zero radius inner (to_radians phi)).
  (** Disk3D::new: [new_detailed(centre, normal, radius, 0., normal.get_perpendicular().unwrap(), 360., None)] *)
  Definition disk_new (dbg : bool) (normal : V) (radius : K) : res Disk :=
    do pz <- unwrap 36%N (vget_perpendicular normal);
    disk_new_detailed dbg normal radius n0 pz c360.
  Definition disk_area (d : Disk) : K :=
    dphi_max d * nhalf * (dradius d * dradius d - dinner d * dinner d).

  (** BBox3D::new then surface_area *)
  Definition box_area (a b : V) : K := bbox_surface_area (bbox_new a b).
End Areas.
Arguments Zone K : clear implicits.
Arguments Disk K : clear implicits.
