(** * Vec: model of src/point3d.rs and src/vector3d.rs (one carrier [V3] for both). *)
From Coq Require Import ZArith List Bool.
From G3 Require Import Model.Num Model.Base.
Local Open Scope num_scope.

Section Vec.
  Context {K : Type} {NK : Num K}.
  Notation V := (V3 K).

  Definition vadd (a b : V) : V := mkV3 (vx a + vx b) (vy a + vy b) (vz a + vz b).
  Definition vsub (a b : V) : V := mkV3 (vx a - vx b) (vy a - vy b) (vz a - vz b).
  Definition vneg (a : V) : V := mkV3 (- vx a) (- vy a) (- vz a).
  Definition vscale (a : V) (s : K) : V := mkV3 (vx a * s) (vy a * s) (vz a * s).
  Definition vdivs (a : V) (s : K) : V := mkV3 (vx a / s) (vy a / s) (vz a / s).
  Definition vdot (a b : V) : K := vx a * vx b + vy a * vy b + vz a * vz b.
  Definition vabs (a : V) : V := mkV3 (nabs (vx a)) (nabs (vy a)) (nabs (vz a)).
  Definition vcross (a v : V) : V :=
    mkV3 (vy a * vz v - vz a * vy v) (vz a * vx v - vx a * vz v) (vx a * vy v - vy a * vx v).
  Definition vlen2 (a : V) : K := vx a * vx a + vy a * vy a + vz a * vz a.
  Definition vlen (a : V) : K := nsqrt (vlen2 a).
  (** [normalize]: multiply by l = 1/length *)
  Definition vnormalize (a : V) : V :=
    let l := n1 / vlen a in mkV3 (vx a * l) (vy a * l) (vz a * l).
  Definition vis_zero (a : V) : bool :=
    (nabs (vx a) <? ctiny) && (nabs (vy a) <? ctiny) && (nabs (vz a) <? ctiny).
  (** Point3D::compare / Vector3D::compare (EPS = 1e-5) *)
  Definition vcompare (a p : V) : bool :=
    (nabs (vx a - vx p) <? c1em5) && (nabs (vy a - vy p) <? c1em5) && (nabs (vz a - vz p) <? c1em5).
  Definition psqdist (a p : V) : K :=
    let dx := (vx a - vx p) * (vx a - vx p) in
    let dy := (vy a - vy p) * (vy a - vy p) in
    let dz := (vz a - vz p) * (vz a - vz p) in dx + dy + dz.
  Definition pdist (a p : V) : K := nsqrt (psqdist a p).

  (** Point3D::is_collinear: Err when the three points compare equal *)
  Definition is_collinear (a b c : V) : res bool :=
    if vcompare a b && vcompare a c then Err 1%N else
    if vcompare a b || vcompare a c || vcompare b c then Ok true else
    let ab := vsub b a in let bc := vsub c b in
    Ok (vlen (vcross ab bc) <? c1em5).

  Definition vis_parallel (a v : V) : bool :=
    if vis_zero v || vis_zero a then false else
    let ab_squared := vlen2 a * vlen2 v in
    let dot := vdot a v in
    nabs (dot * dot - ab_squared) <? c1em5.
  Definition vis_same_direction (a v : V) : bool :=
    if negb (vis_parallel a v) then false else vdot a v >? n0.

  Definition vget_perpendicular (a : V) : res V :=
    if nabs (vx a) >? ctiny then
      let vx2 := vx a * vx a in let vy2 := vy a * vy a in
      let ay := vx a / nsqrt (vx2 + vy2) in
      let ax := (- vy a) * ay / vx a in
      Ok (mkV3 ax ay n0)
    else if nabs (vy a) >? ctiny then
      let vx2 := vx a * vx a in let vy2 := vy a * vy a in
      let ax := vy a / nsqrt (vx2 + vy2) in
      let ay := (- vx a) * ax / vy a in
      Ok (mkV3 ax ay n0)
    else if nabs (vz a) >? ctiny then
      let vx2 := vx a * vx a in let vz2 := vz a * vz a in
      let ax := vz a / nsqrt (vz2 + vx2) in
      let az := (- vx a) * ax / vz a in
      Ok (mkV3 ax n0 az)
    else Err 2%N.

  (** Ray3D *)
  Record Ray := mkRay { rorigin : V; rdir : V }.
  Definition ray_project (r : Ray) (t : K) : V := vadd (rorigin r) (vscale (rdir r) t).
  Definition ray_advance (r : Ray) (t : K) : Ray := mkRay (vadd (rorigin r) (vscale (rdir r) t)) (rdir r).
End Vec.
Arguments Ray K : clear implicits.
