(** * RoundError: model of src/round_error.rs (ApproxFloat and its 18 operator forms).
    Line-by-line transliteration, generic over [Num]. *)
From Coq Require Import ZArith List Bool.
From G3 Require Import Model.Num Model.Base.
Import ListNotations.
Local Open Scope num_scope.

Section RoundError.
  Context {K : Type} {NK : Num K}.

  Record AF := mkAF { low : K; high : K }.

  Definition af_from_value_and_error (value abs_error : K) : AF :=
    mkAF (value - abs_error) (value + abs_error).
  Definition af_from (value : K) : AF := af_from_value_and_error value n0.
  Definition af_from_bounds (l h : K) : AF := mkAF l h.
  (** [from_bounds] opens with [debug_assert!(high >= low)]: a panic of debug builds only (it also fires when a
      bound is NaN); release builds return the pair as given.  Reported separately, as for the other debug assertions. *)
  Definition af_from_bounds_debug_ok (l h : K) : bool := h >=? l.
  Definition af_midpoint (a : AF) : K := (low a + high a) / n2.
  Definition af_as_float := af_midpoint.
  Definition af_absolute_error (a : AF) : K := (high a - low a) / n2.
  Definition af_sqrt (a : AF) : AF :=
    mkAF (nnext_dn (nsqrt (low a))) (nnext_up (nsqrt (high a))).

  Definition af_neg (a : AF) : AF := mkAF (- high a) (- low a).

  Definition af_add (a b : AF) : AF :=
    mkAF (nnext_dn (low a + low b)) (nnext_up (high a + high b)).
  Definition af_add_f (a : AF) (f : K) : AF := af_add a (af_from f).

  Definition af_sub (a b : AF) : AF :=
    mkAF (nnext_dn (low a - high b)) (nnext_up (high a - low b)).
  Definition af_sub_f (a : AF) (f : K) : AF := af_sub a (af_from f).

  (** [max_min(&[Float;4]) -> (max, min)] *)
  Definition max_min4 (a0 a1 a2 a3 : K) : K * K :=
    let step (acc : K * K) (v : K) :=
      let '(mx, mn) := acc in
      let mx := if v >? mx then v else mx in
      let mn := if v <? mn then v else mn in (mx, mn) in
    step (step (step (a0, a0) a1) a2) a3.

  Definition af_mul (a b : AF) : AF :=
    let p0 := low a * low b in let p1 := high a * low b in
    let p2 := low a * high b in let p3 := high a * high b in
    let '(_, mn) := max_min4 (nnext_dn p0) (nnext_dn p1) (nnext_dn p2) (nnext_dn p3) in
    let '(mx, _) := max_min4 (nnext_up p0) (nnext_up p1) (nnext_up p2) (nnext_up p3) in
    mkAF (nnext_dn mn) (nnext_up mx).

  Definition af_mul_f (a : AF) (f : K) : AF :=
    let mn := low a * f in
    let mx := high a * f in
    if mn >? mx then mkAF (nnext_dn mx) (nnext_up mn)
    else mkAF (nnext_dn mn) (nnext_up mx).

  Definition af_div (a b : AF) : AF :=
    let p0 := low a / low b in let p1 := high a / low b in
    let p2 := low a / high b in let p3 := high a / high b in
    let '(_, mn) := max_min4 (nnext_dn p0) (nnext_dn p1) (nnext_dn p2) (nnext_dn p3) in
    let '(mx, _) := max_min4 (nnext_up p0) (nnext_up p1) (nnext_up p2) (nnext_up p3) in
    mkAF (nnext_dn mn) (nnext_up mx).
  Definition af_div_f (a : AF) (f : K) : AF := af_div a (af_from f).

  Definition af_add_assign := af_add.
  Definition af_add_assign_f := af_add_f.
  Definition af_sub_assign := af_sub.
  Definition af_sub_assign_f := af_sub_f.
  Definition af_mul_assign (a b : AF) : AF :=
    let '(mx, mn) := max_min4 (low a * low b) (high a * low b) (low a * high b) (high a * high b) in
    mkAF (nnext_dn mn) (nnext_up mx).
  Definition af_mul_assign_f (a : AF) (f : K) : AF := af_mul_assign a (af_from f).
  Definition af_div_assign (a b : AF) : AF :=
    let '(mx, mn) := max_min4 (low a / low b) (high a / low b) (low a / high b) (high a / high b) in
    mkAF (nnext_dn mn) (nnext_up mx).
  Definition af_div_assign_f (a : AF) (f : K) : AF := af_div_assign a (af_from f).

  (** [ApproxFloat::solve_quadratic] *)
  Definition af_solve_quadratic (a b c : AF) : option (AF * AF) :=
    let disc := af_sub (af_mul b b) (af_mul_f (af_mul a c) (nofZ 4)) in
    if low disc <? n0 then None else
    let discr_sqrt := af_sqrt disc in
    let q := if af_as_float b <? n0
             then af_mul_f (af_neg (af_sub b discr_sqrt)) nhalf
             else af_mul_f (af_neg (af_add b discr_sqrt)) nhalf in
    let x1 := af_div q a in
    let x2 := af_div c q in
    if low x1 >? low x2 then Some (x2, x1) else Some (x1, x2).
End RoundError.
Arguments AF K : clear implicits.
