(** * Json: model of the serde (de)serialisation of Loop3D / Polygon3D at the level of
    [serde_json::Value].  The text layer (number formatting/parsing) is serde_json's and is trusted. *)
From Coq Require Import ZArith List Bool Arith String.
From G3 Require Import Model.Num Model.Base Model.Vec Model.Segment Model.Loop Model.Polygon.
Import ListNotations.

Section Json.
  Context {K : Type} {NK : Num K}.
  Notation V := (V3 K).

  Inductive Value :=
  | JNull | JBool (b : bool) | JNumber (x : K) | JString (s : string)
  | JArray (l : list Value) | JObject (l : list (string * Value)).

  (** Serialize for Loop3D: a flat sequence of 3n numbers *)
  Definition ser_loop (L : Loop K) : Value :=
    JArray (flat_map (fun v => [JNumber (vx v); JNumber (vy v); JNumber (vz v)]) (verts L)).

  (** error classes: 60 "array of numbers" expected (non-number element or arity not divisible by 3);
      otherwise the class of the failing push/close *)
  Fixpoint de_points (a : list Value) (fuel : nat) (L : Loop K) : res (Loop K) :=
    match fuel with
    | O => Ok L
    | S f =>
      match a with
      | [] => Ok L
      | JNumber x :: JNumber y :: JNumber z :: tl =>
        do L' <- loop_push L (mkV3 x y z); de_points tl f L'
      | _ => Err 60%N
      end
    end.
  (** Deserialize for Loop3D (after the fix: every failure is an error value).
      A non-array document skips the reading loop and fails in [close] (fewer than 3 vertices). *)
  Definition de_loop (v : Value) : res (Loop K) :=
    do L <- (match v with JArray a => de_points a (S (List.length a)) loop_new | _ => Ok loop_new end);
    let '(L', r) := loop_close L in
    do _ <- r; Ok L'.

  (** Polygon3D: serialises its merged outline; deserialises a loop and wraps it *)
  Definition ser_poly (P : Poly K) : res Value := do l <- poly_get_closed_loop P; Ok (ser_loop l).
  Definition de_poly (v : Value) : res (Poly K) := do l <- de_loop v; poly_from l.
End Json.
Arguments Value K : clear implicits.
