(** * Sphere: model of src/sphere3d.rs (full and clipped spheres), line by line, generic over [Num].
    Also holds the two pieces of text that sphere3d.rs and cylinder3d.rs share verbatim:
    the root selection ("try t0, fall back to t1 when t0 is clipped away") and [f64::clamp]. *)
From Coq Require Import ZArith List Bool.
From G3 Require Import Model.Num Model.Base Model.Vec Model.BBox Model.RoundError Model.Transform Model.Hit.
Local Open Scope num_scope.

Section Quadric.
  Context {K : Type} {NK : Num K}.
  Notation V := (V3 K).

  (** [f64::clamp]: asserts [min <= max] (fails on NaN bounds), then two comparisons; NaN passes through *)
  Definition fclamp (site : N) (x lo hi : K) : res K :=
    if lo <=? hi then
      let x := if x <? lo then lo else x in
      Ok (if x >? hi then hi else x)
    else Panic site.
  (** the same when the bounds are the literals -1, 1 (the assertion cannot fail) *)
  Definition fclamp11 (x : K) : K :=
    let x := if x <? - n1 then - n1 else x in if x >? n1 then n1 else x.
  (** [Float::to_degrees].  f64: [self * (180.0 / PI)].  f32: the standard library multiplies by the LITERAL
      57.2957795130823208767981548141051703_f32 = 15019745 * 2^-18 (0x42652ee1), the correctly rounded 180 / pi, which is one
      ulp above the binary32 quotient 180 / PI (0x42652ee0); the working precision is told from [neps] (2^-23 only in binary32). *)
  Definition deg_per_rad : K := if neps =? nofQ 1 8388608 then nofQ 15019745 262144 else nofZ 180 / npi.
  Definition to_degrees (rad : K) : K := rad * deg_per_rad.
  (** [(-EPSILON..=360.+EPSILON).contains(&phi_max)], then [clamp(0,360).to_radians()] *)
  Definition phi_in_range (phi_max : K) : bool := (- neps <=? phi_max) && (phi_max <=? nofZ 360 + neps).
  Definition phi_to_radians (site : N) (phi_max : K) : res K :=
    do c <- fclamp site phi_max n0 (nofZ 360); Ok (to_radians c).

  (** the part of [approx_basic_intersection] / [basic_intersection] after [solve_quadratic], which the
      two files share word for word: [calc] is the closure [calc_phit_and_phi], [miss] the clip test.
      Tags: 2 = both roots behind; 3 = t0 reported; 4 = t0 clipped, t1 reported; 5 = t0 and t1 clipped;
            6 = t1 reported (t0 behind); 7 = t1 clipped (t0 behind). *)
  Definition select_hit (t0 t1 : AF K) (calc : AF K -> V * K) (miss : V * K -> bool) : option (V * K) * N :=
    if low t1 <=? n0 then (None, 2%N) else
    let '(thit, hit_is_t1) := if low t0 >? n0 then (t0, false) else (t1, true) in
    let h := calc thit in
    if miss h then
      if hit_is_t1 then (None, 7%N) else
      let h1 := calc t1 in
      if miss h1 then (None, 5%N) else (Some h1, 4%N)
    else (Some h, if hit_is_t1 then 6%N else 3%N).

  (** [phi = y.atan2(x); if phi < 0 { phi += 2 PI }] *)
  Definition phi_of (p : V) : K :=
    let phi := natan2 (vy p) (vx p) in if phi <? n0 then phi + n2 * npi else phi.
End Quadric.

Section Sphere.
  Context {K : Type} {NK : Num K}.
  Notation V := (V3 K).

  Record Sphere := mkSphere {
    sradius : K; szmin : K; szmax : K; sphi_max : K; sdelta_theta : K; stheta_min : K;
    stransform : option (Tr K) }.

  (** [Sphere3D::new_partial_transformed]; panic sites: 1 = zmin > zmax, 2 = clamp(-radius, radius) with
      radius < 0 or NaN, 3 = phi_max out of range *)
  Definition sphere_new_partial_transformed (radius zmin zmax phi_max : K) (transform : option (Tr K)) : res Sphere :=
    if zmin >? zmax then Panic 1%N else
    do zmin <- fclamp 2%N zmin (- radius) radius;
    do zmax <- fclamp 2%N zmax (- radius) radius;
    let theta_min := nacos (fclamp11 (zmin / radius)) in
    let theta_max := nacos (fclamp11 (zmax / radius)) in
    let '(theta_min, theta_max) := if theta_min >? theta_max then (theta_max, theta_min) else (theta_min, theta_max) in
    if negb (phi_in_range phi_max) then Panic 3%N else
    do phi_max <- phi_to_radians 3%N phi_max;
    Ok (mkSphere radius zmin zmax phi_max (theta_max - theta_min) theta_min transform).

  (** [Sphere3D::new_partial]: a translation is attached unless the centre [is_zero] *)
  Definition sphere_new_partial (radius : K) (centre : V) (zmin zmax phi_max : K) : res Sphere :=
    let transform := if negb (vis_zero centre) then Some (tr_translate (vx centre) (vy centre) (vz centre)) else None in
    sphere_new_partial_transformed radius zmin zmax phi_max transform.
  Definition sphere_new (radius : K) (centre : V) : res Sphere :=
    sphere_new_partial radius centre (- n2 * radius) (n2 * radius) (nofZ 360).
  Definition sphere_new_transformed (radius : K) (transform : option (Tr K)) : res Sphere :=
    sphere_new_partial_transformed radius (- n2 * radius) (n2 * radius) (nofZ 360) transform.

  (** the quadratic of [approx_basic_intersection] *)
  Definition sphere_abc (s : Sphere) (ray : Ray K) (o_error d_error : V) : AF K * AF K * AF K :=
    let dx := af_from_value_and_error (vx (rdir ray)) (vx d_error) in
    let dy := af_from_value_and_error (vy (rdir ray)) (vy d_error) in
    let dz := af_from_value_and_error (vz (rdir ray)) (vz d_error) in
    let ox := af_from_value_and_error (vx (rorigin ray)) (vx o_error) in
    let oy := af_from_value_and_error (vy (rorigin ray)) (vy o_error) in
    let oz := af_from_value_and_error (vz (rorigin ray)) (vz o_error) in
    let a := af_add (af_add (af_mul dx dx) (af_mul dy dy)) (af_mul dz dz) in
    let b := af_mul_f (af_add (af_add (af_mul ox dx) (af_mul oy dy)) (af_mul oz dz)) n2 in
    let c := af_sub_f (af_add (af_add (af_mul ox ox) (af_mul oy oy)) (af_mul oz oz)) (sradius s * sradius s) in
    (a, b, c).

  (** the closure [calc_phit_and_phi]: project, re-project onto the sphere, pole fix-up, phi *)
  Definition sphere_fixup (s : Sphere) (phit : V) : V :=
    let limit := c1em5 * sradius s in
    if (nabs (vx phit) <? limit) && (nabs (vy phit) <? limit) then mkV3 limit (vy phit) (vz phit) else phit.
  Definition sphere_reproject (s : Sphere) (phit : V) : V := vscale phit (sradius s / vlen phit).
  Definition sphere_calc (s : Sphere) (ray : Ray K) (thit : AF K) : V * K :=
    let phit := ray_project ray (af_as_float thit) in
    let phit := sphere_reproject s phit in
    let phit := sphere_fixup s phit in
    (phit, phi_of phit).
  (** the clip test (true = clipped away) *)
  Definition sphere_miss (s : Sphere) (h : V * K) : bool :=
    let '(phit, phi) := h in
    ((szmin s >? - sradius s) && (vz phit <? szmin s)) ||
    ((szmax s <? sradius s) && (vz phit >? szmax s)) ||
    (phi >? sphi_max s).

  (** [approx_basic_intersection] with its path tag (1 = no real root) *)
  Definition sphere_basic_tag (s : Sphere) (ray : Ray K) (o_error d_error : V) : option (V * K) * N :=
    let '(a, b, c) := sphere_abc s ray o_error d_error in
    match af_solve_quadratic a b c with
    | None => (None, 1%N)
    | Some (t0, t1) => select_hit t0 t1 (sphere_calc s ray) (sphere_miss s)
    end.
  Definition sphere_basic s ray oe de := fst (sphere_basic_tag s ray oe de).
  (** the [#[cfg(debug_assertions)] panic!] after solve_quadratic: fires when a midpoint is NaN or infinite *)
  Definition is_inf (x : K) : bool := (nabs x =? ninf).
  Definition sphere_basic_debug_ok (s : Sphere) (ray : Ray K) (o_error d_error : V) : bool :=
    let '(a, b, c) := sphere_abc s ray o_error d_error in
    match af_solve_quadratic a b c with
    | None => true
    | Some (t0, t1) =>
      negb (nis_nan (af_as_float t0) || nis_nan (af_as_float t1) || is_inf (af_as_float t0) || is_inf (af_as_float t1))
    end.

  (** [intersection_info]: the first derivatives (second derivatives only feed the `textures` fields) *)
  Definition sphere_dpdu (s : Sphere) (phit : V) : V :=
    mkV3 (- sphi_max s * vy phit) (sphi_max s * vx phit) n0.
  Definition sphere_sin_theta (s : Sphere) (phit : V) : K :=
    nsin (nacos (fclamp11 (vz phit / sradius s))).
  Definition sphere_dpdv (s : Sphere) (phit : V) : V :=
    let sin_theta := sphere_sin_theta s phit in
    let one_over_r_sin_theta := n1 / sradius s / sin_theta in
    let cos_phi := vx phit * one_over_r_sin_theta in
    let sin_phi := vy phit * one_over_r_sin_theta in
    vscale (mkV3 (vz phit * cos_phi) (vz phit * sin_phi) (- sradius s * sin_theta)) (sdelta_theta s).
  Definition sphere_info (s : Sphere) (ray : Ray K) (phit : V) (phi : K) : Info K :=
    info_new ray phit (sphere_dpdu s phit) (sphere_dpdv s phit).
  Definition sphere_info_debug_ok (s : Sphere) (phit : V) : bool :=
    info_new_debug_ok (sphere_dpdu s phit) (sphere_dpdv s phit).

  Definition sphere_bounds (s : Sphere) : BBox K :=
    bbox_new (mkV3 (- sradius s) (- sradius s) (szmin s)) (mkV3 (sradius s) (sradius s) (szmax s)).
  Definition sphere_area (s : Sphere) : K := sphi_max s * sradius s * (szmax s - szmin s).
  Definition sphere_centre (s : Sphere) : V :=
    match stransform s with None => mkV3 n0 n0 n0 | Some t => tr_pt t (mkV3 n0 n0 n0) end.

  Definition sphere_intersect_local_ray (s : Sphere) (ray : Ray K) (oe de : V) : option (Info K) :=
    match sphere_basic s ray oe de with
    | None => None
    | Some (phit, phi) => Some (sphere_info s ray phit phi)
    end.
  Definition sphere_simple_intersect_local_ray (s : Sphere) (ray : Ray K) (oe de : V) : option V :=
    match sphere_basic s ray oe de with None => None | Some (phit, _) => Some phit end.

  Definition vzero : V := mkV3 n0 n0 n0.
  (** [intersect]: world ray -> object space (with the error boxes of inv_transform_ray), hit -> world *)
  Definition sphere_local_ray (s : Sphere) (ray : Ray K) : Ray K * V * V :=
    match stransform s with Some t => tr_inv_ray t ray | None => (ray, vzero, vzero) end.
  Definition sphere_intersect (s : Sphere) (ray : Ray K) : option (Info K) :=
    let '(local_ray, oe, de) := sphere_local_ray s ray in
    match sphere_intersect_local_ray s local_ray oe de with
    | None => None
    | Some info => match stransform s with Some t => Some (info_transform info t) | None => Some info end
    end.
  (** [simple_intersect]: without a transform the ray still goes through [Transform::new().inv_transform_ray] *)
  Definition sphere_simple_local_ray (s : Sphere) (ray : Ray K) : Ray K * V * V :=
    match stransform s with Some t => tr_inv_ray t ray | None => tr_inv_ray tr_new ray end.
  Definition sphere_simple_intersect (s : Sphere) (ray : Ray K) : option V :=
    let '(local_ray, oe, de) := sphere_simple_local_ray s ray in
    match sphere_simple_intersect_local_ray s local_ray oe de with
    | None => None
    | Some phit => match stransform s with Some t => Some (tr_pt t phit) | None => Some phit end
    end.
  Definition sphere_world_bounds (s : Sphere) : BBox K :=
    match stransform s with Some t => tr_bbox t (sphere_bounds s) | None => sphere_bounds s end.
  (** debug builds: the assertion of [mul4x4point] inside [transform_bbox] / [transform_pt] (Model/Transform.v) *)
  Definition sphere_world_bounds_debug_ok (s : Sphere) : bool :=
    match stransform s with Some t => tr_bbox_debug_ok t (sphere_bounds s) | None => true end.
  Definition sphere_centre_debug_ok (s : Sphere) : bool :=
    match stransform s with Some t => tr_pt_debug_ok t (mkV3 n0 n0 n0) | None => true end.
End Sphere.
Arguments Sphere K : clear implicits.
