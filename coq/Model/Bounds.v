(** * Bounds: model of the [bounds()] / [world_bounds()] functions of src/triangle3d.rs,
    src/sphere3d.rs and src/cylinder3d.rs, and of the constructor lines that fix the stored clip
    coordinates they read.  The primitives' parameters (vertices; radius, zmin, zmax; the attached
    transform) are arguments: nothing here depends on the models of the primitives themselves. *)
From Coq Require Import ZArith List Bool.
From G3 Require Import Model.Num Model.Base Model.Vec Model.BBox Model.Transform.
Local Open Scope num_scope.

Section Bounds.
  Context {K : Type} {NK : Num K}.
  Notation V := (V3 K).

  (** Triangle3D::bounds (triangle3d.rs:468): from_point(a), then union with b, then with c *)
  Definition triangle_bounds (a b c : V) : BBox K :=
    let bbox := bbox_from_point a in
    let bbox := bbox_from_union_point bbox b in
    bbox_from_union_point bbox c.

  (** Sphere3D::bounds (sphere3d.rs:316) and Cylinder3D::bounds (cylinder3d.rs:237): same text,
      on the stored [radius], [zmin], [zmax] *)
  Definition sphere_bounds (radius zmin zmax : K) : BBox K :=
    bbox_new (mkV3 (- radius) (- radius) zmin) (mkV3 radius radius zmax).
  Definition cylinder_bounds (radius zmin zmax : K) : BBox K :=
    bbox_new (mkV3 (- radius) (- radius) zmin) (mkV3 radius radius zmax).

  (** world_bounds (same text in the three files): the attached transform, if any, applied to the
      local bounds.  [Triangle3D::transform()] is always [None]. *)
  Definition world_bounds (t : option (Tr K)) (local_b : BBox K) : BBox K :=
    match t with Some t => tr_bbox t local_b | None => local_b end.
  Definition triangle_world_bounds (a b c : V) : BBox K := world_bounds None (triangle_bounds a b c).

  (** f64::clamp: [assert!(min <= max)], then the two comparisons (NaN passes through) *)
  Definition fclamp (site : N) (x lo hi : K) : res K :=
    if negb (lo <=? hi) then Panic site else
    let x := if x <? lo then lo else x in
    Ok (if x >? hi then hi else x).
  (** [!(-EPSILON..=360. + EPSILON).contains(&phi_max)] *)
  Definition phi_ok (phi : K) : bool := ((- neps) <=? phi) && (phi <=? nofZ 360 + neps).

  (** Sphere3D::new_partial_transformed: the stored (zmin, zmax).  Panic sites: 1 = zmin > zmax,
      2 / 3 = clamp assertion (negative or NaN radius), 4 = phi_max out of range. *)
  Definition sphere_stored_z (radius zmin zmax phi_max : K) : res (K * K) :=
    if zmin >? zmax then Panic 1%N else
    do zmin' <- fclamp 2%N zmin (- radius) radius;
    do zmax' <- fclamp 3%N zmax (- radius) radius;
    if negb (phi_ok phi_max) then Panic 4%N else Ok (zmin', zmax').
  (** Sphere3D::new / new_transformed: zmin = -2 r, zmax = 2 r, phi = 360 *)
  Definition sphere_full_z (radius : K) : res (K * K) :=
    sphere_stored_z radius (- n2 * radius) (n2 * radius) (nofZ 360).
  (** Cylinder3D::new_transformed: (zmin, zmax) stored as given.  Panic sites: 1 = zmin > zmax, 4 = phi_max. *)
  Definition cylinder_stored_z (zmin zmax phi_max : K) : res (K * K) :=
    if zmin >? zmax then Panic 1%N else
    if negb (phi_ok phi_max) then Panic 4%N else Ok (zmin, zmax).
  (** Cylinder3D::new_partial(p0, p1, ..): zmin = 0, zmax = |p1 - p0| *)
  Definition cylinder_axis_z (p0 p1 : V) (phi_max : K) : res (K * K) :=
    cylinder_stored_z n0 (vlen (vsub p1 p0)) phi_max.

  Definition sphere_new_bounds (radius zmin zmax phi_max : K) : res (BBox K) :=
    do z <- sphere_stored_z radius zmin zmax phi_max; Ok (sphere_bounds radius (fst z) (snd z)).
  Definition cylinder_new_bounds (radius zmin zmax phi_max : K) : res (BBox K) :=
    do z <- cylinder_stored_z zmin zmax phi_max; Ok (cylinder_bounds radius (fst z) (snd z)).
End Bounds.
