(** * PolyAux: definitions only -- specification sequences and decidable side conditions used by the
    C11 / C12 / C20 theorems and reported by the runners (how often the hypotheses hold). *)
From Coq Require Import ZArith List Bool Arith.
From G3 Require Import Model.Num Model.Base Model.Vec Model.Segment Model.Loop Model.Polygon Model.Json.
Import ListNotations.

Section PolyAux.
  Context {K : Type} {NK : Num K}.
  Notation V := (V3 K).

  (** pushing a list of points, every push unwrapped at panic site [s] (get_closed_loop: 41) *)
  Fixpoint push_seq (s : N) (L : Loop K) (ps : list V) : res (Loop K) :=
    match ps with
    | [] => Ok L
    | p :: tl => do L' <- unwrap s (loop_push L p); push_seq s L' tl
    end.
  (** pushing a list of points with `?` (the deserialiser) *)
  Fixpoint push_try (L : Loop K) (ps : list V) : res (Loop K) :=
    match ps with
    | [] => Ok L
    | p :: tl => do L' <- loop_push L p; push_try L' tl
    end.

  (** the hole walked from its vertex [id]: n+1 vertices, back to where it started *)
  Definition walk_list (wrap same_dir : bool) (hvs : list V) (id : nat) : list V :=
    map (fun j => vnth hvs (hole_index wrap same_dir id j (length hvs))) (seq 0 (S (length hvs))).
  (** the outline with, right after the vertex of index [me], the walk [w] and that vertex again *)
  Fixpoint splice (evs : list V) (i me : nat) (w : list V) : list V :=
    match evs with
    | [] => []
    | ev :: tl => if Nat.eqb i me then ev :: w ++ ev :: splice tl (S i) me w else ev :: splice tl (S i) me w
    end.

  (** the vertex sequence get_closed_loop produces in general position: iterated splicing, bridges chosen
      by the code's own nearest-pair scan *)
  Fixpoint merge_spec (wrap : bool) (P : Poly K) (count : nat) (vs : list V) (processed : list nat) (il iv_id : nat) : option (list V) :=
    match count with
    | O => Some vs
    | S c =>
      let '(md, me0, ml, il', iv') := scan_ext vs 0 (pinner P) processed (scan_start wrap, O, O, il, iv_id) in
      match nth_error (pinner P) ml with
      | None => None
      | Some hole =>
        match attach_index wrap P vs me0 hole iv' with
        | Ok me =>
        merge_spec wrap P c (splice vs 0 me (walk_list wrap (vis_same_direction (lnormal (pouter P)) (lnormal hole)) (verts hole) iv'))
                   (processed ++ [il']) il' iv'
        | _ => None
        end
      end
    end.
  Definition closed_loop_spec (wrap : bool) (P : Poly K) : option (list V) :=
    merge_spec wrap P (length (pinner P)) (verts (pouter P)) [] 0 0.

  (** the hypothesis on the run: at every stage every push appended a vertex (no collinear replacement,
      none refused) -- equivalently the rebuilt loop has as many vertices as points were pushed *)
  Fixpoint merge_clean (wrap : bool) (P : Poly K) (count : nat) (ret_loop : Loop K) (processed : list nat) (il iv_id : nat) : bool :=
    match count with
    | O => true
    | S c =>
      let '(md, me0, ml, il', iv') := scan_ext (verts ret_loop) 0 (pinner P) processed (scan_start wrap, O, O, il, iv_id) in
      match nth_error (pinner P) ml with
      | None => false
      | Some hole =>
        negb (Nat.eqb (llen hole) 0) &&
        match attach_index wrap P (verts ret_loop) me0 hole iv' with
        | Ok me =>
        match rebuild wrap (lnormal (pouter P)) (verts ret_loop) 0 me hole iv' loop_new with
        | Ok aux =>
          Nat.eqb (llen aux) (length (splice (verts ret_loop) 0 me (walk_list wrap (vis_same_direction (lnormal (pouter P)) (lnormal hole)) (verts hole) iv')))
          && merge_clean wrap P c aux (processed ++ [il']) il' iv'
        | _ => false
        end
        | _ => false
        end
      end
    end.
  Definition closed_loop_clean (wrap : bool) (P : Poly K) : bool :=
    merge_clean wrap P (length (pinner P)) (loop_open (pouter P)) [] 0 0.

  (** C20: a loop "rebuilds" when pushing its vertices again and closing keeps all of them
      (no collinear replacement, no refusal, nothing dropped by close) *)
  Definition rebuilds (L : Loop K) : bool :=
    match push_try loop_new (verts L) with
    | Ok L1 =>
      match loop_close L1 with
      | (L2, Ok _) => Nat.eqb (llen L2) (llen L)
      | _ => false
      end
    | _ => false
    end.
  (** the polygon of accepted holes of a history *)
  Fixpoint accepted_of (hs : list (Loop K)) (os : list (res unit)) : list (Loop K) :=
    match hs, os with
    | h :: hs', o :: os' => if is_ok o then h :: accepted_of hs' os' else accepted_of hs' os'
    | _, _ => []
    end.
End PolyAux.
