(** * BBox: model of src/bbox3d.rs *)
From Coq Require Import ZArith List Bool.
From G3 Require Import Model.Num Model.Base Model.Vec.
Local Open Scope num_scope.

Section BBox.
  Context {K : Type} {NK : Num K}.
  Notation V := (V3 K).
  Record BBox := mkBBox { bmin : V; bmax : V }.

  (** returns (x1,y1,z1,x2,y2,z2) with each pair swapped when [first > second] *)
  Definition get_mins_maxs (x1 y1 z1 x2 y2 z2 : K) : V * V :=
    let '(x1, x2) := if x1 >? x2 then (x2, x1) else (x1, x2) in
    let '(y1, y2) := if y1 >? y2 then (y2, y1) else (y1, y2) in
    let '(z1, z2) := if z1 >? z2 then (z2, z1) else (z1, z2) in
    (mkV3 x1 y1 z1, mkV3 x2 y2 z2).
  Definition mm (a b : V) := get_mins_maxs (vx a) (vy a) (vz a) (vx b) (vy b) (vz b).

  Definition bbox_new (a b : V) : BBox := let '(mn, mx) := mm a b in mkBBox mn mx.
  Definition bbox_from_point (p : V) : BBox := mkBBox p p.
  Definition bbox_from_union_point (b : BBox) (pt : V) : BBox :=
    mkBBox (fst (mm (bmin b) pt)) (snd (mm (bmax b) pt)).
  Definition bbox_from_union (b1 b2 : BBox) : BBox :=
    mkBBox (fst (mm (bmin b1) (bmin b2))) (snd (mm (bmax b1) (bmax b2))).
  Definition bbox_from_intersection (b1 b2 : BBox) : BBox :=
    mkBBox (snd (mm (bmin b1) (bmin b2))) (fst (mm (bmax b1) (bmax b2))).
  Definition bbox_overlaps (a o : BBox) : bool :=
    let x := (vx (bmax a) >=? vx (bmin o)) && (vx (bmin a) <=? vx (bmax o)) in
    let y := (vy (bmax a) >=? vy (bmin o)) && (vy (bmin a) <=? vy (bmax o)) in
    let z := (vz (bmax a) >=? vz (bmin o)) && (vz (bmin a) <=? vz (bmax o)) in
    x && y && z.
  Definition bbox_point_inside (b : BBox) (pt : V) : bool :=
    (vx pt >=? vx (bmin b)) && (vx pt <=? vx (bmax b)) &&
    (vy pt >=? vy (bmin b)) && (vy pt <=? vy (bmax b)) &&
    (vz pt >=? vz (bmin b)) && (vz pt <=? vz (bmax b)).
  Definition bbox_point_inside_exclusive (b : BBox) (pt : V) : bool :=
    (vx pt >=? vx (bmin b)) && (vx pt <? vx (bmax b)) &&
    (vy pt >=? vy (bmin b)) && (vy pt <? vy (bmax b)) &&
    (vz pt >=? vz (bmin b)) && (vz pt <? vz (bmax b)).
  (** 0 = X, 1 = Y, 2 = Z *)
  Definition bbox_max_extent (b : BBox) : N :=
    let d := vsub (bmax b) (bmin b) in
    if (vx d >? vy d) && (vx d >? vz d) then 0%N else if vy d >? vz d then 1%N else 2%N.
  Definition bbox_surface_area (b : BBox) : K :=
    let d := vsub (bmax b) (bmin b) in
    n2 * (vx d * vy d + vx d * vz d + vy d * vz d).

  (** gamma!(3.) *)
  Definition gamma3 : K := ngamma 3.
  Definition widen : K := n1 + n2 * gamma3.

  (** [intersect]: returns (answer, path tag) *)
  Definition bbox_intersect_tag (b : BBox) (r : Ray K) (inv_dir : V) : bool * N :=
    let o := rorigin r in
    let tx_min := (vx (bmin b) - vx o) * vx inv_dir in
    let tx_max := (vx (bmax b) - vx o) * vx inv_dir in
    let '(tx_min, tx_max) := if tx_min >? tx_max then (tx_max, tx_min) else (tx_min, tx_max) in
    if tx_max <? n0 then (false, 1%N) else
    let ty_min := (vy (bmin b) - vy o) * vy inv_dir in
    let ty_max := (vy (bmax b) - vy o) * vy inv_dir in
    let '(ty_min, ty_max) := if ty_min >? ty_max then (ty_max, ty_min) else (ty_min, ty_max) in
    if ty_max <? n0 then (false, 2%N) else
    let tx_max := tx_max * widen in
    let ty_max := ty_max * widen in
    if (tx_min >? ty_max) || (ty_min >? tx_max) then (false, 3%N) else
    let tx_min := if ty_min >? tx_min then ty_min else tx_min in
    let tx_max := if ty_max <? tx_max then ty_max else tx_max in
    let tz_min := (vz (bmin b) - vz o) * vz inv_dir in
    let tz_max := (vz (bmax b) - vz o) * vz inv_dir in
    let '(tz_min, tz_max) := if tz_min >? tz_max then (tz_max, tz_min) else (tz_min, tz_max) in
    if tz_max <? n0 then (false, 4%N) else
    let tz_max := tz_max * widen in
    if (tx_min >? tz_max) || (tz_min >? tx_max) then (false, 5%N) else
    let tx_min := if tz_min >? tx_min then tz_min else tx_min in
    let tx_max := if tz_max <? tx_max then tz_max else tx_max in
    if (tx_max >? tx_min) && (tx_max >? n0) then (true, 7%N) else (false, 6%N).
  Definition bbox_intersect b r i := fst (bbox_intersect_tag b r i).
End BBox.
Arguments BBox K : clear implicits.
