(** * RInst: reading the generic model on the real-number instance. *)
From Coq Require Import ZArith Reals Lra Bool List.
From G3 Require Import Model.Num Model.Base.
Local Open Scope R_scope.

(** unfold the [Num] projections of [NumR] (and the derived constants) to plain real arithmetic *)
Ltac rnum :=
  cbn [nadd nsub nmul ndiv nneg nabs nsqrt nltb nleb neqb nofZ neps nmaxf nnext_up nnext_dn nis_nan
       nsin ncos ntan nacos natan2 npi NumR] in *;
  unfold n0, n1, n2, nhalf, nofQ in *;
  cbn [nadd nsub nmul ndiv nneg nabs nsqrt nltb nleb neqb nofZ neps nmaxf nnext_up nnext_dn nis_nan
       nsin ncos ntan nacos natan2 npi NumR] in *.

Lemma Rltb_true a b : Rltb a b = true <-> a < b.
Proof. unfold Rltb; destruct (Rlt_dec a b); split; intros; try easy; congruence. Qed.
Lemma Rltb_false a b : Rltb a b = false <-> b <= a.
Proof. unfold Rltb; destruct (Rlt_dec a b); split; intros; try easy; try lra. Qed.
Lemma Rleb_true a b : Rleb a b = true <-> a <= b.
Proof. unfold Rleb; destruct (Rle_dec a b); split; intros; try easy; congruence. Qed.
Lemma Rleb_false a b : Rleb a b = false <-> b < a.
Proof. unfold Rleb; destruct (Rle_dec a b); split; intros; try easy; try lra. Qed.
Lemma Reqb_true a b : Reqb a b = true <-> a = b.
Proof. unfold Reqb; destruct (Req_EM_T a b); split; intros; try easy; congruence. Qed.

(** case split on a real comparison of the model *)
Ltac rcase a b H :=
  let E := fresh "E" in
  destruct (Rltb a b) eqn:E; [apply Rltb_true in E | apply Rltb_false in E]; rename E into H.

Lemma v3_eq {K} (a b : V3 K) : vx a = vx b -> vy a = vy b -> vz a = vz b -> a = b.
Proof. destruct a, b; simpl; intros; subst; reflexivity. Qed.
