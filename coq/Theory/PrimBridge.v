(** * PrimBridge: the primitive-float instance [NumF] IS the Flocq instance [NumB64], operation by operation.

    The float-tier theorems (C07, C14, C16, C17) are proved on [NumB prec emax] (Flocq [binary_float], every format);
    what is executed bit for bit against the f64 build of the crate is [NumF] (Coq's primitive binary64 floats).
    This file links the two by proof:

    - Part 1 (generic): [NumHom N1 N2 h] -- [h : K1 -> K2] commutes with every NON-libm member of the class [Num]
      (the five libm members and [npi] are outside every float-tier theorem; on [NumB] they are NaN by definition).
      Derived lemmas for every constant / derived operation of Model/Num.v and Model/BBox.v ([n0 n1 n2 nhalf c1em3 ...
      c1em10 ctiny ngamma nofQ nmax nmin fmax fmin gamma3 widen]), the map functions on the record types of the model
      ([mapV3 mapRay mapBBox mapM4 mapTr mapP]) and the tactic [hom_pull] / [bridge] that pulls [h] out of a model term
      ([nadd (h x) (h y)] becomes [h (nadd x y)], [nltb (h x) (h y)] becomes [nltb x y], ...).
    - Part 2: [P2B := Prim2B] (Flocq.IEEE754.PrimFloat) is such a homomorphism from [NumF] to [NumB64]
      ([P2B_hom]); the individual equalities in the reading direction [P2B (nadd x y) = nadd (P2B x) (P2B y)] are
      [P2B_nadd] ... [P2B_nofZ] (integer literals: every [z] with [|z| < 2^53], which covers every literal of the model).

    Axioms: the specification axioms of primitive floats / integers (those of FloatAxioms and Uint63Axioms) through Flocq's
    PrimFloat equivalences, and the classical reals (Flocq).  Nothing is declared here. *)
From Coq Require Import ZArith Reals Lia Lra Bool Floats Uint63 Eqdep_dec.
From Flocq Require Import Core BinarySingleNaN.
Require Flocq.IEEE754.PrimFloat.
From G3 Require Import Model.Num Model.NumF Model.Base Model.Vec Model.BBox Model.Transform.
Module FP := Flocq.IEEE754.PrimFloat.

(** ** Part 1: homomorphisms of [Num] (non-libm members) *)

(** the integer literals that are mapped exactly: [|z| < 2^53] (as a boolean, so that the side condition of a
    rewrite is closed by [reflexivity]) *)
Definition smallZ (z : Z) : bool := Z.ltb (Z.abs z) (2 ^ 53).

Class NumHom {K1 K2 : Type} (N1 : Num K1) (N2 : Num K2) (h : K1 -> K2) : Prop := {
  hom_add : forall x y : K1, nadd (h x) (h y) = h (nadd x y);
  hom_sub : forall x y : K1, nsub (h x) (h y) = h (nsub x y);
  hom_mul : forall x y : K1, nmul (h x) (h y) = h (nmul x y);
  hom_div : forall x y : K1, ndiv (h x) (h y) = h (ndiv x y);
  hom_neg : forall x : K1, nneg (h x) = h (nneg x);
  hom_abs : forall x : K1, nabs (h x) = h (nabs x);
  hom_sqrt : forall x : K1, nsqrt (h x) = h (nsqrt x);
  hom_ltb : forall x y : K1, nltb (h x) (h y) = nltb x y;
  hom_leb : forall x y : K1, nleb (h x) (h y) = nleb x y;
  hom_eqb : forall x y : K1, neqb (h x) (h y) = neqb x y;
  hom_is_nan : forall x : K1, nis_nan (h x) = nis_nan x;
  hom_next_up : forall x : K1, nnext_up (h x) = h (nnext_up x);
  hom_next_dn : forall x : K1, nnext_dn (h x) = h (nnext_dn x);
  hom_ofZ : forall z : Z, smallZ z = true -> @nofZ K2 N2 z = h (@nofZ K1 N1 z);
  hom_eps : @neps K2 N2 = h (@neps K1 N1);
  hom_maxf : @nmaxf K2 N2 = h (@nmaxf K1 N1);
  hom_inf : @ninf K2 N2 = h (@ninf K1 N1)
}.

(** map functions on the record types of the model *)
Definition mapV3 {A B} (f : A -> B) (v : V3 A) : V3 B := mkV3 (f (vx v)) (f (vy v)) (f (vz v)).
Definition mapRay {A B} (f : A -> B) (r : Ray A) : Ray B := mkRay (mapV3 f (rorigin r)) (mapV3 f (rdir r)).
Definition mapBBox {A B} (f : A -> B) (b : BBox A) : BBox B := mkBBox (mapV3 f (bmin b)) (mapV3 f (bmax b)).
Definition mapM4 {A B} (f : A -> B) (m : M4 A) : M4 B :=
  mkM4 (f (m00 m)) (f (m01 m)) (f (m02 m)) (f (m03 m)) (f (m10 m)) (f (m11 m)) (f (m12 m)) (f (m13 m))
       (f (m20 m)) (f (m21 m)) (f (m22 m)) (f (m23 m)) (f (m30 m)) (f (m31 m)) (f (m32 m)) (f (m33 m)).
Definition mapTr {A B} (f : A -> B) (t : Tr A) : Tr B := mkTr (mapM4 f (elements t)) (mapM4 f (inv_elements t)).
Definition mapP {A B C D} (f : A -> B) (g : C -> D) (p : A * C) : B * D := (f (fst p), g (snd p)).
Definition mapOpt {A B} (f : A -> B) (o : option A) : option B := match o with Some a => Some (f a) | None => None end.
Definition mapRes {A B} (f : A -> B) (r : res A) : res B :=
  match r with Ok a => Ok (f a) | Err c => Err c | Panic s => Panic s end.

Section Hom.
  Context {K1 K2 : Type} {N1 : Num K1} {N2 : Num K2} (h : K1 -> K2) {H : NumHom N1 N2 h}.

  Lemma hom_if (c : bool) (a b : K1) : (if c then h a else h b) = h (if c then a else b).
  Proof. destruct c; reflexivity. Qed.

  Lemma hom_nofQ (p q : Z) : smallZ p = true -> smallZ q = true -> @nofQ K2 N2 p q = h (nofQ p q).
  Proof. intros Hp Hq. unfold nofQ. rewrite (hom_ofZ p Hp), (hom_ofZ q Hq). apply hom_div. Qed.
  Lemma hom_n0 : @n0 K2 N2 = h n0. Proof. apply hom_ofZ. reflexivity. Qed.
  Lemma hom_n1 : @n1 K2 N2 = h n1. Proof. apply hom_ofZ. reflexivity. Qed.
  Lemma hom_n2 : @n2 K2 N2 = h n2. Proof. apply hom_ofZ. reflexivity. Qed.
  Lemma hom_nhalf : @nhalf K2 N2 = h nhalf. Proof. apply hom_nofQ; reflexivity. Qed.
  Lemma hom_c1em3 : @c1em3 K2 N2 = h c1em3. Proof. apply hom_nofQ; reflexivity. Qed.
  Lemma hom_c1em5 : @c1em5 K2 N2 = h c1em5. Proof. apply hom_nofQ; reflexivity. Qed.
  Lemma hom_c1em7 : @c1em7 K2 N2 = h c1em7. Proof. apply hom_nofQ; reflexivity. Qed.
  Lemma hom_c1em8 : @c1em8 K2 N2 = h c1em8. Proof. apply hom_nofQ; reflexivity. Qed.
  Lemma hom_c1em9 : @c1em9 K2 N2 = h c1em9. Proof. apply hom_nofQ; reflexivity. Qed.
  Lemma hom_c1em10 : @c1em10 K2 N2 = h c1em10. Proof. apply hom_nofQ; reflexivity. Qed.
  Lemma hom_ctiny : @ctiny K2 N2 = h ctiny.
  Proof. unfold ctiny. rewrite (hom_ofZ 100 eq_refl), hom_eps. apply hom_mul. Qed.
  Lemma hom_ngamma (n : Z) : smallZ n = true -> @ngamma K2 N2 n = h (ngamma n).
  Proof.
    intros Hn. unfold ngamma. cbv zeta.
    rewrite hom_eps, hom_n2, hom_n1, (hom_ofZ n Hn), !hom_div, !hom_mul, hom_sub, hom_div. reflexivity.
  Qed.
  Lemma hom_nmax (a b : K1) : nmax (h a) (h b) = h (nmax a b).
  Proof. unfold nmax. rewrite hom_ltb. apply hom_if. Qed.
  Lemma hom_nmin (a b : K1) : nmin (h a) (h b) = h (nmin a b).
  Proof. unfold nmin. rewrite hom_ltb. apply hom_if. Qed.
  Lemma hom_fmax (a b : K1) : fmax (h a) (h b) = h (fmax a b).
  Proof. unfold fmax. rewrite !hom_is_nan, hom_ltb. repeat destruct (nis_nan _); try reflexivity. apply hom_if. Qed.
  Lemma hom_fmin (a b : K1) : fmin (h a) (h b) = h (fmin a b).
  Proof. unfold fmin. rewrite !hom_is_nan, hom_ltb. repeat destruct (nis_nan _); try reflexivity. apply hom_if. Qed.
  (** the two constants of Model/BBox.v *)
  Lemma hom_gamma3 : @gamma3 K2 N2 = h gamma3. Proof. apply hom_ngamma. reflexivity. Qed.
  Lemma hom_widen : @widen K2 N2 = h widen.
  Proof. unfold widen. rewrite hom_n1, hom_n2, hom_gamma3, hom_mul, hom_add. reflexivity. Qed.
End Hom.

(** [hom_pull h]: pull [h] outwards through every operation, constant and comparison of the goal (not under binders).
    [ngamma n] is pulled for the literal arguments the model uses. *)
Ltac hom_pull_step h :=
  first
  [ rewrite (hom_add (h:=h)) | rewrite (hom_sub (h:=h)) | rewrite (hom_mul (h:=h)) | rewrite (hom_div (h:=h))
  | rewrite (hom_neg (h:=h)) | rewrite (hom_abs (h:=h)) | rewrite (hom_sqrt (h:=h))
  | rewrite (hom_ltb (h:=h)) | rewrite (hom_leb (h:=h)) | rewrite (hom_eqb (h:=h)) | rewrite (hom_is_nan (h:=h))
  | rewrite (hom_next_up (h:=h)) | rewrite (hom_next_dn (h:=h))
  | rewrite (hom_fmax h) | rewrite (hom_fmin h) | rewrite (hom_nmax h) | rewrite (hom_nmin h)
  | rewrite (hom_if h)
  | rewrite (hom_n0 h) | rewrite (hom_n1 h) | rewrite (hom_n2 h) | rewrite (hom_nhalf h)
  | rewrite (hom_c1em3 h) | rewrite (hom_c1em5 h) | rewrite (hom_c1em7 h) | rewrite (hom_c1em8 h)
  | rewrite (hom_c1em9 h) | rewrite (hom_c1em10 h) | rewrite (hom_ctiny h)
  | rewrite (hom_gamma3 h) | rewrite (hom_widen h)
  | rewrite (hom_ngamma h) by reflexivity
  | rewrite (hom_eps (h:=h)) | rewrite (hom_maxf (h:=h)) | rewrite (hom_inf (h:=h))
  | rewrite (hom_ofZ (h:=h)) by reflexivity ].
Ltac hom_pull h := repeat (hom_pull_step h).

(** unfold the map functions and reduce the record projections *)
Ltac hom_norm :=
  unfold mapTr, mapM4, mapBBox, mapRay, mapV3, mapP;
  cbn [vx vy vz rorigin rdir bmin bmax elements inv_elements fst snd
       m00 m01 m02 m03 m10 m11 m12 m13 m20 m21 m22 m23 m30 m31 m32 m33].
(** [bridge h]: normalise, pull, close; case analysis on the (now common) conditions when a branch remains *)
Ltac bridge h :=
  hom_norm; hom_pull h; try reflexivity;
  repeat (match goal with |- context [if ?c then _ else _] => destruct c end;
          cbv beta iota zeta; hom_norm; hom_pull h; try reflexivity).

(** ** Part 2: [Prim2B] is a homomorphism from [NumF] to [NumB64] *)
Notation prim := Coq.Floats.PrimFloat.float (only parsing).
Definition P2B : prim -> b64 := FP.Prim2B.

Lemma Hprec53_eq : Hprec53 = FP.Hprec.
Proof. apply UIP_dec. decide equality. Qed.
Lemma Hmax1024_eq : Hmax1024 = FP.Hmax.
Proof. apply UIP_dec. decide equality. Qed.
Lemma NumB64_FP : NumB64 = NumB 53 1024 FP.Hprec FP.Hmax.
Proof. unfold NumB64. rewrite Hprec53_eq, Hmax1024_eq. reflexivity. Qed.

Notation f64exp := (FLT_exp (-1074) 53).
Local Open Scope R_scope.

Lemma Bldexp_0 (x : b64) : @Bldexp 53 1024 FP.Hprec FP.Hmax mode_NE x 0 = x.
Proof.
  destruct x as [s|s| |s m e Hb] eqn:Ex; try reflexivity. rewrite <- Ex.
  assert (Fx : is_finite x = true) by (rewrite Ex; reflexivity).
  generalize (Bldexp_correct 53 1024 FP.Hprec FP.Hmax mode_NE x 0).
  change (bpow radix2 0) with 1. rewrite Rmult_1_r.
  rewrite round_generic by (try typeclasses eauto; apply generic_format_B2R).
  rewrite Rlt_bool_true by (apply abs_B2R_lt_emax).
  intros (H1 & H2 & H3).
  apply B2R_Bsign_inj; try assumption. rewrite H2. exact Fx.
Qed.

(** [Bofz z] on an integer of at most 53 bits: exact *)
Lemma Bofz_exact (Hp : FLX.Prec_gt_0 53) (Hm : Prec_lt_emax 53 1024) (z : Z) : smallZ z = true ->
  let f := Bofz 53 1024 Hp Hm z in
  is_finite f = true /\ B2R f = IZR z /\ Bsign f = Z.ltb z 0.
Proof.
  intros Hz f. unfold smallZ in Hz. apply Z.ltb_lt in Hz.
  generalize (binary_normalize_correct 53 1024 Hp Hm mode_NE z 0 false). fold (Bofz 53 1024 Hp Hm z). fold f.
  cbv zeta. change (SpecFloat.fexp 53 1024) with f64exp. cbn [round_mode].
  assert (HF : F2R (Float radix2 z 0) = IZR z).
  { unfold F2R; cbn [Fnum Fexp]. simpl (bpow radix2 0). ring. }
  rewrite HF.
  assert (Fmt : generic_format radix2 f64exp (IZR z)).
  { rewrite <- HF. apply generic_format_FLT. exists (Float radix2 z 0); [reflexivity| |cbn [Fexp]; lia]. cbn [Fnum]. exact Hz. }
  rewrite round_generic by (try typeclasses eauto; exact Fmt).
  rewrite Rlt_bool_true.
  2:{ rewrite <- abs_IZR. apply Rlt_le_trans with (bpow radix2 53).
      - change (bpow radix2 53) with (IZR (2 ^ 53)). apply IZR_lt. exact Hz.
      - apply bpow_le. lia. }
  intros (E1 & E2 & E3). split; [exact E2|]. split; [exact E1|].
  rewrite E3. destruct (Rcompare_spec (IZR z) 0) as [L|L|L].
  - apply lt_IZR in L. symmetry. apply Z.ltb_lt. exact L.
  - apply eq_IZR in L. subst z. reflexivity.
  - apply lt_IZR in L. symmetry. apply Z.ltb_ge. lia.
Qed.

Lemma P2B_zero : P2B 0%float = B754_zero false.
Proof. unfold P2B. change 0%float with zero. rewrite FP.zero_equiv. apply FP.Prim2B_B2Prim. Qed.

Lemma P2B_ldexp_pos (p : positive) : smallZ (Zpos p) = true ->
  FP.Prim2B (Z.ldexp (of_uint63 (of_Z (Zpos p))) 0) = Bofz 53 1024 FP.Hprec FP.Hmax (Zpos p).
Proof.
  intros Hz.
  rewrite FP.ldexp_equiv, FP.of_int63_equiv, Bldexp_0.
  rewrite of_Z_spec, Z.mod_small.
  - reflexivity.
  - unfold smallZ in Hz. apply Z.ltb_lt in Hz. change wB with (2 ^ 63)%Z. cbn [Z.abs] in Hz. lia.
Qed.

Lemma P2B_FofZ (z : Z) : smallZ z = true -> P2B (FofZ z) = Bofz 53 1024 FP.Hprec FP.Hmax z.
Proof.
  intros Hz. destruct z as [|p|p].
  - unfold FofZ; rewrite P2B_zero. reflexivity.
  - unfold FofZ, P2B. cbn [SF2Prim]. apply P2B_ldexp_pos, Hz.
  - assert (Hp : smallZ (Zpos p) = true) by exact Hz.
    unfold FofZ, P2B. cbn [SF2Prim]. rewrite FP.opp_equiv, (P2B_ldexp_pos p Hp).
    change FloatOps.prec with 53%Z; change FloatOps.emax with 1024%Z.
    destruct (Bofz_exact FP.Hprec FP.Hmax (Zpos p) Hp) as (F1 & R1 & S1).
    destruct (Bofz_exact FP.Hprec FP.Hmax (Zneg p) Hz) as (F2 & R2 & S2).
    apply (B2R_Bsign_inj 53 1024).
    + rewrite is_finite_Bopp. exact F1.
    + exact F2.
    + rewrite B2R_Bopp, R1, R2. rewrite <- opp_IZR. reflexivity.
    + rewrite S2. rewrite Bsign_Bopp.
      * rewrite S1. reflexivity.
      * destruct (Bofz 53 1024 FP.Hprec FP.Hmax (Z.pos p)); try discriminate; reflexivity.
Qed.

Lemma P2B_const (c : prim) (b : b64) : Prim2SF c = B2SF b -> P2B c = b.
Proof. intros E. apply B2SF_inj. unfold P2B. rewrite FP.B2SF_Prim2B. exact E. Qed.

Global Instance P2B_hom : NumHom NumF NumB64 P2B.
Proof.
  rewrite NumB64_FP. constructor; unfold P2B; intros; cbn [nadd nsub nmul ndiv nneg nabs nsqrt nltb nleb neqb nis_nan
    nnext_up nnext_dn nofZ neps nmaxf ninf NumB NumF].
  - symmetry; apply FP.add_equiv.
  - symmetry; apply FP.sub_equiv.
  - symmetry; apply FP.mul_equiv.
  - symmetry; apply FP.div_equiv.
  - symmetry; apply FP.opp_equiv.
  - symmetry; apply FP.abs_equiv.
  - symmetry; apply FP.sqrt_equiv.
  - symmetry; apply FP.ltb_equiv.
  - symmetry; apply FP.leb_equiv.
  - symmetry; apply FP.eqb_equiv.
  - symmetry; apply FP.is_nan_equiv.
  - symmetry; apply FP.next_up_equiv.
  - symmetry; apply FP.next_down_equiv.
  - symmetry; apply P2B_FofZ; assumption.
  - symmetry; apply P2B_const; vm_compute; reflexivity.
  - symmetry; apply P2B_const; vm_compute; reflexivity.
  - symmetry; apply P2B_const; vm_compute; reflexivity.
Qed.

(** the same facts in the reading direction, one per class member *)
Section P2B_members.
  Local Open Scope num_scope.
  Lemma P2B_nadd (x y : prim) : P2B (nadd x y) = nadd (P2B x) (P2B y). Proof. symmetry; apply (hom_add (h:=P2B)). Qed.
  Lemma P2B_nsub (x y : prim) : P2B (nsub x y) = nsub (P2B x) (P2B y). Proof. symmetry; apply (hom_sub (h:=P2B)). Qed.
  Lemma P2B_nmul (x y : prim) : P2B (nmul x y) = nmul (P2B x) (P2B y). Proof. symmetry; apply (hom_mul (h:=P2B)). Qed.
  Lemma P2B_ndiv (x y : prim) : P2B (ndiv x y) = ndiv (P2B x) (P2B y). Proof. symmetry; apply (hom_div (h:=P2B)). Qed.
  Lemma P2B_nneg (x : prim) : P2B (nneg x) = nneg (P2B x). Proof. symmetry; apply (hom_neg (h:=P2B)). Qed.
  Lemma P2B_nabs (x : prim) : P2B (nabs x) = nabs (P2B x). Proof. symmetry; apply (hom_abs (h:=P2B)). Qed.
  Lemma P2B_nsqrt (x : prim) : P2B (nsqrt x) = nsqrt (P2B x). Proof. symmetry; apply (hom_sqrt (h:=P2B)). Qed.
  Lemma P2B_nltb (x y : prim) : nltb x y = nltb (P2B x) (P2B y). Proof. symmetry; apply (hom_ltb (h:=P2B)). Qed.
  Lemma P2B_nleb (x y : prim) : nleb x y = nleb (P2B x) (P2B y). Proof. symmetry; apply (hom_leb (h:=P2B)). Qed.
  Lemma P2B_neqb (x y : prim) : neqb x y = neqb (P2B x) (P2B y). Proof. symmetry; apply (hom_eqb (h:=P2B)). Qed.
  Lemma P2B_nis_nan (x : prim) : nis_nan x = nis_nan (P2B x). Proof. symmetry; apply (hom_is_nan (h:=P2B)). Qed.
  Lemma P2B_nnext_up (x : prim) : P2B (nnext_up x) = nnext_up (P2B x). Proof. symmetry; apply (hom_next_up (h:=P2B)). Qed.
  Lemma P2B_nnext_dn (x : prim) : P2B (nnext_dn x) = nnext_dn (P2B x). Proof. symmetry; apply (hom_next_dn (h:=P2B)). Qed.
  Lemma P2B_nofZ (z : Z) : (Z.abs z < 2 ^ 53)%Z -> P2B (nofZ z) = nofZ z.
  Proof. intros Hz. symmetry. apply (hom_ofZ (h:=P2B)). apply Z.ltb_lt. exact Hz. Qed.
  Lemma P2B_neps : P2B neps = neps. Proof. symmetry; apply (hom_eps (h:=P2B)). Qed.
  Lemma P2B_nmaxf : P2B nmaxf = nmaxf. Proof. symmetry; apply (hom_maxf (h:=P2B)). Qed.
  Lemma P2B_ninf : P2B ninf = ninf. Proof. symmetry; apply (hom_inf (h:=P2B)). Qed.
  Lemma P2B_n0 : P2B n0 = n0. Proof. symmetry; apply (hom_n0 P2B). Qed.
  Lemma P2B_n1 : P2B n1 = n1. Proof. symmetry; apply (hom_n1 P2B). Qed.
  Lemma P2B_n2 : P2B n2 = n2. Proof. symmetry; apply (hom_n2 P2B). Qed.
  Lemma P2B_nhalf : P2B nhalf = nhalf. Proof. symmetry; apply (hom_nhalf P2B). Qed.
  Lemma P2B_c1em3 : P2B c1em3 = c1em3. Proof. symmetry; apply (hom_c1em3 P2B). Qed.
  Lemma P2B_c1em5 : P2B c1em5 = c1em5. Proof. symmetry; apply (hom_c1em5 P2B). Qed.
  Lemma P2B_c1em7 : P2B c1em7 = c1em7. Proof. symmetry; apply (hom_c1em7 P2B). Qed.
  Lemma P2B_c1em8 : P2B c1em8 = c1em8. Proof. symmetry; apply (hom_c1em8 P2B). Qed.
  Lemma P2B_c1em9 : P2B c1em9 = c1em9. Proof. symmetry; apply (hom_c1em9 P2B). Qed.
  Lemma P2B_c1em10 : P2B c1em10 = c1em10. Proof. symmetry; apply (hom_c1em10 P2B). Qed.
  Lemma P2B_ctiny : P2B ctiny = ctiny. Proof. symmetry; apply (hom_ctiny P2B). Qed.
  Lemma P2B_ngamma (k : Z) : (Z.abs k < 2 ^ 53)%Z -> P2B (ngamma k) = ngamma k.
  Proof. intros Hk. symmetry. apply (hom_ngamma P2B). apply Z.ltb_lt. exact Hk. Qed.
  Lemma P2B_fmax (x y : prim) : P2B (fmax x y) = fmax (P2B x) (P2B y). Proof. symmetry; apply (hom_fmax P2B). Qed.
  Lemma P2B_fmin (x y : prim) : P2B (fmin x y) = fmin (P2B x) (P2B y). Proof. symmetry; apply (hom_fmin P2B). Qed.
  Lemma P2B_nmax (x y : prim) : P2B (nmax x y) = nmax (P2B x) (P2B y). Proof. symmetry; apply (hom_nmax P2B). Qed.
  Lemma P2B_nmin (x y : prim) : P2B (nmin x y) = nmin (P2B x) (P2B y). Proof. symmetry; apply (hom_nmin P2B). Qed.
End P2B_members.

(** [P2B] loses nothing: it is injective, and the real value / the classification of a primitive float are those of
    its image *)
Lemma P2B_inj (x y : prim) : P2B x = P2B y -> x = y.
Proof. apply FP.Prim2B_inj. Qed.
Lemma P2B_SF (x : prim) : B2SF (P2B x) = Prim2SF x.
Proof. apply FP.B2SF_Prim2B. Qed.

(** ** reading a primitive float as a real number *)
Notation pV := (mapV3 P2B).
Notation pR := (mapRay P2B).
Notation pB := (mapBBox P2B).
Notation pM := (mapM4 P2B).
Notation pT := (mapTr P2B).
(** real value, finiteness *)
Definition FR (x : prim) : R := B2R (P2B x).
Definition Ffin (x : prim) : Prop := is_finite (P2B x) = true.
Lemma Ffin_prim (x : prim) : Ffin x <-> Coq.Floats.PrimFloat.is_finite x = true.
Proof. unfold Ffin, P2B. rewrite FP.is_finite_equiv. reflexivity. Qed.
Definition Ffin3 (v : V3 prim) : Prop := Ffin (vx v) /\ Ffin (vy v) /\ Ffin (vz v).
Definition FV (v : V3 prim) : V3 R := mkV3 (FR (vx v)) (FR (vy v)) (FR (vz v)).
Definition FM (m : M4 prim) : M4 R :=
  mkM4 (FR (m00 m)) (FR (m01 m)) (FR (m02 m)) (FR (m03 m)) (FR (m10 m)) (FR (m11 m)) (FR (m12 m)) (FR (m13 m))
       (FR (m20 m)) (FR (m21 m)) (FR (m22 m)) (FR (m23 m)) (FR (m30 m)) (FR (m31 m)) (FR (m32 m)) (FR (m33 m)).
