(** * F32Bridge: the executed binary32 instance [NumF32] IS IEEE binary32 ([NumB32]), operation by operation.

    [NumF32] (Model/NumF32.v) computes on primitive binary64 floats that hold binary32 values: every arithmetic
    operation is the binary64 operation followed by [r32] (rounding to binary32).  Its header claimed "innocuous
    double rounding for + - * / sqrt, since 53 >= 2*24+2".  This file PROVES the claim, special values included
    (NaN, infinities, signed zeros, overflow to infinity, binary32 subnormals, division by zero, sqrt of negatives):

      [to_b32 (x + y) = Bplus mode_NE (to_b32 x) (to_b32 y)]   for binary32-valued x y    (likewise - * / sqrt)

    through Flocq's [Prop/Double_rounding.v] ([round_round_{plus,minus,mult,div,sqrt}_FLT] at (24,-149) inside
    (53,-1074)), the [*_correct] theorems of [BinarySingleNaN] on both formats and Flocq's view of primitive floats.

    - [up : b32 -> b64] (the embedding [P2B o of_b32]) and [dn : b64 -> b32] (the rounding [B32ofSF o B2SF]);
      [dn_up : dn (up a) = a]; shape of [up] on every constructor; [dn_finish]: the common last step
      (a binary64 result that is the binary64 rounding of a real z whose double rounding is innocuous goes down to
      the binary32 result of z, overflow included).
    - [mul_core add_core sub_core div_core sqrt_core : dn (op64 (up a) (up b)) = op32 a b] for ALL a b.
    - [of_b32_hom : NumHom NumB32 NumF32 of_b32] -- a TOTAL homomorphism (every binary32 number, no side condition), so
      every generic lifting lemma of Proofs/Bridge_model.v / Bridge_interval.v applies with [h := of_b32]:
      running a model function on [NumF32] on embedded binary32 inputs = embedding of the Flocq binary32 run.
    - [is32 x := r32 x = x]; [is32_iff : is32 x <-> exists b, x = of_b32 b]; closure of every [NumF32] operation;
      the reading-direction theorems [to_b32_nadd ... to_b32_nsqrt], comparisons, [nofZ], constants.

    Axioms: primitive float / integer specification axioms (through Flocq.IEEE754.PrimFloat), classical reals. *)
From Coq Require Import ZArith Reals Lia Lra Psatz Bool Floats Uint63 Eqdep_dec.
From Flocq Require Import Core BinarySingleNaN Double_rounding.
Require Flocq.IEEE754.PrimFloat.
From G3 Require Import Model.Num Model.NumF Model.NumF32 Run.FastNum32 Run.FastNum32Proof Theory.PrimBridge.
Module FP := Flocq.IEEE754.PrimFloat.
Open Scope R_scope.

Notation prim := Coq.Floats.PrimFloat.float (only parsing).
Notation f32exp := (FLT_exp (-149) 24).
Notation f64exp := (FLT_exp (-1074) 53).
Notation B64 := (binary_float 53 1024).
Notation B32 := (binary_float 24 128).
Notation rnd32 := (round radix2 f32exp ZnearestE).
Notation rnd64 := (round radix2 f64exp ZnearestE).
#[local] Instance prec_gt_0_24' : Prec_gt_0 24. Proof. reflexivity. Qed.
#[local] Instance prec_gt_0_53' : Prec_gt_0 53. Proof. reflexivity. Qed.

Ltac norm3264 :=
  change (SpecFloat.fexp 53 1024) with f64exp in *; change (SpecFloat.fexp 24 128) with f32exp in *;
  change (SpecFloat.fexp FloatOps.prec FloatOps.emax) with f64exp in *;
  change (bpow radix2 FloatOps.emax) with (bpow radix2 1024) in *;
  change (round_mode mode_NE) with ZnearestE in *.

(** ** the two maps *)
Definition up (a : B32) : B64 := FP.Prim2B (of_b32 a).
Definition dn (c : B64) : B32 := B32ofSF (B2SF c).

Lemma to_b32_dn (x : prim) : to_b32 x = dn (FP.Prim2B x).
Proof. unfold to_b32, dn. rewrite FP.B2SF_Prim2B. reflexivity. Qed.

Lemma dn_zero s : dn (B754_zero s) = B754_zero s. Proof. reflexivity. Qed.
Lemma dn_inf s : dn (B754_infinity s) = B754_infinity s. Proof. reflexivity. Qed.
Lemma dn_nan : dn B754_nan = B754_nan. Proof. reflexivity. Qed.

Lemma B2SF_inf_inv (prec emax : Z) (d : binary_float prec emax) s : B2SF d = S754_infinity s -> d = B754_infinity s.
Proof. destruct d; try discriminate. intros E; injection E as ->. reflexivity. Qed.

(** what [dn] does to a finite binary64 number *)
Lemma dn_finite (c : B64) : is_finite c = true ->
  (Rabs (B2R c) < T32 -> is_finite (dn c) = true /\ B2R (dn c) = rnd32 (B2R c) /\ Bsign (dn c) = Bsign c) /\
  (T32 <= Rabs (B2R c) -> dn c = B754_infinity (Bsign c)).
Proof.
  destruct c as [s|s| |s m e Hb]; try discriminate; intros _.
  - split.
    + intros _. cbn [B2R]. rewrite round_0 by typeclasses eauto. repeat split.
    + cbn [B2R]. rewrite Rabs_R0. intros H. exfalso. generalize T32_bounds (bpow_gt_0 radix2 127). lra.
  - destruct (ref_side s m e Hb) as [H1 H2]. split.
    + intros H. exact (H1 H).
    + intros H. apply B2SF_inf_inv. exact (H2 H).
Qed.

(** ** shape of [up] *)
Lemma up_zero s : up (B754_zero s) = B754_zero s.
Proof.
  unfold up, of_b32. destruct s; cbn [B2SF SF2Prim].
  - rewrite FP.neg_zero_equiv. apply FP.Prim2B_B2Prim.
  - rewrite FP.zero_equiv. apply FP.Prim2B_B2Prim.
Qed.
Lemma up_inf s : up (B754_infinity s) = B754_infinity s.
Proof.
  unfold up, of_b32. destruct s; cbn [B2SF SF2Prim].
  - rewrite FP.neg_infinity_equiv. apply FP.Prim2B_B2Prim.
  - rewrite FP.infinity_equiv. apply FP.Prim2B_B2Prim.
Qed.
Lemma up_nan : up B754_nan = B754_nan.
Proof. unfold up, of_b32. cbn [B2SF SF2Prim]. rewrite FP.nan_equiv. apply FP.Prim2B_B2Prim. Qed.

Lemma up_fin (a : B32) : is_finite a = true ->
  is_finite (up a) = true /\ B2R (up a) = B2R a /\ Bsign (up a) = Bsign a.
Proof. intros Fa. exact (Prim2B_SF2Prim_b32 a Fa). Qed.

Lemma up_finite s m e H : exists m' e' H',
  up (B754_finite s m e H) = B754_finite s m' e' H' /\
  B2R (B754_finite s m' e' H' : B64) = B2R (B754_finite s m e H : B32).
Proof.
  destruct (up_fin (B754_finite s m e H) eq_refl) as (F & R & S).
  destruct (up (B754_finite s m e H)) as [s'|s'| |s' m' e' H'] eqn:E; try discriminate.
  - exfalso. cbn [B2R] in R. symmetry in R. revert R. apply F2R_sign_neq0.
  - cbn [Bsign] in S. subst s'. exists m', e', H'. split; [reflexivity|exact R].
Qed.

(** [dn] is a retraction of [up] *)
Lemma f32_in_f64' x : generic_format radix2 f32exp x -> generic_format radix2 f64exp x.
Proof. exact (f32_in_f64 x). Qed.

Lemma B2R_lt_T32 (a : B32) : is_finite a = true -> Rabs (B2R a) < T32.
Proof.
  intros Fa.
  destruct a as [s|s| |s m e Hb]; try discriminate.
  - cbn [B2R]. rewrite Rabs_R0. generalize T32_bounds (bpow_gt_0 radix2 127). lra.
  - (* |a| <= 2^128 - 2^104 < T32 *)
    destruct (bounded32 m e Hb) as (Hm & He1 & He2).
    cbn [B2R]. rewrite <- F2R_Zabs. rewrite abs_cond_Zopp. cbn [Z.abs].
    unfold F2R; cbn [Fnum Fexp].
    apply Rle_lt_trans with (IZR (2 ^ 24 - 1) * bpow radix2 104).
    + apply Rmult_le_compat; [apply IZR_le; lia|apply bpow_ge_0|apply IZR_le; lia|apply bpow_le; lia].
    + unfold T32. rewrite minus_IZR. change (IZR (2 ^ 24)) with (bpow radix2 24).
      rewrite Rmult_minus_distr_r, <- bpow_plus. change (24 + 104)%Z with 128%Z.
      assert (bpow radix2 103 < bpow radix2 104) by (apply bpow_lt; lia). simpl (IZR 1). lra.
Qed.

Lemma dn_up (a : B32) : dn (up a) = a.
Proof.
  destruct a as [s|s| |s m e Hb] eqn:Ea.
  - rewrite up_zero. reflexivity.
  - rewrite up_inf. reflexivity.
  - rewrite up_nan. reflexivity.
  - rewrite <- Ea. assert (Fa : is_finite a = true) by (rewrite Ea; reflexivity).
    destruct (up_fin a Fa) as (F & R & S).
    destruct (dn_finite (up a) F) as [H1 _].
    rewrite R in H1. destruct (H1 (B2R_lt_T32 a Fa)) as (F1 & R1 & S1).
    apply B2R_Bsign_inj; try assumption.
    + rewrite R1. apply round_generic; [typeclasses eauto|]. apply (generic_format_B2R 24 128).
    + rewrite S1. exact S.
Qed.

Lemma to_b32_of_b32 (b : B32) : to_b32 (of_b32 b) = b.
Proof. rewrite to_b32_dn. apply dn_up. Qed.

(** ** the common last step *)
Lemma binary_overflow_NE prec emax s : binary_overflow prec emax mode_NE s = S754_infinity s.
Proof. reflexivity. Qed.

Lemma rnd32_0 : rnd32 0 = 0. Proof. apply round_0. typeclasses eauto. Qed.

Lemma dn_finish (z : R) (c : B64) (d : B32) (sg : bool) :
  is_finite c = true -> B2R c = rnd64 z -> Bsign c = sg ->
  rnd32 (rnd64 z) = rnd32 z ->
  (if Rlt_bool (Rabs (rnd32 z)) (bpow radix2 128)
   then is_finite d = true /\ B2R d = rnd32 z /\ Bsign d = sg
   else B2SF d = S754_infinity sg) ->
  dn c = d.
Proof.
  intros Fc Rc Sc DR Hd.
  destruct (dn_finite c Fc) as [H1 H2].
  destruct (Rlt_or_le (Rabs (B2R c)) T32) as [Hlt|Hge].
  - destruct (H1 Hlt) as (F1 & R1 & S1).
    rewrite Rc, DR in R1.
    rewrite Rlt_bool_true in Hd.
    + destruct Hd as (Fd & Rd & Sd).
      apply B2R_Bsign_inj; try assumption; congruence.
    + rewrite <- DR, <- Rc.
      destruct (Req_dec (B2R c) 0) as [E0|N0].
      * rewrite E0, rnd32_0, Rabs_R0. apply bpow_gt_0.
      * apply round32_no_overflow; assumption.
  - rewrite (H2 Hge).
    rewrite Rlt_bool_false in Hd.
    + symmetry. rewrite Sc. apply B2SF_inf_inv. exact Hd.
    + rewrite <- DR, <- Rc. apply round32_overflow. exact Hge.
Qed.

(** ** helpers: formats, magnitudes *)
Lemma fmt32 (a : B32) : FLT_format radix2 (-149) 24 (B2R a).
Proof. apply FLT_format_generic; [typeclasses eauto|]. apply (generic_format_B2R 24 128). Qed.

Lemma abs_lt_128 (a : B32) : Rabs (B2R a) < bpow radix2 128.
Proof. apply (abs_B2R_lt_emax 24 128). Qed.

Lemma rnd64_small (z : R) (e : Z) : (0 <= e < 1024)%Z -> Rabs z <= bpow radix2 e -> Rabs (rnd64 z) < bpow radix2 1024.
Proof.
  intros He Hz. rewrite <- round_NE_abs by typeclasses eauto.
  apply Rle_lt_trans with (bpow radix2 e).
  - apply round_le_generic; try typeclasses eauto; [|exact Hz].
    apply generic_format_bpow. unfold FLT_exp. lia.
  - apply bpow_lt. lia.
Qed.

Lemma fin_not_nan (prec emax : Z) (c : binary_float prec emax) : is_finite c = true -> is_nan c = false.
Proof. destruct c; try discriminate; reflexivity. Qed.

(** a finite nonzero binary32 number is at least 2^-149 in magnitude *)
Lemma abs_ge_149 (a : B32) : B2R a <> 0 -> bpow radix2 (-149) <= Rabs (B2R a).
Proof.
  intros Na. destruct a as [s|s| |s m e Hb]; cbn [B2R] in *; try (exfalso; apply Na; reflexivity).
  destruct (bounded32 m e Hb) as (Hm & He1 & He2).
  rewrite <- F2R_Zabs, abs_cond_Zopp. cbn [Z.abs]. unfold F2R; cbn [Fnum Fexp].
  replace (bpow radix2 (-149)) with (1 * bpow radix2 (-149)) by ring.
  apply Rmult_le_compat; [lra|apply bpow_ge_0|apply IZR_le; lia|apply bpow_le; lia].
Qed.

(** ** (a) multiplication *)
Notation mul64 := (@Bmult 53 1024 FP.Hprec FP.Hmax mode_NE).
Notation mul32 := (@Bmult 24 128 Hprec24 Hmax128 mode_NE).
Notation add64 := (@Bplus 53 1024 FP.Hprec FP.Hmax mode_NE).
Notation add32 := (@Bplus 24 128 Hprec24 Hmax128 mode_NE).
Notation sub64 := (@Bminus 53 1024 FP.Hprec FP.Hmax mode_NE).
Notation sub32 := (@Bminus 24 128 Hprec24 Hmax128 mode_NE).
Notation div64 := (@Bdiv 53 1024 FP.Hprec FP.Hmax mode_NE).
Notation div32 := (@Bdiv 24 128 Hprec24 Hmax128 mode_NE).
Notation sqrt64 := (@Bsqrt 53 1024 FP.Hprec FP.Hmax mode_NE).
Notation sqrt32 := (@Bsqrt 24 128 Hprec24 Hmax128 mode_NE).

Ltac up_shape :=
  repeat match goal with
  | |- context [up (B754_zero ?s)] => rewrite (up_zero s)
  | |- context [up (B754_infinity ?s)] => rewrite (up_inf s)
  | |- context [up B754_nan] => rewrite up_nan
  | |- context [up (B754_finite ?s ?m ?e ?H)] =>
      let m' := fresh "m'" in let e' := fresh "e'" in let H' := fresh "H'" in let E := fresh "E" in
      destruct (up_finite s m e H) as (m' & e' & H' & E & _); rewrite E; clear E
  end.

Lemma mul_double (a b : B32) : rnd32 (rnd64 (B2R a * B2R b)) = rnd32 (B2R a * B2R b).
Proof. apply round_round_mult_FLT; try lia; try typeclasses eauto; apply fmt32. Qed.

Lemma mul_fin (a b : B32) : is_finite a = true -> is_finite b = true -> dn (mul64 (up a) (up b)) = mul32 a b.
Proof.
  intros Fa Fb.
  destruct (up_fin a Fa) as (FA & RA & SA). destruct (up_fin b Fb) as (FB & RB & SB).
  apply dn_finish with (z := B2R a * B2R b) (sg := xorb (Bsign a) (Bsign b)).
  - generalize (Bmult_correct 53 1024 FP.Hprec FP.Hmax mode_NE (up a) (up b)). norm3264. rewrite RA, RB.
    rewrite Rlt_bool_true; [intros (_ & F & _); rewrite F, FA, FB; reflexivity|].
    apply (rnd64_small _ 256); [lia|]. rewrite Rabs_mult. change 256%Z with (128 + 128)%Z. rewrite bpow_plus.
    apply Rmult_le_compat; try apply Rabs_pos; apply Rlt_le, abs_lt_128.
  - generalize (Bmult_correct 53 1024 FP.Hprec FP.Hmax mode_NE (up a) (up b)). norm3264. rewrite RA, RB.
    rewrite Rlt_bool_true; [intros (R & _); exact R|].
    apply (rnd64_small _ 256); [lia|]. rewrite Rabs_mult. change 256%Z with (128 + 128)%Z. rewrite bpow_plus.
    apply Rmult_le_compat; try apply Rabs_pos; apply Rlt_le, abs_lt_128.
  - generalize (Bmult_correct 53 1024 FP.Hprec FP.Hmax mode_NE (up a) (up b)). norm3264. rewrite RA, RB.
    rewrite Rlt_bool_true; [intros (_ & F & S)|].
    + rewrite S, SA, SB; [reflexivity|]. apply fin_not_nan. rewrite F, FA, FB. reflexivity.
    + apply (rnd64_small _ 256); [lia|]. rewrite Rabs_mult. change 256%Z with (128 + 128)%Z. rewrite bpow_plus.
      apply Rmult_le_compat; try apply Rabs_pos; apply Rlt_le, abs_lt_128.
  - apply mul_double.
  - generalize (Bmult_correct 24 128 Hprec24 Hmax128 mode_NE a b). norm3264.
    destruct (Rlt_bool _ _).
    + intros (R & F & S). rewrite Fa, Fb in F. split; [exact F|split; [exact R|]].
      apply S. apply fin_not_nan. exact F.
    + intros H; exact H.
Qed.

Theorem mul_core (a b : B32) : dn (mul64 (up a) (up b)) = mul32 a b.
Proof.
  destruct (is_finite a) eqn:Fa; [destruct (is_finite b) eqn:Fb; [apply mul_fin; assumption|]|].
  - destruct a as [sa|sa| |sa ma ea Ha]; try discriminate; destruct b as [sb|sb| |sb mb eb Hb]; try discriminate;
      up_shape; reflexivity.
  - destruct a as [sa|sa| |sa ma ea Ha]; try discriminate; destruct b as [sb|sb| |sb mb eb Hb];
      up_shape; reflexivity.
Qed.

(** ** (b) addition, subtraction *)
Lemma Bsign_le (prec emax : Z) (a : binary_float prec emax) : is_finite a = true ->
  if Bsign a then B2R a <= 0 else 0 <= B2R a.
Proof.
  destruct a as [s|s| |s m e H]; try discriminate; intros _; cbn [Bsign B2R].
  - destruct s; lra.
  - destruct s; cbn [cond_Zopp].
    + apply Rlt_le, F2R_lt_0. reflexivity.
    + apply Rlt_le, F2R_gt_0. reflexivity.
Qed.

Lemma add_double (a b : B32) : rnd32 (rnd64 (B2R a + B2R b)) = rnd32 (B2R a + B2R b).
Proof. apply round_round_plus_FLT; try lia; try typeclasses eauto; apply fmt32. Qed.
Lemma sub_double (a b : B32) : rnd32 (rnd64 (B2R a - B2R b)) = rnd32 (B2R a - B2R b).
Proof. apply round_round_minus_FLT; try lia; try typeclasses eauto; apply fmt32. Qed.

Lemma abs_add_le (a b : B32) : Rabs (B2R a + B2R b) <= bpow radix2 129.
Proof.
  apply Rle_trans with (1 := Rabs_triang _ _). change 129%Z with (128 + 1)%Z. rewrite bpow_S.
  generalize (abs_lt_128 a) (abs_lt_128 b). lra.
Qed.
Lemma abs_sub_le (a b : B32) : Rabs (B2R a - B2R b) <= bpow radix2 129.
Proof.
  unfold Rminus. apply Rle_trans with (1 := Rabs_triang _ _). rewrite Rabs_Ropp. change 129%Z with (128 + 1)%Z. rewrite bpow_S.
  generalize (abs_lt_128 a) (abs_lt_128 b). lra.
Qed.

Lemma rnd32_big_nonzero z : bpow radix2 128 <= Rabs (rnd32 z) -> z <> 0.
Proof.
  intros H E. rewrite E, rnd32_0, Rabs_R0 in H. generalize (bpow_gt_0 radix2 128). lra.
Qed.

Lemma add_fin (a b : B32) : is_finite a = true -> is_finite b = true -> dn (add64 (up a) (up b)) = add32 a b.
Proof.
  intros Fa Fb.
  destruct (up_fin a Fa) as (FA & RA & SA). destruct (up_fin b Fb) as (FB & RB & SB).
  set (sg := match Rcompare (B2R a + B2R b) 0 with Eq => andb (Bsign a) (Bsign b) | Lt => true | Gt => false end).
  assert (H64 : B2R (add64 (up a) (up b)) = rnd64 (B2R a + B2R b) /\ is_finite (add64 (up a) (up b)) = true /\
                Bsign (add64 (up a) (up b)) = sg).
  { generalize (Bplus_correct 53 1024 FP.Hprec FP.Hmax mode_NE (up a) (up b) FA FB). norm3264. rewrite RA, RB, SA, SB.
    rewrite Rlt_bool_true; [intros H; exact H|].
    apply (rnd64_small _ 129); [lia|]. apply abs_add_le. }
  destruct H64 as (R64 & F64 & S64).
  apply dn_finish with (z := B2R a + B2R b) (sg := sg); try assumption.
  - apply add_double.
  - generalize (Bplus_correct 24 128 Hprec24 Hmax128 mode_NE a b Fa Fb). norm3264.
    destruct (Rlt_bool_spec (Rabs (rnd32 (B2R a + B2R b))) (bpow radix2 128)) as [Hlt|Hge].
    + intros (R & F & S). split; [exact F|split; [exact R|exact S]].
    + intros (H & Es). rewrite H, binary_overflow_NE. f_equal.
      apply rnd32_big_nonzero in Hge.
      generalize (Bsign_le 24 128 a Fa) (Bsign_le 24 128 b Fb). rewrite <- Es. unfold sg.
      destruct (Bsign a); intros La Lb.
      * rewrite Rcompare_Lt; [reflexivity|lra].
      * rewrite Rcompare_Gt; [reflexivity|lra].
Qed.

Theorem add_core (a b : B32) : dn (add64 (up a) (up b)) = add32 a b.
Proof.
  destruct (is_finite a) eqn:Fa; [destruct (is_finite b) eqn:Fb; [apply add_fin; assumption|]|].
  - destruct a as [sa|sa| |sa ma ea Ha]; try discriminate; destruct b as [sb|sb| |sb mb eb Hb]; try discriminate;
      up_shape; reflexivity.
  - destruct a as [sa|sa| |sa ma ea Ha]; try discriminate; destruct b as [sb|sb| |sb mb eb Hb];
      up_shape; try reflexivity; cbn; destruct (Bool.eqb sa sb); reflexivity.
Qed.

Lemma sub_fin (a b : B32) : is_finite a = true -> is_finite b = true -> dn (sub64 (up a) (up b)) = sub32 a b.
Proof.
  intros Fa Fb.
  destruct (up_fin a Fa) as (FA & RA & SA). destruct (up_fin b Fb) as (FB & RB & SB).
  set (sg := match Rcompare (B2R a - B2R b) 0 with Eq => andb (Bsign a) (negb (Bsign b)) | Lt => true | Gt => false end).
  assert (H64 : B2R (sub64 (up a) (up b)) = rnd64 (B2R a - B2R b) /\ is_finite (sub64 (up a) (up b)) = true /\
                Bsign (sub64 (up a) (up b)) = sg).
  { generalize (Bminus_correct 53 1024 FP.Hprec FP.Hmax mode_NE (up a) (up b) FA FB). norm3264. rewrite RA, RB, SA, SB.
    rewrite Rlt_bool_true; [intros H; exact H|].
    apply (rnd64_small _ 129); [lia|]. apply abs_sub_le. }
  destruct H64 as (R64 & F64 & S64).
  apply dn_finish with (z := B2R a - B2R b) (sg := sg); try assumption.
  - apply sub_double.
  - generalize (Bminus_correct 24 128 Hprec24 Hmax128 mode_NE a b Fa Fb). norm3264.
    destruct (Rlt_bool_spec (Rabs (rnd32 (B2R a - B2R b))) (bpow radix2 128)) as [Hlt|Hge].
    + intros (R & F & S). split; [exact F|split; [exact R|exact S]].
    + intros (H & Es). rewrite H, binary_overflow_NE. f_equal.
      apply rnd32_big_nonzero in Hge.
      generalize (Bsign_le 24 128 a Fa) (Bsign_le 24 128 b Fb). unfold sg. rewrite Es.
      destruct (Bsign b); cbn [negb]; intros La Lb.
      * rewrite Rcompare_Gt; [reflexivity|lra].
      * rewrite Rcompare_Lt; [reflexivity|lra].
Qed.

Theorem sub_core (a b : B32) : dn (sub64 (up a) (up b)) = sub32 a b.
Proof.
  destruct (is_finite a) eqn:Fa; [destruct (is_finite b) eqn:Fb; [apply sub_fin; assumption|]|].
  - destruct a as [sa|sa| |sa ma ea Ha]; try discriminate; destruct b as [sb|sb| |sb mb eb Hb]; try discriminate;
      up_shape; reflexivity.
  - destruct a as [sa|sa| |sa ma ea Ha]; try discriminate; destruct b as [sb|sb| |sb mb eb Hb];
      up_shape; try reflexivity; cbn; destruct (Bool.eqb sa (negb sb)); reflexivity.
Qed.

(** ** (c) division *)
Lemma div_double (a b : B32) : B2R b <> 0 -> rnd32 (rnd64 (B2R a / B2R b)) = rnd32 (B2R a / B2R b).
Proof.
  intros Nb. apply round_round_div_FLT; try lia; try typeclasses eauto; try apply fmt32; try exact Nb.
  exists 1%Z. reflexivity.
Qed.

Lemma abs_div_le (a b : B32) : B2R b <> 0 -> Rabs (B2R a / B2R b) <= bpow radix2 277.
Proof.
  intros Nb. unfold Rdiv. rewrite Rabs_mult, Rabs_inv.
  change 277%Z with (128 + 149)%Z. rewrite bpow_plus.
  assert (Hb := abs_ge_149 b Nb).
  assert (P149 : 0 < bpow radix2 (-149)) by apply bpow_gt_0.
  apply Rmult_le_compat; [apply Rabs_pos| |apply Rlt_le, abs_lt_128|].
  - apply Rlt_le, Rinv_0_lt_compat. lra.
  - replace (bpow radix2 149) with (/ bpow radix2 (-149)).
    + apply Rinv_le_contravar; assumption.
    + rewrite <- bpow_opp. reflexivity.
Qed.

Lemma div_fin (a b : B32) : is_finite a = true -> is_finite b = true -> B2R b <> 0 -> dn (div64 (up a) (up b)) = div32 a b.
Proof.
  intros Fa Fb Nb.
  destruct (up_fin a Fa) as (FA & RA & SA). destruct (up_fin b Fb) as (FB & RB & SB).
  assert (NB : B2R (up b) <> 0) by (rewrite RB; exact Nb).
  set (sg := xorb (Bsign a) (Bsign b)).
  assert (H64 : B2R (div64 (up a) (up b)) = rnd64 (B2R a / B2R b) /\ is_finite (div64 (up a) (up b)) = true /\
                Bsign (div64 (up a) (up b)) = sg).
  { generalize (Bdiv_correct 53 1024 FP.Hprec FP.Hmax mode_NE (up a) (up b) NB). norm3264. rewrite RA, RB, SA, SB, FA.
    rewrite Rlt_bool_true.
    - intros (R & F & S). split; [exact R|split; [exact F|]]. apply S. apply fin_not_nan. exact F.
    - apply (rnd64_small _ 277); [lia|]. apply abs_div_le. exact Nb. }
  destruct H64 as (R64 & F64 & S64).
  apply dn_finish with (z := B2R a / B2R b) (sg := sg); try assumption.
  - apply div_double. exact Nb.
  - generalize (Bdiv_correct 24 128 Hprec24 Hmax128 mode_NE a b Nb). norm3264. rewrite Fa.
    destruct (Rlt_bool _ _).
    + intros (R & F & S). split; [exact F|split; [exact R|]]. apply S. apply fin_not_nan. exact F.
    + intros H; exact H.
Qed.

Theorem div_core (a b : B32) : dn (div64 (up a) (up b)) = div32 a b.
Proof.
  destruct a as [sa|sa| |sa ma ea Ha] eqn:Ea; destruct b as [sb|sb| |sb mb eb Hb] eqn:Eb;
    try (up_shape; reflexivity).
  (* finite / finite *) rewrite <- Ea, <- Eb. apply div_fin; subst; try reflexivity. cbn [B2R]. apply F2R_sign_neq0.
Qed.

(** ** (d) square root *)
Lemma sqrt_double (a : B32) : rnd32 (rnd64 (R_sqrt.sqrt (B2R a))) = rnd32 (R_sqrt.sqrt (B2R a)).
Proof. apply round_round_sqrt_FLT; try lia; try typeclasses eauto; apply fmt32. Qed.

Theorem sqrt_core (a : B32) : dn (sqrt64 (up a)) = sqrt32 a.
Proof.
  destruct a as [sa|sa| |sa ma ea Ha] eqn:Ea; try (up_shape; destruct sa; reflexivity); try (up_shape; reflexivity).
  destruct sa; [up_shape; reflexivity|].
  rewrite <- Ea.
  destruct (up_finite false ma ea Ha) as (m' & e' & H' & E & R). rewrite <- Ea in E, R.
  assert (RA : B2R (up a) = B2R a) by (rewrite E; exact R).
  assert (SA : Bsign (up a) = false) by (rewrite E; reflexivity).
  destruct (Bsqrt_correct 53 1024 FP.Hprec FP.Hmax mode_NE (up a)) as (R64 & F64 & S64). norm3264.
  rewrite RA in R64. rewrite E in F64 at 2. rewrite SA in S64.
  destruct (Bsqrt_correct 24 128 Hprec24 Hmax128 mode_NE a) as (R32 & F32 & S32). norm3264.
  rewrite Ea in F32 at 2. cbn [Bsign] in S32. rewrite Ea in S32 at 3. cbn [Bsign] in S32.
  apply dn_finish with (z := R_sqrt.sqrt (B2R a)) (sg := false); try assumption.
  - apply S64. apply fin_not_nan. exact F64.
  - apply sqrt_double.
  - rewrite Rlt_bool_true.
    + split; [exact F32|split; [exact R32|]]. apply S32. apply fin_not_nan. exact F32.
    + rewrite <- R32. apply abs_lt_128.
Qed.

(** ** the exact members: opp, abs, comparisons, is_nan *)
Lemma up_opp (a : B32) : up (Bopp a) = Bopp (up a).
Proof.
  destruct a as [s|s| |s m e H] eqn:Ea; cbn [Bopp]; try (up_shape; reflexivity).
  assert (Fa : is_finite a = true) by (rewrite Ea; reflexivity).
  change (B754_finite (negb s) m e H) with (Bopp (B754_finite s m e H)). rewrite <- Ea.
  destruct (up_fin a Fa) as (F1 & R1 & S1).
  assert (Fo : is_finite (Bopp a) = true) by (rewrite is_finite_Bopp; exact Fa).
  destruct (up_fin (Bopp a) Fo) as (F2 & R2 & S2).
  apply B2R_Bsign_inj.
  - exact F2.
  - rewrite is_finite_Bopp. exact F1.
  - rewrite R2, !B2R_Bopp, R1. reflexivity.
  - rewrite S2, !Bsign_Bopp, S1; [reflexivity| |]; apply fin_not_nan; assumption.
Qed.

Lemma up_abs (a : B32) : up (Babs a) = Babs (up a).
Proof.
  destruct a as [s|s| |s m e H] eqn:Ea; cbn [Babs]; try (up_shape; reflexivity).
  assert (Fa : is_finite a = true) by (rewrite Ea; reflexivity).
  change (B754_finite false m e H) with (Babs (B754_finite s m e H)). rewrite <- Ea.
  destruct (up_fin a Fa) as (F1 & R1 & S1).
  assert (Fo : is_finite (Babs a) = true) by (rewrite is_finite_Babs; exact Fa).
  destruct (up_fin (Babs a) Fo) as (F2 & R2 & S2).
  apply B2R_Bsign_inj.
  - exact F2.
  - rewrite is_finite_Babs. exact F1.
  - rewrite R2, !B2R_Babs, R1. reflexivity.
  - rewrite S2, !Bsign_Babs. reflexivity.
Qed.

Lemma up_cmp (a b : B32) : Bcompare (up a) (up b) = Bcompare a b.
Proof.
  destruct (is_finite a) eqn:Fa; [destruct (is_finite b) eqn:Fb|].
  - destruct (up_fin a Fa) as (FA & RA & SA). destruct (up_fin b Fb) as (FB & RB & SB).
    rewrite !Bcompare_correct by assumption. rewrite RA, RB. reflexivity.
  - destruct a as [sa|sa| |sa ma ea Ha]; try discriminate; destruct b as [sb|sb| |sb mb eb Hb]; try discriminate;
      up_shape; reflexivity.
  - destruct a as [sa|sa| |sa ma ea Ha]; try discriminate; destruct b as [sb|sb| |sb mb eb Hb];
      up_shape; reflexivity.
Qed.
Lemma up_ltb (a b : B32) : Bltb (up a) (up b) = Bltb a b.
Proof. generalize (up_cmp a b). unfold Bltb, SFltb, Bcompare. intros ->. reflexivity. Qed.
Lemma up_leb (a b : B32) : Bleb (up a) (up b) = Bleb a b.
Proof. generalize (up_cmp a b). unfold Bleb, SFleb, Bcompare. intros ->. reflexivity. Qed.
Lemma up_eqb (a b : B32) : Beqb (up a) (up b) = Beqb a b.
Proof. generalize (up_cmp a b). unfold Beqb, SFeqb, Bcompare. intros ->. reflexivity. Qed.
Lemma up_is_nan (a : B32) : is_nan (up a) = is_nan a.
Proof. destruct a; up_shape; reflexivity. Qed.

(** ** integer literals: [r32 (FofZ z)] is the binary32 literal, for every [|z| < 2^53] (one rounding) *)
Lemma IZR_format64 (z : Z) : smallZ z = true -> generic_format radix2 f64exp (IZR z).
Proof.
  intros Hz. destruct (Bofz_exact FP.Hprec FP.Hmax z Hz) as (_ & R & _). rewrite <- R.
  apply (generic_format_B2R 53 1024).
Qed.

Lemma ofZ_core (z : Z) : smallZ z = true -> dn (Bofz 53 1024 FP.Hprec FP.Hmax z) = Bofz 24 128 Hprec24 Hmax128 z.
Proof.
  intros Hz. destruct (Bofz_exact FP.Hprec FP.Hmax z Hz) as (F & R & S).
  assert (G : rnd64 (IZR z) = IZR z) by (apply round_generic; [typeclasses eauto|apply IZR_format64; exact Hz]).
  apply dn_finish with (z := IZR z) (sg := Z.ltb z 0); try assumption.
  - rewrite G. exact R.
  - rewrite G. reflexivity.
  - generalize (binary_normalize_correct 24 128 Hprec24 Hmax128 mode_NE z 0 false).
    fold (Bofz 24 128 Hprec24 Hmax128 z). cbv zeta. norm3264.
    assert (HF : F2R (Float radix2 z 0) = IZR z).
    { unfold F2R; cbn [Fnum Fexp]. simpl (bpow radix2 0). ring. }
    rewrite HF.
    assert (Sg : match Rcompare (IZR z) 0 with Eq => false | Lt => true | Gt => false end = Z.ltb z 0).
    { destruct (Rcompare_spec (IZR z) 0) as [L|L|L].
      - apply lt_IZR in L. symmetry. apply Z.ltb_lt. exact L.
      - apply eq_IZR in L. subst z. reflexivity.
      - apply lt_IZR in L. symmetry. apply Z.ltb_ge. lia. }
    destruct (Rlt_bool _ _).
    + intros (R' & F' & S'). rewrite S', Sg. repeat split; assumption.
    + intros H. rewrite H, binary_overflow_NE. f_equal.
      unfold Rlt_bool. rewrite <- Sg. destruct (Rcompare (IZR z) 0); reflexivity.
Qed.

(** ** the homomorphism: every binary32 number, no side condition *)
Lemma r32_to (x : prim) (b : B32) : to_b32 x = b -> r32 x = of_b32 b.
Proof. intros <-. reflexivity. Qed.

Lemma of_b32_const (c : prim) (b : B32) : Prim2SF c = Prim2SF (of_b32 b) -> c = of_b32 b.
Proof. intros E. apply FP.Prim2B_inj. apply B2SF_inj. rewrite !FP.B2SF_Prim2B. exact E. Qed.

Global Instance of_b32_hom : NumHom NumB32 NumF32 of_b32.
Proof.
  constructor; intros; cbn [nadd nsub nmul ndiv nneg nabs nsqrt nltb nleb neqb nis_nan
    nnext_up nnext_dn nofZ neps nmaxf ninf NumB NumB32 NumF32].
  - apply r32_to. rewrite to_b32_dn, FP.add_equiv. apply add_core.
  - apply r32_to. rewrite to_b32_dn, FP.sub_equiv. apply sub_core.
  - apply r32_to. rewrite to_b32_dn, FP.mul_equiv. apply mul_core.
  - apply r32_to. rewrite to_b32_dn, FP.div_equiv. apply div_core.
  - apply FP.Prim2B_inj. rewrite FP.opp_equiv. symmetry. apply up_opp.
  - apply FP.Prim2B_inj. rewrite FP.abs_equiv. symmetry. apply up_abs.
  - apply r32_to. rewrite to_b32_dn, FP.sqrt_equiv. apply sqrt_core.
  - rewrite FP.ltb_equiv. apply up_ltb.
  - rewrite FP.leb_equiv. apply up_leb.
  - rewrite FP.eqb_equiv. apply up_eqb.
  - rewrite FP.is_nan_equiv. apply up_is_nan.
  - unfold next_up32. rewrite to_b32_of_b32. reflexivity.
  - unfold next_dn32. rewrite to_b32_of_b32. reflexivity.
  - apply r32_to. rewrite to_b32_dn. change (FP.Prim2B (FofZ z)) with (P2B (FofZ z)). rewrite P2B_FofZ by assumption.
    apply ofZ_core. assumption.
  - apply of_b32_const. vm_compute. reflexivity.
  - apply of_b32_const. vm_compute. reflexivity.
  - apply of_b32_const. vm_compute. reflexivity.
Qed.

(** ** binary32-valued primitive floats *)
Definition is32 (x : prim) : Prop := r32 x = x.

Lemma r32_of_b32 (b : B32) : r32 (of_b32 b) = of_b32 b.
Proof. unfold r32. rewrite to_b32_of_b32. reflexivity. Qed.
Lemma is32_of_b32 (b : B32) : is32 (of_b32 b). Proof. exact (r32_of_b32 b). Qed.
Lemma is32_r32 (x : prim) : is32 (r32 x). Proof. unfold r32. apply is32_of_b32. Qed.
Lemma is32_iff (x : prim) : is32 x <-> exists b : B32, x = of_b32 b.
Proof. split; [intros H; exists (to_b32 x); symmetry; exact H|intros (b & ->); apply is32_of_b32]. Qed.
Lemma is32_back (x : prim) : is32 x -> of_b32 (to_b32 x) = x. Proof. exact (fun H => H). Qed.
Lemma to_b32_r32 (x : prim) : to_b32 (r32 x) = to_b32 x.
Proof. unfold r32. apply to_b32_of_b32. Qed.
Lemma to_b32_inj (x y : prim) : is32 x -> is32 y -> to_b32 x = to_b32 y -> x = y.
Proof. intros Hx Hy E. rewrite <- Hx, <- Hy. unfold r32. rewrite E. reflexivity. Qed.

(** every operation of [NumF32] returns a binary32-valued float (the rounding ones on ANY arguments) *)
Section Closure.
  Local Notation N := NumF32.
  Lemma is32_nadd (x y : prim) : is32 (@nadd _ N x y). Proof. apply is32_r32. Qed.
  Lemma is32_nsub (x y : prim) : is32 (@nsub _ N x y). Proof. apply is32_r32. Qed.
  Lemma is32_nmul (x y : prim) : is32 (@nmul _ N x y). Proof. apply is32_r32. Qed.
  Lemma is32_ndiv (x y : prim) : is32 (@ndiv _ N x y). Proof. apply is32_r32. Qed.
  Lemma is32_nsqrt (x : prim) : is32 (@nsqrt _ N x). Proof. apply is32_r32. Qed.
  Lemma is32_nneg (x : prim) : is32 x -> is32 (@nneg _ N x).
  Proof. intros H. rewrite <- H. unfold r32. rewrite (hom_neg (h:=of_b32)). apply is32_of_b32. Qed.
  Lemma is32_nabs (x : prim) : is32 x -> is32 (@nabs _ N x).
  Proof. intros H. rewrite <- H. unfold r32. rewrite (hom_abs (h:=of_b32)). apply is32_of_b32. Qed.
  Lemma is32_nofZ (z : Z) : is32 (@nofZ _ N z). Proof. apply is32_r32. Qed.
  Lemma is32_neps : is32 (@neps _ N). Proof. rewrite (hom_eps (h:=of_b32)). apply is32_of_b32. Qed.
  Lemma is32_nmaxf : is32 (@nmaxf _ N). Proof. rewrite (hom_maxf (h:=of_b32)). apply is32_of_b32. Qed.
  Lemma is32_ninf : is32 (@ninf _ N). Proof. rewrite (hom_inf (h:=of_b32)). apply is32_of_b32. Qed.
  Lemma is32_nnext_up (x : prim) : is32 (@nnext_up _ N x). Proof. apply is32_of_b32. Qed.
  Lemma is32_nnext_dn (x : prim) : is32 (@nnext_dn _ N x). Proof. apply is32_of_b32. Qed.
  Lemma is32_nsin (x : prim) : is32 (@nsin _ N x). Proof. apply is32_r32. Qed.
  Lemma is32_ncos (x : prim) : is32 (@ncos _ N x). Proof. apply is32_r32. Qed.
  Lemma is32_ntan (x : prim) : is32 (@ntan _ N x). Proof. apply is32_r32. Qed.
  Lemma is32_nacos (x : prim) : is32 (@nacos _ N x). Proof. apply is32_r32. Qed.
  Lemma is32_natan2 (y x : prim) : is32 (@natan2 _ N y x). Proof. apply is32_r32. Qed.
  Lemma is32_npi : is32 (@npi _ N). Proof. apply is32_r32. Qed.
End Closure.

(** ** the reading direction: [to_b32] commutes with every non-libm member of [NumF32] on binary32-valued floats.
    THE HEADER CLAIM OF Model/NumF32.v: double rounding through binary64 is innocuous for + - * / sqrt. *)
Section Reading.
  Local Notation N := NumF32.
  Local Notation t := to_b32.
  Ltac back x := let H := fresh in
    match goal with Hx : is32 x |- _ => pose proof (is32_back x Hx) as H; rewrite <- H at 1; clear H end.

  Theorem to_b32_nadd (x y : prim) : is32 x -> is32 y -> t (@nadd _ N x y) = add32 (t x) (t y).
  Proof. intros Hx Hy. apply is32_iff in Hx, Hy. destruct Hx as (a & ->), Hy as (b & ->). rewrite (hom_add (h:=of_b32)), !to_b32_of_b32. reflexivity. Qed.
  Theorem to_b32_nsub (x y : prim) : is32 x -> is32 y -> t (@nsub _ N x y) = sub32 (t x) (t y).
  Proof. intros Hx Hy. apply is32_iff in Hx, Hy. destruct Hx as (a & ->), Hy as (b & ->). rewrite (hom_sub (h:=of_b32)), !to_b32_of_b32. reflexivity. Qed.
  Theorem to_b32_nmul (x y : prim) : is32 x -> is32 y -> t (@nmul _ N x y) = mul32 (t x) (t y).
  Proof. intros Hx Hy. apply is32_iff in Hx, Hy. destruct Hx as (a & ->), Hy as (b & ->). rewrite (hom_mul (h:=of_b32)), !to_b32_of_b32. reflexivity. Qed.
  Theorem to_b32_ndiv (x y : prim) : is32 x -> is32 y -> t (@ndiv _ N x y) = div32 (t x) (t y).
  Proof. intros Hx Hy. apply is32_iff in Hx, Hy. destruct Hx as (a & ->), Hy as (b & ->). rewrite (hom_div (h:=of_b32)), !to_b32_of_b32. reflexivity. Qed.
  Theorem to_b32_nsqrt (x : prim) : is32 x -> t (@nsqrt _ N x) = sqrt32 (t x).
  Proof. intros Hx. apply is32_iff in Hx. destruct Hx as (a & ->). rewrite (hom_sqrt (h:=of_b32)), !to_b32_of_b32. reflexivity. Qed.
  Theorem to_b32_nneg (x : prim) : is32 x -> t (@nneg _ N x) = Bopp (t x).
  Proof. intros Hx. apply is32_iff in Hx. destruct Hx as (a & ->). rewrite (hom_neg (h:=of_b32)), !to_b32_of_b32. reflexivity. Qed.
  Theorem to_b32_nabs (x : prim) : is32 x -> t (@nabs _ N x) = Babs (t x).
  Proof. intros Hx. apply is32_iff in Hx. destruct Hx as (a & ->). rewrite (hom_abs (h:=of_b32)), !to_b32_of_b32. reflexivity. Qed.
  Theorem to_b32_nltb (x y : prim) : is32 x -> is32 y -> @nltb _ N x y = Bltb (t x) (t y).
  Proof. intros Hx Hy. apply is32_iff in Hx, Hy. destruct Hx as (a & ->), Hy as (b & ->). rewrite (hom_ltb (h:=of_b32)), !to_b32_of_b32. reflexivity. Qed.
  Theorem to_b32_nleb (x y : prim) : is32 x -> is32 y -> @nleb _ N x y = Bleb (t x) (t y).
  Proof. intros Hx Hy. apply is32_iff in Hx, Hy. destruct Hx as (a & ->), Hy as (b & ->). rewrite (hom_leb (h:=of_b32)), !to_b32_of_b32. reflexivity. Qed.
  Theorem to_b32_neqb (x y : prim) : is32 x -> is32 y -> @neqb _ N x y = Beqb (t x) (t y).
  Proof. intros Hx Hy. apply is32_iff in Hx, Hy. destruct Hx as (a & ->), Hy as (b & ->). rewrite (hom_eqb (h:=of_b32)), !to_b32_of_b32. reflexivity. Qed.
  Theorem to_b32_nis_nan (x : prim) : is32 x -> @nis_nan _ N x = is_nan (t x).
  Proof. intros Hx. apply is32_iff in Hx. destruct Hx as (a & ->). rewrite (hom_is_nan (h:=of_b32)), !to_b32_of_b32. reflexivity. Qed.
  (** without the hypothesis: [is_nan] and the sign of infinities survive the rounding anyway *)
  Theorem to_b32_nnext_up (x : prim) : t (@nnext_up _ N x) = @nnext_up _ NumB32 (t x).
  Proof. apply to_b32_of_b32. Qed.
  Theorem to_b32_nnext_dn (x : prim) : t (@nnext_dn _ N x) = @nnext_dn _ NumB32 (t x).
  Proof. apply to_b32_of_b32. Qed.
  Theorem to_b32_nofZ (z : Z) : (Z.abs z < 2 ^ 53)%Z -> t (@nofZ _ N z) = @nofZ _ NumB32 z.
  Proof. intros Hz. rewrite (hom_ofZ (h:=of_b32)) by (apply Z.ltb_lt; exact Hz). apply to_b32_of_b32. Qed.
  Theorem to_b32_nofQ (p q : Z) : (Z.abs p < 2 ^ 53)%Z -> (Z.abs q < 2 ^ 53)%Z -> t (@nofQ _ N p q) = @nofQ _ NumB32 p q.
  Proof. intros Hp Hq. rewrite (hom_nofQ of_b32) by (apply Z.ltb_lt; assumption). apply to_b32_of_b32. Qed.
  Theorem to_b32_neps : t (@neps _ N) = @neps _ NumB32.
  Proof. rewrite (hom_eps (h:=of_b32)). apply to_b32_of_b32. Qed.
  Theorem to_b32_nmaxf : t (@nmaxf _ N) = @nmaxf _ NumB32.
  Proof. rewrite (hom_maxf (h:=of_b32)). apply to_b32_of_b32. Qed.
  Theorem to_b32_ninf : t (@ninf _ N) = @ninf _ NumB32.
  Proof. rewrite (hom_inf (h:=of_b32)). apply to_b32_of_b32. Qed.
  Theorem to_b32_ctiny : t (@ctiny _ N) = @ctiny _ NumB32.
  Proof. rewrite (hom_ctiny of_b32). apply to_b32_of_b32. Qed.
  Theorem to_b32_ngamma (k : Z) : (Z.abs k < 2 ^ 53)%Z -> t (@ngamma _ N k) = @ngamma _ NumB32 k.
  Proof. intros Hk. rewrite (hom_ngamma of_b32) by (apply Z.ltb_lt; exact Hk). apply to_b32_of_b32. Qed.
End Reading.

(** the statement in the words of the header of Model/NumF32.v: rounding the binary64 result to binary32 IS the
    binary32 operation *)
Theorem double_rounding_innocuous (x y : prim) : is32 x -> is32 y ->
  to_b32 (r32 (x + y)%float) = add32 (to_b32 x) (to_b32 y) /\
  to_b32 (r32 (x - y)%float) = sub32 (to_b32 x) (to_b32 y) /\
  to_b32 (r32 (x * y)%float) = mul32 (to_b32 x) (to_b32 y) /\
  to_b32 (r32 (x / y)%float) = div32 (to_b32 x) (to_b32 y) /\
  to_b32 (r32 (PrimFloat.sqrt x)) = sqrt32 (to_b32 x).
Proof.
  intros Hx Hy. repeat split.
  - exact (to_b32_nadd x y Hx Hy). - exact (to_b32_nsub x y Hx Hy). - exact (to_b32_nmul x y Hx Hy).
  - exact (to_b32_ndiv x y Hx Hy). - exact (to_b32_nsqrt x Hx).
Qed.

(** the real-number content: the two roundings in a row are the single rounding, for every pair of binary32 numbers
    (Flocq's [Double_rounding] at (24,-149) inside (53,-1074)) *)
Theorem double_rounding_real (a b : B32) :
  rnd32 (rnd64 (B2R a + B2R b)) = rnd32 (B2R a + B2R b) /\
  rnd32 (rnd64 (B2R a - B2R b)) = rnd32 (B2R a - B2R b) /\
  rnd32 (rnd64 (B2R a * B2R b)) = rnd32 (B2R a * B2R b) /\
  (B2R b <> 0 -> rnd32 (rnd64 (B2R a / B2R b)) = rnd32 (B2R a / B2R b)) /\
  rnd32 (rnd64 (R_sqrt.sqrt (B2R a))) = rnd32 (R_sqrt.sqrt (B2R a)).
Proof.
  split; [apply add_double|]. split; [apply sub_double|]. split; [apply mul_double|]. split; [apply div_double|apply sqrt_double].
Qed.

(** the executed instance is [NumF32] (Run/FastNum32Proof.v): the same homomorphism *)
Lemma of_b32_hom_fast : NumHom NumB32 NumF32fast of_b32.
Proof. rewrite NumF32fast_eq. exact of_b32_hom. Qed.

(** the real value / finiteness of an embedded binary32 number, in the binary64 reading of Theory/PrimBridge.v *)
Lemma up_B2R (a : B32) : B2R (up a) = B2R a.
Proof. destruct a as [s|s| |s m e H] eqn:E; try (up_shape; reflexivity). rewrite <- E. apply up_fin. rewrite E. reflexivity. Qed.
Lemma up_is_finite (a : B32) : is_finite (up a) = is_finite a.
Proof. destruct a; up_shape; reflexivity. Qed.
Lemma FR_of_b32 (a : B32) : FR (of_b32 a) = B2R a. Proof. exact (up_B2R a). Qed.
Lemma Ffin_of_b32 (a : B32) : Ffin (of_b32 a) <-> is_finite a = true.
Proof. unfold Ffin. change (P2B (of_b32 a)) with (up a). rewrite up_is_finite. reflexivity. Qed.
