(** * LoopGeom: vector algebra on [V3 R] (the model's own [vadd]/[vcross]/... read on the real
    instance), sums along open and closed vertex chains (shoelace / Newell vector, edge-length
    sums, vertex sums) and their behaviour under cyclic shift, reversal, translation, insertion of
    a point on an edge and removal of an ear.  Everything is stated with the model's operations so
    that the C10 / C05 proofs can use it directly. *)
From Coq Require Import ZArith Reals Lra Lia Bool List Arith Psatz Nsatz.
From G3 Require Import Model.Num Model.Base Model.Vec Model.Segment Model.Loop Theory.RInst.
Import ListNotations.
Local Open Scope R_scope.

Notation V := (V3 R).

(** componentwise equality of vectors, after unfolding the model's vector operations *)
Ltac vunf := unfold vadd, vsub, vneg, vscale, vdivs, vcross, vdot, vlen2, psqdist, vzero in *; cbn [vx vy vz] in *.
Ltac vring := apply v3_eq; vunf; rnum; ring.

(** ** basic algebra *)
Lemma vadd_comm (a b : V) : vadd a b = vadd b a. Proof. vring. Qed.
Lemma vadd_assoc (a b c : V) : vadd (vadd a b) c = vadd a (vadd b c). Proof. vring. Qed.
Lemma vadd_zero_l (a : V) : vadd vzero a = a. Proof. destruct a as [a1 a2 a3]; vring. Qed.
Lemma vadd_zero_r (a : V) : vadd a vzero = a. Proof. destruct a as [a1 a2 a3]; vring. Qed.
Lemma vcross_anti (a b : V) : vcross a b = vneg (vcross b a). Proof. vring. Qed.
Lemma vcross_self (a : V) : vcross a a = vzero. Proof. vring. Qed.
Lemma vneg_add (a b : V) : vneg (vadd a b) = vadd (vneg a) (vneg b). Proof. vring. Qed.
Lemma vneg_zero : vneg (vzero : V) = vzero. Proof. vring. Qed.
Lemma vdot_add_r (n a b : V) : vdot n (vadd a b) = (vdot n a + vdot n b)%R. Proof. vunf; rnum; ring. Qed.
Lemma vdot_neg_r (n a : V) : vdot n (vneg a) = (- vdot n a)%R. Proof. vunf; rnum; ring. Qed.
Lemma vdot_neg_l (n a : V) : vdot (vneg n) a = (- vdot n a)%R. Proof. vunf; rnum; ring. Qed.
Lemma vdot_zero_r (n : V) : vdot n vzero = 0. Proof. vunf; rnum; ring. Qed.

(** ** sums along chains, generic in the summand (values in a commutative monoid) *)
Section Chain.
  Context {A : Type} (op : A -> A -> A) (e : A) (f : V -> V -> A).
  Hypothesis op_comm : forall x y, op x y = op y x.
  Hypothesis op_assoc : forall x y z, op (op x y) z = op x (op y z).
  Hypothesis op_e_l : forall x, op e x = x.

  (** sum of [f a b] over the consecutive pairs of an OPEN chain *)
  Fixpoint chain (l : list V) : A :=
    match l with
    | a :: ((b :: _) as tl) => op (f a b) (chain tl)
    | _ => e
    end.
  (** the closed chain: wraps around to the first vertex *)
  Definition cyc (l : list V) : A := match l with [] => e | v :: _ => chain (l ++ [v]) end.

  Lemma op_e_r x : op x e = x. Proof. rewrite op_comm. apply op_e_l. Qed.

  Lemma chain_cons2 a b l : chain (a :: b :: l) = op (f a b) (chain (b :: l)). Proof. reflexivity. Qed.

  (** splitting a chain at a vertex *)
  Lemma chain_app (l1 : list V) (x : V) (l2 : list V) :
    chain (l1 ++ x :: l2) = op (chain (l1 ++ [x])) (chain (x :: l2)).
  Proof.
    induction l1 as [|a l1 IH]; cbn [app].
    - cbn [chain]. rewrite op_e_l. reflexivity.
    - destruct l1 as [|b l1]; cbn [app] in *.
      + rewrite !chain_cons2. cbn [chain]. rewrite op_e_r. reflexivity.
      + rewrite !chain_cons2. rewrite IH. rewrite op_assoc. reflexivity.
  Qed.

  (** a closed chain does not depend on where it starts *)
  Lemma cyc_rot (l1 l2 : list V) : cyc (l1 ++ l2) = cyc (l2 ++ l1).
  Proof.
    destruct l1 as [|a l1]; [rewrite app_nil_r; reflexivity|].
    destruct l2 as [|b l2]; [rewrite app_nil_r; reflexivity|].
    unfold cyc. cbn [app].
    change (a :: (l1 ++ b :: l2) ++ [a]) with ((a :: l1 ++ b :: l2) ++ [a]).
    change (b :: (l2 ++ a :: l1) ++ [b]) with ((b :: l2 ++ a :: l1) ++ [b]).
    replace ((a :: l1 ++ b :: l2) ++ [a]) with ((a :: l1) ++ b :: (l2 ++ [a])) by (cbn [app]; rewrite <- app_assoc; reflexivity).
    replace ((b :: l2 ++ a :: l1) ++ [b]) with ((b :: l2) ++ a :: (l1 ++ [b])) by (cbn [app]; rewrite <- app_assoc; reflexivity).
    rewrite (chain_app (a :: l1) b (l2 ++ [a])), (chain_app (b :: l2) a (l1 ++ [b])). cbn [app]. apply op_comm.
  Qed.
  Lemma cyc_shift1 (v : V) (l : list V) : cyc (l ++ [v]) = cyc (v :: l).
  Proof. exact (cyc_rot l [v]). Qed.

  (** the model's accumulating loops ([sum_cross], [sum_len]) are instances of this scheme *)
  Fixpoint acc_loop (vs : list V) (first : V) (acc : A) : A :=
    match vs with
    | [] => acc
    | v :: tl => let nxt := match tl with [] => first | w :: _ => w end in acc_loop tl first (op acc (f v nxt))
    end.
  Lemma acc_loop_chain (vs : list V) (first : V) (acc : A) :
    vs <> [] -> acc_loop vs first acc = op acc (chain (vs ++ [first])).
  Proof.
    revert acc. induction vs as [|v tl IH]; intros acc Hne; [congruence|].
    destruct tl as [|w tl].
    - cbn [acc_loop app chain]. rewrite op_e_r. reflexivity.
    - change (acc_loop (v :: w :: tl) first acc) with (acc_loop (w :: tl) first (op acc (f v w))).
      rewrite IH by discriminate. cbn [app]. rewrite chain_cons2. rewrite op_assoc. reflexivity.
  Qed.
  Lemma acc_loop_cyc (vs : list V) (acc : A) : acc_loop vs (vnth vs O) acc = op acc (cyc vs).
  Proof.
    destruct vs as [|v tl]; [cbn [acc_loop cyc]; rewrite op_e_r; reflexivity|].
    rewrite acc_loop_chain by discriminate. reflexivity.
  Qed.
End Chain.

Ltac vmon := first [apply vadd_comm | apply vadd_assoc | apply vadd_zero_l].
Ltac rmon := first [apply Rplus_comm | apply Rplus_assoc | apply Rplus_0_l].

(** ** the Newell vector  S = sum v_i x v_{i+1}  (twice the vector area) *)
Definition xchain : list V -> V := chain vadd vzero vcross.
Definition newell : list V -> V := cyc vadd vzero vcross.

Lemma xchain_app l1 x l2 : xchain (l1 ++ x :: l2) = vadd (xchain (l1 ++ [x])) (xchain (x :: l2)).
Proof. apply chain_app; vmon. Qed.

(** [sum_cross] of the model computes exactly the Newell vector *)
Lemma sum_cross_acc_loop (vs : list V) (first acc : V) : sum_cross vs first acc = acc_loop vadd vcross vs first acc.
Proof. revert acc. induction vs as [|v tl IH]; intros acc; [reflexivity|]. cbn [sum_cross acc_loop]. apply IH. Qed.
Theorem sum_cross_newell (vs : list V) : sum_cross vs (vnth vs O) vzero = newell vs.
Proof.
  rewrite sum_cross_acc_loop. unfold newell. rewrite (acc_loop_cyc vadd vzero vcross); [apply vadd_zero_l | vmon ..].
Qed.

(** independence of the start vertex *)
Theorem newell_rot (l1 l2 : list V) : newell (l1 ++ l2) = newell (l2 ++ l1).
Proof. apply cyc_rot; vmon. Qed.

(** reversal negates *)
Lemma xchain_snoc (l : list V) (a b : V) : xchain (l ++ [a; b]) = vadd (xchain (l ++ [a])) (vcross a b).
Proof.
  change (l ++ [a; b]) with (l ++ a :: [b]). rewrite xchain_app. unfold xchain at 2. cbn [chain]. rewrite vadd_zero_r. reflexivity.
Qed.
Lemma xchain_rev (l : list V) : xchain (rev l) = vneg (xchain l).
Proof.
  induction l as [|a l IH]; [symmetry; apply vneg_zero|].
  destruct l as [|b l]; [symmetry; apply vneg_zero|].
  cbn [rev] in *. rewrite <- app_assoc. cbn [app]. rewrite xchain_snoc. rewrite IH.
  unfold xchain at 2. rewrite chain_cons2. fold xchain. rewrite vneg_add. rewrite (vcross_anti b a).
  rewrite vadd_comm. reflexivity.
Qed.
Theorem newell_rev (l : list V) : newell (rev l) = vneg (newell l).
Proof.
  destruct l as [|v l]; [symmetry; apply vneg_zero|].
  cbn [rev]. unfold newell. rewrite cyc_shift1; [|vmon ..].
  unfold cyc. fold xchain.
  replace ((v :: rev l) ++ [v]) with (rev ((v :: l) ++ [v])) by (rewrite rev_app_distr; cbn [rev app]; reflexivity).
  apply xchain_rev.
Qed.

(** translation: an open chain picks up  t x (last - first);  a closed chain nothing *)
Lemma xchain_translate (t : V) (l : list V) :
  xchain (map (vadd t) l) = vadd (xchain l) (vcross t (vsub (last l vzero) (hd vzero l))).
Proof.
  induction l as [|a l IH]; [cbn; vring|].
  destruct l as [|b l]; [cbn; vring|].
  cbn [map] in *. unfold xchain in *. rewrite !chain_cons2. rewrite IH.
  change (last (a :: b :: l) vzero) with (last (b :: l) vzero). cbn [hd].
  generalize (last (b :: l) vzero); intros z. generalize (chain vadd vzero vcross (b :: l)); intros c. vring.
Qed.
Theorem newell_translate (t : V) (l : list V) : newell (map (vadd t) l) = newell l.
Proof.
  destruct l as [|v l]; [reflexivity|].
  unfold newell, cyc. cbn [map]. fold xchain.
  replace ((vadd t v :: map (vadd t) l) ++ [vadd t v]) with (map (vadd t) ((v :: l) ++ [v])) by (rewrite map_app; reflexivity).
  rewrite xchain_translate. rewrite last_last. cbn [app hd].
  replace (vsub v v) with (vzero : V) by vring. replace (vcross t vzero) with (vzero : V) by vring. apply vadd_zero_r.
Qed.

(** a point exactly on an edge contributes nothing *)
Lemma xchain_on_edge (a b : V) (s : R) :
  let m := vadd a (vscale (vsub b a) s) in vadd (vcross a m) (vcross m b) = vcross a b.
Proof. cbn zeta. vring. Qed.
Theorem newell_insert_on_edge (l1 l2 : list V) (a b : V) (s : R) :
  newell (l1 ++ a :: vadd a (vscale (vsub b a) s) :: b :: l2) = newell (l1 ++ a :: b :: l2).
Proof.
  set (m := vadd a (vscale (vsub b a) s)).
  rewrite (newell_rot l1), (newell_rot l1). cbn [app]. unfold newell, cyc. fold xchain. cbn [app].
  unfold xchain. rewrite !chain_cons2. fold xchain. rewrite <- vadd_assoc. f_equal. apply xchain_on_edge.
Qed.
(** ... also on the closing edge (between the last and the first vertex) *)
Theorem newell_insert_on_closing_edge (v : V) (l : list V) (s : R) :
  let a := last (v :: l) vzero in
  newell ((v :: l) ++ [vadd a (vscale (vsub v a) s)]) = newell (v :: l).
Proof.
  cbn zeta. destruct (exists_last (l := v :: l)) as [l' [a E]]; [discriminate|]. rewrite E. rewrite last_last.
  rewrite <- app_assoc. cbn [app].
  (* v is the head of l' ++ [a] *)
  assert (Hv : hd vzero (l' ++ [a]) = v) by (rewrite <- E; reflexivity).
  rewrite (newell_rot l' [a; _]), (newell_rot l' [a]). cbn [app].
  destruct l' as [|w l']; cbn [app hd] in Hv; subst.
  - (* single vertex: a = v *) unfold newell, cyc. cbn [app chain]. vring.
  - unfold newell, cyc. fold xchain. cbn [app]. unfold xchain. rewrite !chain_cons2. fold xchain.
    rewrite <- vadd_assoc. f_equal. apply xchain_on_edge.
Qed.

(** removing the ear (v0, v1, v2): the Newell vector changes by the ear's own (v1 - v0) x (v2 - v0) *)
Theorem newell_ear (v0 v1 v2 : V) (l : list V) :
  newell (v0 :: v1 :: v2 :: l) = vadd (newell (v0 :: v2 :: l)) (vcross (vsub v1 v0) (vsub v2 v0)).
Proof.
  unfold newell, cyc. fold xchain. cbn [app]. unfold xchain. rewrite !chain_cons2. fold xchain.
  generalize (xchain (v2 :: l ++ [v0])); intros c. vring.
Qed.

(** for a planar outline (every vertex in the plane through v0 with normal n) the Newell vector is
    parallel to n; with |n| = 1 the quantity |n . S| / 2 is therefore |S| / 2, the polygon's area *)
Lemma xchain_in_plane (n : V) (l : list V) :
  (forall v, In v l -> vdot n v = 0) -> vcross n (xchain l) = vzero.
Proof.
  induction l as [|a l IH]; intros H; [unfold xchain; cbn [chain]; vring|].
  destruct l as [|b l]; [unfold xchain; cbn [chain]; vring|].
  unfold xchain in *. rewrite chain_cons2.
  assert (Ha : vdot n a = 0) by (apply H; left; reflexivity).
  assert (Hb : vdot n b = 0) by (apply H; right; left; reflexivity).
  assert (IH' := IH (fun v Hv => H v (or_intror Hv))).
  revert IH'. generalize (chain vadd vzero vcross (b :: l)); intros c IH'.
  destruct n as [n1 n2 n3], a as [a1 a2 a3], b as [b1 b2 b3], c as [c1 c2 c3].
  vunf. rnum. injection IH' as E1 E2 E3. apply v3_eq; vunf; rnum; nsatz.
Qed.
Theorem newell_parallel_normal (n : V) (l : list V) (v0 : V) :
  hd vzero l = v0 -> (forall v, In v l -> vdot n (vsub v v0) = 0) -> vcross n (newell l) = vzero.
Proof.
  intros Hh Hp. destruct l as [|w l]; [unfold newell, cyc; vring|]. cbn [hd] in Hh. subst w.
  rewrite <- (newell_translate (vneg v0)). unfold newell, cyc. cbn [map]. fold xchain. apply xchain_in_plane.
  intros v Hv. change (vadd (vneg v0) v0 :: map (vadd (vneg v0)) l) with (map (vadd (vneg v0)) (v0 :: l)) in Hv.
  assert (Hz : vdot n (vsub v0 v0) = 0) by (apply Hp; left; reflexivity).
  apply in_app_or in Hv. destruct Hv as [Hv|[Hv|[]]].
  - apply in_map_iff in Hv. destruct Hv as [u [Eu Hu]]. subst v.
    replace (vadd (vneg v0) u) with (vsub u v0) by vring. apply Hp. exact Hu.
  - subst v. replace (vadd (vneg v0) v0) with (vsub v0 v0) by vring. exact Hz.
Qed.
Lemma parallel_unit_dot (n S : V) : vdot n n = 1 -> vcross n S = vzero -> (vdot n S * vdot n S = vdot S S)%R.
Proof.
  destruct n as [n1 n2 n3], S as [s1 s2 s3]. vunf. rnum. intros Hn E. injection E as E1 E2 E3.
  (* Lagrange: |n|^2 |S|^2 = (n.S)^2 + |n x S|^2 *)
  assert (L : ((n1*n1+n2*n2+n3*n3) * (s1*s1+s2*s2+s3*s3) =
               (n1*s1+n2*s2+n3*s3)*(n1*s1+n2*s2+n3*s3) + ((n2*s3-n3*s2)*(n2*s3-n3*s2) + (n3*s1-n1*s3)*(n3*s1-n1*s3) + (n1*s2-n2*s1)*(n1*s2-n2*s1)))%R) by ring.
  rewrite Hn, E1, E2, E3 in L. lra.
Qed.

(** ** sum of the edge lengths *)
Definition elen (a b : V) : R := vlen (vsub a b).
Definition lchain : list V -> R := chain Rplus 0 elen.
Definition perimeter_of : list V -> R := cyc Rplus 0 elen.
Lemma elen_sym (a b : V) : elen a b = elen b a.
Proof. unfold elen, vlen. f_equal. vunf. rnum. ring. Qed.
Lemma sum_len_acc_loop (vs : list V) (first : V) (acc : R) : sum_len vs first acc = acc_loop Rplus elen vs first acc.
Proof. revert acc. induction vs as [|v tl IH]; intros acc; [reflexivity|]. cbn [sum_len acc_loop]. rewrite IH. reflexivity. Qed.
Theorem sum_len_perimeter (vs : list V) : sum_len vs (vnth vs O) 0 = perimeter_of vs.
Proof.
  rewrite sum_len_acc_loop. unfold perimeter_of. rewrite (acc_loop_cyc Rplus 0 elen); [apply Rplus_0_l | rmon ..].
Qed.
Theorem perimeter_rot (l1 l2 : list V) : perimeter_of (l1 ++ l2) = perimeter_of (l2 ++ l1).
Proof. apply cyc_rot; rmon. Qed.
Lemma lchain_app l1 x l2 : lchain (l1 ++ x :: l2) = (lchain (l1 ++ [x]) + lchain (x :: l2))%R.
Proof. apply chain_app; rmon. Qed.
Lemma lchain_rev (l : list V) : lchain (rev l) = lchain l.
Proof.
  induction l as [|a l IH]; [reflexivity|].
  destruct l as [|b l]; [reflexivity|].
  cbn [rev] in *. rewrite <- app_assoc. cbn [app]. change (rev l ++ [b; a]) with (rev l ++ b :: [a]). rewrite lchain_app. rewrite IH.
  unfold lchain. rewrite chain_cons2. cbn [chain]. rewrite (elen_sym b a). lra.
Qed.
Theorem perimeter_rev (l : list V) : perimeter_of (rev l) = perimeter_of l.
Proof.
  destruct l as [|v l]; [reflexivity|].
  cbn [rev]. unfold perimeter_of. rewrite cyc_shift1; [|rmon ..].
  unfold cyc. fold lchain.
  replace ((v :: rev l) ++ [v]) with (rev ((v :: l) ++ [v])) by (rewrite rev_app_distr; cbn [rev app]; reflexivity).
  apply lchain_rev.
Qed.

(** ** vertex sums (centroid) *)
Definition vsum (l : list V) : V := fold_right vadd vzero l.
Lemma vsum_app (l1 l2 : list V) : vsum (l1 ++ l2) = vadd (vsum l1) (vsum l2).
Proof. induction l1 as [|a l1 IH]; cbn [app vsum fold_right]; [symmetry; apply vadd_zero_l|]. fold (vsum (l1 ++ l2)). fold (vsum l1). rewrite IH. symmetry. apply vadd_assoc. Qed.
Theorem vsum_rot (l1 l2 : list V) : vsum (l1 ++ l2) = vsum (l2 ++ l1).
Proof. rewrite !vsum_app. apply vadd_comm. Qed.
Theorem vsum_rev (l : list V) : vsum (rev l) = vsum l.
Proof. induction l as [|a l IH]; [reflexivity|]. cbn [rev]. rewrite vsum_app. rewrite IH. cbn [vsum fold_right]. fold (vsum l). rewrite vadd_zero_r. apply vadd_comm. Qed.

(** ** maps that respect sums and cross products (rotations) carry the Newell vector along *)
Lemma xchain_map (f : V -> V) :
  (forall a b, f (vadd a b) = vadd (f a) (f b)) -> f vzero = vzero -> (forall a b, f (vcross a b) = vcross (f a) (f b)) ->
  forall l, xchain (map f l) = f (xchain l).
Proof.
  intros Hadd Hz Hx l. induction l as [|a l IH]; [symmetry; exact Hz|].
  destruct l as [|b l]; [symmetry; exact Hz|].
  cbn [map] in *. unfold xchain in *. rewrite !chain_cons2. rewrite IH, Hadd, Hx. reflexivity.
Qed.
Theorem newell_map (f : V -> V) :
  (forall a b, f (vadd a b) = vadd (f a) (f b)) -> f vzero = vzero -> (forall a b, f (vcross a b) = vcross (f a) (f b)) ->
  forall l, newell (map f l) = f (newell l).
Proof.
  intros Hadd Hz Hx l. destruct l as [|v l]; [symmetry; exact Hz|].
  unfold newell, cyc. fold xchain. cbn [map].
  replace ((f v :: map f l) ++ [f v]) with (map f ((v :: l) ++ [v])) by (rewrite map_app; reflexivity).
  apply xchain_map; assumption.
Qed.
(** a rigid motion  p |-> f p + t  with such an f: S is rotated, not otherwise changed *)
Theorem newell_rigid (f : V -> V) (t : V) :
  (forall a b, f (vadd a b) = vadd (f a) (f b)) -> f vzero = vzero -> (forall a b, f (vcross a b) = vcross (f a) (f b)) ->
  forall l, newell (map (fun p => vadd t (f p)) l) = f (newell l).
Proof.
  intros Hadd Hz Hx l. rewrite <- (newell_map f Hadd Hz Hx). rewrite <- (newell_translate t (map f l)). rewrite map_map. reflexivity.
Qed.
(** example of such a map: the quarter turn about the z axis *)
Definition quarter_turn_z (p : V) : V := mkV3 (- vy p) (vx p) (vz p).
Lemma quarter_turn_z_ok :
  (forall a b, quarter_turn_z (vadd a b) = vadd (quarter_turn_z a) (quarter_turn_z b)) /\ quarter_turn_z vzero = vzero /\
  (forall a b, quarter_turn_z (vcross a b) = vcross (quarter_turn_z a) (quarter_turn_z b)) /\
  (forall a b, vdot (quarter_turn_z a) (quarter_turn_z b) = vdot a b).
Proof.
  unfold quarter_turn_z. repeat split; intros; try (apply v3_eq; vunf; rnum; ring). vunf; rnum; ring.
Qed.

(** ** closed outlines as edge lists; counting edges with a property *)
Section Edges.
  Context {A : Type}.
  Fixpoint edges_from (vs : list A) (first : A) : list (A * A) :=
    match vs with
    | [] => []
    | a :: tl => (a, match tl with [] => first | w :: _ => w end) :: edges_from tl first
    end.
  Definition countb (f : A -> A -> bool) (es : list (A * A)) : nat := length (filter (fun e => f (fst e) (snd e)) es).
  (** parity of that count, as an exclusive or *)
  Definition xpar (f : A -> A -> bool) (es : list (A * A)) : bool := fold_right (fun e acc => xorb (f (fst e) (snd e)) acc) false es.
  Lemma odd_countb (f : A -> A -> bool) (es : list (A * A)) : Nat.odd (countb f es) = xpar f es.
  Proof.
    induction es as [|e es IH]; [reflexivity|]. unfold countb in *. cbn [filter xpar fold_right]. fold (xpar f es).
    destruct (f (fst e) (snd e)); cbn [length]; [rewrite Nat.odd_succ, <- Nat.negb_odd, IH; reflexivity | rewrite IH; destruct (xpar f es); reflexivity].
  Qed.
  Lemma countb_ext (f g : A -> A -> bool) (es : list (A * A)) :
    (forall a b, In (a, b) es -> f a b = g a b) -> countb f es = countb g es.
  Proof.
    induction es as [|[a b] es IH]; intros H; [reflexivity|]. unfold countb in *. cbn [filter fst snd].
    rewrite (H a b (or_introl eq_refl)). destruct (g a b); cbn [length]; [f_equal|]; apply IH; intros; apply H; right; assumption.
  Qed.
  Lemma xpar_ext (f g : A -> A -> bool) (es : list (A * A)) :
    (forall a b, In (a, b) es -> f a b = g a b) -> xpar f es = xpar g es.
  Proof.
    induction es as [|[a b] es IH]; intros H; [reflexivity|]. cbn [xpar fold_right fst snd].
    rewrite (H a b (or_introl eq_refl)). f_equal. apply IH. intros; apply H; right; assumption.
  Qed.
  Lemma in_edges_from (vs : list A) (first a b : A) : In (a, b) (edges_from vs first) -> In a vs /\ (In b vs \/ b = first).
  Proof.
    induction vs as [|v tl IH]; [intros []|]. cbn [edges_from]. intros [E|H].
    - injection E as E1 E2. subst a. split; [left; reflexivity|]. destruct tl as [|w tl]; [right; symmetry; exact E2 | left; right; left; exact E2].
    - destruct (IH H) as [I1 I2]. split; [right; exact I1|]. destruct I2 as [I2|I2]; [left; right; exact I2 | right; exact I2].
  Qed.
End Edges.
Lemma edges_from_map {A B : Type} (g : A -> B) (vs : list A) (first : A) :
  edges_from (map g vs) (g first) = map (fun e => (g (fst e), g (snd e))) (edges_from vs first).
Proof.
  induction vs as [|a tl IH]; [reflexivity|]. cbn [map edges_from fst snd]. rewrite IH. f_equal. destruct tl; reflexivity.
Qed.
Lemma xpar_map {A B : Type} (g : A -> B) (f : B -> B -> bool) (es : list (A * A)) :
  xpar f (map (fun e => (g (fst e), g (snd e))) es) = xpar (fun a b => f (g a) (g b)) es.
Proof. induction es as [|e es IH]; [reflexivity|]. unfold xpar in *. cbn [map fold_right fst snd]. rewrite IH. reflexivity. Qed.

(** ** planar crossing parity (device D2, parity form) *)
Definition P2 := (R * R)%type.
Definition det2 (u v : P2) : R := (fst u * snd v - snd u * fst v)%R.
Definition sub2 (a b : P2) : P2 := ((fst a - fst b)%R, (snd a - snd b)%R).
(** side of p w.r.t. the line through q with direction d; side of p w.r.t. the line through a and b *)
Definition hgt2 (q d p : P2) : R := det2 d (sub2 p q).
Definition orient2 (a b p : P2) : R := det2 (sub2 b a) (sub2 p a).
(** the RAY from q in direction d properly crosses the edge (a,b) *)
Definition ray_cross2 (q d a b : P2) : bool :=
  Rltb (hgt2 q d a * hgt2 q d b) 0 && Rleb (orient2 a b q * det2 (sub2 b a) d) 0.
(** q strictly inside the triangle (o,a,b), either orientation *)
Definition in_tri2 (q o a b : P2) : bool :=
  (Rltb 0 (orient2 o a q) && Rltb 0 (orient2 a b q) && Rltb 0 (orient2 b o q)) ||
  (Rltb (orient2 o a q) 0 && Rltb (orient2 a b q) 0 && Rltb (orient2 b o q) 0).

Lemma ray_cross2_sym (q d a b : P2) : ray_cross2 q d a b = ray_cross2 q d b a.
Proof.
  unfold ray_cross2. rewrite (Rmult_comm (hgt2 q d a)). f_equal.
  replace (orient2 b a q * det2 (sub2 a b) d)%R with (orient2 a b q * det2 (sub2 b a) d)%R; [reflexivity|].
  destruct q as [q1 q2], d as [d1 d2], a as [a1 a2], b as [b1 b2]. unfold orient2, det2, sub2. cbn [fst snd]. ring.
Qed.

(** sign bits *)
Definition sgb (x : R) : bool := Rltb 0 x.
Lemma sgb_neg (x : R) : x <> 0 -> Rltb x 0 = negb (sgb x).
Proof. intros H. unfold sgb. destruct (Rltb 0 x) eqn:E; [apply Rltb_true in E; apply Rltb_false; lra | apply Rltb_false in E; apply Rltb_true; lra]. Qed.
Lemma cross_bits (x y A : R) : x <> 0 -> y <> 0 -> A <> 0 ->
  Rltb (x * y) 0 && Rleb (A * (x - y)) 0 = xorb (sgb x) (sgb y) && xorb (sgb A) (sgb x).
Proof.
  intros Hx Hy HA. unfold sgb.
  destruct (Rltb 0 x) eqn:Ex; [apply Rltb_true in Ex | apply Rltb_false in Ex];
  (destruct (Rltb 0 y) eqn:Ey; [apply Rltb_true in Ey | apply Rltb_false in Ey]);
  (destruct (Rltb 0 A) eqn:Ea; [apply Rltb_true in Ea | apply Rltb_false in Ea]); cbn [xorb andb].
  all: try (replace (Rltb (x * y) 0) with false by (symmetry; apply Rltb_false; nra); reflexivity).
  all: replace (Rltb (x * y) 0) with true by (symmetry; apply Rltb_true; nra); cbn [andb].
  all: first [apply Rleb_true; nra | apply Rleb_false; nra].
Qed.
Lemma sign_feasible (x1 y1 x2 y2 x3 y3 : R) :
  x1 <> 0 -> y1 <> 0 -> x2 <> 0 -> y2 <> 0 -> x3 <> 0 -> y3 <> 0 -> (x1 * y1 + x2 * y2 + x3 * y3 = 0)%R ->
  ~ (xorb (sgb x1) (sgb y1) = xorb (sgb x2) (sgb y2) /\ xorb (sgb x2) (sgb y2) = xorb (sgb x3) (sgb y3)).
Proof.
  intros H1 H1' H2 H2' H3 H3' E [E1 E2].
  assert (P : forall x y, x <> 0 -> y <> 0 -> (xorb (sgb x) (sgb y) = false -> 0 < x * y) /\ (xorb (sgb x) (sgb y) = true -> x * y < 0)).
  { intros x y Hx Hy. unfold sgb.
    destruct (Rltb 0 x) eqn:Ex; [apply Rltb_true in Ex | apply Rltb_false in Ex];
    (destruct (Rltb 0 y) eqn:Ey; [apply Rltb_true in Ey | apply Rltb_false in Ey]); cbn [xorb]; split; intros K; try discriminate; nra. }
  destruct (P x1 y1 H1 H1') as [Pa Pb]. destruct (P x2 y2 H2 H2') as [Qa Qb]. destruct (P x3 y3 H3 H3') as [Ra Rb].
  destruct (xorb (sgb x1) (sgb y1)); rewrite <- E1 in E2; rewrite <- E1 in *; rewrite <- E2 in *.
  - pose proof (Pb eq_refl). pose proof (Qb eq_refl). pose proof (Rb eq_refl). lra.
  - pose proof (Pa eq_refl). pose proof (Qa eq_refl). pose proof (Ra eq_refl). lra.
Qed.

(** the triangle lemma: for a ray whose line avoids the three vertices and a point q on none of the three edge lines,
    the ray crosses the boundary of the triangle an odd number of times iff q is strictly inside *)
Theorem tri_parity (q d o a b : P2) :
  hgt2 q d o <> 0 -> hgt2 q d a <> 0 -> hgt2 q d b <> 0 ->
  orient2 o a q <> 0 -> orient2 a b q <> 0 -> orient2 b o q <> 0 ->
  xorb (xorb (ray_cross2 q d o a) (ray_cross2 q d a b)) (ray_cross2 q d b o) = in_tri2 q o a b.
Proof.
  intros Ho Ha Hb A1 A2 A3. unfold ray_cross2, in_tri2.
  set (ho := hgt2 q d o) in *. set (ha := hgt2 q d a) in *. set (hb := hgt2 q d b) in *.
  set (a1 := orient2 o a q) in *. set (a2 := orient2 a b q) in *. set (a3 := orient2 b o q) in *.
  assert (D1 : det2 (sub2 a o) d = (ho - ha)%R) by (unfold ho, ha, hgt2, det2, sub2; destruct q, d, o, a; cbn [fst snd]; ring).
  assert (D2 : det2 (sub2 b a) d = (ha - hb)%R) by (unfold ha, hb, hgt2, det2, sub2; destruct q, d, a, b; cbn [fst snd]; ring).
  assert (D3 : det2 (sub2 o b) d = (hb - ho)%R) by (unfold ho, hb, hgt2, det2, sub2; destruct q, d, o, b; cbn [fst snd]; ring).
  assert (PL : (ho * a2 + ha * a3 + hb * a1 = 0)%R).
  { unfold ho, ha, hb, a1, a2, a3, hgt2, orient2, det2, sub2. destruct q, d, o, a, b. cbn [fst snd]. ring. }
  rewrite D1, D2, D3. rewrite (cross_bits ho ha a1), (cross_bits ha hb a2), (cross_bits hb ho a3) by assumption.
  rewrite !sgb_neg by assumption. fold (sgb a1) (sgb a2) (sgb a3).
  pose proof (sign_feasible ho a2 ha a3 hb a1 Ho A2 Ha A3 Hb A1 PL) as F.
  revert F. generalize (sgb ho) (sgb ha) (sgb hb) (sgb a1) (sgb a2) (sgb a3). intros [] [] [] [] [] []; cbn; intros F; try reflexivity; exfalso; apply F; split; reflexivity.
Qed.

(** fan decomposition: summing the triangle boundaries over all edges of a closed outline leaves the outline itself
    (every spoke from the apex o is used twice) *)
Definition tri_cross (q d o a b : P2) : bool := xorb (xorb (ray_cross2 q d o a) (ray_cross2 q d a b)) (ray_cross2 q d b o).
Lemma fan_chain (q d o : P2) (vs : list P2) (first : P2) :
  vs <> [] ->
  xpar (tri_cross q d o) (edges_from vs first) =
  xorb (xpar (ray_cross2 q d) (edges_from vs first)) (xorb (ray_cross2 q d o (hd first vs)) (ray_cross2 q d o first)).
Proof.
  induction vs as [|a tl IH]; [congruence|]. intros _. destruct tl as [|w tl].
  - cbn [edges_from xpar fold_right fst snd hd]. unfold tri_cross. rewrite (ray_cross2_sym q d first o).
    destruct (ray_cross2 q d o a), (ray_cross2 q d a first), (ray_cross2 q d o first); reflexivity.
  - change (edges_from (a :: w :: tl) first) with ((a, w) :: edges_from (w :: tl) first).
    cbn [xpar fold_right fst snd hd]. fold (xpar (tri_cross q d o) (edges_from (w :: tl) first)). fold (xpar (ray_cross2 q d) (edges_from (w :: tl) first)).
    rewrite IH by discriminate. cbn [hd]. unfold tri_cross. rewrite (ray_cross2_sym q d w o).
    destruct (ray_cross2 q d o a), (ray_cross2 q d a w), (ray_cross2 q d o w), (ray_cross2 q d o first), (xpar (ray_cross2 q d) (edges_from (w :: tl) first)); reflexivity.
Qed.
Definition cyc_edges2 (vs : list P2) : list (P2 * P2) := edges_from vs (hd (0, 0) vs).
Lemma fan_cycle (q d o : P2) (vs : list P2) :
  xpar (tri_cross q d o) (cyc_edges2 vs) = xpar (ray_cross2 q d) (cyc_edges2 vs).
Proof.
  destruct vs as [|v tl]; [reflexivity|]. unfold cyc_edges2. rewrite fan_chain by discriminate. cbn [hd].
  destruct (ray_cross2 q d o v), (xpar (ray_cross2 q d) (edges_from (v :: tl) v)); reflexivity.
Qed.

(** the crossing parity of a ray equals the parity of the number of fan triangles (any apex o in general position)
    that contain q -- a quantity in which the direction d does not occur *)
Theorem ray_parity_fan (q d o : P2) (vs : list P2) :
  hgt2 q d o <> 0 ->
  (forall v, In v vs -> hgt2 q d v <> 0 /\ orient2 o v q <> 0) ->
  (forall a b, In (a, b) (cyc_edges2 vs) -> orient2 a b q <> 0) ->
  xpar (ray_cross2 q d) (cyc_edges2 vs) = xpar (in_tri2 q o) (cyc_edges2 vs).
Proof.
  intros Ho Hv He. rewrite <- fan_cycle with (o := o). apply xpar_ext. intros a b Hin.
  assert (Iab : In a vs /\ In b vs).
  { unfold cyc_edges2 in Hin. destruct (in_edges_from _ _ _ _ Hin) as [I1 I2]. split; [exact I1|].
    destruct I2 as [I2|I2]; [exact I2|]. subst b. destruct vs as [|v tl]; [destruct I1 | left; reflexivity]. }
  destruct Iab as [Ia Ib]. destruct (Hv a Ia) as [Ha Oa]. destruct (Hv b Ib) as [Hb Ob].
  apply tri_parity; try assumption; [apply He; exact Hin|].
  intros E. apply Ob. replace (orient2 o b q) with (- orient2 b o q)%R by (unfold orient2, det2, sub2; destruct q, o, b; cbn [fst snd]; ring). rewrite E. ring.
Qed.
Corollary ray_parity_direction_independent (q d d' o : P2) (vs : list P2) :
  hgt2 q d o <> 0 -> hgt2 q d' o <> 0 ->
  (forall v, In v vs -> hgt2 q d v <> 0 /\ hgt2 q d' v <> 0 /\ orient2 o v q <> 0) ->
  (forall a b, In (a, b) (cyc_edges2 vs) -> orient2 a b q <> 0) ->
  xpar (ray_cross2 q d) (cyc_edges2 vs) = xpar (ray_cross2 q d') (cyc_edges2 vs).
Proof.
  intros Ho Ho' Hv He. rewrite (ray_parity_fan q d o), (ray_parity_fan q d' o); try assumption; [reflexivity| |];
    intros v Iv; destruct (Hv v Iv) as [H1 [H2 H3]]; split; assumption.
Qed.
