(* Theory/Cyclic.v — list combinatorics of closed (cyclic) vertex lists and of sums of an
   edge functional over them.  Depends on the Coq standard library only.

   A closed polygonal chain is a [list A]; its directed edges are the consecutive pairs,
   including the closing edge last -> first ([edges_closed]).  For an edge functional
   [f : A -> A -> G] with values in (the additive group of) a commutative ring [G] we study
        csum f L  :=  Σ_{(a,b) ∈ edges_closed L} f a b .
   The ring structure is only used through its additive group (so that the tactic [ring]
   does the algebra); it is instantiated with Z (winding numbers), R (signed area) and
   R^3 with the componentwise product (Newell vector).

   Under  f a b = − f b a  and  f a a = 0  ("antisymmetric edge functional") we get:
   invariance under cyclic shift, negation under reversal, the ear identity
        csum (v0::v1::v2::rest) = csum (v0::v2::rest) + tri v0 v1 v2,
   removal of the vertex at any cyclic position, the fan decomposition, the sum along any
   ear decomposition ([ear_decomp]), and additivity under merging two cycles by a bridge
   walked once each way. *)
From Coq Require Import List Arith Lia Ring.
Import ListNotations.
Set Implicit Arguments.

(* ------------------------------------------------------------------------------------ *)
(** * Edges of open and closed vertex lists, cyclic indexing, ear decompositions          *)
Section Edges.
  Variable A : Type.

  (* [edges_to z [a1;...;an]] = [(a1,a2);...;(a(n-1),an);(an,z)]: the path a1..an then on to z. *)
  Fixpoint edges_to (z : A) (L : list A) : list (A * A) :=
    match L with
    | [] => []
    | a :: t => (a, hd z t) :: edges_to z t
    end.

  (* directed edges of the closed chain L, including last -> first.  A one-vertex list has
     the single (degenerate) edge (a,a); the empty list has none. *)
  Definition edges_closed (L : list A) : list (A * A) :=
    match L with
    | [] => []
    | a :: _ => edges_to a L
    end.

  (* consecutive pairs of an open list: [(a1,a2);...;(a(n-1),an)] *)
  Fixpoint edges_open (L : list A) : list (A * A) :=
    match L with
    | [] => []
    | a :: t => match t with [] => [] | b :: _ => (a, b) :: edges_open t end
    end.

  (* cyclic shift by one to the left *)
  Definition rotl (L : list A) : list A :=
    match L with [] => [] | a :: t => t ++ [a] end.

  (* L without its element at position i *)
  Definition remove_at (i : nat) (L : list A) : list A := firstn i L ++ skipn (S i) L.

  (* cyclic indexing (indices modulo the length), as in  v[(i + n - 1) % n], v[(i + 1) % n] *)
  Definition cnth (dflt : A) (L : list A) (k : nat) : A := nth (k mod length L) L dflt.
  Definition cprev (dflt : A) (L : list A) (i : nat) : A := cnth dflt L (i + length L - 1).
  Definition cnext (dflt : A) (L : list A) (i : nat) : A := cnth dflt L (i + 1).

  Lemma edges_to_app : forall (z : A) (l1 l2 : list A),
      edges_to z (l1 ++ l2) = edges_to (hd z l2) l1 ++ edges_to z l2.
  Proof.
    intros z l1 l2; induction l1 as [|a t IH]; simpl; [reflexivity|].
    rewrite IH. f_equal. destruct t; simpl; reflexivity.
  Qed.

  Lemma edges_to_length : forall (z : A) (L : list A), length (edges_to z L) = length L.
  Proof. intros z L; induction L; simpl; congruence. Qed.

  Lemma edges_closed_length : forall L : list A, length (edges_closed L) = length L.
  Proof. intros [|a t]; [reflexivity|]. unfold edges_closed. apply edges_to_length. Qed.

  Lemma edges_open_cons2 : forall (a b : A) (t : list A),
      edges_open (a :: b :: t) = (a, b) :: edges_open (b :: t).
  Proof. reflexivity. Qed.

  (* the closed chain is the open chain plus a closing edge *)
  Lemma edges_to_open : forall (z : A) (L : list A), edges_to z L = edges_open (L ++ [z]).
  Proof.
    intros z L; induction L as [|a t IH]; [reflexivity|].
    simpl edges_to. rewrite IH. destruct t; reflexivity.
  Qed.

  (* endpoints of edges are vertices *)
  Lemma edges_to_In : forall (z : A) (L : list A) (a b : A),
      In (a, b) (edges_to z L) -> In a L /\ (In b L \/ b = z).
  Proof.
    intros z L; induction L as [|x t IH]; simpl; intros a b H; [contradiction|].
    destruct H as [H|H].
    - inversion H; subst. split; [now left|]. destruct t; simpl; [now right| left; right; now left].
    - destruct (IH _ _ H) as [H1 H2]. split; [now right|]. destruct H2; [left; now right| now right].
  Qed.

  Lemma edges_closed_In : forall (L : list A) (a b : A),
      In (a, b) (edges_closed L) -> In a L /\ In b L.
  Proof.
    intros [|x t] a b H; [contradiction|].
    unfold edges_closed in H. destruct (edges_to_In _ _ _ _ H) as [H1 [H2|H2]]; split; auto.
    subst; now left.
  Qed.

  Lemma edges_open_In : forall (L : list A) (a b : A),
      In (a, b) (edges_open L) -> In a L /\ In b L.
  Proof.
    induction L as [|x t IH]; intros a b H; [contradiction|].
    destruct t as [|y t']; [contradiction|].
    rewrite edges_open_cons2 in H. destruct H as [H|H].
    - inversion H; subst. split; [now left| right; now left].
    - destruct (IH _ _ H). split; now right.
  Qed.

  (* every vertex starts an edge of the closed chain *)
  Lemma edges_to_In_src : forall (z : A) (L : list A) (a : A),
      In a L -> exists b, In (a, b) (edges_to z L).
  Proof.
    intros z L; induction L as [|x t IH]; simpl; intros a H; [contradiction|].
    destruct H as [H|H]; [subst; eexists; left; reflexivity|].
    destruct (IH _ H) as [b Hb]. exists b; now right.
  Qed.

  Lemma edges_closed_In_src : forall (L : list A) (a : A),
      In a L -> exists b, In (a, b) (edges_closed L).
  Proof. intros [|x t] a H; [contradiction|]. apply edges_to_In_src; exact H. Qed.

  (** ** splitting a list at an index; cyclic neighbours *)

  Lemma split_at : forall (dflt : A) (L : list A) (i : nat), i < length L ->
      L = firstn i L ++ nth i L dflt :: skipn (S i) L.
  Proof.
    intros dflt L; induction L as [|a t IH]; simpl; intros i H; [lia|].
    destruct i; simpl; [reflexivity|]. f_equal. apply IH. lia.
  Qed.

  Lemma nth_middle' : forall (dflt : A) (pre post : list A) (v : A),
      nth (length pre) (pre ++ v :: post) dflt = v.
  Proof. intros; rewrite app_nth2 by lia. rewrite Nat.sub_diag; reflexivity. Qed.

  Lemma remove_at_middle : forall (pre post : list A) (v : A),
      remove_at (length pre) (pre ++ v :: post) = pre ++ post.
  Proof.
    intros; unfold remove_at. rewrite firstn_app, Nat.sub_diag, firstn_all. simpl.
    rewrite app_nil_r. f_equal.
    induction pre; simpl; auto.
  Qed.

  Lemma remove_at_length : forall (L : list A) (i : nat), i < length L ->
      length (remove_at i L) = length L - 1.
  Proof.
    intros L i H. unfold remove_at. rewrite app_length, firstn_length, skipn_length. lia.
  Qed.

  Lemma last_cons_default : forall (t : list A) (a d : A), last (a :: t) d = last t a.
  Proof.
    induction t as [|b t' IH]; intros a d; [reflexivity|].
    change (last (a :: b :: t') d) with (last (b :: t') d). rewrite !IH. reflexivity.
  Qed.

  Lemma nth_length_cons : forall (dflt : A) (post : list A) (v : A),
      nth (length post) (v :: post) dflt = last post v.
  Proof.
    intros dflt post; induction post as [|a t IH]; intros v; [reflexivity|].
    change (nth (length (a :: t)) (v :: a :: t) dflt) with (nth (length t) (a :: t) dflt).
    rewrite IH. symmetry. apply last_cons_default.
  Qed.

  (* the cyclic predecessor of the element at the split point *)
  Lemma cprev_middle : forall (dflt : A) (pre post : list A) (v : A),
      cprev dflt (pre ++ v :: post) (length pre) = last (post ++ pre) v.
  Proof.
    intros dflt pre post v. unfold cprev, cnth.
    destruct pre as [|x pre0].
    - rewrite app_nil_r. cbn [app length].
      replace (0 + S (length post) - 1) with (length post) by lia.
      rewrite Nat.mod_small by lia. apply nth_length_cons.
    - destruct (@exists_last _ (x :: pre0)) as [pre' [p Hp]]; [discriminate|].
      rewrite Hp; clear Hp x pre0.
      rewrite app_assoc, last_last.
      rewrite !app_length. simpl length.
      replace (length pre' + 1 + (length pre' + 1 + S (length post)) - 1)
        with (length pre' + 1 * (length pre' + 1 + S (length post))) by lia.
      rewrite Nat.mod_add by lia. rewrite Nat.mod_small by lia.
      rewrite <- app_assoc. simpl. apply nth_middle'.
  Qed.

  (* the cyclic successor of the element at the split point *)
  Lemma cnext_middle : forall (dflt : A) (pre post : list A) (v : A),
      cnext dflt (pre ++ v :: post) (length pre) = hd v (post ++ pre).
  Proof.
    intros dflt pre post v. unfold cnext, cnth.
    assert (HL : length (pre ++ v :: post) = length pre + S (length post))
      by (rewrite app_length; reflexivity).
    rewrite HL.
    destruct post as [|n post'].
    - simpl length. replace (length pre + 1) with (length pre + 1) by lia.
      replace (length pre + 1) with (1 * (length pre + 1)) at 1 by lia.
      rewrite Nat.mod_mul by lia.
      destruct pre; reflexivity.
    - rewrite Nat.mod_small by (simpl; lia).
      replace (pre ++ v :: n :: post') with ((pre ++ [v]) ++ n :: post')
        by (rewrite <- app_assoc; reflexivity).
      replace (length pre + 1) with (length (pre ++ [v])) by (rewrite app_length; reflexivity).
      rewrite nth_middle'. reflexivity.
  Qed.

  (** ** ear decompositions *)

  (* [ear_decomp L Ts]: Ts is the list of triangles (prev, v, next) cut off by successively
     removing one vertex v of the closed chain (prev/next are its *cyclic* neighbours at the
     time of removal) until a single triangle is left.  The vertex removed is the one at the
     split point of  pre ++ v :: post;  its cyclic neighbours are  last (post ++ pre) v  and
     hd v (post ++ pre). *)
  Inductive ear_decomp : list A -> list (A * A * A) -> Prop :=
  | ed_tri : forall a b c : A, ear_decomp [a; b; c] [(a, b, c)]
  | ed_step : forall (pre post : list A) (v : A) (Ts : list (A * A * A)),
      ear_decomp (pre ++ post) Ts ->
      ear_decomp (pre ++ v :: post) ((last (post ++ pre) v, v, hd v (post ++ pre)) :: Ts).

  (* the same step, by index: remove the vertex at position i; neighbours by cyclic indexing *)
  Lemma ear_decomp_idx : forall (dflt : A) (L : list A) (i : nat) (Ts : list (A * A * A)),
      i < length L ->
      ear_decomp (remove_at i L) Ts ->
      ear_decomp L ((cprev dflt L i, nth i L dflt, cnext dflt L i) :: Ts).
  Proof.
    intros dflt L i Ts Hi H.
    pose proof (split_at dflt L Hi) as HL.
    set (pre := firstn i L) in *. set (post := skipn (S i) L) in *. set (v := nth i L dflt) in *.
    assert (Hlen : length pre = i) by (unfold pre; rewrite firstn_length; lia).
    unfold remove_at in H. fold pre in H. fold post in H.
    rewrite HL. rewrite <- Hlen.
    rewrite cprev_middle, cnext_middle.
    apply ed_step; exact H.
  Qed.

  (* specialisations: vertex in the middle / first / last *)
  Lemma ed_mid : forall (pre post : list A) (p v n : A) (Ts : list (A * A * A)),
      ear_decomp (pre ++ p :: n :: post) Ts ->
      ear_decomp (pre ++ p :: v :: n :: post) ((p, v, n) :: Ts).
  Proof.
    intros pre post p v n Ts H.
    replace (pre ++ p :: n :: post) with ((pre ++ [p]) ++ n :: post) in H
      by (rewrite <- app_assoc; reflexivity).
    pose proof (ed_step (pre ++ [p]) (n :: post) v H) as H'.
    rewrite (app_assoc (n :: post) pre [p]) in H'. rewrite last_last in H'.
    rewrite <- (app_assoc pre [p]) in H'. exact H'.
  Qed.

  Lemma ed_first : forall (mid : list A) (p v n : A) (Ts : list (A * A * A)),
      ear_decomp (n :: mid ++ [p]) Ts ->
      ear_decomp (v :: n :: mid ++ [p]) ((p, v, n) :: Ts).
  Proof.
    intros mid p v n Ts H.
    pose proof (ed_step [] (n :: mid ++ [p]) v H) as H'.
    rewrite app_nil_r in H'.
    change (n :: mid ++ [p]) with ((n :: mid) ++ [p]) in H' at 2.
    rewrite last_last in H'. exact H'.
  Qed.

  Lemma ed_last : forall (mid : list A) (p v n : A) (Ts : list (A * A * A)),
      ear_decomp (n :: mid ++ [p]) Ts ->
      ear_decomp (n :: mid ++ [p; v]) ((p, v, n) :: Ts).
  Proof.
    intros mid p v n Ts H.
    replace (n :: mid ++ [p]) with ((n :: mid ++ [p]) ++ []) in H by apply app_nil_r.
    pose proof (ed_step (n :: mid ++ [p]) [] v H) as H'.
    change ([] ++ n :: mid ++ [p]) with ((n :: mid) ++ [p]) in H'.
    rewrite last_last in H'.
    replace (n :: mid ++ [p; v]) with ((n :: mid ++ [p]) ++ [v])
      by (simpl; rewrite <- app_assoc; reflexivity).
    exact H'.
  Qed.

  Lemma ear_decomp_length : forall (L : list A) (Ts : list (A * A * A)),
      ear_decomp L Ts -> length L = length Ts + 2.
  Proof.
    intros L Ts H; induction H; [reflexivity|].
    rewrite app_length in *. simpl. lia.
  Qed.

  Lemma last_In : forall (l : list A) (d : A), In (last l d) (d :: l).
  Proof.
    induction l as [|a t IH]; intros d; [now left|].
    rewrite last_cons_default. right. apply IH.
  Qed.

  Lemma hd_In : forall (l : list A) (d : A), In (hd d l) (d :: l).
  Proof. intros [|a t] d; simpl; auto. Qed.

  (* the corners of all ears are vertices of the chain *)
  Lemma ear_decomp_In : forall (L : list A) (Ts : list (A * A * A)),
      ear_decomp L Ts ->
      forall a b c : A, In (a, b, c) Ts -> In a L /\ In b L /\ In c L.
  Proof.
    intros L Ts H; induction H; intros a' b' c' Hin.
    - destruct Hin as [Hin|[]]. inversion Hin; subst. simpl; intuition.
    - assert (Hsub : forall x, In x (v :: post ++ pre) -> In x (pre ++ v :: post)).
      { intros x [Hx|Hx]; [subst; apply in_elt|].
        apply in_app_or in Hx. apply in_or_app. destruct Hx; [right; now right| now left]. }
      destruct Hin as [Hin|Hin].
      + inversion Hin; subst. repeat split.
        * apply Hsub, last_In.
        * apply in_elt.
        * apply Hsub, hd_In.
      + destruct (IHear_decomp _ _ _ Hin) as [Ha [Hb Hc]].
        assert (Hs2 : forall x, In x (pre ++ post) -> In x (pre ++ v :: post)).
        { intros x Hx. apply in_app_or in Hx. apply in_or_app.
          destruct Hx; [now left| right; now right]. }
        auto.
  Qed.

End Edges.

(* ------------------------------------------------------------------------------------ *)
(** * Sums of an edge functional over open / closed chains                                *)
Section Sums.
  Variables (A G : Type).
  Variables (rO : G) (radd : G -> G -> G).

  (* Σ_{(a,b) ∈ E} f a b *)
  Definition esum (f : A -> A -> G) (E : list (A * A)) : G :=
    fold_right (fun e acc => radd (f (fst e) (snd e)) acc) rO E.

  (* Σ over the edges of the closed chain L *)
  Definition csum (f : A -> A -> G) (L : list A) : G := esum f (edges_closed L).

  (* the closed-chain sum of the triangle a -> b -> c -> a *)
  Definition tri (f : A -> A -> G) (a b c : A) : G := csum f [a; b; c].

  (* Σ_{(a,b,c) ∈ Ts} g a b c *)
  Definition tsum (g : A -> A -> A -> G) (Ts : list (A * A * A)) : G :=
    fold_right (fun t acc => radd (g (fst (fst t)) (snd (fst t)) (snd t)) acc) rO Ts.

  Lemma esum_nil : forall f : A -> A -> G, esum f [] = rO.
  Proof. reflexivity. Qed.
  Lemma esum_cons : forall (f : A -> A -> G) (a b : A) (E : list (A * A)),
      esum f ((a, b) :: E) = radd (f a b) (esum f E).
  Proof. reflexivity. Qed.
  Lemma tsum_nil : forall g : A -> A -> A -> G, tsum g [] = rO.
  Proof. reflexivity. Qed.
  Lemma tsum_cons : forall (g : A -> A -> A -> G) (a b c : A) (Ts : list (A * A * A)),
      tsum g ((a, b, c) :: Ts) = radd (g a b c) (tsum g Ts).
  Proof. reflexivity. Qed.
  Lemma tri_unfold : forall (f : A -> A -> G) (a b c : A),
      tri f a b c = radd (f a b) (radd (f b c) (radd (f c a) rO)).
  Proof. reflexivity. Qed.

  Lemma esum_ext_in : forall (f g : A -> A -> G) (E : list (A * A)),
      (forall a b, In (a, b) E -> f a b = g a b) -> esum f E = esum g E.
  Proof.
    intros f g E; induction E as [|[a b] E IH]; intros H; [reflexivity|].
    rewrite !esum_cons. rewrite IH, (H a b); [reflexivity|now left|].
    intros; apply H; now right.
  Qed.

  Lemma csum_ext_in : forall (f g : A -> A -> G) (L : list A),
      (forall a b, In a L -> In b L -> f a b = g a b) -> csum f L = csum g L.
  Proof.
    intros f g L H. apply esum_ext_in. intros a b Hab.
    destruct (edges_closed_In _ _ _ Hab). auto.
  Qed.

  Lemma csum_ext : forall (f g : A -> A -> G) (L : list A),
      (forall a b, f a b = g a b) -> csum f L = csum g L.
  Proof. intros; apply csum_ext_in; auto. Qed.

  Lemma tsum_ext_in : forall (g1 g2 : A -> A -> A -> G) (Ts : list (A * A * A)),
      (forall a b c, In (a, b, c) Ts -> g1 a b c = g2 a b c) -> tsum g1 Ts = tsum g2 Ts.
  Proof.
    intros g1 g2 Ts; induction Ts as [|[[a b] c] Ts IH]; intros H; [reflexivity|].
    rewrite !tsum_cons. rewrite IH, (H a b c); [reflexivity|now left|].
    intros; apply H; now right.
  Qed.
End Sums.

(* homomorphic images of sums (e.g. Z -> R by IZR, R -> R^3 by scaling a fixed vector) *)
Section SumsHom.
  Variables (A G1 G2 : Type).
  Variables (z1 : G1) (add1 : G1 -> G1 -> G1) (z2 : G2) (add2 : G2 -> G2 -> G2).
  Variable h : G1 -> G2.
  Hypothesis h_zero : h z1 = z2.
  Hypothesis h_add : forall x y, h (add1 x y) = add2 (h x) (h y).

  Lemma esum_hom : forall (f : A -> A -> G1) (E : list (A * A)),
      esum z2 add2 (fun a b => h (f a b)) E = h (esum z1 add1 f E).
  Proof.
    intros f E; induction E as [|[a b] E IH]; [symmetry; exact h_zero|].
    rewrite !esum_cons, h_add, IH. reflexivity.
  Qed.

  Lemma csum_hom : forall (f : A -> A -> G1) (L : list A),
      csum z2 add2 (fun a b => h (f a b)) L = h (csum z1 add1 f L).
  Proof. intros; apply esum_hom. Qed.

  Lemma tsum_hom : forall (g : A -> A -> A -> G1) (Ts : list (A * A * A)),
      tsum z2 add2 (fun a b c => h (g a b c)) Ts = h (tsum z1 add1 g Ts).
  Proof.
    intros g Ts; induction Ts as [|[[a b] c] Ts IH]; [symmetry; exact h_zero|].
    rewrite !tsum_cons, h_add, IH. reflexivity.
  Qed.
End SumsHom.

(* image of a chain under a map of the vertices *)
Section SumsMap.
  Variables (A B G : Type).
  Variables (rO : G) (radd : G -> G -> G).
  Variable h : A -> B.

  Lemma edges_to_map : forall (z : A) (L : list A),
      edges_to (h z) (map h L) = map (fun e => (h (fst e), h (snd e))) (edges_to z L).
  Proof.
    intros z L; induction L as [|a t IH]; [reflexivity|].
    simpl. rewrite IH. f_equal. destruct t; reflexivity.
  Qed.

  Lemma edges_closed_map : forall L : list A,
      edges_closed (map h L) = map (fun e => (h (fst e), h (snd e))) (edges_closed L).
  Proof. intros [|a t]; [reflexivity|]. apply (edges_to_map a (a :: t)). Qed.

  Lemma esum_map : forall (f : B -> B -> G) (E : list (A * A)),
      esum rO radd f (map (fun e => (h (fst e), h (snd e))) E)
      = esum rO radd (fun a b => f (h a) (h b)) E.
  Proof.
    intros f E; induction E as [|[a b] E IH]; [reflexivity|].
    simpl map. rewrite !esum_cons, IH. reflexivity.
  Qed.

  Lemma csum_map : forall (f : B -> B -> G) (L : list A),
      csum rO radd f (map h L) = csum rO radd (fun a b => f (h a) (h b)) L.
  Proof. intros; unfold csum. rewrite edges_closed_map. apply esum_map. Qed.
End SumsMap.

(* ------------------------------------------------------------------------------------ *)
(** * Algebra of closed-chain sums (values in the additive group of a commutative ring)   *)
Section CSum.
  Variables (A G : Type).
  Variables (rO rI : G) (radd rmul rsub : G -> G -> G) (ropp : G -> G).
  Hypothesis Gth : ring_theory rO rI radd rmul rsub ropp (@eq G).
  Add Ring Gring : Gth.
  Local Notation "x [+] y" := (radd x y) (at level 50, left associativity).
  Local Notation "x [-] y" := (rsub x y) (at level 50, left associativity).
  Local Notation "[-] x" := (ropp x) (at level 35, right associativity).
  Local Notation esum := (esum (A := A) rO radd).
  Local Notation csum := (csum (A := A) rO radd).
  Local Notation tri := (tri (A := A) rO radd).
  Local Notation tsum := (tsum (A := A) rO radd).

  Ltac csx := unfold Cyclic.csum, edges_closed; cbn [edges_to hd app last rev];
              rewrite ?esum_cons, ?esum_nil.

  Lemma esum_app : forall (f : A -> A -> G) (E1 E2 : list (A * A)),
      esum f (E1 ++ E2) = esum f E1 [+] esum f E2.
  Proof.
    intros f E1 E2; induction E1 as [|[a b] E1 IH]; simpl app.
    - rewrite esum_nil. ring.
    - rewrite !esum_cons, IH. ring.
  Qed.

  Lemma tsum_app : forall (g : A -> A -> A -> G) (T1 T2 : list (A * A * A)),
      tsum g (T1 ++ T2) = tsum g T1 [+] tsum g T2.
  Proof.
    intros g T1 T2; induction T1 as [|[[a b] c] T1 IH]; simpl app.
    - rewrite tsum_nil. ring.
    - rewrite !tsum_cons, IH. ring.
  Qed.

  (* accumulating from the left (as an imperative loop does) gives the same sum *)
  Lemma esum_fold_left : forall (f : A -> A -> G) (E : list (A * A)) (acc : G),
      fold_left (fun s e => s [+] f (fst e) (snd e)) E acc = acc [+] esum f E.
  Proof.
    intros f E; induction E as [|[a b] E IH]; intros acc; simpl fold_left.
    - rewrite esum_nil. ring.
    - rewrite IH, esum_cons. simpl fst; simpl snd. ring.
  Qed.

  (* a closed chain may be cut open anywhere: cyclic shift by any amount *)
  Lemma csum_rot_app : forall (f : A -> A -> G) (l1 l2 : list A),
      csum f (l1 ++ l2) = csum f (l2 ++ l1).
  Proof.
    intros f [|a t1] [|b t2]; rewrite ?app_nil_r; try reflexivity.
    unfold Cyclic.csum.
    change (edges_closed ((a :: t1) ++ b :: t2)) with (edges_to a ((a :: t1) ++ b :: t2)).
    change (edges_closed ((b :: t2) ++ a :: t1)) with (edges_to b ((b :: t2) ++ a :: t1)).
    rewrite !edges_to_app. cbn [hd]. rewrite !esum_app. ring.
  Qed.

  (* cyclic shift by one *)
  Lemma csum_rotl : forall (f : A -> A -> G) (L : list A), csum f (rotl L) = csum f L.
  Proof.
    intros f [|a t]; [reflexivity|]. unfold rotl.
    change (a :: t) with ([a] ++ t). apply csum_rot_app.
  Qed.

  Lemma csum_plus_fun : forall (f g : A -> A -> G) (L : list A),
      csum (fun a b => f a b [+] g a b) L = csum f L [+] csum g L.
  Proof.
    intros f g L; unfold Cyclic.csum. induction (edges_closed L) as [|[a b] E IH].
    - rewrite !esum_nil. ring.
    - rewrite !esum_cons, IH. ring.
  Qed.

  Lemma csum_opp_fun : forall (f : A -> A -> G) (L : list A),
      csum (fun a b => [-] f a b) L = [-] csum f L.
  Proof.
    intros f L; unfold Cyclic.csum. induction (edges_closed L) as [|[a b] E IH].
    - rewrite !esum_nil. ring.
    - rewrite !esum_cons, IH. ring.
  Qed.

  (* a potential difference sums to zero around a closed chain *)
  Lemma csum_telescope : forall (g : A -> G) (L : list A),
      csum (fun a b => g b [-] g a) L = rO.
  Proof.
    intros g [|a0 t]; [reflexivity|]. unfold Cyclic.csum, edges_closed.
    assert (H : forall (z : A) (t : list A) (a : A),
               esum (fun a b => g b [-] g a) (edges_to z (a :: t)) = g z [-] g a).
    { intros z t'; induction t' as [|b t' IH]; intros a.
      - simpl edges_to. rewrite esum_cons, esum_nil. simpl hd. ring.
      - change (edges_to z (a :: b :: t')) with ((a, b) :: edges_to z (b :: t')).
        rewrite esum_cons, IH. ring. }
    rewrite H. ring.
  Qed.

  (** ** antisymmetric edge functionals *)
  Section Anti.
    Variable f : A -> A -> G.
    Hypothesis f_anti : forall a b : A, f a b = [-] f b a.
    Hypothesis f_self : forall a : A, f a a = rO.

    (* walking a path backwards negates its sum *)
    Lemma psum_rev : forall (L : list A) (y z : A),
        esum f (edges_to y (z :: rev L)) = [-] esum f (edges_to z (y :: L)).
    Proof.
      induction L as [|a t IH]; intros y z.
      - csx. rewrite (f_anti z y). ring.
      - simpl rev.
        change (z :: rev t ++ [a]) with ((z :: rev t) ++ [a]).
        rewrite edges_to_app, esum_app. cbn [hd]. rewrite IH.
        change (edges_to z (y :: a :: t)) with ((y, a) :: edges_to z (a :: t)).
        simpl edges_to. rewrite !esum_cons, esum_nil. simpl hd.
        rewrite (f_anti a y). ring.
    Qed.

    (* reversing the direction of travel negates the sum *)
    Lemma csum_rev : forall L : list A, csum f (rev L) = [-] csum f L.
    Proof.
      intros [|a t].
      - csx. ring.
      - simpl rev. rewrite csum_rot_app. simpl app.
        unfold Cyclic.csum, edges_closed. apply psum_rev.
    Qed.

    Lemma tri_rot : forall a b c : A, tri f b c a = tri f a b c.
    Proof. intros; rewrite !tri_unfold; ring. Qed.

    Lemma tri_swap : forall a b c : A, tri f a c b = [-] tri f a b c.
    Proof.
      intros; rewrite !tri_unfold.
      rewrite (f_anti a c), (f_anti c b), (f_anti b a). ring.
    Qed.

    Lemma tri_degenerate : forall a b : A, tri f a a b = rO.
    Proof. intros; rewrite tri_unfold, f_self, (f_anti a b). ring. Qed.

    (* ear identity: cutting the ear (v0,v1,v2) off the chain *)
    Lemma csum_ear : forall (v0 v1 v2 : A) (rest : list A),
        csum f (v0 :: v1 :: v2 :: rest) = csum f (v0 :: v2 :: rest) [+] tri f v0 v1 v2.
    Proof.
      intros. rewrite tri_unfold. unfold Cyclic.csum, edges_closed.
      change (edges_to v0 (v0 :: v1 :: v2 :: rest))
        with ((v0, v1) :: (v1, v2) :: edges_to v0 (v2 :: rest)).
      change (edges_to v0 (v0 :: v2 :: rest)) with ((v0, v2) :: edges_to v0 (v2 :: rest)).
      rewrite !esum_cons. rewrite (f_anti v2 v0). ring.
    Qed.

    (* removing the vertex at the split point of pre ++ v :: post; its cyclic neighbours are
       last (post ++ pre) v  (predecessor)  and  hd v (post ++ pre)  (successor) *)
    Lemma csum_remove : forall (pre post : list A) (v : A),
        csum f (pre ++ v :: post)
        = csum f (pre ++ post) [+] tri f (last (post ++ pre) v) v (hd v (post ++ pre)).
    Proof.
      intros pre post v.
      rewrite (csum_rot_app f pre (v :: post)), (csum_rot_app f pre post).
      simpl app. generalize (post ++ pre) as R. clear pre post.
      intros [|n R'].
      - rewrite tri_unfold. csx. rewrite !f_self. ring.
      - destruct R' as [|x R''].
        + rewrite tri_unfold. csx. rewrite !f_self. ring.
        + destruct (@exists_last _ (x :: R'')) as [mid [p Hp]]; [discriminate|].
          rewrite Hp; clear Hp x R''.
          change (n :: mid ++ [p]) with ((n :: mid) ++ [p]) at 3.
          rewrite last_last. cbn [hd]. rewrite tri_unfold.
          unfold Cyclic.csum, edges_closed.
          change (edges_to v (v :: n :: mid ++ [p]))
            with ((v, n) :: edges_to v ((n :: mid) ++ [p])).
          change (edges_to n (n :: mid ++ [p])) with (edges_to n ((n :: mid) ++ [p])).
          rewrite !edges_to_app. cbn [hd edges_to].
          rewrite !esum_cons, !esum_app, !esum_cons, !esum_nil. cbn [hd].
          rewrite (f_anti n p). ring.
    Qed.

    (* the same by position: remove the vertex at index i, neighbours by cyclic indexing *)
    Lemma csum_remove_at : forall (dflt : A) (L : list A) (i : nat), i < length L ->
        csum f L = csum f (remove_at i L)
                   [+] tri f (cprev dflt L i) (nth i L dflt) (cnext dflt L i).
    Proof.
      intros dflt L i Hi.
      pose proof (split_at dflt L Hi) as HL.
      assert (Hlen : length (firstn i L) = i) by (rewrite firstn_length; lia).
      unfold remove_at.
      generalize dependent (firstn i L). generalize dependent (skipn (S i) L).
      generalize dependent (nth i L dflt).
      intros v post pre HL Hlen. subst L i.
      rewrite cprev_middle, cnext_middle. apply csum_remove.
    Qed.

    (* inserting a vertex m between cyclic neighbours p, n with f p m + f m n = f p n
       (e.g. a point on the edge) does not change the sum *)
    Lemma csum_insert_gen : forall (pre post : list A) (m : A),
        f (last (post ++ pre) m) m [+] f m (hd m (post ++ pre))
        = f (last (post ++ pre) m) (hd m (post ++ pre)) ->
        csum f (pre ++ m :: post) = csum f (pre ++ post).
    Proof.
      intros pre post m H. rewrite csum_remove, tri_unfold.
      set (p := last (post ++ pre) m) in *. set (n := hd m (post ++ pre)) in *.
      replace (f p m [+] (f m n [+] (f n p [+] rO))) with ((f p m [+] f m n) [+] f n p) by ring.
      rewrite H, (f_anti n p). ring.
    Qed.

    Lemma csum_insert : forall (pre post : list A) (a m b : A),
        f a m [+] f m b = f a b ->
        csum f (pre ++ a :: m :: b :: post) = csum f (pre ++ a :: b :: post).
    Proof.
      intros pre post a m b H.
      replace (pre ++ a :: m :: b :: post) with ((pre ++ [a]) ++ m :: b :: post)
        by (rewrite <- app_assoc; reflexivity).
      replace (pre ++ a :: b :: post) with ((pre ++ [a]) ++ b :: post)
        by (rewrite <- app_assoc; reflexivity).
      apply csum_insert_gen.
      rewrite (app_assoc (b :: post) pre [a]), last_last. cbn [app hd]. exact H.
    Qed.

    (* inserting on the closing edge last -> first *)
    Lemma csum_insert_closing : forall (mid : list A) (a m b : A),
        f a m [+] f m b = f a b ->
        csum f (b :: mid ++ [a; m]) = csum f (b :: mid ++ [a]).
    Proof.
      intros mid a m b H.
      replace (b :: mid ++ [a; m]) with ((b :: mid ++ [a]) ++ m :: [])
        by (simpl; rewrite <- app_assoc; reflexivity).
      replace (b :: mid ++ [a]) with ((b :: mid ++ [a]) ++ []) at 2 by apply app_nil_r.
      apply csum_insert_gen.
      change ([] ++ b :: mid ++ [a]) with ((b :: mid) ++ [a]). rewrite last_last.
      cbn [app hd]. exact H.
    Qed.

    (* fan decomposition from the first vertex *)
    Lemma csum_fan : forall (v0 : A) (vs : list A),
        csum f (v0 :: vs) = esum (tri f v0) (edges_open vs).
    Proof.
      intros v0 vs; induction vs as [|v1 t IH].
      - csx. rewrite f_self. ring.
      - destruct t as [|v2 rest].
        + csx. rewrite (f_anti v1 v0). ring.
        + rewrite csum_ear, IH, edges_open_cons2, esum_cons. ring.
    Qed.

    (* cone decomposition from an arbitrary apex p: Σ over the closed edges (a,b) of the
       triangle sums (p,a,b); the spokes p-a cancel in pairs *)
    Lemma csum_cone : forall (p : A) (L : list A),
        csum f L = esum (tri f p) (edges_closed L).
    Proof.
      intros p L.
      transitivity (csum (fun a b => f a b [+] (f b p [-] f a p)) L).
      - rewrite (csum_plus_fun f (fun a b => f b p [-] f a p)).
        rewrite (csum_telescope (fun v => f v p)). ring.
      - apply esum_ext_in. intros a b _. rewrite tri_unfold, (f_anti p a). ring.
    Qed.

    (* the sum over the chain is the sum over the ears of any ear decomposition *)
    Lemma csum_ear_decomp : forall (L : list A) (Ts : list (A * A * A)),
        ear_decomp L Ts -> csum f L = tsum (tri f) Ts.
    Proof.
      intros L Ts H; induction H.
      - rewrite tsum_cons, tsum_nil. unfold Cyclic.tri. ring.
      - rewrite csum_remove, IHear_decomp, tsum_cons. ring.
    Qed.

    (* merging a second cycle h0 :: hs into pre ++ e :: post through the bridge e -> h0,
       walked once each way: the sums add *)
    Lemma csum_bridge : forall (pre post hs : list A) (e h0 : A),
        csum f (pre ++ e :: h0 :: hs ++ h0 :: e :: post)
        = csum f (pre ++ e :: post) [+] csum f (h0 :: hs).
    Proof.
      intros pre post hs e h0.
      rewrite (csum_rot_app f pre), (csum_rot_app f pre (e :: post)).
      replace ((e :: h0 :: hs ++ h0 :: e :: post) ++ pre)
        with (e :: (h0 :: hs) ++ h0 :: e :: (post ++ pre))
        by (simpl; rewrite <- app_assoc; reflexivity).
      simpl app at 3. generalize (post ++ pre) as R; intros R.
      unfold Cyclic.csum, edges_closed.
      change (edges_to e (e :: (h0 :: hs) ++ h0 :: e :: R))
        with ((e, h0) :: edges_to e ((h0 :: hs) ++ h0 :: e :: R)).
      rewrite edges_to_app. cbn [hd].
      change (edges_to e (h0 :: e :: R)) with ((h0, e) :: edges_to e (e :: R)).
      rewrite esum_cons, esum_app, esum_cons. rewrite (f_anti h0 e). ring.
    Qed.
  End Anti.
End CSum.

Arguments esum_hom [A G1 G2] z1 add1 z2 add2 h h_zero h_add f E.
Arguments csum_hom [A G1 G2] z1 add1 z2 add2 h h_zero h_add f L.
Arguments tsum_hom [A G1 G2] z1 add1 z2 add2 h h_zero h_add g Ts.
