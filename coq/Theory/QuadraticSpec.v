(** * QuadraticSpec: the vocabulary of the C17 statements (definitions only).
    Real side: discriminant and the two roots of [a x^2 + b x + c], ordered.
    Float side: the Prop form of the decidable side conditions of Model/Quadratic.v on the Flocq
    instance ([Proofs/C17_quadratic.v] proves them equivalent to the booleans the runner evaluates). *)
From Coq Require Import ZArith Reals.
From Flocq Require Import Core BinarySingleNaN.
From G3 Require Import Model.Num Model.Base Model.RoundError Model.Quadratic Theory.IntervalSpec.
Local Open Scope R_scope.

Definition qdisc (a b c : R) : R := b * b - 4 * a * c.
Definition root_minus (a b c : R) : R := (- b - sqrt (qdisc a b c)) / (2 * a).
Definition root_plus (a b c : R) : R := (- b + sqrt (qdisc a b c)) / (2 * a).
(** the smaller and the larger root (whatever the sign of [a]) *)
Definition root_lo (a b c : R) : R := Rmin (root_minus a b c) (root_plus a b c).
Definition root_hi (a b c : R) : R := Rmax (root_minus a b c) (root_plus a b c).

(** rounding slack of one rounding / one step to the neighbouring float, in the format (prec, emax):
    relative [rel_u = 2^(1-prec)] plus absolute [abs_eta = 2^emin] (the smallest positive float) *)
Definition rel_u (prec emax : Z) : R := bpow radix2 (1 - prec).
Definition abs_eta (prec emax : Z) : R := bpow radix2 (3 - emax - prec).
Definition upf (prec emax : Z) (t : R) : R := t + rel_u prec emax * Rabs t + abs_eta prec emax.
Definition dnf (prec emax : Z) (t : R) : R := t - rel_u prec emax * Rabs t - abs_eta prec emax.

Section Spec.
  Variable prec emax : Z.
  Context (Hprec : FLX.Prec_gt_0 prec) (Hmax : Prec_lt_emax prec emax).
  Notation bf := (binary_float prec emax).
  Local Instance NBqs : Num bf := NumB prec emax Hprec Hmax.

  (** the operands of the discriminant's subtraction are finite and well formed (no overflow in
      [b*b], [a*c], [a*c*4.]) *)
  Definition disc_ok (A B C : AF bf) : Prop :=
    let s := quad_steps A B C in wf (q_bb s) /\ wf (q_ac s) /\ wf (q_ac4 s).
  (** every intermediate that is later used as an operand is finite and well formed, and the
      computed [q] interval (a divisor) excludes zero *)
  Definition inter_ok (A B C : AF bf) : Prop :=
    let s := quad_steps A B C in
    disc_ok A B C /\ wf (q_disc s) /\ wf (q_sqrt s) /\ wf (q_pm s) /\ wf (q_q s) /\ no_zero (q_q s).

  (** IEEE [<=] on bounds: the extended order, false on NaN *)
  Definition ext_le (x y : bf) : Prop := Bleb x y = true.
  (** the two returned enclosures are not nested / are disjoint *)
  Definition not_nested (X1 X2 : AF bf) : Prop := ext_le (high X1) (high X2).
  Definition disjoint (X1 X2 : AF bf) : Prop := Bltb (high X1) (low X2) = true.
  (** width of a finite interval *)
  Definition width (X : AF bf) : R := B2R (high X) - B2R (low X).
End Spec.
Arguments ext_le {prec emax}. Arguments not_nested {prec emax}. Arguments disjoint {prec emax}.
Arguments width {prec emax}.
