(** * IntervalSpec: what "inclusion-correct" means for [AF] over Flocq floats (definitions only).
    Bounds live in the extended reals: a lower bound may be -inf, an upper bound +inf. *)
From Coq Require Import ZArith Reals.
From Flocq Require Import Core BinarySingleNaN.
From G3 Require Import Model.Num Model.Base Model.RoundError.

Section Spec.
  Variable prec emax : Z.
  Context (Hprec : FLX.Prec_gt_0 prec) (Hmax : Prec_lt_emax prec emax).
  Notation bf := (binary_float prec emax).
  Notation AFb := (AF bf).

  (** [l] is a true lower bound of the real [r] (-inf allowed; +inf and NaN are not bounds) *)
  Definition lb (l : bf) (r : R) : Prop :=
    match l with
    | B754_infinity true => True
    | B754_infinity false => False
    | B754_nan => False
    | _ => (B2R l <= r)%R
    end.
  Definition ub (h : bf) (r : R) : Prop :=
    match h with
    | B754_infinity false => True
    | B754_infinity true => False
    | B754_nan => False
    | _ => (r <= B2R h)%R
    end.
  Definition contains (I : AFb) (r : R) : Prop := lb (low I) r /\ ub (high I) r.

  (** operand intervals of the property: finite floats, low <= high *)
  Definition wf (I : AFb) : Prop :=
    is_finite (low I) = true /\ is_finite (high I) = true /\ (B2R (low I) <= B2R (high I))%R.
  (** result intervals: well formed in the extended order, no NaN bound *)
  Definition ext_wf (I : AFb) : Prop :=
    match low I, high I with
    | B754_nan, _ | _, B754_nan => False
    | B754_infinity false, _ => False
    | _, B754_infinity true => False
    | B754_infinity true, _ => True
    | _, B754_infinity false => True
    | l, h => (B2R l <= B2R h)%R
    end.
  Definition no_zero (I : AFb) : Prop := (0 < B2R (low I))%R \/ (B2R (high I) < 0)%R.
  Definition point (f : bf) : AFb := mkAF f f.
End Spec.
Arguments lb {prec emax}. Arguments ub {prec emax}. Arguments contains {prec emax}.
Arguments wf {prec emax}. Arguments ext_wf {prec emax}. Arguments no_zero {prec emax}.
