(* Theory/Shoelace.v — the Newell vector  Σ v_i x v_(i+1)  of a closed chain in R^3 and the
   signed (shoelace) area of a closed chain in the plane.  Depends on the Coq standard
   library, Theory/Cyclic.v (list combinatorics) and Theory/Winding.v (only for P2, orient,
   lerp).  No geometry model.

   Conventions:  T3 = R * R * R  with the usual cross3 / dot3;
     newell L = Σ_{(a,b) edge of the closed chain L} a x b          (a vector; for a planar
                chain with unit normal n,  n . newell L = 2 * signed area)
     area2 L  = 1/2 Σ (ax*by - bx*ay)                               (> 0 counter-clockwise)
   The additive group of T3 is presented to the tactic [ring] as the commutative ring
   R^3 with the componentwise product ([mul3]); the product itself is never used. *)
From Coq Require Import Reals Lra Lia Psatz Nsatz List Ring.
From G3 Require Import Theory.Cyclic Theory.Winding.
Import ListNotations.
Local Open Scope R_scope.

(* ------------------------------------------------------------------------------------ *)
(** * Vectors of R^3                                                                      *)

Definition T3 : Type := (R * R * R)%type.
Definition x3 (v : T3) : R := fst (fst v).
Definition y3 (v : T3) : R := snd (fst v).
Definition z3 (v : T3) : R := snd v.
Definition zero3 : T3 := (0, 0, 0).
Definition one3 : T3 := (1, 1, 1).
Definition add3 (a b : T3) : T3 := (x3 a + x3 b, y3 a + y3 b, z3 a + z3 b).
Definition sub3 (a b : T3) : T3 := (x3 a - x3 b, y3 a - y3 b, z3 a - z3 b).
Definition opp3 (a : T3) : T3 := (- x3 a, - y3 a, - z3 a).
Definition mul3 (a b : T3) : T3 := (x3 a * x3 b, y3 a * y3 b, z3 a * z3 b).
Definition scale3 (k : R) (a : T3) : T3 := (k * x3 a, k * y3 a, k * z3 a).
Definition dot3 (a b : T3) : R := x3 a * x3 b + y3 a * y3 b + z3 a * z3 b.
Definition cross3 (a b : T3) : T3 :=
  (y3 a * z3 b - z3 a * y3 b, z3 a * x3 b - x3 a * z3 b, x3 a * y3 b - y3 a * x3 b).
Definition norm3 (a : T3) : R := sqrt (dot3 a a).
(* the point a + s (b - a) *)
Definition lerp3 (a b : T3) (s : R) : T3 := add3 a (scale3 s (sub3 b a)).

Lemma t3_ext : forall u v : T3, x3 u = x3 v -> y3 u = y3 v -> z3 u = z3 v -> u = v.
Proof. intros [[a b] c] [[a' b'] c']; unfold x3, y3, z3; simpl; intros; subst; reflexivity. Qed.

Ltac t3 :=
  intros;
  repeat match goal with v : T3 |- _ => destruct v as [[? ?] ?] end;
  try (apply t3_ext);
  unfold lerp3, cross3, dot3, add3, sub3, opp3, mul3, scale3, zero3, one3, x3, y3, z3; simpl;
  try ring.

Lemma T3_ring : ring_theory zero3 one3 add3 mul3 sub3 opp3 (@eq T3).
Proof. constructor; t3. Qed.

Lemma cross3_anti : forall a b : T3, cross3 a b = opp3 (cross3 b a).
Proof. t3. Qed.
Lemma cross3_self : forall a : T3, cross3 a a = zero3.
Proof. t3. Qed.

(* ------------------------------------------------------------------------------------ *)
(** * The Newell vector of a closed chain                                                 *)

Definition newell (L : list T3) : T3 := csum zero3 add3 cross3 L.

(* the Newell vector of a triangle is the cross product of two edge vectors *)
Lemma newell_tri : forall a b c : T3,
    newell [a; b; c] = cross3 (sub3 b a) (sub3 c a).
Proof. intros; unfold newell. change (csum zero3 add3 cross3 [a; b; c]) with (tri zero3 add3 cross3 a b c). rewrite tri_unfold. t3. Qed.

(* the starting vertex is irrelevant *)
Lemma newell_rotate : forall L : list T3, newell (rotl L) = newell L.
Proof. intros; apply (csum_rotl T3_ring). Qed.
Lemma newell_rot_app : forall l1 l2 : list T3, newell (l1 ++ l2) = newell (l2 ++ l1).
Proof. intros; apply (csum_rot_app T3_ring). Qed.

(* reversing the direction of travel negates the Newell vector *)
Lemma newell_rev : forall L : list T3, newell (rev L) = opp3 (newell L).
Proof. intros; apply (csum_rev T3_ring _ cross3_anti). Qed.

(* translating a closed chain does not change its Newell vector *)
Lemma newell_translate : forall (t : T3) (L : list T3), newell (map (add3 t) L) = newell L.
Proof.
  intros t L. unfold newell. rewrite csum_map.
  rewrite (csum_ext zero3 add3 _
             (fun a b => add3 (cross3 a b) (sub3 (cross3 t b) (cross3 t a))) L) by t3.
  rewrite (csum_plus_fun T3_ring), (csum_telescope T3_ring (cross3 t)). t3.
Qed.

(* ear identity *)
Lemma newell_ear : forall (v0 v1 v2 : T3) (rest : list T3),
    newell (v0 :: v1 :: v2 :: rest)
    = add3 (newell (v0 :: v2 :: rest)) (cross3 (sub3 v1 v0) (sub3 v2 v0)).
Proof.
  intros. rewrite <- newell_tri. apply (csum_ear T3_ring _ cross3_anti).
Qed.

(* removing the vertex at the split point (cyclic neighbours p, n): subtracts (v-p) x (n-p) *)
Lemma newell_remove : forall (pre post : list T3) (v : T3),
    newell (pre ++ v :: post)
    = add3 (newell (pre ++ post))
           (newell [last (post ++ pre) v; v; hd v (post ++ pre)]).
Proof. intros; apply (csum_remove T3_ring _ cross3_anti cross3_self). Qed.

Lemma newell_remove_at : forall (dflt : T3) (L : list T3) (i : nat), (i < length L)%nat ->
    newell L = add3 (newell (remove_at i L))
                    (cross3 (sub3 (nth i L dflt) (cprev dflt L i))
                            (sub3 (cnext dflt L i) (cprev dflt L i))).
Proof.
  intros. rewrite <- newell_tri.
  apply (csum_remove_at T3_ring _ cross3_anti cross3_self); assumption.
Qed.

(* along any ear decomposition the Newell vector is the sum of the ears' *)
Lemma newell_sum_triangles : forall (L : list T3) (Ts : list (T3 * T3 * T3)),
    ear_decomp L Ts ->
    newell L = tsum zero3 add3 (fun a b c => cross3 (sub3 b a) (sub3 c a)) Ts.
Proof.
  intros L Ts H. unfold newell.
  rewrite (csum_ear_decomp T3_ring _ cross3_anti cross3_self H).
  apply tsum_ext_in. intros a b c _. apply newell_tri.
Qed.

Lemma cross3_lerp : forall (a b : T3) (s : R),
    add3 (cross3 a (lerp3 a b s)) (cross3 (lerp3 a b s) b) = cross3 a b.
Proof. t3. Qed.

(* a vertex inserted on an edge (anywhere on its line, in fact) does not change the vector *)
Lemma newell_insert_on_edge : forall (pre post : list T3) (a b : T3) (s : R),
    newell (pre ++ a :: lerp3 a b s :: b :: post) = newell (pre ++ a :: b :: post).
Proof.
  intros. apply (csum_insert T3_ring _ cross3_anti cross3_self). apply cross3_lerp.
Qed.

Lemma newell_insert_on_closing_edge : forall (mid : list T3) (a b : T3) (s : R),
    newell (b :: mid ++ [a; lerp3 a b s]) = newell (b :: mid ++ [a]).
Proof.
  intros. apply (csum_insert_closing T3_ring _ cross3_anti cross3_self). apply cross3_lerp.
Qed.

(* merging a hole cycle through a bridge walked once each way: the vectors add *)
Lemma newell_bridge : forall (pre post hs : list T3) (e h0 : T3),
    newell (pre ++ e :: h0 :: hs ++ h0 :: e :: post)
    = add3 (newell (pre ++ e :: post)) (newell (h0 :: hs)).
Proof. intros; apply (csum_bridge T3_ring _ cross3_anti). Qed.

(* ------------------------------------------------------------------------------------ *)
(** * 2-D signed area                                                                     *)

Definition cross2 (a b : P2) : R := fst a * snd b - fst b * snd a.

(* signed area of the closed chain L (positive when counter-clockwise) *)
Definition area2 (L : list P2) : R := / 2 * csum 0 Rplus cross2 L.

Lemma cross2_anti : forall a b : P2, cross2 a b = - cross2 b a.
Proof. intros; unfold cross2; ring. Qed.
Lemma cross2_self : forall a : P2, cross2 a a = 0.
Proof. intros; unfold cross2; ring. Qed.

Lemma tri_cross2 : forall a b c : P2, tri 0 Rplus cross2 a b c = orient a b c.
Proof. intros; rewrite tri_unfold; unfold cross2, orient; ring. Qed.

(* area of a triangle *)
Lemma area2_tri : forall a b c : P2, area2 [a; b; c] = / 2 * orient a b c.
Proof. intros; unfold area2. rewrite <- tri_cross2. reflexivity. Qed.

Lemma area2_rotate : forall L : list P2, area2 (rotl L) = area2 L.
Proof. intros; unfold area2. rewrite (csum_rotl RTheory). reflexivity. Qed.
Lemma area2_rot_app : forall l1 l2 : list P2, area2 (l1 ++ l2) = area2 (l2 ++ l1).
Proof. intros; unfold area2. rewrite (csum_rot_app RTheory). reflexivity. Qed.

Lemma area2_rev : forall L : list P2, area2 (rev L) = - area2 L.
Proof. intros; unfold area2. rewrite (csum_rev RTheory _ cross2_anti). ring. Qed.

Lemma area2_translate : forall (t : P2) (L : list P2),
    area2 (map (fun p => (fst t + fst p, snd t + snd p)) L) = area2 L.
Proof.
  intros t L. unfold area2. rewrite csum_map.
  rewrite (csum_ext 0 Rplus _
             (fun a b => cross2 a b + (cross2 t b - cross2 t a)) L)
    by (intros; unfold cross2; simpl; ring).
  rewrite (csum_plus_fun RTheory), (csum_telescope RTheory (cross2 t)). ring.
Qed.

Lemma area2_ear : forall (v0 v1 v2 : P2) (rest : list P2),
    area2 (v0 :: v1 :: v2 :: rest) = area2 (v0 :: v2 :: rest) + / 2 * orient v0 v1 v2.
Proof.
  intros; unfold area2. rewrite (csum_ear RTheory _ cross2_anti), tri_cross2. ring.
Qed.

Lemma area2_remove : forall (pre post : list P2) (v : P2),
    area2 (pre ++ v :: post)
    = area2 (pre ++ post) + / 2 * orient (last (post ++ pre) v) v (hd v (post ++ pre)).
Proof.
  intros; unfold area2.
  rewrite (csum_remove RTheory _ cross2_anti cross2_self), tri_cross2. ring.
Qed.

Lemma area2_remove_at : forall (dflt : P2) (L : list P2) (i : nat), (i < length L)%nat ->
    area2 L = area2 (remove_at i L)
              + / 2 * orient (cprev dflt L i) (nth i L dflt) (cnext dflt L i).
Proof.
  intros dflt L i Hi; unfold area2.
  rewrite (csum_remove_at RTheory _ cross2_anti cross2_self dflt L Hi), tri_cross2. ring.
Qed.

(* the signed area is the sum of the ears' signed areas, for any ear decomposition *)
Lemma area2_sum_triangles : forall (L : list P2) (Ts : list (P2 * P2 * P2)),
    ear_decomp L Ts -> area2 L = tsum 0 Rplus (fun a b c => area2 [a; b; c]) Ts.
Proof.
  intros L Ts H. unfold area2 at 1.
  rewrite (csum_ear_decomp RTheory _ cross2_anti cross2_self H).
  rewrite <- (tsum_hom (A := P2) 0 Rplus 0 Rplus (fun x => / 2 * x)).
  - apply tsum_ext_in. intros a b c _. reflexivity.
  - ring.
  - intros; ring.
Qed.

(* if all ears are counter-clockwise (or degenerate) the area is the sum of their absolute areas *)
Lemma area2_positive_ears : forall (L : list P2) (Ts : list (P2 * P2 * P2)),
    ear_decomp L Ts ->
    (forall a b c : P2, In (a, b, c) Ts -> 0 <= orient a b c) ->
    area2 L = tsum 0 Rplus (fun a b c => Rabs (area2 [a; b; c])) Ts.
Proof.
  intros L Ts H Hpos. rewrite (area2_sum_triangles _ _ H).
  apply tsum_ext_in. intros a b c Hin.
  rewrite Rabs_right; [reflexivity|]. rewrite area2_tri. specialize (Hpos a b c Hin). lra.
Qed.

Lemma tsum_nonneg : forall (g : P2 -> P2 -> P2 -> R) (Ts : list (P2 * P2 * P2)),
    (forall a b c, In (a, b, c) Ts -> 0 <= g a b c) -> 0 <= tsum 0 Rplus g Ts.
Proof.
  intros g Ts; induction Ts as [|[[a b] c] Ts IH]; intros H.
  - rewrite tsum_nil; lra.
  - rewrite tsum_cons. specialize (H a b c (or_introl eq_refl)) as H1.
    assert (0 <= tsum 0 Rplus g Ts) by (apply IH; intros; apply H; now right). lra.
Qed.

(* ... hence the area is non-negative, and positive as soon as one ear is non-degenerate *)
Lemma area2_positive_ears_nonneg : forall (L : list P2) (Ts : list (P2 * P2 * P2)),
    ear_decomp L Ts ->
    (forall a b c : P2, In (a, b, c) Ts -> 0 <= orient a b c) -> 0 <= area2 L.
Proof.
  intros L Ts H Hpos. rewrite (area2_sum_triangles _ _ H). apply tsum_nonneg.
  intros a b c Hin. rewrite area2_tri. specialize (Hpos a b c Hin). lra.
Qed.

Lemma cross2_lerp : forall (a b : P2) (s : R),
    cross2 a (lerp a b s) + cross2 (lerp a b s) b = cross2 a b.
Proof. intros; unfold cross2, lerp; simpl; ring. Qed.

Lemma area2_insert_on_edge : forall (pre post : list P2) (a b : P2) (s : R),
    area2 (pre ++ a :: lerp a b s :: b :: post) = area2 (pre ++ a :: b :: post).
Proof.
  intros; unfold area2. f_equal.
  apply (csum_insert RTheory _ cross2_anti cross2_self). apply cross2_lerp.
Qed.

Lemma area2_insert_on_closing_edge : forall (mid : list P2) (a b : P2) (s : R),
    area2 (b :: mid ++ [a; lerp a b s]) = area2 (b :: mid ++ [a]).
Proof.
  intros; unfold area2. f_equal.
  apply (csum_insert_closing RTheory _ cross2_anti cross2_self). apply cross2_lerp.
Qed.

Lemma area2_bridge : forall (pre post hs : list P2) (e h0 : P2),
    area2 (pre ++ e :: h0 :: hs ++ h0 :: e :: post)
    = area2 (pre ++ e :: post) + area2 (h0 :: hs).
Proof. intros; unfold area2. rewrite (csum_bridge RTheory _ cross2_anti). ring. Qed.

(* ------------------------------------------------------------------------------------ *)
(** * Planar chains in space                                                              *)

(* the point of the plane  o + u e1 + v e2  with plane coordinates p = (u,v) *)
Definition embed3 (o e1 e2 : T3) (p : P2) : T3 :=
  add3 o (add3 (scale3 (fst p) e1) (scale3 (snd p) e2)).

(* the Newell vector of an embedded planar chain is  2 * (signed area) * (e1 x e2);
   no assumption on e1, e2 *)
Lemma newell_embed : forall (o e1 e2 : T3) (L : list P2),
    newell (map (embed3 o e1 e2) L) = scale3 (2 * area2 L) (cross3 e1 e2).
Proof.
  intros o e1 e2 L.
  replace (map (embed3 o e1 e2) L)
    with (map (add3 o) (map (fun p => add3 (scale3 (fst p) e1) (scale3 (snd p) e2)) L))
    by (rewrite map_map; reflexivity).
  rewrite newell_translate. unfold newell. rewrite csum_map.
  rewrite (csum_ext zero3 add3 _ (fun a b => scale3 (cross2 a b) (cross3 e1 e2)) L)
    by (intros; unfold cross2; t3).
  rewrite (csum_hom (A := P2) 0 Rplus zero3 add3 (fun k => scale3 k (cross3 e1 e2)))
    by t3.
  unfold area2. f_equal. field.
Qed.

(* with a unit normal n = e1 x e2:  n . newell = 2 * signed area *)
Lemma newell_embed_dot : forall (o e1 e2 : T3) (L : list P2),
    dot3 (cross3 e1 e2) (cross3 e1 e2) = 1 ->
    dot3 (cross3 e1 e2) (newell (map (embed3 o e1 e2) L)) = 2 * area2 L.
Proof.
  intros o e1 e2 L Hn. rewrite newell_embed.
  replace (dot3 (cross3 e1 e2) (scale3 (2 * area2 L) (cross3 e1 e2)))
    with (2 * area2 L * dot3 (cross3 e1 e2) (cross3 e1 e2)) by t3.
  rewrite Hn; ring.
Qed.

(* 3-D <-> 2-D: the triple product of embedded points is the planar orientation *)
Lemma cross3_embed : forall (o e1 e2 : T3) (a b c : P2),
    cross3 (sub3 (embed3 o e1 e2 b) (embed3 o e1 e2 a)) (sub3 (embed3 o e1 e2 c) (embed3 o e1 e2 a))
    = scale3 (orient a b c) (cross3 e1 e2).
Proof. intros; unfold embed3, orient; t3. Qed.

Lemma norm3_scale_unit : forall (k : R) (n : T3), dot3 n n = 1 -> 0 <= k -> norm3 (scale3 k n) = k.
Proof.
  intros k n Hn Hk. unfold norm3.
  replace (dot3 (scale3 k n) (scale3 k n)) with (k * k * dot3 n n) by t3.
  rewrite Hn, Rmult_1_r. apply sqrt_square; exact Hk.
Qed.

(* if the cross product of two edge vectors is a non-negative multiple of the unit normal n
   (triangle counter-clockwise seen from n) then  n . ((b-a) x (c-a)) = |(b-a) x (c-a)| *)
Lemma tri_normal_pos : forall (n a b c : T3) (k : R),
    dot3 n n = 1 -> 0 <= k -> cross3 (sub3 b a) (sub3 c a) = scale3 k n ->
    dot3 n (cross3 (sub3 b a) (sub3 c a)) = norm3 (cross3 (sub3 b a) (sub3 c a)).
Proof.
  intros n a b c k Hn Hk H. rewrite H, norm3_scale_unit by assumption.
  replace (dot3 n (scale3 k n)) with (k * dot3 n n) by t3. rewrite Hn; ring.
Qed.

(* in plane coordinates: a counter-clockwise triangle *)
Lemma tri_normal_pos_embed : forall (o e1 e2 : T3) (a b c : P2),
    dot3 (cross3 e1 e2) (cross3 e1 e2) = 1 -> 0 <= orient a b c ->
    let A := embed3 o e1 e2 a in let B := embed3 o e1 e2 b in let C := embed3 o e1 e2 c in
    dot3 (cross3 e1 e2) (cross3 (sub3 B A) (sub3 C A)) = norm3 (cross3 (sub3 B A) (sub3 C A))
    /\ norm3 (cross3 (sub3 B A) (sub3 C A)) = orient a b c.
Proof.
  intros o e1 e2 a b c Hn Ho A B C. unfold A, B, C. split.
  - eapply tri_normal_pos; [exact Hn| exact Ho| apply cross3_embed].
  - rewrite cross3_embed. apply norm3_scale_unit; assumption.
Qed.

(* coordinate-free: u, w orthogonal to n  ==>  u x w is parallel to n *)
Lemma cross3_in_plane : forall n u w : T3,
    dot3 n u = 0 -> dot3 n w = 0 ->
    scale3 (dot3 n n) (cross3 u w) = scale3 (dot3 n (cross3 u w)) n.
Proof.
  intros n u w Hu Hw.
  assert (H : sub3 (scale3 (dot3 n n) (cross3 u w)) (scale3 (dot3 n (cross3 u w)) n)
              = cross3 n (sub3 (scale3 (dot3 n u) w) (scale3 (dot3 n w) u))) by t3.
  rewrite Hu, Hw in H.
  replace (cross3 n (sub3 (scale3 0 w) (scale3 0 u))) with zero3 in H by t3.
  revert H. generalize (scale3 (dot3 n n) (cross3 u w)) (scale3 (dot3 n (cross3 u w)) n).
  intros [[p1 p2] p3] [[q1 q2] q3]; unfold sub3, zero3, x3, y3, z3; simpl.
  intros H; inversion H. f_equal; [f_equal|]; lra.
Qed.

(* all vertices in the plane { p | n . (p - o) = 0 } with unit normal n: the Newell vector
   is parallel to n, newell L = (n . newell L) n; so |newell L| = |n . newell L| = 2 area *)
Lemma newell_in_plane : forall (n o : T3) (L : list T3),
    dot3 n n = 1 ->
    (forall p : T3, In p L -> dot3 n (sub3 p o) = 0) ->
    newell L = scale3 (dot3 n (newell L)) n.
Proof.
  intros n o L Hn Hpl.
  rewrite <- (newell_translate (opp3 o) L).
  assert (Hpl' : forall p, In p (map (add3 (opp3 o)) L) -> dot3 n p = 0).
  { intros p Hp. apply in_map_iff in Hp. destruct Hp as [p0 [Hp0 Hin]]. subst p.
    rewrite <- (Hpl p0 Hin). t3. }
  generalize dependent (map (add3 (opp3 o)) L). clear L Hpl. intros L Hpl.
  unfold newell, csum.
  assert (HE : forall a b, In (a, b) (edges_closed L) -> dot3 n a = 0 /\ dot3 n b = 0).
  { intros a b Hab. destruct (edges_closed_In _ _ _ Hab). split; apply Hpl; assumption. }
  induction (edges_closed L) as [|[a b] E IH].
  - rewrite esum_nil. t3.
  - rewrite esum_cons.
    destruct (HE a b (or_introl eq_refl)) as [Ha Hb].
    pose proof (cross3_in_plane n a b Ha Hb) as Hc. rewrite Hn in Hc.
    replace (scale3 1 (cross3 a b)) with (cross3 a b) in Hc by t3.
    rewrite IH at 1 by (intros; apply HE; now right).
    rewrite Hc at 1.
    generalize (esum zero3 add3 cross3 E) (cross3 a b). t3.
Qed.

(* ------------------------------------------------------------------------------------ *)
(** * Linear maps                                                                         *)

(* a 3x3 matrix given by its rows *)
Definition M3 : Type := (T3 * T3 * T3)%type.
Definition row1 (M : M3) : T3 := fst (fst M).
Definition row2 (M : M3) : T3 := snd (fst M).
Definition row3 (M : M3) : T3 := snd M.
Definition mapply (M : M3) (v : T3) : T3 := (dot3 (row1 M) v, dot3 (row2 M) v, dot3 (row3 M) v).
Definition col1 (M : M3) : T3 := (x3 (row1 M), x3 (row2 M), x3 (row3 M)).
Definition col2 (M : M3) : T3 := (y3 (row1 M), y3 (row2 M), y3 (row3 M)).
Definition col3 (M : M3) : T3 := (z3 (row1 M), z3 (row2 M), z3 (row3 M)).
Definition det33 (M : M3) : R := dot3 (row1 M) (cross3 (row2 M) (row3 M)).
(* cofactor matrix *)
Definition cof3 (M : M3) : M3 :=
  (cross3 (row2 M) (row3 M), cross3 (row3 M) (row1 M), cross3 (row1 M) (row2 M)).
(* M^T M = I : the columns are orthonormal *)
Definition orthogonal3 (M : M3) : Prop :=
  dot3 (col1 M) (col1 M) = 1 /\ dot3 (col2 M) (col2 M) = 1 /\ dot3 (col3 M) (col3 M) = 1 /\
  dot3 (col1 M) (col2 M) = 0 /\ dot3 (col1 M) (col3 M) = 0 /\ dot3 (col2 M) (col3 M) = 0.

Ltac m3 :=
  intros;
  repeat match goal with M : M3 |- _ => destruct M as [[[[? ?] ?] [[? ?] ?]] [[? ?] ?]] end;
  repeat match goal with v : T3 |- _ => destruct v as [[? ?] ?] end;
  try (apply t3_ext);
  unfold orthogonal3, det33, cof3, mapply, col1, col2, col3, row1, row2, row3,
    cross3, dot3, add3, sub3, opp3, mul3, scale3, zero3, one3, x3, y3, z3 in *; simpl in *.

Lemma mapply_add : forall (M : M3) (u v : T3), mapply M (add3 u v) = add3 (mapply M u) (mapply M v).
Proof. m3; ring. Qed.
Lemma mapply_zero : forall M : M3, mapply M zero3 = zero3.
Proof. m3; ring. Qed.

(* any linear map sends cross products to the cofactor matrix applied to the cross product *)
Lemma cross3_mapply : forall (M : M3) (a b : T3),
    cross3 (mapply M a) (mapply M b) = mapply (cof3 M) (cross3 a b).
Proof. m3; ring. Qed.

(* a rotation (M^T M = I, det M = 1) is its own cofactor matrix: it commutes with cross3 *)
Lemma cross3_rotation : forall (M : M3) (a b : T3),
    orthogonal3 M -> det33 M = 1 ->
    cross3 (mapply M a) (mapply M b) = mapply M (cross3 a b).
Proof.
  m3. all: destruct H as [H1 [H2 [H3 [H4 [H5 H6]]]]]; nsatz.
Qed.

Lemma newell_mapply_cof : forall (M : M3) (L : list T3),
    newell (map (mapply M) L) = mapply (cof3 M) (newell L).
Proof.
  intros M L. unfold newell. rewrite csum_map.
  rewrite (csum_ext zero3 add3 _ (fun a b => mapply (cof3 M) (cross3 a b)) L)
    by (intros; apply cross3_mapply).
  apply (csum_hom (A := T3) zero3 add3 zero3 add3 (mapply (cof3 M))).
  - apply mapply_zero.
  - apply mapply_add.
Qed.

(* rotating a chain rotates its Newell vector *)
Lemma newell_rotation : forall (M : M3) (L : list T3),
    orthogonal3 M -> det33 M = 1 ->
    newell (map (mapply M) L) = mapply M (newell L).
Proof.
  intros M L Ho Hd. unfold newell. rewrite csum_map.
  rewrite (csum_ext zero3 add3 _ (fun a b => mapply M (cross3 a b)) L)
    by (intros; apply cross3_rotation; assumption).
  apply (csum_hom (A := T3) zero3 add3 zero3 add3 (mapply M)).
  - apply mapply_zero.
  - apply mapply_add.
Qed.

(* ------------------------------------------------------------------------------------ *)
(** * Sanity checks of the sign conventions                                               *)

Example area2_unit_square : area2 [(0, 0); (1, 0); (1, 1); (0, 1)] = 1.
Proof. unfold area2, csum, esum, cross2; simpl. field. Qed.

Example newell_unit_square_xy :
  newell [(0, 0, 0); (1, 0, 0); (1, 1, 0); (0, 1, 0)] = (0, 0, 2).
Proof. unfold newell, csum, esum; simpl. t3. Qed.
