(* Theory/Winding.v — crossing contributions and winding numbers of closed polygonal chains
   in the plane, by ray casting, without division.  Depends on the Coq standard library and
   on Theory/Cyclic.v only (no geometry model).

   Conventions (all stated for points  P2 = R * R):
   * orient a b c = (b-a) x (c-a);  > 0  iff  c lies to the LEFT of the directed line a -> b
     (a,b,c counter-clockwise).
   * the ray from q with direction d is { q + t d | t > 0 };  hgt d q v = d x (v - q) is the
     signed height of v over the ray's line ( > 0 : v to the left of the ray).
   * the directed edge a -> b meets the ray's line at the point p = q + t d with
           orient a b q = t * (hgt d q b - hgt d q a)            (lemma [orient_ray_param])
     so for an upward edge (hgt a < 0 < hgt b)  t > 0 iff orient a b q > 0  and for a
     downward edge (hgt b < 0 < hgt a)  t > 0 iff orient a b q < 0.  Hence
           crd d a b q = +1  if hgt a < 0 < hgt b  and orient a b q > 0
                         -1  if hgt b < 0 < hgt a  and orient a b q < 0
                          0  otherwise.
     An edge with an endpoint exactly on the ray's line contributes 0: statements that need
     the geometric meaning assume [generic d q L] (no vertex of L on the ray's line).
   * wn d L q = Σ crd over the edges of the closed chain L (last -> first included);
     counter-clockwise simple polygons have wn = 1 inside, 0 outside. *)
From Coq Require Import Reals Lra Lia Psatz List ZArith Bool Ring.
From G3 Require Import Theory.Cyclic.
Import ListNotations.
Local Open Scope R_scope.

Definition P2 : Type := (R * R)%type.

(* twice the signed area of the triangle a b c; > 0 iff c is left of a -> b *)
Definition orient (a b c : P2) : R :=
  (fst b - fst a) * (snd c - snd a) - (snd b - snd a) * (fst c - fst a).

(* signed height of v over the line through q with direction d:  d x (v - q) *)
Definition hgt (d q v : P2) : R :=
  fst d * (snd v - snd q) - snd d * (fst v - fst q).

(* the point a + s (b - a) of the line through a and b *)
Definition lerp (a b : P2) (s : R) : P2 :=
  (fst a + s * (fst b - fst a), snd a + s * (snd b - snd a)).

Definition rlt (x y : R) : bool := if Rlt_dec x y then true else false.

Lemma rlt_true : forall x y : R, x < y -> rlt x y = true.
Proof. intros x y H; unfold rlt; destruct (Rlt_dec x y); [reflexivity|contradiction]. Qed.
Lemma rlt_false : forall x y : R, ~ x < y -> rlt x y = false.
Proof. intros x y H; unfold rlt; destruct (Rlt_dec x y); [contradiction|reflexivity]. Qed.
Lemma rlt_spec : forall x y : R, rlt x y = true <-> x < y.
Proof. intros x y; unfold rlt; destruct (Rlt_dec x y); split; auto; discriminate. Qed.

(* crossing contribution as a function of the two heights and the orientation *)
Definition crdR (ha hb o : R) : Z :=
  if rlt ha 0 && rlt 0 hb && rlt 0 o then 1%Z
  else if rlt hb 0 && rlt 0 ha && rlt o 0 then (-1)%Z
  else 0%Z.

(* crossing contribution of the directed edge a -> b to the ray from q with direction d *)
Definition crd (d a b q : P2) : Z := crdR (hgt d q a) (hgt d q b) (orient a b q).

(* winding number of the closed chain L about q, counted along the ray q + t d *)
Definition wn (d : P2) (L : list P2) (q : P2) : Z :=
  csum 0%Z Z.add (fun a b => crd d a b q) L.

(* number of edges of the closed chain that cross the ray (what a crossing counter computes) *)
Definition xcount (d : P2) (L : list P2) (q : P2) : nat :=
  length (filter (fun e => negb (Z.eqb (crd d (fst e) (snd e) q) 0)) (edges_closed L)).

(* q strictly inside the triangle a b c (either orientation) *)
Definition inside_tri (a b c q : P2) : Prop :=
  (0 < orient a b q /\ 0 < orient b c q /\ 0 < orient c a q) \/
  (orient a b q < 0 /\ orient b c q < 0 /\ orient c a q < 0).

Definition insb (al be ga : R) : bool :=
  (rlt 0 ga && rlt 0 al && rlt 0 be) || (rlt ga 0 && rlt al 0 && rlt be 0).

Definition inside_trib (a b c q : P2) : bool :=
  insb (orient b c q) (orient c a q) (orient a b q).

(* the ray's line misses every vertex of L *)
Definition generic (d q : P2) (L : list P2) : Prop := forall v : P2, In v L -> hgt d q v <> 0.

(* q lies on none of the three edge lines of the triangle *)
Definition off_lines (a b c q : P2) : Prop :=
  orient a b q <> 0 /\ orient b c q <> 0 /\ orient c a q <> 0.

Ltac rlt_cases :=
  repeat match goal with
         | |- context [Rlt_dec ?x ?y] => destruct (Rlt_dec x y); cbn [andb orb]
         end.

(* ------------------------------------------------------------------------------------ *)
(** * Elementary identities                                                               *)

Lemma orient_swap : forall a b c : P2, orient b a c = - orient a b c.
Proof. intros; unfold orient; ring. Qed.

Lemma orient_rot : forall a b c : P2, orient b c a = orient a b c.
Proof. intros; unfold orient; ring. Qed.

Lemma orient_self : forall a c : P2, orient a a c = 0.
Proof. intros; unfold orient; ring. Qed.

(* barycentric identity 1: the three sub-triangle areas add up to the triangle *)
Lemma orient_bary_sum : forall a b c q : P2,
    orient b c q + orient c a q + orient a b q = orient a b c.
Proof. intros; unfold orient; ring. Qed.

(* barycentric identity 2: hgt is affine and vanishes at q *)
Lemma orient_bary_hgt : forall d a b c q : P2,
    orient b c q * hgt d q a + orient c a q * hgt d q b + orient a b q * hgt d q c = 0.
Proof. intros; unfold orient, hgt; ring. Qed.

(* where the edge's line meets the ray's line: if p = q + t d lies on the line a b then
   orient a b q = t (hgt b - hgt a): the sign of orient a b q tells whether t > 0 *)
Lemma orient_ray_param : forall (d a b q : P2) (t : R),
    orient a b (fst q + t * fst d, snd q + t * snd d) = 0 ->
    orient a b q = t * (hgt d q b - hgt d q a).
Proof.
  intros d a b q t H. unfold orient, hgt in *. simpl in H.
  replace ((fst b - fst a) * (snd q - snd a) - (snd b - snd a) * (fst q - fst a))
    with (((fst b - fst a) * (snd q + t * snd d - snd a)
           - (snd b - snd a) * (fst q + t * fst d - fst a))
          + t * (fst d * (snd b - snd q) - snd d * (fst b - fst q)
                 - (fst d * (snd a - snd q) - snd d * (fst a - fst q)))) by ring.
  rewrite H. ring.
Qed.

Lemma hgt_lerp : forall (d q a b : P2) (s : R),
    hgt d q (lerp a b s) = (1 - s) * hgt d q a + s * hgt d q b.
Proof. intros; unfold hgt, lerp; simpl; ring. Qed.

Lemma orient_lerp_l : forall (a b q : P2) (s : R),
    orient a (lerp a b s) q = s * orient a b q.
Proof. intros; unfold orient, lerp; simpl; ring. Qed.

Lemma orient_lerp_r : forall (a b q : P2) (s : R),
    orient (lerp a b s) b q = (1 - s) * orient a b q.
Proof. intros; unfold orient, lerp; simpl; ring. Qed.

Lemma inside_trib_spec : forall a b c q : P2, inside_trib a b c q = true <-> inside_tri a b c q.
Proof.
  intros. unfold inside_trib, insb, inside_tri.
  rewrite orb_true_iff, !andb_true_iff, !rlt_spec. tauto.
Qed.

Lemma inside_trib_false : forall a b c q : P2, inside_trib a b c q = false <-> ~ inside_tri a b c q.
Proof.
  intros. rewrite <- inside_trib_spec. destruct (inside_trib a b c q); split; congruence.
Qed.

(* strict insideness does not depend on the order of the corners *)
Lemma inside_tri_rot : forall a b c q : P2, inside_tri b c a q <-> inside_tri a b c q.
Proof. intros; unfold inside_tri; tauto. Qed.

Lemma inside_tri_swap : forall a b c q : P2, inside_tri a c b q <-> inside_tri a b c q.
Proof.
  intros; unfold inside_tri.
  rewrite (orient_swap c a q), (orient_swap b c q), (orient_swap a b q). split; intros [H|H]; [right|left|right|left]; lra.
Qed.

(* a point strictly inside is off the edge lines, and the triangle is not degenerate *)
Lemma inside_tri_nondeg : forall a b c q : P2, inside_tri a b c q -> orient a b c <> 0.
Proof. intros a b c q H. pose proof (orient_bary_sum a b c q). destruct H; lra. Qed.

Lemma generic_incl : forall (d q : P2) (L L' : list P2),
    (forall v, In v L' -> In v L) -> generic d q L -> generic d q L'.
Proof. unfold generic; auto. Qed.

(* a generic ray has a non-zero direction *)
Lemma generic_dir_nonzero : forall (d q v : P2) (L : list P2),
    In v L -> generic d q L -> d <> (0, 0).
Proof.
  intros d q v L Hin Hg Hd. apply (Hg v Hin). subst d. unfold hgt; simpl; ring.
Qed.

(* ------------------------------------------------------------------------------------ *)
(** * 1. The crossing contribution of one edge                                            *)

Lemma crdR_range : forall ha hb o : R,
    crdR ha hb o = 1%Z \/ crdR ha hb o = (-1)%Z \/ crdR ha hb o = 0%Z.
Proof. intros; unfold crdR. repeat (match goal with |- context [if ?c then _ else _] => destruct c end); auto. Qed.

Lemma crdR_antisym : forall ha hb o : R, crdR ha hb o = (- crdR hb ha (- o))%Z.
Proof. intros. unfold crdR, rlt. rlt_cases; try reflexivity; exfalso; lra. Qed.

(* reversing an edge negates its contribution *)
Lemma crd_antisym : forall d a b q : P2, crd d a b q = (- crd d b a q)%Z.
Proof. intros; unfold crd. rewrite (orient_swap a b q). apply crdR_antisym. Qed.

(* a degenerate edge contributes nothing *)
Lemma crd_self : forall d a q : P2, crd d a a q = 0%Z.
Proof. intros; unfold crd, crdR, rlt. rlt_cases; try reflexivity; exfalso; lra. Qed.

Lemma crd_range : forall d a b q : P2,
    crd d a b q = 1%Z \/ crd d a b q = (-1)%Z \/ crd d a b q = 0%Z.
Proof. intros; apply crdR_range. Qed.

(* an edge with an endpoint on the ray's line contributes nothing *)
Lemma crd_on_line_l : forall d a b q : P2, hgt d q a = 0 -> crd d a b q = 0%Z.
Proof. intros d a b q H; unfold crd, crdR, rlt. rewrite H. rlt_cases; try reflexivity; exfalso; lra. Qed.
Lemma crd_on_line_r : forall d a b q : P2, hgt d q b = 0 -> crd d a b q = 0%Z.
Proof. intros d a b q H; unfold crd, crdR, rlt. rewrite H. rlt_cases; try reflexivity; exfalso; lra. Qed.

(** * 2. Subdividing an edge *)

Lemma crdR_split : forall ha hb o s : R, 0 < s < 1 -> (1 - s) * ha + s * hb <> 0 ->
    (crdR ha ((1 - s) * ha + s * hb) (s * o) + crdR ((1 - s) * ha + s * hb) hb ((1 - s) * o)
     = crdR ha hb o)%Z.
Proof.
  intros ha hb o s Hs Hm. unfold crdR, rlt.
  rlt_cases; try reflexivity; exfalso; nra.
Qed.

(* splitting the edge a -> b at an interior point m (not on the ray's line) preserves the
   total contribution *)
Lemma crd_split : forall (d a b q m : P2) (s : R),
    0 < s < 1 -> m = lerp a b s -> hgt d q m <> 0 ->
    (crd d a m q + crd d m b q = crd d a b q)%Z.
Proof.
  intros d a b q m s Hs Hm Hg. subst m. unfold crd.
  rewrite hgt_lerp in *. rewrite orient_lerp_l, orient_lerp_r.
  apply crdR_split; assumption.
Qed.

(* the trivial versions m = a and m = b (no hypothesis) *)
Lemma crd_split_l : forall d a b q : P2, (crd d a a q + crd d a b q = crd d a b q)%Z.
Proof. intros; rewrite crd_self; lia. Qed.
Lemma crd_split_r : forall d a b q : P2, (crd d a b q + crd d b b q = crd d a b q)%Z.
Proof. intros; rewrite crd_self; lia. Qed.

(* closed parameter range *)
Lemma crd_split_closed : forall (d a b q m : P2) (s : R),
    0 <= s <= 1 -> m = lerp a b s -> hgt d q m <> 0 ->
    (crd d a m q + crd d m b q = crd d a b q)%Z.
Proof.
  intros d a b q m s [[H0|H0] [H1|H1]] Hm Hg.
  - eapply crd_split; eauto.
  - assert (m = b) by (subst m s; unfold lerp; destruct b; simpl; f_equal; ring).
    subst m. rewrite H. apply crd_split_r.
  - assert (m = a) by (subst m; rewrite <- H0; unfold lerp; destruct a; simpl; f_equal; ring).
    rewrite H. apply crd_split_l.
  - lra.
Qed.

(* ------------------------------------------------------------------------------------ *)
(** * Winding number: unfolding                                                           *)

Lemma wn_nil : forall d q : P2, wn d [] q = 0%Z.
Proof. reflexivity. Qed.

Lemma wn_tri_unfold : forall d a b c q : P2,
    wn d [a; b; c] q = (crd d a b q + (crd d b c q + (crd d c a q + 0)))%Z.
Proof. reflexivity. Qed.

Lemma wn_single : forall d a q : P2, wn d [a] q = 0%Z.
Proof. intros; unfold wn, csum; simpl. rewrite crd_self; reflexivity. Qed.

Lemma wn_pair : forall d a b q : P2, wn d [a; b] q = 0%Z.
Proof. intros; unfold wn, csum; simpl. rewrite (crd_antisym d a b q); lia. Qed.

Local Notation crdf d q := (fun a b : P2 => crd d a b q).

Lemma crdf_anti : forall (d q : P2) (a b : P2), crdf d q a b = Z.opp (crdf d q b a).
Proof. intros; apply crd_antisym. Qed.
Lemma crdf_self : forall (d q : P2) (a : P2), crdf d q a a = 0%Z.
Proof. intros; apply crd_self. Qed.

(* ------------------------------------------------------------------------------------ *)
(** * 3. The winding number of a triangle                                                 *)

Lemma crdR_tri_pos : forall ha hb hc al be ga : R,
    ha <> 0 -> hb <> 0 -> hc <> 0 -> al <> 0 -> be <> 0 -> ga <> 0 ->
    0 < al + be + ga -> al * ha + be * hb + ga * hc = 0 ->
    (crdR ha hb ga + (crdR hb hc al + (crdR hc ha be + 0)) = if insb al be ga then 1 else 0)%Z.
Proof.
  intros. unfold crdR, insb, rlt.
  rlt_cases; try reflexivity; exfalso; nra.
Qed.

Lemma crdR_tri_neg : forall ha hb hc al be ga : R,
    ha <> 0 -> hb <> 0 -> hc <> 0 -> al <> 0 -> be <> 0 -> ga <> 0 ->
    al + be + ga < 0 -> al * ha + be * hb + ga * hc = 0 ->
    (crdR ha hb ga + (crdR hb hc al + (crdR hc ha be + 0)) = if insb al be ga then -1 else 0)%Z.
Proof.
  intros. unfold crdR, insb, rlt.
  rlt_cases; try reflexivity; exfalso; nra.
Qed.

Lemma crdR_tri_zero : forall ha hb hc al be ga : R,
    ha <> 0 -> hb <> 0 -> hc <> 0 ->
    al + be + ga = 0 -> al * ha + be * hb + ga * hc = 0 ->
    (crdR ha hb ga + (crdR hb hc al + (crdR hc ha be + 0)) = 0)%Z.
Proof.
  intros. unfold crdR, rlt.
  rlt_cases; try reflexivity; exfalso; nra.
Qed.

(* counter-clockwise triangle, generic ray, q off the three edge lines:
   the winding number is 1 if q is strictly inside and 0 otherwise — for EVERY direction d *)
Lemma wn_triangle : forall d a b c q : P2,
    0 < orient a b c -> generic d q [a; b; c] -> off_lines a b c q ->
    wn d [a; b; c] q = if inside_trib a b c q then 1%Z else 0%Z.
Proof.
  intros d a b c q Ho Hg [H1 [H2 H3]]. rewrite wn_tri_unfold. unfold crd, inside_trib.
  apply crdR_tri_pos; try assumption; try (apply Hg; simpl; tauto).
  - rewrite orient_bary_sum; exact Ho.
  - apply orient_bary_hgt.
Qed.

(* clockwise triangle: -1 inside, 0 outside *)
Lemma wn_triangle_neg : forall d a b c q : P2,
    orient a b c < 0 -> generic d q [a; b; c] -> off_lines a b c q ->
    wn d [a; b; c] q = if inside_trib a b c q then (-1)%Z else 0%Z.
Proof.
  intros d a b c q Ho Hg [H1 [H2 H3]]. rewrite wn_tri_unfold. unfold crd, inside_trib.
  apply crdR_tri_neg; try assumption; try (apply Hg; simpl; tauto).
  - rewrite orient_bary_sum; exact Ho.
  - apply orient_bary_hgt.
Qed.

(* degenerate (collinear) triangle: 0, wherever q is (only genericity of the ray is needed) *)
Lemma wn_triangle_degenerate : forall d a b c q : P2,
    orient a b c = 0 -> generic d q [a; b; c] -> wn d [a; b; c] q = 0%Z.
Proof.
  intros d a b c q Ho Hg. rewrite wn_tri_unfold. unfold crd.
  apply crdR_tri_zero; try (apply Hg; simpl; tauto).
  - rewrite orient_bary_sum; exact Ho.
  - apply orient_bary_hgt.
Qed.

(* closed form, free of the ray: the index of q with respect to the triangle a b c *)
Definition tri_index (a b c q : P2) : Z :=
  if inside_trib a b c q then (if rlt 0 (orient a b c) then 1%Z else (-1)%Z) else 0%Z.

(* for every generic ray the winding number of a triangle is its index *)
Lemma wn_triangle_index : forall d a b c q : P2,
    generic d q [a; b; c] -> (orient a b c <> 0 -> off_lines a b c q) ->
    wn d [a; b; c] q = tri_index a b c q.
Proof.
  intros d a b c q Hg Hoff. unfold tri_index.
  destruct (Rtotal_order (orient a b c) 0) as [Ho|[Ho|Ho]].
  - rewrite wn_triangle_neg; auto; [|apply Hoff; lra].
    rewrite (rlt_false 0 (orient a b c)) by lra. reflexivity.
  - rewrite wn_triangle_degenerate; auto.
    destruct (inside_trib a b c q) eqn:E; [|reflexivity].
    apply inside_trib_spec, inside_tri_nondeg in E. contradiction.
  - rewrite wn_triangle; auto; [|apply Hoff; lra].
    rewrite (rlt_true 0 (orient a b c)) by lra. reflexivity.
Qed.

(* the value for one triangle does not depend on the (generic) ray *)
Lemma wn_tri_ray_independent : forall d d' a b c q : P2,
    generic d q [a; b; c] -> generic d' q [a; b; c] ->
    (orient a b c <> 0 -> off_lines a b c q) ->
    wn d [a; b; c] q = wn d' [a; b; c] q.
Proof.
  intros d d' a b c q Hg Hg' Hoff.
  destruct (Rtotal_order (orient a b c) 0) as [Ho|[Ho|Ho]].
  - rewrite !wn_triangle_neg; auto; apply Hoff; lra.
  - rewrite !wn_triangle_degenerate; auto.
  - rewrite !wn_triangle; auto; apply Hoff; lra.
Qed.

(* ------------------------------------------------------------------------------------ *)
(** * 4. Cyclic shift and reversal                                                        *)

(* the starting vertex of a closed chain is irrelevant *)
Lemma wn_rotate : forall (d q : P2) (L : list P2), wn d (rotl L) q = wn d L q.
Proof. intros; unfold wn. apply (csum_rotl InitialRing.Zth). Qed.

Lemma wn_rot_app : forall (d q : P2) (l1 l2 : list P2), wn d (l1 ++ l2) q = wn d (l2 ++ l1) q.
Proof. intros; unfold wn. apply (csum_rot_app InitialRing.Zth). Qed.

(* reversing the direction of travel negates the winding number *)
Lemma wn_rev : forall (d q : P2) (L : list P2), wn d (rev L) q = (- wn d L q)%Z.
Proof. intros; unfold wn. apply (csum_rev InitialRing.Zth _ (crdf_anti d q)). Qed.

(* ------------------------------------------------------------------------------------ *)
(** * 5. Ear identity, removal of a vertex                                                *)

(* cutting the ear (v0,v1,v2) off the chain: pure algebra, any q, any d *)
Lemma wn_ear : forall (d q v0 v1 v2 : P2) (rest : list P2),
    wn d (v0 :: v1 :: v2 :: rest) q = (wn d (v0 :: v2 :: rest) q + wn d [v0; v1; v2] q)%Z.
Proof. intros; unfold wn. apply (csum_ear InitialRing.Zth _ (crdf_anti d q)). Qed.

(* removing the vertex v at the split point; neighbours are cyclic *)
Lemma wn_remove : forall (d q : P2) (pre post : list P2) (v : P2),
    wn d (pre ++ v :: post) q
    = (wn d (pre ++ post) q + wn d [last (post ++ pre) v; v; hd v (post ++ pre)] q)%Z.
Proof. intros; unfold wn. apply (csum_remove InitialRing.Zth _ (crdf_anti d q) (crdf_self d q)). Qed.

(* removing the vertex at index i; neighbours by cyclic indexing (i-1 mod n, i+1 mod n) *)
Lemma wn_remove_at : forall (d q dflt : P2) (L : list P2) (i : nat), (i < length L)%nat ->
    wn d L q = (wn d (remove_at i L) q
                + wn d [cprev dflt L i; nth i L dflt; cnext dflt L i] q)%Z.
Proof.
  intros; unfold wn.
  apply (csum_remove_at InitialRing.Zth _ (crdf_anti d q) (crdf_self d q)); assumption.
Qed.

(* ------------------------------------------------------------------------------------ *)
(** * 6. Fan decomposition; independence of the ray                                       *)

(* the winding number is the sum over the fan triangles (v0, v_i, v_i+1) *)
Lemma wn_fan : forall (d q v0 : P2) (vs : list P2),
    wn d (v0 :: vs) q = esum 0%Z Z.add (fun u w => wn d [v0; u; w] q) (edges_open vs).
Proof.
  intros; unfold wn.
  apply (csum_fan InitialRing.Zth _ (crdf_anti d q) (crdf_self d q)).
Qed.

(* closed form of the winding number, free of the ray: the sum of the indices of q with
   respect to the fan triangles *)
Lemma wn_fan_index : forall (d q v0 : P2) (vs : list P2),
    generic d q (v0 :: vs) ->
    (forall u w : P2, In (u, w) (edges_open vs) -> orient v0 u w <> 0 -> off_lines v0 u w q) ->
    wn d (v0 :: vs) q = esum 0%Z Z.add (fun u w => tri_index v0 u w q) (edges_open vs).
Proof.
  intros d q v0 vs Hg Hoff. rewrite wn_fan.
  apply esum_ext_in. intros u w Hin.
  destruct (edges_open_In _ _ _ Hin) as [Hu Hw].
  apply wn_triangle_index.
  - intros v [Hv|[Hv|[Hv|[]]]]; subst; apply Hg; simpl; auto.
  - apply Hoff; exact Hin.
Qed.

(* two generic rays from q count the same winding number, provided q is off the lines
   carrying the edges of the non-degenerate fan triangles (v0, v_i, v_i+1) *)
Lemma wn_ray_independent : forall (d d' q v0 : P2) (vs : list P2),
    generic d q (v0 :: vs) -> generic d' q (v0 :: vs) ->
    (forall u w : P2, In (u, w) (edges_open vs) -> orient v0 u w <> 0 -> off_lines v0 u w q) ->
    wn d (v0 :: vs) q = wn d' (v0 :: vs) q.
Proof.
  intros d d' q v0 vs Hg Hg' Hoff. rewrite !wn_fan.
  apply esum_ext_in. intros u w Hin.
  destruct (edges_open_In _ _ _ Hin) as [Hu Hw].
  assert (Hsub : forall v, In v [v0; u; w] -> In v (v0 :: vs)).
  { intros v [Hv|[Hv|[Hv|[]]]]; subst; simpl; auto. }
  apply wn_tri_ray_independent.
  - exact (generic_incl _ _ _ _ Hsub Hg).
  - exact (generic_incl _ _ _ _ Hsub Hg').
  - apply Hoff; exact Hin.
Qed.

(* ------------------------------------------------------------------------------------ *)
(** * 6'. Independence of the ray for every q off the (closed) edges                      *)

(* (a - q) . (b - q) *)
Definition dot2d (a b q : P2) : R :=
  (fst a - fst q) * (fst b - fst q) + (snd a - snd q) * (snd b - snd q).

(* q is not on the closed segment [a,b]: if it is on the line, a and b are strictly on the
   same side of it (division-free; for a = b it says q <> a) *)
Definition off_seg (a b q : P2) : Prop := orient a b q = 0 -> 0 < dot2d a b q.

Definition off_segs (a b c q : P2) : Prop := off_seg a b q /\ off_seg b c q /\ off_seg c a q.

(* q lies on no edge of the closed chain L *)
Definition off_edges (L : list P2) (q : P2) : Prop :=
  forall a b : P2, In (a, b) (edges_closed L) -> off_seg a b q.

Lemma off_lines_off_segs : forall a b c q : P2, off_lines a b c q -> off_segs a b c q.
Proof. intros a b c q [H1 [H2 H3]]; repeat split; intros H; contradiction. Qed.

(* soundness of the predicate: the points of the closed segment are not off it *)
Lemma lerp_not_off_seg : forall (a b : P2) (s : R), 0 <= s <= 1 -> ~ off_seg a b (lerp a b s).
Proof.
  intros a b s Hs H.
  assert (Ho : orient a b (lerp a b s) = 0) by (unfold orient, lerp; simpl; ring).
  specialize (H Ho).
  assert (Hd : dot2d a b (lerp a b s)
               = - (s * (1 - s)) * ((fst b - fst a) * (fst b - fst a) + (snd b - snd a) * (snd b - snd a)))
    by (unfold dot2d, lerp; simpl; ring).
  rewrite Hd in H.
  set (N := (fst b - fst a) * (fst b - fst a) + (snd b - snd a) * (snd b - snd a)) in *.
  assert (H1 : 0 <= s * (1 - s)) by (apply Rmult_le_pos; lra).
  assert (H2 : 0 <= N).
  { pose proof (Rle_0_sqr (fst b - fst a)). pose proof (Rle_0_sqr (snd b - snd a)).
    unfold Rsqr in *. unfold N. lra. }
  assert (H3 : 0 <= s * (1 - s) * N) by (apply Rmult_le_pos; assumption).
  replace (- (s * (1 - s)) * N) with (- (s * (1 - s) * N)) in H by ring.
  lra.
Qed.

(* completeness: a point that is not on the closed segment is off it *)
Lemma off_seg_of_not_lerp : forall a b q : P2,
    (forall s : R, 0 <= s <= 1 -> q <> lerp a b s) -> off_seg a b q.
Proof.
  intros a b q H Ho.
  destruct (Rlt_dec 0 (dot2d a b q)) as [|Hn]; [assumption|exfalso].
  remember (fst b - fst a) as ux. remember (snd b - snd a) as uy.
  remember (fst q - fst a) as rx. remember (snd q - snd a) as ry.
  assert (Hg : ux * ry - uy * rx = 0) by (subst; unfold orient in Ho; lra).
  assert (Hd : dot2d a b q = rx * rx + ry * ry - (rx * ux + ry * uy))
    by (subst; unfold dot2d; ring).
  rewrite Hd in Hn.
  set (N := ux * ux + uy * uy).
  assert (HN0 : 0 <= N) by (unfold N; nra).
  destruct (Req_dec N 0) as [HN|HN].
  - assert (Hx : ux = 0) by (unfold N in HN; nra).
    assert (Hy : uy = 0) by (unfold N in HN; nra).
    rewrite Hx, Hy in Hn.
    assert (Hrx : rx = 0) by nra. assert (Hry : ry = 0) by nra.
    apply (H 0); [lra|]. unfold lerp. destruct q as [qx qy]; simpl in *. f_equal; lra.
  - set (ru := rx * ux + ry * uy) in *.
    set (s := ru / N).
    assert (E1 : rx = s * ux).
    { assert (E : rx * N - ru * ux = - uy * (ux * ry - uy * rx)) by (unfold N, ru; ring).
      rewrite Hg in E. unfold s. field_simplify_eq; [lra|exact HN]. }
    assert (E2 : ry = s * uy).
    { assert (E : ry * N - ru * uy = ux * (ux * ry - uy * rx)) by (unfold N, ru; ring).
      rewrite Hg in E. unfold s. field_simplify_eq; [lra|exact HN]. }
    assert (Hs : ru = s * N) by (unfold s; field; exact HN).
    assert (Hq : rx * rx + ry * ry - ru = - (s * (1 - s) * N)).
    { rewrite Hs, E1, E2. unfold N. ring. }
    rewrite Hq in Hn.
    assert (HNp : 0 < N) by lra.
    assert (Hs01 : 0 <= s * (1 - s)).
    { destruct (Rle_dec 0 (s * (1 - s))) as [|Hneg]; [assumption|exfalso].
      assert (s * (1 - s) < 0) by lra.
      assert (Hp : 0 < (- (s * (1 - s))) * N) by (apply Rmult_lt_0_compat; lra).
      replace (- (s * (1 - s)) * N) with (- (s * (1 - s) * N)) in Hp by ring.
      lra. }
    apply (H s); [nra|].
    unfold lerp. destruct q as [qx qy]; simpl in *. rewrite <- Hequx, <- Hequy. f_equal; lra.
Qed.

Lemma off_seg_sym : forall a b q : P2, off_seg a b q -> off_seg b a q.
Proof.
  intros a b q H Ho. rewrite orient_swap in Ho.
  replace (dot2d b a q) with (dot2d a b q) by (unfold dot2d; ring). apply H; lra.
Qed.

Lemma off_seg_vertex : forall a b : P2, ~ off_seg a b a.
Proof.
  intros a b H. assert (Ho : orient a b a = 0) by (unfold orient; ring).
  specialize (H Ho). unfold dot2d in H. nra.
Qed.

Lemma seg_identity : forall a b c q : P2,
  let ux := fst b - fst a in let uy := snd b - snd a in
  let wx := fst c - fst a in let wy := snd c - snd a in
  let rx := fst q - fst a in let ry := snd q - snd a in
  let N := ux * ux + uy * uy in let ru := rx * ux + ry * uy in let uw := ux * wx + uy * wy in
  let De := orient a b c in let ga := orient a b q in
  N * (orient b c q * orient c a q * N + De * De * dot2d a b q)
  = ga * (- N * De * uw + 2 * ru * uw * De - N * ru * De - ga * uw * uw + ga * N * uw + De * De * ga).
Proof.
  intros. unfold N, ru, uw, De, ga, ux, uy, wx, wy, rx, ry, orient, dot2d. ring.
Qed.

(* q on the line of the edge a b of a proper triangle but outside the closed edge: the
   other two barycentric coordinates have opposite signs *)
Lemma off_seg_sign : forall a b c q : P2,
    orient a b c <> 0 -> orient a b q = 0 -> 0 < dot2d a b q ->
    orient b c q * orient c a q < 0.
Proof.
  intros a b c q Hd Hg HD.
  pose proof (seg_identity a b c q) as Hid. cbv zeta in Hid. rewrite Hg in Hid.
  set (N := (fst b - fst a) * (fst b - fst a) + (snd b - snd a) * (snd b - snd a)) in *.
  assert (HN : 0 < N).
  { destruct (Req_dec (fst b - fst a) 0) as [Hx|Hx]; destruct (Req_dec (snd b - snd a) 0) as [Hy|Hy];
      unfold N; try nra.
    exfalso; apply Hd. unfold orient. rewrite Hx, Hy. ring. }
  set (De := orient a b c) in *. set (D := dot2d a b q) in *.
  set (al := orient b c q) in *. set (be := orient c a q) in *.
  assert (H0 : al * be * N + De * De * D = 0).
  { apply (Rmult_eq_reg_l N); [|lra]. rewrite Hid. ring. }
  assert (H1 : 0 < De * De) by nra.
  assert (H2 : 0 < De * De * D) by (apply Rmult_lt_0_compat; assumption).
  assert (H3 : al * be * N < 0) by lra.
  destruct (Rlt_dec (al * be) 0) as [|Hn]; [assumption|].
  exfalso. assert (0 <= al * be * N) by (apply Rmult_le_pos; lra). lra.
Qed.

Lemma crdR_tri_gen : forall ha hb hc al be ga : R,
    ha <> 0 -> hb <> 0 -> hc <> 0 ->
    al + be + ga <> 0 -> al * ha + be * hb + ga * hc = 0 ->
    (ga = 0 -> al * be < 0) -> (al = 0 -> be * ga < 0) -> (be = 0 -> ga * al < 0) ->
    (crdR ha hb ga + (crdR hb hc al + (crdR hc ha be + 0))
     = if insb al be ga then (if rlt 0 (al + be + ga) then 1 else -1) else 0)%Z.
Proof.
  intros ha hb hc al be ga Ha Hb Hc Hd Hh Hga Hal Hbe.
  destruct (Req_dec ga 0) as [G|G]; [specialize (Hga G)|clear Hga];
  (destruct (Req_dec al 0) as [A|A]; [specialize (Hal A)|clear Hal]);
  (destruct (Req_dec be 0) as [B|B]; [specialize (Hbe B)|clear Hbe]); subst;
  try (exfalso; nra); unfold crdR, insb, rlt.
  all: rlt_cases; try reflexivity; exfalso; nra.
Qed.

(* the winding number of a triangle is its index for every generic ray, as soon as q is not
   on the boundary of the triangle (it may lie on the extension of an edge) *)
Lemma wn_triangle_index_seg : forall d a b c q : P2,
    generic d q [a; b; c] -> (orient a b c <> 0 -> off_segs a b c q) ->
    wn d [a; b; c] q = tri_index a b c q.
Proof.
  intros d a b c q Hg Hoff.
  destruct (Req_dec (orient a b c) 0) as [Ho|Ho].
  - apply wn_triangle_index; [assumption| intros; contradiction].
  - destruct (Hoff Ho) as [S1 [S2 S3]].
    rewrite wn_tri_unfold. unfold crd, tri_index, inside_trib.
    rewrite <- (orient_bary_sum a b c q).
    apply crdR_tri_gen; try (apply Hg; simpl; tauto).
    + rewrite orient_bary_sum; exact Ho.
    + apply orient_bary_hgt.
    + intros H. apply (off_seg_sign a b c q Ho H (S1 H)).
    + intros H. assert (Ho' : orient b c a <> 0) by (rewrite orient_rot; exact Ho).
      apply (off_seg_sign b c a q Ho' H (S2 H)).
    + intros H. assert (Ho' : orient c a b <> 0) by (do 2 rewrite orient_rot; exact Ho).
      apply (off_seg_sign c a b q Ho' H (S3 H)).
Qed.

(* cone decomposition from an arbitrary apex p *)
Lemma wn_cone : forall (d q p : P2) (L : list P2),
    wn d L q = esum 0%Z Z.add (fun a b => wn d [p; a; b] q) (edges_closed L).
Proof.
  intros; unfold wn. apply (csum_cone InitialRing.Zth _ (crdf_anti d q)).
Qed.

Lemma wn_cone_index : forall (d q p : P2) (L : list P2),
    generic d q (p :: L) ->
    (forall a b : P2, In (a, b) (edges_closed L) -> orient p a b <> 0 -> off_segs p a b q) ->
    wn d L q = esum 0%Z Z.add (fun a b => tri_index p a b q) (edges_closed L).
Proof.
  intros d q p L Hg Hoff. rewrite (wn_cone d q p).
  apply esum_ext_in. intros a b Hin.
  destruct (edges_closed_In _ _ _ Hin) as [Ha Hb].
  apply wn_triangle_index_seg.
  - intros v [Hv|[Hv|[Hv|[]]]]; subst; apply Hg; simpl; auto.
  - apply Hoff; exact Hin.
Qed.

(* finitely many non-zero vectors: some direction (1,t) is parallel to none of them *)
Lemma avoid_directions : forall ws : list P2,
    (forall w, In w ws -> w <> (0, 0)) ->
    exists t0 : R, forall t : R, t0 < t -> forall w, In w ws -> snd w - t * fst w <> 0.
Proof.
  induction ws as [|w ws IH]; intros Hnz.
  - exists 0. intros t _ w [].
  - destruct IH as [t0 Ht0]; [intros; apply Hnz; now right|].
    destruct (Req_dec (fst w) 0) as [Hx|Hx].
    + exists t0. intros t Ht w' [Hw|Hw]; [subst w'|apply Ht0; assumption].
      rewrite Hx, Rmult_0_r, Rminus_0_r. intros Hy.
      apply (Hnz w (or_introl eq_refl)). destruct w; simpl in *; subst; reflexivity.
    + exists (Rmax t0 (snd w / fst w)). intros t Ht w' [Hw|Hw].
      * subst w'. intros H.
        assert (Ht' : snd w / fst w < t) by (eapply Rle_lt_trans; [apply Rmax_r|exact Ht]).
        assert (t = snd w / fst w) by (field_simplify_eq; [lra|exact Hx]). lra.
      * apply Ht0; [|assumption]. eapply Rle_lt_trans; [apply Rmax_l|exact Ht].
Qed.

(* MAIN: two generic rays from a point q that lies on no (closed) edge of the chain count
   the same winding number.  No condition on diagonals, no Jordan curve theorem. *)
Lemma wn_ray_independent_strong : forall (d d' q : P2) (L : list P2),
    generic d q L -> generic d' q L -> off_edges L q ->
    wn d L q = wn d' L q.
Proof.
  intros d d' q L Hg Hg' Hoff.
  destruct L as [|v0 L0]; [reflexivity|]. set (L := v0 :: L0) in *.
  assert (Hd : d <> (0, 0)) by (apply (generic_dir_nonzero d q v0 L); [now left|assumption]).
  assert (Hd' : d' <> (0, 0)) by (apply (generic_dir_nonzero d' q v0 L); [now left|assumption]).
  assert (Hvq : forall a, In a L -> (fst a - fst q, snd a - snd q) <> (0, 0)).
  { intros a Ha Heq. destruct (edges_closed_In_src _ _ Ha) as [b Hb].
    apply (off_seg_vertex a b).
    assert (q = a) by (inversion Heq; destruct q, a; simpl in *; f_equal; lra).
    subst q. apply Hoff; exact Hb. }
  destruct (avoid_directions (d :: d' :: map (fun a => (fst a - fst q, snd a - snd q)) L))
    as [t0 Ht0].
  { intros w [Hw|[Hw|Hw]]; [subst; assumption|subst; assumption|].
    apply in_map_iff in Hw. destruct Hw as [a [Ha Hin]]. subst w. apply Hvq; exact Hin. }
  specialize (Ht0 (t0 + 1) ltac:(lra)). set (t := t0 + 1) in *.
  set (p := (fst q + 1, snd q + t)).
  assert (Hp : forall dd, In dd [d; d'] -> hgt dd q p <> 0).
  { intros dd Hdd. assert (Hin : In dd (d :: d' :: map (fun a => (fst a - fst q, snd a - snd q)) L))
      by (destruct Hdd as [H|[H|[]]]; subst; simpl; auto).
    pose proof (Ht0 dd Hin) as H. unfold hgt, p; simpl. intros H'. apply H. lra. }
  assert (Hpa : forall a, In a L -> orient p a q <> 0 /\ orient a p q <> 0).
  { intros a Ha.
    assert (Hin : In (fst a - fst q, snd a - snd q)
                     (d :: d' :: map (fun a => (fst a - fst q, snd a - snd q)) L))
      by (right; right; apply in_map_iff; exists a; auto).
    pose proof (Ht0 _ Hin) as H. simpl in H.
    assert (E : orient p a q = snd a - snd q - t * (fst a - fst q))
      by (unfold orient, p; simpl; ring).
    split; [rewrite E; exact H| rewrite orient_swap, E; lra]. }
  assert (Hcone : forall dd, In dd [d; d'] -> generic dd q L ->
            wn dd L q = esum 0%Z Z.add (fun a b => tri_index p a b q) (edges_closed L)).
  { intros dd Hdd Hgd. apply wn_cone_index.
    - intros v [Hv|Hv]; [subst v; apply Hp; exact Hdd| apply Hgd; exact Hv].
    - intros a b Hin _. destruct (edges_closed_In _ _ _ Hin) as [Ha Hb].
      repeat split.
      + intros H; exfalso; apply (proj1 (Hpa a Ha)); exact H.
      + apply Hoff; exact Hin.
      + intros H; exfalso; apply (proj2 (Hpa b Hb)); exact H. }
  rewrite (Hcone d), (Hcone d'); simpl; auto.
Qed.

(* ------------------------------------------------------------------------------------ *)
(** * 7. Ear decompositions: the winding number is the sum over the ears                  *)

Lemma wn_sum_triangles : forall (d q : P2) (L : list P2) (Ts : list (P2 * P2 * P2)),
    ear_decomp L Ts ->
    wn d L q = tsum 0%Z Z.add (fun a b c => wn d [a; b; c] q) Ts.
Proof.
  intros; unfold wn.
  apply (csum_ear_decomp InitialRing.Zth _ (crdf_anti d q) (crdf_self d q)); assumption.
Qed.

(* number of triangles of the list that contain q strictly *)
Definition count_inside (Ts : list (P2 * P2 * P2)) (q : P2) : nat :=
  length (filter (fun t => inside_trib (fst (fst t)) (snd (fst t)) (snd t) q) Ts).

Lemma count_inside_cons : forall (a b c : P2) (Ts : list (P2 * P2 * P2)) (q : P2),
    count_inside ((a, b, c) :: Ts) q
    = ((if inside_trib a b c q then 1 else 0) + count_inside Ts q)%nat.
Proof. intros; unfold count_inside; simpl. destruct (inside_trib a b c q); reflexivity. Qed.

Lemma count_inside_app : forall (T1 T2 : list (P2 * P2 * P2)) (q : P2),
    count_inside (T1 ++ T2) q = (count_inside T1 q + count_inside T2 q)%nat.
Proof. intros; unfold count_inside. rewrite filter_app, app_length; reflexivity. Qed.

(* all ears counter-clockwise, generic ray, q off all their edge lines:
   the winding number counts the ears containing q *)
Lemma tiling_of_positive_ears : forall (d q : P2) (L : list P2) (Ts : list (P2 * P2 * P2)),
    ear_decomp L Ts -> generic d q L ->
    (forall a b c : P2, In (a, b, c) Ts -> 0 < orient a b c /\ off_lines a b c q) ->
    wn d L q = Z.of_nat (count_inside Ts q).
Proof.
  intros d q L Ts Hed Hg Hpos.
  rewrite (wn_sum_triangles d q _ _ Hed).
  pose proof (ear_decomp_In Hed) as Hin. clear Hed.
  induction Ts as [|[[a b] c] Ts IH]; [reflexivity|].
  rewrite tsum_cons, count_inside_cons, Nat2Z.inj_add.
  rewrite IH.
  - f_equal. destruct (Hpos a b c (or_introl eq_refl)) as [Ho Hoff].
    rewrite wn_triangle; auto.
    + destruct (inside_trib a b c q); reflexivity.
    + destruct (Hin a b c (or_introl eq_refl)) as [Ha [Hb Hc]].
      intros v [Hv|[Hv|[Hv|[]]]]; subst; apply Hg; assumption.
  - intros; apply Hpos; now right.
  - intros; apply Hin; now right.
Qed.

(* consequences: where wn = 0 no ear contains q; where wn = 1 exactly one does; where
   wn <= 1 no two ears overlap at q *)
Lemma tiling_outside : forall (d q : P2) (L : list P2) (Ts : list (P2 * P2 * P2)),
    ear_decomp L Ts -> generic d q L ->
    (forall a b c : P2, In (a, b, c) Ts -> 0 < orient a b c /\ off_lines a b c q) ->
    wn d L q = 0%Z ->
    forall a b c : P2, In (a, b, c) Ts -> ~ inside_tri a b c q.
Proof.
  intros d q L Ts Hed Hg Hpos Hwn a b c Hin Hins.
  rewrite (tiling_of_positive_ears _ _ _ _ Hed Hg Hpos) in Hwn.
  apply in_split in Hin. destruct Hin as [l1 [l2 Hs]]. subst Ts.
  rewrite count_inside_app, count_inside_cons in Hwn.
  apply inside_trib_spec in Hins. rewrite Hins in Hwn. lia.
Qed.

Lemma tiling_no_overlap : forall (d q : P2) (L : list P2) (Ts : list (P2 * P2 * P2)),
    ear_decomp L Ts -> generic d q L ->
    (forall a b c : P2, In (a, b, c) Ts -> 0 < orient a b c /\ off_lines a b c q) ->
    (wn d L q <= 1)%Z ->
    forall (l1 l2 l3 : list (P2 * P2 * P2)) (a b c a' b' c' : P2),
      Ts = l1 ++ (a, b, c) :: l2 ++ (a', b', c') :: l3 ->
      inside_tri a b c q -> inside_tri a' b' c' q -> False.
Proof.
  intros d q L Ts Hed Hg Hpos Hwn l1 l2 l3 a b c a' b' c' Hs H1 H2.
  rewrite (tiling_of_positive_ears _ _ _ _ Hed Hg Hpos) in Hwn. subst Ts.
  rewrite count_inside_app, count_inside_cons, count_inside_app, count_inside_cons in Hwn.
  apply inside_trib_spec in H1. apply inside_trib_spec in H2. rewrite H1, H2 in Hwn. lia.
Qed.

Lemma tiling_cover : forall (d q : P2) (L : list P2) (Ts : list (P2 * P2 * P2)),
    ear_decomp L Ts -> generic d q L ->
    (forall a b c : P2, In (a, b, c) Ts -> 0 < orient a b c /\ off_lines a b c q) ->
    (0 < wn d L q)%Z ->
    exists a b c : P2, In (a, b, c) Ts /\ inside_tri a b c q.
Proof.
  intros d q L Ts Hed Hg Hpos Hwn.
  rewrite (tiling_of_positive_ears _ _ _ _ Hed Hg Hpos) in Hwn. clear Hed Hpos.
  induction Ts as [|[[a b] c] Ts IH]; [simpl in Hwn; lia|].
  rewrite count_inside_cons in Hwn.
  destruct (inside_trib a b c q) eqn:E.
  - exists a, b, c. split; [now left| apply inside_trib_spec; exact E].
  - destruct IH as [a' [b' [c' [Hin Hins]]]]; [simpl in Hwn; lia|].
    exists a', b', c'. split; [now right| exact Hins].
Qed.

(* ------------------------------------------------------------------------------------ *)
(** * 8. Merging a hole into an outer chain through a bridge                              *)

(* the bridge e -> h0 and h0 -> e cancel: pure algebra, any q, any d *)
Lemma wn_bridge : forall (d q : P2) (pre post hs : list P2) (e h0 : P2),
    wn d (pre ++ e :: h0 :: hs ++ h0 :: e :: post) q
    = (wn d (pre ++ e :: post) q + wn d (h0 :: hs) q)%Z.
Proof. intros; unfold wn. apply (csum_bridge InitialRing.Zth _ (crdf_anti d q)). Qed.

(* ------------------------------------------------------------------------------------ *)
(** * 9. Parity of the crossing count                                                     *)

Lemma wn_parity_xcount : forall (d q : P2) (L : list P2),
    Z.even (wn d L q) = Nat.even (xcount d L q).
Proof.
  intros d q L. unfold wn, xcount, csum.
  induction (edges_closed L) as [|[a b] E IH]; [reflexivity|].
  rewrite esum_cons. simpl filter. simpl fst; simpl snd.
  rewrite Z.even_add, IH.
  destruct (crd_range d a b q) as [H|[H|H]]; rewrite H; simpl negb; cbv iota.
  - simpl length. rewrite Nat.even_succ, <- Nat.negb_even.
    destruct (Nat.even _); reflexivity.
  - simpl length. rewrite Nat.even_succ, <- Nat.negb_even.
    destruct (Nat.even _); reflexivity.
  - destruct (Nat.even _); reflexivity.
Qed.

(* the crossing count is even iff the winding number is; in particular for wn in {0,1}
   "odd number of crossings" means wn = 1 *)
Lemma xcount_odd_wn : forall (d q : P2) (L : list P2),
    (0 <= wn d L q <= 1)%Z -> (Nat.odd (xcount d L q) = true <-> wn d L q = 1%Z).
Proof.
  intros d q L Hr. rewrite <- Nat.negb_even, <- wn_parity_xcount.
  assert (H : wn d L q = 0%Z \/ wn d L q = 1%Z) by lia.
  destruct H as [H|H]; rewrite H; simpl; split; intros; try discriminate; try lia; reflexivity.
Qed.

(* ------------------------------------------------------------------------------------ *)
(** * 10. Inserting a vertex on an edge                                                   *)

Lemma wn_insert_on_edge : forall (d q : P2) (pre post : list P2) (a b : P2) (s : R),
    0 < s < 1 -> hgt d q (lerp a b s) <> 0 ->
    wn d (pre ++ a :: lerp a b s :: b :: post) q = wn d (pre ++ a :: b :: post) q.
Proof.
  intros d q pre post a b s Hs Hg. unfold wn.
  apply (csum_insert InitialRing.Zth _ (crdf_anti d q) (crdf_self d q)).
  eapply crd_split; eauto.
Qed.

(* the same on the closing edge last -> first *)
Lemma wn_insert_on_closing_edge : forall (d q : P2) (mid : list P2) (a b : P2) (s : R),
    0 < s < 1 -> hgt d q (lerp a b s) <> 0 ->
    wn d (b :: mid ++ [a; lerp a b s]) q = wn d (b :: mid ++ [a]) q.
Proof.
  intros d q mid a b s Hs Hg. unfold wn.
  apply (csum_insert_closing InitialRing.Zth _ (crdf_anti d q) (crdf_self d q)).
  eapply crd_split; eauto.
Qed.

(* ------------------------------------------------------------------------------------ *)
(** * Sanity checks of the sign conventions (non-vacuity)                                 *)

Ltac wn_compute :=
  unfold wn, xcount, csum, esum, edges_closed, edges_to, crd, crdR, hgt, orient;
  cbn [fold_right fst snd hd filter];
  repeat match goal with
         | |- context [rlt ?x ?y] =>
           first [rewrite (rlt_true x y) by lra | rewrite (rlt_false x y) by lra]
         end;
  reflexivity.

(* the counter-clockwise unit square has winding number 1 about an interior point ... *)
Example wn_unit_square_inside : wn (1, 0) [(0, 0); (1, 0); (1, 1); (0, 1)] (/ 2, / 3) = 1%Z.
Proof. wn_compute. Qed.
(* ... 0 about an exterior point, also when the ray crosses the square twice ... *)
Example wn_unit_square_outside : wn (1, 0) [(0, 0); (1, 0); (1, 1); (0, 1)] (-1, / 3) = 0%Z.
Proof. wn_compute. Qed.
(* ... where a crossing counter sees two crossings *)
Example xcount_unit_square_outside :
  xcount (1, 0) [(0, 0); (1, 0); (1, 1); (0, 1)] (-1, / 3) = 2%nat.
Proof. wn_compute. Qed.
(* and the clockwise square has winding number -1 *)
Example wn_unit_square_cw : wn (1, 0) [(0, 1); (1, 1); (1, 0); (0, 0)] (/ 2, / 3) = (-1)%Z.
Proof. wn_compute. Qed.
