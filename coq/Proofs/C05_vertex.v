(** * C05 proofs, part 4: cast rays that pass EXACTLY through a vertex (or run parallel to an edge that is off the ray's line).
    [Proofs/C05_pointtest.v] proves the point test correct for GENERIC cast segments ([edge_generic]: the vertex rules of
    Loop3D::test_point are never consulted).  Here the vertex rules themselves are proved correct on the real-number
    instance:
      start rule  (t_a < EPSILON):  the crossing is counted iff  d x (b - a)  has the direction of the loop normal,
      end rule    (t_a = 1):        the crossing is counted iff  d x (a - b)  has the direction of the loop normal,
    which in exact arithmetic is the classical HALF-OPEN rule: an edge is counted iff one end point lies strictly to the
    left of the directed line of the ray and the other one on it or to its right (and the edge's line meets the ray).
    Chain:  (A) planar: the half-open crossing parity of a closed outline = parity of the number of fan triangles (any
                apex in general position) containing q -- WITHOUT any condition on where the ray's line meets the vertices;
            (B) [vis_same_direction] on vectors normal to the plane is the sign of the dot product (the absolute
                tolerances of [is_parallel] / [is_zero] are inactive there);
            (C) one edge: [edge_cross_count] = the half-open indicator [halfb3] under [edge_semigeneric];
            (D) the whole loop, segment -> ray (the live cast segment passes every vertex), plane coordinates;
            (E) assembled: fan parity, winding-number parity along any generic ray, membership.
    What stays excluded ([edge_semigeneric]): an INTERIOR crossing with edge parameter 0 < t_a < EPSILON = 2^-52 (the code
    applies the start-vertex rule to it and drops it when the edge leaves to the right: the exact-tier shadow of finding
    C05:vertex-grazing, see [sliver_edge_dropped]); a cast segment that runs ALONG an edge; an edge that is nearly but
    not exactly parallel to the cast segment (|(b - a) x d|^2 < 1e-5, finding family F11). *)
From Coq Require Import ZArith Reals Lra Lia Bool List Arith Psatz Nsatz Floats.
From G3 Require Import Model.Num Model.NumF Model.Base Model.Vec Model.Segment Model.Loop Theory.RInst Theory.LoopGeom
  Proofs.C05_pointtest Proofs.C05_examples Proofs.C05_winding.
From G3 Require Theory.Cyclic Theory.Winding.
Import ListNotations.
Local Open Scope R_scope.

(** ** (A) planar: the half-open rule *)
(** the RAY from q in direction d crosses the edge (a,b) in the half-open sense: one end point strictly to the left of the
    directed line (hgt2 > 0), the other one on it or to its right, and the edge's line meets the ray (not its backward
    prolongation) *)
Definition half_cross2 (q d a b : P2) : bool :=
  xorb (sgb (hgt2 q d a)) (sgb (hgt2 q d b)) && Rleb (orient2 a b q * det2 (sub2 b a) d) 0.

Lemma half_cross2_sym (q d a b : P2) : half_cross2 q d a b = half_cross2 q d b a.
Proof.
  unfold half_cross2. rewrite (xorb_comm (sgb (hgt2 q d a))). f_equal.
  replace (orient2 b a q * det2 (sub2 a b) d)%R with (orient2 a b q * det2 (sub2 b a) d)%R; [reflexivity|].
  destruct q as [q1 q2], d as [d1 d2], a as [a1 a2], b as [b1 b2]. unfold orient2, det2, sub2. cbn [fst snd]. ring.
Qed.

(** for a generic edge (no end point on the ray's line) the half-open rule is the proper-crossing rule *)
Lemma half_cross2_generic (q d a b : P2) :
  hgt2 q d a <> 0 -> hgt2 q d b <> 0 -> half_cross2 q d a b = ray_cross2 q d a b.
Proof.
  intros Ha Hb. unfold half_cross2, ray_cross2. f_equal. unfold sgb.
  destruct (Rltb 0 (hgt2 q d a)) eqn:Ea; [apply Rltb_true in Ea | apply Rltb_false in Ea];
  (destruct (Rltb 0 (hgt2 q d b)) eqn:Eb; [apply Rltb_true in Eb | apply Rltb_false in Eb]); cbn [xorb]; symmetry;
  first [apply Rltb_true; nra | apply Rltb_false; nra].
Qed.

(** sign bits of the half-open rule: x, y (the two heights) may vanish, A (the orientation of q w.r.t. the edge) may not *)
Lemma half_bits (x y A : R) : A <> 0 ->
  xorb (sgb x) (sgb y) && Rleb (A * (x - y)) 0 = xorb (sgb x) (sgb y) && xorb (sgb A) (sgb x).
Proof.
  intros HA. unfold sgb.
  destruct (Rltb 0 x) eqn:Ex; [apply Rltb_true in Ex | apply Rltb_false in Ex];
  (destruct (Rltb 0 y) eqn:Ey; [apply Rltb_true in Ey | apply Rltb_false in Ey]);
  (destruct (Rltb 0 A) eqn:Ea; [apply Rltb_true in Ea | apply Rltb_false in Ea]); cbn [xorb andb]; try reflexivity.
  all: first [apply Rleb_true; nra | apply Rleb_false; nra].
Qed.

Lemma sign_feasible_half (x1 y1 x2 y2 x3 y3 : R) :
  x1 <> 0 -> y1 <> 0 -> y2 <> 0 -> y3 <> 0 -> (x1 * y1 + x2 * y2 + x3 * y3 = 0)%R ->
  ~ (xorb (sgb x1) (sgb y1) = xorb (sgb x2) (sgb y2) /\ xorb (sgb x2) (sgb y2) = xorb (sgb x3) (sgb y3)).
Proof.
  intros H1 H1' H2' H3' E [E1 E2].
  assert (P : forall x y, y <> 0 -> (xorb (sgb x) (sgb y) = false -> 0 <= x * y) /\ (xorb (sgb x) (sgb y) = true -> x * y <= 0)).
  { intros x y Hy. unfold sgb.
    destruct (Rltb 0 x) eqn:Ex; [apply Rltb_true in Ex | apply Rltb_false in Ex];
    (destruct (Rltb 0 y) eqn:Ey; [apply Rltb_true in Ey | apply Rltb_false in Ey]); cbn [xorb]; split; intros K; try discriminate; nra. }
  destruct (P x1 y1 H1') as [Pa Pb]. destruct (P x2 y2 H2') as [Qa Qb]. destruct (P x3 y3 H3') as [Ra Rb].
  assert (N1 : (x1 * y1 <> 0)%R) by (intros K; apply Rmult_integral in K; tauto).
  destruct (xorb (sgb x1) (sgb y1)); rewrite <- E1 in E2; rewrite <- E1 in *; rewrite <- E2 in *.
  - pose proof (Pb eq_refl). pose proof (Qb eq_refl). pose proof (Rb eq_refl). lra.
  - pose proof (Pa eq_refl). pose proof (Qa eq_refl). pose proof (Ra eq_refl). lra.
Qed.

(** the triangle lemma for the half-open rule: for ANY ray from q whose line avoids the apex o, and q on none of the three
    edge lines, the ray crosses the boundary of the triangle (o,a,b) an odd number of times (half-open count) iff q is
    strictly inside -- the vertices a, b may lie on the ray *)
Theorem tri_parity_half (q d o a b : P2) :
  hgt2 q d o <> 0 ->
  orient2 o a q <> 0 -> orient2 a b q <> 0 -> orient2 b o q <> 0 ->
  xorb (xorb (half_cross2 q d o a) (half_cross2 q d a b)) (half_cross2 q d b o) = in_tri2 q o a b.
Proof.
  intros Ho A1 A2 A3. unfold half_cross2, in_tri2.
  set (ho := hgt2 q d o) in *. set (ha := hgt2 q d a) in *. set (hb := hgt2 q d b) in *.
  set (a1 := orient2 o a q) in *. set (a2 := orient2 a b q) in *. set (a3 := orient2 b o q) in *.
  assert (D1 : det2 (sub2 a o) d = (ho - ha)%R) by (unfold ho, ha, hgt2, det2, sub2; destruct q, d, o, a; cbn [fst snd]; ring).
  assert (D2 : det2 (sub2 b a) d = (ha - hb)%R) by (unfold ha, hb, hgt2, det2, sub2; destruct q, d, a, b; cbn [fst snd]; ring).
  assert (D3 : det2 (sub2 o b) d = (hb - ho)%R) by (unfold ho, hb, hgt2, det2, sub2; destruct q, d, o, b; cbn [fst snd]; ring).
  assert (PL : (ho * a2 + ha * a3 + hb * a1 = 0)%R).
  { unfold ho, ha, hb, a1, a2, a3, hgt2, orient2, det2, sub2. destruct q, d, o, a, b. cbn [fst snd]. ring. }
  rewrite D1, D2, D3. rewrite (half_bits ho ha a1), (half_bits ha hb a2), (half_bits hb ho a3) by assumption.
  rewrite !sgb_neg by assumption. fold (sgb a1) (sgb a2) (sgb a3).
  pose proof (sign_feasible_half ho a2 ha a3 hb a1 Ho A2 A3 A1 PL) as F.
  revert F. generalize (sgb ho) (sgb ha) (sgb hb) (sgb a1) (sgb a2) (sgb a3). intros [] [] [] [] [] []; cbn; intros F; try reflexivity; exfalso; apply F; split; reflexivity.
Qed.

(** fan decomposition for any symmetric edge predicate: the spokes from the apex are used twice *)
Section Fan.
  Variable f : P2 -> P2 -> bool.
  Hypothesis f_sym : forall a b, f a b = f b a.
  Definition tri_f (o a b : P2) : bool := xorb (xorb (f o a) (f a b)) (f b o).
  Lemma fan_chain_f (o : P2) (vs : list P2) (first : P2) :
    vs <> [] ->
    xpar (tri_f o) (edges_from vs first) = xorb (xpar f (edges_from vs first)) (xorb (f o (hd first vs)) (f o first)).
  Proof.
    induction vs as [|a tl IH]; [congruence|]. intros _. destruct tl as [|w tl].
    - cbn [edges_from xpar fold_right fst snd hd]. unfold tri_f. rewrite (f_sym first o).
      destruct (f o a), (f a first), (f o first); reflexivity.
    - change (edges_from (a :: w :: tl) first) with ((a, w) :: edges_from (w :: tl) first).
      cbn [xpar fold_right fst snd hd]. fold (xpar (tri_f o) (edges_from (w :: tl) first)). fold (xpar f (edges_from (w :: tl) first)).
      rewrite IH by discriminate. cbn [hd]. unfold tri_f. rewrite (f_sym w o).
      destruct (f o a), (f a w), (f o w), (f o first), (xpar f (edges_from (w :: tl) first)); reflexivity.
  Qed.
  Lemma fan_cycle_f (o : P2) (vs : list P2) : xpar (tri_f o) (cyc_edges2 vs) = xpar f (cyc_edges2 vs).
  Proof.
    destruct vs as [|v tl]; [reflexivity|]. unfold cyc_edges2. rewrite fan_chain_f by discriminate. cbn [hd].
    destruct (f o v), (xpar f (edges_from (v :: tl) v)); reflexivity.
  Qed.
End Fan.

Lemma in_cyc_edges2 (vs : list P2) (a b : P2) : In (a, b) (cyc_edges2 vs) -> In a vs /\ In b vs.
Proof.
  unfold cyc_edges2. intros Hin. destruct (in_edges_from _ _ _ _ Hin) as [I1 I2]. split; [exact I1|].
  destruct I2 as [I2|I2]; [exact I2|]. subst b. destruct vs as [|v tl]; [destruct I1 | left; reflexivity].
Qed.
Lemma orient2_swap (a b p : P2) : orient2 b a p = (- orient2 a b p)%R.
Proof. unfold orient2, det2, sub2. destruct a, b, p. cbn [fst snd]. ring. Qed.

(** the half-open crossing parity of ANY ray from q whose line avoids the apex = the parity of the number of fan triangles
    containing q.  Compared with [ray_parity_fan] the hypothesis "hgt2 q d v <> 0 for every vertex" is gone. *)
Theorem half_parity_fan (q d o : P2) (vs : list P2) :
  hgt2 q d o <> 0 ->
  (forall v, In v vs -> orient2 o v q <> 0) ->
  (forall a b, In (a, b) (cyc_edges2 vs) -> orient2 a b q <> 0) ->
  xpar (half_cross2 q d) (cyc_edges2 vs) = xpar (in_tri2 q o) (cyc_edges2 vs).
Proof.
  intros Ho Hv He. rewrite <- (fan_cycle_f (half_cross2 q d) (half_cross2_sym q d) o). apply xpar_ext. intros a b Hin.
  destruct (in_cyc_edges2 _ _ _ Hin) as [Ia Ib].
  apply tri_parity_half; [exact Ho | apply Hv; exact Ia | apply He; exact Hin|].
  intros E. apply (Hv b Ib). rewrite orient2_swap, E. ring.
Qed.

(** hence: the half-open count along a ray through vertices has the parity of the proper-crossing count along any
    generic ray d2 (apex in general position for both) *)
Corollary half_parity_is_generic_parity (q d d2 o : P2) (vs : list P2) :
  hgt2 q d o <> 0 -> hgt2 q d2 o <> 0 ->
  (forall v, In v vs -> hgt2 q d2 v <> 0 /\ orient2 o v q <> 0) ->
  (forall a b, In (a, b) (cyc_edges2 vs) -> orient2 a b q <> 0) ->
  xpar (half_cross2 q d) (cyc_edges2 vs) = xpar (ray_cross2 q d2) (cyc_edges2 vs).
Proof.
  intros Ho Ho2 Hv He. rewrite (half_parity_fan q d o), (ray_parity_fan q d2 o); try assumption; [reflexivity|].
  intros v Iv. exact (proj2 (Hv v Iv)).
Qed.

(** ** (B) [vis_same_direction] on vectors normal to the plane *)
Lemma ctiny_small : 0 < (ctiny : R) < / 1000.
Proof.
  unfold ctiny. rnum.
  assert (H : 0 < / IZR (2 ^ 52) < / 100000).
  { split; [apply Rinv_0_lt_compat; apply IZR_lt; reflexivity|]. apply Rinv_lt_contravar; [|apply IZR_lt; reflexivity].
    apply Rmult_lt_0_compat; [lra | apply IZR_lt; reflexivity]. }
  lra.
Qed.
(** a vector of squared length at least 1e-5 is not "zero" for [is_zero] (threshold 100 EPSILON per coordinate) *)
Lemma vis_zero_false_len (x : V) : / 100000 <= vlen2 x -> vis_zero x = false.
Proof.
  intros H. unfold vis_zero. rnum. pose proof ctiny_small as [T0 T1].
  destruct (Rltb (Rabs (vx x)) ctiny) eqn:E1; [apply Rltb_true in E1 | reflexivity].
  destruct (Rltb (Rabs (vy x)) ctiny) eqn:E2; [apply Rltb_true in E2 | reflexivity].
  destruct (Rltb (Rabs (vz x)) ctiny) eqn:E3; [apply Rltb_true in E3 | reflexivity].
  exfalso. destruct x as [x1 x2 x3]. unfold vlen2 in H. cbn [vx vy vz] in *. rnum.
  assert (Sq : forall t, Rabs t < ctiny -> (t * t < / 1000000)%R).
  { intros t Ht. replace (t * t)%R with (Rabs t * Rabs t)%R by (rewrite <- Rabs_mult; apply Rabs_pos_eq; nra). pose proof (Rabs_pos t). nra. }
  pose proof (Sq _ E1). pose proof (Sq _ E2). pose proof (Sq _ E3). lra.
Qed.
(** for two non-"zero" vectors that are exactly parallel (Lagrange: (x.n)^2 = |x|^2 |n|^2), [is_same_direction] is the
    sign of the dot product *)
Lemma same_direction_parallel (x n : V) :
  vis_zero n = false -> vis_zero x = false -> (vdot x n * vdot x n = vlen2 x * vlen2 n)%R ->
  vis_same_direction x n = Rltb 0 (vdot x n).
Proof.
  intros Hn Hx Hp. unfold vis_same_direction, vis_parallel. rewrite Hn, Hx. cbn [orb].
  replace (nabs (vdot x n * vdot x n - vlen2 x * vlen2 n) <? c1em5)%num with true; [reflexivity|].
  symmetry. unfold c1em5. rnum. apply Rltb_true. rewrite Hp. replace (vlen2 x * vlen2 n - vlen2 x * vlen2 n)%R with 0 by ring. rewrite Rabs_R0. lra.
Qed.
(** the side normals of the vertex rules: d x A with A, d in the plane with normal n *)
Lemma same_direction_cross (n d A : V) :
  vis_zero n = false -> vdot n d = 0 -> vdot n A = 0 -> / 100000 <= vlen2 (vcross A d) ->
  vis_same_direction (vcross d A) n = Rltb 0 (- vdot n (vcross A d)).
Proof.
  intros Hn Hd HA Hl.
  assert (E1 : vlen2 (vcross d A) = vlen2 (vcross A d)) by (destruct d as [d1 d2 d3], A as [A1 A2 A3]; unfold vlen2, vcross; cbn [vx vy vz]; rnum; ring).
  assert (E2 : vdot (vcross d A) n = (- vdot n (vcross A d))%R) by (destruct n as [n1 n2 n3], d as [d1 d2 d3], A as [A1 A2 A3]; unfold vdot, vcross; cbn [vx vy vz]; rnum; ring).
  assert (E3 : vlen2 n = vdot n n) by (destruct n as [n1 n2 n3]; unfold vlen2, vdot; cbn [vx vy vz]; rnum; ring).
  rewrite same_direction_parallel; [rewrite E2; reflexivity | exact Hn | apply vis_zero_false_len; rewrite E1; exact Hl |].
  rewrite E2, E1, E3. pose proof (cross_parallel_normal n A d HA Hd) as C. lra.
Qed.

(** ** (C) one edge *)
(** the hypotheses on one edge (a,b) for the cast segment q -> q + d in the plane with normal n.  Compared with
    [edge_generic]: crossings with edge parameter exactly 0 (the start vertex) and exactly 1 (the end vertex) are allowed,
    and so are edges exactly parallel to the cast segment that do not lie on its line.  Still excluded: the sliver
    0 < t_a < EPSILON, near-parallel edges, and a cast segment running along the edge. *)
Definition edge_semigeneric (n q d a b : V) : Prop :=
  vdot n (vsub b a) = 0 /\ vdot n (vsub a q) = 0 /\                      (* a and b lie in the plane of q *)
  ((/ 100000 <= vlen2 (vcross (vsub b a) d) /\                           (* not parallel within the library's tolerance ... *)
    ~ (0 < edge_param n q d a b < neps))                                 (* ... and no INTERIOR crossing within EPSILON of the start vertex *)
   \/ (vcross (vsub b a) d = vzero /\ sideof n q d a <> 0)).             (* or exactly parallel, and off the line of the cast segment *)

Lemma edge_generic_semigeneric (n q d a b : V) : edge_generic n q d a b -> edge_semigeneric n q d a b.
Proof.
  intros [Hab [Haq [Hpar [_ Hband]]]]. split; [exact Hab|]. split; [exact Haq|]. left. split; [exact Hpar|].
  intros [K1 K2]. apply Hband. split; [lra | exact K2].
Qed.

(** the half-open crossing indicator of the cast SEGMENT (3-D, sign form) ... *)
Definition halfb3 (n q d a b : V) : bool :=
  xorb (sgb (sideof n q d a)) (sgb (sideof n q d b)) && Rleb (orient3 n a b q * orient3 n a b (vadd q d)) 0.
(** ... and of the RAY *)
Definition halfray3 (n q d a b : V) : bool :=
  xorb (sgb (sideof n q d a)) (sgb (sideof n q d b)) && Rleb (orient3 n a b q * vdot n (vcross (vsub b a) d)) 0.

Lemma sideof_diff (n q d a b : V) : (sideof n q d a - sideof n q d b = vdot n (vcross (vsub b a) d))%R.
Proof.
  unfold sideof. destruct n as [n1 n2 n3], q as [q1 q2 q3], d as [d1 d2 d3], a as [a1 a2 a3], b as [b1 b2 b3].
  unfold vdot, vcross, vsub. cbn [vx vy vz]. rnum. ring.
Qed.
Lemma orient3_far (n q d a b : V) : orient3 n a b (vadd q d) = (orient3 n a b q + vdot n (vcross (vsub b a) d))%R.
Proof.
  unfold orient3. destruct n as [n1 n2 n3], q as [q1 q2 q3], d as [d1 d2 d3], a as [a1 a2 a3], b as [b1 b2 b3].
  unfold vdot, vcross, vsub, vadd. cbn [vx vy vz]. rnum. ring.
Qed.

(** an edge exactly parallel to the cast segment yields no intersection parameters *)
Lemma gip_parallel_none (a b q d : V) :
  vcross (vsub b a) d = vzero -> seg_get_intersection_pt (seg_new a b) (seg_new q (vadd q d)) = None.
Proof.
  intros Hc. unfold seg_get_intersection_pt, seg_get_intersection_pt_tag. cbn [sstart send seg_new]. rewrite vsub_vadd_l.
  destruct (vis_same_direction (vsub b a) d); [reflexivity|]. rewrite Hc.
  assert (L0 : vlen (vzero : V) = 0) by (unfold vlen, vlen2, vzero; cbn [vx vy vz]; rnum; replace (0 * 0 + 0 * 0 + 0 * 0)%R with 0 by ring; apply sqrt_0).
  assert (D0 : vdot (vsub a q) (vzero : V) = 0) by (unfold vdot, vzero; cbn [vx vy vz]; rnum; ring).
  rewrite L0, D0. unfold vzero, c1em5. cbn [vx vy vz]. rnum. rewrite Rabs_R0.
  rewrite (proj2 (Rltb_false (1 / 100000 * 0) 0)) by lra. rewrite (proj2 (Rltb_false (1 / 100000) 0)) by lra. reflexivity.
Qed.

(** CORE of the vertex rules: under [edge_semigeneric] the contribution of one edge to the crossing count is the
    half-open indicator.  The three branches of the code:  t_a = 0 <-> (a on the line, counted iff b strictly left),
    EPSILON <= t_a < 1 <-> (a, b strictly on opposite sides),  t_a = 1 <-> (b on the line, counted iff a strictly left). *)
Theorem edge_cross_count_semigeneric (L : Loop R) (q d a b : V) :
  let n := lnormal L in
  0 < vdot n n -> vis_zero n = false -> vdot n d = 0 ->
  seg_contains_point (seg_new a b) q = Ok false ->
  edge_semigeneric n q d a b ->
  edge_cross_count L q d (seg_new q (vadd q d)) a b = Ok (false, if halfb3 n q d a b then 1%nat else 0%nat).
Proof.
  cbn zeta. intros Hnn Hnz Hnd Hon [Hab [Haq Hcase]].
  unfold edge_cross_count. rewrite Hon. cbn [rbind].
  destruct Hcase as [[Hpar Hband] | [Hzero Hoff]].
  2:{ (* exactly parallel, off the line: no parameters, and both end points on the same side *)
      rewrite (gip_parallel_none a b q d Hzero). f_equal. f_equal. unfold halfb3.
      pose proof (sideof_diff (lnormal L) q d a b) as EW. rewrite Hzero in EW.
      assert (Z0 : vdot (lnormal L) (vzero : V) = 0) by (destruct (lnormal L) as [n1 n2 n3]; unfold vdot, vzero; cbn [vx vy vz]; rnum; ring).
      rewrite Z0 in EW. replace (sideof (lnormal L) q d b) with (sideof (lnormal L) q d a) by lra.
      rewrite xorb_nilpotent. reflexivity. }
  assert (T : vdot (vsub a q) (vcross (vsub b a) (vsub (vadd q d) q)) = 0).
  { rewrite vsub_vadd_l. apply (triple_in_plane (lnormal L)); assumption. }
  destruct (gip_some a b q (vadd q d)) as [ta [tb G]]; [rewrite vsub_vadd_l; exact Hpar | exact T|].
  rewrite G.
  pose proof (gip_solves a b q (vadd q d) ta tb G T) as E. rewrite vsub_vadd_l in E.
  destruct (cross_values (lnormal L) q d a b ta tb E) as [Sa [Sb [Oq Oe]]].
  (* the two side normals of the vertex rules *)
  unfold seg_as_vec, seg_as_rev_vec. cbn [seg_new sstart send].
  rewrite (same_direction_cross (lnormal L) d (vsub b a) Hnz Hnd Hab Hpar).
  assert (Hba : vdot (lnormal L) (vsub a b) = 0).
  { revert Hab. destruct (lnormal L) as [n1 n2 n3], a as [a1 a2 a3], b as [b1 b2 b3]. unfold vdot, vsub. cbn [vx vy vz]. rnum. lra. }
  assert (Erev : vcross (vsub a b) d = vneg (vcross (vsub b a) d)) by (destruct a as [a1 a2 a3], b as [b1 b2 b3], d as [d1 d2 d3]; vring).
  assert (Hpar' : / 100000 <= vlen2 (vcross (vsub a b) d)).
  { rewrite Erev. replace (vlen2 (vneg (vcross (vsub b a) d))) with (vlen2 (vcross (vsub b a) d)); [exact Hpar|].
    destruct (vcross (vsub b a) d) as [c1 c2 c3]. unfold vlen2, vneg. cbn [vx vy vz]. rnum. ring. }
  rewrite (same_direction_cross (lnormal L) d (vsub a b) Hnz Hnd Hba Hpar').
  rewrite Erev, vdot_neg_r.
  set (W := vdot (lnormal L) (vcross (vsub b a) d)) in *.
  assert (HW : (0 < W * W)%R).
  { unfold W. rewrite (cross_parallel_normal (lnormal L) (vsub b a) d Hab Hnd). apply Rmult_lt_0_compat; [exact Hnn | lra]. }
  assert (HW0 : W <> 0) by (intros E0; rewrite E0 in HW; lra).
  assert (Hp : edge_param (lnormal L) q d a b = ta).
  { unfold edge_param. rewrite Sa, Sb. replace (ta * W - (ta - 1) * W)%R with W by ring. field. exact HW0. }
  rewrite Hp in Hband. clear Hp. pose proof neps_pos as He. pose proof neps_lt_quarter as He4.
  remember (@neps R NumR) as eps eqn:Eeps. clear Eeps.
  unfold halfb3, sgb. rewrite Sa, Sb, Oq, Oe. unfold in01. rnum.
  replace (- tb * W * ((1 - tb) * W))%R with (- (tb * (1 - tb)) * (W * W))%R by ring.
  replace (- - W)%R with W by ring.
  set (WW := (W * W)%R) in *.
  destruct (Rleb 0 tb) eqn:B1; [apply Rleb_true in B1 | apply Rleb_false in B1];
  (destruct (Rleb tb 1) eqn:B2; [apply Rleb_true in B2 | apply Rleb_false in B2]);
  (destruct (Rleb 0 ta) eqn:A1; [apply Rleb_true in A1 | apply Rleb_false in A1]);
  (destruct (Rleb ta 1) eqn:A2; [apply Rleb_true in A2 | apply Rleb_false in A2]); cbn [andb].
  1:{ (* in range *)
      assert (P2 : (0 <= tb * (1 - tb))%R) by nra.
      rewrite (proj2 (Rleb_true (- (tb * (1 - tb)) * WW) 0)) by nra. rewrite andb_true_r.
      destruct (Rltb ta eps) eqn:C0; [apply Rltb_true in C0 | apply Rltb_false in C0].
      - (* start rule: t_a = 0 *)
        assert (ta = 0) by (destruct A1 as [K|K]; [exfalso; apply Hband; split; assumption | symmetry; exact K]). subst ta.
        replace (0 * W)%R with 0 by ring. replace ((0 - 1) * W)%R with (- W)%R by ring.
        rewrite (proj2 (Rltb_false 0 0)) by lra. rewrite xorb_false_l. reflexivity.
      - destruct (Rltb ta 1) eqn:C1; [apply Rltb_true in C1 | apply Rltb_false in C1].
        + (* interior crossing *)
          destruct (Rlt_or_le 0 W) as [Wp|Wn].
          * rewrite (proj2 (Rltb_true 0 (ta * W))) by nra. rewrite (proj2 (Rltb_false 0 ((ta - 1) * W))) by nra. reflexivity.
          * rewrite (proj2 (Rltb_false 0 (ta * W))) by nra. rewrite (proj2 (Rltb_true 0 ((ta - 1) * W))) by nra. reflexivity.
        + (* end rule: t_a = 1 *)
          assert (ta = 1) by lra. subst ta.
          replace (1 * W)%R with W by ring. replace ((1 - 1) * W)%R with 0 by ring.
          rewrite (proj2 (Rltb_false 0 0)) by lra. rewrite xorb_false_r. reflexivity. }
  all: f_equal; f_equal.
  all: destruct (Rleb (- (tb * (1 - tb)) * WW) 0) eqn:C2; [apply Rleb_true in C2 | rewrite andb_false_r; reflexivity].
  all: rewrite andb_true_r.
  all: destruct (Rltb 0 (ta * W)) eqn:C3; [apply Rltb_true in C3 | apply Rltb_false in C3];
       (destruct (Rltb 0 ((ta - 1) * W)) eqn:C4; [apply Rltb_true in C4 | apply Rltb_false in C4]); cbn [xorb]; try reflexivity.
  all: exfalso; clearbody WW; clearbody W.
  all: try (assert (P3 : (tb * (1 - tb) < 0)%R) by nra; assert (P4 : (0 < - (tb * (1 - tb)) * WW)%R) by (apply Rmult_lt_0_compat; lra); lra).
  all: destruct (Rlt_or_le 0 W) as [Wp|Wn]; nra.
Qed.

(** ** (D) the whole loop; segment -> ray; plane coordinates *)
(** for a closed, exactly planar loop, a point q of its plane that no edge "contains" and a SEMIGENERIC cast segment,
    the point test answers the parity of the half-open crossing count of the cast segment *)
Theorem test_point_gen_counts_half (rayf : Loop R -> V -> V) (L : Loop R) (q : V) :
  lclosed L = true -> (1 <= llen L)%nat ->
  let n := lnormal L in let d := rayf L q in
  vis_zero n = false -> 0 < vdot n n -> vdot n d = 0 ->
  (forall a b, In (a, b) (cyc_edges (verts L)) -> seg_contains_point (seg_new a b) q = Ok false /\ edge_semigeneric n q d a b) ->
  loop_test_point_gen rayf L q = Ok (Nat.odd (countb (halfb3 n q d) (cyc_edges (verts L)))).
Proof.
  cbn zeta. intros Hc Hlen Hz Hnn Hd He.
  destruct (verts L) as [|v0 rest] eqn:Hv; unfold llen in Hlen; rewrite Hv in Hlen; cbn [length] in Hlen; try lia.
  assert (E0 : exists w, In (v0, w) (cyc_edges (v0 :: rest))) by (eexists; left; reflexivity).
  destruct E0 as [w E0]. destruct (He _ _ E0) as [_ [_ [Haq _]]].
  unfold loop_test_point_gen. rewrite Hc. cbn [negb]. unfold loop_is_coplanar. rewrite Hv, Hz. cbn [rbind].
  replace (nabs (vdot (lnormal L) (vsub v0 q)) <? c1em7)%num with true
    by (symmetry; unfold c1em7; rnum; rewrite Haq, Rabs_R0; apply Rltb_true; lra).
  cbn [negb]. rewrite <- Hv.
  rewrite (count_crossings_spec L q (rayf L q) _ (halfb3 (lnormal L) q (rayf L q))).
  - cbn [rbind fst snd]. rewrite odd_rule. unfold cyc_edges. reflexivity.
  - intros a b Hin. destruct (He a b) as [Hon Hg]; [rewrite Hv in Hin; exact Hin|].
    apply edge_cross_count_semigeneric; assumption.
Qed.

(** a segment long enough to pass both end points of the edge: half-open crossing of the segment = of the ray *)
Lemma long_ray_half (sa sb oq W la lb dd : R) :
  W = (sa - sb)%R -> (lb * sa - la * sb = - oq * dd)%R -> 0 < dd -> la <= dd -> lb <= dd ->
  (0 < sa /\ sb <= 0) \/ (0 < sb /\ sa <= 0) ->
  (oq * W <= 0 <-> oq * (oq + W) <= 0)%R.
Proof.
  intros HW HI Hdd Hla Hlb Hs. split; [|intros; destruct Hs as [[S1 S2]|[S1 S2]]; nra].
  intros H. destruct Hs as [[S1 S2]|[S1 S2]].
  - assert (0 < W) by lra. assert (oq <= 0) by nra.
    assert ((- oq) * dd <= dd * W)%R by (rewrite <- HI; subst W; nra).
    assert (- oq <= W) by nra. nra.
  - assert (W < 0) by lra. assert (0 <= oq) by nra.
    assert (dd * W <= (- oq) * dd)%R by (rewrite <- HI; subst W; nra).
    assert (W <= - oq) by nra. nra.
Qed.
Theorem long_segment_is_ray_half (n q d a b : V) :
  vdot n d = 0 -> 0 < vdot d d ->
  vdot (vsub a q) d <= vdot d d -> vdot (vsub b q) d <= vdot d d ->
  halfb3 n q d a b = halfray3 n q d a b.
Proof.
  intros Hd Hdd Hla Hlb. unfold halfb3, halfray3.
  destruct (xorb (sgb (sideof n q d a)) (sgb (sideof n q d b))) eqn:C1; [|reflexivity]. cbn [andb].
  set (sa := sideof n q d a) in *. set (sb := sideof n q d b) in *. set (oq := orient3 n a b q) in *.
  set (W := vdot n (vcross (vsub b a) d)).
  assert (EW : W = (sa - sb)%R) by (unfold W, sa, sb; rewrite sideof_diff; reflexivity).
  assert (EO : (orient3 n a b (vadd q d) = oq + W)%R) by (unfold oq, W; apply orient3_far).
  assert (EI : (vdot (vsub b q) d * sa - vdot (vsub a q) d * sb = - oq * vdot d d)%R).
  { unfold sa, sb, oq, sideof, orient3. revert Hd. destruct n as [n1 n2 n3], q as [q1 q2 q3], d as [d1 d2 d3], a as [a1 a2 a3], b as [b1 b2 b3].
    unfold vdot, vcross, vsub. cbn [vx vy vz]. rnum. intros Hd. nsatz. }
  assert (Hs : (0 < sa /\ sb <= 0) \/ (0 < sb /\ sa <= 0)).
  { revert C1. unfold sgb. destruct (Rltb 0 sa) eqn:Ea; [apply Rltb_true in Ea | apply Rltb_false in Ea];
    (destruct (Rltb 0 sb) eqn:Eb; [apply Rltb_true in Eb | apply Rltb_false in Eb]); cbn [xorb]; intros K; try discriminate; [left | right]; split; assumption. }
  rewrite EO. pose proof (long_ray_half sa sb oq W _ _ _ EW EI Hdd Hla Hlb Hs) as [L1 L2].
  destruct (Rleb (oq * W) 0) eqn:C2; [apply Rleb_true in C2; apply Rleb_true; exact (L1 C2)|].
  apply Rleb_false in C2. apply Rleb_false. destruct (Rlt_or_le 0 (oq * (oq + W))) as [K|K]; [exact K | exfalso; pose proof (L2 K); lra].
Qed.
Theorem count_long_segment_is_ray_half (n q d : V) (vs : list V) :
  vdot n d = 0 -> 0 < vdot d d -> long_enough q d vs ->
  countb (halfb3 n q d) (cyc_edges vs) = countb (halfray3 n q d) (cyc_edges vs).
Proof.
  intros Hd Hdd Hl. apply countb_ext. intros a b Hin. destruct (in_cyc_edges _ _ _ Hin) as [Ia Ib].
  apply long_segment_is_ray_half; [exact Hd | exact Hdd | apply Hl; exact Ia | apply Hl; exact Ib].
Qed.

(** in 2-D coordinates of the plane the half-open predicate of the ray is the planar one *)
Theorem halfray3_plane (o e1 e2 q d a b : V) :
  halfray3 (vcross e1 e2) q d a b = half_cross2 (plane2 o e1 e2 q) (planev e1 e2 d) (plane2 o e1 e2 a) (plane2 o e1 e2 b).
Proof.
  unfold halfray3, half_cross2, sideof, orient3, hgt2, orient2. rewrite !binet_cauchy. rewrite !(planev_sub o). reflexivity.
Qed.

(** what the hypotheses on the edges give about the live ray: it lies in the plane, is not zero, and passes every vertex *)
Lemma sideof_scale_zero (n q dir a : V) (k : R) : vlen2 dir <= 0 -> sideof n q (vscale dir k) a = 0.
Proof.
  destruct n as [n1 n2 n3], q as [q1 q2 q3], dir as [d1 d2 d3], a as [a1 a2 a3]. unfold sideof, vlen2, vdot, vcross, vsub, vscale. cbn [vx vy vz]. rnum. intros K.
  assert (d1 = 0) by nra. assert (d2 = 0) by nra. assert (d3 = 0) by nra. subst. ring.
Qed.
Lemma loop_ray_facts_semi (L : Loop R) (q : V) :
  (2 <= llen L)%nat ->
  (forall a b, In (a, b) (cyc_edges (verts L)) -> edge_semigeneric (lnormal L) q (loop_ray L q) a b) ->
  vdot (lnormal L) (loop_ray L q) = 0 /\ 0 < vdot (loop_ray L q) (loop_ray L q) /\ long_enough q (loop_ray L q) (verts L).
Proof.
  intros Hlen He.
  assert (Hnd : vdot (lnormal L) (loop_ray L q) = 0).
  { unfold loop_ray. apply (test_ray_in_plane L q Hlen). intros a b Hin. destruct (He a b Hin) as [Hab [Haq _]]. split; assumption. }
  assert (Hdir : 0 < vlen2 (vsub q (vscale (vadd (vnth (verts L) O) (vnth (verts L) (S O))) nhalf))).
  { destruct (verts L) as [|v0 [|v1 rest]] eqn:Ev; unfold llen in Hlen; rewrite Ev in Hlen; cbn [length] in Hlen; try lia.
    assert (E0 : In (v0, v1) (cyc_edges (v0 :: v1 :: rest))) by (left; reflexivity).
    destruct (He _ _ E0) as [_ [_ Hcase]]. unfold loop_ray in Hcase. rewrite Ev in Hcase.
    match goal with |- 0 < ?x => destruct (Rle_or_lt x 0) as [K|K]; [exfalso | exact K] end.
    destruct Hcase as [[Hpar _] | [_ Hoff]].
    - rewrite (cross_scale_zero _ _ _ K) in Hpar. lra.
    - apply Hoff. apply sideof_scale_zero. exact K. }
  destruct (loop_ray_long_enough L q Hdir) as [Hl Hdd]. split; [exact Hnd|]. split; [lra | exact Hl].
Qed.

(** the live code: parity of the half-open crossings of the cast segment = of the ray *)
Theorem test_point_counts_half_ray_crossings (L : Loop R) (q : V) :
  lclosed L = true -> (2 <= llen L)%nat ->
  let n := lnormal L in let d := test_ray L q in
  vis_zero n = false -> 0 < vdot n n ->
  (forall a b, In (a, b) (cyc_edges (verts L)) -> seg_contains_point (seg_new a b) q = Ok false /\ edge_semigeneric n q d a b) ->
  loop_test_point L q = Ok (Nat.odd (countb (halfray3 n q d) (cyc_edges (verts L)))).
Proof.
  cbn zeta. intros Hc Hlen Hz Hnn He. rewrite test_point_is_gen. unfold test_ray in *.
  destruct (loop_ray_facts_semi L q Hlen (fun a b Hin => proj2 (He a b Hin))) as [Hnd [Hdd Hl]].
  rewrite (test_point_gen_counts_half loop_ray L q Hc ltac:(lia) Hz Hnn Hnd He). f_equal. f_equal.
  apply count_long_segment_is_ray_half; assumption.
Qed.

(** ** (E) assembled *)
Lemma in_edges_from_src {A : Type} (vs : list A) (first a : A) : In a vs -> exists b, In (a, b) (edges_from vs first).
Proof.
  induction vs as [|v tl IH]; [intros []|]. cbn [edges_from]. intros [E|H].
  - subst v. eexists. left. reflexivity.
  - destruct (IH H) as [b Hb]. exists b. right. exact Hb.
Qed.

(** [test_point] = parity of the number of fan triangles containing q, for every semigeneric cast segment: compared with
    [test_point_fan_parity] the hypothesis [edge_generic] is weakened to [edge_semigeneric] and the condition
    "hgt2 q' d' (pr v) <> 0 for every vertex" (the ray's line avoids the vertices) is gone *)
Theorem test_point_vertex_fan_parity (L : Loop R) (q o e1 e2 : V) (apex : P2) :
  lclosed L = true -> (2 <= llen L)%nat ->
  let n := lnormal L in let d := test_ray L q in
  let pr := plane2 o e1 e2 in let q' := pr q in let d' := planev e1 e2 d in
  vis_zero n = false -> 0 < vdot n n -> n = vcross e1 e2 ->
  (forall a b, In (a, b) (cyc_edges (verts L)) -> seg_contains_point (seg_new a b) q = Ok false /\ edge_semigeneric n q d a b) ->
  hgt2 q' d' apex <> 0 ->
  (forall v, In v (verts L) -> orient2 apex (pr v) q' <> 0) ->
  (forall a b, In (a, b) (cyc_edges (verts L)) -> orient2 (pr a) (pr b) q' <> 0) ->
  loop_test_point L q = Ok (xpar (in_tri2 q' apex) (cyc_edges2 (map pr (verts L)))).
Proof.
  cbn zeta. intros Hc Hlen Hz Hnn Hn He Hap Hv Hed.
  rewrite (test_point_counts_half_ray_crossings L q Hc Hlen Hz Hnn He). f_equal. rewrite odd_countb.
  rewrite <- (half_parity_fan (plane2 o e1 e2 q) (planev e1 e2 (test_ray L q)) apex).
  - rewrite cyc_edges_map, xpar_map. apply xpar_ext. intros a b _. rewrite Hn. apply halfray3_plane.
  - exact Hap.
  - intros v Iv. apply in_map_iff in Iv. destruct Iv as [u [Eu Iu]]. subst v. apply Hv. exact Iu.
  - intros a b Iab. rewrite cyc_edges_map in Iab. apply in_map_iff in Iab. destruct Iab as [[u w] [E Iu]]. cbn [fst snd] in E. injection E as Ea Eb. subst a b.
    apply Hed. exact Iu.
Qed.

(** an apex in general position for two directions and finitely many vertices exists *)
Lemma exists_apex (q d d2 : P2) (vs : list P2) :
  d <> (0, 0) -> d2 <> (0, 0) -> (forall v, In v vs -> v <> q) ->
  exists p, hgt2 q d p <> 0 /\ hgt2 q d2 p <> 0 /\ forall v, In v vs -> orient2 p v q <> 0.
Proof.
  intros Hd Hd2 Hv.
  destruct (Winding.avoid_directions (d :: d2 :: map (fun a => (fst a - fst q, snd a - snd q)%R) vs)) as [t0 Ht0].
  { intros w [Hw|[Hw|Hw]]; [subst; assumption | subst; assumption |].
    apply in_map_iff in Hw. destruct Hw as [a [Ha Hin]]. subst w. intros Heq. apply (Hv a Hin).
    injection Heq as E1 E2. destruct q as [q1 q2], a as [a1 a2]; cbn [fst snd] in *. f_equal; lra. }
  specialize (Ht0 (t0 + 1)%R ltac:(lra)). set (t := (t0 + 1)%R) in *.
  assert (Eh : forall dd, hgt2 q dd (fst q + 1, snd q + t)%R = (- (snd dd - t * fst dd))%R).
  { intros dd. unfold hgt2, det2, sub2. cbn [fst snd]. ring. }
  exists (fst q + 1, snd q + t)%R. split; [|split].
  - rewrite Eh. pose proof (Ht0 d (or_introl eq_refl)). lra.
  - rewrite Eh. pose proof (Ht0 d2 (or_intror (or_introl eq_refl))). lra.
  - intros v Iv.
    assert (Hin : In (fst v - fst q, snd v - snd q)%R (d :: d2 :: map (fun a => (fst a - fst q, snd a - snd q)%R) vs))
      by (right; right; apply in_map_iff; exists v; split; [reflexivity | exact Iv]).
    pose proof (Ht0 _ Hin) as H. cbn [fst snd] in H.
    replace (orient2 (fst q + 1, snd q + t)%R v q) with (snd v - snd q - t * (fst v - fst q))%R; [exact H|].
    unfold orient2, det2, sub2. cbn [fst snd]. ring.
Qed.

(** a direction whose line through q avoids finitely many points (other than q) exists *)
Lemma generic_direction_exists (q : P2) (vs : list P2) :
  (forall v, In v vs -> v <> q) -> exists d2, Winding.generic d2 q vs.
Proof.
  intros Hv.
  destruct (Winding.avoid_directions (map (fun a => (fst a - fst q, snd a - snd q)%R) vs)) as [t0 Ht0].
  { intros w Hw. apply in_map_iff in Hw. destruct Hw as [a [Ha Hin]]. subst w. intros Heq. apply (Hv a Hin).
    injection Heq as E1 E2. destruct q as [q1 q2], a as [a1 a2]; cbn [fst snd] in *. f_equal; lra. }
  specialize (Ht0 (t0 + 1)%R ltac:(lra)). exists (1, t0 + 1)%R. intros v Iv.
  assert (Hin : In (fst v - fst q, snd v - snd q)%R (map (fun a => (fst a - fst q, snd a - snd q)%R) vs))
    by (apply in_map_iff; exists v; split; [reflexivity | exact Iv]).
  pose proof (Ht0 _ Hin) as H. cbn [fst snd] in H. unfold Winding.hgt. cbn [fst snd]. lra.
Qed.

(** the planar image of the cast segment is not zero; no projected vertex is q' *)
Lemma semigeneric_planar_facts (L : Loop R) (q o e1 e2 : V) :
  (2 <= llen L)%nat ->
  let n := lnormal L in let d := test_ray L q in
  let pr := plane2 o e1 e2 in let q' := pr q in let d' := planev e1 e2 d in
  0 < vdot n n -> n = vcross e1 e2 ->
  (forall a b, In (a, b) (cyc_edges (verts L)) -> edge_semigeneric n q d a b) ->
  (forall a b, In (a, b) (cyc_edges (verts L)) -> orient2 (pr a) (pr b) q' <> 0) ->
  d' <> (0, 0) /\ (forall v, In v (map pr (verts L)) -> v <> q').
Proof.
  cbn zeta. intros Hlen Hnn Hn He Hed. unfold test_ray in *. split.
  - destruct (loop_ray_facts_semi L q Hlen He) as [Hnd _].
    destruct (verts L) as [|v0 [|v1 rest]] eqn:Ev; unfold llen in Hlen; rewrite Ev in Hlen; cbn [length] in Hlen; try lia.
    assert (E0 : In (v0, v1) (cyc_edges (v0 :: v1 :: rest))) by (left; reflexivity).
    destruct (He _ _ E0) as [Hab [_ Hcase]]. intros Z.
    destruct Hcase as [[Hpar _] | [_ Hoff]].
    + pose proof (cross_parallel_normal (lnormal L) (vsub v1 v0) (loop_ray L q) Hab Hnd) as C.
      assert (W0 : vdot (lnormal L) (vcross (vsub v1 v0) (loop_ray L q)) = 0).
      { rewrite Hn at 1. rewrite binet_cauchy, Z. unfold det2. cbn [fst snd]. ring. }
      rewrite W0 in C. nra.
    + apply Hoff. unfold sideof. rewrite Hn at 1. rewrite binet_cauchy, Z. unfold det2. cbn [fst snd]. ring.
  - intros v Iv Ev. apply in_map_iff in Iv. destruct Iv as [u [Eu Iu]]. subst v.
    destruct (in_edges_from_src (verts L) (vnth (verts L) O) u Iu) as [w Hw]. fold (cyc_edges (verts L)) in Hw.
    apply (Hed u w Hw). rewrite Ev. unfold orient2, det2, sub2. cbn [fst snd]. ring.
Qed.

(** [test_point] = parity of the winding number of the outline about q, counted along ANY generic ray d2 (the code's own
    ray may pass through vertices, where [Winding.crd] is not meaningful; the winding number does not depend on the
    generic ray used to count it: [Winding.wn_ray_independent_strong]) *)
Theorem test_point_vertex_wn_parity (L : Loop R) (q o e1 e2 : V) (d2 : P2) :
  lclosed L = true -> (2 <= llen L)%nat ->
  let n := lnormal L in let d := test_ray L q in
  let pr := plane2 o e1 e2 in let q' := pr q in
  vis_zero n = false -> 0 < vdot n n -> n = vcross e1 e2 ->
  (forall a b, In (a, b) (cyc_edges (verts L)) -> seg_contains_point (seg_new a b) q = Ok false /\ edge_semigeneric n q d a b) ->
  (forall a b, In (a, b) (cyc_edges (verts L)) -> orient2 (pr a) (pr b) q' <> 0) ->
  Winding.generic d2 q' (map pr (verts L)) ->
  loop_test_point L q = Ok (Z.odd (Winding.wn d2 (map pr (verts L)) q')).
Proof.
  cbn zeta. intros Hc Hlen Hz Hnn Hn He Hed G2.
  destruct (semigeneric_planar_facts L q o e1 e2 Hlen Hnn Hn (fun a b Hin => proj2 (He a b Hin)) Hed) as [Hd' Hvq].
  assert (Hd2 : d2 <> (0, 0)).
  { destruct (verts L) as [|v0 rest] eqn:Ev; [unfold llen in Hlen; rewrite Ev in Hlen; cbn [length] in Hlen; lia|].
    apply (Winding.generic_dir_nonzero d2 (plane2 o e1 e2 q) (plane2 o e1 e2 v0) (map (plane2 o e1 e2) (v0 :: rest))); [left; reflexivity | exact G2]. }
  destruct (exists_apex (plane2 o e1 e2 q) (planev e1 e2 (test_ray L q)) d2 (map (plane2 o e1 e2) (verts L)) Hd' Hd2 Hvq) as [p [P1 [P2' P3]]].
  rewrite (test_point_vertex_fan_parity L q o e1 e2 p Hc Hlen Hz Hnn Hn He P1).
  2:{ intros v Iv. apply P3. apply in_map. exact Iv. }
  2:{ exact Hed. }
  f_equal.
  assert (Hed2 : forall a b, In (a, b) (cyc_edges2 (map (plane2 o e1 e2) (verts L))) -> orient2 a b (plane2 o e1 e2 q) <> 0).
  { intros a b Iab. rewrite cyc_edges_map in Iab. apply in_map_iff in Iab. destruct Iab as [[u w] [E Iu]]. cbn [fst snd] in E. injection E as Ea Eb. subst a b.
    apply Hed. exact Iu. }
  rewrite <- (ray_parity_fan (plane2 o e1 e2 q) d2 p).
  - apply ray_parity_is_wn_parity. exact Hed2.
  - exact P2'.
  - intros v Iv. split; [rewrite hgt2_is_hgt; apply G2; exact Iv | apply P3; exact Iv].
  - exact Hed2.
Qed.

(** for an outline whose winding numbers are 0 or 1: inside <-> wn = 1 *)
Corollary test_point_vertex_is_membership (L : Loop R) (q o e1 e2 : V) (d2 : P2) :
  lclosed L = true -> (2 <= llen L)%nat ->
  let n := lnormal L in let d := test_ray L q in
  let pr := plane2 o e1 e2 in let q' := pr q in
  vis_zero n = false -> 0 < vdot n n -> n = vcross e1 e2 ->
  (forall a b, In (a, b) (cyc_edges (verts L)) -> seg_contains_point (seg_new a b) q = Ok false /\ edge_semigeneric n q d a b) ->
  (forall a b, In (a, b) (cyc_edges (verts L)) -> orient2 (pr a) (pr b) q' <> 0) ->
  Winding.generic d2 q' (map pr (verts L)) ->
  (0 <= Winding.wn d2 (map pr (verts L)) q' <= 1)%Z ->
  (loop_test_point L q = Ok true <-> Winding.wn d2 (map pr (verts L)) q' = 1%Z).
Proof.
  cbn zeta. intros Hc Hlen Hz Hnn Hn He Hed G2 Hw.
  rewrite (test_point_vertex_wn_parity L q o e1 e2 d2 Hc Hlen Hz Hnn Hn He Hed G2).
  set (w := Winding.wn _ _ _) in *. assert (H : w = 0%Z \/ w = 1%Z) by lia.
  destruct H as [H|H]; rewrite H; cbn; split; intros K; try discriminate; try lia; reflexivity.
Qed.

(** a generic counting ray always exists under these hypotheses, so the statement above is never vacuous in d2 *)
Theorem test_point_vertex_wn_parity_exists (L : Loop R) (q o e1 e2 : V) :
  lclosed L = true -> (2 <= llen L)%nat ->
  let n := lnormal L in let d := test_ray L q in
  let pr := plane2 o e1 e2 in let q' := pr q in
  vis_zero n = false -> 0 < vdot n n -> n = vcross e1 e2 ->
  (forall a b, In (a, b) (cyc_edges (verts L)) -> seg_contains_point (seg_new a b) q = Ok false /\ edge_semigeneric n q d a b) ->
  (forall a b, In (a, b) (cyc_edges (verts L)) -> orient2 (pr a) (pr b) q' <> 0) ->
  exists d2, Winding.generic d2 q' (map pr (verts L)) /\ loop_test_point L q = Ok (Z.odd (Winding.wn d2 (map pr (verts L)) q')).
Proof.
  cbn zeta. intros Hc Hlen Hz Hnn Hn He Hed.
  destruct (semigeneric_planar_facts L q o e1 e2 Hlen Hnn Hn (fun a b Hin => proj2 (He a b Hin)) Hed) as [_ Hvq].
  destruct (generic_direction_exists _ _ Hvq) as [d2 G2]. exists d2. split; [exact G2|].
  apply test_point_vertex_wn_parity; assumption.
Qed.

(** ** the sliver that stays excluded: an interior crossing with 0 < t_a < EPSILON whose edge leaves to the RIGHT of the
    ray (a strictly left, b strictly right: W = n . ((b - a) x d) > 0) is handed to the start-vertex rule and dropped,
    although it is a proper crossing ([crossb3] = true) -- the exact-tier shadow of finding C05:vertex-grazing *)
Theorem sliver_edge_dropped (L : Loop R) (q d a b : V) :
  let n := lnormal L in
  0 < vdot n n -> vis_zero n = false -> vdot n d = 0 ->
  seg_contains_point (seg_new a b) q = Ok false ->
  vdot n (vsub b a) = 0 -> vdot n (vsub a q) = 0 -> / 100000 <= vlen2 (vcross (vsub b a) d) ->
  0 < edge_param n q d a b < neps -> 0 < vdot n (vcross (vsub b a) d) ->
  crossb3 n q d a b = true ->
  edge_cross_count L q d (seg_new q (vadd q d)) a b = Ok (false, 0%nat).
Proof.
  cbn zeta. intros Hnn Hnz Hnd Hon Hab Haq Hpar Hband HWp Hx.
  unfold edge_cross_count. rewrite Hon. cbn [rbind].
  assert (T : vdot (vsub a q) (vcross (vsub b a) (vsub (vadd q d) q)) = 0).
  { rewrite vsub_vadd_l. apply (triple_in_plane (lnormal L)); assumption. }
  destruct (gip_some a b q (vadd q d)) as [ta [tb G]]; [rewrite vsub_vadd_l; exact Hpar | exact T|].
  rewrite G.
  pose proof (gip_solves a b q (vadd q d) ta tb G T) as E. rewrite vsub_vadd_l in E.
  destruct (cross_values (lnormal L) q d a b ta tb E) as [Sa [Sb [Oq Oe]]].
  unfold seg_as_vec, seg_as_rev_vec. cbn [seg_new sstart send].
  rewrite (same_direction_cross (lnormal L) d (vsub b a) Hnz Hnd Hab Hpar).
  unfold crossb3 in Hx. rewrite Sa, Sb, Oq, Oe in Hx.
  set (W := vdot (lnormal L) (vcross (vsub b a) d)) in *.
  assert (Hp : edge_param (lnormal L) q d a b = ta).
  { unfold edge_param. rewrite Sa, Sb. replace (ta * W - (ta - 1) * W)%R with W by ring. field. lra. }
  rewrite Hp in Hband. clear Hp. pose proof neps_lt_quarter as He4.
  remember (@neps R NumR) as eps eqn:Eeps. clear Eeps.
  apply andb_prop in Hx. destruct Hx as [_ X2]. apply Rleb_true in X2.
  assert (Htb : 0 <= tb <= 1).
  { replace (- tb * W * ((1 - tb) * W))%R with (- (tb * (1 - tb)) * (W * W))%R in X2 by ring.
    assert (0 < W * W)%R by nra. assert (0 <= tb * (1 - tb))%R by nra. split; nra. }
  unfold in01. rnum.
  rewrite (proj2 (Rleb_true 0 tb)) by lra. rewrite (proj2 (Rleb_true tb 1)) by lra.
  rewrite (proj2 (Rleb_true 0 ta)) by lra. rewrite (proj2 (Rleb_true ta 1)) by lra. cbn [andb].
  rewrite (proj2 (Rltb_true ta eps)) by lra. rewrite (proj2 (Rltb_false 0 (- W))) by lra. reflexivity.
Qed.

(** ** non-vacuity: the rectangle (0,0) (6,0) (6,4) (0,4) and q = (9/2, 2, 0).  The cast segment starts from q in the
    direction away from the midpoint (3,0,0) of the first edge: d = (600, 800, 0); it passes EXACTLY through the vertex
    (6,4,0) = q + d / 400, the end of the edge (6,0)-(6,4) (t_a = 1: end rule, (6,0) is to the right: not counted) and the
    start of the edge (6,4)-(0,4) (t_a = 0: start rule, (0,4) is to the left: counted). *)
Definition vrect : Loop R := mkLoop [mkV3 0 0 0; mkV3 6 0 0; mkV3 6 4 0; mkV3 0 4 0] (mkV3 0 0 1) true 24 20.
Definition vq : V := mkV3 (9 / 2) 2 0.

Lemma test_ray_vrect : test_ray vrect vq = mkV3 600 800 0.
Proof.
  unfold test_ray, loop_ray.
  assert (Hr : loop_reach vrect vq <= 8).
  { unfold loop_reach. apply reach_upper; [rnum; lra|]. unfold vrect, vq. cbn [verts].
    intros v [E|[E|[E|[E|[]]]]]; subst v; apply vlen_le; try lra; unfold vlen2, vsub; cbn [vx vy vz]; rnum; lra. }
  assert (H0 : 0 <= loop_reach vrect vq).
  { unfold loop_reach. destruct (reach_fold (fun v => vlen (vsub v vq)) (verts vrect) n0) as [R0 _]. rnum. exact R0. }
  rewrite fmax_R. rnum. rewrite Rmax_right by lra.
  unfold vrect, vq, vnth. cbn [verts List.nth].
  assert (Hl : vlen (vsub (mkV3 (9 / 2) 2 0) (vscale (vadd (mkV3 0 0 0) (mkV3 6 0 0)) (1 / 2))) = (5 / 2)%R).
  { unfold vlen, vlen2, vsub, vscale, vadd. cbn [vx vy vz]. rnum.
    replace ((9 / 2 - (0 + 6) * (1 / 2)) * (9 / 2 - (0 + 6) * (1 / 2)) + (2 - (0 + 0) * (1 / 2)) * (2 - (0 + 0) * (1 / 2)) + (0 - (0 + 0) * (1 / 2)) * (0 - (0 + 0) * (1 / 2)))%R
      with ((5 / 2) * (5 / 2))%R by lra. apply sqrt_square. lra. }
  rewrite Hl. unfold vscale, vsub, vadd. cbn [vx vy vz]. rnum. apply v3_eq; cbn [vx vy vz]; lra.
Qed.

Lemma vrect_gates : lclosed vrect = true /\ (2 <= llen vrect)%nat /\ vis_zero (lnormal vrect) = false /\ 0 < vdot (lnormal vrect) (lnormal vrect).
Proof.
  repeat split; [cbn; lia | | unfold vrect; cbn [lnormal]; conc; lra].
  apply vis_zero_false. right. right. unfold vrect. cbn [lnormal vz]. apply Rabs_ge_l. lra.
Qed.

Lemma vrect_edges (a b : V) : In (a, b) (cyc_edges (verts vrect)) ->
  seg_contains_point (seg_new a b) vq = Ok false /\ edge_semigeneric (lnormal vrect) vq (test_ray vrect vq) a b.
Proof.
  rewrite test_ray_vrect. unfold vrect, cyc_edges, vnth. cbn [verts lnormal List.nth edges_from]. pose proof neps_lt_quarter as HE. pose proof neps_pos as HP.
  intros [E|[E|[E|[E|[]]]]]; injection E as Ea Eb; subst a b; unfold vq.
  all: split;
    [ apply contains_point_false;
      try (apply vcompare_false; cbn [vx vy vz]; first [left; first [apply Rabs_ge_l; lra | apply Rabs_ge_r; lra] | right; left; first [apply Rabs_ge_l; lra | apply Rabs_ge_r; lra]]);
      conc; lra
    | unfold edge_semigeneric; split; [conc; lra|]; split; [conc; lra|]; left; split; [conc; lra|]; intros [K1 K2]; conc; lra ].
Qed.

(** the cast segment passes exactly through the vertex (6,4,0) ... *)
Lemma vrect_ray_through_vertex : vadd vq (vscale (test_ray vrect vq) (/ 400)) = mkV3 6 4 0.
Proof. rewrite test_ray_vrect. unfold vq, vadd, vscale. cbn [vx vy vz]. rnum. apply v3_eq; cbn [vx vy vz]; lra. Qed.
(** ... so the edge (6,0)-(6,4) is not [edge_generic]: the theorems of Properties/C05.v do not apply to this query *)
Lemma vrect_not_generic : ~ edge_generic (lnormal vrect) vq (test_ray vrect vq) (mkV3 6 0 0) (mkV3 6 4 0).
Proof.
  rewrite test_ray_vrect. unfold vrect. cbn [lnormal]. intros [_ [_ [_ [Hb _]]]]. apply Hb. unfold vq. conc. lra.
Qed.

(** the answer, from the half-open count: exactly one edge, (6,4)-(0,4), is counted *)
Theorem vrect_inside : loop_test_point vrect vq = Ok true.
Proof.
  destruct vrect_gates as [G1 [G2 [G3 G4]]].
  rewrite (test_point_counts_half_ray_crossings vrect vq G1 G2 G3 G4 vrect_edges). rewrite test_ray_vrect. f_equal.
  unfold vrect, cyc_edges, vnth, vq. cbn [verts lnormal List.nth edges_from]. unfold countb. cbn [filter fst snd].
  unfold halfray3, sgb. conc.
  repeat match goal with
  | |- context [Rltb ?a ?b] => first [rewrite (proj2 (Rltb_true a b)) by lra | rewrite (proj2 (Rltb_false a b)) by lra]
  | |- context [Rleb ?a ?b] => first [rewrite (proj2 (Rleb_true a b)) by lra | rewrite (proj2 (Rleb_false a b)) by lra]
  end.
  reflexivity.
Qed.

(** the same through the winding-number theorem: plane coordinates (x, y), counting ray (1, 0) *)
Definition vo : V := mkV3 0 0 0.
Definition ve1 : V := mkV3 1 0 0.
Definition ve2 : V := mkV3 0 1 0.
Lemma vrect_planar :
  lnormal vrect = vcross ve1 ve2 /\
  (forall a b, In (a, b) (cyc_edges (verts vrect)) -> orient2 (plane2 vo ve1 ve2 a) (plane2 vo ve1 ve2 b) (plane2 vo ve1 ve2 vq) <> 0) /\
  Winding.generic (1, 0) (plane2 vo ve1 ve2 vq) (map (plane2 vo ve1 ve2) (verts vrect)) /\
  Winding.wn (1, 0) (map (plane2 vo ve1 ve2) (verts vrect)) (plane2 vo ve1 ve2 vq) = 1%Z.
Proof.
  split; [unfold vrect, ve1, ve2; cbn [lnormal]; vring|]. split; [|split].
  - unfold vrect, cyc_edges, vnth. cbn [verts List.nth edges_from].
    intros a b [E|[E|[E|[E|[]]]]]; injection E as Ea Eb; subst a b; unfold orient2, det2, sub2, plane2, vo, ve1, ve2, vq, vdot, vsub; cbn [fst snd vx vy vz]; rnum; lra.
  - unfold vrect. cbn [verts map]. intros v [E|[E|[E|[E|[]]]]]; subst v; unfold Winding.hgt, plane2, vo, ve1, ve2, vq, vdot, vsub; cbn [fst snd vx vy vz]; rnum; lra.
  - unfold vrect. cbn [verts map]. unfold plane2, vo, ve1, ve2, vq, vdot, vsub. cbn [vx vy vz]. rnum.
    unfold Winding.wn, Cyclic.csum, Cyclic.esum, Cyclic.edges_closed, Cyclic.edges_to, Winding.crd, Winding.crdR, Winding.hgt, Winding.orient.
    cbn [fold_right fst snd hd].
    repeat match goal with
           | |- context [Winding.rlt ?x ?y] => first [rewrite (Winding.rlt_true x y) by lra | rewrite (Winding.rlt_false x y) by lra]
           end.
    reflexivity.
Qed.

(** ** the same input on the binary64 instance of the model (the instance that is run against the crate) *)
Local Open Scope float_scope.
Definition fvrect : Loop float := mkLoop [mkV3 0 0 0; mkV3 6 0 0; mkV3 6 4 0; mkV3 0 4 0] (mkV3 0 0 1) true 24 20.
Lemma fvrect_vertex_ray :
  @loop_test_point float NumF fvrect (mkV3 4.5 2 0) = Ok true /\
  @loop_ray float NumF fvrect (mkV3 4.5 2 0) = mkV3 600 800 0.
Proof. vm_compute. split; reflexivity. Qed.
