(** * Mesh_links_steps (C08): the steps returning Ok re-establish the link geometry [LNKG] (and [DIST]) under separation. *)
From Coq Require Import ZArith Bool List Arith Lia Permutation.
From G3 Require Import Model.Num Model.Base Model.Vec Model.Segment Model.Triangle Model.Loop Model.Polygon Model.Triangulation
  Proofs.Mesh_base Proofs.Mesh_wf Proofs.Mesh_sites Proofs.Mesh_conf Proofs.Mesh_region Proofs.Mesh_atomic Proofs.Mesh_links.
Import ListNotations.

Section Steps.
  Context {K : Type} {NK : Num K}.
  Notation V := (V3 K).
  Notation TP := (TriPiece K).
  Notation Mesh := (Mesh K).

  Ltac geo := unfold edge_pts, rev2 in *; cbn [fst snd] in *;
    repeat match goal with HH : (_, _) = (_, _) |- _ => inversion HH; clear HH end; subst; try congruence.

  (** ** flip_diagonal *)
  Theorem flip_LNKG (i : nat) (e : Edge) (M M' : Mesh) :
    LNKG M -> SEP M -> DIST M -> flip_diagonal i e M = (M', Ok tt) ->
    LNKG M' /\ DIST M' /\ (forall x, mesh_vert M' x -> mesh_vert M x).
  Proof.
    intros HL HS HD H. unfold flip_diagonal in H.
    apply bind_get_ok in H. destruct H as (t & Et & H).
    destruct (tp_valid t) eqn:Ev; cbn [negb] in H; [|discriminate].
    destruct (tp_neighbour t e) as [ni|] eqn:En; [|discriminate].
    apply bind_get_ok in H. destruct H as (nb & Enb & H).
    destruct (tp_valid nb) eqn:Evn; cbn [negb] in H; [|discriminate].
    apply bind_lift_ok in H. destruct H as (a & Ea & H).
    apply bind_lift_ok in H. destruct H as (b & Eb & H).
    apply bind_lift_ok in H. destruct H as (c & Ec & H).
    apply bind_lift_ok in H. destruct H as (o & Eo & H).
    apply bind_lift_ok in H. destruct H as (e1 & Ee1 & H).
    apply bind_lift_ok in H. destruct H as (e2 & Ee2 & H).
    apply bind_lift_ok in H. destruct H as (e3 & Ee3 & H).
    apply bind_lift_ok in H. destruct H as (e4 & Ee4 & H).
    apply bind_lift_ok in H. destruct H as (T1 & ET1 & H).
    apply bind_lift_ok in H. destruct H as (T2 & ET2 & H).
    set (T := tp_tri t) in *. set (Tn := tp_tri nb) in *.
    assert (Lt : lvM M i T) by (apply slot_lvT; assumption).
    assert (Ln : lvM M ni Tn) by (apply slot_lvT; assumption).
    assert (Elk : lk M i e = Some ni) by (unfold lk; rewrite Et; exact En).
    destruct (good_inv M i T e ni HL Lt Elk) as (Hne & U & k & LU & Ek & Gk). rewrite (lvM_fun _ _ _ _ LU Ln) in *. clear LU U.
    set (P := mesh_vert M). assert (HP : VSEP P) by exact HS.
    assert (IT : tri_in P T) by (eapply mesh_vert_tri; exact Lt). assert (IN : tri_in P Tn) by (eapply mesh_vert_tri; exact Ln).
    pose proof (HD _ _ Lt) as DT. pose proof (HD _ _ Ln) as DN.
    destruct (flip_abc T e a b c Ea Eb Ec) as [Pab Pc].
    assert (Pa : P a /\ P b) by (pose proof (edge_pts_in P T e IT) as Q; rewrite Pab in Q; exact Q). destruct Pa as [Pa Pb].
    assert (Pcc : P c) by (rewrite <- Pc; apply opp_v_in; exact IT).
    assert (Po' : o = opp_v Tn k).
    { apply (opposite_exact P Tn (seg_new a b) k o HP IN DN Pa Pb); [|exact Eo]. right. cbn [pair_of seg_new sstart send]. rewrite Gk, Pab, rev2_invol. reflexivity. }
    assert (Po : P o) by (rewrite Po'; apply opp_v_in; exact IN).
    destruct (edge_pts_next T e) as [Pn1 Pn2]. rewrite Pab, Pc in Pn1, Pn2. cbn [fst snd] in Pn1, Pn2.
    destruct (edge_pts_next Tn k) as [Qn1 Qn2]. rewrite Gk, Pab, <- Po' in Qn1, Qn2. cbn [rev2 fst snd] in Qn1, Qn2.
    assert (Qk : edge_pts Tn k = (b, a)) by (rewrite Gk, Pab; reflexivity).
    assert (e1 = next_e (next_e e)) by (apply (edge_of_points_exact P 75 T a c _ e1 HP IT DT Pa Pcc); [right; rewrite Pn2; reflexivity | exact Ee1]).
    assert (e2 = next_e e) by (apply (edge_of_points_exact P 76 T c b _ e2 HP IT DT Pcc Pb); [right; rewrite Pn1; reflexivity | exact Ee2]).
    assert (e3 = next_e (next_e k)) by (apply (edge_of_points_exact P 77 Tn b o _ e3 HP IN DN Pb Po); [right; rewrite Qn2; reflexivity | exact Ee3]).
    assert (e4 = next_e k) by (apply (edge_of_points_exact P 78 Tn a o _ e4 HP IN DN Pa Po); [left; rewrite Qn1; reflexivity | exact Ee4]).
    subst e1 e2 e3 e4. clear Ee1 Ee2 Ee3 Ee4.
    pose proof (tri_new_distinct P HP _ _ _ _ Pa Po Pcc ET1) as D1. pose proof (tri_new_distinct P HP _ _ _ _ Pcc Po Pb ET2) as D2.
    pose proof (tri_new_pts _ _ _ _ ET1) as TP1. pose proof (tri_new_pts _ _ _ _ ET2) as TP2. unfold tri_pts in TP1, TP2.
    assert (V1 : ta T1 = a /\ tb T1 = o /\ tc T1 = c) by (inversion TP1; auto). assert (V2 : ta T2 = c /\ tb T2 = o /\ tc T2 = b) by (inversion TP2; auto).
    destruct V1 as (V1a & V1b & V1c). destruct V2 as (V2a & V2b & V2c). clear TP1 TP2.
    (* the two invalidations and the two pushes (which re-use the two slots) *)
    apply mbind_ok in H. destruct H as ([] & M1 & H1 & H).
    pose proof (lv_invalidate _ _ _ _ Et H1) as Hlv1. pose proof (lk_invalidate _ _ _ _ H1) as Hlk1.
    pose proof (G_invalidate _ _ _ _ _ Et H1 (LNKG_G _ HL)) as G1. destruct (invalidate_dead _ _ _ _ Et H1) as ((u1 & Eu1 & Vu1) & Ko1).
    assert (Enb1 : nth_error (tris M1) ni = Some nb) by (rewrite Ko1 by exact Hne; exact Enb).
    apply mbind_ok in H. destruct H as ([] & M2 & H2 & H).
    pose proof (lv_invalidate _ _ _ _ Enb1 H2) as Hlv2. pose proof (lk_invalidate _ _ _ _ H2) as Hlk2.
    pose proof (G_invalidate _ _ _ _ _ Enb1 H2 G1) as G2. destruct (invalidate_dead _ _ _ _ Enb1 H2) as ((u2 & Eu2 & Vu2) & Ko2).
    assert (Eu1' : nth_error (tris M2) i = Some u1) by (rewrite Ko2 by (intros Q; apply Hne; congruence); exact Eu1).
    apply mbind_ok in H. destruct H as (aoc & M3 & H3 & H).
    pose proof (push_hint _ _ _ _ _ _ _ _ Eu1' Vu1 H3) as Q. subst aoc.
    destruct (push_lk_lv _ _ _ _ _ _ _ H3) as (T1' & ET1' & L3 & Hn3 & _ & Ho3). rewrite ET1 in ET1'. inversion ET1'; subst T1'. clear ET1'.
    pose proof (G_push _ _ _ _ _ _ _ _ H3 G2) as G3.
    assert (Eu2' : nth_error (tris M3) ni = Some u2) by (rewrite (push_nth _ _ _ _ _ _ _ H3) by exact Hne; exact Eu2).
    apply mbind_ok in H. destruct H as (cob & M4 & H4 & H).
    pose proof (push_hint _ _ _ _ _ _ _ _ Eu2' Vu2 H4) as Q. subst cob.
    destruct (push_lk_lv _ _ _ _ _ _ _ H4) as (T2' & ET2' & L4 & Hn4 & _ & Ho4). rewrite ET2 in ET2'. inversion ET2'; subst T2'. clear ET2'.
    pose proof (G_push _ _ _ _ _ _ _ _ H4 G3) as G4.
    assert (Hi4 : lvM M4 i T1) by (apply (proj2 (Ho4 i (fun Q => Hne (eq_sym Q)))); exact L3).
    assert (Hn4i : forall x, lk M4 i x = None) by (intros x; rewrite (proj1 (Ho4 i (fun Q => Hne (eq_sym Q)))); apply Hn3).
    assert (Hold_lv : forall j U, j <> i -> j <> ni -> (lvM M4 j U <-> lvM M j U)).
    { intros j U A1 A2. rewrite (proj2 (Ho4 j A2)), (proj2 (Ho3 j A1)), Hlv2, Hlv1. tauto. }
    assert (Hold_lk : forall j x, j <> i -> j <> ni -> lk M4 j x = lk M j x).
    { intros j x A1 A2. rewrite (proj1 (Ho4 j A2)), (proj1 (Ho3 j A1)), Hlk2, Hlk1. reflexivity. }
    assert (Hlv4 : forall j U, lvM M4 j U -> (j = i /\ U = T1) \/ (j = ni /\ U = T2) \/ (j <> i /\ j <> ni /\ lvM M j U)).
    { intros j U A. destruct (Nat.eq_dec j i) as [-> |A1]; [left; split; [reflexivity | eapply lvM_fun; eassumption]|].
      destruct (Nat.eq_dec j ni) as [-> |A2]; [right; left; split; [reflexivity | eapply lvM_fun; eassumption]|].
      right; right. split; [exact A1 | split; [exact A2 | apply Hold_lv; assumption]]. }
    assert (G4' : G (fun j x => lk M j x = Some i \/ lk M j x = Some ni) M4).
    { revert G4. apply G_weaken. intros j x [[[]|Q]|Q]; [left; exact Q | right; rewrite <- Hlk1; exact Q]. }
    clear G4 Hlv1 Hlk1 Hlv2 Hlk2 Ho3 Ho4 Hn3 G1 G2 G3 Ko1 Ko2 Eu1 Eu2 Eu1' Eu2' Enb1 H1 H2 H3 H4 L3.
    (* distinctness of the five points *)
    destruct (tri_distinct_edge T e DT) as (Nab & Nac & Nbc). rewrite ?Pab, ?Pc in Nab, Nac, Nbc. cbn [fst snd] in Nab, Nac, Nbc.
    destruct D1 as (Nao & Nac' & Noc). rewrite V1a, V1b, V1c in *. destruct D2 as (Nco & Ncb & Nob). rewrite V2a, V2b, V2c in *.
    assert (D1 : tri_distinct T1) by (unfold tri_distinct; rewrite V1a, V1b, V1c; auto).
    assert (D2 : tri_distinct T2) by (unfold tri_distinct; rewrite V2a, V2b, V2c; auto).
    assert (I1 : tri_in P T1) by (unfold tri_in; rewrite V1a, V1b, V1c; auto).
    assert (I2 : tri_in P T2) by (unfold tri_in; rewrite V2a, V2b, V2c; auto).
    assert (E1ab : edge_pts T1 Ab = (a, o) /\ edge_pts T1 Bc = (o, c) /\ edge_pts T1 Ca = (c, a)) by (unfold edge_pts; rewrite V1a, V1b, V1c; auto).
    assert (E2ab : edge_pts T2 Ab = (c, o) /\ edge_pts T2 Bc = (o, b) /\ edge_pts T2 Ca = (b, c)) by (unfold edge_pts; rewrite V2a, V2b, V2c; auto).
    destruct E1ab as (E1a & E1b & E1c). destruct E2ab as (E2a & E2b & E2c).
    (* the old neighbours of the two triangles *)
    assert (HnbT : forall x n, x <> e -> lk M i x = Some n -> n <> i /\ n <> ni /\
              exists U kn, lvM M n U /\ tri_in P U /\ tri_distinct U /\ lk M n kn = Some i /\ edge_pts U kn = rev2 (edge_pts T x)).
    { intros x n Hx E. destruct (good_inv M i T x n HL Lt E) as (A1 & U & kn & A2 & A3 & A4). split; [exact A1|].
      assert (A5 : n <> ni).
      { intros ->. rewrite (lvM_fun _ _ _ _ A2 Ln) in A4. destruct (edges_all e x) as [-> |[-> | ->]]; [contradiction | rewrite Pn1 in A4 | rewrite Pn2 in A4];
          destruct (edges_all k kn) as [-> |[-> | ->]]; rewrite ?Qk, ?Qn1, ?Qn2 in A4; cbn [rev2 fst snd] in A4; inversion A4; congruence. }
      split; [exact A5|]. exists U, kn. split; [exact A2|]. split; [eapply mesh_vert_tri; exact A2|]. split; [eapply HD; exact A2|]. split; assumption. }
    assert (HnbN : forall x n, x <> k -> lk M ni x = Some n -> n <> i /\ n <> ni /\
              exists U kn, lvM M n U /\ tri_in P U /\ tri_distinct U /\ lk M n kn = Some ni /\ edge_pts U kn = rev2 (edge_pts Tn x)).
    { intros x n Hx E. destruct (good_inv M ni Tn x n HL Ln E) as (A1 & U & kn & A2 & A3 & A4). split; [|split; [exact A1|]].
      { intros ->. rewrite (lvM_fun _ _ _ _ A2 Lt) in A4. destruct (edges_all k x) as [-> |[-> | ->]]; [contradiction | rewrite Qn1 in A4 | rewrite Qn2 in A4];
          destruct (edges_all e kn) as [-> |[-> | ->]]; rewrite ?Pab, ?Pn1, ?Pn2 in A4; cbn [rev2 fst snd] in A4; inversion A4; congruence. }
      exists U, kn. split; [exact A2|]. split; [eapply mesh_vert_tri; exact A2|]. split; [eapply HD; exact A2|]. split; assumption. }
    assert (Nek1 : next_e k <> k) by (destruct k; discriminate). assert (Nek2 : next_e (next_e k) <> k) by (destruct k; discriminate).
    assert (Nee1 : next_e e <> e) by (destruct e; discriminate). assert (Nee2 : next_e (next_e e) <> e) by (destruct e; discriminate).
    (* values that old slots can hold during the suffix; the slots i, ni hold T1, T2 *)
    set (Val := fun Mk : Mesh => forall j x, j <> i -> j <> ni -> lk Mk j x = lk M j x \/ lk Mk j x = Some i \/ lk Mk j x = Some ni).
    assert (Val4 : Val M4) by (intros j x A1 A2; left; apply Hold_lk; assumption).
    assert (ValStep : forall Mk Mk' oo i1 ee k0, (i1 = i \/ i1 = ni) -> Val Mk ->
              (forall j x, ~ Wr oo i1 ee k0 j x -> lk Mk' j x = lk Mk j x) -> (forall n, oo = Some n -> lk Mk' n k0 = Some i1) -> Val Mk').
    { intros Mk Mk' oo i1 ee k0 Hi1 HV Fr Wv j x A1 A2. destruct (Wr_dec oo i1 ee k0 j x) as [(_ & [[Q _] | [Q Q']]) | W].
      - exfalso. destruct Hi1; congruence.
      - subst x. rewrite (Wv j Q). destruct Hi1 as [-> | ->]; auto.
      - rewrite (Fr j x W). apply HV; assumption. }
    (* a victim can only be one of the two new triangles *)
    assert (Vict : forall Mk, Val Mk -> (forall j U, lvM Mk j U <-> lvM M4 j U) -> forall n kn x U e'' (G0 : V * V), n <> i -> n <> ni ->
              (lk M n kn = Some i \/ lk M n kn = Some ni) -> lk Mk n kn = Some x -> lvM Mk x U -> edge_pts U e'' = G0 ->
              (x = i /\ edge_pts T1 e'' = G0) \/ (x = ni /\ edge_pts T2 e'' = G0)).
    { intros Mk HV Hlvk n kn x U e'' G0 A1 A2 A3 A4 A5 A6. apply Hlvk in A5.
      assert (Hx : x = i \/ x = ni) by (destruct (HV n kn A1 A2) as [Q|[Q|Q]]; rewrite Q in A4; [destruct A3 as [A3|A3]; rewrite A3 in A4 |..]; inversion A4; auto).
      destruct Hx as [-> | ->]; [left | right]; (split; [reflexivity|]); [rewrite <- (lvM_fun _ _ _ _ A5 Hi4) | rewrite <- (lvM_fun _ _ _ _ A5 L4)]; exact A6. }
    assert (NW : forall oo i1 ee k0 j x, (forall n, oo = Some n -> n <> i /\ n <> ni) -> (j = i \/ j = ni) -> ~ (j = i1 /\ x = ee) -> ~ Wr oo i1 ee k0 j x).
    { intros oo i1 ee k0 j x Hoo Hj Hn (_ & [Q | [Q _]]); [exact (Hn Q) | destruct (Hoo j Q); destruct Hj; congruence]. }
    assert (Hini : i <> ni) by congruence.
    assert (Rt : forall x, tp_neighbour t x = lk M i x) by (intros x; unfold lk; rewrite Et; reflexivity).
    assert (Rn : forall x, tp_neighbour nb x = lk M ni x) by (intros x; unfold lk; rewrite Enb; reflexivity).
    rewrite !Rt, !Rn in H.
    assert (No1 : forall n, lk M ni (next_e k) = Some n -> n <> i /\ n <> ni) by (intros n E; destruct (HnbN _ n Nek1 E) as (A & B & _); split; assumption).
    assert (No7 : forall n, lk M ni (next_e (next_e k)) = Some n -> n <> i /\ n <> ni) by (intros n E; destruct (HnbN _ n Nek2 E) as (A & B & _); split; assumption).
    assert (No5 : forall n, lk M i (next_e (next_e e)) = Some n -> n <> i /\ n <> ni) by (intros n E; destruct (HnbT _ n Nee2 E) as (A & B & _); split; assumption).
    assert (No9 : forall n, lk M i (next_e e) = Some n -> n <> i /\ n <> ni) by (intros n E; destruct (HnbT _ n Nee1 E) as (A & B & _); split; assumption).
    (* S1: index Ab <-> the neighbour of nb across (a, opp); constrain *)
    apply mbind_ok in H. destruct H as ([] & M5a & H5a & H). apply mbind_ok in H. destruct H as ([] & M5 & H5c & H).
    destruct (G_mark_opt_gen P _ (lk M ni (next_e k)) i Ab T1 M4 M4 M5a M5 HP I1 G4' Hi4 (Hn4i Ab)) as (k1 & G5 & S5 & F5 & W5);
      [ | apply Meq_refl | exact H5a | exact (Meq_constrain _ _ _ _ _ _ _ H5c) | ].
    { intros n E. destruct (HnbN _ n Nek1 E) as (A1 & A2 & U & kn & A3 & A4 & A5 & A6 & A7). exists U, kn.
      split; [exact A4|]. split; [exact A5|]. split; [apply Hold_lv; assumption|]. split; [congruence|]. split; [rewrite A7, Qn1, E1a; reflexivity|].
      intros x U' e'' Q1 Q2 Q3. destruct (Vict M4 Val4 (fun j U0 => iff_refl _) n kn x U' e'' _ A1 A2 (or_intror A6) Q1 Q2 Q3) as [(-> & Q) | (-> & Q)].
      - split; [reflexivity|]. apply (edge_unique T1 (edge_pts T1 Ab) e'' Ab D1); [left; symmetry; exact Q | left; reflexivity].
      - exfalso. destruct e''; rewrite ?E1a, ?E1b, ?E1c, ?E2a, ?E2b, ?E2c in Q; inversion Q; congruence. }
    pose proof (lvM_skel _ _ S5) as Hlv5.
    assert (Val5 : Val M5) by (apply (ValStep M4 M5 _ i Ab k1 (or_introl eq_refl) Val4 F5); intros n E; exact (proj1 (proj2 (W5 n E)))).
    assert (N5 : forall j x, (j = i \/ j = ni) -> ~ (j = i /\ x = Ab) -> lk M5 j x = None).
    { intros j x Hj Hn. rewrite (F5 j x (NW _ _ _ _ _ _ No1 Hj Hn)). destruct Hj as [-> | ->]; [apply Hn4i | apply Hn4]. }
    (* S3: aoc Bc <-> cob *)
    apply mbind_ok in H. destruct H as ([] & M6 & H6 & H).
    destruct (G_mark_sep P _ i Bc ni T1 T2 Ab M5 M6 HP I1 I2 D2 G5) as (G6 & S6 & W6a & W6b & F6);
      [apply Hlv5; exact Hi4 | apply Hlv5; exact L4 | exact Hini | rewrite E2a, E1b; reflexivity | apply N5; [left; reflexivity | intros [_ Q]; discriminate]
      | intros x U' e'' Q1; rewrite (N5 ni Ab (or_intror eq_refl)) in Q1; [discriminate | intros [Q _]; congruence] | exact H6 |].
    assert (Hlv6 : forall j U, lvM M6 j U <-> lvM M4 j U) by (intros j U; rewrite (lvM_skel _ _ S6); apply Hlv5).
    assert (Val6 : Val M6) by (intros j x A1 A2; rewrite F6 by (intros [Q _]; congruence); apply Val5; assumption).
    assert (N6 : forall j x, (j = i \/ j = ni) -> ~ (j = i /\ x = Ab) -> ~ (j = i /\ x = Bc) -> ~ (j = ni /\ x = Ab) -> lk M6 j x = None).
    { intros j x Hj Q1 Q2 Q3. rewrite F6 by assumption. apply N5; assumption. }
    (* S5: index Ca <-> the neighbour of t across (c, a); constrain *)
    apply mbind_ok in H. destruct H as ([] & M7a & H7a & H). apply mbind_ok in H. destruct H as ([] & M7 & H7c & H).
    destruct (G_mark_opt_gen P _ (lk M i (next_e (next_e e))) i Ca T1 M6 M6 M7a M7 HP I1 G6) as (k5 & G7 & S7 & F7 & W7);
      [apply Hlv6; exact Hi4 | apply N6; [left; reflexivity | intros [_ Q]; discriminate ..] | | apply Meq_refl | exact H7a | exact (Meq_constrain _ _ _ _ _ _ _ H7c) | ].
    { intros n E. destruct (HnbT _ n Nee2 E) as (A1 & A2 & U & kn & A3 & A4 & A5 & A6 & A7). exists U, kn.
      split; [exact A4|]. split; [exact A5|]. split; [apply Hlv6; apply Hold_lv; assumption|]. split; [congruence|]. split; [rewrite A7, Pn2, E1c; reflexivity|].
      intros x U' e'' Q1 Q2 Q3. destruct (Vict M6 Val6 Hlv6 n kn x U' e'' _ A1 A2 (or_introl A6) Q1 Q2 Q3) as [(-> & Q) | (-> & Q)].
      - split; [reflexivity|]. apply (edge_unique T1 (edge_pts T1 Ca) e'' Ca D1); [left; symmetry; exact Q | left; reflexivity].
      - exfalso. destruct e''; rewrite ?E1a, ?E1b, ?E1c, ?E2a, ?E2b, ?E2c in Q; inversion Q; congruence. }
    assert (Hlv7 : forall j U, lvM M7 j U <-> lvM M4 j U) by (intros j U; rewrite (lvM_skel _ _ S7); apply Hlv6).
    assert (Val7 : Val M7) by (apply (ValStep M6 M7 _ i Ca k5 (or_introl eq_refl) Val6 F7); intros n E; exact (proj1 (proj2 (W7 n E)))).
    assert (N7 : forall x, x <> Ab -> lk M7 ni x = None).
    { intros x Hx. rewrite (F7 ni x (NW _ _ _ _ _ _ No5 (or_intror eq_refl) (fun Q => Hini (eq_sym (proj1 Q))))).
      apply N6; [right; reflexivity | intros [Q _]; congruence | intros [Q _]; congruence | intros [_ Q]; contradiction]. }
    (* S7: cob Bc <-> the neighbour of nb across (opp, b); constrain *)
    apply mbind_ok in H. destruct H as ([] & M8a & H8a & H). apply mbind_ok in H. destruct H as ([] & M8 & H8c & H).
    destruct (G_mark_opt_gen P _ (lk M ni (next_e (next_e k))) ni Bc T2 M7 M7 M8a M8 HP I2 G7) as (k7 & G8 & S8 & F8 & W8);
      [apply Hlv7; exact L4 | apply N7; discriminate | | apply Meq_refl | exact H8a | exact (Meq_constrain _ _ _ _ _ _ _ H8c) | ].
    { intros n E. destruct (HnbN _ n Nek2 E) as (A1 & A2 & U & kn & A3 & A4 & A5 & A6 & A7). exists U, kn.
      split; [exact A4|]. split; [exact A5|]. split; [apply Hlv7; apply Hold_lv; assumption|]. split; [congruence|]. split; [rewrite A7, Qn2, E2b; reflexivity|].
      intros x U' e'' Q1 Q2 Q3. destruct (Vict M7 Val7 Hlv7 n kn x U' e'' _ A1 A2 (or_intror A6) Q1 Q2 Q3) as [(-> & Q) | (-> & Q)].
      - exfalso. destruct e''; rewrite ?E1a, ?E1b, ?E1c, ?E2a, ?E2b, ?E2c in Q; inversion Q; congruence.
      - split; [reflexivity|]. apply (edge_unique T2 (edge_pts T2 Bc) e'' Bc D2); [left; symmetry; exact Q | left; reflexivity]. }
    assert (Hlv8 : forall j U, lvM M8 j U <-> lvM M4 j U) by (intros j U; rewrite (lvM_skel _ _ S8); apply Hlv7).
    assert (Val8 : Val M8) by (apply (ValStep M7 M8 _ ni Bc k7 (or_intror eq_refl) Val7 F8); intros n E; exact (proj1 (proj2 (W8 n E)))).
    assert (N8 : lk M8 ni Ca = None).
    { assert (Q0 : ~ (ni = ni /\ Ca = Bc)) by (intros [_ Q]; discriminate). rewrite (F8 ni Ca (NW _ _ _ _ _ _ No7 (or_intror eq_refl) Q0)). apply N7. discriminate. }
    (* S9: cob Ca <-> the neighbour of t across (b, c); constrain *)
    apply mbind_ok in H. destruct H as ([] & M9a & H9a & H).
    destruct (G_mark_opt_gen P _ (lk M i (next_e e)) ni Ca T2 M8 M8 M9a M' HP I2 G8) as (k9 & G9 & S9 & F9 & W9);
      [apply Hlv8; exact L4 | exact N8 | | apply Meq_refl | exact H9a | exact (Meq_constrain _ _ _ _ _ _ _ H) | ].
    { intros n E. destruct (HnbT _ n Nee1 E) as (A1 & A2 & U & kn & A3 & A4 & A5 & A6 & A7). exists U, kn.
      split; [exact A4|]. split; [exact A5|]. split; [apply Hlv8; apply Hold_lv; assumption|]. split; [congruence|]. split; [rewrite A7, Pn1, E2c; reflexivity|].
      intros x U' e'' Q1 Q2 Q3. destruct (Vict M8 Val8 Hlv8 n kn x U' e'' _ A1 A2 (or_introl A6) Q1 Q2 Q3) as [(-> & Q) | (-> & Q)].
      - exfalso. destruct e''; rewrite ?E1a, ?E1b, ?E1c, ?E2a, ?E2b, ?E2c in Q; inversion Q; congruence.
      - split; [reflexivity|]. apply (edge_unique T2 (edge_pts T2 Ca) e'' Ca D2); [left; symmetry; exact Q | left; reflexivity]. }
    assert (Hlv9 : forall j U, lvM M' j U <-> lvM M4 j U) by (intros j U; rewrite (lvM_skel _ _ S9); apply Hlv8).
    split; [|split].
    - (* LNKG M': no exempt entry is left *)
      apply (G_LNKG _ _ G9). intros j Tj x k' Lj Ex (((((Hb & W1') & W3a & W3b) & W5') & W7') & W9').
      assert (Ch : lk M' j x = lk M4 j x) by (rewrite (F9 j x W9'), (F8 j x W7'), (F7 j x W5'), (F6 j x W3b W3a), (F5 j x W1'); reflexivity).
      apply Hlv9 in Lj. destruct (Hlv4 j Tj Lj) as [(-> & _) | [(-> & _) | (A1 & A2 & Lj')]];
        [rewrite Ch, Hn4i in Ex; discriminate | rewrite Ch, Hn4 in Ex; discriminate |].
      pose proof (HD _ _ Lj') as Dj.
      destruct Hb as [Hb|Hb].
      + destruct (good_inv M j Tj x i HL Lj' Hb) as (_ & U & e' & LU & E' & Ge). rewrite (lvM_fun _ _ _ _ LU Lt) in Ge. clear LU U.
        destruct (edges_all e e') as [-> | [-> | ->]].
        * rewrite Elk in E'. inversion E'. congruence.
        * destruct (W9 j E') as (_ & _ & T2' & L2' & Geo). apply Hlv8 in L2'. rewrite (lvM_fun _ _ _ _ L2' Lj) in Geo.
          apply W9'. split; [rewrite E'; discriminate|]. right. split; [exact E'|].
          apply (edge_unique Tj (edge_pts Tj x) x k9 Dj); [left; reflexivity|]. left. rewrite Geo, E2c, <- Pn1, Ge, rev2_invol. reflexivity.
        * destruct (W7 j E') as (_ & _ & T2' & L2' & Geo). apply Hlv6 in L2'. rewrite (lvM_fun _ _ _ _ L2' Lj) in Geo.
          apply W5'. split; [rewrite E'; discriminate|]. right. split; [exact E'|].
          apply (edge_unique Tj (edge_pts Tj x) x k5 Dj); [left; reflexivity|]. left. rewrite Geo, E1c, <- Pn2, Ge, rev2_invol. reflexivity.
      + destruct (good_inv M j Tj x ni HL Lj' Hb) as (_ & U & e' & LU & E' & Ge). rewrite (lvM_fun _ _ _ _ LU Ln) in Ge. clear LU U.
        destruct (edges_all k e') as [-> | [-> | ->]].
        * rewrite Ek in E'. inversion E'. congruence.
        * destruct (W5 j E') as (_ & _ & T2' & L2' & Geo). rewrite (lvM_fun _ _ _ _ L2' Lj) in Geo.
          apply W1'. split; [rewrite E'; discriminate|]. right. split; [exact E'|].
          apply (edge_unique Tj (edge_pts Tj x) x k1 Dj); [left; reflexivity|]. left. rewrite Geo, E1a, <- Qn1, Ge, rev2_invol. reflexivity.
        * destruct (W8 j E') as (_ & _ & T2' & L2' & Geo). apply Hlv7 in L2'. rewrite (lvM_fun _ _ _ _ L2' Lj) in Geo.
          apply W7'. split; [rewrite E'; discriminate|]. right. split; [exact E'|].
          apply (edge_unique Tj (edge_pts Tj x) x k7 Dj); [left; reflexivity|]. left. rewrite Geo, E2b, <- Qn2, Ge, rev2_invol. reflexivity.
    - intros j U Lj. apply Hlv9 in Lj. destruct (Hlv4 j U Lj) as [(_ & ->) | [(_ & ->) | (_ & _ & Lj')]]; [exact D1 | exact D2 | eapply HD; exact Lj'].
    - intros x (j & U & Lj & Hx). apply Hlv9 in Lj. destruct (Hlv4 j U Lj) as [(_ & ->) | [(_ & ->) | (_ & _ & Lj')]].
      + destruct I1 as (Q1 & Q2 & Q3). destruct Hx as [-> | [-> | ->]]; assumption.
      + destruct I2 as (Q1 & Q2 & Q3). destruct Hx as [-> | [-> | ->]]; assumption.
      + exists j, U. split; assumption.
  Qed.

  (** ** split_triangle: the separation hypothesis is on the vertices of M together with the inserted point *)
  Definition vert_or (M : Mesh) (p : V) (x : V) : Prop := mesh_vert M x \/ x = p.
  Theorem split_triangle_LNKG (i : nat) (p : V) (M M' : Mesh) :
    LNKG M -> DIST M -> VSEP (vert_or M p) -> split_triangle i p M = (M', Ok tt) ->
    LNKG M' /\ DIST M' /\ (forall x, mesh_vert M' x -> vert_or M p x).
  Proof.
    intros HL HD HP H. unfold split_triangle in H. set (P := vert_or M p) in *.
    apply bind_get_ok in H. destruct H as (t & Et & H).
    destruct (tp_valid t) eqn:Ev; cbn [negb] in H; [|discriminate].
    apply bind_lift_ok in H. destruct H as (ea & Eea & H).
    apply bind_lift_ok in H. destruct H as (eb & Eeb & H).
    apply bind_lift_ok in H. destruct H as (ec & Eec & H).
    apply bind_lift_ok in H. destruct H as (T1 & ET1 & H).
    apply bind_lift_ok in H. destruct H as (T2 & ET2 & H).
    apply bind_lift_ok in H. destruct H as (T3 & ET3 & H).
    set (T := tp_tri t) in *. set (a := ta T) in *. set (b := tb T) in *. set (c := tc T) in *.
    assert (Lt : lvM M i T) by (apply slot_lvT; assumption).
    assert (IT : tri_in P T) by (destruct (mesh_vert_tri _ _ _ Lt) as (Q1 & Q2 & Q3); repeat split; left; assumption).
    pose proof (HD _ _ Lt) as DT. destruct IT as (Pa & Pb & Pc). assert (IT : tri_in P T) by (repeat split; assumption). fold a in Pa. fold b in Pb. fold c in Pc.
    assert (Pp : P p) by (right; reflexivity).
    assert (ea = Ab) by (apply (edge_of_points_err_exact P T a b Ab ea HP IT DT Pa Pb); [left; reflexivity | exact Eea]).
    assert (eb = Bc) by (apply (edge_of_points_err_exact P T b c Bc eb HP IT DT Pb Pc); [left; reflexivity | exact Eeb]).
    assert (ec = Ca) by (apply (edge_of_points_err_exact P T c a Ca ec HP IT DT Pc Pa); [left; reflexivity | exact Eec]).
    subst ea eb ec. clear Eea Eeb Eec.
    pose proof (tri_new_distinct P HP _ _ _ _ Pc Pa Pp ET1) as D1. pose proof (tri_new_distinct P HP _ _ _ _ Pa Pb Pp ET2) as D2. pose proof (tri_new_distinct P HP _ _ _ _ Pb Pc Pp ET3) as D3.
    pose proof (tri_new_pts _ _ _ _ ET1) as TP1. pose proof (tri_new_pts _ _ _ _ ET2) as TP2. pose proof (tri_new_pts _ _ _ _ ET3) as TP3. unfold tri_pts in TP1, TP2, TP3.
    assert (V1 : ta T1 = c /\ tb T1 = a /\ tc T1 = p) by (inversion TP1; auto). assert (V2 : ta T2 = a /\ tb T2 = b /\ tc T2 = p) by (inversion TP2; auto).
    assert (V3 : ta T3 = b /\ tb T3 = c /\ tc T3 = p) by (inversion TP3; auto).
    destruct V1 as (V1a & V1b & V1c). destruct V2 as (V2a & V2b & V2c). destruct V3 as (V3a & V3b & V3c). clear TP1 TP2 TP3.
    destruct DT as (Nab & Nac & Nbc). fold a b c in Nab, Nac, Nbc. assert (DT : tri_distinct T) by (repeat split; assumption).
    destruct D1 as (_ & Ncp & Nap). rewrite V1a, V1c in Ncp. rewrite V1b, V1c in Nap. destruct D2 as (_ & _ & Nbp). rewrite V2b, V2c in Nbp. clear D3.
    assert (D1 : tri_distinct T1) by (unfold tri_distinct; rewrite V1a, V1b, V1c; repeat split; congruence).
    assert (D2 : tri_distinct T2) by (unfold tri_distinct; rewrite V2a, V2b, V2c; repeat split; congruence).
    assert (D3 : tri_distinct T3) by (unfold tri_distinct; rewrite V3a, V3b, V3c; repeat split; congruence).
    assert (I1 : tri_in P T1) by (unfold tri_in; rewrite V1a, V1b, V1c; auto).
    assert (I2 : tri_in P T2) by (unfold tri_in; rewrite V2a, V2b, V2c; auto).
    assert (I3 : tri_in P T3) by (unfold tri_in; rewrite V3a, V3b, V3c; auto).
    assert (E1 : edge_pts T1 Ab = (c, a) /\ edge_pts T1 Bc = (a, p) /\ edge_pts T1 Ca = (p, c)) by (unfold edge_pts; rewrite V1a, V1b, V1c; auto).
    assert (E2 : edge_pts T2 Ab = (a, b) /\ edge_pts T2 Bc = (b, p) /\ edge_pts T2 Ca = (p, a)) by (unfold edge_pts; rewrite V2a, V2b, V2c; auto).
    assert (E3 : edge_pts T3 Ab = (b, c) /\ edge_pts T3 Bc = (c, p) /\ edge_pts T3 Ca = (p, b)) by (unfold edge_pts; rewrite V3a, V3b, V3c; auto).
    destruct E1 as (E1a & E1b & E1c). destruct E2 as (E2a & E2b & E2c). destruct E3 as (E3a & E3b & E3c).
    assert (ET : edge_pts T Ab = (a, b) /\ edge_pts T Bc = (b, c) /\ edge_pts T Ca = (c, a)) by (repeat split; reflexivity). destruct ET as (ETa & ETb & ETc).
    (* invalidate and the three pushes *)
    apply mbind_ok in H. destruct H as ([] & M1 & H1 & H).
    pose proof (lv_invalidate _ _ _ _ Et H1) as Hlv1. pose proof (lk_invalidate _ _ _ _ H1) as Hlk1.
    pose proof (G_invalidate _ _ _ _ _ Et H1 (LNKG_G _ HL)) as G1.
    apply mbind_ok in H. destruct H as (cap & M2 & H2 & H).
    destruct (push_lk_lv _ _ _ _ _ _ _ H2) as (T1' & ET1' & L2 & Hn2 & Hd2 & Ho2). rewrite ET1 in ET1'. inversion ET1'; subst T1'. clear ET1'. pose proof (G_push _ _ _ _ _ _ _ _ H2 G1) as G2.
    apply mbind_ok in H. destruct H as (abp & M3 & H3 & H).
    destruct (push_lk_lv _ _ _ _ _ _ _ H3) as (T2' & ET2' & L3 & Hn3 & Hd3 & Ho3). rewrite ET2 in ET2'. inversion ET2'; subst T2'. clear ET2'. pose proof (G_push _ _ _ _ _ _ _ _ H3 G2) as G3.
    apply mbind_ok in H. destruct H as (bcp & M4 & H4 & H).
    destruct (push_lk_lv _ _ _ _ _ _ _ H4) as (T3' & ET3' & L4 & Hn4 & Hd4 & Ho4). rewrite ET3 in ET3'. inversion ET3'; subst T3'. clear ET3'. pose proof (G_push _ _ _ _ _ _ _ _ H4 G3) as G4.
    assert (Nca : abp <> cap) by (intros Q; apply (Hd3 T1); rewrite Q; exact L2).
    assert (L3c : lvM M3 cap T1) by (apply (proj2 (Ho3 cap (fun Q => Nca (eq_sym Q)))); exact L2).
    assert (Ncb : bcp <> cap) by (intros Q; apply (Hd4 T1); rewrite Q; exact L3c).
    assert (Nab' : bcp <> abp) by (intros Q; apply (Hd4 T2); rewrite Q; exact L3).
    assert (Lc : lvM M4 cap T1) by (apply (proj2 (Ho4 cap (fun Q => Ncb (eq_sym Q)))); exact L3c).
    assert (La : lvM M4 abp T2) by (apply (proj2 (Ho4 abp (fun Q => Nab' (eq_sym Q)))); exact L3).
    assert (Nc4 : forall x, lk M4 cap x = None) by (intros x; rewrite (proj1 (Ho4 cap (fun Q => Ncb (eq_sym Q)))), (proj1 (Ho3 cap (fun Q => Nca (eq_sym Q)))); apply Hn2).
    assert (Na4 : forall x, lk M4 abp x = None) by (intros x; rewrite (proj1 (Ho4 abp (fun Q => Nab' (eq_sym Q)))); apply Hn3).
    assert (Hold_lv : forall j U, j <> cap -> j <> abp -> j <> bcp -> (lvM M4 j U <-> (lvM M j U /\ j <> i))).
    { intros j U A1 A2 A3. rewrite (proj2 (Ho4 j A3)), (proj2 (Ho3 j A2)), (proj2 (Ho2 j A1)), Hlv1. tauto. }
    assert (Hold_lk : forall j x, j <> cap -> j <> abp -> j <> bcp -> lk M4 j x = lk M j x).
    { intros j x A1 A2 A3. rewrite (proj1 (Ho4 j A3)), (proj1 (Ho3 j A2)), (proj1 (Ho2 j A1)), Hlk1. reflexivity. }
    assert (Hlv4 : forall j U, lvM M4 j U -> (j = cap /\ U = T1) \/ (j = abp /\ U = T2) \/ (j = bcp /\ U = T3) \/ (j <> cap /\ j <> abp /\ j <> bcp /\ j <> i /\ lvM M j U)).
    { intros j U A. destruct (Nat.eq_dec j cap) as [-> | A1]; [left; split; [reflexivity | eapply lvM_fun; eassumption]|].
      destruct (Nat.eq_dec j abp) as [-> | A2]; [right; left; split; [reflexivity | eapply lvM_fun; eassumption]|].
      destruct (Nat.eq_dec j bcp) as [-> | A3]; [right; right; left; split; [reflexivity | eapply lvM_fun; eassumption]|].
      right; right; right. apply Hold_lv in A; try assumption. tauto. }
    assert (Oldnew : forall j U, lvM M j U -> j <> i -> j <> cap /\ j <> abp /\ j <> bcp).
    { intros j U A A'. assert (B1 : lvM M1 j U) by (apply Hlv1; split; assumption).
      assert (C1 : j <> cap) by (intros ->; exact (Hd2 U B1)). assert (B2 : lvM M2 j U) by (apply (proj2 (Ho2 j C1)); exact B1).
      assert (C2 : j <> abp) by (intros ->; exact (Hd3 U B2)). assert (B3 : lvM M3 j U) by (apply (proj2 (Ho3 j C2)); exact B2).
      assert (C3 : j <> bcp) by (intros ->; exact (Hd4 U B3)). auto. }
    assert (G4' : G (fun j x => lk M j x = Some i) M4) by (revert G4; apply G_weaken; intros j x [[]|Q]; exact Q).
    clear G4 G1 G2 G3 Hlv1 Hlk1 Ho2 Ho3 Ho4 Hn2 Hn3 Hd2 Hd3 Hd4 H1 H2 H3 H4 L2 L3 L3c.
    assert (Rt : forall x, tp_neighbour t x = lk M i x) by (intros x; unfold lk; rewrite Et; reflexivity). rewrite !Rt in H.
    assert (HnbT : forall x n, lk M i x = Some n -> n <> i /\ (n <> cap /\ n <> abp /\ n <> bcp) /\
              exists U kn, lvM M n U /\ tri_in P U /\ tri_distinct U /\ lk M n kn = Some i /\ edge_pts U kn = rev2 (edge_pts T x)).
    { intros x n E. destruct (good_inv M i T x n HL Lt E) as (A1 & U & kn & A2 & A3 & A4). split; [exact A1|]. split; [eapply Oldnew; eassumption|].
      exists U, kn. split; [exact A2|]. split; [destruct (mesh_vert_tri _ _ _ A2) as (Q1 & Q2 & Q3); repeat split; left; assumption|]. split; [eapply HD; exact A2|]. split; assumption. }
    set (New := fun j : nat => j = cap \/ j = abp \/ j = bcp).
    set (Val := fun Mk : Mesh => forall j x, ~ New j -> lk Mk j x = lk M j x \/ lk Mk j x = Some cap \/ lk Mk j x = Some abp \/ lk Mk j x = Some bcp).
    assert (Val4 : Val M4) by (intros j x A; left; apply Hold_lk; intros Q; apply A; unfold New; auto).
    assert (ValStep : forall Mk Mk' oo i1 ee k0, New i1 -> Val Mk ->
              (forall j x, ~ Wr oo i1 ee k0 j x -> lk Mk' j x = lk Mk j x) -> (forall n, oo = Some n -> lk Mk' n k0 = Some i1) -> Val Mk').
    { intros Mk Mk' oo i1 ee k0 Hi1 HV Fr Wv j x A. destruct (Wr_dec oo i1 ee k0 j x) as [(_ & [[Q _] | [Q Q']]) | W].
      - exfalso. apply A. rewrite Q. exact Hi1.
      - subst x. rewrite (Wv j Q). destruct Hi1 as [-> | [-> | ->]]; auto.
      - rewrite (Fr j x W). apply HV; assumption. }
    assert (Vict : forall Mk, Val Mk -> (forall j U, lvM Mk j U <-> lvM M4 j U) -> forall n kn x U e'' (G0 : V * V), ~ New n ->
              lk M n kn = Some i -> lk Mk n kn = Some x -> lvM Mk x U -> edge_pts U e'' = G0 ->
              (x = cap /\ edge_pts T1 e'' = G0) \/ (x = abp /\ edge_pts T2 e'' = G0) \/ (x = bcp /\ edge_pts T3 e'' = G0)).
    { intros Mk HV Hlvk n kn x U e'' G0 A1 A3 A4 A5 A6. apply Hlvk in A5.
      destruct (Hlv4 x U A5) as [(-> & ->) | [(-> & ->) | [(-> & ->) | (B1 & B2 & B3 & B4 & _)]]]; auto.
      exfalso. destruct (HV n kn A1) as [Q | [Q | [Q | Q]]]; rewrite Q in A4; [rewrite A3 in A4|..]; inversion A4; congruence. }
    assert (NW : forall oo i1 ee k0 j x, (forall n, oo = Some n -> ~ New n) -> New j -> ~ (j = i1 /\ x = ee) -> ~ Wr oo i1 ee k0 j x).
    { intros oo i1 ee k0 j x Hoo Hj Hn (_ & [Q | [Q _]]); [exact (Hn Q) | exact (Hoo j Q Hj)]. }
    assert (NoN : forall x n, lk M i x = Some n -> ~ New n) by (intros x n E [Q | [Q | Q]]; destruct (HnbT x n E) as (_ & (A1 & A2 & A3) & _); congruence).
    (* the three links between the children *)
    apply mbind_ok in H. destruct H as ([] & M5 & H5 & H).
    destruct (G_mark_sep P _ cap Bc abp T1 T2 Ca M4 M5 HP I1 I2 D2 G4' Lc La) as (G5 & S5 & W5a & W5b & F5);
      [congruence | rewrite E2c, E1b; reflexivity | apply Nc4 | intros x U' e'' Q1; rewrite Na4 in Q1; discriminate | exact H5 |].
    pose proof (lvM_skel _ _ S5) as Hlv5.
    apply mbind_ok in H. destruct H as ([] & M6 & H6 & H).
    destruct (G_mark_sep P _ abp Bc bcp T2 T3 Ca M5 M6 HP I2 I3 D3 G5) as (G6 & S6 & W6a & W6b & F6);
      [apply Hlv5; exact La | apply Hlv5; exact L4 | congruence | rewrite E3c, E2b; reflexivity
      | rewrite F5 by (intros [? ?]; congruence); apply Na4
      | intros x U' e'' Q1; rewrite F5 in Q1 by (intros [? ?]; congruence); rewrite Hn4 in Q1; discriminate | exact H6 |].
    assert (Hlv6 : forall j U, lvM M6 j U <-> lvM M4 j U) by (intros j U; rewrite (lvM_skel _ _ S6); apply Hlv5).
    apply mbind_ok in H. destruct H as ([] & M7 & H7 & H).
    destruct (G_mark_sep P _ bcp Bc cap T3 T1 Ca M6 M7 HP I3 I1 D1 G6) as (G7 & S7 & W7a & W7b & F7);
      [apply Hlv6; exact L4 | apply Hlv6; exact Lc | congruence | rewrite E1c, E3b; reflexivity
      | rewrite F6 by (intros [? ?]; congruence); rewrite F5 by (intros [? ?]; congruence); apply Hn4
      | intros x U' e'' Q1; rewrite F6 in Q1 by (intros [? ?]; congruence); rewrite F5 in Q1 by (intros [? ?]; congruence); rewrite Nc4 in Q1; discriminate | exact H7 |].
    assert (Hlv7 : forall j U, lvM M7 j U <-> lvM M4 j U) by (intros j U; rewrite (lvM_skel _ _ S7); apply Hlv6).
    assert (Val7 : Val M7).
    { intros j x A. rewrite F7 by (intros [Q _]; apply A; unfold New; auto). rewrite F6 by (intros [Q _]; apply A; unfold New; auto).
      rewrite F5 by (intros [Q _]; apply A; unfold New; auto). apply Val4. exact A. }
    assert (N7 : forall j, New j -> lk M7 j Ab = None).
    { intros j Hj. rewrite F7 by (intros [? ?]; congruence). rewrite F6 by (intros [? ?]; congruence). rewrite F5 by (intros [? ?]; congruence).
      destruct Hj as [-> | [-> | ->]]; [apply Nc4 | apply Na4 | apply Hn4]. }
    (* the three links to the old neighbours *)
    apply mbind_ok in H. destruct H as ([] & M7c & H7c & H). apply mbind_ok in H. destruct H as ([] & M8 & H8 & H).
    destruct (G_mark_opt_gen P _ (lk M i Ca) cap Ab T1 M7 M7c M8 M8 HP I1 G7) as (k8 & G8 & S8 & F8 & W8);
      [apply Hlv7; exact Lc | apply N7; unfold New; auto | | exact (Meq_constrain _ _ _ _ _ _ _ H7c) | exact H8 | apply Meq_refl | ].
    { intros n E. destruct (HnbT _ n E) as (A1 & (B1 & B2 & B3) & U & kn & A3 & A4 & A5 & A6 & A7). exists U, kn.
      split; [exact A4|]. split; [exact A5|]. split; [apply Hlv7; apply Hold_lv; auto|]. split; [congruence|]. split; [rewrite A7, ETc, E1a; reflexivity|].
      intros x U' e'' Q1 Q2 Q3. destruct (Vict M7 Val7 Hlv7 n kn x U' e'' _ (NoN _ n E) A6 Q1 Q2 Q3) as [(-> & Q) | [(-> & Q) | (-> & Q)]].
      - split; [reflexivity|]. apply (edge_unique T1 (edge_pts T1 Ab) e'' Ab D1); [left; symmetry; exact Q | left; reflexivity].
      - exfalso. destruct e''; rewrite ?E1a, ?E2a, ?E2b, ?E2c in Q; inversion Q; congruence.
      - exfalso. destruct e''; rewrite ?E1a, ?E3a, ?E3b, ?E3c in Q; inversion Q; congruence. }
    assert (Hlv8 : forall j U, lvM M8 j U <-> lvM M4 j U) by (intros j U; rewrite (lvM_skel _ _ S8); apply Hlv7).
    assert (Val8 : Val M8) by (apply (ValStep M7 M8 _ cap Ab k8 (or_introl eq_refl) Val7 F8); intros n E; exact (proj1 (proj2 (W8 n E)))).
    assert (N8 : forall j, j = abp \/ j = bcp -> lk M8 j Ab = None).
    { intros j Hj. rewrite (F8 j Ab); [apply N7; unfold New; tauto|]. apply NW; [apply NoN | unfold New; tauto | intros [Q _]; destruct Hj; congruence]. }
    apply mbind_ok in H. destruct H as ([] & M8c & H8c & H). apply mbind_ok in H. destruct H as ([] & M9 & H9 & H).
    destruct (G_mark_opt_gen P _ (lk M i Ab) abp Ab T2 M8 M8c M9 M9 HP I2 G8) as (k9 & G9 & S9 & F9 & W9);
      [apply Hlv8; exact La | apply N8; auto | | exact (Meq_constrain _ _ _ _ _ _ _ H8c) | exact H9 | apply Meq_refl | ].
    { intros n E. destruct (HnbT _ n E) as (A1 & (B1 & B2 & B3) & U & kn & A3 & A4 & A5 & A6 & A7). exists U, kn.
      split; [exact A4|]. split; [exact A5|]. split; [apply Hlv8; apply Hold_lv; auto|]. split; [congruence|]. split; [rewrite A7, ETa, E2a; reflexivity|].
      intros x U' e'' Q1 Q2 Q3. destruct (Vict M8 Val8 Hlv8 n kn x U' e'' _ (NoN _ n E) A6 Q1 Q2 Q3) as [(-> & Q) | [(-> & Q) | (-> & Q)]].
      - exfalso. destruct e''; rewrite ?E2a, ?E1a, ?E1b, ?E1c in Q; inversion Q; congruence.
      - split; [reflexivity|]. apply (edge_unique T2 (edge_pts T2 Ab) e'' Ab D2); [left; symmetry; exact Q | left; reflexivity].
      - exfalso. destruct e''; rewrite ?E2a, ?E3a, ?E3b, ?E3c in Q; inversion Q; congruence. }
    assert (Hlv9 : forall j U, lvM M9 j U <-> lvM M4 j U) by (intros j U; rewrite (lvM_skel _ _ S9); apply Hlv8).
    assert (Val9 : Val M9) by (apply (ValStep M8 M9 _ abp Ab k9 (or_intror (or_introl eq_refl)) Val8 F9); intros n E; exact (proj1 (proj2 (W9 n E)))).
    assert (N9 : lk M9 bcp Ab = None).
    { rewrite (F9 bcp Ab); [apply N8; auto|]. apply NW; [apply NoN | unfold New; tauto | intros [Q _]; congruence]. }
    apply mbind_ok in H. destruct H as ([] & M9c & H9c & H).
    destruct (G_mark_opt_gen P _ (lk M i Bc) bcp Ab T3 M9 M9c M' M' HP I3 G9) as (k10 & G10 & S10 & F10 & W10);
      [apply Hlv9; exact L4 | exact N9 | | exact (Meq_constrain _ _ _ _ _ _ _ H9c) | exact H | apply Meq_refl | ].
    { intros n E. destruct (HnbT _ n E) as (A1 & (B1 & B2 & B3) & U & kn & A3 & A4 & A5 & A6 & A7). exists U, kn.
      split; [exact A4|]. split; [exact A5|]. split; [apply Hlv9; apply Hold_lv; auto|]. split; [congruence|]. split; [rewrite A7, ETb, E3a; reflexivity|].
      intros x U' e'' Q1 Q2 Q3. destruct (Vict M9 Val9 Hlv9 n kn x U' e'' _ (NoN _ n E) A6 Q1 Q2 Q3) as [(-> & Q) | [(-> & Q) | (-> & Q)]].
      - exfalso. destruct e''; rewrite ?E3a, ?E1a, ?E1b, ?E1c in Q; inversion Q; congruence.
      - exfalso. destruct e''; rewrite ?E3a, ?E2a, ?E2b, ?E2c in Q; inversion Q; congruence.
      - split; [reflexivity|]. apply (edge_unique T3 (edge_pts T3 Ab) e'' Ab D3); [left; symmetry; exact Q | left; reflexivity]. }
    assert (Hlv10 : forall j U, lvM M' j U <-> lvM M4 j U) by (intros j U; rewrite (lvM_skel _ _ S10); apply Hlv9).
    split; [|split].
    - apply (G_LNKG _ _ G10). intros j Tj x k' Lj Ex ((((((Hb & W5x & W5y) & W6x & W6y) & W7x & W7y) & W8') & W9') & W10').
      assert (Ch : lk M' j x = lk M4 j x) by (rewrite (F10 j x W10'), (F9 j x W9'), (F8 j x W8'), (F7 j x W7y W7x), (F6 j x W6y W6x), (F5 j x W5y W5x); reflexivity).
      apply Hlv10 in Lj. destruct (Hlv4 j Tj Lj) as [(-> & _) | [(-> & _) | [(-> & _) | (A1 & A2 & A3 & A4 & Lj')]]];
        [rewrite Ch, Nc4 in Ex; discriminate | rewrite Ch, Na4 in Ex; discriminate | rewrite Ch, Hn4 in Ex; discriminate |].
      pose proof (HD _ _ Lj') as Dj.
      destruct (good_inv M j Tj x i HL Lj' Hb) as (_ & U & e' & LU & E' & Ge). rewrite (lvM_fun _ _ _ _ LU Lt) in Ge. clear LU U.
      destruct e'.
      + destruct (W9 j E') as (_ & _ & T2' & L2' & Geo). apply Hlv8 in L2'. rewrite (lvM_fun _ _ _ _ L2' Lj) in Geo.
        apply W9'. split; [rewrite E'; discriminate|]. right. split; [exact E'|].
        apply (edge_unique Tj (edge_pts Tj x) x k9 Dj); [left; reflexivity|]. left. rewrite Geo, E2a, <- ETa, Ge, rev2_invol. reflexivity.
      + destruct (W10 j E') as (_ & _ & T2' & L2' & Geo). apply Hlv9 in L2'. rewrite (lvM_fun _ _ _ _ L2' Lj) in Geo.
        apply W10'. split; [rewrite E'; discriminate|]. right. split; [exact E'|].
        apply (edge_unique Tj (edge_pts Tj x) x k10 Dj); [left; reflexivity|]. left. rewrite Geo, E3a, <- ETb, Ge, rev2_invol. reflexivity.
      + destruct (W8 j E') as (_ & _ & T2' & L2' & Geo). apply Hlv7 in L2'. rewrite (lvM_fun _ _ _ _ L2' Lj) in Geo.
        apply W8'. split; [rewrite E'; discriminate|]. right. split; [exact E'|].
        apply (edge_unique Tj (edge_pts Tj x) x k8 Dj); [left; reflexivity|]. left. rewrite Geo, E1a, <- ETc, Ge, rev2_invol. reflexivity.
    - intros j U Lj. apply Hlv10 in Lj. destruct (Hlv4 j U Lj) as [(_ & ->) | [(_ & ->) | [(_ & ->) | (_ & _ & _ & _ & Lj')]]]; [exact D1 | exact D2 | exact D3 | eapply HD; exact Lj'].
    - intros x (j & U & Lj & Hx). apply Hlv10 in Lj. destruct (Hlv4 j U Lj) as [(_ & ->) | [(_ & ->) | [(_ & ->) | (_ & _ & _ & _ & Lj')]]].
      + destruct I1 as (Q1 & Q2 & Q3). destruct Hx as [-> | [-> | ->]]; assumption.
      + destruct I2 as (Q1 & Q2 & Q3). destruct Hx as [-> | [-> | ->]]; assumption.
      + destruct I3 as (Q1 & Q2 & Q3). destruct Hx as [-> | [-> | ->]]; assumption.
      + left. exists j, U. split; assumption.
  Qed.

  (** ** split_edge: one hemisphere *)
  Lemma hemisphere_G (P : V -> Prop) (B : nat -> Edge -> Prop) (s : Seg K) (p : V) (idx : nat) (T : Tri K) (M M' : Mesh) (r : nat * nat) :
    VSEP P -> (forall x, mesh_vert M x -> P x) -> P p -> P (sstart s) -> P (send s) -> DIST M ->
    G B M -> (forall j x, B j x -> j = idx /\ same_seg (pair_of s) (edge_pts T x)) ->
    lvM M idx T -> process_hemisphere s p idx M = (M', Ok r) ->
    exists es a b c TA TB pbc,
      r = (idx, pbc) /\ same_seg (pair_of s) (edge_pts T es) /\ edge_pts T es = (a, b) /\ opp_v T es = c /\
      tri_new a p c = Ok TA /\ tri_new p b c = Ok TB /\ lvM M' idx TA /\ lvM M' pbc TB /\ pbc <> idx /\ (forall U, ~ lvM M pbc U) /\
      (forall j U, j <> idx -> j <> pbc -> (lvM M' j U <-> lvM M j U)) /\
      lk M' idx Ab = None /\ lk M' pbc Ab = None /\
      (forall j x, j <> idx -> j <> pbc -> lk M' j x = lk M j x \/
         (exists xe U, xe <> es /\ lk M idx xe = Some j /\ lvM M j U /\ edge_pts U x = rev2 (edge_pts T xe) /\ (lk M' j x = Some idx \/ lk M' j x = Some pbc))) /\
      G (fun j x => j <> idx /\ j <> pbc /\ lk M j x = Some idx /\ exists U, lvM M j U /\ edge_pts U x = rev2 (edge_pts T es)) M' /\
      DIST M' /\ (forall x, mesh_vert M' x -> P x).
  Proof.
    intros HP HPM Pp Ps1 Ps2 HD HG HB Lt H.
    destruct (lvT_slot _ _ _ Lt) as (t & Et & Ev & Qt).
    assert (IT : tri_in P T) by (destruct (mesh_vert_tri _ _ _ Lt) as (Q1 & Q2 & Q3); repeat split; apply HPM; assumption).
    pose proof (HD _ _ Lt) as DT.
    unfold process_hemisphere in H.
    apply bind_get_ok in H. destruct H as (t' & Et' & H). rewrite Et in Et'. inversion Et'; subst t'. clear Et'. rewrite Qt in H.
    apply bind_lift_ok in H. destruct H as (abi & Eabi & H).
    destruct (tri_get_edge_index_from_segment T s) as [abi'|] eqn:Eabi'; inversion Eabi; subst abi'. clear Eabi.
    destruct (edge_index_sound P HP T s abi IT Ps1 Ps2 Eabi') as (es & -> & Hes).
    apply bind_lift_ok in H. destruct H as (ab & Eab & H).
    destruct (tri_segment_pts T es) as (ab' & Eab' & Pab'). rewrite Eab in Eab'. inversion Eab'; subst ab'. clear Eab'.
    destruct (edge_pts T es) as [a b] eqn:Pab. unfold pair_of in Pab'. inversion Pab' as [[Qa Qb]]. rewrite Qa, Qb in H.
    assert (Hes' : same_seg (pair_of s) (edge_pts T es)) by (rewrite Pab; exact Hes).
    assert (Pa : P a /\ P b) by (pose proof (edge_pts_in P T es IT) as Q; rewrite Pab in Q; exact Q). destruct Pa as [Pa Pb].
    apply bind_lift_ok in H. destruct H as (ei & Eei & H).
    destruct (tri_get_edge_index_from_segment T ab) as [ei'|] eqn:Eei'; inversion Eei; subst ei'. clear Eei.
    assert (ei = edge_as_i es).
    { apply (edge_index_exact P HP T ab es ei IT DT); [rewrite Qa; exact Pa | rewrite Qb; exact Pb | left; unfold pair_of; rewrite Qa, Qb, Pab; reflexivity | exact Eei']. }
    subst ei. rewrite edge_from_as in H. rewrite (bind_lift_Ok _ es) in H by reflexivity.
    apply bind_lift_ok in H. destruct H as (c & Ec & H).
    assert (Pc : c = opp_v T es).
    { apply (opposite_exact P T ab es c HP IT DT); [rewrite Qa; exact Pa | rewrite Qb; exact Pb | left; unfold pair_of; rewrite Qa, Qb, Pab; reflexivity | exact Ec]. }
    assert (Pcc : P c) by (rewrite Pc; apply opp_v_in; exact IT).
    destruct (edge_pts_next T es) as [Pn1 Pn2]. rewrite Pab, <- Pc in Pn1, Pn2. cbn [fst snd] in Pn1, Pn2.
    apply mbind_ok in H. destruct H as ([] & M1 & H1 & H).
    pose proof (lv_invalidate _ _ _ _ Et H1) as Hlv1. pose proof (lk_invalidate _ _ _ _ H1) as Hlk1.
    pose proof (G_invalidate _ _ _ _ _ Et H1 HG) as G1. destruct (invalidate_dead _ _ _ _ Et H1) as ((u1 & Eu1 & Vu1) & _).
    apply bind_get_ok in H. destruct H as (t1 & Et1 & H).
    assert (Rt1 : forall x, tp_neighbour t1 x = lk M idx x) by (intros x; rewrite <- Hlk1; unfold lk; rewrite Et1; reflexivity).
    destruct (edge_add_next es) as [Ea1 Ea2].
    rewrite (bind_lift_Ok _ (next_e es)) in H by exact Ea1. rewrite (bind_lift_Ok _ (next_e (next_e es))) in H by exact Ea2.
    rewrite (bind_lift_Ok _ (next_e es)) in H by exact Ea1. rewrite (bind_lift_Ok _ (next_e (next_e es))) in H by exact Ea2.
    rewrite !Rt1 in H.
    apply mbind_ok in H. destruct H as (apc & M2 & H2 & H).
    pose proof (push_hint _ _ _ _ _ _ _ _ Eu1 Vu1 H2) as Q. subst apc.
    destruct (push_lk_lv _ _ _ _ _ _ _ H2) as (TA & ETA & L2 & Hn2 & _ & Ho2). pose proof (G_push _ _ _ _ _ _ _ _ H2 G1) as G2.
    apply mbind_ok in H. destruct H as (pbc & M3 & H3 & H).
    destruct (push_lk_lv _ _ _ _ _ _ _ H3) as (TB & ETB & L3 & Hn3 & Hd3 & Ho3). pose proof (G_push _ _ _ _ _ _ _ _ H3 G2) as G3.
    assert (Npi : pbc <> idx) by (intros Q; apply (Hd3 TA); rewrite Q; exact L2).
    assert (La3 : lvM M3 idx TA) by (apply (proj2 (Ho3 idx (fun Q => Npi (eq_sym Q)))); exact L2).
    assert (Na3 : forall x, lk M3 idx x = None) by (intros x; rewrite (proj1 (Ho3 idx (fun Q => Npi (eq_sym Q)))); apply Hn2).
    assert (Hold_lv : forall j U, j <> idx -> j <> pbc -> (lvM M3 j U <-> lvM M j U)).
    { intros j U A1 A2. rewrite (proj2 (Ho3 j A2)), (proj2 (Ho2 j A1)), Hlv1. tauto. }
    assert (Hold_lk : forall j x, j <> idx -> j <> pbc -> lk M3 j x = lk M j x).
    { intros j x A1 A2. rewrite (proj1 (Ho3 j A2)), (proj1 (Ho2 j A1)), Hlk1. reflexivity. }
    assert (Hlv3 : forall j U, lvM M3 j U -> (j = idx /\ U = TA) \/ (j = pbc /\ U = TB) \/ (j <> idx /\ j <> pbc /\ lvM M j U)).
    { intros j U A. destruct (Nat.eq_dec j idx) as [-> | A1]; [left; split; [reflexivity | eapply lvM_fun; eassumption]|].
      destruct (Nat.eq_dec j pbc) as [-> | A2]; [right; left; split; [reflexivity | eapply lvM_fun; eassumption]|].
      right; right. split; [exact A1 | split; [exact A2 | apply Hold_lv; assumption]]. }
    assert (Dead : forall U, ~ lvM M pbc U).
    { intros U A. apply (Hd3 U). apply (proj2 (Ho2 pbc Npi)). apply Hlv1. split; [exact A | exact Npi]. }
    (* the points *)
    pose proof (tri_new_distinct P HP _ _ _ _ Pa Pp Pcc ETA) as DA. pose proof (tri_new_distinct P HP _ _ _ _ Pp Pb Pcc ETB) as DB.
    pose proof (tri_new_pts _ _ _ _ ETA) as TPA. pose proof (tri_new_pts _ _ _ _ ETB) as TPB. unfold tri_pts in TPA, TPB.
    assert (VA : ta TA = a /\ tb TA = p /\ tc TA = c) by (inversion TPA; auto). assert (VB : ta TB = p /\ tb TB = b /\ tc TB = c) by (inversion TPB; auto).
    destruct VA as (VAa & VAb & VAc). destruct VB as (VBa & VBb & VBc). clear TPA TPB.
    destruct (tri_distinct_edge T es DT) as (Nab & Nac & Nbc). rewrite ?Pab, <- ?Pc in Nab, Nac, Nbc. cbn [fst snd] in Nab, Nac, Nbc.
    pose proof DA as (Nap & _ & Npc). rewrite ?VAa, ?VAb, ?VAc in Nap, Npc. pose proof DB as (Npb & _ & _). rewrite ?VBa, ?VBb in Npb.
    assert (IA : tri_in P TA) by (unfold tri_in; rewrite VAa, VAb, VAc; auto).
    assert (IB : tri_in P TB) by (unfold tri_in; rewrite VBa, VBb, VBc; auto).
    assert (EA : edge_pts TA Ab = (a, p) /\ edge_pts TA Bc = (p, c) /\ edge_pts TA Ca = (c, a)) by (unfold edge_pts; rewrite VAa, VAb, VAc; auto).
    assert (EB : edge_pts TB Ab = (p, b) /\ edge_pts TB Bc = (b, c) /\ edge_pts TB Ca = (c, p)) by (unfold edge_pts; rewrite VBa, VBb, VBc; auto).
    destruct EA as (EAa & EAb & EAc). destruct EB as (EBa & EBb & EBc).
    assert (Nes1 : next_e es <> es) by (destruct es; discriminate). assert (Nes2 : next_e (next_e es) <> es) by (destruct es; discriminate).
    assert (Hnb : forall xe n, xe <> es -> lk M idx xe = Some n -> n <> idx /\ n <> pbc /\
              exists U kn, lvM M n U /\ tri_in P U /\ tri_distinct U /\ lk M n kn = Some idx /\ edge_pts U kn = rev2 (edge_pts T xe)).
    { intros xe n Hx E. destruct (HG idx T Lt xe n E) as [A | (A1 & T' & U & e' & A2 & A3 & A4 & A5)].
      - exfalso. apply Hx. destruct (HB _ _ A) as [_ A']. apply (edge_unique T (pair_of s) xe es DT); assumption.
      - split; [exact A1|]. split; [intros ->; exact (Dead U A3)|]. rewrite (lvM_fun _ _ _ _ A2 Lt) in A5. exists U, e'.
        split; [exact A3|]. split; [destruct (mesh_vert_tri _ _ _ A3) as (Q1 & Q2 & Q3); repeat split; apply HPM; assumption|]. split; [eapply HD; exact A3|]. split; assumption. }
    assert (G3' : G (fun j x => B j x \/ lk M j x = Some idx) M3) by exact G3.
    clear G1 G2 G3 Ho2 Ho3 Hlv1 Hn2 Hd3 H1 H2 H3 L2 Eu1 Vu1.
    set (Val := fun Mk : Mesh => forall j x, j <> idx -> j <> pbc -> lk Mk j x = lk M j x \/ lk Mk j x = Some idx \/ lk Mk j x = Some pbc).
    assert (Val3 : Val M3) by (intros j x A1 A2; left; apply Hold_lk; assumption).
    assert (ValStep : forall Mk Mk' oo i1 ee k0, (i1 = idx \/ i1 = pbc) -> Val Mk ->
              (forall j x, ~ Wr oo i1 ee k0 j x -> lk Mk' j x = lk Mk j x) -> (forall n, oo = Some n -> lk Mk' n k0 = Some i1) -> Val Mk').
    { intros Mk Mk' oo i1 ee k0 Hi1 HV Fr Wv j x A1 A2. destruct (Wr_dec oo i1 ee k0 j x) as [(_ & [[Q _] | [Q Q']]) | W].
      - exfalso. destruct Hi1; congruence.
      - subst x. rewrite (Wv j Q). destruct Hi1 as [-> | ->]; auto.
      - rewrite (Fr j x W). apply HV; assumption. }
    assert (Vict : forall Mk, Val Mk -> (forall j U, lvM Mk j U <-> lvM M3 j U) -> forall n kn x U e'' (G0 : V * V), n <> idx -> n <> pbc ->
              lk M n kn = Some idx -> lk Mk n kn = Some x -> lvM Mk x U -> edge_pts U e'' = G0 ->
              (x = idx /\ edge_pts TA e'' = G0) \/ (x = pbc /\ edge_pts TB e'' = G0)).
    { intros Mk HV Hlvk n kn x U e'' G0 A1 A2 A3 A4 A5 A6. apply Hlvk in A5.
      assert (Hx : x = idx \/ x = pbc) by (destruct (HV n kn A1 A2) as [Q | [Q | Q]]; rewrite Q in A4; [rewrite A3 in A4|..]; inversion A4; auto).
      destruct Hx as [-> | ->]; [left | right]; (split; [reflexivity|]); [rewrite <- (lvM_fun _ _ _ _ A5 La3) | rewrite <- (lvM_fun _ _ _ _ A5 L3)]; exact A6. }
    assert (NW : forall oo i1 ee k0 j x, (forall n, oo = Some n -> n <> idx /\ n <> pbc) -> (j = idx \/ j = pbc) -> ~ (j = i1 /\ x = ee) -> ~ Wr oo i1 ee k0 j x).
    { intros oo i1 ee k0 j x Hoo Hj Hn (_ & [Q | [Q _]]); [exact (Hn Q) | destruct (Hoo j Q); destruct Hj; congruence]. }
    assert (Noa : forall n, lk M idx (next_e (next_e es)) = Some n -> n <> idx /\ n <> pbc) by (intros n E; destruct (Hnb _ n Nes2 E) as (A & A' & _); split; assumption).
    assert (Nob : forall n, lk M idx (next_e es) = Some n -> n <> idx /\ n <> pbc) by (intros n E; destruct (Hnb _ n Nes1 E) as (A & A' & _); split; assumption).
    (* constrain; apc Bc <-> pbc *)
    apply mbind_ok in H. destruct H as ([] & M3c & H3c & H). apply mbind_ok in H. destruct H as ([] & M4 & H4 & H).
    destruct (G_mark_opt_gen P _ (Some pbc) idx Bc TA M3 M3c M4 M4 HP IA G3' La3 (Na3 Bc)) as (k4 & G4 & S4 & F4 & W4);
      [ | exact (Meq_constrain _ _ _ _ _ _ _ H3c) | exact H4 | apply Meq_refl | ].
    { intros n E. inversion E; subst n. exists TB, Ca. split; [exact IB|]. split; [exact DB|]. split; [exact L3|]. split; [congruence|]. split; [rewrite EBc, EAb; reflexivity|].
      intros x U' e'' Q1. rewrite Hn3 in Q1. discriminate. }
    destruct (W4 pbc eq_refl) as (W4a & W4b & TB' & LB' & GeoB). rewrite (lvM_fun _ _ _ _ LB' L3) in GeoB. clear TB' LB'.
    assert (k4 = Ca) by (apply (edge_unique TB (edge_pts TB k4) k4 Ca DB); [left; reflexivity | left; rewrite GeoB, EAb, EBc; reflexivity]). subst k4.
    pose proof (lvM_skel _ _ S4) as Hlv4.
    assert (Val4 : Val M4) by (intros j x A1 A2; rewrite F4 by (intros (_ & [[Q _] | [Q _]]); congruence); apply Val3; assumption).
    assert (N4 : forall j x, (j = idx /\ x <> Bc) \/ (j = pbc /\ x <> Ca) -> lk M4 j x = None).
    { intros j x [[-> Hx] | [-> Hx]]; (rewrite F4; [first [apply Na3 | apply Hn3]|]); intros (_ & [[Q Q'] | [Q Q']]); try congruence; inversion Q; congruence. }
    (* apc Ca <-> the neighbour across (c, a); two constrains *)
    apply mbind_ok in H. destruct H as ([] & M5a & H5a & H). apply mbind_ok in H. destruct H as ([] & M5b & H5b & H). apply mbind_ok in H. destruct H as ([] & M5 & H5c & H).
    destruct (G_mark_opt_gen P _ (lk M idx (next_e (next_e es))) idx Ca TA M4 M4 M5a M5 HP IA G4) as (k5 & G5 & S5 & F5 & W5);
      [apply Hlv4; exact La3 | apply N4; left; split; [reflexivity | discriminate] | | apply Meq_refl | exact H5a
      | exact (Meq_trans _ _ _ (Meq_constrain _ _ _ _ _ _ _ H5b) (Meq_constrain _ _ _ _ _ _ _ H5c)) | ].
    { intros n E. destruct (Hnb _ n Nes2 E) as (A1 & A2 & U & kn & A3 & A4 & A5 & A6 & A7). exists U, kn.
      split; [exact A4|]. split; [exact A5|]. split; [apply Hlv4; apply Hold_lv; assumption|]. split; [congruence|]. split; [rewrite A7, Pn2, EAc; reflexivity|].
      intros x U' e'' Q1 Q2 Q3. destruct (Vict M4 Val4 Hlv4 n kn x U' e'' _ A1 A2 A6 Q1 Q2 Q3) as [(-> & Q) | (-> & Q)].
      - split; [reflexivity|]. apply (edge_unique TA (edge_pts TA Ca) e'' Ca DA); [left; symmetry; exact Q | left; reflexivity].
      - exfalso. destruct e''; rewrite ?EAc, ?EBa, ?EBb, ?EBc in Q; inversion Q; congruence. }
    assert (Hlv5 : forall j U, lvM M5 j U <-> lvM M3 j U) by (intros j U; rewrite (lvM_skel _ _ S5); apply Hlv4).
    assert (Val5 : Val M5) by (apply (ValStep M4 M5 _ idx Ca k5 (or_introl eq_refl) Val4 F5); intros n E; exact (proj1 (proj2 (W5 n E)))).
    assert (N5 : forall j x, (j = idx /\ x = Ab) \/ (j = pbc /\ x <> Ca) -> lk M5 j x = None).
    { intros j x Hj. rewrite (F5 j x); [apply N4; destruct Hj as [[-> ->] | [-> Hx]]; [left; split; [reflexivity | discriminate] | right; split; [reflexivity | exact Hx]]|].
      apply NW; [exact Noa | destruct Hj as [[-> _] | [-> _]]; auto | destruct Hj as [[-> ->] | [-> _]]; intros [Q Q']; congruence]. }
    (* pbc Bc <-> the neighbour across (b, c); constrain *)
    apply mbind_ok in H. destruct H as ([] & M6a & H6a & H). apply mbind_ok in H. destruct H as ([] & M6 & H6c & H).
    destruct (G_mark_opt_gen P _ (lk M idx (next_e es)) pbc Bc TB M5 M5 M6a M6 HP IB G5) as (k6 & G6 & S6 & F6 & W6);
      [apply Hlv5; exact L3 | apply N5; right; split; [reflexivity | discriminate] | | apply Meq_refl | exact H6a | exact (Meq_constrain _ _ _ _ _ _ _ H6c) | ].
    { intros n E. destruct (Hnb _ n Nes1 E) as (A1 & A2 & U & kn & A3 & A4 & A5 & A6 & A7). exists U, kn.
      split; [exact A4|]. split; [exact A5|]. split; [apply Hlv5; apply Hold_lv; assumption|]. split; [congruence|]. split; [rewrite A7, Pn1, EBb; reflexivity|].
      intros x U' e'' Q1 Q2 Q3. destruct (Vict M5 Val5 Hlv5 n kn x U' e'' _ A1 A2 A6 Q1 Q2 Q3) as [(-> & Q) | (-> & Q)].
      - exfalso. destruct e''; rewrite ?EBb, ?EAa, ?EAb, ?EAc in Q; inversion Q; congruence.
      - split; [reflexivity|]. apply (edge_unique TB (edge_pts TB Bc) e'' Bc DB); [left; symmetry; exact Q | left; reflexivity]. }
    assert (Hlv6 : forall j U, lvM M6 j U <-> lvM M3 j U) by (intros j U; rewrite (lvM_skel _ _ S6); apply Hlv5).
    assert (Val6 : Val M6) by (apply (ValStep M5 M6 _ pbc Bc k6 (or_intror eq_refl) Val5 F6); intros n E; exact (proj1 (proj2 (W6 n E)))).
    inversion H; subst M' r. clear H.
    assert (Ch4 : forall j x, j <> idx -> j <> pbc -> lk M4 j x = lk M j x).
    { intros j x A1 A2. rewrite F4 by (intros (_ & [[Q _] | [Q _]]); congruence). apply Hold_lk; assumption. }
    exists es, a, b, c, TA, TB, pbc.
    split; [reflexivity|]. split; [exact Hes'|]. split; [exact Pab|]. split; [symmetry; exact Pc|]. split; [exact ETA|]. split; [exact ETB|].
    split; [apply Hlv6; exact La3|]. split; [apply Hlv6; exact L3|]. split; [exact Npi|]. split; [exact Dead|].
    split; [intros j U A1 A2; rewrite Hlv6; apply Hold_lv; assumption|].
    split; [rewrite (F6 idx Ab) by (apply NW; [exact Nob | left; reflexivity | intros [Q _]; congruence]); apply N5; left; split; reflexivity|].
    split; [rewrite (F6 pbc Ab) by (apply NW; [exact Nob | right; reflexivity | intros [_ Q]; discriminate]); apply N5; right; split; [reflexivity | discriminate]|].
    split; [|split; [|split]].
    - intros j x A1 A2.
      destruct (Val6 j x A1 A2) as [Q | Q]; [left; exact Q|].
      destruct (Wr_dec (lk M idx (next_e (next_e es))) idx Ca k5 j x) as [(_ & [[Qj _] | [Qo Qx]]) | Wa]; [congruence | |].
      { right. destruct (W5 j Qo) as (_ & _ & T2' & L2' & Geo). apply Hlv4 in L2'. apply Hold_lv in L2'; try assumption.
        exists (next_e (next_e es)), T2'. split; [exact Nes2|]. split; [exact Qo|]. split; [exact L2'|]. split; [rewrite Qx, Geo, EAc, Pn2; reflexivity | exact Q]. }
      destruct (Wr_dec (lk M idx (next_e es)) pbc Bc k6 j x) as [(_ & [[Qj _] | [Qo Qx]]) | Wb]; [congruence | |].
      { right. destruct (W6 j Qo) as (_ & _ & T2' & L2' & Geo). apply Hlv5 in L2'. apply Hold_lv in L2'; try assumption.
        exists (next_e es), T2'. split; [exact Nes1|]. split; [exact Qo|]. split; [exact L2'|]. split; [rewrite Qx, Geo, EBb, Pn1; reflexivity | exact Q]. }
      left. rewrite (F6 j x Wb), (F5 j x Wa). apply Ch4; assumption.
    - revert G6. apply G_weaken_live. intros j Tj x k' Lj Ex (((Hb & W4') & W5') & W6').
      assert (Ch : lk M6 j x = lk M3 j x) by (rewrite (F6 j x W6'), (F5 j x W5'), (F4 j x W4'); reflexivity).
      apply Hlv6 in Lj. destruct (Hlv3 j Tj Lj) as [(-> & _) | [(-> & _) | (A1 & A2 & Lj')]];
        [rewrite Ch, Na3 in Ex; discriminate | rewrite Ch, Hn3 in Ex; discriminate |].
      destruct Hb as [Hb | Hb]; [destruct (HB _ _ Hb); congruence|].
      destruct (HG j Tj Lj' x idx Hb) as [Q | (_ & T' & U & e' & Q2 & Q3 & Q4 & Q5)]; [destruct (HB _ _ Q); congruence|].
      rewrite (lvM_fun _ _ _ _ Q3 Lt) in Q5. rewrite (lvM_fun _ _ _ _ Q2 Lj') in Q5. clear Q2 Q3 T' U.
      pose proof (HD _ _ Lj') as Dj.
      destruct (edges_all es e') as [-> | [-> | ->]].
      + split; [exact A1|]. split; [exact A2|]. split; [exact Hb|]. exists Tj. split; [exact Lj'|]. first [rewrite Q5, rev2_invol; reflexivity | rewrite <- Pab, Q5, rev2_invol; reflexivity].
      + exfalso. destruct (W6 j Q4) as (_ & _ & T2' & L2' & Geo). apply Hlv5 in L2'. rewrite (lvM_fun _ _ _ _ L2' Lj) in Geo.
        apply W6'. split; [rewrite Q4; discriminate|]. right. split; [exact Q4|].
        apply (edge_unique Tj (edge_pts Tj x) x k6 Dj); [left; reflexivity|]. left. rewrite Geo, EBb, <- Pn1, Q5, rev2_invol. reflexivity.
      + exfalso. destruct (W5 j Q4) as (_ & _ & T2' & L2' & Geo). apply Hlv4 in L2'. rewrite (lvM_fun _ _ _ _ L2' Lj) in Geo.
        apply W5'. split; [rewrite Q4; discriminate|]. right. split; [exact Q4|].
        apply (edge_unique Tj (edge_pts Tj x) x k5 Dj); [left; reflexivity|]. left. rewrite Geo, EAc, <- Pn2, Q5, rev2_invol. reflexivity.
    - intros j U Lj. apply Hlv6 in Lj. destruct (Hlv3 j U Lj) as [(_ & ->) | [(_ & ->) | (_ & _ & Lj')]]; [exact DA | exact DB | eapply HD; exact Lj'].
    - intros x (j & U & Lj & Hx). apply Hlv6 in Lj. destruct (Hlv3 j U Lj) as [(_ & ->) | [(_ & ->) | (_ & _ & Lj')]].
      + destruct IA as (Q1 & Q2 & Q3). destruct Hx as [-> | [-> | ->]]; assumption.
      + destruct IB as (Q1 & Q2 & Q3). destruct Hx as [-> | [-> | ->]]; assumption.
      + apply HPM. exists j, U. split; assumption.
  Qed.

  (** ** split_edge *)
  Theorem split_edge_LNKG (i : nat) (e : Edge) (p : V) (M M' : Mesh) :
    LNKG M -> DIST M -> VSEP (vert_or M p) -> split_edge i e p M = (M', Ok tt) ->
    LNKG M' /\ DIST M' /\ (forall x, mesh_vert M' x -> vert_or M p x).
  Proof.
    intros HL HD HP H. unfold split_edge in H. set (P := vert_or M p) in *.
    apply bind_get_ok in H. destruct H as (t & Et & H).
    destruct (tp_valid t) eqn:Ev; cbn [negb] in H; [|discriminate].
    apply bind_lift_ok in H. destruct H as (sg & Esg & H).
    apply mbind_ok in H. destruct H as ([] & M0 & H0 & H). apply precheck_ro in H0. subst M0.
    apply mbind_ok in H. destruct H as ([] & M0 & H0 & H).
    assert (M0 = M) by (destruct (tp_neighbour t e); [apply precheck_ro in H0; congruence | inversion H0; reflexivity]). subst M0. clear H0.
    set (T := tp_tri t) in *. assert (Lt : lvM M i T) by (apply slot_lvT; assumption).
    assert (HPM : forall x, mesh_vert M x -> P x) by (intros x Q; left; exact Q). assert (Pp : P p) by (right; reflexivity).
    assert (IT : tri_in P T) by (destruct (mesh_vert_tri _ _ _ Lt) as (Q1 & Q2 & Q3); repeat split; apply HPM; assumption).
    pose proof (HD _ _ Lt) as DT.
    destruct (tri_segment_pts T e) as (sg' & Esg' & Psg). rewrite Esg in Esg'. inversion Esg'; subst sg'. clear Esg'.
    assert (Ps : P (sstart sg) /\ P (send sg)) by (pose proof (edge_pts_in P T e IT) as Q; rewrite <- Psg in Q; exact Q). destruct Ps as [Ps1 Ps2].
    apply mbind_ok in H. destruct H as ([tl tr] & M1 & H1 & H).
    destruct (hemisphere_G P (fun _ _ => False) sg p i T M M1 _ HP HPM Pp Ps1 Ps2 HD (LNKG_G _ HL) (fun j x Q => False_ind _ Q) Lt H1)
      as (es & a & b & c & TA & TB & pbc1 & Er & Hes & Pab & Pc & ETA & ETB & LA1 & LB1 & Np1 & Dead1 & Hlv1 & NA1 & NB1 & Fr1 & G1 & D1 & V1).
    inversion Er; subst tl tr. clear Er.
    assert (es = e) by (apply (edge_unique T (pair_of sg) es e DT); [exact Hes | left; exact Psg]). subst es.
    assert (Rt : tp_neighbour t e = lk M i e) by (unfold lk; rewrite Et; reflexivity). rewrite Rt in H.
    destruct (lk M i e) as [nei|] eqn:Enei.
    2:{ inversion H; subst M'. split; [|split; assumption].
        apply (G_LNKG _ _ G1). intros j Tj x k' _ _ (A1 & A2 & A3 & U & A4 & A5).
        destruct (good_inv M j U x i HL A4 A3) as (_ & U' & e' & B1 & B2 & B3). rewrite (lvM_fun _ _ _ _ B1 Lt) in B3.
        assert (e' = e) by (apply (edge_unique T (edge_pts T e') e' e DT); [left; reflexivity | left; rewrite B3, A5, rev2_invol; reflexivity]). subst e'. congruence. }
    destruct (good_inv M i T e nei HL Lt Enei) as (Hne & Tn & k & Ln & Ek & Gk).
    assert (Ln1 : lvM M1 nei Tn) by (apply Hlv1; [exact Hne | intros ->; exact (Dead1 Tn Ln) | exact Ln]).
    apply mbind_ok in H. destruct H as ([br bl] & M2 & H2 & H).
    assert (HB1 : forall j x, (j <> i /\ j <> pbc1 /\ lk M j x = Some i /\ exists U, lvM M j U /\ edge_pts U x = rev2 (edge_pts T e)) -> j = nei /\ same_seg (pair_of sg) (edge_pts Tn x)).
    { intros j x (A1 & A2 & A3 & U & A4 & A5). destruct (good_inv M j U x i HL A4 A3) as (_ & U' & e' & B1 & B2 & B3). rewrite (lvM_fun _ _ _ _ B1 Lt) in B3.
      assert (e' = e) by (apply (edge_unique T (edge_pts T e') e' e DT); [left; reflexivity | left; rewrite B3, A5, rev2_invol; reflexivity]). subst e'.
      assert (j = nei) by congruence. subst j. split; [reflexivity|]. rewrite (lvM_fun _ _ _ _ Ln A4). right. rewrite Psg, A5, rev2_invol. reflexivity. }
    destruct (hemisphere_G P _ sg p nei Tn M1 M2 _ HP V1 Pp Ps1 Ps2 D1 G1 HB1 Ln1 H2)
      as (es2 & a' & b' & c' & TA' & TB' & pbc2 & Er & Hes2 & Pab2 & Pc2 & ETA' & ETB' & LA2 & LB2 & Np2 & Dead2 & Hlv2 & NA2 & NB2 & Fr2 & G2 & D2 & V2).
    inversion Er; subst br bl. clear Er.
    pose proof (HD _ _ Ln) as DN.
    assert (es2 = k) by (apply (edge_unique Tn (pair_of sg) es2 k DN); [exact Hes2 | right; rewrite Psg, Gk, rev2_invol; reflexivity]). subst es2.
    rewrite Gk, Pab in Pab2. cbn [rev2 fst snd] in Pab2. inversion Pab2; subst a' b'. clear Pab2.
    (* the points *)
    assert (IP : P a /\ P b /\ P c /\ P c').
    { pose proof (edge_pts_in P T e IT) as Q. rewrite Pab in Q. destruct Q as [Q1 Q2]. split; [exact Q1|]. split; [exact Q2|]. split; [rewrite <- Pc; apply opp_v_in; exact IT|].
      rewrite <- Pc2. apply opp_v_in. destruct (mesh_vert_tri _ _ _ Ln) as (R1 & R2 & R3). repeat split; apply HPM; assumption. }
    destruct IP as (Pa & Pb & Pcc & Pc').
    pose proof (tri_new_distinct P HP _ _ _ _ Pa Pp Pcc ETA) as DA. pose proof (tri_new_distinct P HP _ _ _ _ Pp Pb Pcc ETB) as DB.
    pose proof (tri_new_distinct P HP _ _ _ _ Pb Pp Pc' ETA') as DA'. pose proof (tri_new_distinct P HP _ _ _ _ Pp Pa Pc' ETB') as DB'.
    pose proof (tri_new_pts _ _ _ _ ETA) as TPA. pose proof (tri_new_pts _ _ _ _ ETB) as TPB. pose proof (tri_new_pts _ _ _ _ ETA') as TPA'. pose proof (tri_new_pts _ _ _ _ ETB') as TPB'.
    unfold tri_pts in TPA, TPB, TPA', TPB'.
    assert (VA : ta TA = a /\ tb TA = p /\ tc TA = c) by (inversion TPA; auto). assert (VB : ta TB = p /\ tb TB = b /\ tc TB = c) by (inversion TPB; auto).
    assert (VA' : ta TA' = b /\ tb TA' = p /\ tc TA' = c') by (inversion TPA'; auto). assert (VB' : ta TB' = p /\ tb TB' = a /\ tc TB' = c') by (inversion TPB'; auto).
    destruct VA as (VAa & VAb & VAc). destruct VB as (VBa & VBb & VBc). destruct VA' as (VA'a & VA'b & VA'c). destruct VB' as (VB'a & VB'b & VB'c). clear TPA TPB TPA' TPB'.
    destruct (tri_distinct_edge T e DT) as (Nab & Nac & Nbc). rewrite ?Pab, ?Pc in Nab, Nac, Nbc. cbn [fst snd] in Nab, Nac, Nbc.
    pose proof DA as (Nap & _ & Npc). rewrite ?VAa, ?VAb, ?VAc in Nap, Npc. pose proof DB as (Npb & _ & _). rewrite ?VBa, ?VBb in Npb.
    pose proof DA' as (_ & Nbc' & Npc'). rewrite ?VA'a, ?VA'b, ?VA'c in Nbc', Npc'. pose proof DB' as (_ & _ & Nac'). rewrite ?VB'b, ?VB'c in Nac'.
    assert (IA : tri_in P TA) by (unfold tri_in; rewrite VAa, VAb, VAc; auto). assert (IB : tri_in P TB) by (unfold tri_in; rewrite VBa, VBb, VBc; auto).
    assert (IA' : tri_in P TA') by (unfold tri_in; rewrite VA'a, VA'b, VA'c; auto). assert (IB' : tri_in P TB') by (unfold tri_in; rewrite VB'a, VB'b, VB'c; auto).
    assert (EA : edge_pts TA Ab = (a, p) /\ edge_pts TA Bc = (p, c) /\ edge_pts TA Ca = (c, a)) by (unfold edge_pts; rewrite VAa, VAb, VAc; auto).
    assert (EB : edge_pts TB Ab = (p, b) /\ edge_pts TB Bc = (b, c) /\ edge_pts TB Ca = (c, p)) by (unfold edge_pts; rewrite VBa, VBb, VBc; auto).
    assert (EA' : edge_pts TA' Ab = (b, p)) by (unfold edge_pts; rewrite VA'a, VA'b; auto).
    assert (EB' : edge_pts TB' Ab = (p, a)) by (unfold edge_pts; rewrite VB'a, VB'b; auto).
    destruct EA as (EAa & EAb & EAc). destruct EB as (EBa & EBb & EBc).
    assert (Qk : edge_pts Tn k = (b, a)) by (rewrite Gk, Pab; reflexivity).
    destruct (edge_pts_next Tn k) as [Qn1 Qn2]. rewrite Qk, Pc2 in Qn1, Qn2. cbn [fst snd] in Qn1, Qn2.
    assert (Nn1 : nei <> pbc1) by (intros ->; exact (Dead1 Tn Ln)).
    assert (HL2 : LNKG M2).
    { apply (G_LNKG _ _ G2). intros j Tj x k' _ _ (A1 & A2 & A3 & U & A4 & A5).
      destruct (G1 j U A4 x nei A3) as [Q | (_ & T' & U' & e'' & B1 & B2 & B3 & B4)]; [destruct (HB1 _ _ Q); congruence|].
      rewrite (lvM_fun _ _ _ _ B2 Ln1) in B4. rewrite (lvM_fun _ _ _ _ B1 A4) in B4. clear B1 B2 T' U'.
      assert (e'' = k) by (apply (edge_unique Tn (edge_pts Tn e'') e'' k DN); [left; reflexivity | left; rewrite B4, A5, rev2_invol; reflexivity]). subst e''.
      assert (Hj : j = i \/ j = pbc1).
      { destruct (Fr1 nei k Hne Nn1) as [Q | (xe & U'' & _ & _ & _ & _ & [Q | Q])]; rewrite Q in B3; [rewrite Ek in B3|..]; inversion B3; auto. }
      rewrite Qk in A5. cbn [rev2 fst snd] in A5.
      destruct Hj as [-> | ->]; [rewrite (lvM_fun _ _ _ _ A4 LA1) in A5 | rewrite (lvM_fun _ _ _ _ A4 LB1) in A5];
        destruct x; rewrite ?EAa, ?EAb, ?EAc, ?EBa, ?EBb, ?EBc in A5; inversion A5; congruence. }
    assert (Ni2 : i <> pbc2) by (intros ->; exact (Dead2 TA LA1)). assert (Np12 : pbc1 <> pbc2) by (intros ->; exact (Dead2 TB LB1)).
    assert (LA1' : lvM M2 i TA) by (apply Hlv2; [congruence | exact Ni2 | exact LA1]).
    assert (LB1' : lvM M2 pbc1 TB) by (apply Hlv2; [congruence | exact Np12 | exact LB1]).
    assert (NI : lk M2 i Ab = None).
    { destruct (Fr2 i Ab (fun Q => Hne (eq_sym Q)) Ni2) as [Q | (xe & U' & A1 & _ & A3 & A4 & _)]; [rewrite Q; exact NA1|].
      exfalso. rewrite (lvM_fun _ _ _ _ A3 LA1), EAa in A4. destruct (edges_all k xe) as [-> | [-> | ->]]; [contradiction | rewrite Qn1 in A4 | rewrite Qn2 in A4];
        cbn [rev2 fst snd] in A4; inversion A4; congruence. }
    assert (NP1 : lk M2 pbc1 Ab = None).
    { destruct (Fr2 pbc1 Ab (fun Q => Nn1 (eq_sym Q)) Np12) as [Q | (xe & U' & A1 & _ & A3 & A4 & _)]; [rewrite Q; exact NB1|].
      exfalso. rewrite (lvM_fun _ _ _ _ A3 LB1), EBa in A4. destruct (edges_all k xe) as [-> | [-> | ->]]; [contradiction | rewrite Qn1 in A4 | rewrite Qn2 in A4];
        cbn [rev2 fst snd] in A4; inversion A4; congruence. }
    apply mbind_ok in H. destruct H as ([] & M3 & H3 & H).
    destruct (G_mark_sep P _ i Ab pbc2 TA TB' Ab M2 M3 HP IA IB' DB' (LNKG_G _ HL2) LA1' LB2 Ni2) as (G3 & S3 & _ & _ & F3);
      [rewrite EB', EAa; reflexivity | exact NI | intros x U' e'' Q1; rewrite NB2 in Q1; discriminate | exact H3 |].
    pose proof (lvM_skel _ _ S3) as Hlv3.
    destruct (G_mark_sep P _ pbc1 Ab nei TB TA' Ab M3 M' HP IB IA' DA' G3) as (G4 & S4 & _ & _ & F4);
      [apply Hlv3; exact LB1' | apply Hlv3; exact LA2 | congruence | rewrite EA', EBa; reflexivity
      | rewrite F3 by (intros [? ?]; congruence); exact NP1
      | intros x U' e'' Q1; rewrite F3 in Q1 by (intros [? ?]; congruence); rewrite NA2 in Q1; discriminate | exact H |].
    assert (Hlv4 : forall j U, lvM M' j U <-> lvM M2 j U) by (intros j U; rewrite (lvM_skel _ _ S4); apply Hlv3).
    split; [|split].
    - apply (G_LNKG _ _ G4). intros j Tj x k' _ _ ((Q & _) & _). exact Q.
    - intros j U Lj. apply Hlv4 in Lj. eapply D2; exact Lj.
    - intros x (j & U & Lj & Hx). apply Hlv4 in Lj. apply V2. exists j, U. split; assumption.
  Qed.

  (** ** the packaged invariant; restore_delaunay; add_point *)
  Definition GEO (M : Mesh) : Prop := LNKG M /\ DIST M /\ SEP M.
  Lemma VSEP_sub (P Q : V -> Prop) : (forall x, Q x -> P x) -> VSEP P -> VSEP Q.
  Proof. intros H HP x y A B. apply HP; apply H; assumption. Qed.
  Theorem flip_GEO (i : nat) (e : Edge) (M M' : Mesh) : GEO M -> flip_diagonal i e M = (M', Ok tt) -> GEO M'.
  Proof.
    intros (HL & HD & HS) H. destruct (flip_LNKG i e M M' HL HS HD H) as (A & B & C). split; [exact A | split; [exact B|]]. exact (VSEP_sub _ _ C HS).
  Qed.
  (** the inserted point is separated from the vertices of the mesh (and compares equal to itself) *)
  Definition SEPp (M : Mesh) (p : V) : Prop := VSEP (vert_or M p).
  Lemma SEPp_SEP M p : SEPp M p -> SEP M.
  Proof. apply VSEP_sub. intros x Q. left. exact Q. Qed.
  Theorem split_triangle_GEO (i : nat) (p : V) (M M' : Mesh) : LNKG M -> DIST M -> SEPp M p -> split_triangle i p M = (M', Ok tt) -> GEO M'.
  Proof.
    intros HL HD HS H. destruct (split_triangle_LNKG i p M M' HL HD HS H) as (A & B & C). split; [exact A | split; [exact B|]]. exact (VSEP_sub _ _ C HS).
  Qed.
  Theorem split_edge_GEO (i : nat) (e : Edge) (p : V) (M M' : Mesh) : LNKG M -> DIST M -> SEPp M p -> split_edge i e p M = (M', Ok tt) -> GEO M'.
  Proof.
    intros HL HD HS H. destruct (split_edge_LNKG i e p M M' HL HD HS H) as (A & B & C). split; [exact A | split; [exact B|]]. exact (VSEP_sub _ _ C HS).
  Qed.
  Lemma rd_pass_GEO (m : K) : forall cnt i l any M M' b, GEO M -> rd_pass m cnt i l any M = (M', Ok b) -> GEO M'.
  Proof.
    induction cnt as [|cnt IH]; intros i l any M M' b HG H; cbn [rd_pass] in H.
    - inversion H; subst. exact HG.
    - destruct l as [|t l']; [discriminate|].
      destruct (negb (tp_valid t)); [eapply IH; eassumption|].
      destruct (nltb (tp_ar t) m); [eapply IH; eassumption|].
      apply mbind_ok in H. destruct H as (bst & M1 & H1 & H). inversion H1; subst M1. clear H1.
      destruct (fst bst) as [best|]; [|eapply IH; eassumption].
      apply mbind_ok in H. destruct H as ([] & M1 & H1 & H). eapply IH; [eapply flip_GEO; eassumption | exact H].
  Qed.
  Lemma rd_loops_GEO (m : K) (n : nat) : forall loops M M', GEO M -> rd_loops m n loops M = (M', Ok tt) -> GEO M'.
  Proof.
    induction loops as [|k IH]; intros M M' HG H; cbn [rd_loops] in H.
    - inversion H; subst. exact HG.
    - apply mbind_ok in H. destruct H as (any & M1 & H1 & H). pose proof (rd_pass_GEO _ _ _ _ _ _ _ _ HG H1) as HG1.
      destruct any; [eapply IH; eassumption | inversion H; subst; exact HG1].
  Qed.
  Theorem restore_GEO (m : K) (M M' : Mesh) : GEO M -> restore_delaunay m M = (M', Ok tt) -> GEO M'.
  Proof. intros HG H. unfold restore_delaunay in H. eapply rd_loops_GEO; eassumption. Qed.
  Theorem add_point_GEO (p : V) (M M' : Mesh) (b : bool) : LNKG M -> DIST M -> SEPp M p -> add_point p M = (M', Ok b) -> GEO M'.
  Proof.
    intros HL HD HS H. unfold add_point in H. destruct (find_container (tris M) 0 p) as [[i loc]|]; [|discriminate].
    unfold add_point_to_triangle in H. apply bind_get_ok in H. destruct H as (t & _ & H).
    destruct (negb (tp_valid t)); [discriminate|].
    assert (G0 : GEO M) by (split; [exact HL | split; [exact HD | eapply SEPp_SEP; exact HS]]).
    destruct (pit_is_vertex loc); [inversion H; subst; exact G0|].
    destruct (pit_is_edge loc).
    - apply bind_lift_ok in H. destruct H as (ed & _ & H). apply mbind_ok in H. destruct H as ([] & M1 & H1 & H). inversion H; subst.
      eapply split_edge_GEO; eassumption.
    - destruct loc; try discriminate. apply mbind_ok in H. destruct H as ([] & M1 & H1 & H). inversion H; subst. eapply split_triangle_GEO; eassumption.
  Qed.

  (** ** flip_diagonal on a sound mesh with the link geometry: Err 102 cannot occur *)
  Ltac tail_tac :=
    repeat first
      [ eapply tail_bind; [|intros ?] | apply tail_ret_true | apply tail_ret; reflexivity | apply tail_when
      | apply tail_constrain; apply lv_lt; apply lv_live; assumption
      | apply tail_mark; [apply lv_live; assumption | apply lv_live; assumption | first [right; congruence | left; reflexivity]] ].
  Theorem flip_struct_geo (i : nat) (e : Edge) (M M' : Mesh) (r : res unit) :
    WF M -> CNT M -> GEO M -> flip_diagonal i e M = (M', r) ->
    (r = Ok tt /\ WF M' /\ CNT M' /\ LNK M') \/ M' = M \/ r = Panic 64%N.
  Proof.
    intros W C (HL & HD & HS) H. pose proof (LNKG_LNK _ HL) as HLk. unfold flip_diagonal in H.
    apply bind_get_inv in H. destruct H as [(t & Et & H) | (-> & _)]; [|right; left; reflexivity].
    destruct (tp_valid t) eqn:Ev; cbn [negb] in H; [|inversion H; subst; right; left; reflexivity].
    destruct (tp_neighbour t e) as [ni|] eqn:En; [|inversion H; subst; right; left; reflexivity].
    destruct (W i t Et e ni En) as [Hlt Hne'].
    apply bind_get_inv in H. destruct H as [(nb & Enb & H) | (-> & _)]; [|right; left; reflexivity].
    destruct (tp_valid nb) eqn:Evn; cbn [negb] in H; [|inversion H; subst; right; left; reflexivity].
    apply bind_lift_inv in H; destruct H as [(a & Ea & H) | (-> & _)]; [|right; left; reflexivity].
    apply bind_lift_inv in H; destruct H as [(b & Eb & H) | (-> & _)]; [|right; left; reflexivity].
    apply bind_lift_inv in H; destruct H as [(c & Ec & H) | (-> & _)]; [|right; left; reflexivity].
    apply bind_lift_inv in H; destruct H as [(o & Eo & H) | (-> & _)]; [|right; left; reflexivity].
    apply bind_lift_inv in H; destruct H as [(e1 & Ee1 & H) | (-> & _)]; [|right; left; reflexivity].
    apply bind_lift_inv in H; destruct H as [(e2 & Ee2 & H) | (-> & _)]; [|right; left; reflexivity].
    apply bind_lift_inv in H; destruct H as [(e3 & Ee3 & H) | (-> & _)]; [|right; left; reflexivity].
    apply bind_lift_inv in H; destruct H as [(e4 & Ee4 & H) | (-> & _)]; [|right; left; reflexivity].
    apply bind_lift_inv in H. destruct H as [(T1 & ET1 & H) | (-> & _)]; [|right; left; reflexivity].
    apply bind_lift_inv in H. destruct H as [(T2 & ET2 & H) | (-> & _)]; [|right; left; reflexivity].
    set (T := tp_tri t) in *. set (Tn := tp_tri nb) in *.
    assert (Lt : lvM M i T) by (apply slot_lvT; assumption).
    assert (Ln : lvM M ni Tn) by (apply slot_lvT; assumption).
    assert (Elk : lk M i e = Some ni) by (unfold lk; rewrite Et; exact En).
    destruct (good_inv M i T e ni HL Lt Elk) as (Hne & U & k & LU & Ek & Gk). rewrite (lvM_fun _ _ _ _ LU Ln) in *. clear LU U.
    set (P := mesh_vert M). assert (HP : VSEP P) by exact HS.
    assert (IT : tri_in P T) by (eapply mesh_vert_tri; exact Lt). assert (IN : tri_in P Tn) by (eapply mesh_vert_tri; exact Ln).
    pose proof (HD _ _ Lt) as DT. pose proof (HD _ _ Ln) as DN.
    destruct (flip_abc T e a b c Ea Eb Ec) as [Pab Pc].
    assert (Pa : P a /\ P b) by (pose proof (edge_pts_in P T e IT) as Q; rewrite Pab in Q; exact Q). destruct Pa as [Pa Pb].
    assert (Pcc : P c) by (rewrite <- Pc; apply opp_v_in; exact IT).
    assert (Po' : o = opp_v Tn k).
    { apply (opposite_exact P Tn (seg_new a b) k o HP IN DN Pa Pb); [|exact Eo]. right. cbn [pair_of seg_new sstart send]. rewrite Gk, Pab, rev2_invol. reflexivity. }
    assert (Po : P o) by (rewrite Po'; apply opp_v_in; exact IN).
    destruct (edge_pts_next T e) as [Pn1 Pn2]. rewrite Pab, Pc in Pn1, Pn2. cbn [fst snd] in Pn1, Pn2.
    destruct (edge_pts_next Tn k) as [Qn1 Qn2]. rewrite Gk, Pab, <- Po' in Qn1, Qn2. cbn [rev2 fst snd] in Qn1, Qn2.
    assert (Qk : edge_pts Tn k = (b, a)) by (rewrite Gk, Pab; reflexivity).
    assert (e1 = next_e (next_e e)) by (apply (edge_of_points_exact P 75 T a c _ e1 HP IT DT Pa Pcc); [right; rewrite Pn2; reflexivity | exact Ee1]).
    assert (e2 = next_e e) by (apply (edge_of_points_exact P 76 T c b _ e2 HP IT DT Pcc Pb); [right; rewrite Pn1; reflexivity | exact Ee2]).
    assert (e3 = next_e (next_e k)) by (apply (edge_of_points_exact P 77 Tn b o _ e3 HP IN DN Pb Po); [right; rewrite Qn2; reflexivity | exact Ee3]).
    assert (e4 = next_e k) by (apply (edge_of_points_exact P 78 Tn a o _ e4 HP IN DN Pa Po); [left; rewrite Qn1; reflexivity | exact Ee4]).
    subst e1 e2 e3 e4. clear Ee1 Ee2 Ee3 Ee4.
    pose proof (tri_new_distinct P HP _ _ _ _ Pa Po Pcc ET1) as D1. pose proof (tri_new_distinct P HP _ _ _ _ Pcc Po Pb ET2) as D2.
    pose proof (tri_new_pts _ _ _ _ ET1) as TP1. pose proof (tri_new_pts _ _ _ _ ET2) as TP2. unfold tri_pts in TP1, TP2.
    assert (V1 : ta T1 = a /\ tb T1 = o /\ tc T1 = c) by (inversion TP1; auto). assert (V2 : ta T2 = c /\ tb T2 = o /\ tc T2 = b) by (inversion TP2; auto).
    destruct V1 as (V1a & V1b & V1c). destruct V2 as (V2a & V2b & V2c). clear TP1 TP2.
    (* distinctness of the five points *)
    destruct (tri_distinct_edge T e DT) as (Nab & Nac & Nbc). rewrite ?Pab, ?Pc in Nab, Nac, Nbc. cbn [fst snd] in Nab, Nac, Nbc.
    destruct D1 as (Nao & Nac' & Noc). rewrite V1a, V1b, V1c in *. destruct D2 as (Nco & Ncb & Nob). rewrite V2a, V2b, V2c in *.
    assert (D1 : tri_distinct T1) by (unfold tri_distinct; rewrite V1a, V1b, V1c; auto).
    assert (D2 : tri_distinct T2) by (unfold tri_distinct; rewrite V2a, V2b, V2c; auto).
    assert (I1 : tri_in P T1) by (unfold tri_in; rewrite V1a, V1b, V1c; auto).
    assert (I2 : tri_in P T2) by (unfold tri_in; rewrite V2a, V2b, V2c; auto).
    assert (E1ab : edge_pts T1 Ab = (a, o) /\ edge_pts T1 Bc = (o, c) /\ edge_pts T1 Ca = (c, a)) by (unfold edge_pts; rewrite V1a, V1b, V1c; auto).
    assert (E2ab : edge_pts T2 Ab = (c, o) /\ edge_pts T2 Bc = (o, b) /\ edge_pts T2 Ca = (b, c)) by (unfold edge_pts; rewrite V2a, V2b, V2c; auto).
    destruct E1ab as (E1a & E1b & E1c). destruct E2ab as (E2a & E2b & E2c).
    (* the old neighbours of the two triangles *)
    assert (HnbT : forall x n, x <> e -> lk M i x = Some n -> n <> i /\ n <> ni /\
              exists U kn, lvM M n U /\ tri_in P U /\ tri_distinct U /\ lk M n kn = Some i /\ edge_pts U kn = rev2 (edge_pts T x)).
    { intros x n Hx E. destruct (good_inv M i T x n HL Lt E) as (A1 & U & kn & A2 & A3 & A4). split; [exact A1|].
      assert (A5 : n <> ni).
      { intros ->. rewrite (lvM_fun _ _ _ _ A2 Ln) in A4. destruct (edges_all e x) as [-> |[-> | ->]]; [contradiction | rewrite Pn1 in A4 | rewrite Pn2 in A4];
          destruct (edges_all k kn) as [-> |[-> | ->]]; rewrite ?Qk, ?Qn1, ?Qn2 in A4; cbn [rev2 fst snd] in A4; inversion A4; congruence. }
      split; [exact A5|]. exists U, kn. split; [exact A2|]. split; [eapply mesh_vert_tri; exact A2|]. split; [eapply HD; exact A2|]. split; assumption. }
    assert (HnbN : forall x n, x <> k -> lk M ni x = Some n -> n <> i /\ n <> ni /\
              exists U kn, lvM M n U /\ tri_in P U /\ tri_distinct U /\ lk M n kn = Some ni /\ edge_pts U kn = rev2 (edge_pts Tn x)).
    { intros x n Hx E. destruct (good_inv M ni Tn x n HL Ln E) as (A1 & U & kn & A2 & A3 & A4). split; [|split; [exact A1|]].
      { intros ->. rewrite (lvM_fun _ _ _ _ A2 Lt) in A4. destruct (edges_all k x) as [-> |[-> | ->]]; [contradiction | rewrite Qn1 in A4 | rewrite Qn2 in A4];
          destruct (edges_all e kn) as [-> |[-> | ->]]; rewrite ?Pab, ?Pn1, ?Pn2 in A4; cbn [rev2 fst snd] in A4; inversion A4; congruence. }
      exists U, kn. split; [exact A2|]. split; [eapply mesh_vert_tri; exact A2|]. split; [eapply HD; exact A2|]. split; assumption. }
    assert (Nek1 : next_e k <> k) by (destruct k; discriminate). assert (Nek2 : next_e (next_e k) <> k) by (destruct k; discriminate).
    assert (Nee1 : next_e e <> e) by (destruct e; discriminate). assert (Nee2 : next_e (next_e e) <> e) by (destruct e; discriminate).
    assert (Rt : forall x, tp_neighbour t x = lk M i x) by (intros x; unfold lk; rewrite Et; reflexivity).
    assert (Rn : forall x, tp_neighbour nb x = lk M ni x) by (intros x; unfold lk; rewrite Enb; reflexivity).
    (* invalidate i *)
    apply mbind_inv in H. destruct H as [([] & M1 & H1 & H) | [(c0 & H1 & ->) | (s & H1 & ->)]];
      [| destruct (cnt_invalidate_live i M M' _ (ex_intro _ t (conj Et Ev)) C H1) as (_ & G & _); discriminate ..].
    destruct (cnt_invalidate_live i M M1 _ (ex_intro _ t (conj Et Ev)) C H1) as (C1 & _ & _).
    pose proof (wf_invalidate _ _ _ _ H1) as [Len1 W1]. specialize (W1 W).
    destruct (invalidate_slot _ _ _ _ Et H1) as (TE1 & Dd1 & Kk1 & Bb1).
    pose proof (lnks_invalidate _ _ _ _ _ Et H1 (LNK_LNKs _ HLk)) as Ll1.
    assert (Lni1 : live M1 ni) by (apply Kk1; [exact Hne | exists nb; split; assumption]).
    destruct Lni1 as (nb1 & Enb1 & Evn1).
    (* invalidate ni *)
    apply mbind_inv in H. destruct H as [([] & M2 & H2 & H) | [(c0 & H2 & ->) | (s & H2 & ->)]];
      [| destruct (cnt_invalidate_live ni M1 M' _ (ex_intro _ nb1 (conj Enb1 Evn1)) C1 H2) as (_ & G & _); discriminate ..].
    destruct (cnt_invalidate_live ni M1 M2 _ (ex_intro _ nb1 (conj Enb1 Evn1)) C1 H2) as (C2 & _ & _).
    pose proof (wf_invalidate _ _ _ _ H2) as [Len2 W2]. specialize (W2 W1).
    destruct (invalidate_slot _ _ _ _ Enb1 H2) as (TE2 & Dd2 & Kk2 & Bb2).
    pose proof (lnks_invalidate _ _ _ _ _ Enb1 H2 Ll1) as Ll2.
    assert (Di2 : ~ live M2 i) by (intros G; apply Dd1; apply Bb2; exact G).
    assert (Lli2 : i < length (tris M2)) by (assert (i < length (tris M)) by (apply nth_error_Some; congruence); lia).
    destruct (dead_slot _ _ Lli2 Di2) as (u2 & Eu2 & Evu2).
    (* push at the hint i *)
    apply mbind_inv in H. destruct H as [(aoc & M3 & H3 & H) | [(c0 & H3 & ->) | (s & H3 & ->)]];
      [| destruct (push_checked _ _ _ _ _ _ _ _ ET1 H3); discriminate | destruct (push_checked _ _ _ _ _ _ _ _ ET1 H3); discriminate].
    pose proof (push_hint _ _ _ _ _ _ _ _ Eu2 Evu2 H3) as Eqa. subst aoc.
    destruct (push_slot _ _ _ _ _ _ _ H3) as (_ & Vv3 & Kk3 & Bb3 & _).
    pose proof (cnt_push _ _ _ _ _ _ _ H3 C2) as C3. pose proof (wf_push _ _ _ _ _ _ _ H3) as [Len3 W3]. specialize (W3 W2). pose proof (lnks_push _ _ _ _ _ _ _ _ H3 Ll2) as Ll3.
    assert (Dn3 : ~ live M3 ni) by (intros G; destruct (Bb3 _ G) as [G'|G']; [apply Hne; exact G' | apply Dd2; exact G']).
    assert (Lln3 : ni < length (tris M3)) by lia.
    destruct (dead_slot _ _ Lln3 Dn3) as (u3 & Eu3 & Evu3).
    (* push at the hint ni *)
    apply mbind_inv in H. destruct H as [(cob & M4 & H4 & H) | [(c0 & H4 & ->) | (s & H4 & ->)]];
      [| destruct (push_checked _ _ _ _ _ _ _ _ ET2 H4); discriminate | destruct (push_checked _ _ _ _ _ _ _ _ ET2 H4); discriminate].
    pose proof (push_hint _ _ _ _ _ _ _ _ Eu3 Evu3 H4) as Eqb. subst cob.
    destruct (push_slot _ _ _ _ _ _ _ H4) as (_ & Vv4 & Kk4 & _).
    pose proof (cnt_push _ _ _ _ _ _ _ H4 C3) as C4. pose proof (wf_push _ _ _ _ _ _ _ H4) as [Len4 W4]. specialize (W4 W3). pose proof (lnks_push _ _ _ _ _ _ _ _ H4 Ll3) as Ll4.
    assert (Vi4 : live M4 i) by (apply Kk4; exact Vv3).
    assert (Hall : forall n, live M n -> live M4 n).
    { intros n Lvn. destruct (Nat.eq_dec n i) as [-> |Hni]; [exact Vi4|]. destruct (Nat.eq_dec n ni) as [-> |Hnn]; [exact Vv4|].
      apply Kk4, Kk3, Kk2; [exact Hnn|]. apply Kk1; assumption. }
    assert (HnT : forall e' n, tp_neighbour t e' = Some n -> live M4 n) by (intros e' n E'; apply Hall; exact (HLk i t Et Ev e' n E')).
    assert (HnN : forall e' n, tp_neighbour nb e' = Some n -> live M4 n) by (intros e' n E'; apply Hall; exact (HLk ni nb Enb Evn e' n E')).
    revert H.
    destruct (tp_neighbour nb (next_e k)) as [n4|] eqn:En4; [pose proof (HnN _ _ En4); rewrite Rn in En4; destruct (HnbN _ _ Nek1 En4) as (? & ? & _)|];
    (destruct (tp_neighbour t (next_e (next_e e))) as [n1|] eqn:En1; [pose proof (HnT _ _ En1); rewrite Rt in En1; destruct (HnbT _ _ Nee2 En1) as (? & ? & _)|]);
    (destruct (tp_neighbour nb (next_e (next_e k))) as [n3|] eqn:En3; [pose proof (HnN _ _ En3); rewrite Rn in En3; destruct (HnbN _ _ Nek2 En3) as (? & ? & _)|]);
    (destruct (tp_neighbour t (next_e e)) as [n2|] eqn:En2; [pose proof (HnT _ _ En2); rewrite Rt in En2; destruct (HnbT _ _ Nee1 En2) as (? & ? & _)|]).
    all: match type of Ll4 with LNKs ?S ?M0 => match goal with |- ?f M0 = _ -> _ => assert (G : Tail S false (skel (tris M0)) (fun _ => True) f) by tail_tac end end.
    all: intros HH; destruct (G M4 M' r eq_refl W4 C4 Ll4 HH) as (_ & W' & C' & L' & Ho).
    all: destruct r as [[]|c0|s0]; [left | destruct Ho; discriminate | right; right; subst s0; reflexivity].
    all: split; [reflexivity | split; [exact W' | split; [exact C' |]]]; revert L'; apply LNKs_LNK; cbn beta; intros k0; tauto.
  Qed.
End Steps.
