(** * Mesh_conf (C08 bookkeeping part, C09 b): the counter invariant, reciprocity of [mark_as_neighbours], and the
    panic sites that the invariants exclude.
    [Conf_struct M] = (i) [SYM]: every neighbour index of a live slot names a live slot that points back, and
                      (v) [CNT]: [n_valid_triangles] is the number of live slots.
    Proved here, for every number instance: (v) is preserved -- whatever the outcome -- by [push], by
    [invalidate] of a live slot, by [mark_as_neighbours], by [split_triangle], and by [flip_diagonal] and
    [restore_delaunay] on well-formed meshes; in these operations the usize underflow (site 61) is then
    unreachable; under [WF] the neighbour look-ups (sites 67, 73) are in range.  Of (i): a
    [mark_as_neighbours] call that returns Ok makes the two slots reference each other, and both are live.
    See Properties/C08_mesh.v for what is missing. *)
From Coq Require Import ZArith Bool List Arith Lia.
From G3 Require Import Model.Num Model.Base Model.Vec Model.Segment Model.Triangle Model.Loop Model.Polygon Model.Triangulation
  Proofs.Mesh_base Proofs.Mesh_wf Proofs.Mesh_sites.
Import ListNotations.

Section Conf.
  Context {K : Type} {NK : Num K}.
  Notation V := (V3 K).
  Notation TP := (TriPiece K).
  Notation Mesh := (Mesh K).

  Definition live (M : Mesh) (i : nat) : Prop := exists t, nth_error (tris M) i = Some t /\ tp_valid t = true.
  Fixpoint count_valid (l : list TP) : nat :=
    match l with [] => 0 | t :: tl => (if tp_valid t then 1 else 0) + count_valid tl end.
  (** (v) *)
  Definition CNT (M : Mesh) : Prop := nvalid M = count_valid (tris M).
  (** (i) *)
  Definition SYM (M : Mesh) : Prop :=
    forall i t, nth_error (tris M) i = Some t -> tp_valid t = true ->
    forall e j, tp_neighbour t e = Some j -> exists u, nth_error (tris M) j = Some u /\ tp_valid u = true /\ exists e', tp_neighbour u e' = Some i.
  Definition Conf_struct (M : Mesh) : Prop := SYM M /\ CNT M.

  (** ** inversion of the read-only prefixes *)
  Lemma bind_lift_inv {A B} (x : res A) (f : A -> MR B) (M M' : Mesh) (r : res B) :
    mbind (mlift x) f M = (M', r) ->
    (exists a, x = Ok a /\ f a M = (M', r)) \/ (M' = M /\ ((exists c, r = Err c) \/ (exists s, r = Panic s /\ x = Panic s))).
  Proof.
    unfold mbind, mlift. destruct x as [a|c|s]; intros H.
    - left. exists a. split; [reflexivity | exact H].
    - right. inversion H; subst. split; [reflexivity | left; eexists; reflexivity].
    - right. inversion H; subst. split; [reflexivity | right; eexists; split; reflexivity].
  Qed.
  Lemma bind_get_inv {B} (site : N) (i : nat) (f : TP -> MR B) (M M' : Mesh) (r : res B) :
    mbind (mget site i) f M = (M', r) ->
    (exists t, nth_error (tris M) i = Some t /\ f t M = (M', r)) \/ (M' = M /\ r = Panic site /\ nth_error (tris M) i = None).
  Proof.
    unfold mbind, mget. destruct (nth_error (tris M) i) as [t|]; intros H.
    - left. exists t. split; [reflexivity | exact H].
    - right. inversion H; subst. repeat split; reflexivity.
  Qed.

  (** ** counting *)
  Lemma count_upd_same (i : nat) (f : TP -> TP) (l : list TP) : (forall t, tp_valid (f t) = tp_valid t) -> count_valid (upd i f l) = count_valid l.
  Proof. intros Hf. revert i; induction l as [|t l IH]; intros [|i]; cbn [upd count_valid]; try reflexivity; [rewrite Hf; reflexivity | rewrite IH; reflexivity]. Qed.
  Lemma count_invalidate (i : nat) (l : list TP) (t : TP) : nth_error l i = Some t -> tp_valid t = true -> S (count_valid (upd i tp_invalidate l)) = count_valid l.
  Proof.
    revert i; induction l as [|u l IH]; intros [|i] H Hv; cbn [upd count_valid nth_error] in *; try discriminate.
    - inversion H; subst. rewrite Hv. cbn [tp_invalidate tp_valid]. lia.
    - rewrite <- (IH i H Hv). lia.
  Qed.
  Lemma count_set_nth (i : nat) (x : TP) (l : list TP) (t : TP) :
    nth_error l i = Some t -> tp_valid t = false -> tp_valid x = true -> count_valid (set_nth i x l) = S (count_valid l).
  Proof.
    revert i; induction l as [|u l IH]; intros [|i] H Hv Hx; cbn [set_nth count_valid nth_error] in *; try discriminate.
    - inversion H; subst. rewrite Hv, Hx. lia.
    - rewrite (IH i H Hv Hx). lia.
  Qed.
  Lemma count_app (l l' : list TP) : count_valid (l ++ l') = count_valid l + count_valid l'.
  Proof. induction l as [|t l IH]; cbn [app count_valid]; [reflexivity | rewrite IH; lia]. Qed.
  Lemma count_pos (l : list TP) (i : nat) (t : TP) : nth_error l i = Some t -> tp_valid t = true -> 0 < count_valid l.
  Proof. revert i; induction l as [|u l IH]; intros [|i] H Hv; cbn [count_valid nth_error] in *; try discriminate; [inversion H; subst; rewrite Hv; lia | specialize (IH i H Hv); lia]. Qed.

  (** the relation "the counter invariant survives" *)
  Definition Rcnt (M M' : Mesh) : Prop := CNT M -> CNT M'.
  Lemma Rcnt_refl M : Rcnt M M. Proof. intros H; exact H. Qed.
  Lemma Rcnt_trans M1 M2 M3 : Rcnt M1 M2 -> Rcnt M2 M3 -> Rcnt M1 M3. Proof. unfold Rcnt; tauto. Qed.
  Notation PC := (Pres Rcnt).

  Lemma tp_new_valid (a b c : V) (n : nat) (t : TP) : tp_new a b c n = Ok t -> tp_valid t = true.
  Proof. unfold tp_new. destruct (tri_new a b c); cbn [rbind]; try discriminate. intros H; inversion H; reflexivity. Qed.
  Lemma cnt_push (a b c : V) (la : nat) : PC (mesh_push a b c la).
  Proof.
    intros M M' r H C. unfold mesh_push in H. destruct (get_first_invalid M la) as [n|] eqn:Eg.
    - destruct (tp_new a b c n) as [t| |] eqn:Et; inversion H; subst; try exact C.
      apply get_first_invalid_spec in Eg. destruct Eg as (_ & u & Hu & Hv).
      unfold CNT in *; cbn [nvalid tris]. rewrite (count_set_nth _ _ _ _ Hu Hv (tp_new_valid _ _ _ _ _ Et)). rewrite C. reflexivity.
    - destruct (tp_new a b c (length (tris M))) as [t| |] eqn:Et; inversion H; subst; try exact C.
      unfold CNT in *; cbn [nvalid tris]. rewrite count_app. cbn [count_valid]. rewrite (tp_new_valid _ _ _ _ _ Et). rewrite C. lia.
  Qed.
  Lemma cnt_mupd s i (f : TP -> TP) : (forall t, tp_valid (f t) = tp_valid t) -> PC (mupd s i f).
  Proof.
    intros Hf M M' r H C. unfold mupd in H. destruct (Nat.ltb _ _); inversion H; subst; [|exact C].
    unfold CNT in *; cbn [nvalid tris]. rewrite count_upd_same; assumption.
  Qed.
  Lemma set_neighbour_valid e i (t : TP) : tp_valid (tp_set_neighbour e i t) = tp_valid t. Proof. destruct e; reflexivity. Qed.
  Lemma constrain_valid e (t : TP) : tp_valid (tp_constrain e t) = tp_valid t. Proof. destruct e; reflexivity. Qed.
  (** [invalidate] of a live slot: the counter follows, and the underflow is impossible *)
  Lemma cnt_invalidate_live (i : nat) (M M' : Mesh) (r : res unit) :
    live M i -> CNT M -> mesh_invalidate i M = (M', r) ->
    CNT M' /\ r = Ok tt /\ tris M' = upd i tp_invalidate (tris M).
  Proof.
    intros (t & Ht & Hv) C H. unfold mesh_invalidate in H.
    assert (L : Nat.ltb i (length (tris M)) = true) by (apply Nat.ltb_lt; apply nth_error_Some; congruence). rewrite L in H.
    pose proof (count_pos _ _ _ Ht Hv) as Hp. pose proof (count_invalidate _ _ _ Ht Hv) as Hi. unfold CNT in *.
    destruct (nvalid M) as [|k] eqn:En; [lia|]. inversion H; subst. cbn [nvalid tris]. repeat split. lia.
  Qed.

  Ltac pc_step :=
    match goal with
    | |- Pres Rcnt (mbind _ _) => apply (pres_bind Rcnt Rcnt_trans); [|intros ?]
    | |- Pres Rcnt (mret _) => apply (pres_ret Rcnt Rcnt_refl)
    | |- Pres Rcnt (mlift _) => apply (pres_lift Rcnt Rcnt_refl)
    | |- Pres Rcnt (mget _ _) => apply (pres_get Rcnt Rcnt_refl)
    | |- Pres Rcnt (mwhen _ _) => apply (pres_when Rcnt Rcnt_refl)
    | |- Pres Rcnt (mupd _ _ (tp_set_neighbour _ _)) => apply cnt_mupd; intros ?; apply set_neighbour_valid
    | |- Pres Rcnt (mupd _ _ (tp_constrain _)) => apply cnt_mupd; intros ?; apply constrain_valid
    | |- Pres Rcnt (mesh_push _ _ _ _) => apply cnt_push
    | |- Pres Rcnt (if ?b then _ else _) => destruct b
    | |- Pres Rcnt (match ?x with _ => _ end) => destruct x
    | |- Pres Rcnt (let '(_, _) := ?x in _) => destruct x
    end.
  Lemma cnt_mark i1 e1 i2 : PC (mark_as_neighbours (K:=K) i1 e1 i2).
  Proof. unfold mark_as_neighbours. repeat pc_step. Qed.

  Definition not61 (s : N) : bool := negb (N.eqb s 61).
  (** ** split_triangle keeps the counter, whatever its outcome, and cannot underflow it *)
  Theorem cnt_split_triangle (i : nat) (p : V) (M M' : Mesh) (r : res unit) :
    CNT M -> split_triangle i p M = (M', r) -> CNT M' /\ r <> Panic 61%N.
  Proof.
    intros C H. unfold split_triangle in H.
    apply bind_get_inv in H. destruct H as [(t & Et & H) | (-> & -> & _)]; [|split; [exact C | discriminate]].
    destruct (tp_valid t) eqn:Ev; cbn [negb] in H; [|inversion H; subst; split; [exact C | discriminate]].
    apply bind_lift_inv in H. destruct H as [(e1 & _ & H) | (-> & [(c & ->) | (s & -> & Hs)])]; [|split; [exact C | discriminate] |].
    2:{ split; [exact C|]. intros E; inversion E; subst. pose proof (np_edge_of_points_err not61 _ _ _ _ Hs) as G. discriminate. }
    apply bind_lift_inv in H. destruct H as [(e2 & _ & H) | (-> & [(c & ->) | (s & -> & Hs)])]; [|split; [exact C | discriminate] |].
    2:{ split; [exact C|]. intros E; inversion E; subst. pose proof (np_edge_of_points_err not61 _ _ _ _ Hs) as G. discriminate. }
    apply bind_lift_inv in H. destruct H as [(e3 & _ & H) | (-> & [(c & ->) | (s & -> & Hs)])]; [|split; [exact C | discriminate] |].
    2:{ split; [exact C|]. intros E; inversion E; subst. pose proof (np_edge_of_points_err not61 _ _ _ _ Hs) as G. discriminate. }
    (* the three constructibility checks of fix 361bbb9 (read only; Triangle3D::new cannot panic) *)
    apply bind_lift_inv in H. destruct H as [(k1 & _ & H) | (-> & [(c & ->) | (s & -> & Hs)])]; [|split; [exact C | discriminate] | exfalso; eapply tri_new_no_panic; exact Hs].
    apply bind_lift_inv in H. destruct H as [(k2 & _ & H) | (-> & [(c & ->) | (s & -> & Hs)])]; [|split; [exact C | discriminate] | exfalso; eapply tri_new_no_panic; exact Hs].
    apply bind_lift_inv in H. destruct H as [(k3 & _ & H) | (-> & [(c & ->) | (s & -> & Hs)])]; [|split; [exact C | discriminate] | exfalso; eapply tri_new_no_panic; exact Hs].
    apply mbind_inv in H. destruct H as [(u & M1 & H1 & H) | [(c & H1 & ->) | (s & H1 & ->)]].
    - destruct (cnt_invalidate_live i M M1 (Ok u) (ex_intro _ t (conj Et Ev)) C H1) as (C1 & _ & _).
      revert H. match goal with |- ?f M1 = _ -> _ => assert (G1 : Pres Rcnt f) by (repeat first [apply cnt_mark | pc_step]);
                                                   assert (G2 : NP not61 f) by (repeat np_step_g) end.
      intros H. split; [exact (G1 _ _ _ H C1)|]. intros E; subst r. pose proof (G2 _ _ _ H) as G. discriminate.
    - destruct (cnt_invalidate_live i M M' (Err c) (ex_intro _ t (conj Et Ev)) C H1) as (_ & G & _). discriminate.
    - destruct (cnt_invalidate_live i M M' (Panic s) (ex_intro _ t (conj Et Ev)) C H1) as (_ & G & _). discriminate.
  Qed.

  (** ** under [WF] the neighbour look-up of get_flipped_aspect_ratio is in range *)
  Lemma gfar_wf (M : Mesh) (i : nat) (e : Edge) : WF M -> get_flipped_aspect_ratio M i e <> Panic 67%N.
  Proof.
    intros W. unfold get_flipped_aspect_ratio. destruct (nth_error (tris M) i) as [t|] eqn:Et; [|discriminate].
    destruct (negb (tp_valid t)); [discriminate|]. destruct (tp_is_constrained t e); [discriminate|].
    destruct (tp_neighbour t e) as [ni|] eqn:En; [|discriminate].
    destruct (W i t Et e ni En) as [Hlt _]. apply nth_error_Some in Hlt.
    destruct (nth_error (tris M) ni) as [nb|]; [|exfalso; apply Hlt; reflexivity].
    destruct (negb (tp_valid nb)); [discriminate|]. destruct (Nat.eqb _ _); [discriminate|].
    intros H.
    assert (G' : forall (x : res (option K)), np_res (fun s => negb (N.eqb s 67)) x -> x <> Panic 67%N)
      by (intros x Hx E; specialize (Hx _ E); discriminate).
    revert H. apply G'.
    repeat first [ apply np_tp_new | apply np_tri_vertex | apply np_opposite | apply np_res_ok
                 | match goal with |- np_res _ (if ?b then _ else _) => destruct b end
                 | match goal with |- np_res _ (rbind _ _) => apply np_res_bind; [|intros ?] end ].
  Qed.

  Definition okflip (s : N) : bool := negb (N.eqb s 61) && negb (N.eqb s 73).
  (** ** flip_diagonal on a well-formed mesh keeps the counter, cannot underflow it, and finds its neighbour *)
  Theorem cnt_flip (i : nat) (e : Edge) (M M' : Mesh) (r : res unit) :
    WF M -> CNT M -> flip_diagonal i e M = (M', r) -> CNT M' /\ (forall s, r = Panic s -> okflip s = true).
  Proof.
    intros W C H. unfold flip_diagonal in H.
    assert (Hearly : forall (s : N), okflip s = true -> CNT M /\ (forall s', Panic s = @Panic unit s' -> okflip s' = true))
      by (intros s Hs; split; [exact C | intros s' E; inversion E; subst; exact Hs]).
    assert (Herr : forall c, CNT M /\ (forall s', @Err unit c = Panic s' -> okflip s' = true)) by (intros c; split; [exact C | discriminate]).
    apply bind_get_inv in H. destruct H as [(t & Et & H) | (-> & -> & _)]; [|apply Hearly; reflexivity].
    destruct (tp_valid t) eqn:Ev; cbn [negb] in H; [|inversion H; subst; apply Hearly; reflexivity].
    destruct (tp_neighbour t e) as [ni|] eqn:En; [|inversion H; subst; apply Hearly; reflexivity].
    destruct (W i t Et e ni En) as [Hlt Hne].
    apply bind_get_inv in H. destruct H as [(nb & Enb & H) | (_ & _ & Hnone)]; [|exfalso; apply nth_error_Some in Hlt; exact (Hlt Hnone)].
    destruct (tp_valid nb) eqn:Evn; cbn [negb] in H; [|inversion H; subst; apply Hearly; reflexivity].
    (* the read-only prefix: vertices, opposite vertex, the four surrounding edges *)
    assert (Hp : forall s (x : res V), np_res okflip x -> x = Panic s -> CNT M /\ (forall s', Panic s = @Panic unit s' -> okflip s' = true))
      by (intros s x Hx E; apply Hearly; exact (Hx _ E)).
    assert (Hq : forall s (x : res Edge), np_res okflip x -> x = Panic s -> CNT M /\ (forall s', Panic s = @Panic unit s' -> okflip s' = true))
      by (intros s x Hx E; apply Hearly; exact (Hx _ E)).
    apply bind_lift_inv in H. destruct H as [(va & _ & H) | (-> & [(c & ->) | (s & -> & Hs)])]; [|apply Herr | eapply Hp; [|exact Hs]; apply np_tri_vertex].
    apply bind_lift_inv in H. destruct H as [(vb & _ & H) | (-> & [(c & ->) | (s & -> & Hs)])]; [|apply Herr | eapply Hp; [|exact Hs]; apply np_tri_vertex].
    apply bind_lift_inv in H. destruct H as [(vc & _ & H) | (-> & [(c & ->) | (s & -> & Hs)])]; [|apply Herr | eapply Hp; [|exact Hs]; apply np_tri_vertex].
    apply bind_lift_inv in H. destruct H as [(op & _ & H) | (-> & [(c & ->) | (s & -> & Hs)])]; [|apply Herr | eapply Hp; [|exact Hs]; apply np_opposite].
    apply bind_lift_inv in H. destruct H as [(e1 & _ & H) | (-> & [(c & ->) | (s & -> & Hs)])]; [|apply Herr | eapply Hq; [|exact Hs]; apply np_edge_of_points; reflexivity].
    apply bind_lift_inv in H. destruct H as [(e2 & _ & H) | (-> & [(c & ->) | (s & -> & Hs)])]; [|apply Herr | eapply Hq; [|exact Hs]; apply np_edge_of_points; reflexivity].
    apply bind_lift_inv in H. destruct H as [(e3 & _ & H) | (-> & [(c & ->) | (s & -> & Hs)])]; [|apply Herr | eapply Hq; [|exact Hs]; apply np_edge_of_points; reflexivity].
    apply bind_lift_inv in H. destruct H as [(e4 & _ & H) | (-> & [(c & ->) | (s & -> & Hs)])]; [|apply Herr | eapply Hq; [|exact Hs]; apply np_edge_of_points; reflexivity].
    (* the two constructibility checks of fix 361bbb9 (read only; Triangle3D::new cannot panic) *)
    apply bind_lift_inv in H. destruct H as [(k1 & _ & H) | (-> & [(c & ->) | (s & -> & Hs)])]; [|apply Herr | exfalso; eapply tri_new_no_panic; exact Hs].
    apply bind_lift_inv in H. destruct H as [(k2 & _ & H) | (-> & [(c & ->) | (s & -> & Hs)])]; [|apply Herr | exfalso; eapply tri_new_no_panic; exact Hs].
    (* the two invalidations hit live slots *)
    apply mbind_inv in H. destruct H as [(u1 & M1 & H1 & H) | [(c & H1 & ->) | (s & H1 & ->)]];
      [| destruct (cnt_invalidate_live i M M' _ (ex_intro _ t (conj Et Ev)) C H1) as (_ & G & _); discriminate
       | destruct (cnt_invalidate_live i M M' _ (ex_intro _ t (conj Et Ev)) C H1) as (_ & G & _); discriminate].
    destruct (cnt_invalidate_live i M M1 _ (ex_intro _ t (conj Et Ev)) C H1) as (C1 & _ & T1).
    assert (L1 : live M1 ni).
    { exists nb. split; [|exact Evn]. rewrite T1, nth_error_upd. destruct (Nat.eqb_spec i ni); [exfalso; apply Hne; congruence | exact Enb]. }
    apply mbind_inv in H. destruct H as [(u2 & M2 & H2 & H) | [(c & H2 & ->) | (s & H2 & ->)]];
      [| destruct (cnt_invalidate_live ni M1 M' _ L1 C1 H2) as (_ & G & _); discriminate
       | destruct (cnt_invalidate_live ni M1 M' _ L1 C1 H2) as (_ & G & _); discriminate].
    destruct (cnt_invalidate_live ni M1 M2 _ L1 C1 H2) as (C2 & _ & _).
    revert H. match goal with |- ?f M2 = _ -> _ => assert (G1 : Pres Rcnt f) by (repeat first [apply cnt_mark | pc_step]);
                                                 assert (G2 : NP okflip f) by (repeat np_step_g) end.
    intros H. split; [exact (G1 _ _ _ H C2)|]. intros s E; subst r. exact (G2 _ _ _ H).
  Qed.

  (** ** restore_delaunay on a well-formed mesh: counter kept, no underflow, every look-up in range *)
  Definition okrd (s : N) : bool := negb (N.eqb s 61) && negb (N.eqb s 73) && negb (N.eqb s 67) && negb (N.eqb s 85).
  Lemma rd_best_wf (M : Mesh) (i : nat) (ar : K) : WF M -> forall js best s, (forall j, In j js -> (j < 3)%N) ->
    rd_best M i ar js best = Panic s -> negb (N.eqb s 67) && negb (N.eqb s 61) && negb (N.eqb s 73) && negb (N.eqb s 85) = true.
  Proof.
    intros W. induction js as [|j js IH]; intros best s Hj; cbn [rd_best]; [discriminate|].
    destruct (edge_from_i_lt j (Hj j (or_introl eq_refl))) as [ed ->]. cbn [rbind].
    pose proof (gfar_wf M i ed W) as G.
    pose proof (np_gfar (fun s => negb (N.eqb s 61) && negb (N.eqb s 73) && negb (N.eqb s 85)) eq_refl eq_refl eq_refl eq_refl eq_refl M i ed) as G'.
    destruct (get_flipped_aspect_ratio M i ed) as [r| |s']; cbn [rbind].
    - apply IH. intros j' Hj'. apply Hj. right. exact Hj'.
    - discriminate.
    - intros E; inversion E; subst. specialize (G' _ eq_refl). cbn beta in G'.
      destruct (N.eqb_spec s 67); [subst; exfalso; apply G; reflexivity|]. cbn [negb andb].
      apply andb_true_iff in G'. destruct G' as [G' G3]. apply andb_true_iff in G'. destruct G' as [G1 G2]. rewrite G1, G2, G3. reflexivity.
  Qed.
  Lemma cnt_rd_pass (m : K) : forall cnt i l any M M' r,
    WF M -> CNT M -> l = skipn i (tris M) -> cnt <= length l ->
    rd_pass m cnt i l any M = (M', r) -> CNT M' /\ WF M' /\ length (tris M) <= length (tris M') /\ (forall s, r = Panic s -> okrd s = true).
  Proof.
    induction cnt as [|cnt IH]; intros i l any M M' r W C Hl Hc H; cbn [rd_pass] in H.
    - inversion H; subst. split; [assumption | split; [assumption | split; [lia | discriminate]]].
    - destruct l as [|t l']; [cbn [length] in Hc; lia|].
      assert (Hl' : l' = skipn (S i) (tris M)).
      { clear -Hl. revert Hl. generalize (tris M). induction i as [|i IHi]; intros [|x L]; cbn [skipn]; try discriminate; intros E; [inversion E; reflexivity | apply IHi; exact E]. }
      cbn [length] in Hc.
      destruct (negb (tp_valid t)); [eapply IH; try eassumption; lia|].
      destruct (nltb (tp_ar t) m); [eapply IH; try eassumption; lia|].
      apply mbind_inv in H. destruct H as [(b & M1 & H1 & H) | [(c & H1 & ->) | (s & H1 & ->)]].
      + inversion H1; subst M1. clear H1. destruct (fst b) as [best|]; [|eapply IH; try eassumption; lia].
        apply mbind_inv in H. destruct H as [(u & M1 & H1 & H) | [(c & H1 & ->) | (s & H1 & ->)]].
        * pose proof (cnt_flip _ _ _ _ _ W C H1) as [C1 _]. pose proof (wf_flip _ _ _ _ _ H1) as [Hlen W1]. specialize (W1 W).
          eapply IH in H; try eassumption; try reflexivity.
          -- destruct H as (A & B & D & E). split; [assumption | split; [assumption | split; [lia | assumption]]].
          -- rewrite skipn_length. subst l'. rewrite skipn_length in Hc. lia.
        * pose proof (cnt_flip _ _ _ _ _ W C H1) as [C1 _]. pose proof (wf_flip _ _ _ _ _ H1) as [Hlen W1]. split; [assumption | split; [auto | split; [lia | discriminate]]].
        * pose proof (cnt_flip _ _ _ _ _ W C H1) as [C1 G]. pose proof (wf_flip _ _ _ _ _ H1) as [Hlen W1]. split; [assumption | split; [auto | split; [lia |]]].
          intros s' E; inversion E; subst. specialize (G _ eq_refl). unfold okflip in G. unfold okrd.
          apply andb_true_iff in G. destruct G as [G1 G2]. rewrite G1, G2. cbn [andb].
          (* flip_diagonal cannot produce 67 or 85 *)
          pose proof (np_flip (fun s => negb (N.eqb s 67) && negb (N.eqb s 85)) eq_refl eq_refl eq_refl eq_refl eq_refl eq_refl eq_refl eq_refl eq_refl eq_refl eq_refl eq_refl eq_refl eq_refl i best M M' s' H1) as G3.
          exact G3.
      + inversion H1; subst. split; [assumption | split; [assumption | split; [lia | discriminate]]].
      + assert (Hb := f_equal snd H1). cbn [snd] in Hb. assert (HM := f_equal fst H1). cbn [fst] in HM. subst M'. clear H1.
        split; [assumption | split; [assumption | split; [lia |]]]. intros s' E; inversion E; subst s'.
        apply rd_best_wf in Hb; [|exact W | intros j [<-|[<-|[<-|[]]]]; lia].
        unfold okrd. apply andb_true_iff in Hb. destruct Hb as [Hb H4]. apply andb_true_iff in Hb. destruct Hb as [Hb H5].
        apply andb_true_iff in Hb. destruct Hb as [H3 H6]. rewrite H3, H4, H5, H6. reflexivity.
  Qed.

  Lemma cnt_rd_loops (m : K) (n : nat) : forall loops M M' r,
    WF M -> CNT M -> n <= length (tris M) -> rd_loops m n loops M = (M', r) ->
    CNT M' /\ WF M' /\ length (tris M) <= length (tris M') /\ (forall s, r = Panic s -> okrd s = true).
  Proof.
    induction loops as [|l IH]; intros M M' r W C Hn H; cbn [rd_loops] in H.
    - inversion H; subst. split; [assumption | split; [assumption | split; [lia | discriminate]]].
    - apply mbind_inv in H. destruct H as [(any & M1 & H1 & H) | [(c & H1 & ->) | (s & H1 & ->)]].
      + eapply cnt_rd_pass in H1; try eassumption; try reflexivity. destruct H1 as (C1 & W1 & L1 & _).
        destruct any.
        * eapply IH in H; try eassumption; [|lia]. destruct H as (A & B & D & E). split; [assumption | split; [assumption | split; [lia | assumption]]].
        * inversion H; subst. split; [assumption | split; [assumption | split; [lia | discriminate]]].
      + eapply cnt_rd_pass in H1; try eassumption; try reflexivity. destruct H1 as (C1 & W1 & L1 & _).
        split; [assumption | split; [assumption | split; [lia | discriminate]]].
      + eapply cnt_rd_pass in H1; try eassumption; try reflexivity. destruct H1 as (C1 & W1 & L1 & G).
        split; [assumption | split; [assumption | split; [lia |]]]. intros s' E; inversion E; subst. apply G. reflexivity.
  Qed.
  (** restore_delaunay: at most [MAX_LOOPS] = 30 sweeps (its fuel), counter and well-formedness kept, and
      none of the sites 61 (underflow), 67, 73 (neighbour look-ups), 85 (sweep index) is reachable *)
  Theorem cnt_restore (m : K) (M M' : Mesh) (r : res unit) :
    WF M -> CNT M -> restore_delaunay m M = (M', r) -> CNT M' /\ WF M' /\ (forall s, r = Panic s -> okrd s = true).
  Proof.
    intros W C H. unfold restore_delaunay in H. eapply cnt_rd_loops in H; try eassumption; [|lia].
    destruct H as (A & B & _ & D). split; [assumption | split; assumption].
  Qed.

  (** ** (i), one link: a [mark_as_neighbours] that returns Ok leaves two live slots that reference each other *)
  Theorem mark_reciprocal (i1 : nat) (e1 : Edge) (i2 : nat) (M M' : Mesh) :
    mark_as_neighbours i1 e1 i2 M = (M', Ok tt) ->
    i1 <> i2 /\
    (exists t1, nth_error (tris M') i1 = Some t1 /\ tp_valid t1 = true /\ tp_neighbour t1 e1 = Some i2) /\
    (exists t2 e2, nth_error (tris M') i2 = Some t2 /\ tp_valid t2 = true /\ tp_neighbour t2 e2 = Some i1).
  Proof.
    intros H. unfold mark_as_neighbours in H. destruct (Nat.eqb_spec i1 i2) as [|Hne]; [discriminate|].
    apply bind_get_inv in H. destruct H as [(t1 & E1 & H) | (_ & H & _)]; [|discriminate].
    destruct (tp_valid t1) eqn:V1; cbn [negb] in H; [|discriminate].
    apply bind_lift_inv in H. destruct H as [(sg & _ & H) | (_ & [(c & H) | (s & H & _)])]; try discriminate.
    apply bind_get_inv in H. destruct H as [(t2 & E2 & H) | (_ & H & _)]; [|discriminate].
    destruct (tp_valid t2) eqn:V2; cbn [negb] in H; [|discriminate].
    apply bind_lift_inv in H. destruct H as [(k2 & _ & H) | (_ & [(c & H) | (s & H & _)])]; try discriminate.
    apply bind_lift_inv in H. destruct H as [(ed2 & _ & H) | (_ & [(c & H) | (s & H & _)])]; try discriminate.
    assert (L1 : Nat.ltb i1 (length (tris M)) = true) by (apply Nat.ltb_lt; apply nth_error_Some; congruence).
    assert (L2 : Nat.ltb i2 (length (tris M)) = true) by (apply Nat.ltb_lt; apply nth_error_Some; congruence).
    unfold mbind, mupd in H. rewrite L1 in H. cbn [tris nvalid] in H. rewrite upd_length, L2 in H. inversion H; subst M'. clear H.
    cbn [tris]. split; [exact Hne|]. split.
    - exists (tp_set_neighbour e1 i2 t1). rewrite !nth_error_upd.
      destruct (Nat.eqb_spec i2 i1); [exfalso; apply Hne; congruence|]. rewrite Nat.eqb_refl, E1. cbn [option_map].
      split; [reflexivity|]. split; [rewrite set_neighbour_valid; exact V1 | destruct e1; reflexivity].
    - exists (tp_set_neighbour ed2 i1 t2), ed2. rewrite !nth_error_upd. rewrite Nat.eqb_refl.
      destruct (Nat.eqb_spec i1 i2); [exfalso; apply Hne; assumption|]. rewrite E2. cbn [option_map].
      split; [reflexivity|]. split; [rewrite set_neighbour_valid; exact V2 | destruct ed2; reflexivity].
  Qed.
End Conf.
