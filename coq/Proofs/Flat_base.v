(** * Flat_base: vector algebra over R, [get_side], [info_new], transformed hit data (shared by the flat primitives). *)
From Coq Require Import ZArith Reals Lra Bool List Psatz.
From G3 Require Import Model.Num Model.Base Model.Vec Model.BBox Model.Transform Model.Hit Theory.RInst Proofs.C06_transform.
Local Open Scope R_scope.

Ltac vunf := unfold ray_project, ray_advance, vnormalize, vlen, vlen2, vdot, vcross, vadd, vsub, vscale, vneg, vdivs, vabs in *;
  cbn [vx vy vz rorigin rdir] in *; rnum.

(** ** thresholds *)
Lemma ctiny_pos : 0 < @ctiny R _.
Proof. unfold ctiny. pose proof neps_pos. rnum. lra. Qed.

(** ** vectors *)
Lemma vlen2_nonneg (a : V) : 0 <= vlen2 a.
Proof. destruct a as [ax ay az]. vunf. nra. Qed.
Lemma vlen2_zero (a : V) : vlen2 a = 0 -> a = mkV3 0 0 0.
Proof. destruct a as [ax ay az]. vunf. intros H. assert (ax = 0) by nra. assert (ay = 0) by nra. assert (az = 0) by nra. subst. reflexivity. Qed.
Lemma vdot_self (a : V) : vdot a a = vlen2 a.
Proof. reflexivity. Qed.
Lemma vdot_comm (a b : V) : vdot a b = vdot b a.
Proof. destruct a as [ax ay az], b as [bx b_y bz]. vunf. ring. Qed.
Lemma vlen_pos (a : V) : vlen2 a <> 0 -> 0 < vlen a.
Proof. intros H. unfold vlen. rnum. apply sqrt_lt_R0. pose proof (vlen2_nonneg a). lra. Qed.
Lemma vlen_sqr (a : V) : vlen a * vlen a = vlen2 a.
Proof. unfold vlen. rnum. apply sqrt_sqrt, vlen2_nonneg. Qed.

(** normalising a non-zero vector: a positive multiple of it, of unit length *)
Lemma vnormalize_scale (a : V) : vnormalize a = vscale a (1 / vlen a).
Proof. reflexivity. Qed.
Lemma vnormalize_unit (a : V) : vlen2 a <> 0 -> vlen2 (vnormalize a) = 1.
Proof.
  intros H. pose proof (vlen_pos a H) as Hl. pose proof (vlen_sqr a) as Hs.
  destruct a as [ax ay az]. unfold vnormalize, vlen2 in *. cbn [vx vy vz] in *. rnum.
  set (l := vlen (mkV3 ax ay az)) in *.
  replace (ax * (1 / l) * (ax * (1 / l)) + ay * (1 / l) * (ay * (1 / l)) + az * (1 / l) * (az * (1 / l)))
    with ((ax * ax + ay * ay + az * az) / (l * l)) by (field; lra).
  rewrite <- Hs. field. lra.
Qed.
Lemma vnormalize_dot (a b : V) : vdot (vnormalize a) b = vdot a b / vlen a.
Proof. destruct a as [ax ay az], b as [bx b_y bz]. unfold vnormalize, vdot. cbn [vx vy vz]. rnum. unfold Rdiv. ring. Qed.
Lemma vnormalize_dot_sign (a b : V) : vlen2 a <> 0 ->
  (vdot (vnormalize a) b < 0 <-> vdot a b < 0) /\ (0 < vdot (vnormalize a) b <-> 0 < vdot a b) /\ (vdot (vnormalize a) b = 0 <-> vdot a b = 0).
Proof.
  intros H. rewrite vnormalize_dot. pose proof (vlen_pos a H) as Hl. set (l := vlen a) in *. set (x := vdot a b).
  assert (Hi : 0 < / l) by (apply Rinv_0_lt_compat; exact Hl). unfold Rdiv.
  repeat split; intros; nra.
Qed.

Lemma vcross_perp_l (a b : V) : vdot (vcross a b) a = 0.
Proof. destruct a as [ax ay az], b as [bx b_y bz]. vunf. ring. Qed.
Lemma vcross_perp_r (a b : V) : vdot (vcross a b) b = 0.
Proof. destruct a as [ax ay az], b as [bx b_y bz]. vunf. ring. Qed.
Lemma vcross_anti (a b : V) : vcross a b = vneg (vcross b a).
Proof. destruct a as [ax ay az], b as [bx b_y bz]. vunf. apply v3_eq; cbn [vx vy vz]; ring. Qed.
Lemma vscale_m1 (a : V) : vscale a (- 1) = vneg a.
Proof. destruct a as [ax ay az]. vunf. apply v3_eq; cbn [vx vy vz]; ring. Qed.
Lemma vdot_neg_l (a b : V) : vdot (vneg a) b = - vdot a b.
Proof. destruct a as [ax ay az], b as [bx b_y bz]. vunf. ring. Qed.
Lemma vlen2_neg (a : V) : vlen2 (vneg a) = vlen2 a.
Proof. destruct a as [ax ay az]. vunf. ring. Qed.
Lemma vcross_scale_l (a b : V) (s : R) : vcross (vscale a s) b = vscale (vcross a b) s.
Proof. destruct a as [ax ay az], b as [bx b_y bz]. vunf. apply v3_eq; cbn [vx vy vz]; ring. Qed.
Lemma vcross_self (a : V) : vcross a a = mkV3 0 0 0.
Proof. destruct a as [ax ay az]. vunf. apply v3_eq; cbn [vx vy vz]; ring. Qed.

(** ** SurfaceSide::get_side *)
Lemma get_side_front (n d : V) : vdot n d < 0 -> get_side n d = (n, Front).
Proof. intros H. unfold get_side. rnum. apply Rltb_true in H. rewrite H. reflexivity. Qed.
Lemma get_side_back (n d : V) : 0 < vdot n d -> get_side n d = (vneg n, Back).
Proof.
  intros H. unfold get_side. rnum. assert (H0 : Rltb (vdot n d) 0 = false) by (apply Rltb_false; lra). rewrite H0.
  apply Rltb_true in H. rewrite H. rewrite vscale_m1. reflexivity.
Qed.
Lemma get_side_na (n d : V) : vdot n d = 0 -> get_side n d = (mkV3 0 0 0, NonApplicable).
Proof.
  intros H. unfold get_side. rnum. rewrite H. assert (H0 : Rltb 0 0 = false) by (apply Rltb_false; lra). rewrite H0. reflexivity.
Qed.
(** the reported normal faces the incoming ray *)
Lemma get_side_faces (n d : V) : vdot n d <> 0 -> vdot (fst (get_side n d)) d < 0.
Proof.
  intros H. destruct (Rlt_dec (vdot n d) 0) as [L|L].
  - rewrite get_side_front by assumption. exact L.
  - rewrite get_side_back by lra. cbn [fst]. rewrite vdot_neg_l. lra.
Qed.
(** same surface normal, directions on opposite sides: both the normal and the side flip *)
Lemma get_side_flips (n d1 d2 : V) : vdot n d1 < 0 -> 0 < vdot n d2 ->
  get_side n d1 = (n, Front) /\ get_side n d2 = (vneg n, Back).
Proof. intros. split; [apply get_side_front | apply get_side_back]; assumption. Qed.
Lemma get_side_unit (n d : V) : vdot n d <> 0 -> vlen2 (fst (get_side n d)) = vlen2 n.
Proof.
  intros H. destruct (Rlt_dec (vdot n d) 0) as [L|L].
  - rewrite get_side_front by assumption. reflexivity.
  - rewrite get_side_back by lra. apply vlen2_neg.
Qed.
Lemma get_side_parallel (n d : V) : exists s, fst (get_side n d) = vscale n s /\ (vdot n d <> 0 -> s = 1 \/ s = -1).
Proof.
  destruct (Rlt_dec (vdot n d) 0) as [L|L]; [|destruct (Rlt_dec 0 (vdot n d)) as [G|G]].
  - exists 1. rewrite get_side_front by assumption. split; [|auto]. cbn [fst]. destruct n as [nx ny nz]. vunf. apply v3_eq; cbn [vx vy vz]; ring.
  - exists (-1). rewrite get_side_back by assumption. split; [|auto]. cbn [fst]. symmetry. apply vscale_m1.
  - exists 0. rewrite get_side_na by lra. split; [|intros; lra]. cbn [fst]. destruct n as [nx ny nz]. vunf. apply v3_eq; cbn [vx vy vz]; ring.
Qed.

(** ** IntersectionInfo::new: normal || dpdv x dpdu, perpendicular to both tangents, unit, facing the ray *)
Lemma info_new_spec (ray : Ray R) (p dpdu dpdv : V) :
  let c := vcross dpdv dpdu in
  let i := info_new ray p dpdu dpdv in
  vlen2 c <> 0 -> vdot c (rdir ray) <> 0 ->
  ip i = p /\ idpdu i = dpdu /\ idpdv i = dpdv /\
  vdot (inormal i) dpdu = 0 /\ vdot (inormal i) dpdv = 0 /\ vlen2 (inormal i) = 1 /\
  vcross (inormal i) c = mkV3 0 0 0 /\ vdot (inormal i) (rdir ray) < 0 /\
  (iside i = Front <-> vdot c (rdir ray) < 0) /\ (iside i = Back <-> 0 < vdot c (rdir ray)).
Proof.
  intros c i Hc Hd. subst i. unfold info_new. fold c.
  pose proof (vnormalize_dot_sign c (rdir ray) Hc) as (S1 & S2 & S3).
  pose proof (vnormalize_unit c Hc) as Hu.
  assert (Hperp1 : vdot (vnormalize c) dpdu = 0) by (rewrite vnormalize_dot; unfold c; rewrite vcross_perp_r; unfold Rdiv; ring).
  assert (Hperp2 : vdot (vnormalize c) dpdv = 0) by (rewrite vnormalize_dot; unfold c; rewrite vcross_perp_l; unfold Rdiv; ring).
  assert (Hpar : vcross (vnormalize c) c = mkV3 0 0 0) by (rewrite vnormalize_scale, vcross_scale_l, vcross_self; vunf; apply v3_eq; cbn [vx vy vz]; ring).
  destruct (Rlt_dec (vdot c (rdir ray)) 0) as [L|L].
  - rewrite get_side_front by (apply S1; exact L). cbn [ip idpdu idpdv inormal iside].
    repeat split; try assumption; try (apply S1; exact L); try (intros; discriminate); try (intros; lra).
  - assert (G : 0 < vdot c (rdir ray)) by lra.
    rewrite get_side_back by (apply S2; exact G). cbn [ip idpdu idpdv inormal iside].
    repeat split; try reflexivity; try (intros; discriminate); try (intros; lra).
    + rewrite vdot_neg_l, Hperp1. ring.
    + rewrite vdot_neg_l, Hperp2. ring.
    + rewrite vlen2_neg. exact Hu.
    + destruct (vnormalize c) as [a b e], c as [cx cy cz]. vunf. inversion Hpar. apply v3_eq; cbn [vx vy vz]; lra.
    + rewrite vdot_neg_l. apply S2 in G. lra.
Qed.

(** ** hit data carried to world space *)
Definition rigid (t : T) : Prop := forall u v : V, vdot (tr_vec t u) (tr_vec t v) = vdot u v.

(** for a rigid linear part the inverse transpose is the matrix itself *)
Lemma rigid_normal_is_vec (t : T) (n : V) : Inv t -> rigid t -> tr_normal t n = tr_vec t n.
Proof.
  intros Hi Hr.
  set (w := vsub (tr_normal t n) (tr_vec t n)).
  assert (H : forall v, vdot w (tr_vec t v) = 0).
  { intros v. pose proof (normal_dot_vec t n v Hi) as H1. pose proof (Hr n v) as H2. subst w.
    destruct (tr_normal t n) as [a b c], (tr_vec t n) as [a' b' c'], (tr_vec t v) as [x y z]. vunf. lra. }
  pose proof (H (tr_inv_vec t w)) as Hw. rewrite vec_inv_vec in Hw by assumption.
  apply vlen2_zero in Hw. subst w.
  destruct (tr_normal t n) as [a b c], (tr_vec t n) as [a' b' c']. vunf. inversion Hw. apply v3_eq; cbn [vx vy vz]; lra.
Qed.
Lemma rigid_normal_len (t : T) (n : V) : Inv t -> rigid t -> vlen2 (tr_normal t n) = vlen2 n.
Proof. intros Hi Hr. rewrite rigid_normal_is_vec by assumption. apply (Hr n n). Qed.

Lemma rigid_new : rigid tr_new.
Proof. intros u v. unfold tr_vec, tr_new. cbn [elements]. rewrite !vec_id. reflexivity. Qed.
Lemma rigid_translate x y z : rigid (tr_translate x y z).
Proof. intros [ux uy uz] [wx wy wz]. unf. ring. Qed.
Lemma rigid_rotate_x d : rigid (tr_rotate_x d).
Proof. intros u v. apply (rotations_rigid d u v). Qed.
Lemma rigid_rotate_y d : rigid (tr_rotate_y d).
Proof. intros u v. apply (rotations_rigid d u v). Qed.
Lemma rigid_rotate_z d : rigid (tr_rotate_z d).
Proof. intros u v. apply (rotations_rigid d u v). Qed.
Lemma rigid_mul_assign (a b : T) : Inv a -> Inv b -> rigid a -> rigid b -> rigid (tr_mul_assign a b).
Proof. intros Ha Hb Ra Rb u v. rewrite !mul_assign_acts_vec by assumption. rewrite Ra. apply Rb. Qed.

(** (M^-T n).d_world = n.(M^-1 d_world): the sign of "normal . direction" is the same in both spaces *)
Lemma normal_dot_world (t : T) (n dw : V) : vdot (tr_normal t n) dw = vdot n (tr_inv_vec t dw).
Proof. unfold tr_normal, tr_inv_vec. apply dot_transpose. Qed.

Lemma tr_normal_neg (t : T) (n : V) : tr_normal t (vneg n) = vneg (tr_normal t n).
Proof. destruct t as [e i], i, n as [nx ny nz]. unf. apply v3_eq; cbn [vx vy vz]; ring. Qed.

(** IntersectionInfo::transform *)
Lemma info_transform_spec (t : T) (i : Info R) (dw : V) : Inv t ->
  let i' := info_transform i t in
  ip i' = tr_pt t (ip i) /\ iside i' = iside i /\
  vdot (inormal i') (idpdu i') = vdot (inormal i) (idpdu i) /\
  vdot (inormal i') (idpdv i') = vdot (inormal i) (idpdv i) /\
  vdot (inormal i') dw = vdot (inormal i) (tr_inv_vec t dw) /\
  (rigid t -> vlen2 (inormal i') = vlen2 (inormal i)).
Proof.
  intros Hi. unfold info_transform. cbn [ip iside inormal idpdu idpdv].
  repeat split; try (apply normal_dot_vec; assumption).
  - apply normal_dot_world.
  - intros Hr. apply rigid_normal_len; assumption.
Qed.
