(** * C14, float tier, Thm 3: completeness of [intersect] with a relative margin on the EXACT
    slab parameters, for every Flocq binary format.

    [raw face o i = RN (RN (face - o) * i)] with [i = RN (1 / d)]: three roundings.  Outside the
    underflow range the exact parameter [T = (face - o) / d] and the computed one [X] satisfy
    [T = X * theta], [(1-u)^3 <= theta <= (1+u)^3], [u = 2^-prec] ([raw_rel], [raw_error]).  The
    test compares near ends with far ends multiplied by [w = RN (1 + 2 gamma3) >= 1 + 6u] (one more
    rounding), so a near end [A > 0] and a far end [B] of DIFFERENT axes with [A (1 + 2u) <= B]
    are compared the right way round; near and far end of the SAME axis are sorted by the code
    (no margin; a flat slab has bit-equal ends), and a near end [A <= 0] is computed [<= 0]
    (signs survive the roundings) so it needs no margin at all. *)
From Coq Require Import ZArith Reals Bool Lra Lia Psatz.
From Coq Require Import Floats.SpecFloat.
From Flocq Require Import Core BinarySingleNaN Relative Plus_error.
From G3 Require Import Model.Num Model.Base Model.Vec Model.BBox Theory.RInst
  Proofs.C14_real Proofs.C14_special Proofs.C14_float.
Local Open Scope R_scope.

(** ** Part 0: real arithmetic *)
Definition lo3 (u : R) : R := (1 - u) * (1 - u) * (1 - u).
Definition hi3 (u : R) : R := (1 + u) * (1 + u) * (1 + u).

Lemma lo3_pos u : 0 <= u < 1 -> 0 < lo3 u <= 1.
Proof.
  intros Hu. unfold lo3.
  assert (0 < (1 - u) * (1 - u) <= 1) by nra. nra.
Qed.
Lemma hi3_ge1 u : 0 <= u -> 1 <= hi3 u.
Proof. intros Hu. unfold hi3. assert (1 <= (1 + u) * (1 + u)) by nra. nra. Qed.

Lemma prod3_bounds u e1 e2 e3 : 0 <= u < 1 -> Rabs e1 <= u -> Rabs e2 <= u -> Rabs e3 <= u ->
  lo3 u <= (1 + e1) * (1 + e2) * (1 + e3) <= hi3 u.
Proof.
  intros Hu H1 H2 H3. apply Rabs_le_inv in H1, H2, H3. unfold lo3, hi3.
  set (a := 1 + e1). set (b := 1 + e2). set (c := 1 + e3).
  assert (Ha : 1 - u <= a <= 1 + u) by (unfold a; lra).
  assert (Hb : 1 - u <= b <= 1 + u) by (unfold b; lra).
  assert (Hc : 1 - u <= c <= 1 + u) by (unfold c; lra).
  clearbody a b c.
  assert (Hab : (1 - u) * (1 - u) <= a * b <= (1 + u) * (1 + u)) by (split; nra).
  assert (0 <= (1 - u) * (1 - u)) by nra.
  split; nra.
Qed.

(** the polynomial inequality behind the constant 2: three roundings on each side, one more in the
    widening product, against the margin [1 + 2u] and the widening factor [1 + 6u] *)
Lemma poly_margin u : 0 < u <= / 32 -> hi3 u * (1 + u) < lo3 u * ((1 + 2 * u) * (1 + 6 * u)).
Proof.
  intros Hu. unfold hi3, lo3.
  assert (E : (1 - u) * (1 - u) * (1 - u) * ((1 + 2 * u) * (1 + 6 * u)) - (1 + u) * (1 + u) * (1 + u) * (1 + u)
              = u * (1 - 15 * u - 17 * (u * u) + 27 * (u * u * u) - 12 * (u * u * u * u))) by ring.
  assert (U2 : 0 < u * u <= / 32 * u) by nra.
  assert (U3 : 0 < u * u * u) by nra.
  assert (U4 : u * u * u * u <= / 32 * / 32 * (u * u)) by nra.
  assert (0 < 1 - 15 * u - 17 * (u * u) + 27 * (u * u * u) - 12 * (u * u * u * u)) by nra.
  assert (0 < u * (1 - 15 * u - 17 * (u * u) + 27 * (u * u * u) - 12 * (u * u * u * u))) by (apply Rmult_lt_0_compat; lra).
  lra.
Qed.

(** near end [a] (computed) / [A] (exact) of one axis, far end [b] / [B] of another; [W] the widened
    computed far end *)
Lemma margin_chain u a A B b W w : 0 < u <= / 32 ->
  (0 < A -> a * lo3 u <= A) -> (A <= 0 -> a <= 0) ->
  0 < B -> B <= b * hi3 u -> 0 < b ->
  b * w <= W * (1 + u) -> 1 + 6 * u <= w ->
  (0 < A -> A * (1 + 2 * u) <= B) -> a < W.
Proof.
  intros Hu Ha Ha0 HB HBb Hb HW Hw HM.
  assert (WP : 0 < W) by nra.
  destruct (Rle_or_lt A 0) as [A0|A0]; [specialize (Ha0 A0); lra|].
  specialize (Ha A0). specialize (HM A0).
  destruct (Rle_or_lt a 0) as [a0|a0]; [lra|].
  pose proof (poly_margin u Hu) as P.
  assert (L3 : 0 < lo3 u <= 1) by (apply lo3_pos; lra).
  assert (H3 : 1 <= hi3 u) by (apply hi3_ge1; lra).
  set (K := lo3 u * ((1 + 2 * u) * (1 + 6 * u))) in *.
  assert (KP : 0 < K) by (unfold K; apply Rmult_lt_0_compat; [lra | nra]).
  (* a K <= hi3 (1+u) W < K W *)
  assert (S1 : a * K <= A * ((1 + 2 * u) * (1 + 6 * u))).
  { unfold K. replace (a * (lo3 u * ((1 + 2 * u) * (1 + 6 * u)))) with (a * lo3 u * ((1 + 2 * u) * (1 + 6 * u))) by ring.
    apply Rmult_le_compat_r; [nra | exact Ha]. }
  assert (S2 : A * ((1 + 2 * u) * (1 + 6 * u)) <= B * (1 + 6 * u)).
  { replace (A * ((1 + 2 * u) * (1 + 6 * u))) with (A * (1 + 2 * u) * (1 + 6 * u)) by ring.
    apply Rmult_le_compat_r; [lra | exact HM]. }
  assert (S3 : B * (1 + 6 * u) <= b * hi3 u * w).
  { apply Rmult_le_compat; try lra. }
  assert (S4 : b * hi3 u * w <= hi3 u * (W * (1 + u))).
  { replace (b * hi3 u * w) with (hi3 u * (b * w)) by ring. apply Rmult_le_compat_l; lra. }
  assert (S5 : hi3 u * (W * (1 + u)) < K * W).
  { replace (hi3 u * (W * (1 + u))) with (hi3 u * (1 + u) * W) by ring. apply Rmult_lt_compat_r; assumption. }
  apply Rmult_lt_reg_l with K; [exact KP|]. lra.
Qed.

(** the two computed ends of a slab against the two exact ones *)
Lemma slab_bounds u x1 x2 T1 T2 th1 th2 : 0 <= u < 1 ->
  lo3 u <= th1 <= hi3 u -> lo3 u <= th2 <= hi3 u -> T1 = x1 * th1 -> T2 = x2 * th2 ->
  let a := Rmin x1 x2 in let b := Rmax x1 x2 in let A := Rmin T1 T2 in let B := Rmax T1 T2 in
  (0 < A -> a * lo3 u <= A) /\ (A <= 0 -> a <= 0) /\ (0 < B -> 0 < b /\ B <= b * hi3 u).
Proof.
  intros Hu H1 H2 E1 E2 a b A B.
  pose proof (lo3_pos u Hu) as L3.
  assert (P1 : 0 < th1) by lra. assert (P2 : 0 < th2) by lra.
  assert (Q : forall x th, lo3 u <= th <= hi3 u -> 0 < th ->
            (0 < x * th -> x * lo3 u <= x * th /\ 0 < x /\ x * th <= x * hi3 u) /\ (x * th <= 0 -> x <= 0)).
  { intros x th Hth Pth. split.
    - intros Hp. assert (0 < x) by nra. repeat split; try assumption; apply Rmult_le_compat_l; lra.
    - intros Hp. nra. }
  destruct (Q x1 th1 H1 P1) as [Q1 Q1']. destruct (Q x2 th2 H2 P2) as [Q2 Q2']. rewrite <- E1 in Q1, Q1'. rewrite <- E2 in Q2, Q2'.
  clear Q.
  assert (Ha1 : a <= x1) by apply Rmin_l. assert (Ha2 : a <= x2) by apply Rmin_r.
  assert (Hb1 : x1 <= b) by apply Rmax_l. assert (Hb2 : x2 <= b) by apply Rmax_r.
  clearbody a b.
  split; [|split].
  - intros HA. unfold A, Rmin in *. destruct (Rle_dec T1 T2).
    + destruct (Q1 HA) as (q1 & q2 & q3). apply Rle_trans with (x1 * lo3 u); [apply Rmult_le_compat_r; lra | exact q1].
    + destruct (Q2 HA) as (q1 & q2 & q3). apply Rle_trans with (x2 * lo3 u); [apply Rmult_le_compat_r; lra | exact q1].
  - intros HA. unfold A, Rmin in *. destruct (Rle_dec T1 T2).
    + specialize (Q1' HA). lra.
    + specialize (Q2' HA). lra.
  - intros HB. assert (H3 : 1 <= hi3 u) by (apply hi3_ge1; lra). unfold B, Rmax in *. destruct (Rle_dec T1 T2).
    + destruct (Q2 HB) as (q1 & q2 & q3). split; [lra|]. apply Rle_trans with (1 := q3). apply Rmult_le_compat_r; lra.
    + destruct (Q1 HB) as (q1 & q2 & q3). split; [lra|]. apply Rle_trans with (1 := q3). apply Rmult_le_compat_r; lra.
Qed.

(** ** Part 1: the three roundings, any binary format *)
Section Margin.
  Variable prec emax : Z.
  Context (Hprec : FLX.Prec_gt_0 prec) (Hmax : Prec_lt_emax prec emax).
  Notation bf := (binary_float prec emax).
  Notation emin := (3 - emax - prec)%Z.
  Notation fexp := (FLT_exp emin prec).
  Notation format := (generic_format radix2 fexp).
  Local Instance NBm : Num bf := NumB prec emax Hprec Hmax.
  Notation fin x := (is_finite x = true).
  Notation RN := (C14_float.RN prec emax).
  (** smallest positive normal number *)
  Notation kmin := (bpow radix2 (emin + prec - 1)).
  (** unit roundoff *)
  Definition uR : R := bpow radix2 (- prec).

  Lemma uR_pos : 0 < uR.
  Proof. apply bpow_gt_0. Qed.
  Lemma uR_eq : / 2 * bpow radix2 (- prec + 1) = uR.
  Proof. unfold uR. rewrite bpow_plus. simpl (bpow radix2 1). lra. Qed.
  Lemma uR_half : uR <= / 2.
  Proof.
    unfold uR. apply Rle_trans with (bpow radix2 (-1)). apply bpow_le. pose proof Hprec as Hp. unfold FLX.Prec_gt_0 in Hp. lia. simpl. lra.
  Qed.
  Lemma uR_small : (5 <= prec)%Z -> uR <= / 32.
  Proof. intros H. unfold uR. apply Rle_trans with (bpow radix2 (-5)). apply bpow_le. lia. simpl. lra. Qed.
  Lemma kmin_pos : 0 < kmin.
  Proof. apply bpow_gt_0. Qed.

  Lemma RN_0 : RN 0 = 0.
  Proof. unfold C14_float.RN. apply round_0. auto with typeclass_instances. Qed.
  Lemma RN_le x y : x <= y -> RN x <= RN y.
  Proof. intros H. unfold C14_float.RN. apply round_le; auto with typeclass_instances. Qed.
  Lemma RN_id x : format x -> RN x = x.
  Proof. intros F. unfold C14_float.RN. apply round_generic; auto with typeclass_instances. Qed.

  (** subtraction of two floats: relative error [u] even in the subnormal range *)
  Lemma err_sub x y : format x -> format y -> exists e, Rabs e <= uR /\ x - y = RN (x - y) * (1 + e).
  Proof.
    intros Fx Fy.
    destruct (FLT_plus_error_N_round_ex radix2 emin prec (fun z => negb (Z.even z)) x (- y) Fx (generic_format_opp _ _ _ Fy)) as (e & He & Hs).
    exists e. split.
    - unfold u_ro in He. rewrite uR_eq in He. exact He.
    - exact Hs.
  Qed.

  (** a rounding whose RESULT is a normal number *)
  Lemma err_normal p : kmin <= Rabs (RN p) -> exists e, Rabs e <= uR /\ p = RN p * (1 + e).
  Proof.
    intros Hn.
    assert (Hb : Rabs (RN p - p) <= uR * Rabs (RN p)).
    { destruct (Rle_or_lt kmin (Rabs p)) as [Hp|Hp].
      - rewrite <- uR_eq. apply relative_error_N_FLT_round. exact Hprec. exact Hp.
      - apply Rle_trans with (/ 2 * ulp radix2 fexp p).
        + apply error_le_half_ulp. apply FLT_exp_valid. exact Hprec.
        + rewrite ulp_FLT_small.
          * apply Rle_trans with (uR * kmin).
            -- apply Req_le. unfold uR. rewrite <- bpow_plus.
               replace (- prec + (emin + prec - 1))%Z with (emin + (-1))%Z by ring.
               rewrite bpow_plus. change (bpow radix2 (-1)) with (/ 2). lra.
            -- apply Rmult_le_compat_l. apply Rlt_le, uR_pos. exact Hn.
          * exact Hprec.
          * apply Rlt_trans with (1 := Hp). apply bpow_lt. lia. }
    assert (Hz : RN p <> 0).
    { intros E. rewrite E, Rabs_R0 in Hn. pose proof kmin_pos. lra. }
    exists ((p - RN p) / RN p). split.
    - unfold Rdiv. rewrite Rabs_mult, Rabs_inv.
      apply Rmult_le_reg_r with (Rabs (RN p)). apply Rabs_pos_lt, Hz.
      rewrite Rmult_assoc, Rinv_l by (apply Rabs_no_R0, Hz). rewrite Rmult_1_r.
      rewrite <- Rabs_Ropp. replace (- (p - RN p)) with (RN p - p) by ring. exact Hb.
    - field. exact Hz.
  Qed.

  (** the float operations on finite results *)
  Lemma mul_fin (a b : bf) : fin (Bmult mode_NE a b) ->
    fin a /\ fin b /\ B2R (Bmult mode_NE a b) = RN (B2R a * B2R b).
  Proof.
    intros H.
    assert (Fab : fin a /\ fin b).
    { destruct a as [sa|sa| |sa ma ea Ha], b as [sb|sb| |sb mb eb Hb]; try (split; reflexivity); simpl in H; discriminate. }
    destruct Fab as [Fa Fb]. split; [exact Fa|]. split; [exact Fb|].
    generalize (Bmult_correct prec emax Hprec Hmax mode_NE a b). destruct (Rlt_bool _ _).
    - intros (E & _). exact E.
    - intros E. exfalso. unfold binary_overflow, overflow_to_inf in E.
      destruct (Bmult mode_NE a b); try discriminate.
  Qed.
  Lemma sub_fin (a b : bf) : fin a -> fin b -> fin (Bminus mode_NE a b) ->
    B2R (Bminus mode_NE a b) = RN (B2R a - B2R b).
  Proof.
    intros Fa Fb H.
    generalize (Bminus_correct prec emax Hprec Hmax mode_NE a b Fa Fb). destruct (Rlt_bool _ _).
    - intros (E & _). exact E.
    - intros (E & _). exfalso. unfold binary_overflow, overflow_to_inf in E.
      destruct (Bminus mode_NE a b); try discriminate.
  Qed.
  Lemma div_fin (a b : bf) : B2R b <> 0 -> fin (Bdiv mode_NE a b) ->
    B2R (Bdiv mode_NE a b) = RN (B2R a / B2R b).
  Proof.
    intros Hb H.
    generalize (Bdiv_correct prec emax Hprec Hmax mode_NE a b Hb). destruct (Rlt_bool _ _).
    - intros (E & _). exact E.
    - intros E. exfalso. unfold binary_overflow, overflow_to_inf in E.
      destruct (Bdiv mode_NE a b); try discriminate.
  Qed.

  Lemma one_spec : fin (@n1 bf NBm) /\ B2R (@n1 bf NBm) = 1.
  Proof.
    pose proof Hprec as Hp. pose proof Hmax as Hm. unfold FLX.Prec_gt_0 in Hp. unfold Prec_lt_emax in Hm.
    assert (F1 : format 1).
    { change 1 with (bpow radix2 0). apply generic_format_bpow. unfold FLT_exp. lia. }
    assert (E : F2R (Float radix2 1 0) = 1) by (unfold F2R; simpl; ring).
    unfold n1. cbn [nofZ NBm NumB]. unfold Bofz.
    generalize (binary_normalize_correct prec emax Hprec Hmax mode_NE 1 0 false). cbv zeta.
    rewrite E. change (round radix2 (SpecFloat.fexp prec emax) (round_mode mode_NE) 1) with (RN 1).
    rewrite (RN_id 1 F1). rewrite Rlt_bool_true.
    - intros (HR & HF & _). split; assumption.
    - rewrite Rabs_R1. change 1 with (bpow radix2 0). apply bpow_lt. lia.
  Qed.

  (** the reciprocal the caller supplies: [1/d = i (1 + e)], [|e| <= u] (error relative to the computed value) *)
  Definition recip_ok (d i : bf) : Prop := exists e, Rabs e <= uR /\ / B2R d = B2R i * (1 + e).
  (** true of the correctly rounded quotient [1.0 / d] whenever it is a normal number *)
  Lemma recip_of_div (d : bf) : B2R d <> 0 -> fin (Bdiv mode_NE n1 d) ->
    kmin <= Rabs (B2R (Bdiv mode_NE n1 d)) -> recip_ok d (Bdiv mode_NE n1 d).
  Proof.
    intros Hd F Hn. unfold recip_ok. rewrite (div_fin _ _ Hd F) in *. rewrite (proj2 one_spec) in *.
    unfold Rdiv in *. rewrite Rmult_1_l in *. apply err_normal. exact Hn.
  Qed.

  (** *** the error analysis of one plane parameter [raw face o i = (face - o) * i] *)
  Lemma raw_rel (f o d i : bf) : fin f -> fin o -> recip_ok d i ->
    fin (raw f o i) -> (kmin <= Rabs (B2R (raw f o i)) \/ B2R f = B2R o) ->
    (exists th, lo3 uR <= th <= hi3 uR /\ (B2R f - B2R o) / B2R d = B2R (raw f o i) * th) /\
    (kmin <= Rabs (B2R (raw f o i)) \/ B2R (raw f o i) = 0).
  Proof.
    intros Ff Fo (e2 & He2 & E2) Fx Hn.
    assert (Hu : 0 <= uR < 1) by (pose proof uR_pos; pose proof uR_half; lra).
    change (raw f o i) with (Bmult mode_NE (Bminus mode_NE f o) i) in *.
    destruct (mul_fin _ _ Fx) as (Fs & Fi & EX). pose proof (sub_fin f o Ff Fo Fs) as ES.
    destruct (err_sub (B2R f) (B2R o) (generic_format_B2R _ _ f) (generic_format_B2R _ _ o)) as (e1 & He1 & E1).
    rewrite <- ES in E1.
    set (S := B2R (Bminus mode_NE f o)) in *. set (X := B2R (Bmult mode_NE (Bminus mode_NE f o) i)) in *.
    destruct Hn as [Hn|Heq].
    - split; [|left; exact Hn]. rewrite EX in Hn. destruct (err_normal _ Hn) as (e3 & He3 & E3). rewrite <- EX in E3.
      exists ((1 + e1) * (1 + e2) * (1 + e3)). split. apply prod3_bounds; assumption.
      unfold Rdiv. rewrite E1, E2.
      replace (S * (1 + e1) * (B2R i * (1 + e2))) with (S * B2R i * ((1 + e1) * (1 + e2))) by ring.
      rewrite E3. ring.
    - assert (S0 : S = 0). { rewrite ES. replace (B2R f - B2R o) with 0 by lra. apply RN_0. }
      assert (X0 : X = 0). { rewrite EX, S0, Rmult_0_l. apply RN_0. }
      split; [|right; exact X0]. exists 1. split.
      + pose proof (lo3_pos uR Hu). pose proof (hi3_ge1 uR (proj1 Hu)). lra.
      + rewrite X0. replace (B2R f - B2R o) with 0 by lra. unfold Rdiv. ring.
  Qed.

  (** the same as a bound: signs agree and the magnitudes are within [(1 +- u)^3] of each other *)
  Corollary raw_error (f o d i : bf) : fin f -> fin o -> recip_ok d i ->
    fin (raw f o i) -> (kmin <= Rabs (B2R (raw f o i)) \/ B2R f = B2R o) ->
    let T := (B2R f - B2R o) / B2R d in let X := B2R (raw f o i) in
    Rabs (T - X) <= (hi3 uR - 1) * Rabs X /\ lo3 uR * Rabs X <= Rabs T <= hi3 uR * Rabs X.
  Proof.
    intros Ff Fo Hr Fx Hn T X.
    assert (Hu : 0 <= uR < 1) by (pose proof uR_pos; pose proof uR_half; lra).
    destruct (raw_rel f o d i Ff Fo Hr Fx Hn) as ((th & Hth & E) & _). fold T X in E.
    pose proof (lo3_pos uR Hu) as L3. pose proof (hi3_ge1 uR (proj1 Hu)) as H3.
    assert (L3' : 2 - hi3 uR <= lo3 uR).
    { unfold hi3, lo3. assert (0 <= uR * uR) by nra. assert (0 <= uR * uR * uR) by nra. nra. }
    split.
    - rewrite E. replace (X * th - X) with (X * (th - 1)) by ring. rewrite Rabs_mult, Rmult_comm.
      apply Rmult_le_compat_r. apply Rabs_pos. apply Rabs_le. lra.
    - rewrite E, Rabs_mult, (Rabs_pos_eq th) by lra. pose proof (Rabs_pos X). split; nra.
  Qed.

  (** ** Part 2: the three slabs *)
  Notation wfB' := (wfB prec emax Hprec Hmax).
  Notation wfR' := (wfR prec emax Hprec Hmax).
  Notation wB' := (wB prec emax Hprec Hmax).

  (** the format conditions: at least 5 bits, and the rounded constant [1 + 2 gamma3] is at least [1 + 6u]
      (binary64: exactly 1 + 3 * 2^-52, binary32: exactly 1 + 3 * 2^-23; see the end of the file) *)
  Definition margin_format : Prop := (5 <= prec)%Z /\ 1 + 6 * uR <= B2R wB'.
  Lemma margin_format_big : margin_format -> widen_big prec emax Hprec Hmax.
  Proof.
    intros (_ & H). unfold widen_big. apply Rle_trans with (2 := H).
    replace (1 - prec)%Z with (1 + - prec)%Z by ring. rewrite bpow_plus. fold uR. change (bpow radix2 1) with 2.
    pose proof uR_pos. lra.
  Qed.

  (** side conditions of one axis: finite inputs, the reciprocal as above, both plane parameters and
      their widened values finite, and no underflow in the product (a normal result; or the face
      passes through the origin coordinate, then the parameter is an exact zero) *)
  Definition param_ok (f o i : bf) : Prop :=
    fin (raw f o i) /\ fin (wfB' (raw f o i)) /\ (kmin <= Rabs (B2R (raw f o i)) \/ B2R f = B2R o).
  Definition axis_side (lo hi o d i : bf) : Prop :=
    fin lo /\ fin hi /\ fin o /\ (fin d /\ B2R d <> 0) /\ recip_ok d i /\ param_ok lo o i /\ param_ok hi o i.

  Lemma axis_facts (lo hi o d i : bf) : margin_format -> axis_side lo hi o d i ->
    let x1 := B2R (raw lo o i) in let x2 := B2R (raw hi o i) in
    let T1 := (B2R lo - B2R o) / B2R d in let T2 := (B2R hi - B2R o) / B2R d in
    let a := Rmin x1 x2 in let b := Rmax x1 x2 in let A := Rmin T1 T2 in let B := Rmax T1 T2 in
    (0 < A -> a * lo3 uR <= A) /\ (A <= 0 -> a <= 0) /\ a <= b /\
    (0 < B -> 0 < b /\ B <= b * hi3 uR /\ b * B2R wB' <= wfR' b * (1 + uR) /\ b < wfR' b).
  Proof.
    intros MF (Flo & Fhi & Fo & _ & Hr & (F1 & G1 & N1) & (F2 & G2 & N2)) x1 x2 T1 T2 a b A B.
    assert (Hu : 0 <= uR < 1) by (pose proof uR_pos; pose proof uR_half; lra).
    destruct (raw_rel lo o d i Flo Fo Hr F1 N1) as ((th1 & Hth1 & E1) & M1).
    destruct (raw_rel hi o d i Fhi Fo Hr F2 N2) as ((th2 & Hth2 & E2) & M2).
    fold x1 T1 in E1, M1. fold x2 T2 in E2, M2.
    destruct (slab_bounds uR x1 x2 T1 T2 th1 th2 Hu Hth1 Hth2 E1 E2) as (P1 & P2 & P3).
    fold a b A B in P1, P2, P3.
    split; [exact P1|]. split; [exact P2|]. split; [apply Rle_trans with x1; [apply Rmin_l | apply Rmax_l]|].
    intros HB. destruct (P3 HB) as (Pb & PB). split; [exact Pb|]. split; [exact PB|].
    assert (Fb : format b /\ (kmin <= Rabs b \/ b = 0)).
    { unfold b, Rmax. destruct (Rle_dec x1 x2); (split; [apply generic_format_B2R | assumption]). }
    destruct Fb as (Fb & Nb).
    assert (Kb : kmin <= b) by (destruct Nb as [Nb|Nb]; [rewrite Rabs_pos_eq in Nb; lra | lra]).
    pose proof (widen_strict prec emax Hprec Hmax b (margin_format_big MF) Fb Kb) as St.
    split; [|exact St].
    assert (Kw : kmin <= Rabs (wfR' b)) by (rewrite Rabs_pos_eq; lra).
    unfold wfR in *. fold wB' in *. destruct (err_normal _ Kw) as (e & He & Ee).
    apply Rabs_le_inv in He. rewrite Ee at 1.
    apply Rmult_le_compat_l; lra.
  Qed.

  (** *** boxes and rays: the exact parameters are those of Thm 1 ([t_near], [t_far] of Proofs/C14_real.v)
      read on the real values of the float inputs *)
  Definition B2V (v : V3 bf) : V3 R := mkV3 (B2R (vx v)) (B2R (vy v)) (B2R (vz v)).
  Definition boxR (b : BBox bf) : BBox R := mkBBox (B2V (bmin b)) (B2V (bmax b)).
  Definition rayR (r : Ray bf) : Ray R := mkRay (B2V (rorigin r)) (B2V (rdir r)).
  Definition side (b : BBox bf) (r : Ray bf) (i : V3 bf) : Prop :=
    axis_side (vx (bmin b)) (vx (bmax b)) (vx (rorigin r)) (vx (rdir r)) (vx i) /\
    axis_side (vy (bmin b)) (vy (bmax b)) (vy (rorigin r)) (vy (rdir r)) (vy i) /\
    axis_side (vz (bmin b)) (vz (bmax b)) (vz (rorigin r)) (vz (rdir r)) (vz i).
  (** the margin: every far end is ahead of the origin, and every near end that is ahead of the origin
      is below the far ends of the two OTHER axes by the factor [1 + 2u] *)
  Definition clear_by (c : R) (b : BBox R) (r : Ray R) : Prop :=
    (forall a, 0 < t_far b r a) /\
    (forall a a', a <> a' -> 0 < t_near b r a -> t_near b r a * (1 + c * uR) <= t_far b r a').

  Theorem float_complete_margin (b : BBox bf) (r : Ray bf) (i : V3 bf) :
    margin_format -> side b r i -> clear_by 2 (boxR b) (rayR r) -> bbox_intersect b r i = true.
  Proof.
    intros MF (SX & SY & SZ) (HF & HM).
    assert (Hu : 0 < uR <= / 32) by (split; [apply uR_pos | apply uR_small, MF]).
    pose proof (proj2 MF) as Hw.
    pose proof (axis_facts _ _ _ _ _ MF SX) as AX'. pose proof (axis_facts _ _ _ _ _ MF SY) as AY'.
    pose proof (axis_facts _ _ _ _ _ MF SZ) as AZ'. cbv zeta in AX', AY', AZ'.
    pose proof (HF AX) as FX. pose proof (HF AY) as FY. pose proof (HF AZ) as FZ.
    pose proof (HM AX AY ltac:(discriminate)) as Mxy. pose proof (HM AX AZ ltac:(discriminate)) as Mxz.
    pose proof (HM AY AX ltac:(discriminate)) as Myx. pose proof (HM AY AZ ltac:(discriminate)) as Myz.
    pose proof (HM AZ AX ltac:(discriminate)) as Mzx. pose proof (HM AZ AY ltac:(discriminate)) as Mzy.
    clear HF HM.
    unfold t_far, t_near, t_lo, t_hi, boxR, rayR, B2V in *. cbn [crd bmin bmax rorigin rdir vx vy vz] in *.
    destruct SX as (_ & _ & _ & _ & _ & (X1 & GX1 & _) & (X2 & GX2 & _)).
    destruct SY as (_ & _ & _ & _ & _ & (Y1 & GY1 & _) & (Y2 & GY2 & _)).
    destruct SZ as (_ & _ & _ & _ & _ & (Z1 & GZ1 & _) & (Z2 & GZ2 & _)).
    unfold bbox_intersect. rewrite intersect_is_core.
    rewrite (core_transfer prec emax Hprec Hmax) by assumption.
    destruct AX' as (ax1 & ax2 & ax3 & ax4). destruct AY' as (ay1 & ay2 & ay3 & ay4). destruct AZ' as (az1 & az2 & az3 & az4).
    destruct (ax4 FX) as (bx1 & bx2 & bx3 & bx4). destruct (ay4 FY) as (by1 & by2 & by3 & by4).
    destruct (az4 FZ) as (bz1 & bz2 & bz3 & bz4). clear ax4 ay4 az4.
    apply core_w_true; cbv zeta; try (intros _; apply Rlt_le; assumption); try assumption.
    repeat split.
    - apply Rle_lt_trans with (1 := ax3). exact bx4.
    - exact (margin_chain uR _ _ _ _ _ _ Hu ax1 ax2 FY by2 by1 by3 Hw Mxy).
    - exact (margin_chain uR _ _ _ _ _ _ Hu ax1 ax2 FZ bz2 bz1 bz3 Hw Mxz).
    - exact (margin_chain uR _ _ _ _ _ _ Hu ay1 ay2 FX bx2 bx1 bx3 Hw Myx).
    - apply Rle_lt_trans with (1 := ay3). exact by4.
    - exact (margin_chain uR _ _ _ _ _ _ Hu ay1 ay2 FZ bz2 bz1 bz3 Hw Myz).
    - exact (margin_chain uR _ _ _ _ _ _ Hu az1 az2 FX bx2 bx1 bx3 Hw Mzx).
    - exact (margin_chain uR _ _ _ _ _ _ Hu az1 az2 FY by2 by1 by3 Hw Mzy).
    - apply Rle_lt_trans with (1 := az3). exact bz4.
  Qed.

  (** *** the margin in terms of entry and exit parameters *)
  Definition t_enter (b : BBox R) (r : Ray R) : R := Rmax (Rmax (t_near b r AX) (t_near b r AY)) (t_near b r AZ).
  Definition t_exit (b : BBox R) (r : Ray R) : R := Rmin (Rmin (t_far b r AX) (t_far b r AY)) (t_far b r AZ).
  Lemma enter_exit_bounds (b : BBox R) (r : Ray R) (a : axis) : t_near b r a <= t_enter b r /\ t_exit b r <= t_far b r a.
  Proof.
    unfold t_enter, t_exit.
    pose proof (Rmax_l (Rmax (t_near b r AX) (t_near b r AY)) (t_near b r AZ)).
    pose proof (Rmax_r (Rmax (t_near b r AX) (t_near b r AY)) (t_near b r AZ)).
    pose proof (Rmax_l (t_near b r AX) (t_near b r AY)). pose proof (Rmax_r (t_near b r AX) (t_near b r AY)).
    pose proof (Rmin_l (Rmin (t_far b r AX) (t_far b r AY)) (t_far b r AZ)).
    pose proof (Rmin_r (Rmin (t_far b r AX) (t_far b r AY)) (t_far b r AZ)).
    pose proof (Rmin_l (t_far b r AX) (t_far b r AY)). pose proof (Rmin_r (t_far b r AX) (t_far b r AY)).
    destruct a; split; lra.
  Qed.
  Lemma clear_of_enter_exit (c : R) (b : BBox R) (r : Ray R) : 0 <= c ->
    0 < t_exit b r -> (0 < t_enter b r -> t_enter b r * (1 + c * uR) <= t_exit b r) -> clear_by c b r.
  Proof.
    intros Hc H0 HM. pose proof uR_pos as Hu. split.
    - intros a. pose proof (enter_exit_bounds b r a). lra.
    - intros a a' _ Ha. pose proof (enter_exit_bounds b r a) as [E1 _]. pose proof (enter_exit_bounds b r a') as [_ E2].
      assert (P : 0 < t_enter b r) by lra. specialize (HM P).
      assert (0 <= c * uR) by (apply Rmult_le_pos; lra).
      apply Rle_trans with (t_enter b r * (1 + c * uR)); [apply Rmult_le_compat_r; lra | lra].
  Qed.

  (** *** the margin in terms of a point of the ray: the box shrunk, relative to the origin, by [2u |face - o|]
      on every face (mirror image of [widened] in Thm 1); one axis may be flat instead, the point then
      lying exactly in the plane of the box *)
  Definition in_margin (b : BBox R) (o p : V3 R) (a : axis) : Prop :=
    crd a (bmin b) + 2 * uR * Rabs (crd a (bmin b) - crd a o) <= crd a p <=
    crd a (bmax b) - 2 * uR * Rabs (crd a (bmax b) - crd a o).
  Definition on_flat (b : BBox R) (p : V3 R) (a : axis) : Prop :=
    crd a (bmin b) = crd a (bmax b) /\ crd a p = crd a (bmin b).

  Lemma slab_margin (mn mx o d t v : R) : 0 <= v <= 1 -> d <> 0 -> 0 < t ->
    mn + v * Rabs (mn - o) <= o + d * t <= mx - v * Rabs (mx - o) ->
    let A := Rmin ((mn - o) / d) ((mx - o) / d) in let B := Rmax ((mn - o) / d) ((mx - o) / d) in
    (0 < A -> A * (1 + v) <= t) /\ A <= t /\ t * (1 + v) <= B /\ t <= B.
  Proof.
    intros Hv Hd Ht [H1 H2].
    set (T1 := (mn - o) / d). set (T2 := (mx - o) / d).
    assert (E1 : T1 * d = mn - o) by (unfold T1; field; exact Hd).
    assert (E2 : T2 * d = mx - o) by (unfold T2; field; exact Hd).
    clearbody T1 T2. cbv zeta.
    pose proof (Rabs_pos (mn - o)) as P1. pose proof (Rabs_pos (mx - o)) as P2.
    assert (Q1 : 0 <= v * Rabs (mn - o)) by (apply Rmult_le_pos; lra).
    assert (Q2 : 0 <= v * Rabs (mx - o)) by (apply Rmult_le_pos; lra).
    destruct (Rlt_dec 0 d) as [Dp|Dn].
    - assert (T12 : T1 <= T2) by nra. rewrite Rmin_left, Rmax_right by lra.
      assert (Mp : 0 < mx - o) by nra. rewrite (Rabs_pos_eq (mx - o)) in H2 by lra.
      assert (U : t <= T2 * (1 - v)). { apply Rmult_le_reg_r with d; [exact Dp|]. nra. }
      assert (T2p : 0 < T2) by nra.
      split; [|split; [nra | split; nra]].
      intros A0. assert (0 < mn - o) by nra. rewrite (Rabs_pos_eq (mn - o)) in H1 by lra.
      apply Rmult_le_reg_r with d; [exact Dp|]. nra.
    - assert (Dn' : d < 0) by lra. assert (T12 : T2 <= T1) by nra. rewrite Rmin_right, Rmax_left by lra.
      assert (Mp : mn - o < 0) by nra. rewrite (Rabs_left (mn - o)) in H1 by lra.
      assert (U : t <= T1 * (1 - v)). { apply Rmult_le_reg_r with (- d); [lra|]. nra. }
      assert (T1p : 0 < T1) by nra.
      split; [|split; [nra | split; nra]].
      intros A0. assert (mx - o < 0) by nra. rewrite (Rabs_left (mx - o)) in H2 by lra.
      apply Rmult_le_reg_r with (- d); [lra|]. nra.
  Qed.

  Lemma crd_project (r : Ray R) (t : R) (a : axis) :
    crd a (ray_project r t) = crd a (rorigin r) + crd a (rdir r) * t.
  Proof. destruct a; unfold ray_project, vadd, vscale; cbn [crd vx vy vz]; rnum; reflexivity. Qed.

  Theorem clear_of_point (b : BBox R) (r : Ray R) (t : R) : generic_dir r -> 0 < t ->
    (forall a, in_margin b (rorigin r) (ray_project r t) a \/ on_flat b (ray_project r t) a) ->
    (forall a a', a <> a' -> in_margin b (rorigin r) (ray_project r t) a \/ in_margin b (rorigin r) (ray_project r t) a') ->
    clear_by 2 b r.
  Proof.
    intros G Ht H1 H2.
    assert (Hv : 0 <= 2 * uR <= 1) by (pose proof uR_pos; pose proof uR_half; lra).
    pose proof uR_pos as Hu.
    assert (FM : forall a, in_margin b (rorigin r) (ray_project r t) a ->
                 (0 < t_near b r a -> t_near b r a * (1 + 2 * uR) <= t) /\ t_near b r a <= t /\
                 t * (1 + 2 * uR) <= t_far b r a /\ t <= t_far b r a).
    { intros a M. unfold in_margin in M. rewrite crd_project in M.
      exact (slab_margin _ _ _ _ _ _ Hv (G a) Ht M). }
    assert (FF : forall a, on_flat b (ray_project r t) a -> t_near b r a = t /\ t_far b r a = t).
    { intros a (Fl & Pl). rewrite crd_project in Pl. unfold t_near, t_far, t_lo, t_hi. rewrite <- Fl.
      assert (E : (crd a (bmin b) - crd a (rorigin r)) / crd a (rdir r) = t) by (rewrite <- Pl; field; exact (G a)).
      rewrite E. unfold Rmin, Rmax. destruct (Rle_dec t t); split; reflexivity. }
    assert (FB : forall a, t_near b r a <= t <= t_far b r a).
    { intros a. destruct (H1 a) as [M|M]; [destruct (FM a M) as (_ & ? & _ & ?) | destruct (FF a M) as (? & ?)]; lra. }
    split.
    - intros a. specialize (FB a). lra.
    - intros a a' Ne Pa. pose proof (FB a) as Ba. pose proof (FB a') as Ba'.
      destruct (H2 a a' Ne) as [M|M].
      + destruct (FM a M) as (F1 & _). specialize (F1 Pa). lra.
      + destruct (FM a' M) as (_ & _ & F3 & _).
        apply Rle_trans with (t * (1 + 2 * uR)); [apply Rmult_le_compat_r; lra | exact F3].
  Qed.

  (** ** Part 3: side conditions the model can evaluate, [inv_dir = 1.0 / d] computed by the model *)
  (** a normal number: finite, significand of full width *)
  Definition normalb (x : bf) : bool :=
    match x with B754_finite _ m _ _ => Z.leb (2 ^ (prec - 1)) (Zpos m) | _ => false end.
  (** finite and non-zero *)
  Definition nzfin (x : bf) : bool := match x with B754_finite _ _ _ _ => true | _ => false end.

  Lemma normalb_spec (x : bf) : normalb x = true -> fin x /\ kmin <= Rabs (B2R x).
  Proof.
    destruct x as [s|s| |s m e Hb]; try discriminate. intros H. split; [reflexivity|].
    apply Z.leb_le in H. pose proof Hprec as Hp. unfold FLX.Prec_gt_0 in Hp.
    assert (He : (emin <= e)%Z).
    { unfold bounded in Hb. apply andb_prop in Hb. destruct Hb as [Hc _]. unfold canonical_mantissa in Hc.
      apply Zeq_bool_eq in Hc. unfold SpecFloat.fexp, SpecFloat.emin in Hc. lia. }
    unfold B2R. rewrite F2R_cond_Zopp, abs_cond_Ropp, Rabs_pos_eq by (apply F2R_ge_0; simpl; lia).
    unfold F2R. cbn [Fnum Fexp].
    replace (emin + prec - 1)%Z with ((prec - 1) + emin)%Z by ring. rewrite bpow_plus.
    apply Rmult_le_compat; try apply bpow_ge_0.
    - rewrite <- IZR_Zpower by lia. apply IZR_le. exact H.
    - apply bpow_le. exact He.
  Qed.
  Lemma nzfin_spec (x : bf) : nzfin x = true -> fin x /\ B2R x <> 0.
  Proof.
    destruct x as [s|s| |s m e Hb]; try discriminate. intros _. split; [reflexivity|].
    intros E. simpl in E. apply eq_0_F2R in E. destruct s; discriminate.
  Qed.

  Definition param_okb (f o i : bf) : bool :=
    is_finite (raw f o i) && is_finite (wfB' (raw f o i)) && (normalb (raw f o i) || Beqb f o).
  Definition axis_okb (lo hi o d : bf) : bool :=
    let i := Bdiv mode_NE n1 d in
    is_finite lo && is_finite hi && is_finite o && nzfin d && normalb i && param_okb lo o i && param_okb hi o i.
  Definition margin_okb (b : BBox bf) (r : Ray bf) : bool :=
    axis_okb (vx (bmin b)) (vx (bmax b)) (vx (rorigin r)) (vx (rdir r)) &&
    axis_okb (vy (bmin b)) (vy (bmax b)) (vy (rorigin r)) (vy (rdir r)) &&
    axis_okb (vz (bmin b)) (vz (bmax b)) (vz (rorigin r)) (vz (rdir r)).

  Lemma param_okb_spec (f o i : bf) : fin f -> fin o -> param_okb f o i = true -> param_ok f o i.
  Proof.
    intros Ff Fo H. unfold param_okb in H. apply andb_prop in H. destruct H as [H H3].
    apply andb_prop in H. destruct H as [H1 H2]. split; [exact H1|]. split; [exact H2|].
    apply orb_prop in H3. destruct H3 as [N|E].
    - left. apply normalb_spec, N.
    - right. rewrite Beqb_correct in E by assumption. revert E. case Req_bool_spec; [auto | discriminate].
  Qed.
  Lemma axis_okb_spec (lo hi o d : bf) : axis_okb lo hi o d = true -> axis_side lo hi o d (Bdiv mode_NE n1 d).
  Proof.
    unfold axis_okb. cbv zeta. intros H.
    repeat match type of H with (_ && _ = true) => let H' := fresh "K" in apply andb_prop in H; destruct H as [H H'] end.
    destruct (nzfin_spec _ K2) as (Fd & Nd). destruct (normalb_spec _ K1) as (Fi & Ni).
    split; [exact H|]. split; [exact K4|]. split; [exact K3|]. split; [split; assumption|].
    split; [apply recip_of_div; assumption|].
    split; apply param_okb_spec; assumption.
  Qed.
  Lemma margin_okb_side (b : BBox bf) (r : Ray bf) :
    margin_okb b r = true -> side b r (inv_dirB prec emax Hprec Hmax (rdir r)).
  Proof.
    unfold margin_okb. intros H. apply andb_prop in H. destruct H as [H HZ]. apply andb_prop in H. destruct H as [HX HY].
    split; [|split]; [exact (axis_okb_spec _ _ _ _ HX) | exact (axis_okb_spec _ _ _ _ HY) | exact (axis_okb_spec _ _ _ _ HZ)].
  Qed.

  (** *** Thm 3 as the user reads it *)
  Theorem float_complete_okb (b : BBox bf) (r : Ray bf) : margin_format -> margin_okb b r = true ->
    clear_by 2 (boxR b) (rayR r) -> bbox_intersect b r (inv_dirB prec emax Hprec Hmax (rdir r)) = true.
  Proof. intros MF H C. apply float_complete_margin; [exact MF | apply margin_okb_side, H | exact C]. Qed.

  Theorem float_complete_enter_exit (b : BBox bf) (r : Ray bf) (i : V3 bf) : margin_format -> side b r i ->
    0 < t_exit (boxR b) (rayR r) ->
    (0 < t_enter (boxR b) (rayR r) -> t_enter (boxR b) (rayR r) * (1 + 2 * uR) <= t_exit (boxR b) (rayR r)) ->
    bbox_intersect b r i = true.
  Proof. intros MF S H0 HM. apply float_complete_margin; try assumption. apply clear_of_enter_exit; [lra | assumption | assumption]. Qed.

  Lemma side_generic (b : BBox bf) (r : Ray bf) (i : V3 bf) : side b r i -> generic_dir (rayR r).
  Proof.
    intros (SX & SY & SZ) a.
    destruct SX as (_ & _ & _ & (_ & NX) & _). destruct SY as (_ & _ & _ & (_ & NY) & _). destruct SZ as (_ & _ & _ & (_ & NZ) & _).
    destruct a; assumption.
  Qed.
  Theorem float_complete_point (b : BBox bf) (r : Ray bf) (i : V3 bf) (t : R) : margin_format -> side b r i -> 0 < t ->
    let p := ray_project (rayR r) t in let o := rorigin (rayR r) in
    (forall a, in_margin (boxR b) o p a \/ on_flat (boxR b) p a) ->
    (forall a a', a <> a' -> in_margin (boxR b) o p a \/ in_margin (boxR b) o p a') ->
    bbox_intersect b r i = true.
  Proof.
    intros MF S Ht p o H1 H2. apply float_complete_margin; try assumption.
    apply clear_of_point with t; try assumption. exact (side_generic b r i S).
  Qed.
End Margin.

(** ** Part 4: binary64 and binary32 *)
Lemma margin_format_64 : margin_format 53 1024 Hprec53 Hmax1024.
Proof.
  split; [lia|].
  assert (E : B2SF (wB 53 1024 Hprec53 Hmax1024) = S754_finite false 4503599627370499 (-52)) by (vm_compute; reflexivity).
  destruct (wB 53 1024 Hprec53 Hmax1024) as [s|s| |s m e H]; try discriminate. simpl in E. inversion E; subst.
  unfold uR, B2R, F2R. simpl. lra.
Qed.
Lemma margin_format_32 : margin_format 24 128 Hprec24 Hmax128.
Proof.
  split; [lia|].
  assert (E : B2SF (wB 24 128 Hprec24 Hmax128) = S754_finite false 8388611 (-23)) by (vm_compute; reflexivity).
  destruct (wB 24 128 Hprec24 Hmax128) as [s|s| |s m e H]; try discriminate. simpl in E. inversion E; subst.
  unfold uR, B2R, F2R. simpl. lra.
Qed.

(** ** Part 5: non-vacuity on binary64.  Unit cube; origin (-1, 1/4, 1/2); direction (3, 1/2, -1/4):
    [1/3] is rounded, the z slab needs the near/far swap; exact parameters x: [1/3, 2/3],
    y: [-1/2, 3/2], z: [-2, 2] *)
Definition m_box : BBox b64 := mkBBox (P zero64 zero64 zero64) (P one64 one64 one64).
Definition m_ray : Ray b64 := mkRay (P mone64 (q 1 (-2)) half64) (P (q 3 0) half64 (q (-1) (-2))).

Lemma B2R_SF64 (x : b64) s : B2SF x = s -> B2R x = SF2R radix2 s.
Proof. intros <-. symmetry. apply SF2R_B2SF. Qed.
Ltac b2r_const c s := rewrite (B2R_SF64 c s) by (vm_compute; reflexivity).

Lemma m_values : B2R zero64 = 0 /\ B2R one64 = 1 /\ B2R mone64 = -1 /\ B2R half64 = / 2 /\
  B2R (q 1 (-2)) = / 4 /\ B2R (q 3 0) = 3 /\ B2R (q (-1) (-2)) = - / 4.
Proof.
  b2r_const one64 (S754_finite false 4503599627370496 (-52)).
  b2r_const mone64 (S754_finite true 4503599627370496 (-52)).
  b2r_const half64 (S754_finite false 4503599627370496 (-53)).
  b2r_const (q 1 (-2)) (S754_finite false 4503599627370496 (-54)).
  b2r_const (q 3 0) (S754_finite false 6755399441055744 (-51)).
  b2r_const (q (-1) (-2)) (S754_finite true 4503599627370496 (-54)).
  unfold SF2R, F2R. simpl.
  repeat match goal with |- context [Z.pow_pos 2 ?e] =>
    let v := eval vm_compute in (Z.pow_pos 2 e) in change (Z.pow_pos 2 e) with v end.
  repeat split. all: lra.
Qed.

Lemma margin_nonvacuous :
  margin_format 53 1024 Hprec53 Hmax1024 /\ margin_okb 53 1024 Hprec53 Hmax1024 m_box m_ray = true /\
  clear_by 53 2 (boxR 53 1024 m_box) (rayR 53 1024 m_ray) /\
  bbox_intersect m_box m_ray (inv64 (rdir m_ray)) = true.
Proof.
  split; [exact margin_format_64|]. split; [vm_compute; reflexivity|]. split; [|vm_compute; reflexivity].
  destruct m_values as (V0 & V1 & Vm1 & Vh & Vq & V3 & Vmq).
  pose proof (uR_pos 53) as U0. pose proof (uR_small 53 ltac:(lia)) as U1.
  unfold clear_by, t_near, t_far, t_lo, t_hi, boxR, rayR, B2V, m_box, m_ray, P.
  assert (I2 : / / 2 = 2) by field. assert (I4 : / - / 4 = - 4) by field.
  split.
  - intros a; destruct a; cbn [crd bmin bmax rorigin rdir vx vy vz]; rewrite ?V0, ?V1, ?Vm1, ?Vh, ?Vq, ?V3, ?Vmq;
      unfold Rdiv; rewrite ?I2, ?I4; unfold Rmax; destruct (Rle_dec _ _); lra.
  - intros a a' Ne; destruct a, a'; try (exfalso; apply Ne; reflexivity);
      cbn [crd bmin bmax rorigin rdir vx vy vz]; rewrite ?V0, ?V1, ?Vm1, ?Vh, ?Vq, ?V3, ?Vmq;
      unfold Rdiv; rewrite ?I2, ?I4; unfold Rmin, Rmax; repeat destruct (Rle_dec _ _); intros; lra.
Qed.
