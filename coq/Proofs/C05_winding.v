(** * C05 proofs, part 3: the last link -- the ray-crossing parity of [test_point] is the parity of the WINDING NUMBER
    of Theory/Winding.v (the general library of crossing numbers), which is independent of the ray and, for an
    outline with winding numbers in {0,1} (the input space of DESIGN D2), is membership in the region. *)
From Coq Require Import ZArith Reals Lra Lia Bool List Arith Psatz.
From G3 Require Import Model.Num Model.Base Model.Vec Model.Segment Model.Loop Model.PinnedLoop Theory.RInst Theory.LoopGeom Proofs.C05_pointtest.
From G3 Require Theory.Cyclic Theory.Winding.
Import ListNotations.
Local Open Scope R_scope.

(** the planar predicates of Theory/LoopGeom.v are those of Theory/Winding.v *)
Lemma hgt2_is_hgt (q d p : P2) : hgt2 q d p = Winding.hgt d q p.
Proof. destruct q, d, p. unfold hgt2, det2, sub2, Winding.hgt. cbn [fst snd]. ring. Qed.
Lemma orient2_is_orient (a b p : P2) : orient2 a b p = Winding.orient a b p.
Proof. destruct a, b, p. unfold orient2, det2, sub2, Winding.orient. cbn [fst snd]. ring. Qed.
Lemma edges_from_is_edges_to (l : list P2) (z : P2) : edges_from l z = Cyclic.edges_to z l.
Proof.
  induction l as [|a l IH]; [reflexivity|]. cbn [edges_from Cyclic.edges_to]. rewrite IH. destruct l; reflexivity.
Qed.
Lemma cyc_edges2_is_edges_closed (vs : list P2) : cyc_edges2 vs = Cyclic.edges_closed vs.
Proof. unfold cyc_edges2, Cyclic.edges_closed. destruct vs as [|v tl]; [reflexivity|]. cbn [hd]. apply edges_from_is_edges_to. Qed.

(** off the edge's line, "the ray properly crosses the edge" is "the edge contributes to the winding number" *)
Lemma ray_cross2_is_crd (q d a b : P2) :
  orient2 a b q <> 0 -> ray_cross2 q d a b = negb (Z.eqb (Winding.crd d a b q) 0).
Proof.
  intros Ho. unfold ray_cross2, Winding.crd, Winding.crdR.
  assert (ED : det2 (sub2 b a) d = (hgt2 q d a - hgt2 q d b)%R) by (destruct q, d, a, b; unfold hgt2, det2, sub2; cbn [fst snd]; ring).
  rewrite ED. rewrite <- (hgt2_is_hgt q d a), <- (hgt2_is_hgt q d b), <- (orient2_is_orient a b q).
  set (ha := hgt2 q d a) in *. set (hb := hgt2 q d b) in *. set (o := orient2 a b q) in *.
  change Winding.rlt with Rltb.
  destruct (Rltb ha 0) eqn:A1; [apply Rltb_true in A1 | apply Rltb_false in A1];
  (destruct (Rltb 0 hb) eqn:B1; [apply Rltb_true in B1 | apply Rltb_false in B1]);
  (destruct (Rltb 0 o) eqn:O1; [apply Rltb_true in O1 | apply Rltb_false in O1]);
  (destruct (Rltb hb 0) eqn:B2; [apply Rltb_true in B2 | apply Rltb_false in B2]);
  (destruct (Rltb 0 ha) eqn:A2; [apply Rltb_true in A2 | apply Rltb_false in A2]);
  (destruct (Rltb o 0) eqn:O2; [apply Rltb_true in O2 | apply Rltb_false in O2]); cbn [andb negb Z.eqb];
  try (exfalso; lra).
  all: first [ apply andb_true_intro; split; [apply Rltb_true; nra | apply Rleb_true; nra]
             | apply andb_false_iff; destruct (Rle_or_lt 0 (ha * hb)); [left; apply Rltb_false; assumption | right; apply Rleb_false; nra] ].
Qed.

Theorem ray_parity_is_wn_parity (q d : P2) (vs : list P2) :
  (forall a b, In (a, b) (cyc_edges2 vs) -> orient2 a b q <> 0) ->
  xpar (ray_cross2 q d) (cyc_edges2 vs) = Z.odd (Winding.wn d vs q).
Proof.
  intros He. rewrite <- Z.negb_even, Winding.wn_parity_xcount, Nat.negb_even. unfold Winding.xcount.
  rewrite <- cyc_edges2_is_edges_closed.
  change (length (filter (fun e => negb (Z.eqb (Winding.crd d (fst e) (snd e) q) 0)) (cyc_edges2 vs)))
    with (countb (fun a b => negb (Z.eqb (Winding.crd d a b q) 0)) (cyc_edges2 vs)).
  rewrite odd_countb. apply xpar_ext. intros a b Hin. apply ray_cross2_is_crd. apply He. exact Hin.
Qed.

(** the point test with any in-plane cast segment that passes every vertex = parity of the winding number of the outline
    about q (in plane coordinates), computed along that ray *)
Theorem test_point_gen_wn_parity (rayf : Loop R -> V -> V) (L : Loop R) (q o e1 e2 : V) :
  lclosed L = true -> (1 <= llen L)%nat ->
  let n := lnormal L in let d := rayf L q in
  let pr := plane2 o e1 e2 in let q' := pr q in let d' := planev e1 e2 d in
  vis_zero n = false -> 0 < vdot n n -> n = vcross e1 e2 -> vdot n d = 0 ->
  (forall a b, In (a, b) (cyc_edges (verts L)) -> seg_contains_point (seg_new a b) q = Ok false /\ edge_generic n q d a b) ->
  0 < vdot d d -> long_enough q d (verts L) ->
  (forall a b, In (a, b) (cyc_edges (verts L)) -> orient2 (pr a) (pr b) q' <> 0) ->
  loop_test_point_gen rayf L q = Ok (Z.odd (Winding.wn d' (map pr (verts L)) q')).
Proof.
  cbn zeta. intros Hc Hlen Hz Hnn Hn Hnd He Hdd Hlong Hed.
  rewrite (test_point_gen_counts_ray_crossings rayf L q Hc Hlen Hz Hnn Hnd He Hdd Hlong). f_equal. rewrite odd_countb.
  rewrite <- ray_parity_is_wn_parity.
  - rewrite cyc_edges_map, xpar_map. apply xpar_ext. intros a b _. rewrite Hn. apply rayb3_plane.
  - intros a b Iab. rewrite cyc_edges_map in Iab. apply in_map_iff in Iab. destruct Iab as [[u w] [E Iu]]. cbn [fst snd] in E. injection E as Ea Eb. subst a b.
    apply Hed. exact Iu.
Qed.

(** ** the live code: [test_point] = parity of the winding number, along the code's ray ... *)
Theorem test_point_wn_parity (L : Loop R) (q o e1 e2 : V) :
  lclosed L = true -> (2 <= llen L)%nat ->
  let n := lnormal L in let d := test_ray L q in
  let pr := plane2 o e1 e2 in let q' := pr q in let d' := planev e1 e2 d in
  vis_zero n = false -> 0 < vdot n n -> n = vcross e1 e2 ->
  (forall a b, In (a, b) (cyc_edges (verts L)) -> seg_contains_point (seg_new a b) q = Ok false /\ edge_generic n q d a b) ->
  (forall a b, In (a, b) (cyc_edges (verts L)) -> orient2 (pr a) (pr b) q' <> 0) ->
  loop_test_point L q = Ok (Z.odd (Winding.wn d' (map pr (verts L)) q')).
Proof.
  cbn zeta. intros Hc Hlen Hz Hnn Hn He Hed. rewrite test_point_is_gen. unfold test_ray in *.
  destruct (loop_ray_facts L q Hlen (fun a b Hin => proj2 (He a b Hin))) as [Hnd [Hdd Hl]].
  apply (test_point_gen_wn_parity loop_ray); try assumption. lia.
Qed.

(** for an outline whose winding numbers are 0 or 1 (a valid polygon in the sense of DESIGN D2): inside <-> wn = 1 *)
Corollary test_point_is_membership (L : Loop R) (q o e1 e2 : V) :
  lclosed L = true -> (2 <= llen L)%nat ->
  let n := lnormal L in let d := test_ray L q in
  let pr := plane2 o e1 e2 in let q' := pr q in let d' := planev e1 e2 d in
  vis_zero n = false -> 0 < vdot n n -> n = vcross e1 e2 ->
  (forall a b, In (a, b) (cyc_edges (verts L)) -> seg_contains_point (seg_new a b) q = Ok false /\ edge_generic n q d a b) ->
  (forall a b, In (a, b) (cyc_edges (verts L)) -> orient2 (pr a) (pr b) q' <> 0) ->
  (0 <= Winding.wn d' (map pr (verts L)) q' <= 1)%Z ->
  (loop_test_point L q = Ok true <-> Winding.wn d' (map pr (verts L)) q' = 1%Z).
Proof.
  cbn zeta. intros Hc Hlen Hz Hnn Hn He Hed Hw.
  rewrite (test_point_wn_parity L q o e1 e2 Hc Hlen Hz Hnn Hn He Hed).
  set (w := Winding.wn _ _ _) in *. assert (H : w = 0%Z \/ w = 1%Z) by lia.
  destruct H as [H|H]; rewrite H; cbn; split; intros K; try discriminate; try lia; reflexivity.
Qed.

(** ... or along any other ray: any direction d2 that is generic for the projected outline gives the same winding number
    ([Winding.wn_ray_independent_strong]: q on no closed edge suffices, no Jordan-curve argument) *)
Corollary test_point_any_ray (L : Loop R) (q o e1 e2 : V) (d2 : P2) :
  lclosed L = true -> (2 <= llen L)%nat ->
  let n := lnormal L in let d := test_ray L q in
  let pr := plane2 o e1 e2 in let q' := pr q in let d' := planev e1 e2 d in
  vis_zero n = false -> 0 < vdot n n -> n = vcross e1 e2 ->
  (forall a b, In (a, b) (cyc_edges (verts L)) -> seg_contains_point (seg_new a b) q = Ok false /\ edge_generic n q d a b) ->
  (forall a b, In (a, b) (cyc_edges (verts L)) -> orient2 (pr a) (pr b) q' <> 0) ->
  Winding.generic d' q' (map pr (verts L)) -> Winding.generic d2 q' (map pr (verts L)) -> Winding.off_edges (map pr (verts L)) q' ->
  loop_test_point L q = Ok (Z.odd (Winding.wn d2 (map pr (verts L)) q')).
Proof.
  cbn zeta. intros Hc Hlen Hz Hnn Hn He Hed G1 G2 Off.
  rewrite (test_point_wn_parity L q o e1 e2 Hc Hlen Hz Hnn Hn He Hed).
  rewrite (Winding.wn_ray_independent_strong _ d2 _ _ G1 G2 Off). reflexivity.
Qed.

(** ** the code before fix 6f318c4: the same only under the length hypothesis *)
Theorem pinned_test_point_wn_parity (L : Loop R) (q o e1 e2 : V) :
  lclosed L = true -> (2 <= llen L)%nat ->
  let n := lnormal L in let d := pinned_ray L q in
  let pr := plane2 o e1 e2 in let q' := pr q in let d' := planev e1 e2 d in
  vis_zero n = false -> 0 < vdot n n -> n = vcross e1 e2 ->
  (forall a b, In (a, b) (cyc_edges (verts L)) -> seg_contains_point (seg_new a b) q = Ok false /\ edge_generic n q d a b) ->
  0 < vdot d d -> long_enough q d (verts L) ->
  (forall a b, In (a, b) (cyc_edges (verts L)) -> orient2 (pr a) (pr b) q' <> 0) ->
  loop_test_point_pinned L q = Ok (Z.odd (Winding.wn d' (map pr (verts L)) q')).
Proof.
  cbn zeta. intros Hc Hlen Hz Hnn Hn He Hdd Hl Hed. rewrite test_point_pinned_is_gen.
  apply (test_point_gen_wn_parity pinned_ray); try assumption; [lia|].
  apply (pinned_ray_in_plane L q Hlen). intros a b Hin. exact (proj2 (He a b Hin)).
Qed.
