(** * Quadric_place: the placement transform of [Cylinder3D::new_partial] (finding F4).
    [atan2] in polar form, then: the repaired composition [translate . rotate_z . rotate_y] maps the local
    axis point (0,0,s) to p0 + (s/|p1-p0|) (p1-p0); the composition as the code stands
    ([translate . rotate_y . rotate_z]) does not. *)
From Coq Require Import ZArith Reals Lra Bool List Psatz.
From G3 Require Import Model.Num Model.Base Model.Vec Model.BBox Model.RoundError Model.Transform Model.Hit Model.Sphere Model.Cylinder.
From G3 Require Import Theory.RInst Proofs.C06_transform Proofs.Quadric_base Proofs.Quadric_sphere Proofs.Quadric_cylinder.
Local Open Scope R_scope.

Lemma pos_sq_eq (a b : R) : 0 < a -> 0 < b -> a * a = b * b -> a = b.
Proof. intros. nra. Qed.

(** sin / cos of atan u with the denominator cleared: for x <> 0 and u = y/x *)
Lemma atan_polar (x y : R) : x <> 0 ->
  let rho := sqrt (x * x + y * y) in
  cos (atan (y / x)) = Rabs x / rho /\ sin (atan (y / x)) = (y / x) * Rabs x / rho.
Proof.
  intros Hx rho. set (u := y / x). assert (Hu : u * x = y) by (unfold u; field; exact Hx).
  rewrite cos_atan, sin_atan. unfold Rsqr. set (w := sqrt (1 + u * u)).
  assert (Hw : 0 < w) by (apply sqrt_lt_R0; nra).
  assert (Hw2 : w * w = 1 + u * u) by (apply sqrt_sqrt; nra).
  assert (Hl : 0 < x * x + y * y) by nra.
  assert (Hr : 0 < rho) by (apply sqrt_lt_R0; exact Hl).
  assert (Hr2 : rho * rho = x * x + y * y) by (apply sqrt_sqrt; lra).
  assert (Ha : 0 < Rabs x) by (apply Rabs_pos_lt; exact Hx).
  assert (Ha2 : Rabs x * Rabs x = x * x) by (unfold Rabs; destruct (Rcase_abs x); ring).
  assert (E : rho = Rabs x * w).
  { apply pos_sq_eq; [exact Hr | nra |]. rewrite Hr2. transitivity (Rabs x * Rabs x * (w * w)); [|ring]. rewrite Ha2, Hw2, <- Hu. ring. }
  rewrite E. split; field; lra.
Qed.

Lemma atan2_polar (x y : R) : 0 < x * x + y * y ->
  cos (Ratan2 y x) = x / sqrt (x * x + y * y) /\ sin (Ratan2 y x) = y / sqrt (x * x + y * y).
Proof.
  intros Hl. set (rho := sqrt (x * x + y * y)).
  assert (Hr : 0 < rho) by (apply sqrt_lt_R0; exact Hl).
  assert (Hr2 : rho * rho = x * x + y * y) by (apply sqrt_sqrt; lra).
  unfold Ratan2. destruct (Rlt_dec 0 x) as [Hx|Hx].
  - destruct (atan_polar x y ltac:(lra)) as [Hc Hs]. fold rho in Hc, Hs. rewrite Hc, Hs, Rabs_pos_eq by lra. split; field; lra.
  - destruct (Rlt_dec x 0) as [Hx'|Hx'].
    + destruct (atan_polar x y ltac:(lra)) as [Hc Hs]. fold rho in Hc, Hs.
      rewrite (Rabs_left x Hx') in Hc, Hs.
      destruct (Rle_dec 0 y).
      * rewrite neg_cos, neg_sin, Hc, Hs. split; field; lra.
      * rewrite cos_minus, sin_minus, cos_PI, sin_PI, Hc, Hs. split; field; lra.
    + assert (x = 0) by lra. subst x.
      destruct (Rlt_dec 0 y) as [Hy|Hy].
      * assert (E : rho = y) by (apply pos_sq_eq; nra). rewrite cos_PI2, sin_PI2, E. split; [unfold Rdiv; ring | field; lra].
      * destruct (Rlt_dec y 0) as [Hy'|Hy']; [|nra].
        assert (E : rho = - y) by (apply pos_sq_eq; nra).
        replace (- PI / 2) with (- (PI / 2)) by field. rewrite cos_neg, sin_neg, cos_PI2, sin_PI2, E. split; [unfold Rdiv; ring | field; lra].
Qed.
Lemma atan2_00 : Ratan2 0 0 = 0.
Proof. unfold Ratan2. destruct (Rlt_dec 0 0); [lra|]. reflexivity. Qed.

Lemma to_radians_degrees (a : R) : to_radians (to_degrees a) = a.
Proof.
  unfold to_radians, to_degrees, deg_per_rad. rnum.
  assert (E : Reqb (/ IZR (2 ^ 52)) (1 / 8388608) = false).
  { unfold Reqb. destruct (Req_EM_T (/ IZR (2 ^ 52)) (1 / 8388608)) as [H|H]; [exfalso|reflexivity].
    change (IZR (2 ^ 52)) with 4503599627370496 in H. lra. }
  rewrite E. field. pose proof PI_RGT_0. lra.
Qed.

(** rotations acting on points *)
Lemma rotate_y_pt (deg : R) (p : V) : tr_pt (tr_rotate_y deg) p =
  mkV3 (cos (to_radians deg) * vx p + sin (to_radians deg) * vz p) (vy p) (- sin (to_radians deg) * vx p + cos (to_radians deg) * vz p).
Proof. destruct p as [px py pz]. unfold tr_rotate_y. unf. apply v3_eq; cbn [vx vy vz]; field. Qed.
Lemma rotate_z_pt (deg : R) (p : V) : tr_pt (tr_rotate_z deg) p =
  mkV3 (cos (to_radians deg) * vx p - sin (to_radians deg) * vy p) (sin (to_radians deg) * vx p + cos (to_radians deg) * vy p) (vz p).
Proof. destruct p as [px py pz]. unfold tr_rotate_z. unf. apply v3_eq; cbn [vx vy vz]; field. Qed.
Lemma translate_pt (x y z : R) (p : V) : tr_pt (tr_translate x y z) p = mkV3 (vx p + x) (vy p + y) (vz p + z).
Proof. destruct p as [px py pz]. unf. apply v3_eq; cbn [vx vy vz]; field. Qed.

Lemma Inv_cyl_placement (p0 p1 : V) : Inv (cyl_placement p0 p1).
Proof. unfold cyl_placement. apply Inv_mul_assign; [apply Inv_mul_assign; [apply Inv_translate | apply Inv_rotate_z] | apply Inv_rotate_y]. Qed.
Lemma Inv_cyl_placement_pinned (p0 p1 : V) : Inv (cyl_placement_pinned p0 p1).
Proof. unfold cyl_placement_pinned. apply Inv_mul_assign; [apply Inv_mul_assign; [apply Inv_translate | apply Inv_rotate_y] | apply Inv_rotate_z]. Qed.

(** ** the repaired placement maps the axis segment onto [p0, p1] *)
Theorem cyl_placement_axis (p0 p1 : V) (s : R) : 0 < vlen2 (vsub p1 p0) ->
  tr_pt (cyl_placement p0 p1) (mkV3 0 0 s) = vadd p0 (vscale (vsub p1 p0) (s / vlen (vsub p1 p0))).
Proof.
  intros Hl. unfold cyl_placement. cbv zeta.
  pose proof (Inv_translate (vx p0) (vy p0) (vz p0)) as I0.
  pose proof (Inv_rotate_z (cyl_rot_z_degrees (vsub p1 p0))) as IZ.
  pose proof (Inv_rotate_y (cyl_rot_y_degrees (vsub p1 p0))) as IY.
  rewrite (mul_assign_acts_pt _ _ _ (Inv_mul_assign _ _ I0 IZ) IY), (mul_assign_acts_pt _ _ _ I0 IZ). clear I0 IZ IY.
  rewrite rotate_y_pt, rotate_z_pt, translate_pt. cbn [vx vy vz].
  unfold cyl_rot_y_degrees, cyl_rot_z_degrees. rewrite !to_radians_degrees. rnum.
  set (l := vsub p1 p0) in *. destruct l as [lx ly lz] eqn:El. cbn [vx vy vz] in *.
  unfold vlen, vlen2 in *. cbn [vx vy vz] in *. rnum.
  set (L := sqrt (lx * lx + ly * ly + lz * lz)). set (r2 := lx * lx + ly * ly).
  assert (Hr2d : r2 = lx * lx + ly * ly) by reflexivity.
  assert (H0 : 0 <= r2) by (unfold r2; nra).
  assert (Hrho2 : sqrt r2 * sqrt r2 = r2) by (apply sqrt_sqrt; exact H0).
  assert (HL : 0 < L) by (apply sqrt_lt_R0; exact Hl).
  destruct (atan2_polar lz (sqrt r2)) as [Ct St]; [rewrite Hrho2; unfold r2; lra|].
  rewrite Hrho2 in Ct, St. replace (lz * lz + r2) with (lx * lx + ly * ly + lz * lz) in Ct, St by (unfold r2; ring).
  fold L in Ct, St. rewrite Ct, St.
  destruct p0 as [ax ay az]. unfold vadd, vscale. cbn [vx vy vz]. rnum.
  destruct (Req_dec r2 0) as [Z|NZ].
  - assert (lx = 0 /\ ly = 0) as [Ex Ey] by (rewrite Hr2d in Z; split; nra).
    clearbody L r2. subst lx ly. rewrite Z, sqrt_0, atan2_00, cos_0, sin_0. apply v3_eq; cbn [vx vy vz]; unfold Rdiv; ring.
  - assert (Hr2 : 0 < r2) by lra. destruct (atan2_polar lx ly) as [Cp Sp]; [rewrite <- Hr2d; exact Hr2|].
    fold r2 in Cp, Sp. rewrite Cp, Sp.
    assert (0 < sqrt r2) by (apply sqrt_lt_R0; exact Hr2).
    clearbody L r2. apply v3_eq; cbn [vx vy vz]; field; lra.
Qed.
Corollary cyl_placement_ends (p0 p1 : V) : 0 < vlen2 (vsub p1 p0) ->
  tr_pt (cyl_placement p0 p1) (mkV3 0 0 0) = p0 /\ tr_pt (cyl_placement p0 p1) (mkV3 0 0 (vlen (vsub p1 p0))) = p1.
Proof.
  intros Hl. rewrite !cyl_placement_axis by exact Hl.
  assert (HL : 0 < vlen (vsub p1 p0)) by (unfold vlen; rnum; apply sqrt_lt_R0; exact Hl).
  destruct p0 as [ax ay az], p1 as [bx by_ bz]. unfold vadd, vscale, vsub in *. cbn [vx vy vz] in *. rnum.
  split; apply v3_eq; cbn [vx vy vz]; field; lra.
Qed.

(** ** ... the code as it stands does not: cylinder from (0,0,0) to (0,2,0) ends at (2,0,0) *)
Lemma cyl_placement_pinned_witness :
  tr_pt (cyl_placement_pinned (mkV3 0 0 0) (mkV3 0 2 0)) (mkV3 0 0 2) = mkV3 2 0 0.
Proof.
  unfold cyl_placement_pinned. cbv zeta.
  pose proof (Inv_translate 0 0 0) as I0.
  pose proof (Inv_rotate_z (cyl_rot_z_degrees (vsub (mkV3 0 2 0) (mkV3 0 0 0)))) as IZ.
  pose proof (Inv_rotate_y (cyl_rot_y_degrees (vsub (mkV3 0 2 0) (mkV3 0 0 0)))) as IY.
  cbn [vx vy vz].
  rewrite (mul_assign_acts_pt _ _ _ (Inv_mul_assign _ _ I0 IY) IZ), (mul_assign_acts_pt _ _ _ I0 IY). clear I0 IZ IY.
  rewrite rotate_z_pt, rotate_y_pt, translate_pt. cbn [vx vy vz].
  unfold cyl_rot_y_degrees, cyl_rot_z_degrees. rewrite !to_radians_degrees. unfold vsub. cbn [vx vy vz]. rnum.
  replace (0 - 0) with 0 by ring. replace (2 - 0) with 2 by ring.
  replace (0 * 0 + 2 * 2) with (2 * 2) by ring. rewrite sqrt_square by lra.
  assert (E : Ratan2 2 0 = PI / 2).
  { unfold Ratan2. destruct (Rlt_dec 0 0); [lra|]. destruct (Rlt_dec 0 2); [reflexivity | lra]. }
  rewrite E, cos_PI2, sin_PI2. apply v3_eq; cbn [vx vy vz]; ring.
Qed.
Theorem cyl_placement_pinned_misplaces :
  exists p0 p1 : V, 0 < vlen2 (vsub p1 p0) /\ tr_pt (cyl_placement_pinned p0 p1) (mkV3 0 0 (vlen (vsub p1 p0))) <> p1.
Proof.
  exists (mkV3 0 0 0), (mkV3 0 2 0). split.
  - unfold vlen2, vsub. cbn [vx vy vz]. rnum. lra.
  - assert (El : vlen (vsub (mkV3 0 2 0) (mkV3 0 0 0)) = 2).
    { unfold vlen, vlen2, vsub. cbn [vx vy vz]. rnum. replace ((0 - 0) * (0 - 0) + (2 - 0) * (2 - 0) + (0 - 0) * (0 - 0)) with (2 * 2) by ring. apply sqrt_square. lra. }
    rewrite El, cyl_placement_pinned_witness. intros H. apply (f_equal vx) in H. cbn [vx] in H. lra.
Qed.

(** the constructor with the repaired placement: fields and transform *)
Lemma phi_to_radians_ok (site : N) (phi : R) : exists r, phi_to_radians site phi = Ok r.
Proof.
  unfold phi_to_radians, fclamp, n0. rnum. destruct (Rleb 0 360) eqn:E; [|apply Rleb_false in E; lra].
  cbn [rbind]. eexists. reflexivity.
Qed.
Theorem cyl_new_partial_places (p0 p1 : V) (radius phi_max : R) (c : Cyl R) :
  cyl_new_partial p0 p1 radius phi_max = Ok c ->
  cradius c = radius /\ czmin c = 0 /\ czmax c = vlen (vsub p1 p0) /\ ctransform c = Some (cyl_placement p0 p1).
Proof.
  unfold cyl_new_partial, cyl_new_partial_with, cyl_new_transformed, n0. rnum.
  destruct (Rltb _ _); [discriminate|]. destruct (negb _); [discriminate|].
  destruct (phi_to_radians_ok 3 phi_max) as [r ->]. cbn [rbind]. intros [= <-]. cbn [cradius czmin czmax ctransform]. tauto.
Qed.

(** ** [phi] is the polar angle of the hit about the z axis *)
Lemma phi_of_polar (p : V) : 0 < vx p * vx p + vy p * vy p ->
  let rho := sqrt (vx p * vx p + vy p * vy p) in
  vx p = rho * cos (phi_of p) /\ vy p = rho * sin (phi_of p).
Proof.
  intros Hl rho. destruct (atan2_polar (vx p) (vy p) Hl) as [Cp Sp]. fold rho in Cp, Sp.
  assert (Hr : 0 < rho) by (apply sqrt_lt_R0; exact Hl).
  unfold phi_of, n0, n2. rnum. destruct (Rltb (Ratan2 (vy p) (vx p)) 0).
  - rewrite cos_plus, sin_plus, cos_2PI, sin_2PI, Cp, Sp. split; field; lra.
  - rewrite Cp, Sp. split; field; lra.
Qed.
Lemma atan_sign (u : R) : (0 < u -> 0 < atan u) /\ (u <= 0 -> atan u <= 0).
Proof.
  split; intros H.
  - rewrite <- atan_0. apply atan_increasing. exact H.
  - destruct H as [H | ->]; [|rewrite atan_0; lra]. rewrite <- atan_0. left. apply atan_increasing. exact H.
Qed.
Lemma atan2_range (y x : R) : - PI < Ratan2 y x <= PI.
Proof.
  pose proof PI_RGT_0 as Hpi. unfold Ratan2. destruct (Rlt_dec 0 x) as [Hx|Hx].
  - pose proof (atan_bound (y / x)). lra.
  - destruct (Rlt_dec x 0) as [Hx'|Hx'].
    + pose proof (atan_bound (y / x)) as B. destruct (atan_sign (y / x)) as [P N].
      destruct (Rle_dec 0 y) as [Hy|Hy].
      * assert (Q : y / x <= 0). { unfold Rdiv. assert (/ x < 0) by (apply Rinv_lt_0_compat; exact Hx'). nra. }
        specialize (N Q). lra.
      * assert (Q : 0 < y / x). { unfold Rdiv. assert (/ x < 0) by (apply Rinv_lt_0_compat; exact Hx'). nra. }
        specialize (P Q). lra.
    + destruct (Rlt_dec 0 y); [lra|]. destruct (Rlt_dec y 0); lra.
Qed.
Lemma phi_of_range (p : V) : 0 <= phi_of p < 2 * PI.
Proof.
  pose proof (atan2_range (vy p) (vx p)) as B. pose proof PI_RGT_0 as Hpi.
  unfold phi_of, n0, n2. rnum. rcase (Ratan2 (vy p) (vx p)) 0 Hc; lra.
Qed.

Lemma quadric_nonvacuous_proof :
  let ray := mkRay (mkV3 3 0 (1/2)) (mkV3 (-1) 0 0) in
  let s := mkSphere 1 (-1) 1 (2 * PI) PI 0 None in
  let c := mkCyl 1 0 2 (2 * PI) None in
  0 < sradius s /\ Quadric_sphere.sph_solvable s ray /\ 0 < cradius c /\ Quadric_cylinder.cyl_solvable c ray /\ 0 < vlen2 (vsub (mkV3 0 2 0) (mkV3 0 0 0)).
Proof.
  cbv zeta. unfold Quadric_sphere.sph_solvable, Quadric_cylinder.cyl_solvable, solvable, Quadric_sphere.sph_a, Quadric_sphere.sph_b, Quadric_sphere.sph_c,
    Quadric_cylinder.cyl_a, Quadric_cylinder.cyl_b, Quadric_cylinder.cyl_c, vlen2, vsub.
  cbn [sradius cradius rorigin rdir vx vy vz]. rnum. repeat split; try lra; intros [A B]; lra.
Qed.
