(** * Mesh_refine (C18): a successful [refine] ends with a pass that changed nothing, so every slot is
    valid and is below the area floor or within the requested aspect ratio.  Structural induction on
    the fuel; valid for EVERY number instance. *)
From Coq Require Import ZArith Bool List Arith Lia.
From G3 Require Import Model.Num Model.Base Model.Vec Model.Segment Model.Triangle Model.Loop Model.Polygon Model.Triangulation Proofs.Mesh_base.
Import ListNotations.
Local Open Scope num_scope.

Section Refine.
  Context {K : Type} {NK : Num K}.
  Notation V := (V3 K).
  Notation TP := (TriPiece K).
  Notation Mesh := (Mesh K).

  (** what the last pass checked of a slot: it is live, and it is either below the refinement floor
      (cached Heron area < 1e-3) or its cached aspect ratio does not exceed the bound *)
  Definition settled (max_aspect_ratio : K) (t : TP) : Prop :=
    tp_valid t = true /\ ((tarea (tp_tri t) <? c1em3) = true \/ (tp_ar t >? max_aspect_ratio) = false).

  Lemma skipn_cons {A} (i : nat) (L : list A) (t : A) (l : list A) : skipn i L = t :: l -> skipn (S i) L = l.
  Proof.
    revert L; induction i as [|i IH]; intros [|x L]; cbn [skipn]; try discriminate.
    - intros H; inversion H; reflexivity.
    - intros H. apply IH in H. exact H.
  Qed.

  (** an insertion that reports "nothing done" has not touched the mesh *)
  Lemma aptt_ok (i : nat) (p : V) (loc : PIT) (M M' : Mesh) (b : bool) :
    add_point_to_triangle i p loc M = (M', Ok b) -> (b = false -> M' = M) /\ (loc = Inside -> b = true).
  Proof.
    unfold add_point_to_triangle. intros H. apply mbind_ok in H. destruct H as (t & M1 & H1 & H2).
    unfold mget in H1. inversion H1; subst M1. clear H1.
    destruct (negb (tp_valid t)); [discriminate|].
    destruct (pit_is_vertex loc) eqn:Ev.
    - inversion H2; subst. split; [reflexivity|]. intros ->. discriminate.
    - destruct (pit_is_edge loc) eqn:Ee.
      + apply mbind_ok in H2. destruct H2 as (e & M2 & _ & H2). apply mbind_ok in H2. destruct H2 as (u & M3 & _ & H2).
        inversion H2; subst. split; [discriminate|reflexivity].
      + destruct loc; try discriminate.
        apply mbind_ok in H2. destruct H2 as (u & M3 & _ & H2). inversion H2; subst. split; [discriminate|reflexivity].
  Qed.
  Lemma add_point_false (p : V) (M M' : Mesh) : add_point p M = (M', Ok false) -> M' = M.
  Proof.
    unfold add_point. destruct (find_container (tris M) 0 p) as [[i loc]|]; [|discriminate].
    intros H. apply aptt_ok in H. apply H. reflexivity.
  Qed.

  (** the sweep: if it reports "no change" then it has not touched the mesh and every visited slot is settled *)
  Lemma refine_pass_false (max_area max_ar : K) :
    forall (cnt i : nat) (l : list TP) (any : bool) (M M' : Mesh),
      l = skipn i (tris M) ->
      refine_pass max_area max_ar cnt i l any M = (M', Ok false) ->
      any = false /\ M' = M /\ Forall (settled max_ar) (firstn cnt l).
  Proof.
    induction cnt as [|cnt IH]; intros i l any M M' Hl H.
    - cbn [refine_pass] in H. inversion H; subst. repeat split. constructor.
    - cbn [refine_pass] in H. destruct l as [|t l']; [discriminate|].
      assert (Hl' : l' = skipn (S i) (tris M)) by (symmetry; eapply skipn_cons; symmetry; exact Hl).
      destruct (negb (tp_valid t)) eqn:Ev; [discriminate|].
      assert (Hvalid : tp_valid t = true) by (destruct (tp_valid t); [reflexivity|discriminate]).
      destruct (tarea (tp_tri t) <? c1em3) eqn:Ea.
      { apply IH in H; [|exact Hl']. destruct H as (H1 & H2 & H3). repeat split; try assumption.
        cbn [firstn]. constructor; [|exact H3]. split; [exact Hvalid | left; exact Ea]. }
      destruct (tp_ar t >? max_ar) eqn:Er.
      { (* split the longest edge: the sweep continues with any_changes = true *)
        apply mbind_ok in H. destruct H as ([s_i s] & M1 & _ & H).
        apply mbind_ok in H. destruct H as (e & M2 & _ & H).
        apply mbind_ok in H. destruct H as (u1 & M3 & _ & H).
        apply mbind_ok in H. destruct H as (u2 & M4 & _ & H).
        apply IH in H; [|reflexivity]. destruct H as (H & _). discriminate. }
      destruct (tarea (tp_tri t) >? max_area) eqn:Em.
      { destruct (add_point (tp_cc t) M) as [M1 [did| c | s]] eqn:Eadd.
        - destruct did.
          + apply mbind_ok in H. destruct H as (u & M2 & _ & H). apply IH in H; [|reflexivity]. destruct H as (H & _). discriminate.
          + apply add_point_false in Eadd. subst M1.
            apply IH in H; [|reflexivity]. destruct H as (H1 & H2 & H3). repeat split; try assumption.
            cbn [firstn]. constructor; [split; [exact Hvalid | right; exact Er]|].
            rewrite Hl'. exact H3.
        - apply mbind_ok in H. destruct H as (t' & M2 & _ & H).
          apply mbind_ok in H. destruct H as (did & M3 & Hd & H).
          apply aptt_ok in Hd. destruct Hd as (_ & Hd). rewrite (Hd eq_refl) in H.
          apply mbind_ok in H. destruct H as (u & M4 & _ & H). apply IH in H; [|reflexivity]. destruct H as (H & _). discriminate.
        - discriminate. }
      apply IH in H; [|exact Hl']. destruct H as (H1 & H2 & H3). repeat split; try assumption.
      cbn [firstn]. constructor; [|exact H3]. split; [exact Hvalid | right; exact Er].
  Qed.

  (** C18: [refine] returning [Ok RDone] (not the model's [ROutOfFuel]) leaves only settled slots *)
  Theorem refine_ok_settled (fuel : nat) (max_area max_ar : K) :
    forall (M M' : Mesh), refine fuel max_area max_ar M = (M', Ok RDone) -> Forall (settled max_ar) (tris M').
  Proof.
    induction fuel as [|fuel IH]; intros M M' H.
    - cbn [refine] in H. inversion H.
    - cbn [refine] in H. apply mbind_ok in H. destruct H as (any & M1 & Hp & H).
      destruct any.
      + eapply IH. exact H.
      + inversion H; subst M1. clear H.
        apply refine_pass_false in Hp; [|reflexivity]. destruct Hp as (_ & -> & Hf).
        rewrite firstn_all in Hf. exact Hf.
  Qed.

  (** consequently nothing discarded is handed to the user, and the number of live slots is the number of slots *)
  Corollary refine_ok_all_valid (fuel : nat) (max_area max_ar : K) (M M' : Mesh) :
    refine fuel max_area max_ar M = (M', Ok RDone) -> forallb tp_valid (tris M') = true.
  Proof.
    intros H. apply refine_ok_settled in H. apply forallb_forall. intros t Ht.
    rewrite Forall_forall in H. apply H in Ht. apply Ht.
  Qed.

  Theorem mesh_polygon_ok_settled (fuel : nat) (P : Poly K) (max_area max_ar : K) (M : Mesh) :
    mesh_polygon fuel P max_area max_ar = Ok (M, RDone) -> Forall (settled max_ar) (tris M).
  Proof.
    unfold mesh_polygon. destruct (from_polygon P) as [t| |]; cbn [rbind]; try discriminate.
    destruct (refine fuel max_area max_ar t) as [t' [o| |]] eqn:E; cbn [rbind]; try discriminate.
    intros H. inversion H; subst. eapply refine_ok_settled. exact E.
  Qed.
End Refine.
