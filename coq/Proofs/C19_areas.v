(** * C19 proofs, part 4: the closed-form areas (definitional: the substance is the correspondence run). *)
From Coq Require Import ZArith Reals Lra Bool List Psatz.
From G3 Require Import Model.Num Model.Base Model.Vec Model.BBox Model.Transform Model.Areas Theory.RInst Proofs.C19_vec.
Local Open Scope R_scope.

Definition rad (deg : R) : R := deg * (PI / 180).
Lemma to_radians_R (d : R) : @to_radians R _ d = rad d. Proof. reflexivity. Qed.
Lemma rad_360 : rad 360 = 2 * PI. Proof. unfold rad. field. Qed.

Lemma fclamp_in (site : N) (x lo hi : R) : lo <= x <= hi -> fclamp site x lo hi = Ok x.
Proof.
  intros H. unfold fclamp. rnum. replace (Rleb lo hi) with true by (symmetry; apply Rleb_true; lra). cbn [negb].
  replace (Rltb x lo) with false by (symmetry; apply Rltb_false; lra).
  replace (Rltb hi x) with false by (symmetry; apply Rltb_false; lra). reflexivity.
Qed.
Lemma fclamp_spec (site : N) (x lo hi : R) : lo <= hi -> fclamp site x lo hi = Ok (Rmin hi (Rmax lo x)).
Proof.
  intros H. unfold fclamp. rnum. replace (Rleb lo hi) with true by (symmetry; apply Rleb_true; lra). cbn [negb]. f_equal.
  unfold Rmin, Rmax. rcase x lo H1.
  - destruct (Rle_dec lo x); [lra|]. rcase hi lo H2; destruct (Rle_dec hi lo); try reflexivity; lra.
  - destruct (Rle_dec lo x); [|lra]. rcase hi x H2; destruct (Rle_dec hi x); try reflexivity; lra.
Qed.
Lemma phi_ok (phi : R) : 0 <= phi <= 360 -> phi_in_range phi = true.
Proof.
  intros H. unfold phi_in_range, c360. rnum. pose proof epsR_pos as He. unfold epsR in He.
  apply andb_true_iff. split; apply Rleb_true; lra.
Qed.

(** ** sphere: phi_max * r * (zmax - zmin), the area of a spherical zone (Archimedes), over the longitude range *)
Lemma sphere_partial_area (r zmin zmax phi : R) : 0 <= r -> zmin <= zmax -> 0 <= phi <= 360 ->
  exists z, sphere_new_partial r zmin zmax phi = Ok z /\
            sphere_area z = rad phi * r * (Rmin r (Rmax (- r) zmax) - Rmin r (Rmax (- r) zmin)).
Proof.
  intros Hr Hz Hp. unfold sphere_new_partial. rnum. replace (Rltb zmax zmin) with false by (symmetry; apply Rltb_false; lra).
  rewrite !fclamp_spec by lra. cbn [rbind]. rewrite (phi_ok phi Hp). cbn [negb]. unfold c360, n0. rnum.
  rewrite fclamp_in by lra. cbn [rbind]. eexists. split; [reflexivity|]. unfold sphere_area. cbn [zradius zzmin zzmax zphi_max].
  rewrite to_radians_R. reflexivity.
Qed.
Lemma sphere_zone_area (r zmin zmax phi : R) : 0 <= r -> - r <= zmin -> zmin <= zmax -> zmax <= r -> 0 <= phi <= 360 ->
  exists z, sphere_new_partial r zmin zmax phi = Ok z /\ sphere_area z = rad phi * r * (zmax - zmin).
Proof.
  intros Hr H1 H2 H3 Hp. destruct (sphere_partial_area r zmin zmax phi Hr H2 Hp) as (z & E & A). exists z. split; [exact E|].
  rewrite A. rewrite (Rmax_right (- r) zmax), (Rmax_right (- r) zmin), !Rmin_right by lra. reflexivity.
Qed.
Lemma sphere_full_area (r : R) : 0 <= r -> exists z, sphere_new r = Ok z /\ sphere_area z = 4 * PI * (r * r).
Proof.
  intros Hr. unfold sphere_new. rnum. destruct (sphere_partial_area r (- (2) * r) (2 * r) 360 Hr ltac:(lra) ltac:(lra)) as (z & E & A).
  exists z. split; [exact E|]. rewrite A, rad_360.
  rewrite (Rmax_right (- r) (2 * r)), (Rmax_left (- r) (- (2) * r)), Rmin_left, Rmin_right by lra. ring.
Qed.
Lemma sphere_area_additive (r z0 z1 z2 p q : R) :
  rad (p + q) * r * (z2 - z0) = rad p * r * (z1 - z0) + rad p * r * (z2 - z1) + rad q * r * (z2 - z0).
Proof. unfold rad. ring. Qed.

(** ** cylinder: (zmax - zmin) * r * phi_max *)
Lemma cylinder_partial_area (dbg : bool) (r zmin zmax phi : R) : zmin < zmax -> 0 <= phi <= 360 ->
  exists z, cylinder_new_transformed r zmin zmax phi = Ok z /\ cylinder_area dbg z = Ok ((zmax - zmin) * r * rad phi).
Proof.
  intros Hz Hp. unfold cylinder_new_transformed. rnum. replace (Rltb zmax zmin) with false by (symmetry; apply Rltb_false; lra).
  rewrite (phi_ok phi Hp). cbn [negb]. unfold c360, n0. rnum. rewrite fclamp_in by lra. cbn [rbind]. eexists. split; [reflexivity|].
  unfold cylinder_area. cbn [zradius zzmin zzmax zphi_max]. rnum.
  replace (Rltb zmin zmax) with true by (symmetry; apply Rltb_true; lra). rewrite andb_false_r. rewrite to_radians_R. reflexivity.
Qed.
Lemma cylinder_full_area (dbg : bool) (p0 p1 : V) (r : R) : p0 <> p1 ->
  exists z, cylinder_new_partial p0 p1 r 360 = Ok z /\ cylinder_area dbg z = Ok (2 * PI * r * pdist p1 p0).
Proof.
  intros H. unfold cylinder_new_partial. rewrite <- pdist_vsub.
  assert (Hl : 0 < pdist p1 p0).
  { destruct (Rle_lt_or_eq_dec 0 (pdist p1 p0)) as [L|L]; [unfold pdist; rnum; apply sqrt_pos | exact L |].
    symmetry in L. apply pdist_zero in L. congruence. }
  unfold n0. rnum. destruct (cylinder_partial_area dbg r 0 (pdist p1 p0) 360 Hl ltac:(lra)) as (z & E & A). exists z. split; [exact E|].
  rewrite A, rad_360. f_equal. ring.
Qed.

(** ** disk / annulus / sector: phi_max / 2 * (r^2 - r_in^2) *)
Lemma disk_detailed_area (dbg : bool) (n pz : V) (r ri phi : R) (d : Disk R) : 0 <= phi <= 360 ->
  disk_new_detailed dbg n r ri pz phi = Ok d ->
  0 <= ri < r /\ dradius d = r /\ dinner d = ri /\ disk_area d = rad phi / 2 * (r * r - ri * ri).
Proof.
  intros Hp. unfold disk_new_detailed. destruct (vis_parallel _ _); [discriminate|]. destruct (dbg && _); [discriminate|]. rnum.
  rcase r ri H1'. { replace (Rleb r ri) with true by (symmetry; apply Rleb_true; lra). discriminate. }
  destruct (Rleb r ri) eqn:H1; [discriminate|]. apply Rleb_false in H1.
  rcase r 0 H2; [discriminate|]. rcase ri 0 H3; [discriminate|]. unfold c360, n0. rnum. rewrite fclamp_in by lra. cbn [rbind].
  intros E. inversion E. cbn [dradius dinner]. unfold disk_area. cbn [dradius dinner dphi_max]. unfold to_radians, rad. rnum.
  repeat split; try lra; try field.
Qed.
Lemma disk_full_area (dbg : bool) (n : V) (r : R) (d : Disk R) : disk_new dbg n r = Ok d -> 0 < r /\ disk_area d = PI * (r * r).
Proof.
  unfold disk_new. destruct (vget_perpendicular n) as [pz|e|q]; cbn [unwrap rbind]; try discriminate. unfold c360, n0. rnum.
  intros E. destruct (disk_detailed_area dbg n pz r 0 360 d ltac:(lra) E) as (H & _ & _ & A). split; [lra|]. rewrite A, rad_360. field.
Qed.
Lemma disk_annulus_area (dbg : bool) (n pz : V) (r ri : R) (d : Disk R) :
  disk_new_detailed dbg n r ri pz 360 = Ok d -> disk_area d = PI * (r * r) - PI * (ri * ri).
Proof. intros E. destruct (disk_detailed_area dbg n pz r ri 360 d ltac:(lra) E) as (_ & _ & _ & A). rewrite A, rad_360. field. Qed.

(** ** box: 2 (ab + bc + ca) for the absolute extents, whatever the order of the two corners *)
Lemma box_area_spec (a b : V) :
  box_area a b = 2 * (Rabs (vx b - vx a) * Rabs (vy b - vy a) + Rabs (vx b - vx a) * Rabs (vz b - vz a) + Rabs (vy b - vy a) * Rabs (vz b - vz a)).
Proof.
  destruct a as [ax ay az], b as [bx b_y bz]. unfold box_area, bbox_surface_area, bbox_new, mm, get_mins_maxs. cbn [vx vy vz]. rnum.
  rcase bx ax H1; rcase b_y ay H2; rcase bz az H3; cbn [bmin bmax]; vunf; unfold Rabs; repeat destruct (Rcase_abs _); nra.
Qed.
Lemma cube_area (a : V) (e : R) : box_area a (vadd a (mkV3 e e e)) = 6 * (e * e).
Proof.
  rewrite box_area_spec. destruct a as [ax ay az]. vunf. replace (ax + e - ax) with e by ring. replace (ay + e - ay) with e by ring.
  replace (az + e - az) with e by ring. pose proof (Rabs_pos e). assert (Rabs e * Rabs e = e * e) by (unfold Rabs; destruct (Rcase_abs e); ring). nra.
Qed.
