(** * Quadric_cylinder: ray / cylinder intersection on the real instance (C02, C03 part pquadric). *)
From Coq Require Import ZArith Reals Lra Bool List Psatz.
From G3 Require Import Model.Num Model.Base Model.Vec Model.BBox Model.RoundError Model.Transform Model.Hit Model.Sphere Model.Cylinder.
From G3 Require Import Theory.RInst Proofs.C06_transform Proofs.Quadric_base Proofs.Quadric_sphere.
Local Open Scope R_scope.

Notation C := (Cyl R).

Definition cyl_a (ray : Ray R) : R := vx (rdir ray) * vx (rdir ray) + vy (rdir ray) * vy (rdir ray).
Definition cyl_b (ray : Ray R) : R := (vx (rdir ray) * vx (rorigin ray) + vy (rdir ray) * vy (rorigin ray)) * 2.
Definition cyl_c (c : C) (ray : Ray R) : R :=
  vx (rorigin ray) * vx (rorigin ray) + vy (rorigin ray) * vy (rorigin ray) - cradius c * cradius c.

Lemma cyl_abc_pt (c : C) (ray : Ray R) :
  cyl_abc c ray vzero vzero = (pt (cyl_a ray), pt (cyl_b ray), pt (cyl_c c ray)).
Proof.
  unfold cyl_abc. rewrite vzero_R. cbn [vx vy vz]. rewrite !af_from_ve_0, !af_mul_pt, !af_add_pt.
  unfold n2. rnum. rewrite af_mul_f_pt, af_sub_f_pt. reflexivity.
Qed.

(** the infinite cylinder x^2 + y^2 = r^2 about the local z axis *)
Definition on_cyl (c : C) (q : V) : Prop := vx q * vx q + vy q * vy q = cradius c * cradius c.
Definition cyl_crossing (c : C) (ray : Ray R) (t : R) : Prop := on_cyl c (ray_project ray t).

Lemma cyl_quadratic (c : C) (ray : Ray R) (t : R) :
  let q := ray_project ray t in
  vx q * vx q + vy q * vy q - cradius c * cradius c = cyl_a ray * t * t + cyl_b ray * t + cyl_c c ray.
Proof.
  destruct ray as [[ox oy oz] [dx dy dz]]. unfold ray_project, vadd, vscale, cyl_a, cyl_b, cyl_c.
  cbn [rorigin rdir vx vy vz]. rnum. ring.
Qed.
Lemma cyl_crossing_iff (c : C) (ray : Ray R) (t : R) :
  cyl_crossing c ray t <-> cyl_a ray * t * t + cyl_b ray * t + cyl_c c ray = 0.
Proof. unfold cyl_crossing, on_cyl. pose proof (cyl_quadratic c ray t) as H. cbv zeta in H. rewrite <- H. lra. Qed.

Lemma cyl_reproject_id (c : C) (q : V) : 0 < cradius c -> on_cyl c q -> cyl_reproject c q = q.
Proof.
  intros Hr H. unfold cyl_reproject. rnum. unfold on_cyl in H. rewrite H, sqrt_square by lra.
  replace (cradius c / cradius c) with 1 by (field; lra). destruct q as [qx qy qz]. cbn [vx vy vz].
  apply v3_eq; cbn [vx vy vz]; ring.
Qed.
(** re-projection puts any point off the axis on the cylinder, keeping z *)
Lemma cyl_reproject_on (c : C) (q : V) : 0 < vx q * vx q + vy q * vy q ->
  on_cyl c (cyl_reproject c q) /\ vz (cyl_reproject c q) = vz q.
Proof.
  intros Hq. unfold on_cyl, cyl_reproject. cbn [vx vy vz]. rnum. split; [|reflexivity].
  set (L := vx q * vx q + vy q * vy q) in *.
  assert (Hs : sqrt L * sqrt L = L) by (apply sqrt_sqrt; lra).
  assert (Hp : 0 < sqrt L) by (apply sqrt_lt_R0; exact Hq).
  assert (E : (cradius c / sqrt L) * (cradius c / sqrt L) * (sqrt L * sqrt L) = cradius c * cradius c) by (field; lra).
  rewrite Hs in E. unfold L in E at 3. rewrite <- E. ring.
Qed.

Definition cyl_hit (ray : Ray R) (t : R) : V * R := let p := ray_project ray t in (p, phi_of p).
Lemma cyl_calc_crossing (c : C) (ray : Ray R) (t : R) : 0 < cradius c -> cyl_crossing c ray t ->
  cyl_calc c ray (pt t) = cyl_hit ray t.
Proof. intros Hr H. unfold cyl_calc, cyl_hit. rewrite af_as_float_pt, (cyl_reproject_id c _ Hr H). reflexivity. Qed.

Definition cyl_clips_ok (c : C) (h : V * R) : Prop :=
  czmin c <= vz (fst h) <= czmax c /\ snd h <= cphi_max c.
Lemma cyl_miss_false (c : C) (h : V * R) : cyl_miss c h = false <-> cyl_clips_ok c h.
Proof.
  destruct h as [p phi]. unfold cyl_miss, cyl_clips_ok. cbn [fst snd]. rnum.
  rcase (vz p) (czmin c) H2; rcase (czmax c) (vz p) H4; rcase (cphi_max c) phi H5; cbn [orb]; split; intros H;
    try discriminate; try reflexivity; try lra.
Qed.

Definition cyl_t0 (c : C) (ray : Ray R) := root0 (cyl_a ray) (cyl_b ray) (cyl_c c ray).
Definition cyl_t1 (c : C) (ray : Ray R) := root1 (cyl_a ray) (cyl_b ray) (cyl_c c ray).
Definition cyl_disc (c : C) (ray : Ray R) := disc (cyl_a ray) (cyl_b ray) (cyl_c c ray).
(** [0 < a]: the ray is not parallel to the axis; and it does not start on the cylinder tangentially *)
Definition cyl_solvable (c : C) (ray : Ray R) := solvable (cyl_a ray) (cyl_b ray) (cyl_c c ray).

Lemma cyl_root_crossing (c : C) (ray : Ray R) : 0 < cyl_a ray -> 0 <= cyl_disc c ray ->
  cyl_crossing c ray (cyl_t0 c ray) /\ cyl_crossing c ray (cyl_t1 c ray).
Proof.
  intros Ha HD. split; apply cyl_crossing_iff, roots_complete; try assumption; (split; [exact HD|]); [left | right]; reflexivity.
Qed.

Lemma cyl_basic_spec (c : C) (ray : Ray R) : 0 < cradius c -> cyl_solvable c ray ->
  cyl_basic c ray vzero vzero =
  if Rltb (cyl_disc c ray) 0 then None else
  if Rleb (cyl_t1 c ray) 0 then None else
  if Rltb 0 (cyl_t0 c ray) then
    (if cyl_miss c (cyl_hit ray (cyl_t0 c ray))
     then (if cyl_miss c (cyl_hit ray (cyl_t1 c ray)) then None else Some (cyl_hit ray (cyl_t1 c ray)))
     else Some (cyl_hit ray (cyl_t0 c ray)))
  else (if cyl_miss c (cyl_hit ray (cyl_t1 c ray)) then None else Some (cyl_hit ray (cyl_t1 c ray))).
Proof.
  intros Hr Hs. unfold cyl_basic, cyl_basic_tag. rewrite cyl_abc_pt, (solve_pt _ _ _ Hs).
  fold (cyl_disc c ray). rcase (cyl_disc c ray) 0 HD; [reflexivity|].
  fold (cyl_t0 c ray) (cyl_t1 c ray). rewrite select_hit_pt.
  destruct Hs as [Ha _]. destruct (cyl_root_crossing c ray Ha HD) as [C0 C1].
  rewrite (cyl_calc_crossing c ray _ Hr C0), (cyl_calc_crossing c ray _ Hr C1). reflexivity.
Qed.

Definition cyl_valid (c : C) (ray : Ray R) (t : R) : Prop :=
  0 < t /\ cyl_crossing c ray t /\ cyl_miss c (cyl_hit ray t) = false.
Theorem cyl_first_valid_crossing (c : C) (ray : Ray R) : 0 < cradius c -> cyl_solvable c ray ->
  match cyl_basic c ray vzero vzero with
  | Some h => exists t, cyl_valid c ray t /\ h = cyl_hit ray t /\ forall t', cyl_valid c ray t' -> t <= t'
  | None => forall t', ~ cyl_valid c ray t'
  end.
Proof.
  intros Hr Hs. pose proof Hs as [Ha _].
  unfold cyl_basic, cyl_basic_tag. rewrite cyl_abc_pt, (solve_pt _ _ _ Hs).
  fold (cyl_disc c ray). rcase (cyl_disc c ray) 0 HD.
  - cbn [fst]. intros t' (_ & Cr & _). apply cyl_crossing_iff, roots_complete in Cr; [|exact Ha]. fold (cyl_disc c ray) in Cr. lra.
  - fold (cyl_t0 c ray) (cyl_t1 c ray). destruct (cyl_root_crossing c ray Ha HD) as [C0 C1].
    pose proof (select_first_valid (cyl_t0 c ray) (cyl_t1 c ray) (cyl_calc c ray) (cyl_miss c) (cyl_hit ray)
                  (root_le _ _ _ Ha HD) (cyl_calc_crossing c ray _ Hr C0) (cyl_calc_crossing c ray _ Hr C1)) as F.
    assert (Hroots : forall t', cyl_crossing c ray t' -> t' = cyl_t0 c ray \/ t' = cyl_t1 c ray).
    { intros t' Cr. apply cyl_crossing_iff, roots_complete in Cr; [|exact Ha]. tauto. }
    destruct (fst (select_hit _ _ _ _)) as [h|]; cbn [first_valid] in F.
    + destruct F as (t & Ht & Hp & -> & Hm & Hmin). exists t. split; [|split].
      * split; [exact Hp|]. split; [destruct Ht as [-> | ->]; assumption | exact Hm].
      * reflexivity.
      * intros t' (Hp' & C' & M'). apply Hmin; auto.
    + intros t' (Hp' & C' & M'). rewrite (F t' (Hroots t' C') Hp') in M'. discriminate.
Qed.

Theorem cyl_hit_sound (c : C) (ray : Ray R) (p : V) (phi : R) : 0 < cradius c -> cyl_solvable c ray ->
  cyl_basic c ray vzero vzero = Some (p, phi) ->
  exists t, 0 < t /\ p = ray_project ray t /\ on_cyl c p /\ phi = phi_of p /\
            czmin c <= vz p <= czmax c /\ phi <= cphi_max c.
Proof.
  intros Hr Hs E. pose proof (cyl_first_valid_crossing c ray Hr Hs) as F. rewrite E in F.
  destruct F as (t & (Hp & Cr & M) & Eh & _). exists t. split; [exact Hp|].
  unfold cyl_hit in Eh. injection Eh as -> ->. split; [reflexivity|]. split; [exact Cr|]. split; [reflexivity|].
  apply cyl_miss_false in M. exact M.
Qed.

Theorem cyl_hit_any_boxes_partial (c : C) (ray : Ray R) (oe de p : V) (phi : R) :
  cyl_basic c ray oe de = Some (p, phi) ->
  exists th : AF R, 0 < low th /\
    let q := ray_project ray (af_as_float th) in
    p = cyl_reproject c q /\ phi = phi_of p /\ czmin c <= vz p <= czmax c /\ phi <= cphi_max c /\
    (0 < vx q * vx q + vy q * vy q -> on_cyl c p /\ vz p = vz q).
Proof.
  unfold cyl_basic, cyl_basic_tag. destruct (cyl_abc c ray oe de) as [[a b] cc].
  destruct (af_solve_quadratic a b cc) as [[t0 t1]|]; [|discriminate].
  intros E. apply select_hit_some in E. destruct E as (L1 & M & [[L0 E] | E]); [exists t0 | exists t1]; (split; [assumption|]); cbv zeta;
    unfold cyl_calc in E; injection E as -> ->; (split; [reflexivity|]); (split; [reflexivity|]);
    apply cyl_miss_false in M; destruct M as [Mz Mp]; cbn [fst snd] in Mz, Mp;
    (split; [exact Mz|]); (split; [exact Mp | apply cyl_reproject_on]).
Qed.

Lemma ip_info_new_c (ray : Ray R) (p du dv : V) : ip (info_new ray p du dv) = p.
Proof. apply ip_info_new. Qed.

Theorem cyl_intersect_world (c : C) (ray : Ray R) (i : Info R) (t : T) : ctransform c = Some t -> Inv t ->
  cyl_intersect c ray = Some i ->
  exists lr oe de p phi, tr_inv_ray t ray = (lr, oe, de) /\ cyl_basic c lr oe de = Some (p, phi) /\
    ip i = tr_pt t p /\ tr_inv_pt t (ip i) = p.
Proof.
  intros Ht Hi. unfold cyl_intersect, cyl_local_ray, cyl_intersect_local_ray. rewrite Ht.
  destruct (tr_inv_ray t ray) as [[lr oe] de]. destruct (cyl_basic c lr oe de) as [[p phi]|] eqn:E; [|discriminate].
  intros [= <-]. exists lr, oe, de, p, phi.
  assert (Hip : ip (info_transform (cyl_info c lr p phi) t) = tr_pt t p)
    by (unfold info_transform, cyl_info; cbn [ip]; rewrite ip_info_new; reflexivity).
  rewrite Hip. repeat split; try reflexivity; try assumption. apply inv_pt_pt. exact Hi.
Qed.
Theorem cyl_simple_intersect_world (c : C) (ray : Ray R) (P : V) (t : T) : ctransform c = Some t -> Inv t ->
  cyl_simple_intersect c ray = Some P ->
  exists lr oe de p phi, tr_inv_ray t ray = (lr, oe, de) /\ cyl_basic c lr oe de = Some (p, phi) /\
    P = tr_pt t p /\ tr_inv_pt t P = p.
Proof.
  intros Ht Hi. unfold cyl_simple_intersect, cyl_simple_local_ray, cyl_simple_intersect_local_ray. rewrite Ht.
  destruct (tr_inv_ray t ray) as [[lr oe] de]. destruct (cyl_basic c lr oe de) as [[p phi]|] eqn:E; [|discriminate].
  intros [= <-]. exists lr, oe, de, p, phi. repeat split; try reflexivity; try assumption. apply inv_pt_pt. exact Hi.
Qed.
Theorem cyl_intersect_untransformed (c : C) (ray : Ray R) (i : Info R) : ctransform c = None ->
  cyl_intersect c ray = Some i -> exists phi, cyl_basic c ray vzero vzero = Some (ip i, phi).
Proof.
  intros Ht. unfold cyl_intersect, cyl_local_ray, cyl_intersect_local_ray. rewrite Ht.
  destruct (cyl_basic c ray vzero vzero) as [[p phi]|]; [|discriminate]. intros [= <-]. exists phi.
  unfold cyl_info. rewrite ip_info_new. reflexivity.
Qed.

Lemma crossings_are_roots (s : S) (c : C) (ray : Ray R) (t : R) :
  (0 < sph_a ray -> (sph_crossing s ray t <-> 0 <= sph_disc s ray /\ (t = sph_t0 s ray \/ t = sph_t1 s ray))) /\
  (0 < cyl_a ray -> (cyl_crossing c ray t <-> 0 <= cyl_disc c ray /\ (t = cyl_t0 c ray \/ t = cyl_t1 c ray))).
Proof.
  split; intros Ha.
  - rewrite sph_crossing_iff. apply roots_complete. exact Ha.
  - rewrite cyl_crossing_iff. apply roots_complete. exact Ha.
Qed.
